(* Tree.v — prefix-encoded trees (shared by C08 and C09).  MODEL ONLY (no proofs).

   thefittest.base._tree.Tree stores a tree as the PREFIX (pre-order) list of its nodes
   ([Tree._nodes]) together with the array of their arities ([Tree._n_args]).  Here

     tree            the mathematical object: a symbol applied to a list of argument trees
     flatten t       its prefix encoding  (what Tree._nodes holds)
     nargs arity p   the arity array of a prefix list (what Tree._n_args holds)
     wft arity t     every node has exactly [arity s] arguments

   Everything is generic in the symbol type [sym] and an arity function (Section variables);
   the correspondence instantiates  sym := nat * nat  (identifier, arity),  arity := snd. *)
From Coq Require Import List Arith Bool Lia.
Import ListNotations.
Set Implicit Arguments.

Section Tree.
  Context {sym : Type}.

  Inductive tree := Node (s : sym) (kids : list tree).

  Definition root (t : tree) : sym := match t with Node s _ => s end.
  Definition children (t : tree) : list tree := match t with Node _ k => k end.

  (* prefix encoding *)
  Fixpoint flatten (t : tree) : list sym :=
    match t with Node s kids => s :: flat_map flatten kids end.
  Definition flats (ts : list tree) : list sym := flat_map flatten ts.

  Fixpoint size (t : tree) : nat :=
    match t with Node _ kids => S (list_sum (map size kids)) end.
  Definition sizes (ts : list tree) : nat := list_sum (map size ts).

  (* depth of a single node = 0, as Tree.get_max_level *)
  Fixpoint depth (t : tree) : nat :=
    match t with Node _ kids => fold_right (fun k m => Nat.max (S (depth k)) m) 0 kids end.

  (* level of every node in prefix order, the root being at level [lv] *)
  Fixpoint levels_rec (lv : nat) (t : tree) : list nat :=
    match t with Node _ kids => lv :: flat_map (levels_rec (S lv)) kids end.

  (* prefix positions at which the argument subtrees of a node start, the first argument
     starting at position [o] *)
  Fixpoint child_starts (o : nat) (kids : list tree) : list nat :=
    match kids with [] => [] | k :: r => o :: child_starts (o + size k) r end.

  (* the sub-term whose root is at prefix position i *)
  Fixpoint sub_at (t : tree) (i : nat) : option tree :=
    match i with
    | 0 => Some t
    | S j =>
      match t with Node _ kids =>
        (fix go (l : list tree) (j : nat) : option tree :=
           match l with
           | [] => None
           | k :: r => if j <? size k then sub_at k j else go r (j - size k)
           end) kids j
      end
    end.
  Definition sub_at_f : list tree -> nat -> option tree :=
    fix go (l : list tree) (j : nat) : option tree :=
      match l with
      | [] => None
      | k :: r => if j <? size k then sub_at k j else go r (j - size k)
      end.

  (* the term obtained by replacing the sub-term at prefix position i by u *)
  Fixpoint replace_at (t : tree) (i : nat) (u : tree) : tree :=
    match i with
    | 0 => u
    | S j =>
      match t with Node s kids =>
        Node s ((fix go (l : list tree) (j : nat) : list tree :=
           match l with
           | [] => []
           | k :: r => if j <? size k then replace_at k j u :: r else k :: go r (j - size k)
           end) kids j)
      end
    end.
  Definition replace_at_f (u : tree) : list tree -> nat -> list tree :=
    fix go (l : list tree) (j : nat) : list tree :=
      match l with
      | [] => []
      | k :: r => if j <? size k then replace_at k j u :: r else k :: go r (j - size k)
      end.

  (* level (distance from the root) of the node at prefix position i *)
  Fixpoint level_at (t : tree) (i : nat) : nat :=
    match i with
    | 0 => 0
    | S j =>
      match t with Node _ kids =>
        (fix go (l : list tree) (j : nat) : nat :=
           match l with
           | [] => 0
           | k :: r => if j <? size k then S (level_at k j) else go r (j - size k)
           end) kids j
      end
    end.

  (* ---- arity-dependent notions *)
  Variable arity : sym -> nat.

  Definition nargs (p : list sym) : list nat := map arity p.

  Fixpoint wft (t : tree) : bool :=
    match t with Node s kids => (length kids =? arity s) && forallb wft kids end.
  Definition wff (ts : list tree) : bool := forallb wft ts.

  (* a prefix list is well formed when it is the encoding of a well-formed tree *)
  Definition wf (p : list sym) : Prop := exists t, wft t = true /\ flatten t = p.

  (* parser: rebuilds the first [n] trees encoded at the front of a prefix list; the inverse of
     flatten on well-formed input (fuel = length of the list suffices). Used by the
     correspondence checkers to go from the implementation's node list to a [tree]. *)
  Fixpoint parse_n (fuel : nat) (n : nat) (p : list sym) : option (list tree * list sym) :=
    match n with
    | 0 => Some ([], p)
    | S n' =>
      match fuel with
      | 0 => None
      | S f =>
        match p with
        | [] => None
        | s :: p' =>
          match parse_n f (arity s) p' with
          | None => None
          | Some (kids, p'') =>
            match parse_n f n' p'' with
            | None => None
            | Some (ts, rest) => Some (Node s kids :: ts, rest)
            end
          end
        end
      end
    end.
  Definition parse (p : list sym) : option tree :=
    match parse_n (S (length p)) 1 p with
    | Some ([t], []) => Some t
    | _ => None
    end.
End Tree.

Arguments tree : clear implicits.

(* ---- nested induction principle: [list tree] inside [tree] defeats the automatic one *)
Section TreeInd.
  Context {sym : Type}.
  Variable P : tree sym -> Prop.
  Variable Q : list (tree sym) -> Prop.
  Hypothesis HNode : forall s kids, Q kids -> P (Node s kids).
  Hypothesis Hnil : Q [].
  Hypothesis Hcons : forall t ts, P t -> Q ts -> Q (t :: ts).

  Fixpoint tree_ind2 (t : tree sym) : P t :=
    match t with
    | Node s kids =>
      HNode s ((fix go (l : list (tree sym)) : Q l :=
                  match l with
                  | [] => Hnil
                  | k :: r => Hcons (tree_ind2 k) (go r)
                  end) kids)
    end.

  Definition forest_ind2 : forall ts, Q ts :=
    fix go (l : list (tree sym)) : Q l :=
      match l with
      | [] => Hnil
      | k :: r => Hcons (tree_ind2 k) (go r)
      end.
End TreeInd.

(* the same with Forall as the forest predicate *)
Definition tree_ind_Forall {sym : Type} (P : tree sym -> Prop)
  (H : forall s kids, Forall P kids -> P (Node s kids)) : forall t, P t :=
  tree_ind2 P (Forall P) H (Forall_nil P) (fun t ts Ht Hts => Forall_cons t Ht Hts).

(* map over the symbols of a tree (used for re-binding terminals) *)
Fixpoint tmap {A B : Type} (f : A -> B) (t : tree A) : tree B :=
  match t with Node s kids => Node (f s) (map (tmap f) kids) end.
