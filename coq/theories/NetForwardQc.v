(* NetForwardQc.v — C12: the theorems instantiated at the instance the correspondence evaluates
   (K = V = Qc, C12Check.v), and the record of DESIGN §7 item 14 (softmax per schedule group on
   hand-built nets whose softmax nodes have different source sets).                             *)
From TF Require Import Base Net NetAlgebra NetOrder NetForward NetProofs NetProofs2 NetOrderProofs
     NetForwardProofs NetForwardProofs2 NetMLPProofs C12Check.
From Coq Require Import Qcanon.
Local Open Scope nat_scope.

(* the checker's instance satisfies the hypotheses of the abstract theorems *)
Theorem forward_is_ref_qc n garbage x ws :
  Layered n -> sm_same n ->
  (forall v, In v (n_in n ++ hidden n ++ n_out n) -> v < length garbage) ->
  fwd_qc (order_fuel n) n garbage x ws = Some (map (fun w => ref_qc n w x) ws).
Proof.
  intros L SM H. unfold fwd_qc, ref_qc.
  apply (forward_is_ref Qc Qc (Q2Qc 0) (Q2Qc 0) Qcplus Qcmult act_qc smx_qc); auto.
  - intros a b. apply Qcplus_comm.
  - intros a b c. apply Qcplus_assoc.
Qed.

(* a normalising vector function on Qc standing in for softmax: v_i / sum(v) *)
Definition norm_qc (l : list Qc) : list Qc :=
  let s := fold_right Qcplus (Q2Qc 0) l in map (fun v => Qcdiv v s) l.

(* item 14: inputs {0,1}, outputs {2,3} both with code 5, rows 0->2 and 1->3 *)
Definition net14 : net := mkNet [0; 1] [] [2; 3] [(0, 2); (1, 3)] 2 [(2, 5); (3, 5)].

Theorem softmax_split_refuted :
  Valid net14 /\ ~ sm_same net14 /\
  exists x w garbage,
    NetForward.net_forward Qc Qc (Q2Qc 0) (Q2Qc 0) Qcplus Qcmult act_qc norm_qc
                           (order_fuel net14) net14 garbage x [w]
    <> Some [NetForward.ref_eval Qc Qc (Q2Qc 0) (Q2Qc 0) Qcplus Qcmult act_qc norm_qc net14 w x].
Proof.
  split; [apply valid_b_sound; vm_compute; reflexivity|]. split.
  - intro H. specialize (H 2 3 eq_refl eq_refl). vm_compute in H. discriminate.
  - exists [Q2Qc 1; Q2Qc 3], [Q2Qc 1; Q2Qc 1], (repeat (Q2Qc 0) 4).
    intro H.
    apply (f_equal (fun o => match o with Some l => map (map this) l | None => [] end)) in H.
    vm_compute in H. discriminate.
Qed.

(* ---------------------------------------------------------------- boolean premises are sound *)
Theorem layered_b_sound n : layered_b n = true -> Layered n.
Proof.
  unfold layered_b. intro H.
  apply andb_true_iff in H; destruct H as [H A5].
  apply andb_true_iff in H; destruct H as [H A4].
  apply andb_true_iff in H; destruct H as [H A3].
  apply andb_true_iff in H; destruct H as [A1 A2].
  pose proof (nodupb_NoDup _ A1) as ND.
  constructor.
  - exact ND.
  - exists (rank_of n). split; [|split; [|split]].
    + intros v Hv. apply level_rank_of; auto. left; auto.
    + intros i L v Hi Hv. apply level_rank_of; auto. right; left; eauto.
    + intros v Hv. apply level_rank_of; auto. right; right; auto.
    + intros a b Hab. rewrite forallb_forall in A2. specialize (A2 _ Hab). simpl in A2.
      apply andb_true_iff in A2; destruct A2 as [A2 B3].
      apply andb_true_iff in A2; destruct A2 as [B1 B2].
      apply Nat.ltb_lt in B1. apply orb_true_iff in B2. apply orb_true_iff in B3.
      rewrite !mem_In in B2. rewrite !mem_In in B3. auto.
  - intros v Hv. rewrite forallb_forall in A3.
    assert (Hin : In v (hidden n ++ n_out n)) by (apply in_app_iff; auto).
    specialize (A3 _ Hin). apply existsb_exists in A3. destruct A3 as [[a b] [Hab E]].
    simpl in E. apply Nat.eqb_eq in E. subst. eauto.
  - apply nodupb_NoDup; auto.
  - intro v. rewrite set_eq_spec in A5. rewrite A5, in_app_iff. tauto.
Qed.

Theorem sm_same_b_sound n :
  NoDup (map fst (n_act n)) -> sm_same_b n = true -> sm_same n.
Proof.
  intros ND H u v Hu Hv. unfold sm_same_b in H. rewrite forallb_forall in H.
  assert (In5 : forall k, alookup k (n_act n) = Some 5 ->
                          In k (map fst (filter (fun p => snd p =? 5) (n_act n)))).
  { intros k Hk. apply (alookup_In nat nat 0 0 (fun _ v => v) (fun _ v => v) k 5 (n_act n) ND) in Hk.
    apply in_map_iff. exists (k, 5). split; auto. apply filter_In. split; auto. }
  specialize (H u (In5 u Hu)). rewrite forallb_forall in H. specialize (H v (In5 v Hv)).
  apply natlist_eqb_eq in H. exact H.
Qed.

(* ---------------------------------------------------------------- library-built nets meet the premises *)
Lemma srcs_of_NoDup con t : NoDup con -> NoDup (srcs_of con t).
Proof.
  unfold srcs_of. induction con as [|[a b] r IH]; simpl; intro ND. constructor.
  inversion ND; subst. destruct (b =? t) eqn:E; simpl; auto.
  apply Nat.eqb_eq in E. subst b. constructor; auto.
  intro Hc. apply H1. apply in_map_iff in Hc. destruct Hc as [[a' b'] [Ea Hin]].
  apply filter_In in Hin. destruct Hin as [Hin Eb]. simpl in *. apply Nat.eqb_eq in Eb. subst. auto.
Qed.
Lemma key_of_NoDup con t : NoDup con -> NoDup (key_of con t).
Proof.
  intro ND. apply (Permutation.Permutation_NoDup (l := srcs_of con t)); [|apply srcs_of_NoDup; auto].
  unfold key_of, entries. rewrite <- (entries_from_srcs 0 con t).
  apply Permutation.Permutation_map. symmetry. apply sort_src_perm.
Qed.
Lemma sorted_le_nodup_lt l : Sorted.StronglySorted le l -> NoDup l -> Sorted.StronglySorted lt l.
Proof.
  induction 1; intro ND; constructor; inversion ND; subst; auto.
  apply Forall_forall. intros x Hx. rewrite Forall_forall in H0. specialize (H0 x Hx).
  assert (a <> x) by (intro; subst; auto). lia.
Qed.

(* decoded trees: the outputs share one source set; if softmax occurs only on the output layer
   (hidden blocks draw their activation from codes 0..4) the premises of C12_forward_is_ref hold *)
Theorem decoded_premises nv nout r :
  Decoded nv nout r -> (forall v, alookup v (n_act r) = Some 5 -> In v (n_out r)) ->
  Layered r /\ sm_same r.
Proof.
  intros D Hsm. split; [apply Valid_Layered, (d_valid _ _ _ D)|].
  intros u v Hu Hv. pose proof (v_nodup r (d_valid _ _ _ D)) as ND.
  apply sorted_lt_ext.
  - apply sorted_le_nodup_lt; [apply sort_src_sorted|apply key_of_NoDup; auto].
  - apply sorted_le_nodup_lt; [apply sort_src_sorted|apply key_of_NoDup; auto].
  - intro a. rewrite !key_of_In. split; apply (d_sources _ _ _ D); auto.
Qed.

(* MLP builder: bounded sweep (bound in the name): hidden tuples of <= 3 layers with sizes 1..3,
   n_inputs 1..4, n_outputs 1..3, offset on/off, softmax outputs *)
Definition mlp_premises_sweep : bool :=
  forallb (fun hs =>
    forallb (fun ni =>
      forallb (fun no =>
        forallb (fun offset =>
          match define_net true ni no hs 1 offset 5 with
          | Some r => chk_premises r
          | None => false
          end) [true; false]) [1; 2; 3]) [1; 2; 3; 4]) NetMLPProofs.tuples_upto3.
Theorem mlp_premises_sweep_3layers_size3_in4_out3 : mlp_premises_sweep = true.
Proof. vm_compute. reflexivity. Qed.
