(* GPOpsProofs4.v — C08, part 4: the uniform crossover family (uniform, proportional, rank,
   tournament) for ANY number of parents.
     mix_wf / mix_depth / mix_syms    closure of the specification relation  GPOps.mix
     uniform_fold_mix                 the loop of the uniform family, run over the recursive common
                                      region (GPOps.crk_tag) with ANY donor vector, builds a mix
     cr_rec_crk_tag                   for two trees the recursive common region of TreeIdx.cr_rec is
                                      crk_tag — so with TreeCR.common_region_two_spec the two-parent
                                      operators are closed outright
   For k <> 2 parents the k-tree walk  common_region_k  is only known to return the recursive
   region on the explored domain (C09 / C08 correspondence); the closure theorem carries that as a
   hypothesis. *)
From Coq Require Import List Arith Bool Lia ZArith QArith Permutation.
Import ListNotations.
From TF Require Import Base RandomPrims Tree TreeIdx TreeProofs TreeProofs2 TreeCR GPOps GPOpsProofs GPOpsProofs2.
Open Scope nat_scope.

Lemma all_eqb_spec (l : list nat) : all_eqb l = true -> forall x y, In x l -> In y l -> x = y.
Proof.
  destruct l as [|a r]; simpl; [contradiction|]. intros H x y Hx Hy. rewrite forallb_forall in H.
  assert (E : forall z, In z (a :: r) -> z = a).
  { intros z [<-|Hz]; auto. apply H in Hz. apply Nat.eqb_eq in Hz. auto. }
  rewrite (E x Hx), (E y Hy). reflexivity.
Qed.

Lemma NoDup_map_inj {A B} (f : A -> B) (l : list A) a b :
  NoDup (map f l) -> In a l -> In b l -> f a = f b -> a = b.
Proof.
  induction l as [|x l IH]; simpl; intros ND Ha Hb E; [contradiction|].
  inversion ND as [|? ? Hn ND']; subst.
  destruct Ha as [<-|Ha]; destruct Hb as [<-|Hb]; auto.
  - exfalso. apply Hn. rewrite E. apply in_map; auto.
  - exfalso. apply Hn. rewrite <- E. apply in_map; auto.
Qed.

Lemma NoDup_app_disj {A} (l1 l2 : list A) :
  NoDup l1 -> NoDup l2 -> (forall x, In x l1 -> In x l2 -> False) -> NoDup (l1 ++ l2).
Proof.
  induction l1 as [|a l1 IH]; simpl; intros N1 N2 D; auto.
  inversion N1; subst. constructor.
  - intro H. apply in_app_or in H. destruct H; auto. eapply D; eauto.
  - apply IH; auto. intros x H1' H2'. eapply D; eauto.
Qed.

Section U.
  Context {sym : Type}.
  Variable arity : sym -> nat.
  Notation tree := (tree sym).
  Notation nargs := (nargs arity).
  Notation wft := (wft arity).
  Notation wff := (wff arity).
  Notation mk := (mk arity).
  Notation good := (good arity).
  Notation mix := (mix arity).
  Notation crk_tag := (crk_tag arity).
  Notation root_arities := (root_arities arity).
  Notation pt := (ptree sym).

  (* ---------------------------------------------------------------- children *)
  Lemma wft_children (t : tree) : wft t = true ->
    length (children t) = arity (root t) /\ forall k, In k (children t) -> wft k = true.
  Proof.
    destruct t as [s kids]. intros W. apply wft_Node in W. destruct W as (L & W). split; auto.
    simpl. unfold Tree.wff in W. rewrite forallb_forall in W. auto.
  Qed.
  Lemma child_depth_lt (t : tree) k : In k (children t) -> depth k < depth t.
  Proof.
    destruct t as [s kids]. simpl children. rewrite depth_Node. induction kids as [|x r IH]; [contradiction|].
    rewrite depth_f_cons. intros [->|H]; [lia|]. apply IH in H. lia.
  Qed.
  Lemma child_syms (t : tree) k x : In k (children t) -> In x (flatten k) -> In x (flatten t).
  Proof.
    destruct t as [s kids]. simpl children. intros Hk Hx. rewrite flatten_Node. right.
    unfold flats. apply in_flat_map. eauto.
  Qed.
  Lemma root_in (t : tree) : In (root t) (flatten t).
  Proof. destruct t; simpl; auto. Qed.

  (* in a tuple of well-formed trees whose root arities agree every tree has n arguments *)
  Lemma same_arity (ts : list tree) t0 : Forall (fun t => wft t = true) ts -> all_eqb (root_arities ts) = true ->
    In t0 ts -> forall t, In t ts -> length (children t) = arity (root t0).
  Proof.
    intros W A H0 t Ht. rewrite Forall_forall in W. destruct (wft_children t (W t Ht)) as (L & _). rewrite L.
    apply (all_eqb_spec _ A); unfold GPOps.root_arities; apply in_map_iff; eauto.
  Qed.

  Lemma kid_col_In i (ts : list tree) k : In k (kid_col i ts) -> exists t, In t ts /\ k = nth i (children t) t.
  Proof. unfold kid_col. rewrite in_map_iff. intros (t & E & H). eauto. Qed.

  (* ---------------------------------------------------------------- closure of mix *)
  Theorem mix_wf ts c : mix ts c -> Forall (fun t => wft t = true) ts -> wft c = true.
  Proof.
    induction 1 as [ts t A Hin|ts s kids A (t0 & Ht0 & Hr) HL HK IH]; intros W.
    - rewrite Forall_forall in W. auto.
    - apply wft_Node. split; auto. unfold Tree.wff. apply forallb_forall. intros k Hk.
      destruct (In_nth _ _ (Node s []) Hk) as (i & Hi & <-). apply IH; auto.
      rewrite Forall_forall. intros k' Hk'. apply kid_col_In in Hk'. destruct Hk' as (t & Ht & ->).
      pose proof (same_arity ts t0 W A Ht0 t Ht) as Ln. rewrite Hr, <- HL in Ln.
      rewrite Forall_forall in W. destruct (wft_children t (W t Ht)) as (_ & Wk). apply Wk, nth_In. lia.
  Qed.

  Theorem mix_depth ts c : mix ts c -> Forall (fun t => wft t = true) ts ->
    forall d, (forall t, In t ts -> depth t <= d) -> depth c <= d.
  Proof.
    induction 1 as [ts t A Hin|ts s kids A (t0 & Ht0 & Hr) HL HK IH]; intros W d Hd; auto.
    rewrite depth_Node. apply depth_f_le. rewrite Forall_forall. intros k Hk.
    destruct (In_nth _ _ (Node s []) Hk) as (i & Hi & <-).
    assert (Hkids : forall k', In k' (kid_col i ts) -> wft k' = true /\ S (depth k') <= d).
    { intros k' Hk'. apply kid_col_In in Hk'. destruct Hk' as (t & Ht & ->).
      pose proof (same_arity ts t0 W A Ht0 t Ht) as Ln. rewrite Hr, <- HL in Ln.
      rewrite Forall_forall in W. destruct (wft_children t (W t Ht)) as (_ & Wk).
      assert (Hn : In (nth i (children t) t) (children t)) by (apply nth_In; lia).
      split; [auto|]. pose proof (child_depth_lt t _ Hn). pose proof (Hd t Ht). lia. }
    destruct d as [|d].
    - destruct ts as [|t1 ts]; [destruct Ht0|].
      assert (Hx : In (nth i (children t1) t1) (kid_col i (t1 :: ts))) by (left; reflexivity).
      apply Hkids in Hx. lia.
    - assert (depth (nth i kids (Node s [])) <= d); [|lia]. apply IH; auto.
      + rewrite Forall_forall. intros k' Hk'. apply Hkids; auto.
      + intros k' Hk'. apply Hkids in Hk'. lia.
  Qed.

  Theorem mix_syms ts c : mix ts c -> Forall (fun t => wft t = true) ts ->
    forall x, In x (flatten c) -> exists t, In t ts /\ In x (flatten t).
  Proof.
    induction 1 as [ts t A Hin|ts s kids A (t0 & Ht0 & Hr) HL HK IH]; intros W x Hx; eauto.
    rewrite flatten_Node in Hx. destruct Hx as [<-|Hx].
    - exists t0. split; auto. rewrite <- Hr. apply root_in.
    - unfold flats in Hx. apply in_flat_map in Hx. destruct Hx as (k & Hk & Hx).
      destruct (In_nth _ _ (Node s []) Hk) as (i & Hi & <-).
      assert (Wk : Forall (fun t => wft t = true) (kid_col i ts)).
      { rewrite Forall_forall. intros k' Hk'. apply kid_col_In in Hk'. destruct Hk' as (t & Ht & ->).
        pose proof (same_arity ts t0 W A Ht0 t Ht) as Ln. rewrite Hr, <- HL in Ln.
        rewrite Forall_forall in W. destruct (wft_children t (W t Ht)) as (_ & Wk). apply Wk, nth_In. lia. }
      destruct (IH i Hi Wk x Hx) as (k' & Hk' & Hx'). apply kid_col_In in Hk'. destruct Hk' as (t & Ht & ->).
      exists t. split; auto.
      pose proof (same_arity ts t0 W A Ht0 t Ht) as Ln. rewrite Hr, <- HL in Ln.
      eapply child_syms; [|exact Hx']. apply nth_In. lia.
  Qed.

  (* ---------------------------------------------------------------- the tagged region: heads *)
  Definition hd0 (c : tcol) : nat := hd 0 (fst c).
  Definition in_range (lo hi : nat) (L : list tcol) : Prop := Forall (fun c => lo <= hd0 c < hi) L.

  Lemma skipn_nth_cons {A} (l : list A) i d : i < length l -> skipn i l = nth i l d :: skipn (S i) l.
  Proof.
    revert i; induction l as [|x l IH]; intros [|i] H; simpl in *; try lia; auto. apply IH. lia.
  Qed.

  Lemma crk_heads : forall f (t0 : tree) ts' o0 os', wft t0 = true ->
    in_range o0 (o0 + size t0) (crk_tag f (t0 :: ts') (o0 :: os')) /\
    NoDup (map hd0 (crk_tag f (t0 :: ts') (o0 :: os'))).
  Proof.
    induction f as [|f IH]; intros t0 ts' o0 os' W; cbn [GPOps.crk_tag].
    - split; constructor.
    - destruct (all_eqb (root_arities (t0 :: ts'))) eqn:A.
      2:{ split; [|simpl; constructor; [intros []|constructor]].
          constructor; [|constructor]. unfold hd0. simpl. pose proof (size_pos t0). lia. }
      assert (K : forall n i o os1, i + n = length (children t0) ->
                in_range o (o + sizes (skipn i (children t0)))
                         (crk_kids (crk_tag f) n i (t0 :: ts') (o :: os1)) /\
                NoDup (map hd0 (crk_kids (crk_tag f) n i (t0 :: ts') (o :: os1)))).
      { induction n as [|n IHn]; intros i o os1 Hin; simpl crk_kids.
        - split; constructor.
        - assert (Hi : i < length (children t0)) by lia.
          rewrite (skipn_nth_cons _ _ t0 Hi), sizes_cons.
          destruct (wft_children t0 W) as (_ & Wk).
          assert (Wi : wft (nth i (children t0) t0) = true) by (apply Wk, nth_In; auto).
          unfold kid_col at 1 3. simpl map. simpl combine. simpl map.
          destruct (IH (nth i (children t0) t0) (map (fun t => nth i (children t) t) ts') o os1 Wi) as (R1 & N1).
          destruct (IHn (S i) (o + size (nth i (children t0) t0))
                        (map (fun ok => fst ok + size (snd ok)) (combine os1 (map (fun t => nth i (children t) t) ts')))
                        ltac:(lia)) as (R2 & N2).
          unfold kid_col in *. split.
          + apply Forall_app. split.
            * eapply Forall_impl; [|exact R1]. simpl. intros; lia.
            * eapply Forall_impl; [|exact R2]. simpl. intros; lia.
          + rewrite map_app. apply NoDup_app_disj; auto.
            intros x H1 H2. apply in_map_iff in H1. destruct H1 as (c1 & <- & H1).
            apply in_map_iff in H2. destruct H2 as (c2 & E & H2).
            unfold in_range in R1, R2. rewrite Forall_forall in R1, R2. apply R1 in H1. apply R2 in H2. lia. }
      destruct (wft_children t0 W) as (Ln & _).
      specialize (K (hd 0 (root_arities (t0 :: ts'))) 0 (S o0) (map S os')).
      simpl hd in K. simpl map in K. specialize (K ltac:(simpl; lia)). simpl skipn in K.
      destruct K as (R & N). split.
      + constructor.
        * unfold hd0. simpl. pose proof (size_pos t0). lia.
        * eapply Forall_impl; [|exact R]. simpl. intros c Hc. destruct t0 as [s kids]. rewrite size_Node. simpl in Hc. lia.
      + simpl map. constructor; auto. intro H. apply in_map_iff in H. destruct H as (c & E & H).
        unfold in_range in R. rewrite Forall_forall in R. apply R in H. unfold hd0 in E at 2. simpl in E. lia.
  Qed.

  (* membership in border[0] decides exactly the tag *)
  Lemma retag (L : list tcol) : NoDup (map hd0 L) -> forall c, In c L ->
    existsb (Nat.eqb (hd 0 (fst c))) (map (hd 0) (map fst (filter snd L))) = snd c.
  Proof.
    intros ND c Hc. destruct (snd c) eqn:Ec.
    - apply existsb_exists. exists (hd 0 (fst c)). split; [|apply Nat.eqb_refl].
      apply in_map, in_map. apply filter_In. auto.
    - destruct (existsb _ _) eqn:Ex; auto. exfalso.
      apply existsb_exists in Ex. destruct Ex as (x & Hx & E). apply Nat.eqb_eq in E. subst x.
      rewrite map_map in Hx. apply in_map_iff in Hx. destruct Hx as (c' & E' & Hc').
      apply filter_In in Hc'. destruct Hc' as (Hc' & T').
      assert (c' = c) by (apply (NoDup_map_inj hd0 L); auto). subst c'. congruence.
  Qed.

  (* ---------------------------------------------------------------- the loop on the tagged region *)
  Fixpoint ufold_t (ps : list pt) (L : list tcol) (pool : list Z) : option pt :=
    match L with
    | [] => Some ([], [])
    | c :: L' =>
      match pool with
      | [] => None
      | j :: pool' =>
        match nth_error ps (Z.to_nat j), nth_error (fst c) (Z.to_nat j) with
        | Some p, Some id =>
          let part :=
            if snd c then subtree_p p id
            else match nth_error (fst p) id, nth_error (snd p) id with
                 | Some x, Some n => Some ([x], [n])
                 | _, _ => None
                 end in
          match part, ufold_t ps L' pool' with
          | Some s, Some r => Some (fst s ++ fst r, snd s ++ snd r)
          | _, _ => None
          end
        | _, _ => None
        end
      end
    end.

  Lemma uniform_fold_retag ps bor0 : forall L pool,
    (forall c, In c L -> existsb (Nat.eqb (hd 0 (fst c))) bor0 = snd c) ->
    uniform_fold ps bor0 (map fst L) pool = ufold_t ps L pool.
  Proof.
    induction L as [|c L IH]; intros pool H; simpl; auto.
    destruct pool as [|j pool]; auto.
    rewrite (H c (or_introl eq_refl)), IH by (intros; apply H; right; auto). reflexivity.
  Qed.

  (* occurrences: tree t_j is encoded inside node list P_j at position o_j *)
  Inductive occs : list (list sym) -> list tree -> list nat -> Prop :=
  | occs_nil : occs [] [] []
  | occs_cons P t o Ps ts os pre post :
      P = pre ++ flatten t ++ post -> length pre = o -> wft t = true -> occs Ps ts os ->
      occs (P :: Ps) (t :: ts) (o :: os).

  Lemma occs_nth Ps ts os : occs Ps ts os -> forall j p id,
    nth_error (map mk Ps) j = Some p -> nth_error os j = Some id ->
    exists P t pre post, p = mk P /\ nth_error ts j = Some t /\ P = pre ++ flatten t ++ post /\
                         length pre = id /\ wft t = true.
  Proof.
    induction 1 as [|P t o Ps ts os pre post E L W H IH]; intros j p id Hp Hid.
    - destruct j; discriminate.
    - destruct j as [|j]; simpl in *.
      + inversion Hp; inversion Hid; subst. exists (pre ++ flatten t ++ post), t, pre, post. auto.
      + apply IH; auto.
  Qed.
  Lemma occs_wft Ps ts os : occs Ps ts os -> Forall (fun t => wft t = true) ts.
  Proof. induction 1; constructor; auto. Qed.

  (* the i-th arguments as occurrences; offsets as crk_kids maintains them *)
  Inductive kid_occs (i : nat) : list (list sym) -> list tree -> list nat -> Prop :=
  | kid_occs_nil : kid_occs i [] [] []
  | kid_occs_cons P t o Ps ts os pre post :
      P = pre ++ flatten t ++ post -> o = S (length pre) + sizes (firstn i (children t)) -> wft t = true ->
      kid_occs i Ps ts os -> kid_occs i (P :: Ps) (t :: ts) (o :: os).

  Lemma kid_occs_start Ps ts os : occs Ps ts os -> kid_occs 0 Ps ts (map S os).
  Proof.
    induction 1 as [|P t o Ps ts os pre post E L W H IH]; simpl; [constructor|].
    econstructor; eauto. simpl. unfold sizes. simpl. lia.
  Qed.

  Lemma firstn_S_nth {A} (l : list A) i d : i < length l -> firstn (S i) l = firstn i l ++ [nth i l d].
  Proof.
    revert i; induction l as [|x l IH]; intros [|i] H; simpl in *; try lia; auto. f_equal. apply IH. lia.
  Qed.
  Lemma split_nth {A} (l : list A) i d : i < length l -> l = firstn i l ++ nth i l d :: skipn (S i) l.
  Proof.
    intros H. rewrite <- (firstn_skipn i l) at 1. f_equal. apply skipn_nth_cons; auto.
  Qed.

  Lemma kid_occs_here i Ps ts os : kid_occs i Ps ts os -> (forall t, In t ts -> i < length (children t)) ->
    occs Ps (kid_col i ts) os.
  Proof.
    induction 1 as [|P t o Ps ts os pre post E O W H IH]; intros Hi; simpl; [constructor|].
    assert (Hit : i < length (children t)) by (apply Hi; left; auto).
    destruct t as [s kids]. simpl children in *.
    apply (occs_cons _ _ _ _ _ _ (pre ++ s :: flats (firstn i kids)) (flats (skipn (S i) kids) ++ post)).
    - rewrite E, flatten_Node. rewrite (split_nth kids i (Node s kids) Hit) at 1.
      rewrite flats_app, flats_cons, <- !app_assoc. simpl. rewrite <- !app_assoc. reflexivity.
    - rewrite O, app_length. simpl. rewrite flats_length. lia.
    - apply wft_Node in W. destruct W as (_ & W). unfold Tree.wff in W. rewrite forallb_forall in W.
      apply W, nth_In; auto.
    - apply IH. intros; apply Hi; right; auto.
  Qed.

  Lemma kid_occs_next i Ps ts os : kid_occs i Ps ts os -> (forall t, In t ts -> i < length (children t)) ->
    kid_occs (S i) Ps ts (map (fun ok => fst ok + size (snd ok)) (combine os (kid_col i ts))).
  Proof.
    induction 1 as [|P t o Ps ts os pre post E O W H IH]; intros Hi; simpl; [constructor|].
    assert (Hit : i < length (children t)) by (apply Hi; left; auto).
    econstructor; eauto.
    - rewrite (firstn_S_nth _ _ t Hit), sizes_app. unfold sizes at 2. simpl. lia.
    - apply IH. intros; apply Hi; right; auto.
  Qed.

  Definition piece (c : tree) (r : pt) : pt := (flatten c ++ fst r, nargs (flatten c) ++ snd r).
  Definition pieces (cs : list tree) (r : pt) : pt := (flats cs ++ fst r, nargs (flats cs) ++ snd r).

  (* THE loop invariant *)
  Lemma ufold_mix : forall f Ps (t0 : tree) ts' os, occs Ps (t0 :: ts') os -> depth t0 < f ->
    forall rest pool r,
      ufold_t (map mk Ps) (crk_tag f (t0 :: ts') os ++ rest) pool = Some r ->
      exists c pool' r', mix (t0 :: ts') c /\ ufold_t (map mk Ps) rest pool' = Some r' /\ r = piece c r'.
  Proof.
    induction f as [|f IH]; intros Ps t0 ts' os HO Hf rest pool r H; [lia|].
    set (ts := t0 :: ts') in *.
    pose proof (occs_wft _ _ _ HO) as W.
    cbn [GPOps.crk_tag] in H. destruct (all_eqb (root_arities ts)) eqn:A.
    - (* interior column: one node of the drawn parent, then the arguments *)
      cbn [app ufold_t] in H. destruct pool as [|j pool]; [discriminate|].
      destruct (nth_error (map mk Ps) (Z.to_nat j)) as [p|] eqn:Ep; [|discriminate].
      cbn [fst snd] in H. destruct (nth_error os (Z.to_nat j)) as [id|] eqn:Eid; [|discriminate].
      destruct (occs_nth _ _ _ HO _ _ _ Ep Eid) as (P & t & pre & post & -> & Et & EP & Lp & Wt).
      destruct t as [s kids]. simpl fst in H. simpl snd in H.
      assert (Ex : nth_error P id = Some s) by (rewrite EP, <- Lp, flatten_Node; simpl; apply nth_error_occ).
      assert (En : nth_error (nargs P) id = Some (arity s)).
      { unfold Tree.nargs. rewrite (map_nth_error arity _ _ Ex). reflexivity. }
      rewrite Ex, En in H.
      destruct (ufold_t (map mk Ps) (crk_kids (crk_tag f) (hd 0 (root_arities ts)) 0 ts (map S os) ++ rest) pool)
        as [r1|] eqn:E1; [|discriminate].
      inversion H; subst r; clear H.
      pose proof (nth_error_In _ _ Et) as Hts.
      assert (Hn : hd 0 (root_arities ts) = arity s).
      { apply (all_eqb_spec _ A); unfold GPOps.root_arities.
        - left. reflexivity.
        - apply in_map_iff. exists (Node s kids). auto. }
      assert (Hlen : forall t, In t ts -> length (children t) = arity s).
      { intros t Ht. apply (same_arity ts (Node s kids) W A Hts t Ht). }
      (* the arguments *)
      assert (K : forall n i osi, kid_occs i Ps ts osi -> i + n = arity s ->
                forall rest pool r,
                  ufold_t (map mk Ps) (crk_kids (crk_tag f) n i ts osi ++ rest) pool = Some r ->
                  exists cs pool' r', length cs = n /\
                    (forall m, m < n -> mix (kid_col (i + m) ts) (nth m cs (Node s []))) /\
                    ufold_t (map mk Ps) rest pool' = Some r' /\ r = pieces cs r').
      { induction n as [|n IHn]; intros i osi HK Hin rest0 pool0 r0 H0.
        - exists [], pool0, r0. simpl in H0. repeat split; auto. intros; lia. destruct r0; reflexivity.
        - cbn [crk_kids] in H0. rewrite <- app_assoc in H0.
          assert (Hi : forall t, In t ts -> i < length (children t)) by (intros t Ht; rewrite (Hlen t Ht); lia).
          pose proof (kid_occs_here _ _ _ _ HK Hi) as HOi.
          unfold ts in HOi. unfold kid_col in HOi. simpl map in HOi.
          assert (Hd : depth (nth i (children t0) t0) < f).
          { assert (In (nth i (children t0) t0) (children t0)) by (apply nth_In, Hi; left; auto).
            pose proof (child_depth_lt t0 _ H). lia. }
          unfold ts, kid_col in H0. simpl map in H0.
          destruct (IH _ _ _ _ HOi Hd _ _ _ H0) as (c & pool1 & r1' & Mc & H1 & ->).
          pose proof (kid_occs_next _ _ _ _ HK Hi) as HK'.
          destruct (IHn (S i) _ HK' ltac:(lia) _ _ _ H1) as (cs & pool2 & r2 & Lcs & Mcs & H2 & ->).
          exists (c :: cs), pool2, r2. split; [simpl; lia|]. split; [|split; auto].
          + intros [|m] Hm; simpl.
            * rewrite Nat.add_0_r. exact Mc.
            * replace (i + S m) with (S i + m) by lia. apply Mcs. lia.
          + unfold piece, pieces. cbn [fst snd]. rewrite flats_cons, nargs_app, <- !app_assoc. reflexivity. }
      rewrite Hn in E1.
      destruct (K (arity s) 0 (map S os) (kid_occs_start _ _ _ HO) eq_refl _ _ _ E1) as (cs & pool' & r' & Lcs & Mcs & Hr & ->).
      exists (Node s cs), pool', r'. split; [|split; [exact Hr|]].
      + apply mix_node; auto.
        * exists (Node s kids). auto.
        * intros i Hi. apply (Mcs i). lia.
      + unfold piece, pieces. rewrite flatten_Node. simpl. reflexivity.
    - (* border column: the whole sub-term of the drawn parent *)
      cbn [app ufold_t] in H. destruct pool as [|j pool]; [discriminate|].
      destruct (nth_error (map mk Ps) (Z.to_nat j)) as [p|] eqn:Ep; [|discriminate].
      cbn [fst snd] in H. destruct (nth_error os (Z.to_nat j)) as [id|] eqn:Eid; [|discriminate].
      destruct (occs_nth _ _ _ HO _ _ _ Ep Eid) as (P & t & pre & post & -> & Et & EP & Lp & Wt).
      rewrite subtree_p_mk, EP, <- Lp, (subtree_occ arity t pre post Wt) in H. cbn [option_map] in H.
      destruct (ufold_t (map mk Ps) rest pool) as [r1|] eqn:E1; [|discriminate].
      inversion H; subst r; clear H.
      exists t, pool, r1. split; [|split; [exact E1|reflexivity]].
      apply mix_border; auto. eapply nth_error_In; eauto.
  Qed.


  (* ---------------------------------------------------------------- the uniform family, any number of parents *)
  Definition parents_of (Ts : list tree) : list pt := map mk (map flatten Ts).
  (* what get_common_region must have returned: the recursive common region *)
  Definition region_rec (Ts : list tree) (fuel : nat) : list (list nat) * list nat :=
    let L := crk_tag fuel Ts (map (fun _ => 0) Ts) in
    (map fst L, map (hd 0) (map fst (filter snd L))).

  Lemma occs_top (Ts : list tree) : Forall (fun t => wft t = true) Ts ->
    occs (map flatten Ts) Ts (map (fun _ => 0) Ts).
  Proof.
    induction 1 as [|t Ts W H IH]; simpl; [constructor|].
    apply (occs_cons _ _ _ _ _ _ [] []); auto. rewrite app_nil_r. reflexivity.
  Qed.

  Theorem uniform_with_spec T0 Ts' fuel draw_pool ds c ds' :
    Forall (fun t => wft t = true) (T0 :: Ts') -> depth T0 < fuel ->
    region arity (parents_of (T0 :: Ts')) = Some (region_rec (T0 :: Ts') fuel) ->
    uniform_with arity (parents_of (T0 :: Ts')) draw_pool ds = Some (c, ds') ->
    exists C, good c C /\ mix (T0 :: Ts') C.
  Proof.
    intros W Hf Hreg H. unfold uniform_with in H. rewrite Hreg in H. unfold region_rec in H. cbv zeta in H.
    minv H. minv H. injection H as Ec Ed. subst a0 ds0.
    set (L := crk_tag fuel (T0 :: Ts') (map (fun _ => 0) (T0 :: Ts'))) in *.
    inversion W as [|? ? W0 W']; subst.
    destruct (crk_heads fuel T0 Ts' 0 (map (fun _ => 0) Ts') W0) as (_ & ND).
    rewrite (uniform_fold_retag _ _ L a (retag L ND)) in Hl.
    rewrite <- (app_nil_r L) in Hl. unfold L, parents_of in Hl.
    destruct (ufold_mix fuel _ T0 Ts' _ (occs_top _ W) Hf [] a c Hl) as (C & pool' & r' & M & Hr & ->).
    simpl in Hr. inversion Hr; subst r'.
    exists C. split; auto. split; [eapply mix_wf; eauto|].
    unfold piece. simpl. rewrite !app_nil_r. reflexivity.
  Qed.

  (* closure in the terms of the property *)
  Definition all_le (ml : nat) (ps : list pt) : Prop := forall p, In p ps -> depthp p <= ml.

  Theorem uniform_with_closed T0 Ts' fuel draw_pool ds c ds' ml :
    Forall (fun t => wft t = true) (T0 :: Ts') -> depth T0 < fuel ->
    region arity (parents_of (T0 :: Ts')) = Some (region_rec (T0 :: Ts') fuel) ->
    uniform_with arity (parents_of (T0 :: Ts')) draw_pool ds = Some (c, ds') ->
    wfp arity c /\ syms_from (parents_of (T0 :: Ts')) c /\ (all_le ml (parents_of (T0 :: Ts')) -> depthp c <= ml).
  Proof.
    intros W Hf Hreg H. destruct (uniform_with_spec _ _ _ _ _ _ _ W Hf Hreg H) as (C & GC & M).
    split; [eapply good_wfp; eauto|]. rewrite (good_depth _ _ _ GC). destruct GC as (_ & ->). simpl. split.
    - intros x Hx. simpl in Hx. destruct (mix_syms _ _ M W x Hx) as (t & Ht & Hxt).
      exists (mk (flatten t)). split; auto. unfold parents_of. rewrite map_map. apply in_map_iff. eauto.
    - intros Hle. apply (mix_depth _ _ M W). intros t Ht.
      assert (Hp : In (mk (flatten t)) (parents_of (T0 :: Ts'))).
      { unfold parents_of. rewrite map_map. apply in_map_iff. eauto. }
      apply Hle in Hp. rewrite Forall_forall in W.
      rewrite (good_depth arity _ t (conj (W t Ht) eq_refl)) in Hp. exact Hp.
  Qed.

  (* ---------------------------------------------------------------- two parents: the region IS recursive *)
  Notation cr_rec := (cr_rec arity).
  Notation cr_rec_f := (cr_rec_f arity).
  Definition p2c (ab : nat * nat) : list nat := [fst ab; snd ab].

  Lemma cr_rec_crk_tag : forall f (t1 t2 : tree) o1 o2, wft t1 = true -> wft t2 = true -> depth t1 < f ->
    map fst (crk_tag f [t1; t2] [o1; o2]) = map p2c (fst (cr_rec t1 t2 o1 o2)) /\
    map fst (filter snd (crk_tag f [t1; t2] [o1; o2])) = map p2c (snd (cr_rec t1 t2 o1 o2)).
  Proof.
    induction f as [|f IH]; intros [s1 k1] [s2 k2] o1 o2 W1 W2 Hd; [lia|].
    cbn [GPOps.crk_tag]. rewrite cr_rec_Node.
    unfold GPOps.root_arities. simpl map. unfold all_eqb. simpl forallb. rewrite andb_true_r.
    destruct (arity s1 =? arity s2) eqn:A.
    2:{ simpl. auto. }
    apply Nat.eqb_eq in A. simpl hd.
    apply wft_Node in W1. destruct W1 as (L1 & W1). apply wft_Node in W2. destruct W2 as (L2 & W2).
    assert (F : forall (l1 l2 pre1 pre2 : list tree) a b,
               k1 = pre1 ++ l1 -> k2 = pre2 ++ l2 -> length pre1 = length pre2 -> length l1 = length l2 ->
               wff l1 = true -> wff l2 = true -> (forall u, In u l1 -> depth u < f) ->
               let Lk := crk_kids (crk_tag f) (length l1) (length pre1) [Node s1 k1; Node s2 k2] [a; b] in
               map fst Lk = map p2c (fst (cr_rec_f l1 l2 a b)) /\
               map fst (filter snd Lk) = map p2c (snd (cr_rec_f l1 l2 a b))).
    { induction l1 as [|u1 r1 IHl]; intros l2 pre1 pre2 a b E1 E2 Lp Ll Wl1 Wl2 Hdl.
      - destruct l2; [|discriminate]. simpl. auto.
      - destruct l2 as [|u2 r2]; [discriminate|]. simpl length. cbn [crk_kids]. cbv zeta.
        apply wff_cons in Wl1. destruct Wl1 as (Wu1 & Wr1). apply wff_cons in Wl2. destruct Wl2 as (Wu2 & Wr2).
        assert (K1 : nth (length pre1) (children (Node s1 k1)) (Node s1 k1) = u1).
        { simpl children. rewrite E1, app_nth2, Nat.sub_diag by lia. reflexivity. }
        assert (K2 : nth (length pre1) (children (Node s2 k2)) (Node s2 k2) = u2).
        { simpl children. rewrite E2, Lp, app_nth2, Nat.sub_diag by lia. reflexivity. }
        simpl children in K1, K2. unfold kid_col. simpl map. rewrite K1, K2.
        destruct (IH u1 u2 a b Wu1 Wu2 (Hdl u1 (or_introl eq_refl))) as (A1 & A2).
        specialize (IHl r2 (pre1 ++ [u1]) (pre2 ++ [u2]) (a + size u1) (b + size u2)).
        rewrite !app_length in IHl. simpl length in IHl. rewrite Nat.add_1_r in IHl.
        destruct IHl as (B1 & B2); auto.
        { rewrite <- app_assoc. exact E1. } { rewrite <- app_assoc. exact E2. }
        { simpl in Ll. lia. } { intros u Hu. apply Hdl. right; auto. }
        unfold tcol in *. split; [rewrite !map_app, A1, B1; reflexivity|rewrite filter_app, !map_app, A2, B2; reflexivity]. }
    specialize (F k1 k2 [] [] (S o1) (S o2) eq_refl eq_refl eq_refl ltac:(lia) W1 W2).
    simpl length in F. rewrite L1 in F.
    destruct F as (F1 & F2).
    { intros u Hu. pose proof (child_depth_lt (Node s1 k1) u Hu). lia. }
    cbn [map filter fst snd]. rewrite F1, F2. auto.
  Qed.

  Lemma region_two T1 T2 : wft T1 = true -> wft T2 = true ->
    region arity (parents_of [T1; T2]) = Some (region_rec [T1; T2] (S (depth T1))).
  Proof.
    intros W1 W2. unfold parents_of, region, region_rec. cbn [map].
    unfold mk at 1 2. cbn [snd].
    rewrite (common_region_two_spec arity T1 T2 W1 W2). cbn [option_map fst snd].
    destruct (cr_rec_crk_tag (S (depth T1)) T1 T2 0 0 W1 W2 (Nat.lt_succ_diag_r _)) as (A1 & A2).
    rewrite A1, A2. f_equal. f_equal. rewrite map_map. apply map_ext. intros [a b]. reflexivity.
  Qed.

  Theorem uniform_two_spec p1 T1 p2 T2 draw_pool ds c ds' :
    good p1 T1 -> good p2 T2 ->
    uniform_with arity [p1; p2] draw_pool ds = Some (c, ds') ->
    exists C, good c C /\ mix [T1; T2] C.
  Proof.
    intros (W1 & ->) (W2 & ->) H.
    apply (uniform_with_spec T1 [T2] (S (depth T1)) draw_pool ds c ds'); auto.
    apply region_two; auto.
  Qed.

  Theorem uniform_two_closed p1 p2 draw_pool ds c ds' ml :
    wfp arity p1 -> wfp arity p2 ->
    uniform_with arity [p1; p2] draw_pool ds = Some (c, ds') ->
    wfp arity c /\ syms_from [p1; p2] c /\ (depthp p1 <= ml -> depthp p2 <= ml -> depthp c <= ml).
  Proof.
    intros G1 G2 H. apply wfp_good in G1. apply wfp_good in G2.
    destruct G1 as (T1 & W1 & ->). destruct G2 as (T2 & W2 & ->).
    destruct (uniform_with_closed T1 [T2] (S (depth T1)) draw_pool ds c ds' ml) as (A & B & D); auto.
    - apply region_two; auto.
    - split; auto. split; auto. intros D1 D2. apply D. intros p [<-|[<-|[]]]; auto.
  Qed.
End U.
