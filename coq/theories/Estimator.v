(* Estimator.v — the library's own glue around fitted models (C18).
   Sources: base/_gp.py, base/_mlp.py, base/_gpnn.py (fit: LabelEncoder / classes_, check_optimizer_args),
   classifiers/*.py, regressors/*.py (predict_proba, predict).
   Labels are integers here (strings are ordered the same way by np.unique; the correspondence runs
   both); probabilities and outputs are exact rationals. *)
From Coq Require Import String.
From TF Require Export Base.
Open Scope Q_scope.

(* np.unique: sorted, duplicate-free *)
Fixpoint insert_dedup (y : Z) (l : list Z) : list Z :=
  match l with
  | [] => [y]
  | x :: t => if (y <? x)%Z then y :: l else if (y =? x)%Z then l else x :: insert_dedup y t
  end.
Definition classes (ys : list Z) : list Z := fold_right insert_dedup [] ys.

(* LabelEncoder.transform / inverse_transform *)
Fixpoint index_of (y : Z) (l : list Z) : option nat :=
  match l with
  | [] => None
  | x :: t => if (x =? y)%Z then Some O else option_map S (index_of y t)
  end.
Definition encode (cs : list Z) (y : Z) : option nat := index_of y cs.
Definition decode (cs : list Z) (i : nat) : Z := nth i cs 0%Z.

(* predict = label of the arg-max column (first maximum) *)
Definition predict_label (cs : list Z) (proba : list Q) : Z := decode cs (argmax proba).

(* GP classifier: proba = [1 - s, s] with s = sigmoid(tree output) *)
Definition proba_pair (s : Q) : list Q := [1 - s; s].
(* softmax row from the (positive) exponentials of the shifted outputs *)
Fixpoint qsum (l : list Q) : Q := match l with [] => 0 | x :: t => x + qsum t end.
Definition normalise (es : list Q) : list Q := map (fun e => e / qsum es) es.

(* check_optimizer_args: an AssertionError unless no key is among the reserved names *)
Definition accepts (reserved keys : list string) : bool :=
  forallb (fun k => negb (existsb (String.eqb k) reserved)) keys.

(* predict on X uses exactly the evaluation the training objective used *)
Section Train.
Variables Model Data Out : Type.
Variable evalm : Model -> Data -> Out.           (* evaluate the stored tree / network on a data matrix *)
Variable metric : Out -> Out -> Q.               (* error(targets, outputs) *)
Definition training_objective (y : Out) (X : Data) (m : Model) : Q := metric y (evalm m X).
Definition predict_out (m : Model) (X : Data) : Out := evalm m X.
End Train.
