(* C11Check.v — boolean case checkers evaluated by the correspondence (no proofs here). *)
From TF Require Import Base RandomPrims.
Open Scope Q_scope.

Definition chk_bsi (c : Q * list Q * nat) : bool :=
  let '(v, cs, out) := c in (bsi v cs =? out)%nat.

Definition chk_done {A} (eqb : A -> A -> bool) (r : option (A * list draw)) (out : A) : bool :=
  match r with Some (x, []) => eqb x out | _ => false end.

Definition chk_random_sample (c : Z * nat * bool * list draw * list Z) : bool :=
  let '(n, q, rep, ds, out) := c in chk_done Zlist_eqb (random_sample n q rep ds) out.

Definition chk_weighted (c : list Q * nat * bool * list draw * list Z) : bool :=
  let '(w, q, rep, ds, out) := c in chk_done Zlist_eqb (random_weighted_sample w q rep ds) out.

Definition chk_tournament (c : list Q * nat * nat * list draw * list Z) : bool :=
  let '(f, tour, q, ds, out) := c in chk_done Zlist_eqb (tournament_selection f tour q ds) out.

Definition chk_sattolo (c : list Z * list draw * list Z) : bool :=
  let '(arr, ds, out) := c in chk_done Zlist_eqb (sattolo 0%Z arr ds) out.

Definition chk_randint (c : Z * Z * nat * list draw * list Z) : bool :=
  let '(lo, hi, n, ds, out) := c in chk_done Zlist_eqb (randint lo hi n ds) out.

Definition chk_flip (c : Q * list draw * bool) : bool :=
  let '(t, ds, out) := c in chk_done Bool.eqb (flip_coin t ds) out.

Definition chk_argsort (c : list Q * nat * list nat) : bool :=
  let '(a, k, out) := c in natlist_eqb (argsort_k a k) out.

Definition chk_pbest (c : list Q * Q * list nat) : bool :=
  let '(a, p, out) := c in natlist_eqb (find_pbest_id a p) out.

(* |model - impl| <= 2^-40 componentwise *)
Definition Qclose (a b : Q) : bool := Qle_bool (Qabs (a - b)) (1 # 1099511627776).
Definition Qlist_close (a b : list Q) : bool :=
  (length a =? length b)%nat && forallb (fun p => Qclose (fst p) (snd p)) (combine a b).
Definition chk_minmax (c : list Q * list Q) : bool :=
  let '(l, out) := c in Qlist_close (minmax_scale l) out.
