(* GridProofs.v — proofs about Gray.v / Grid.v (property C10).  All statements are for every
   width / every string / every box (induction; no bounded sweeps). *)
From TF Require Import Base Gray Grid.
From Coq Require Import Qround.
Open Scope Z_scope.

(* ================================================================== Gray code *)

Lemma bits_to_gray_pairs bs : bits_to_gray bs = xor_pairs false bs.
Proof. destruct bs as [|x t]; [reflexivity|]. destruct x; reflexivity. Qed.

Lemma gray_to_bits_acc g : gray_to_bits g = xor_acc false g.
Proof. destruct g as [|x t]; [reflexivity|]. destruct x; reflexivity. Qed.

Lemma xor_acc_pairs p bs : xor_acc p (xor_pairs p bs) = bs.
Proof.
  revert p; induction bs as [|x t IH]; intro p; simpl; auto.
  replace (xorb p (xorb p x)) with x by (destruct p, x; reflexivity).
  now rewrite IH.
Qed.

Lemma xor_pairs_acc p g : xor_pairs p (xor_acc p g) = g.
Proof.
  revert p; induction g as [|x t IH]; intro p; simpl; auto.
  replace (xorb p (xorb p x)) with x by (destruct p, x; reflexivity).
  now rewrite IH.
Qed.

Lemma xor_acc_length p g : length (xor_acc p g) = length g.
Proof. revert p; induction g; intro p; simpl; auto. Qed.
Lemma xor_pairs_length p g : length (xor_pairs p g) = length g.
Proof. revert p; induction g; intro p; simpl; auto. Qed.

Theorem gray_to_bits_to_gray bs : gray_to_bits (bits_to_gray bs) = bs.
Proof. rewrite gray_to_bits_acc, bits_to_gray_pairs. apply xor_acc_pairs. Qed.

Theorem bits_to_gray_to_bits g : bits_to_gray (gray_to_bits g) = g.
Proof. rewrite gray_to_bits_acc, bits_to_gray_pairs. apply xor_pairs_acc. Qed.

Lemma gray_to_bits_length g : length (gray_to_bits g) = length g.
Proof. rewrite gray_to_bits_acc. apply xor_acc_length. Qed.
Lemma bits_to_gray_length g : length (bits_to_gray g) = length g.
Proof. rewrite bits_to_gray_pairs. apply xor_pairs_length. Qed.

Lemma gray_to_bits_zeros n : gray_to_bits (repeat false n) = repeat false n.
Proof.
  rewrite gray_to_bits_acc. induction n; simpl; auto. now rewrite IHn.
Qed.

(* ================================================================== binary codec *)

Lemma pow2_pos n : 0 < 2 ^ Z.of_nat n.
Proof. apply Z.pow_pos_nonneg; lia. Qed.

Lemma pow2_S n : 2 ^ Z.of_nat (S n) = 2 * 2 ^ Z.of_nat n.
Proof. rewrite Nat2Z.inj_succ, Z.pow_succ_r; lia. Qed.

Lemma int_to_bits_length w k : length (int_to_bits w k) = w.
Proof. induction w; simpl; auto. Qed.

Lemma bits_to_int_cons b t :
  bits_to_int (b :: t) = Z.b2z b * 2 ^ Z.of_nat (length t) + bits_to_int t.
Proof. reflexivity. Qed.

Lemma bits_to_int_range bs : 0 <= bits_to_int bs < 2 ^ Z.of_nat (length bs).
Proof.
  induction bs as [|b t IH]; simpl length; simpl bits_to_int.
  - simpl. lia.
  - rewrite pow2_S. pose proof (pow2_pos (length t)). destruct b; simpl Z.b2z; lia.
Qed.

Lemma bits_to_int_to_bits_mod w k : bits_to_int (int_to_bits w k) = k mod 2 ^ Z.of_nat w.
Proof.
  induction w as [|w IH].
  - simpl. now rewrite Z.mod_1_r.
  - simpl int_to_bits. simpl bits_to_int. rewrite int_to_bits_length, IH.
    rewrite pow2_S. pose proof (pow2_pos w).
    rewrite (Z.mul_comm 2), Z.rem_mul_r by lia.
    rewrite Z.testbit_spec' by lia. lia.
Qed.

(* C10_binary_roundtrip, first half *)
Theorem bits_to_int_to_bits w k : 0 <= k < 2 ^ Z.of_nat w -> bits_to_int (int_to_bits w k) = k.
Proof. intro H. rewrite bits_to_int_to_bits_mod. now apply Z.mod_small. Qed.

Lemma int_to_bits_mod w n k : (w <= n)%nat -> int_to_bits w (k mod 2 ^ Z.of_nat n) = int_to_bits w k.
Proof.
  induction w as [|w IH]; intro H; simpl; auto.
  rewrite IH by lia. f_equal. apply Z.mod_pow2_bits_low. lia.
Qed.

(* C10_binary_roundtrip, second half *)
Theorem int_to_bits_to_int bs : int_to_bits (length bs) (bits_to_int bs) = bs.
Proof.
  induction bs as [|b t IH]; simpl length; auto.
  simpl int_to_bits. simpl bits_to_int.
  pose proof (bits_to_int_range t) as R. pose proof (pow2_pos (length t)) as P.
  set (n := Z.of_nat (length t)) in *. set (v := bits_to_int t) in *.
  f_equal.
  - destruct b; simpl Z.b2z.
    + apply Z.testbit_true; [lia|].
      replace ((1 * 2 ^ n + v) / 2 ^ n) with 1; [reflexivity|].
      apply Z.div_unique with v; lia.
    + apply Z.testbit_false; [lia|].
      replace ((0 * 2 ^ n + v) / 2 ^ n) with 0; [reflexivity|].
      apply Z.div_unique with v; lia.
  - rewrite <- (int_to_bits_mod (length t) (length t)) by lia. fold n.
    replace ((Z.b2z b * 2 ^ n + v) mod 2 ^ n) with v; [exact IH|].
    apply Z.mod_unique with (Z.b2z b); lia.
Qed.

Lemma bits_to_int_inj a b : length a = length b -> bits_to_int a = bits_to_int b -> a = b.
Proof.
  intros L E. rewrite <- (int_to_bits_to_int a), <- (int_to_bits_to_int b). now rewrite L, E.
Qed.

Lemma bits_to_int_zeros n : bits_to_int (repeat false n) = 0.
Proof. induction n; simpl; auto. Qed.

Lemma bits_to_int_ones n : bits_to_int (repeat true n) = pow2m1 n.
Proof.
  unfold pow2m1. induction n as [|n IH].
  - reflexivity.
  - simpl repeat. rewrite bits_to_int_cons, repeat_length, IH, pow2_S. change (Z.b2z true) with 1. lia.
Qed.

Lemma int_to_bits_ones w n : (w <= n)%nat -> int_to_bits w (Z.ones (Z.of_nat n)) = repeat true w.
Proof.
  induction w as [|w IH]; intro H; simpl; auto.
  rewrite IH by lia. f_equal. apply Z.ones_spec_low. lia.
Qed.

Lemma int_to_bits_pow2 w n : (w <= n)%nat -> int_to_bits w (2 ^ Z.of_nat n) = repeat false w.
Proof.
  induction w as [|w IH]; intro H; simpl; auto.
  rewrite IH by lia. f_equal. apply Z.pow2_bits_false. lia.
Qed.

Lemma testbit_top_false w k : 0 <= k < 2 ^ Z.of_nat w -> Z.testbit k (Z.of_nat w) = false.
Proof.
  intro H. apply Z.testbit_false; [lia|]. rewrite Z.div_small by lia. reflexivity.
Qed.

Lemma testbit_top_true w k : 2 ^ Z.of_nat w <= k < 2 ^ Z.of_nat (S w) -> Z.testbit k (Z.of_nat w) = true.
Proof.
  rewrite pow2_S. intro H. apply Z.testbit_true; [lia|].
  replace (k / 2 ^ Z.of_nat w) with 1; [reflexivity|].
  apply Z.div_unique with (k - 2 ^ Z.of_nat w); lia.
Qed.

(* ================================================================== Gray adjacency *)

Definition gray_encode (w : nat) (k : Z) : list bool := bits_to_gray (int_to_bits w k).

Lemma hamming_refl a : hamming a a = O.
Proof. induction a as [|x t IH]; simpl; auto. rewrite Bool.eqb_reflx. exact IH. Qed.

Lemma hamming_xor_pairs p a b : length a = length b ->
  hamming (xor_pairs p a) (xor_pairs p b) = hamming (xor_pairs false a) (xor_pairs false b).
Proof.
  destruct a as [|x a], b as [|y b]; simpl; intro L; try discriminate; auto.
  f_equal. destruct p, x, y; reflexivity.
Qed.

Lemma xor_pairs_true_ones n : xor_pairs true (repeat true n) = repeat false n.
Proof. induction n; simpl; auto. now rewrite IHn. Qed.
Lemma xor_pairs_false_zeros n : xor_pairs false (repeat false n) = repeat false n.
Proof. induction n; simpl; auto. now rewrite IHn. Qed.

Lemma xor_pairs_carry n : xor_pairs false (repeat true n) = xor_pairs true (repeat false n).
Proof.
  destruct n; simpl; auto. now rewrite xor_pairs_true_ones, xor_pairs_false_zeros.
Qed.

(* successive Gray codes differ in exactly one bit — for every width *)
Theorem gray_adjacent w k : 0 <= k -> k + 1 < 2 ^ Z.of_nat w ->
  length (gray_encode w k) = w /\ length (gray_encode w (k + 1)) = w /\
  hamming (gray_encode w k) (gray_encode w (k + 1)) = 1%nat.
Proof.
  unfold gray_encode. rewrite !bits_to_gray_length, !int_to_bits_length.
  intros H0 H1. split; [reflexivity|]. split; [reflexivity|].
  rewrite !bits_to_gray_pairs.
  revert k H0 H1. induction w as [|w IH]; intros k H0 H1.
  - simpl in H1. lia.
  - pose proof (pow2_pos w) as P. rewrite pow2_S in H1.
    simpl int_to_bits.
    destruct (Z_lt_ge_dec (k + 1) (2 ^ Z.of_nat w)) as [A|A].
    + (* both below 2^w : leading 0, recurse *)
      rewrite (testbit_top_false w k), (testbit_top_false w (k + 1)) by lia.
      simpl. apply IH; lia.
    + destruct (Z.eq_dec (k + 1) (2 ^ Z.of_nat w)) as [B|B].
      * (* carry into the top bit: 0 1..1 -> 1 0..0 *)
        rewrite (testbit_top_false w k) by lia.
        rewrite (testbit_top_true w (k + 1)) by (rewrite pow2_S; lia).
        replace k with (Z.ones (Z.of_nat w)) by (rewrite Z.ones_equiv; lia).
        replace (Z.ones (Z.of_nat w) + 1) with (2 ^ Z.of_nat w) by (rewrite Z.ones_equiv; lia).
        rewrite int_to_bits_ones, int_to_bits_pow2 by lia.
        simpl. rewrite xor_pairs_carry. f_equal. apply hamming_refl.
      * (* both in the upper half: leading 1, recurse on k - 2^w *)
        rewrite (testbit_top_true w k), (testbit_top_true w (k + 1)) by (rewrite pow2_S; lia).
        simpl.
        rewrite hamming_xor_pairs by now rewrite !int_to_bits_length.
        rewrite <- (int_to_bits_mod w w k), <- (int_to_bits_mod w w (k + 1)) by lia.
        replace (k mod 2 ^ Z.of_nat w) with (k - 2 ^ Z.of_nat w)
          by (apply Z.mod_unique with 1; lia).
        replace ((k + 1) mod 2 ^ Z.of_nat w) with (k - 2 ^ Z.of_nat w + 1)
          by (apply Z.mod_unique with 1; lia).
        apply IH; lia.
Qed.

(* ================================================================== rint on Q *)
Open Scope Q_scope.

Lemma Qrint_cases q :
  let f := Qfloor q in
  (Qrint q = f /\ q - inject_Z f <= 1 # 2) \/ (Qrint q = (f + 1)%Z /\ 1 # 2 <= q - inject_Z f).
Proof.
  intro f. unfold Qrint. fold f.
  destruct (Qcompare (q - inject_Z f) (1 # 2)) eqn:E.
  - apply Qeq_alt in E. destruct (Z.even f); [left|right]; split; auto; rewrite E; lra.
  - apply Qlt_alt in E. left; split; auto. lra.
  - apply Qgt_alt in E. right; split; auto. lra.
Qed.

Lemma Qrint_near q : Qabs (inject_Z (Qrint q) - q) <= 1 # 2.
Proof.
  pose proof (Qfloor_le q) as L. pose proof (Qlt_floor q) as U.
  rewrite inject_Z_plus in U. change (inject_Z 1) with 1 in U.
  apply Qabs_Qle_condition.
  destruct (Qrint_cases q) as [[-> H]|[-> H]].
  - split; lra.
  - rewrite inject_Z_plus. change (inject_Z 1) with 1. split; lra.
Qed.

Lemma Qrint_comp q q' : q == q' -> Qrint q = Qrint q'.
Proof.
  intro E. unfold Qrint. rewrite (Qfloor_comp _ _ E).
  assert (E2 : q - inject_Z (Qfloor q') == q' - inject_Z (Qfloor q')) by (rewrite E; reflexivity).
  now rewrite (Qcompare_comp _ _ E2 (1#2) (1#2) (Qeq_refl _)).
Qed.

Lemma Qrint_inject k : Qrint (inject_Z k) = k.
Proof.
  unfold Qrint. rewrite Qfloor_Z.
  assert (Z0 : inject_Z k - inject_Z k == 0) by ring.
  destruct (Qcompare (inject_Z k - inject_Z k) (1 # 2)) eqn:E; auto.
  - apply Qeq_alt in E. rewrite Z0 in E. discriminate E.
  - apply Qgt_alt in E. rewrite Z0 in E. discriminate E.
Qed.

Lemma inject_Z_le_inv a b : inject_Z a <= inject_Z b -> (a <= b)%Z.
Proof. intro H. rewrite Zle_Qle. exact H. Qed.

Lemma Qrint_bounds a b q : inject_Z a <= q -> q <= inject_Z b -> (a <= Qrint q <= b)%Z.
Proof.
  intros A B. pose proof (Qrint_near q) as N. apply Qabs_Qle_condition in N.
  set (r := Qrint q) in *. split.
  - destruct (Z_le_gt_dec a r) as [|G]; auto. exfalso.
    assert (G' : (r + 1 <= a)%Z) by lia. rewrite Zle_Qle in G'. rewrite inject_Z_plus in G'.
    change (inject_Z 1) with 1 in G'. lra.
  - destruct (Z_le_gt_dec r b) as [|G]; auto. exfalso.
    assert (G' : (b + 1 <= r)%Z) by lia. rewrite Zle_Qle in G'. rewrite inject_Z_plus in G'.
    change (inject_Z 1) with 1 in G'. lra.
Qed.

(* the rounded index is a nearest integer *)
Lemma Qrint_nearest q (j : Z) : Qabs (inject_Z (Qrint q) - q) <= Qabs (inject_Z j - q).
Proof.
  pose proof (Qrint_near q) as N.
  destruct (Z.eq_dec j (Qrint q)) as [->|D]; [lra|].
  apply Qle_trans with (1 # 2); auto.
  apply Qabs_Qle_condition in N. set (r := Qrint q) in *.
  destruct (Z_lt_ge_dec j r) as [G|G].
  - assert (G' : (j + 1 <= r)%Z) by lia. rewrite Zle_Qle in G'. rewrite inject_Z_plus in G'.
    change (inject_Z 1) with 1 in G'.
    rewrite Qabs_neg by lra. lra.
  - assert (G' : (r + 1 <= j)%Z) by lia. rewrite Zle_Qle in G'. rewrite inject_Z_plus in G'.
    change (inject_Z 1) with 1 in G'.
    rewrite Qabs_pos by lra. lra.
Qed.

(* ================================================================== one variable *)

Lemma pow2m1_ge1 w : (1 <= w)%nat -> (1 <= pow2m1 w)%Z.
Proof.
  unfold pow2m1. destruct w as [|w]; [lia|]. intros _. rewrite pow2_S.
  pose proof (pow2_pos w). lia.
Qed.

Lemma inject_Z_pos n : (1 <= n)%Z -> 0 < inject_Z n.
Proof.
  intro H. change 0 with (inject_Z 0). rewrite <- Zlt_Qlt. lia.
Qed.

Lemma vh_mul v : (1 <= vw v)%nat -> vh v * inject_Z (pow2m1 (vw v)) == vr v - vl v.
Proof.
  intro W. unfold vh, h_from_bits. field.
  pose proof (inject_Z_pos _ (pow2m1_ge1 _ W)). lra.
Qed.

Lemma vh_pos v : good_var v -> 0 < vh v.
Proof.
  intros [L W]. unfold vh, h_from_bits. apply Qlt_shift_div_l.
  - apply inject_Z_pos, pow2m1_ge1, W.
  - lra.
Qed.

Lemma vh_nonneg v : vl v <= vr v -> (1 <= vw v)%nat -> 0 <= vh v.
Proof.
  intros L W. unfold vh, h_from_bits. apply Qle_shift_div_l.
  - apply inject_Z_pos, pow2m1_ge1, W.
  - lra.
Qed.

Lemma encode_length k w i : length (encode k w i) = w.
Proof. destruct k; simpl; rewrite ?bits_to_gray_length; apply int_to_bits_length. Qed.

Lemma decode_range k c : (0 <= decode k c <= pow2m1 (length c))%Z.
Proof.
  unfold pow2m1. destruct k; simpl.
  - pose proof (bits_to_int_range c). lia.
  - pose proof (bits_to_int_range (gray_to_bits c)) as H. rewrite gray_to_bits_length in H. lia.
Qed.

Lemma decode_encode k w i : (0 <= i <= pow2m1 w)%Z -> decode k (encode k w i) = i.
Proof.
  unfold pow2m1. intro H. destruct k; simpl; rewrite ?gray_to_bits_to_gray;
    apply bits_to_int_to_bits; lia.
Qed.

Lemma encode_decode k c : encode k (length c) (decode k c) = c.
Proof.
  destruct k; simpl.
  - apply int_to_bits_to_int.
  - rewrite <- (gray_to_bits_length c), int_to_bits_to_int. apply bits_to_gray_to_bits.
Qed.

Lemma decode_inj k a b : length a = length b -> decode k a = decode k b -> a = b.
Proof.
  intros L E. rewrite <- (encode_decode k a), <- (encode_decode k b). now rewrite L, E.
Qed.

Lemma decode_zeros k n : decode k (repeat false n) = 0%Z.
Proof. destruct k; simpl; rewrite ?gray_to_bits_zeros; apply bits_to_int_zeros. Qed.

Lemma transform1_grid_point k v c : transform1 k v c = grid_point v (decode k c).
Proof. reflexivity. Qed.

Lemma grid_point_in_box v i : vl v <= vr v -> (1 <= vw v)%nat -> in_range v i -> in_box v (grid_point v i).
Proof.
  intros L W [I0 I1]. unfold in_box, grid_point.
  pose proof (vh_nonneg v L W) as H. pose proof (vh_mul v W) as M.
  rewrite Zle_Qle in I0, I1. change (inject_Z 0) with 0 in I0.
  set (q := inject_Z i) in *. set (N := inject_Z (pow2m1 (vw v))) in *. set (h := vh v) in *.
  assert (0 <= h * q) by (apply Qmult_le_0_compat; auto).
  assert (h * q <= h * N).
  { rewrite (Qmult_comm h q), (Qmult_comm h N). apply Qmult_le_compat_r; auto. }
  split; lra.
Qed.

Lemma grid_point_inj v i j : good_var v -> grid_point v i == grid_point v j -> i = j.
Proof.
  intros G E. pose proof (vh_pos v G) as H. unfold grid_point in E.
  apply inject_Z_injective.
  assert (E2 : vh v * inject_Z i == vh v * inject_Z j) by lra.
  apply Qmult_inj_l in E2; auto. lra.
Qed.

Lemma grid_index_point v i : good_var v -> grid_index v (grid_point v i) = i.
Proof.
  intro G. pose proof (vh_pos v G) as H. unfold grid_index, grid_point.
  rewrite <- (Qrint_inject i) at 2. apply Qrint_comp. field. lra.
Qed.

Lemma grid_index_range v x : good_var v -> in_box v x -> in_range v (grid_index v x).
Proof.
  intros G [B0 B1]. pose proof (vh_pos v G) as H. destruct G as [L W].
  pose proof (vh_mul v W) as M. unfold grid_index, in_range.
  apply Qrint_bounds.
  - change (inject_Z 0) with 0. apply Qle_shift_div_l; auto. lra.
  - apply Qle_shift_div_r; auto. lra.
Qed.

(* transform(inverse(x)) is a nearest grid point, at distance <= h/2 *)
Lemma grid_snap_nearest v x : good_var v ->
  let y := grid_point v (grid_index v x) in
  Qabs (y - x) <= vh v / 2 /\ forall j : Z, Qabs (y - x) <= Qabs (grid_point v j - x).
Proof.
  intros G y. pose proof (vh_pos v G) as H.
  set (t := (x - vl v) / vh v).
  assert (D : forall j : Z, grid_point v j - x == vh v * (inject_Z j - t)).
  { intro j. unfold grid_point, t. field. lra. }
  assert (A : forall j : Z, Qabs (grid_point v j - x) == vh v * Qabs (inject_Z j - t)).
  { intro j. rewrite (D j), Qabs_Qmult, (Qabs_pos (vh v)); [reflexivity|lra]. }
  unfold y. split.
  - rewrite A. pose proof (Qrint_near t) as N. fold t in N. unfold grid_index. fold t.
    setoid_replace (vh v / 2) with (vh v * (1 # 2)) by field.
    rewrite (Qmult_comm (vh v) (Qabs _)), (Qmult_comm (vh v) (1#2)).
    apply Qmult_le_compat_r; lra.
  - intro j. rewrite (A j), A. unfold grid_index. fold t.
    rewrite (Qmult_comm (vh v) (Qabs _)), (Qmult_comm (vh v) (Qabs (inject_Z j - t))).
    apply Qmult_le_compat_r; [apply Qrint_nearest|lra].
Qed.

Lemma inverse1_transform1 k v c : good_var v -> length c = vw v ->
  inverse1 k v (transform1 k v c) = c.
Proof.
  intros G L. unfold inverse1. rewrite transform1_grid_point, grid_index_point by auto.
  rewrite <- L. apply encode_decode.
Qed.

(* ================================================================== bits from a step *)

Lemma bits_from_h_spec l r h : l < r -> 0 < h ->
  let w := bits_from_h l r h in
  (1 <= w)%nat /\ (r - l) / h + 1 <= inject_Z (2 ^ Z.of_nat w) /\
  (forall w', (w' < w)%nat -> inject_Z (2 ^ Z.of_nat w') < (r - l) / h + 1).
Proof.
  intros L H w. unfold bits_from_h in w.
  set (x := (r - l) / h + 1) in *. set (c := Qceiling x) in *.
  assert (X1 : 1 < x).
  { unfold x. assert (0 < (r - l) / h) by (apply Qlt_shift_div_l; lra). lra. }
  assert (C : (1 < c)%Z).
  { unfold c. pose proof (Qle_ceiling x) as LC.
    destruct (Z_lt_ge_dec 1 (Qceiling x)) as [|G]; auto. exfalso.
    assert (G' : (Qceiling x <= 1)%Z) by lia. rewrite Zle_Qle in G'. change (inject_Z 1) with 1 in G'. lra. }
  pose proof (Z.log2_up_spec c C) as [S0 S1].
  pose proof (Z.log2_up_pos c C) as LP.
  assert (Wz : Z.of_nat w = Z.log2_up c) by (unfold w; rewrite Z2Nat.id; lia).
  split; [lia|]. split.
  - rewrite Wz. apply Qle_trans with (inject_Z c); [apply Qle_ceiling|]. rewrite <- Zle_Qle. exact S1.
  - intros w' Hw'.
    assert (P : (2 ^ Z.of_nat w' < c)%Z).
    { apply Z.le_lt_trans with (2 ^ Z.pred (Z.log2_up c))%Z; auto.
      apply Z.pow_le_mono_r; lia. }
    (* an integer strictly below ceil x is strictly below x *)
    pose proof (Qceiling_lt x) as CL. fold c in CL.
    assert (P' : (2 ^ Z.of_nat w' <= c - 1)%Z) by lia. rewrite Zle_Qle in P'.
    eapply Qle_lt_trans; [exact P'|exact CL].
Qed.

(* the number of bits derived from a requested step h gives a grid at least that fine,
   and it is the least such number of bits *)
Theorem bits_from_step l r h : l < r -> 0 < h ->
  let w := bits_from_h l r h in
  (1 <= w)%nat /\ h_from_bits l r w <= h /\
  (forall w', (1 <= w' < w)%nat -> h < h_from_bits l r w').
Proof.
  intros L H w. destruct (bits_from_h_spec l r h L H) as [W [U Lo]]. fold w in W, U, Lo.
  split; auto. unfold h_from_bits, pow2m1. split.
  - pose proof (inject_Z_pos _ (pow2m1_ge1 w W)) as P. unfold pow2m1 in P.
    apply Qle_shift_div_r; auto.
    unfold Zminus in *. rewrite inject_Z_plus in *. change (inject_Z (Z.opp 1)) with (-1) in *.
    set (T := inject_Z (2 ^ Z.of_nat w)) in *.
    assert (Q1 : (r - l) / h <= T + -1) by lra.
    assert (Q2 : (r - l) / h * h <= (T + -1) * h) by (apply Qmult_le_compat_r; lra).
    assert (Q3 : (r - l) / h * h == r - l) by (field; lra).
    lra.
  - intros w' [W1 W2]. specialize (Lo w' W2).
    pose proof (inject_Z_pos _ (pow2m1_ge1 w' W1)) as P. unfold pow2m1 in P.
    apply Qlt_shift_div_l; auto.
    unfold Zminus in *. rewrite inject_Z_plus in *. change (inject_Z (Z.opp 1)) with (-1) in *.
    set (T := inject_Z (2 ^ Z.of_nat w')) in *.
    assert (Q1 : T + -1 < (r - l) / h) by lra.
    assert (Q2 : (T + -1) * h < (r - l) / h * h) by (apply Qmult_lt_compat_r; lra).
    assert (Q3 : (r - l) / h * h == r - l) by (field; lra).
    lra.
Qed.

(* ================================================================== rows: splitting *)

Lemma split_widths_cons w t bs : t <> [] ->
  split_widths (w :: t) bs = firstn w bs :: split_widths t (skipn w bs).
Proof. destruct t; [congruence|reflexivity]. Qed.

Lemma firstn_app_exact {A} (c r : list A) : firstn (length c) (c ++ r) = c.
Proof. induction c; simpl; auto. now rewrite IHc. Qed.
Lemma skipn_app_exact {A} (c r : list A) : skipn (length c) (c ++ r) = r.
Proof. induction c; simpl; auto. Qed.

Definition chunked (ws : list nat) (bss : list (list bool)) : Prop :=
  Forall2 (fun w c => length c = w) ws bss.

Lemma split_widths_concat ws bss : chunked ws bss -> split_widths ws (concat bss) = bss.
Proof.
  induction 1 as [|w c t cs L F IH]; [reflexivity|].
  destruct t as [|w2 t].
  - inversion F; subst. simpl. now rewrite app_nil_r.
  - rewrite split_widths_cons by discriminate. rewrite concat_cons. subst w.
    rewrite firstn_app_exact, skipn_app_exact. now rewrite IH.
Qed.

Lemma split_widths_spec ws bs : length bs = list_sum ws ->
  chunked ws (split_widths ws bs) /\ concat (split_widths ws bs) = bs.
Proof.
  revert bs. induction ws as [|w t IH]; intros bs L.
  - simpl in L. destruct bs; [|discriminate]. split; [constructor|reflexivity].
  - destruct t as [|w2 t].
    + simpl in *. split; [constructor; [lia|constructor]|apply app_nil_r].
    + rewrite split_widths_cons by discriminate.
      change (list_sum (w :: w2 :: t)) with (w + list_sum (w2 :: t))%nat in L.
      destruct (IH (skipn w bs)) as [F C]; [rewrite skipn_length; lia|].
      split.
      * constructor; auto. rewrite firstn_length. lia.
      * rewrite concat_cons, C. apply firstn_skipn.
Qed.

Lemma chunked_map (vs : list var) bss :
  chunked (map vw vs) bss <-> Forall2 (fun v c => length c = vw v) vs bss.
Proof.
  split.
  - revert bss. induction vs as [|v t IH]; intros bss H; inversion H; subst; constructor; auto.
  - induction 1; constructor; auto.
Qed.

Lemma map2_length {A B C} (f : A -> B -> C) la lb :
  length la = length lb -> length (map2 f la lb) = length la.
Proof.
  revert lb; induction la as [|a ta IH]; intros [|b tb]; simpl; intro H; try discriminate; auto.
Qed.

Lemma Forall2_length' {A B} (R : A -> B -> Prop) la lb : Forall2 R la lb -> length la = length lb.
Proof. induction 1; simpl; auto. Qed.

Lemma transform_row_chunks k vs (bss : list (list bool)) : Forall2 (fun v c => length c = vw v) vs bss ->
  transform_row k vs (concat bss) = map2 (transform1 k) vs bss.
Proof.
  intro H. unfold transform_row. rewrite split_widths_concat; auto. now apply chunked_map.
Qed.

(* every string of the stated length splits into per-variable chunks of the stated widths *)
Lemma row_chunks vs (bs : list bool) : length bs = total_bits vs ->
  exists bss : list (list bool), Forall2 (fun v c => length c = vw v) vs bss /\ bs = concat bss.
Proof.
  intro L. destruct (split_widths_spec (map vw vs) bs L) as [F C].
  exists (split_widths (map vw vs) bs). split; [now apply chunked_map|now symmetry].
Qed.

Lemma transform_row_length k vs bs : length bs = total_bits vs ->
  length (transform_row k vs bs) = length vs.
Proof.
  intro L. destruct (row_chunks vs bs L) as [bss [F ->]].
  rewrite transform_row_chunks by auto. apply map2_length. eapply Forall2_length'; eauto.
Qed.

(* ================================================================== rows: transform *)

(* C10_transform_point *)
Theorem transform_point k vs ks : Forall2 in_range vs ks ->
  transform_row k vs (concat (map2 (fun v i => encode k (vw v) i) vs ks)) = map2 grid_point vs ks.
Proof.
  intro H. rewrite transform_row_chunks.
  - induction H as [|v i vs ks R F IH]; simpl; auto.
    rewrite IH. f_equal. rewrite transform1_grid_point, decode_encode; auto.
  - induction H; simpl; constructor; auto. apply encode_length.
Qed.

Theorem every_string_is_code k vs bs : length bs = total_bits vs ->
  exists ks, Forall2 in_range vs ks /\ bs = concat (map2 (fun v i => encode k (vw v) i) vs ks).
Proof.
  intro L. destruct (row_chunks vs bs L) as [bss [F ->]].
  exists (map (decode k) bss). clear L. split.
  - induction F as [|v c vs bss E F IH]; simpl; constructor; auto.
    unfold in_range. rewrite <- E. apply decode_range.
  - f_equal. induction F as [|v c vs bss E F IH]; simpl; auto.
    rewrite <- IH. f_equal. rewrite <- E. symmetry. apply encode_decode.
Qed.

Lemma repeat_total (b : bool) vs : repeat b (total_bits vs) = concat (map (fun v => repeat b (vw v)) vs).
Proof.
  unfold total_bits. induction vs as [|v t IH]; simpl; auto.
  now rewrite repeat_app, IH.
Qed.

(* C10_zero_left *)
Theorem zero_left k vs : Forall2 Qeq (transform_row k vs (repeat false (total_bits vs))) (map vl vs).
Proof.
  rewrite repeat_total, transform_row_chunks.
  - induction vs as [|v t IH]; simpl; constructor; auto.
    unfold transform1. rewrite decode_zeros. change (inject_Z 0) with 0. ring.
  - induction vs; simpl; constructor; auto. apply repeat_length.
Qed.

(* C10_ones_right (plain binary) *)
Theorem ones_right vs : Forall (fun v => (1 <= vw v)%nat) vs ->
  Forall2 Qeq (transform_row Binary vs (repeat true (total_bits vs))) (map vr vs).
Proof.
  intro W. rewrite repeat_total, transform_row_chunks.
  - induction W as [|v t Wv W IH]; simpl; constructor; auto.
    unfold transform1. simpl decode. rewrite bits_to_int_ones, (vh_mul v Wv). ring.
  - clear W. induction vs; simpl; constructor; auto. apply repeat_length.
Qed.

(* C10_in_box *)
Theorem transform_in_box k vs bs : Forall (fun v => vl v <= vr v /\ (1 <= vw v)%nat) vs ->
  length bs = total_bits vs -> Forall2 in_box vs (transform_row k vs bs).
Proof.
  intros G L. destruct (row_chunks vs bs L) as [bss [F ->]].
  rewrite transform_row_chunks by auto. clear L.
  induction F as [|v c vs bss E F IH]; simpl; constructor.
  - inversion G as [|? ? [A B] G']; subst. rewrite transform1_grid_point.
    apply grid_point_in_box; auto. unfold in_range. rewrite <- E. apply decode_range.
  - apply IH. now inversion G.
Qed.

(* C10_injective *)
Theorem transform_injective k vs bs1 bs2 : good vs ->
  length bs1 = total_bits vs -> length bs2 = total_bits vs ->
  Forall2 Qeq (transform_row k vs bs1) (transform_row k vs bs2) -> bs1 = bs2.
Proof.
  intros G L1 L2.
  destruct (row_chunks vs bs1 L1) as [b1 [F1 ->]]. destruct (row_chunks vs bs2 L2) as [b2 [F2 ->]].
  rewrite !transform_row_chunks by auto. clear L1 L2. intro E. f_equal.
  revert b2 F2 E. induction F1 as [|v c vs b1 E1 F1 IH]; intros b2 F2 E.
  - now inversion F2.
  - inversion F2 as [|? c2 ? b2' E2 F2']; subst. simpl in E. inversion E; subst.
    inversion G; subst. f_equal.
    + apply (decode_inj k); [congruence|]. apply (grid_point_inj v); auto.
    + apply IH; auto.
Qed.

(* ================================================================== rows: inverse *)

Lemma inverse_row_length k vs xs : length xs = length vs ->
  length (inverse_row k vs xs) = total_bits vs.
Proof.
  unfold inverse_row, total_bits. revert xs.
  induction vs as [|v t IH]; intros [|x xs] L; simpl in *; try discriminate; auto.
  rewrite app_length, IH by lia. unfold inverse1. now rewrite encode_length.
Qed.

Lemma inverse_row_chunks k vs xs : length xs = length vs ->
  Forall2 (fun v c => length c = vw v) vs (map2 (inverse1 k) vs xs).
Proof.
  revert xs. induction vs as [|v t IH]; intros [|x xs] L; simpl in *; try discriminate; constructor.
  - apply encode_length.
  - apply IH. lia.
Qed.

(* transform o inverse = snap every coordinate to grid index rint((x-l)/h) *)
Theorem transform_inverse_snap k vs xs : good vs -> Forall2 in_box vs xs ->
  transform_row k vs (inverse_row k vs xs) = map2 (fun v x => grid_point v (grid_index v x)) vs xs.
Proof.
  intros G B. unfold inverse_row.
  rewrite transform_row_chunks by (apply inverse_row_chunks; symmetry; eapply Forall2_length'; eauto).
  induction B as [|v x vs xs Bx B IH]; simpl; auto.
  inversion G; subst. rewrite IH by auto. f_equal.
  unfold inverse1. rewrite transform1_grid_point, decode_encode; auto.
  apply grid_index_range; auto.
Qed.

(* C10_inverse_nearest *)
Theorem inverse_nearest k vs xs : good vs -> Forall2 in_box vs xs ->
  Forall2 (fun v p => Qabs (snd p - fst p) <= vh v / 2 /\
                      forall j : Z, Qabs (snd p - fst p) <= Qabs (grid_point v j - fst p))
          vs (combine xs (transform_row k vs (inverse_row k vs xs))).
Proof.
  intros G B. rewrite transform_inverse_snap by auto.
  induction B as [|v x vs xs Bx B IH]; simpl; constructor.
  - inversion G; subst. simpl. apply grid_snap_nearest; auto.
  - apply IH. now inversion G.
Qed.

(* C10_roundtrip_grid *)
Theorem roundtrip_grid k vs ks : good vs -> Forall2 in_range vs ks ->
  transform_row k vs (inverse_row k vs (map2 grid_point vs ks)) = map2 grid_point vs ks.
Proof.
  intros G R. rewrite transform_inverse_snap; auto.
  - induction R as [|v i vs ks Ri R IH]; simpl; auto. inversion G; subst.
    rewrite IH by auto. now rewrite grid_index_point.
  - induction R as [|v i vs ks Ri R IH]; simpl; constructor.
    + inversion G as [|? ? [A W] G']; subst. apply grid_point_in_box; auto. lra.
    + apply IH. now inversion G.
Qed.

(* C10_roundtrip_bits *)
Theorem roundtrip_bits k vs bs : good vs -> length bs = total_bits vs ->
  inverse_row k vs (transform_row k vs bs) = bs.
Proof.
  intros G L. destruct (row_chunks vs bs L) as [bss [F ->]].
  rewrite transform_row_chunks by auto. unfold inverse_row. f_equal. clear L.
  induction F as [|v c vs bss E F IH]; simpl; auto. inversion G; subst.
  rewrite IH by auto. f_equal. apply inverse1_transform1; auto.
Qed.

(* ================================================================== batches *)

Lemma hstack_nil_rows n : hstack [] n = repeat [] n.
Proof. reflexivity. Qed.

Lemma map2_map_map {A B C D} (f : B -> C -> D) (g : A -> B) (h : A -> C) l :
  map2 f (map g l) (map h l) = map (fun a => f (g a) (h a)) l.
Proof. induction l; simpl; auto. now rewrite IHl. Qed.

Lemma encode_rows k w ks :
  match k with
  | Binary => int_to_bit_batch (Some w) ks
  | Gray => map bits_to_gray (int_to_bit_batch (Some w) ks)
  end = map (encode k w) ks.
Proof. destruct k; unfold int_to_bit_batch; simpl; auto. now rewrite map_map. Qed.

(* the repaired column-wise code equals the row-wise specification *)
Theorem inverse_transform_rows k vs pop : Forall (fun r => length r = length vs) pop ->
  inverse_transform k vs pop = map (inverse_row k vs) pop.
Proof.
  unfold inverse_transform, inverse_transform_gen. revert pop.
  induction vs as [|v t IH]; intros pop H.
  - simpl. induction H as [|r pop Hr H IHp]; simpl; auto.
    destruct r; [|discriminate]. now rewrite IHp.
  - simpl length. simpl columns. simpl map2. simpl hstack.
    assert (Ht : Forall (fun r => length r = length t) (map (@tl Q) pop)).
    { clear IH. induction H as [|r pop Hr H IHp]; simpl; constructor; auto.
      destruct r; simpl in *; [discriminate|lia]. }
    specialize (IH _ Ht). rewrite map_length in IH. rewrite IH.
    unfold float_to_bit. rewrite encode_rows, !map_map, map2_map_map.
    clear IH Ht. induction H as [|r pop Hr H IHp]; simpl; auto.
    rewrite IHp. f_equal. destruct r as [|x xs]; [discriminate|reflexivity].
Qed.

(* C10_inverse_fixed_length *)
Theorem inverse_fixed_length k vs pop : Forall (fun r => length r = length vs) pop ->
  length (inverse_transform k vs pop) = length pop /\
  Forall (fun s => length s = total_bits vs) (inverse_transform k vs pop).
Proof.
  intro H. rewrite inverse_transform_rows by auto. split; [apply map_length|].
  induction H; simpl; constructor; auto. now apply inverse_row_length.
Qed.

(* batch form of the two round trips *)
Theorem roundtrip_bits_batch k vs pop : good vs -> Forall (fun b => length b = total_bits vs) pop ->
  inverse_transform k vs (transform k vs pop) = pop.
Proof.
  intros G H. unfold transform. rewrite inverse_transform_rows.
  - rewrite map_map. induction H; simpl; auto. rewrite roundtrip_bits by auto. now f_equal.
  - induction H; simpl; constructor; auto. now apply transform_row_length.
Qed.

Theorem roundtrip_grid_batch k vs kss : good vs -> Forall (Forall2 in_range vs) kss ->
  transform k vs (inverse_transform k vs (map (map2 grid_point vs) kss)) = map (map2 grid_point vs) kss.
Proof.
  intros G H. rewrite inverse_transform_rows.
  - unfold transform. rewrite !map_map. induction H; simpl; auto.
    rewrite roundtrip_grid by auto. now f_equal.
  - induction H as [|ks kss R H IH]; simpl; constructor; auto.
    rewrite map2_length; auto. eapply Forall2_length'; eauto.
Qed.

(* ================================================================== the original code (record) *)

(* witness: 4+4-bit grid on [0,15]^2 (h = 1), batch {(0,0),(1,3)}: 3 columns instead of 8 *)
Definition w_vs : list var := [mkvar 0 15 4; mkvar 0 15 4].
Definition w_pop : list (list Q) := [[0; 0]; [1; 3]].

Theorem inverse_width_refuted :
  exists k vs pop, good vs /\ Forall (Forall2 in_box vs) pop /\
    ~ Forall (fun s => length s = total_bits vs) (inverse_transform_old k vs pop).
Proof.
  exists Binary, w_vs, w_pop. split; [|split].
  - repeat constructor.
  - repeat constructor; simpl; discriminate.
  - intro H. inversion H as [|? ? H1 _]. vm_compute in H1. discriminate H1.
Qed.

Theorem roundtrip_bits_batch_old_refuted :
  exists k vs pop, good vs /\ Forall (fun b => length b = total_bits vs) pop /\
    inverse_transform_old k vs (transform k vs pop) <> pop.
Proof.
  exists Gray, w_vs, [[false;false;false;false; false;false;false;false];
                      [false;false;false;true;  false;false;true;false]].
  split; [|split].
  - repeat constructor.
  - repeat constructor.
  - vm_compute. discriminate.
Qed.

(* the enumeration used by the exhaustive correspondence really is exhaustive *)
Lemma all_strings_complete (bs : list bool) : In bs (all_strings (length bs)).
Proof.
  induction bs as [|b t IH]; simpl; auto.
  apply in_or_app. destruct b; [right|left]; now apply in_map.
Qed.
Lemma all_strings_length n : length (all_strings n) = Nat.pow 2 n.
Proof. induction n; simpl; auto. rewrite app_length, !map_length, IHn. lia. Qed.
