(* NetOrder.v — model of Net._get_order (base/_net.py): the evaluation schedule (C12, C13).
   Model only, no proofs.

   The numpy idiom  argsort(to_) / unique(return_index) / split  groups the connection rows by
   target; per target the rows are sorted by source (np.argsort is not stable: the relative order
   of *duplicate* rows (same source, same target) is unspecified in numpy; the model uses the
   stable order and the correspondence canonicalises ties the same way).  Targets with the same
   sorted source tuple are merged into one schedule group (dict  pairs, insertion order = order
   of the smallest target).  Then  while calculated != purpose: for group in pairs: ...  emits a
   group when all its sources are computed and not all its targets are.  The while loop is
   modelled with fuel: None = the Python loop would not have finished within [fuel] passes
   (or self._activs[...] raised KeyError).                                                        *)
From TF Require Import Base Net.
Local Open Scope nat_scope.

Record group := mkG {
  g_from : list nat;                 (* numba_from[i]        sorted source tuple                 *)
  g_to   : list nat;                 (* numba_to[i]          targets, ascending                  *)
  g_wid  : list (list nat);          (* numba_weight_id[i]   one row of weight indices per target *)
  g_act  : list (nat * list nat)     (* activ_code[i] zipped with active_nodes[i]                *)
}.

(* np.unique : ascending, duplicates removed *)
Fixpoint ins_u (x : nat) (l : list nat) : list nat :=
  match l with
  | [] => [x]
  | y :: t => if x =? y then l else if x <? y then x :: l else y :: ins_u x t
  end.
Definition usort (l : list nat) : list nat := fold_right ins_u [] l.

(* (source, row index) of every row whose target is t, in row order *)
Fixpoint entries_from (i : nat) (con : list (nat * nat)) (t : nat) : list (nat * nat) :=
  match con with
  | [] => []
  | c :: r => if snd c =? t then (fst c, i) :: entries_from (S i) r t else entries_from (S i) r t
  end.
(* stable sort by source *)
Fixpoint ins_src (x : nat * nat) (l : list (nat * nat)) : list (nat * nat) :=
  match l with
  | [] => [x]
  | y :: t => if fst x <=? fst y then x :: l else y :: ins_src x t
  end.
Definition entries (con : list (nat * nat)) (t : nat) : list (nat * nat) :=
  fold_right ins_src [] (entries_from 0 con t).

(* pairs / weights_id_list : key -> (targets, weight index rows), insertion ordered *)
Definition pairT := (list nat * (list nat * list (list nat)))%type.
Fixpoint add_pair (key : list nat) (t : nat) (w : list nat) (ps : list pairT) : list pairT :=
  match ps with
  | [] => [(key, ([t], [w]))]
  | p :: r =>
    if natlist_eqb (fst p) key then (fst p, (fst (snd p) ++ [t], snd (snd p) ++ [w])) :: r
    else p :: add_pair key t w r
  end.
Definition build_pairs (con : list (nat * nat)) : list pairT :=
  fold_left (fun ps t => let e := entries con t in add_pair (map fst e) t (map snd e) ps)
            (usort (map snd con)) [].

(* nodes_i : activation code -> nodes of the group, insertion ordered *)
Fixpoint add_code (c v : nat) (l : list (nat * list nat)) : list (nat * list nat) :=
  match l with
  | [] => [(c, [v])]
  | p :: r => if c =? fst p then (fst p, snd p ++ [v]) :: r else p :: add_code c v r
  end.
Fixpoint act_groups (acts : list (nat * nat)) (ts : list nat) (acc : list (nat * list nat))
  : option (list (nat * list nat)) :=
  match ts with
  | [] => Some acc
  | t :: r =>
    match alookup t acts with
    | Some c => act_groups acts r (add_code c t acc)
    | None => None
    end
  end.

(* one execution of  for from_i, to_i in pairs.items()  *)
Fixpoint pass (acts : list (nat * nat)) (calc : list nat) (ps : list pairT)
  : option (list nat * list group) :=
  match ps with
  | [] => Some (calc, [])
  | p :: r =>
    let k := fst p in let ts := fst (snd p) in let ws := snd (snd p) in
    if subset k calc && negb (subset ts calc) then
      match act_groups acts ts [] with
      | Some ag =>
        match pass acts (union calc ts) r with
        | Some (c', gs) => Some (c', mkG k ts ws ag :: gs)
        | None => None
        end
      | None => None
      end
    else pass acts calc r
  end.

(* while calculated != purpose *)
Fixpoint order_loop (fuel : nat) (acts : list (nat * nat)) (calc purpose : list nat)
         (ps : list pairT) (acc : list group) : option (list group) :=
  if set_eq calc purpose then Some acc
  else match fuel with
       | O => None
       | S f =>
         match pass acts calc ps with
         | Some (c', gs) => order_loop f acts c' purpose ps (acc ++ gs)
         | None => None
         end
       end.

Definition purpose (n : net) : list nat := union (union (n_in n) (assemble (n_hid n))) (n_out n).

Definition get_order (fuel : nat) (n : net) : option (list group) :=
  order_loop fuel (n_act n) (n_in n) (purpose n) (build_pairs (n_con n)) [].

(* number of schedule groups = number of passes that always suffices for Valid nets *)
Definition order_fuel (n : net) : nat := length (build_pairs (n_con n)).

(* equality of schedules, for the checker *)
Fixpoint actg_eqb (a b : list (nat * list nat)) : bool :=
  match a, b with
  | [], [] => true
  | x :: a', y :: b' => (fst x =? fst y) && natlist_eqb (snd x) (snd y) && actg_eqb a' b'
  | _, _ => false
  end.
Definition group_eqb (a b : group) : bool :=
  natlist_eqb (g_from a) (g_from b) && natlist_eqb (g_to a) (g_to b)
  && natll_eqb (g_wid a) (g_wid b) && actg_eqb (g_act a) (g_act b).
Fixpoint sched_eqb (a b : list group) : bool :=
  match a, b with
  | [], [] => true
  | x :: a', y :: b' => group_eqb x y && sched_eqb a' b'
  | _, _ => false
  end.
