(* AdaptProofs.v — ranges, memory invariant, archive, accept-only (C15). *)
From TF Require Import Base RandomPrims RandomPrimsProofs RandomPrimsProofs2 Adapt.
From Coq Require Import Permutation.
Open Scope Q_scope.

Ltac minv H :=
  unfold bind, ret in H;
  repeat match type of H with
  | match ?m with Some _ => _ | None => _ end = Some _ =>
      let E := fresh "E" in destruct m as [[? ?]|] eqn:E; [|discriminate]
  end;
  match type of H with
  | Some _ = Some _ => inversion H; subst; clear H
  | _ => idtac
  end.

Lemma Qltb_false' a b : Qltb a b = false -> b <= a.
Proof. intros H. destruct (Qlt_le_dec a b) as [Hl|Hl]; auto. apply Qltb_lt in Hl. congruence. Qed.

(* the draws left over are a suffix of the draws given; a suffix of valid draws is valid *)
Definition suffix (ds' ds : list draw) : Prop := exists k, ds' = skipn k ds.
Lemma suffix_refl ds : suffix ds ds. Proof. exists 0%nat. reflexivity. Qed.
Lemma suffix_cons d ds' ds : suffix ds' ds -> suffix ds' (d :: ds).
Proof. intros (k & ->). exists (S k). reflexivity. Qed.
Lemma suffix_trans a b c : suffix a b -> suffix b c -> suffix a c.
Proof.
  intros (k1 & ->) (k2 & ->). exists (k2 + k1)%nat. revert c. induction k2 as [|k2 IH]; intros c; cbn [Nat.add skipn]; auto.
  destruct c; [now rewrite !skipn_nil|]. cbn [skipn]. apply IH.
Qed.
Lemma suffix_valid ds' ds : suffix ds' ds -> valid_draws ds -> valid_draws ds'.
Proof.
  intros (k & ->). revert ds. induction k as [|k IH]; intros ds Hv; simpl; auto.
  destruct ds; auto. inversion Hv; subst. apply IH; auto.
Qed.

(* ------------------------------------------------------------------ ranges of the draws *)
Theorem randc01_range : forall ds v ds', randc01 ds = Some (v, ds') -> (0 < v /\ v <= 1) /\ suffix ds' ds.
Proof.
  induction ds as [|d ds IH]; intros v ds' H; cbn [randc01] in H; [discriminate|].
  destruct d as [u|? ?|x]; try discriminate.
  destruct (Qle_bool x 0) eqn:E.
  - destruct (IH _ _ H) as (Hr & Hs). split; auto. now apply suffix_cons.
  - apply Qle_bool_false in E. inversion H; subst. split; [|apply suffix_cons, suffix_refl].
    destruct (Qltb 1 x) eqn:E1; [lra|]. apply Qltb_false' in E1. lra.
Qed.

Lemma clamp01_range v : 0 <= clamp01 v /\ clamp01 v <= 1.
Proof.
  unfold clamp01. destruct (Qltb v 0) eqn:E0; [lra|]. destruct (Qltb 1 v) eqn:E1; [lra|].
  apply Qltb_false' in E0, E1. lra.
Qed.

Theorem randn01_range ds v ds' : randn01 ds = Some (v, ds') -> (0 <= v /\ v <= 1) /\ suffix ds' ds.
Proof.
  unfold randn01, bind, popX, ret. destruct ds as [|[?|? ?|x] r]; try discriminate.
  intros H; inversion H; subst. split; [apply clamp01_range|apply suffix_cons, suffix_refl].
Qed.

Theorem randc_hi_range hi : forall ds v ds', randc_hi hi ds = Some (v, ds') -> (0 < v /\ v <= hi) /\ suffix ds' ds.
Proof.
  induction ds as [|d ds IH]; intros v ds' H; cbn [randc_hi] in H; [discriminate|].
  destruct d as [u|? ?|x]; try discriminate.
  destruct (Qle_bool x 0 || Qltb hi x) eqn:E.
  - destruct (IH _ _ H) as (Hr & Hs). split; auto. now apply suffix_cons.
  - apply orb_false_iff in E. destruct E as (E0 & E1). apply Qle_bool_false in E0. apply Qltb_false' in E1.
    inversion H; subst. split; [lra|apply suffix_cons, suffix_refl].
Qed.

Lemma randint1_suffix lo hi ds r ds' : randint lo hi 1 ds = Some (r, ds') -> suffix ds' ds.
Proof.
  cbn [randint]. unfold bind, popU, ret. destruct ds as [|[u|? ?|?] dd]; try discriminate.
  intros H; inversion H; subst. apply suffix_cons, suffix_refl.
Qed.

(* every generated pair: memory index in range, first parameter in (0,hi], second in [0,1] *)
Definition pair_ok (H : Z) (hi : Q) (t : Z * Q * Q) : Prop :=
  (0 <= fst (fst t) < H)%Z /\ (0 < snd (fst t) /\ snd (fst t) <= hi) /\ (0 <= snd t /\ snd t <= 1).

Theorem gen_pairs_range (first : list draw -> option (Q * list draw)) (hi : Q) :
  (forall ds v ds', first ds = Some (v, ds') -> (0 < v /\ v <= hi) /\ suffix ds' ds) ->
  forall n H ds r ds', (0 < H)%Z -> valid_draws ds -> gen_pairs first n H ds = Some (r, ds') ->
  length r = n /\ Forall (pair_ok H hi) r.
Proof.
  intros Hf. induction n as [|n IH]; intros H ds r ds' HH Hv Hg; cbn [gen_pairs] in Hg.
  - unfold ret in Hg. inversion Hg; subst. split; auto.
  - minv Hg.
    destruct (randint_range 0 H ltac:(lia) 1 _ _ _ Hv E) as (Hl & Hr).
    destruct l as [|j [|? ?]]; simpl in Hl; try lia. inversion Hr as [|? ? Hj _]; subst.
    destruct (Hf _ _ _ E0) as (Ha & Hs1). destruct (randn01_range _ _ _ E1) as (Hb & Hs2).
    assert (Hv3 : valid_draws l2).
    { eapply suffix_valid; [|exact Hv]. eapply suffix_trans; [exact Hs2|]. eapply suffix_trans; [exact Hs1|].
      eapply randint1_suffix; eauto. }
    destruct (IH H l2 l3 ds' HH Hv3 E2) as (Hl3 & Hall).
    split; [simpl; lia|]. constructor; auto. unfold pair_ok. cbn. repeat split; try lia; tauto.
Qed.

Theorem shade_ranges pop H ds r ds' : (0 < H)%Z -> valid_draws ds -> shade_generate pop H ds = Some (r, ds') ->
  length r = pop /\ Forall (pair_ok H 1) r.
Proof. apply gen_pairs_range. apply randc01_range. Qed.

Theorem shaga_ranges hi pop H ds r ds' : (0 < H)%Z -> valid_draws ds -> shaga_generate hi pop H ds = Some (r, ds') ->
  length r = pop /\ Forall (pair_ok H hi) r.
Proof. apply gen_pairs_range. apply randc_hi_range. Qed.

(* ------------------------------------------------------------------ means stay in range *)
Lemma wsum_nil_l x : wsum [] x = 0. Proof. reflexivity. Qed.

Lemma wsum_bounds : forall (w x : list Q) lo hi,
  Forall (fun a => 0 <= a) w -> Forall (fun a => lo <= a /\ a <= hi) x -> length w = length x ->
  lo * qsum w <= wsum w x /\ wsum w x <= hi * qsum w.
Proof.
  induction w as [|a w IH]; intros [|b x] lo hi Hw Hx Hl; simpl in Hl; try lia; unfold wsum; cbn [combine map qsum fst snd].
  - lra.
  - inversion Hw; inversion Hx; subst. destruct (IH x lo hi H2 H6 ltac:(lia)) as (H7 & H8). destruct H5 as (H5a & H5b). unfold wsum in *. nra.
Qed.

(* weighted Lehmer mean: sum(w x^2)/sum(w x) lies between the bounds of x when sum(w x) > 0 *)
Lemma wsum_sq_bounds : forall (w x : list Q) lo hi, 0 <= lo ->
  Forall (fun a => 0 <= a) w -> Forall (fun a => lo <= a /\ a <= hi) x -> length w = length x ->
  lo * wsum w x <= wsum w (sq x) /\ wsum w (sq x) <= hi * wsum w x.
Proof.
  induction w as [|a w IH]; intros [|b x] lo hi Hlo Hw Hx Hl; simpl in Hl; try lia; unfold wsum, sq; cbn [combine map qsum fst snd].
  - lra.
  - inversion Hw; inversion Hx; subst. destruct (IH x lo hi Hlo H2 H6 ltac:(lia)) as (H7 & H8). destruct H5 as (H5a & H5b).
    unfold wsum, sq in *. assert (0 <= a * b) by nra. assert (lo * (a * b) <= a * (b * b)) by nra. assert (a * (b * b) <= hi * (a * b)) by nra. lra.
Qed.

Theorem lehmer_range w x lo hi : 0 <= lo -> lo <= hi ->
  Forall (fun a => 0 <= a) w -> Forall (fun a => lo <= a /\ a <= hi) x -> length w = length x ->
  (0 < wsum w x -> lo <= lehmer w x /\ lehmer w x <= hi) /\
  (wsum w x == 0 -> lehmer w x == 0).
Proof.
  intros Hlo Hlh Hw Hx Hl. unfold lehmer. split.
  - intros Hpos. destruct (Qeq_bool (wsum w x) 0) eqn:E; [apply Qeq_bool_iff in E; lra|].
    destruct (wsum_sq_bounds w x lo hi Hlo Hw Hx Hl) as (H1 & H2).
    split; [apply Qle_shift_div_l|apply Qle_shift_div_r]; lra.
  - intros Hz. destruct (Qeq_bool (wsum w x) 0) eqn:E; [reflexivity|].
    exfalso. assert (Qeq_bool (wsum w x) 0 = true) by (apply Qeq_bool_iff; auto). congruence.
Qed.

Lemma ones_nonneg n : Forall (fun a => 0 <= a) (ones n).
Proof. unfold ones. apply Forall_forall. intros a Ha. apply repeat_spec in Ha. subst. lra. Qed.

Lemma wsum_ones_pos : forall x lo, 0 < lo -> x <> [] -> Forall (fun a => lo <= a) x -> 0 < wsum (ones (length x)) x.
Proof.
  induction x as [|b x IH]; intros lo Hlo Hne Hx; [congruence|]. inversion Hx; subst.
  unfold wsum, ones. cbn [length repeat combine map qsum fst snd].
  destruct x as [|c x]; [cbn; lra|]. assert (0 < wsum (ones (length (c :: x))) (c :: x)) by (apply (IH lo); auto; congruence).
  unfold wsum, ones in H. cbn [length repeat] in *. lra.
Qed.

(* SHADE: the new F cell is in (0,1] when all successful F are; the new CR cell is in [0,1] *)
Theorem shade_update_F_range u S : 0 < u /\ u <= 1 -> Forall (fun a => 0 < a /\ a <= 1) S ->
  0 < shade_update_F u S /\ shade_update_F u S <= 1.
Proof.
  intros Hu HS. unfold shade_update_F. destruct S as [|s S']; [exact Hu|].
  set (S := s :: S') in *.
  (* all elements are >= the minimum, which is positive: use the bound lo = min over the finite list via induction *)
  assert (Hex : exists lo, 0 < lo /\ Forall (fun a => lo <= a /\ a <= 1) S).
  { clear Hu. induction S as [|a S0 IH]; [exists 1; split; [lra|constructor]|].
    inversion HS; subst. destruct (IH H2) as (lo & Hlo & Hall). destruct H1 as (Ha0 & Ha1).
    exists (if Qltb a lo then a else lo). destruct (Qltb a lo) eqn:E.
    - apply Qltb_lt in E. split; [lra|]. constructor; [lra|]. eapply Forall_impl; [|exact Hall]. intros b Hb; cbn in Hb; lra.
    - apply Qltb_false' in E. split; [lra|]. constructor; [lra|auto]. }
  destruct Hex as (lo & Hlo & Hall).
  assert (Hlen : length (ones (length S)) = length S) by (unfold ones; apply repeat_length).
  destruct (lehmer_range (ones (length S)) S lo 1 ltac:(lra)) as (Hr & _); auto.
  { destruct (Qlt_le_dec 1 lo); [|auto]. inversion Hall; subst. lra. }
  { apply ones_nonneg. }
  assert (Hpos : 0 < wsum (ones (length S)) S).
  { apply (wsum_ones_pos S lo); auto; [unfold S; congruence|]. eapply Forall_impl; [|exact Hall]. intros b Hb; cbn in Hb; tauto. }
  destruct (Hr Hpos). lra.
Qed.

Lemma weights_props df : Forall (fun d => 0 <= d) df -> 0 < qsum df ->
  Forall (fun a => 0 <= a) (weights df) /\ length (weights df) = length df /\ qsum (weights df) == 1.
Proof.
  intros Hd Hs. unfold weights. split; [|split].
  - apply Forall_forall. intros a Ha. apply in_map_iff in Ha. destruct Ha as (d & <- & Hin).
    rewrite Forall_forall in Hd. specialize (Hd d Hin). apply Qle_shift_div_l; lra.
  - apply map_length.
  - assert (H : forall l S, ~ S == 0 -> qsum (map (fun d => d / S) l) == qsum l / S).
    { intros l S HS. induction l as [|a l IH]; cbn [map qsum]; [field; auto|]. rewrite IH. field. auto. }
    rewrite H by lra. field. lra.
Qed.

Theorem shade_update_CR_range u S df : 0 <= u /\ u <= 1 -> Forall (fun a => 0 <= a /\ a <= 1) S ->
  Forall (fun d => 0 <= d) df -> length df = length S ->
  0 <= shade_update_CR u S df /\ shade_update_CR u S df <= 1.
Proof.
  intros Hu HS Hd Hl. unfold shade_update_CR. destruct S as [|s S']; [exact Hu|].
  destruct (Qltb 0 (qsum df)) eqn:E; [|exact Hu]. apply Qltb_lt in E.
  destruct (weights_props df Hd E) as (Hw & Hwl & Hws).
  destruct (wsum_bounds (weights df) (s :: S') 0 1 Hw HS ltac:(lia)) as (H1 & H2). lra.
Qed.

(* SHAGA: mutation-rate cell stays in (0,hi] (every improving trial has positive weight), CR cell in [0,1] *)
Theorem shaga_update_range_CR u S df : 0 <= u /\ u <= 1 -> Forall (fun a => 0 <= a /\ a <= 1) S ->
  Forall (fun d => 0 <= d) df -> length df = length S ->
  0 <= shaga_update u S df /\ shaga_update u S df <= 1.
Proof.
  intros Hu HS Hd Hl. unfold shaga_update. destruct S as [|s S']; [exact Hu|].
  destruct (Qltb 0 (qsum df)) eqn:E; [|exact Hu]. apply Qltb_lt in E.
  destruct (weights_props df Hd E) as (Hw & Hwl & Hws).
  destruct (lehmer_range (weights df) (s :: S') 0 1 ltac:(lra) ltac:(lra) Hw HS ltac:(lia)) as (Hr & Hz).
  destruct (wsum_bounds (weights df) (s :: S') 0 1 Hw HS ltac:(lia)) as (H1 & _).
  destruct (Qlt_le_dec 0 (wsum (weights df) (s :: S'))) as [Hp|Hp].
  - destruct (Hr Hp). lra.
  - assert (wsum (weights df) (s :: S') == 0) by lra. rewrite (Hz H). lra.
Qed.

Theorem shaga_update_range_MR hi u S df : 0 < u /\ u <= hi ->
  (exists lo, 0 < lo /\ Forall (fun a => lo <= a /\ a <= hi) S) ->
  Forall (fun d => 0 <= d) df -> length df = length S ->
  0 < shaga_update u S df /\ shaga_update u S df <= hi.
Proof.
  intros Hu (lo & Hlo & HS) Hd Hl. unfold shaga_update. destruct S as [|s S']; [exact Hu|].
  destruct (Qltb 0 (qsum df)) eqn:E; [|exact Hu]. apply Qltb_lt in E.
  destruct (weights_props df Hd E) as (Hw & Hwl & Hws).
  assert (Hlh : lo <= hi) by (inversion HS; subst; lra).
  destruct (lehmer_range (weights df) (s :: S') lo hi ltac:(lra) Hlh Hw HS ltac:(lia)) as (Hr & _).
  destruct (wsum_bounds (weights df) (s :: S') lo hi Hw HS ltac:(lia)) as (H1 & _).
  assert (Hp : 0 < wsum (weights df) (s :: S')) by nra.
  destruct (Hr Hp). lra.
Qed.

(* the defect repaired in lehmer_mean: with all improving CR = 0 the unrepaired quotient is 0/0 *)
Theorem lehmer_zero_denominator_witness : wsum (weights [1]) [0] == 0 /\ lehmer (weights [1]) [0] == 0.
Proof. split; vm_compute; reflexivity. Qed.

(* ------------------------------------------------------------------ memory: one cell per generation, cyclically *)
Theorem next_k_cyclic k H : (k < H)%nat -> (next_k k H < H)%nat /\ next_k k H = ((k + 1) mod H)%nat.
Proof.
  intros Hk. unfold next_k. destruct (S k =? H)%nat eqn:E.
  - apply Nat.eqb_eq in E. split; [lia|]. subst H. replace (k + 1)%nat with (S k) by lia. now rewrite Nat.mod_same.
  - apply Nat.eqb_neq in E. split; [lia|]. rewrite Nat.mod_small by lia. lia.
Qed.

Definition mem_ok (Pa Pb : Q -> Prop) (m : memory) : Prop :=
  length (mem_b m) = length (mem_a m) /\ (mem_k m < length (mem_a m))%nat /\
  Forall Pa (mem_a m) /\ Forall Pb (mem_b m).

Lemma Forall_upd {A} (P : A -> Prop) (l : list A) i x : Forall P l -> P x -> Forall P (upd l i x).
Proof.
  revert i. induction l as [|a l IH]; intros [|i] Hl Hx; simpl; auto; inversion Hl; subst; constructor; auto.
Qed.

Theorem mem_write_inv (Pa Pb : Q -> Prop) ua ub m :
  (forall u, Pa u -> Pa (ua u)) -> (forall u, Pb u -> Pb (ub u)) ->
  mem_ok Pa Pb m ->
  let m' := mem_write ua ub m in
  mem_ok Pa Pb m' /\ mem_k m' = ((mem_k m + 1) mod length (mem_a m))%nat /\
  length (mem_a m') = length (mem_a m) /\
  (* only the cell next_k changes *)
  (forall i, i <> mem_k m' -> nth i (mem_a m') 0 = nth i (mem_a m) 0 /\ nth i (mem_b m') 0 = nth i (mem_b m) 0) /\
  nth (mem_k m') (mem_a m') 0 = ua (nth (mem_k m) (mem_a m) 0) /\
  nth (mem_k m') (mem_b m') 0 = ub (nth (mem_k m) (mem_b m) 0).
Proof.
  intros Ha Hb (Hl & Hk & HA & HB). cbv zeta. unfold mem_write. cbn [mem_a mem_b mem_k].
  destruct (next_k_cyclic (mem_k m) (length (mem_a m)) Hk) as (Hn1 & Hn2).
  assert (HPa : Pa (nth (mem_k m) (mem_a m) 0)) by (rewrite Forall_forall in HA; apply HA, nth_In; auto).
  assert (HPb : Pb (nth (mem_k m) (mem_b m) 0)) by (rewrite Forall_forall in HB; apply HB, nth_In; lia).
  split; [|split; [auto|split; [apply upd_length|split; [|split]]]].
  - unfold mem_ok. cbn [mem_a mem_b mem_k]. rewrite !upd_length. repeat split; auto; apply Forall_upd; auto.
  - intros i Hi. split; apply nth_upd_neq; auto.
  - apply nth_upd_eq; auto.
  - apply nth_upd_eq; lia.
Qed.

(* ------------------------------------------------------------------ archive *)
Lemma firstn_incl {A} (l : list A) n x : In x (firstn n l) -> In x l.
Proof. revert n. induction l as [|a l IH]; intros [|n] H; simpl in *; try contradiction. destruct H; [left|right]; eauto. Qed.

Theorem archive_spec {A} (d : A) pop_size archive worse ds a ds' :
  valid_draws ds -> append_archive d pop_size archive worse ds = Some (a, ds') ->
  (length archive <= pop_size)%nat ->
  (length a <= pop_size)%nat /\ forall x, In x a -> In x archive \/ In x worse.
Proof.
  intros Hv H Hl. unfold append_archive in H.
  destruct (pop_size <? length (archive ++ worse))%nat eqn:E.
  - minv H. split; [rewrite firstn_length; lia|]. intros x Hx. apply firstn_incl in Hx.
    pose proof (sattolo_perm d _ _ _ _ Hv E0) as Hp. apply (Permutation_in _ (Permutation_sym Hp)) in Hx.
    apply in_app_or; auto.
  - unfold ret in H. inversion H; subst. apply Nat.ltb_ge in E. split; [auto|]. intros x Hx. apply in_app_or; auto.
Qed.

(* members appended are exactly the parents replaced by STRICTLY better trials *)
Theorem successful_spec {A} (par trial : list Q) (xs : list A) x :
  In x (successful par trial xs) -> exists i, (i < length xs)%nat /\ nth_error xs i = Some x /\
    nth i par 0 < nth i trial 0.
Proof.
  unfold successful. revert trial xs. induction par as [|p par IH]; intros [|t trial] [|y xs] H; cbn in H; try contradiction.
  cbn [combine filter map] in H. cbn [fst snd] in H.
  destruct (Qltb p t) eqn:E.
  - cbn [map] in H. destruct H as [<-|H].
    + exists 0%nat. split; [simpl; lia|]. split; [reflexivity|]. apply Qltb_lt in E. exact E.
    + destruct (IH trial xs H) as (i & Hi & Hn & Hlt). exists (S i). split; [simpl; lia|]. auto.
  - destruct (IH trial xs H) as (i & Hi & Hn & Hlt). exists (S i). split; [simpl; lia|]. auto.
Qed.

(* ------------------------------------------------------------------ jDE *)
Lemma popXs_length : forall n ds vs ds', popXs n ds = Some (vs, ds') -> length vs = n.
Proof.
  induction n as [|n IH]; intros ds vs ds' H; cbn [popXs] in H.
  - unfold ret in H. inversion H; auto.
  - minv H. simpl. f_equal. eapply IH; eauto.
Qed.

Lemma scatter_length f : forall mask old vals, length (scatter f mask old vals) = length old.
Proof.
  induction mask as [|m mask IH]; intros [|o old] vals; cbn [scatter]; try reflexivity.
  - destruct m; reflexivity.
  - destruct m.
    + destruct vals as [|v vals]; [reflexivity|]. cbn [length]. f_equal. apply IH.
    + cbn [length]. f_equal. apply IH.
Qed.

Theorem scatter_spec f : forall mask old vals i, length mask = length old ->
  (length (filter (fun b => b) mask) <= length vals)%nat -> (i < length old)%nat ->
  (nth i mask false = false -> nth i (scatter f mask old vals) 0 = nth i old 0) /\
  (nth i mask false = true -> exists v, In v vals /\ nth i (scatter f mask old vals) 0 = f v).
Proof.
  induction mask as [|m mask IH]; intros [|o old] vals i Hl Hv Hi; simpl in Hl, Hi; try lia.
  destruct m; cbn [scatter filter] in *.
  - destruct vals as [|v vals]; [simpl in Hv; lia|]. cbn [length] in *.
    destruct i as [|i].
    + cbn. split; [discriminate|]. intros _. exists v. split; [left; auto|reflexivity].
    + destruct (IH old vals i ltac:(lia) ltac:(lia) ltac:(lia)) as (H2 & H3).
      cbn [nth]. split; [auto|]. intros Hm. destruct (H3 Hm) as (v' & Hin & Hn). exists v'. split; [right; auto|auto].
  - destruct i as [|i].
    + cbn. split; [reflexivity|discriminate].
    + destruct (IH old vals i ltac:(lia) Hv ltac:(lia)) as (H2 & H3). cbn [nth]. split; auto.
Qed.

(* regenerated F in [F_min, F_min+F_max] (values r in [0,1]), regenerated CR in [0,1] *)
Theorem jde_F_value F_min F_max r : 0 <= F_max -> 0 <= r -> r <= 1 ->
  F_min <= F_min + r * F_max /\ F_min + r * F_max <= F_min + F_max.
Proof. intros. split; nra. Qed.

(* accept-only: a parameter changes only where the trial was accepted *)
Theorem accept_only_spec : forall par trial old new i, length par = length old -> length trial = length old ->
  length new = length old -> (i < length old)%nat ->
  nth i (accept_only par trial old new) 0 =
    if Qle_bool (nth i par 0) (nth i trial 0) then nth i new 0 else nth i old 0.
Proof.
  induction par as [|p par IH]; intros [|t trial] [|o old] [|n new] i H1 H2 H3 Hi; simpl in *; try lia.
  destruct i as [|i]; [reflexivity|]. apply IH; lia.
Qed.
