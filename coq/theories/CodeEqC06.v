(* CodeEqC06.v — the hand-written models of the binary-GA operators (BinaryOps.v) are EQUAL to the definitions
   generated from utils/crossovers.py and utils/mutations.py (coq/gen/GenCode.v); re-checked on every run. *)
From TF Require Import Py PyLemmas BinaryOps RandomPrimsProofs CodeEqC11.
From TFG Require Import GenCode.
Open Scope Z_scope.

Theorem code_empty_crossover ps fitness rank ds :
  ret (py_empty_crossover ps fitness rank) ds = empty_crossover ps ds.
Proof. unfold py_empty_crossover, empty_crossover. cbv zeta. now rewrite getR_0. Qed.

(* a loop that conditionally overwrites position i with a value that does not depend on the array *)
Lemma cond_overwrite (c : nat -> bool) (f : nat -> Z) (base : list Z) :
  fold_left (fun st j => if c j then upd st j (f j) else st) (seq 0 (length base)) base
  = build (length base) (fun i => if c i then f i else nth i base 0).
Proof.
  unfold build.
  rewrite (fold_pointwise_all 0 (fun st j => if c j then upd st j (f j) else st) (fun i old => if c i then f i else old)).
  - reflexivity.
  - intros st i Hi. destruct (c i); [reflexivity|]. symmetry. apply upd_same.
Qed.

(* ---------- one_point_crossover ---------- *)
Lemma random_sample_one n ds : random_sample n 1 true ds = bind (popI n) (fun c => ret [c]) ds.
Proof.
  unfold random_sample, bind, popI, ret.
  destruct ds as [|[u|m v|x] ds]; try reflexivity.
  cbn [random_sample_loop Nat.leb length]. destruct (m =? n); [|reflexivity].
  cbn [negb andb app]. destruct ds; reflexivity.
Qed.

Theorem code_one_point_crossover ps fitness rank ds :
  length (nth 1 ps []) = width ps ->
  py_one_point_crossover ps fitness rank ds = one_point_crossover ps ds.
Proof.
  intro Hw. unfold py_one_point_crossover, one_point_crossover. cbv zeta.
  unfold bind at 1. rewrite getR_0.
  change (zlen (nth 0 ps [])) with (Z.of_nat (width ps)).
  pose proof (code_random_sample (Z.of_nat (width ps)) 1 true ds (or_introl eq_refl)) as Hrs.
  simpl (Z.of_nat 1) in Hrs. rewrite Hrs. clear Hrs.
  rewrite random_sample_one. rewrite !bind_app.
  destruct (popI (Z.of_nat (width ps)) ds) as [[v ds1]|]; [|reflexivity].
  rewrite ret_app, getZ_0. cbn [nth].
  rewrite !bind_app, code_flip_coin.
  destruct (flip_coin (1 # 2) ds1) as [[coin ds']|]; [|reflexivity].
  rewrite !ret_app. f_equal. f_equal.
  rewrite getR_1.
  destruct coin.
  - rewrite for_range_p_0.
    transitivity (fold_left (fun st j => if (v <? Z.of_nat j) then upd st j (nth j (nth 1 ps []) 0) else st)
                    (seq 0 (length (nth 0 ps []))) (nth 0 ps [])).
    { apply fold_left_ext. intros st j. rewrite Z.gtb_ltb, getZ_nat, setA_nat. reflexivity. }
    rewrite cond_overwrite. reflexivity.
  - rewrite for_range_p_0. unfold width in *. rewrite <- Hw.
    transitivity (fold_left (fun st j => if (v <? Z.of_nat j) then upd st j (nth j (nth 0 ps []) 0) else st)
                    (seq 0 (length (nth 1 ps []))) (nth 1 ps [])).
    { apply fold_left_ext. intros st j. rewrite Z.gtb_ltb, getZ_nat, setA_nat. reflexivity. }
    rewrite cond_overwrite. unfold one_point_child, width, gene. rewrite Hw. reflexivity.
Qed.

(* ---------- two_point_crossover ---------- *)
Theorem code_two_point_crossover ps fitness rank ds :
  valid_draws ds -> length (nth 1 ps []) = width ps -> (2 <= width ps)%nat ->
  py_two_point_crossover ps fitness rank ds = two_point_crossover ps ds.
Proof.
  intros Hv Hw H2. unfold py_two_point_crossover, two_point_crossover. cbv zeta.
  rewrite getR_0, getR_1.
  change (zlen (nth 0 ps [])) with (Z.of_nat (width ps)).
  rewrite !bind_app.
  pose proof (code_random_sample (Z.of_nat (width ps)) 2 false ds) as Hrs.
  simpl (Z.of_nat 2) in Hrs. rewrite Hrs by (right; lia). clear Hrs.
  destruct (random_sample (Z.of_nat (width ps)) 2 false ds) as [[cs ds1]|] eqn:Ers; [|reflexivity].
  destruct (random_sample_spec _ _ _ _ _ _ Hv Ers) as (Hl & _ & _).
  destruct cs as [|x [|y [|z cs]]]; try discriminate. clear Hl.
  rewrite !bind_app, code_flip_coin.
  destruct (flip_coin (1 # 2) ds1) as [[coin ds']|]; [|reflexivity].
  assert (Hs : sortedZ [x; y] = [Z.min x y; Z.max x y]).
  { unfold sortedZ. cbn [fold_right insertZ]. destruct (x <=? y) eqn:E.
    - apply Z.leb_le in E. now rewrite Z.min_l, Z.max_r by lia.
    - apply Z.leb_gt in E. now rewrite Z.min_r, Z.max_l by lia. }
  rewrite Hs, getZ_0, getZ_1. cbn [nth]. unfold two_point_child.
  destruct coin; rewrite !ret_app; f_equal; f_equal.
  - rewrite for_range_p_0.
    transitivity (fold_left (fun st j => if ((Z.min x y <=? Z.of_nat j) && (Z.of_nat j <=? Z.max x y))
                                         then upd st j (nth j (nth 1 ps []) 0) else st)
                    (seq 0 (length (nth 0 ps []))) (nth 0 ps [])).
    { apply fold_left_ext. intros st j. rewrite getZ_nat, setA_nat. reflexivity. }
    rewrite cond_overwrite. reflexivity.
  - rewrite for_range_p_0. unfold width in *. rewrite <- Hw.
    transitivity (fold_left (fun st j => if ((Z.min x y <=? Z.of_nat j) && (Z.of_nat j <=? Z.max x y))
                                         then upd st j (nth j (nth 0 ps []) 0) else st)
                    (seq 0 (length (nth 1 ps []))) (nth 1 ps [])).
    { apply fold_left_ext. intros st j. rewrite getZ_nat, setA_nat. reflexivity. }
    rewrite cond_overwrite. unfold gene. rewrite Hw. reflexivity.
Qed.

(* ---------- uniform family ---------- *)
Lemma nth_nonneg (ch : list Z) : Forall (fun v => 0 <= v) ch -> forall j, 0 <= nth j ch 0.
Proof.
  intros H j. destruct (Nat.lt_ge_cases j (length ch)) as [Hj|Hj].
  - rewrite Forall_forall in H. apply H. now apply nth_In.
  - rewrite nth_overflow by lia. lia.
Qed.

Lemma from_choice_loop ps (ch : list Z) : Forall (fun v => 0 <= v) ch ->
  for_range_p 0 (zlen (getR ps 0)) (zerosZ (zlen (getR ps 0)))
    (fun i offspring => setA offspring i (getZ (getR ps (getZ ch i)) i))
  = from_choice ps ch.
Proof.
  intro Hch. rewrite getR_0. unfold zlen. rewrite for_range_p_0, zerosZ_nat.
  transitivity (fold_left (fun st j => if true then upd st j (nth j (nth (Z.to_nat (nth j ch 0)) ps []) 0) else st)
                  (seq 0 (length (repeat 0 (length (nth 0 ps []))))) (repeat 0 (length (nth 0 ps [])))).
  { rewrite repeat_length. apply fold_left_ext. intros st j.
    rewrite !getZ_nat, setA_nat, getR_nonneg by (apply nth_nonneg; exact Hch). reflexivity. }
  rewrite (cond_overwrite (fun _ => true) (fun j => nth j (nth (Z.to_nat (nth j ch 0)) ps []) 0)), repeat_length. reflexivity.
Qed.

Theorem code_uniform_crossover ps fitness rank ds : valid_draws ds ->
  py_uniform_crossover ps fitness rank ds = uniform_crossover ps fitness rank ds.
Proof.
  intro Hv. unfold py_uniform_crossover, uniform_crossover. cbv zeta. rewrite !bind_app.
  assert (Hq : zlen (getR ps 0) = Z.of_nat (width ps)) by (rewrite getR_0; reflexivity).
  rewrite Hq at 1. unfold zlen at 1. rewrite code_random_sample by (left; reflexivity).
  destruct (random_sample (Z.of_nat (length fitness)) (width ps) true ds) as [[ch ds1]|] eqn:Ers; [|reflexivity].
  destruct (random_sample_spec _ _ _ _ _ _ Hv Ers) as (_ & Hr & _).
  rewrite !ret_app. f_equal. f_equal. apply from_choice_loop.
  eapply Forall_impl; [|exact Hr]. simpl; intros; lia.
Qed.

Lemma code_uniform_weighted ps (w : list Q) ds : w <> [] ->
  bind (py_random_weighted_sample w (zlen (getR ps 0)) true) (fun r_1 =>
    ret (for_range_p 0 (zlen (getR ps 0)) (zerosZ (zlen (getR ps 0)))
           (fun i offspring => setA offspring i (getZ (getR ps (getZ r_1 i)) i)))) ds
  = bind (random_weighted_sample w (width ps) true) (fun ch => ret (from_choice ps ch)) ds.
Proof.
  intro Hw. rewrite !bind_app.
  assert (Hq : zlen (getR ps 0) = Z.of_nat (width ps)) by (rewrite getR_0; reflexivity).
  rewrite Hq at 1. rewrite code_random_weighted_sample by auto.
  destruct (random_weighted_sample w (width ps) true ds) as [[ch ds1]|] eqn:Ers; [|reflexivity].
  destruct (weighted_selection_count_range _ _ _ _ _ Hw Ers) as (_ & Hr).
  rewrite !ret_app. f_equal. f_equal. apply from_choice_loop.
  eapply Forall_impl; [|exact Hr]. simpl; intros; lia.
Qed.

Theorem code_uniform_proportional_crossover ps fitness rank ds : fitness <> [] ->
  py_uniform_proportional_crossover ps fitness rank ds = uniform_proportional_crossover ps fitness rank ds.
Proof. intro H. unfold py_uniform_proportional_crossover, uniform_proportional_crossover. cbv zeta. now apply code_uniform_weighted. Qed.

Theorem code_uniform_rank_crossover ps fitness rank ds : rank <> [] ->
  py_uniform_rank_crossover ps fitness rank ds = uniform_rank_crossover ps fitness rank ds.
Proof. intro H. unfold py_uniform_rank_crossover, uniform_rank_crossover. cbv zeta. now apply code_uniform_weighted. Qed.

(* ---------- loops that draw one coin per locus ---------- *)
Lemma for_idx_coins {S} p (step : nat -> bool -> S -> S) : forall (k i : nat) (s : S) ds,
  for_idx k i (fun j st => bind (py_flip_coin p) (fun b => ret (step j b st))) s ds
  = bind (coins p k) (fun cs => ret (fold_left (fun st jj => step (i + jj)%nat (nth jj cs false) st) (seq 0 k) s)) ds.
Proof.
  induction k as [|k IH]; intros i s ds; [reflexivity|].
  cbn [for_idx coins]. rewrite !bind_app, code_flip_coin.
  destruct (flip_coin p ds) as [[b ds1]|]; [|reflexivity].
  rewrite ret_app, IH, !bind_app.
  destruct (coins p k ds1) as [[cs ds2]|]; [|reflexivity].
  rewrite !ret_app. f_equal. f_equal.
  cbn [seq fold_left nth]. rewrite Nat.add_0_r.
  rewrite <- seq_shift, fold_left_map'.
  apply fold_left_ext. intros st jj. cbn [nth]. f_equal. lia.
Qed.

Lemma coin_pointwise (g : nat -> bool -> Z -> Z) (cs : list bool) (x : list Z) :
  fold_left (fun st jj => upd st jj (g jj (nth jj cs false) (nth jj st 0))) (seq 0 (length x)) x
  = build (length x) (fun i => g i (nth i cs false) (nth i x 0)).
Proof.
  unfold build.
  apply (fold_pointwise_all 0 (fun st jj => upd st jj (g jj (nth jj cs false) (nth jj st 0)))
           (fun i old => g i (nth i cs false) old)).
  intros; reflexivity.
Qed.

(* ---------- flip_mutation ---------- *)
Theorem code_flip_mutation x p ds : py_flip_mutation x p ds = flip_mutation x p ds.
Proof.
  unfold py_flip_mutation, flip_mutation. cbv zeta. rewrite bind_app.
  unfold zlen. rewrite for_range_0.
  rewrite (for_idx_ext _ _ _ (fun j st => bind (py_flip_coin p) (fun b =>
             ret (upd st j ((fun (_ : nat) (b : bool) old => if b then 1 - old else old) j b (nth j st 0)))))).
  2:{ intros j s ds0 _. rewrite !bind_app. destruct (py_flip_coin p ds0) as [[b ds1]|]; [|reflexivity].
      rewrite !ret_app. destruct b; [now rewrite setA_nat, getZ_nat|]. now rewrite upd_same. }
  rewrite (for_idx_coins p (fun j b st => upd st j ((fun (_ : nat) (b : bool) old => if b then 1 - old else old) j b (nth j st 0)))).
  rewrite !bind_app. destruct (coins p (length x) ds) as [[cs ds1]|]; [|reflexivity].
  rewrite !ret_app. f_equal. f_equal. cbn [Nat.add].
  rewrite (coin_pointwise (fun _ b old => if b then 1 - old else old)). reflexivity.
Qed.

(* ---------- binomialGA ---------- *)
Lemma randint_one low high ds : randint low high 1 ds
  = bind popU (fun u => ret [low + Qfloor' (inject_Z (high - low) * u)]) ds.
Proof. cbn [randint]. rewrite !bind_app. destruct (popU ds) as [[u ds1]|]; reflexivity. Qed.

Theorem code_binomialGA individ mutant CR ds :
  py_binomialGA individ mutant CR ds = binomialGA individ mutant CR ds.
Proof.
  unfold py_binomialGA, binomialGA. cbv zeta. rewrite !bind_app.
  pose proof (code_randint 0 (zlen individ) 1 ds) as Hri. simpl (Z.of_nat 1) in Hri. rewrite Hri. clear Hri.
  unfold zlen at 1.
  destruct (randint 0 (Z.of_nat (length individ)) 1 ds) as [[js ds1]|]; [|reflexivity].
  rewrite getZ_0, bind_app. unfold zlen. rewrite for_range_0.
  set (j := nth 0 js 0).
  rewrite (for_idx_ext _ _ _ (fun i st => bind (py_flip_coin CR) (fun b =>
             ret (upd st i ((fun (i : nat) (b : bool) old => if b || (Z.of_nat i =? j) then nth i mutant 0 else old) i b (nth i st 0)))))).
  2:{ intros i s ds0 _. rewrite !bind_app. destruct (py_flip_coin CR ds0) as [[b ds2]|]; [|reflexivity].
      rewrite !ret_app. destruct (b || (Z.of_nat i =? j)); [now rewrite setA_nat, getZ_nat|]. now rewrite upd_same. }
  rewrite (for_idx_coins CR (fun i b st => upd st i ((fun (i : nat) (b : bool) old => if b || (Z.of_nat i =? j) then nth i mutant 0 else old) i b (nth i st 0)))).
  rewrite !bind_app. destruct (coins CR (length individ) ds1) as [[cs ds2]|]; [|reflexivity].
  rewrite !ret_app. f_equal. f_equal. cbn [Nat.add].
  rewrite (coin_pointwise (fun i b old => if b || (Z.of_nat i =? j) then nth i mutant 0 else old)). reflexivity.
Qed.

(* ---------- the property theorems, restated about the GENERATED definitions ---------- *)
From TF Require Import BinaryOpsProofs.
Open Scope Z_scope.

Theorem src_one_point ps fitness rank ds child ds' :
  valid_draws ds -> length (nth 1 ps []) = width ps ->
  py_one_point_crossover ps fitness rank ds = Some (child, ds') ->
  exists c coin, 0 <= c < Z.of_nat (width ps) /\ child = one_point_child ps c coin.
Proof. intros Hv Hw H. rewrite code_one_point_crossover in H by auto. exact (one_point_sound ps ds child ds' Hv H). Qed.

Theorem src_two_point ps fitness rank ds child ds' :
  valid_draws ds -> length (nth 1 ps []) = width ps -> (2 <= width ps)%nat ->
  py_two_point_crossover ps fitness rank ds = Some (child, ds') ->
  exists c0 c1 coin, 0 <= c0 < c1 /\ c1 < Z.of_nat (width ps) /\ child = two_point_child ps c0 c1 coin.
Proof. intros Hv Hw H2 H. rewrite code_two_point_crossover in H by auto. exact (two_point_sound ps ds child ds' Hv H). Qed.

Theorem src_uniform ps fitness rank ds child ds' :
  valid_draws ds -> length fitness = length ps ->
  py_uniform_crossover ps fitness rank ds = Some (child, ds') ->
  from_parents ps child /\ exists ch, length ch = width ps /\ child = from_choice ps ch.
Proof. intros Hv Hl H. rewrite code_uniform_crossover in H by auto. exact (uniform_from_parents ps fitness rank ds child ds' Hv Hl H). Qed.

Theorem src_flip_never_at_0 x p ds child ds' : valid_draws ds -> (p <= 0)%Q ->
  py_flip_mutation x p ds = Some (child, ds') -> child = build (length x) (fun i => nth i x 0).
Proof. intros Hv Hp H. rewrite code_flip_mutation in H. exact (flip_never_at_0 x p ds child ds' Hv Hp H). Qed.

Theorem src_flip_always_at_1 x p ds child ds' : valid_draws ds -> (1 <= p)%Q ->
  py_flip_mutation x p ds = Some (child, ds') -> child = build (length x) (fun i => 1 - nth i x 0).
Proof. intros Hv Hp H. rewrite code_flip_mutation in H. exact (flip_always_at_1 x p ds child ds' Hv Hp H). Qed.

Theorem src_binomialGA individ mutant CR ds child ds' :
  valid_draws ds -> (0 < length individ)%nat ->
  py_binomialGA individ mutant CR ds = Some (child, ds') ->
  length child = length individ /\
  exists j, (j < length individ)%nat /\ nth j child 0 = nth j mutant 0 /\
    forall i, (i < length individ)%nat -> nth i child 0 = nth i mutant 0 \/ nth i child 0 = nth i individ 0.
Proof. intros Hv Hl H. rewrite code_binomialGA in H. exact (binomial_at_least_one individ mutant CR ds child ds' Hv Hl H). Qed.

(* ---------- uniform_tournament_crossover (plain numpy: reshape, fancy indexing, row-wise argmax) ---------- *)
Lemma pairs2_winners fitness : forall (t : list Z), Forall (fun v => 0 <= v) t ->
  map (fun p => get2 (pairs2 t) (fst p) (snd p))
      (combine (map Z.of_nat (seq 0 (length (pairs2 t)))) (argmax_rows (gather2Q fitness (pairs2 t))))
  = pair_winners fitness t.
Proof.
  (* generalised over an offset so that the row index and the remaining pairs stay aligned *)
  assert (H : forall (t : list Z) (pre : list (list Z)), Forall (fun v => 0 <= v) t ->
    map (fun p => get2 (pre ++ pairs2 t) (fst p) (snd p))
        (combine (map Z.of_nat (seq (length pre) (length (pairs2 t)))) (argmax_rows (gather2Q fitness (pairs2 t))))
    = pair_winners fitness t).
  { fix IH 1. intros [|a [|b t]] pre Hnn; try reflexivity.
    inversion Hnn as [|? ? Ha Hnn']; subst. inversion Hnn' as [|? ? Hb Hnn'']; subst.
    cbn [pairs2 length seq map gather2Q argmax_rows combine pair_winners].
    f_equal.
    - cbn [fst snd]. unfold get2. rewrite getR_nat, app_nth2, Nat.sub_diag by lia. cbn [nth].
      unfold gatherQz. cbn [map]. unfold argmaxZ, argmax. cbn [argmax_from].
      rewrite !getQ_nonneg by assumption.
      destruct (Qltb (nth (Z.to_nat a) fitness 0%Q) (nth (Z.to_nat b) fitness 0%Q)); reflexivity.
    - specialize (IH t (pre ++ [[a; b]]) Hnn''). rewrite app_length in IH. cbn [length] in IH.
      replace (length pre + 1)%nat with (Datatypes.S (length pre)) in IH by lia.
      rewrite <- IH. apply map_ext_in. intros p _. now rewrite <- app_assoc. }
  intros t Hnn. exact (H t [] Hnn).
Qed.

Lemma pairs2_length : forall (t : list Z) (n : nat), length t = (2 * n)%nat -> length (pairs2 t) = n.
Proof.
  fix IH 1. intros [|a [|b t]] n H; cbn [length] in H.
  - destruct n; [reflexivity|lia].
  - lia.
  - destruct n as [|n]; [lia|]. cbn [pairs2 length]. f_equal. apply IH. lia.
Qed.

Lemma pair_winners_props fitness : forall (t : list Z) (k : Z), Forall (fun v => 0 <= v < k) t ->
  Forall (fun v => 0 <= v < k) (pair_winners fitness t).
Proof.
  fix IH 1. intros [|a [|b t]] k H; cbn [pair_winners]; try constructor.
  - inversion H as [|? ? Ha H']; inversion H' as [|? ? Hb H'']; subst. destruct (Qltb _ _); assumption.
  - inversion H as [|? ? Ha H']; inversion H' as [|? ? Hb H'']; subst. apply IH. assumption.
Qed.
Lemma pair_winners_length fitness : forall (t : list Z) (n : nat), length t = (2 * n)%nat -> length (pair_winners fitness t) = n.
Proof.
  fix IH 1. intros [|a [|b t]] n H; cbn [length] in H.
  - destruct n; [reflexivity|lia].
  - lia.
  - destruct n as [|n]; [lia|]. cbn [pair_winners length]. f_equal. apply IH. lia.
Qed.

Theorem code_uniform_tournament_crossover ps fitness rank ds : valid_draws ds ->
  py_uniform_tournament_crossover ps fitness rank ds = uniform_tournament_crossover ps fitness rank ds.
Proof.
  intro Hv. unfold py_uniform_tournament_crossover, uniform_tournament_crossover. cbv zeta. rewrite !bind_app, getR_0.
  change (zlen (nth 0 ps [])) with (Z.of_nat (width ps)).
  replace (2 * Z.of_nat (width ps)) with (Z.of_nat (2 * width ps)) by lia.
  unfold zlen, row in *. rewrite code_random_sample by (left; reflexivity).
  destruct (random_sample (Z.of_nat (length ps)) (2 * width ps) true ds) as [[t ds1]|] eqn:Ers; [|reflexivity].
  destruct (random_sample_spec _ _ _ _ _ _ Hv Ers) as (Hl & Hr & _).
  rewrite !ret_app. f_equal. f_equal.
  assert (Hnn : Forall (fun v => 0 <= v) t) by (eapply Forall_impl; [|exact Hr]; simpl; intros; lia).
  assert (Hpl : length (pairs2 t) = width ps) by (apply pairs2_length; exact Hl).
  (* the winners *)
  unfold pick2 at 2. unfold arange. rewrite Nat2Z.id.
  rewrite <- Hpl at 1. rewrite (pairs2_winners fitness t Hnn).
  (* the child *)
  set (ch := pair_winners fitness t).
  assert (Hchl : length ch = width ps) by (apply pair_winners_length; exact Hl).
  assert (Hchn : Forall (fun v => 0 <= v) ch).
  { eapply Forall_impl; [|exact (pair_winners_props fitness t _ Hr)]. simpl; intros; lia. }
  unfold pick2, from_choice, build, gene.
  apply (nth_ext _ _ 0 0).
  - rewrite !map_length, combine_length, map_length, !seq_length, Hchl. lia.
  - intros i Hi. rewrite map_length, combine_length, map_length, seq_length, Hchl, Nat.min_id in Hi.
    rewrite (nth_map_default (fun p => get2 ps (fst p) (snd p)) _ i (0, 0) 0)
      by (rewrite combine_length, map_length, seq_length, Hchl; lia).
    rewrite combine_nth by (rewrite map_length, seq_length; lia).
    cbn [fst snd]. rewrite (nth_map_default Z.of_nat _ i O 0) by (rewrite seq_length; lia).
    rewrite seq_nth by lia.
    rewrite (nth_map_default (fun i0 => nth i0 (nth (Z.to_nat (nth i0 ch 0)) ps []) 0) _ i O 0) by (rewrite seq_length; lia).
    rewrite seq_nth by lia. cbn [Nat.add].
    unfold get2. rewrite getZ_nat, getR_nonneg by (apply nth_nonneg; exact Hchn). reflexivity.
Qed.
