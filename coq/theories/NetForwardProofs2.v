(* NetForwardProofs2.v — C12, part 2: the scheduled forward pass equals the schedule-independent
   reference evaluation of the graph (C12_forward_is_ref), and consequently does not depend on the
   order of the connection rows (C12_connection_order_irrelevant).
   Addition of node values is assumed commutative and associative (Leibniz equality): true of
   Qc, Z, R — not of IEEE floats, which is the stated gap of the exact model.                    *)
From TF Require Import Base Net NetAlgebra NetOrder NetForward NetProofs NetProofs2 NetOrderProofs
     NetForwardProofs.
From Coq Require Import Permutation.
Local Open Scope nat_scope.

(* ---------------------------------------------------------------- list helpers *)
Lemma combine_map2 {A B C} (f : A -> B) (g : A -> C) (l : list A) :
  combine (map f l) (map g l) = map (fun e => (f e, g e)) l.
Proof. induction l as [|h t IH]; simpl; auto. f_equal; auto. Qed.
Lemma In_combine_map_r {A B C} (h : B -> C) (l1 : list A) (l2 : list B) a b :
  In (a, b) (combine l1 l2) -> In (a, h b) (combine l1 (map h l2)).
Proof.
  revert l2. induction l1 as [|x t IH]; intros [|y u] H; simpl in *; try tauto.
  destruct H as [E|H]; [inversion E; subst; auto|right; auto].
Qed.
Lemma In_combine_self {A B} (h : A -> B) (l : list A) a :
  In a l -> In (a, h a) (combine l (map h l)).
Proof. induction l as [|x t IH]; simpl; [tauto|]. intros [->|H]; auto. Qed.
Lemma In_combine_l {A B} (l1 : list A) (l2 : list B) a :
  length l1 = length l2 -> In a l1 -> exists b, In (a, b) (combine l1 l2).
Proof.
  revert l2. induction l1 as [|x t IH]; intros [|y u] HL H; simpl in *; try tauto; try discriminate.
  destruct H as [->|H]; eauto. destruct (IH u) as [b Hb]; auto. eauto.
Qed.
Lemma ins_src_perm x l : Permutation (ins_src x l) (x :: l).
Proof.
  induction l as [|h t IH]; simpl; auto. destruct (fst x <=? fst h); auto.
  rewrite IH. apply perm_swap.
Qed.
Lemma sort_src_perm l : Permutation (fold_right ins_src [] l) l.
Proof. induction l as [|h t IH]; simpl; auto. rewrite ins_src_perm. auto. Qed.

(* ---------------------------------------------------------------- keys do not depend on row order *)
Definition srcs_of (con : list (nat * nat)) (t : nat) : list nat :=
  map fst (filter (fun c => snd c =? t) con).
Lemma entries_from_srcs s con t : map fst (entries_from s con t) = srcs_of con t.
Proof.
  revert s. unfold srcs_of. induction con as [|c r IH]; intro s; simpl; auto.
  destruct (snd c =? t); simpl; rewrite IH; auto.
Qed.
Lemma ins_src_sorted x l :
  Sorted.StronglySorted le (map fst l) -> Sorted.StronglySorted le (map fst (ins_src x l)).
Proof.
  induction l as [|h t IH]; simpl; intro H.
  - repeat constructor.
  - inversion H; subst. destruct (fst x <=? fst h) eqn:E; simpl.
    + apply Nat.leb_le in E. constructor; auto. constructor; auto.
      eapply Forall_impl; [|exact H3]. intros; simpl in *; lia.
    + apply Nat.leb_gt in E. constructor; auto. apply Forall_forall. intros y Hy.
      apply in_map_iff in Hy. destruct Hy as [e [<- He]]. apply ins_src_In in He.
      destruct He as [->|He]; [lia|]. rewrite Forall_forall in H3. apply H3. apply in_map. auto.
Qed.
Lemma sort_src_sorted l : Sorted.StronglySorted le (map fst (fold_right ins_src [] l)).
Proof. induction l as [|h t IH]; simpl. constructor. apply ins_src_sorted. auto. Qed.
Lemma sorted_le_perm_eq l1 : forall l2,
  Sorted.StronglySorted le l1 -> Sorted.StronglySorted le l2 -> Permutation l1 l2 -> l1 = l2.
Proof.
  induction l1 as [|a l1 IH]; intros l2 H1 H2 P.
  - apply Permutation_nil in P. auto.
  - destruct l2 as [|b l2]; [apply Permutation_sym, Permutation_nil in P; discriminate|].
    inversion H1; subst. inversion H2; subst. rewrite Forall_forall in H4, H6.
    assert (a = b).
    { assert (Ha : In a (b :: l2)) by (eapply Permutation_in; [exact P|simpl; auto]).
      assert (Hb : In b (a :: l1)) by (eapply Permutation_in; [symmetry; exact P|simpl; auto]).
      destruct Ha as [Ha|Ha]; auto. destruct Hb as [Hb|Hb]; auto.
      apply H6 in Ha. apply H4 in Hb. lia. }
    subst b. f_equal. apply IH; auto. eapply Permutation_cons_inv; eauto.
Qed.
Lemma Permutation_filter2 {A} (f : A -> bool) l l' :
  Permutation l l' -> Permutation (filter f l) (filter f l').
Proof.
  induction 1; simpl; auto.
  - destruct (f x); auto.
  - destruct (f x), (f y); auto. apply perm_swap.
  - eapply perm_trans; eauto.
Qed.
Lemma key_of_perm con con' t : Permutation con con' -> key_of con t = key_of con' t.
Proof.
  intro P. unfold key_of, entries. apply sorted_le_perm_eq; try apply sort_src_sorted.
  rewrite !sort_src_perm. rewrite !entries_from_srcs. unfold srcs_of.
  apply Permutation_map. apply Permutation_filter2. exact P.
Qed.
Lemma combine_fst {A B} (l : list A) (l' : list B) : length l' = length l -> map fst (combine l l') = l.
Proof.
  revert l'. induction l as [|h t IH]; intros [|y u] H; simpl in *; try discriminate; auto.
  f_equal. apply IH. lia.
Qed.

Section RefProofs.
  Variables K V : Type.
  Variable kzero : K.
  Variable vzero : V.
  Variable vadd : V -> V -> V.
  Variable vscale : K -> V -> V.
  Variable act : nat -> V -> V.
  Variable smx : list V -> list V.
  Hypothesis smx_length : forall l, length (smx l) = length l.
  Hypothesis vadd_comm : forall a b, vadd a b = vadd b a.
  Hypothesis vadd_assoc : forall a b c, vadd a (vadd b c) = vadd (vadd a b) c.

  Notation rd := (NetForward.rd V vzero).
  Notation dot := (NetForward.dot K V vzero vadd vscale).
  Notation write_all := (NetForward.write_all V).
  Notation apply_act := (NetForward.apply_act V vzero act smx).
  Notation forward_group := (NetForward.forward_group K V kzero vzero vadd vscale act smx).
  Notation forward := (NetForward.forward K V kzero vzero vadd vscale act smx).
  Notation init_buf := (NetForward.init_buf V vzero).
  Notation forward2d := (NetForward.forward2d K V kzero vzero vadd vscale act smx).
  Notation pre_of := (NetForward.pre_of K V kzero vzero vadd vscale).
  Notation ref_val := (NetForward.ref_val K V kzero vzero vadd vscale act smx).
  Notation ref_eval := (NetForward.ref_eval K V kzero vzero vadd vscale act smx).

  (* ---------------------------------------------------------------- sums *)
  Lemma fold_left_perm {A} (f : V -> A -> V) :
    (forall a x y, f (f a x) y = f (f a y) x) ->
    forall l l', Permutation l l' -> forall a, fold_left f l a = fold_left f l' a.
  Proof.
    intros Hf l l' P. induction P; intro a; simpl; auto.
    - rewrite Hf. auto.
    - rewrite IHP1. auto.
  Qed.
  Lemma dot_perm ws vs ws' vs' :
    Permutation (combine ws vs) (combine ws' vs') -> dot ws vs = dot ws' vs'.
  Proof.
    intro P. unfold NetForward.dot. apply fold_left_perm; auto.
    intros a p q. rewrite <- !vadd_assoc. f_equal. apply vadd_comm.
  Qed.

  (* the weighted sum over the sorted rows of a schedule group = the sum in row order *)
  Lemma dot_entries w (val : nat -> V) con t :
    dot (map (fun i => nth i w kzero) (map snd (entries con t))) (map val (map fst (entries con t)))
    = pre_of con w val t.
  Proof.
    unfold NetForward.pre_of. rewrite !map_map. apply dot_perm.
    rewrite !combine_map2. apply Permutation_map. unfold entries. apply sort_src_perm.
  Qed.

  Lemma pre_of_ext w con (val val' : nat -> V) t :
    (forall a, In (a, t) con -> val a = val' a) -> pre_of con w val t = pre_of con w val' t.
  Proof.
    intro H. unfold NetForward.pre_of. f_equal. apply map_ext_in. intros e He. apply H.
    apply (entries_from_src 0 con t (fst e)). apply in_map. auto.
  Qed.

  (* ---------------------------------------------------------------- buffer reads after writes *)
  Lemma write_all_In (b : list V) ids vals i x :
    NoDup ids -> (forall j, In j ids -> j < length b) -> In (i, x) (combine ids vals) ->
    rd (write_all b ids vals) i = x.
  Proof.
    revert b vals. induction ids as [|i0 ids IH]; intros b [|x0 vals] ND HR Hin; simpl in *; try tauto.
    inversion ND; subst. destruct Hin as [E|Hin].
    - inversion E; subst. rewrite (write_all_frame K V kzero vzero vadd vscale act) by auto.
      unfold NetForward.rd. apply nth_upd_eq. apply HR. auto.
    - apply IH; auto. intros j Hj. rewrite upd_length. apply HR. auto.
  Qed.

  (* ---------------------------------------------------------------- lookups *)
  Lemma alookup_In k c acts : NoDup (map fst acts) -> (alookup k acts = Some c <-> In (k, c) acts).
  Proof.
    induction acts as [|[k' c'] r IH]; simpl; intro ND.
    - split; [discriminate|tauto].
    - inversion ND; subst. destruct (k =? k') eqn:E.
      + apply Nat.eqb_eq in E. subst k'. split.
        * intro H. inversion H; auto.
        * intros [H|H]; [inversion H; auto|]. exfalso. apply H1. apply in_map_iff. exists (k, c). auto.
      + apply Nat.eqb_neq in E. rewrite IH by auto. split; auto.
        intros [H|H]; auto. inversion H; congruence.
  Qed.
  Lemma ins_nat_In x l y : In y (ins_nat x l) <-> y = x \/ In y l.
  Proof.
    induction l as [|h t IH]; simpl; [intuition|].
    destruct (x <=? h); simpl; rewrite ?IH; intuition.
  Qed.
  Lemma sort_nat_In l y : In y (sort_nat l) <-> In y l.
  Proof.
    induction l as [|h t IH]; simpl; [tauto|]. unfold sort_nat in *. simpl.
    rewrite ins_nat_In, IH. intuition.
  Qed.
  Lemma sm_nodes_In n u :
    NoDup (map fst (n_act n)) -> (In u (sm_nodes n) <-> alookup u (n_act n) = Some 5).
  Proof.
    intro ND. unfold sm_nodes. rewrite sort_nat_In, (alookup_In u 5 (n_act n) ND), in_map_iff. split.
    - intros [[k c] [E H]]. simpl in E. subst k. apply filter_In in H. destruct H as [H Hc].
      simpl in Hc. apply Nat.eqb_eq in Hc. subst. auto.
    - intro H. exists (u, 5). split; auto. apply filter_In. split; auto.
  Qed.

  (* all softmax nodes have the same sorted source tuple (hence sit in one schedule group) *)
  Definition sm_same (n : net) : Prop :=
    forall u v, alookup u (n_act n) = Some 5 -> alookup v (n_act n) = Some 5 ->
                key_of (n_con n) u = key_of (n_con n) v.

  (* ---------------------------------------------------------------- enough fuel is enough *)
  Lemma ref_val_stable n w x rank :
    Layered n -> sm_same n -> rank_ok n rank ->
    forall f1 f2 v, rank v < f1 -> rank v < f2 -> ref_val n w x f1 v = ref_val n w x f2 v.
  Proof.
    intros L SM [_ [_ [_ R4]]].
    induction f1 as [|f1 IH]; intros f2 v H1 H2; [lia|].
    destruct f2 as [|f2]; [lia|]. simpl.
    destruct (mem v (n_in n)); auto.
    assert (Hpre : forall u, (forall a, In (a, u) (n_con n) -> In (a, v) (n_con n)) ->
              pre_of (n_con n) w (ref_val n w x f1) u = pre_of (n_con n) w (ref_val n w x f2) u).
    { intros u Hu. apply pre_of_ext. intros a Ha. apply Hu in Ha.
      destruct (R4 a v Ha) as [Hr _]. apply IH; lia. }
    destruct (alookup v (n_act n)) as [c|] eqn:Ec; auto.
    destruct (c =? 5) eqn:E5.
    - apply Nat.eqb_eq in E5. subst c. f_equal. f_equal. apply map_ext_in. intros u Hu. apply Hpre.
      apply (sm_nodes_In n u (l_keys n L)) in Hu.
      intros a Ha. apply key_of_In. rewrite <- (SM u v Hu Ec). apply key_of_In. auto.
    - f_equal. apply Hpre. auto.
  Qed.

  Lemma In_combine_index (l : list nat) (l' : list V) t :
    In t l -> length l' = length l -> In (t, nth (index_of t l) l' vzero) (combine l l').
  Proof.
    revert l'. induction l as [|h r IH]; intros [|y l'] Hin HL; simpl in *; try tauto; try discriminate.
    destruct (t =? h) eqn:E.
    - apply Nat.eqb_eq in E. subst. auto.
    - right. apply IH; auto. destruct Hin as [->|H]; auto. rewrite Nat.eqb_refl in E. discriminate.
  Qed.

  (* ---------------------------------------------------------------- one net, one weight vector *)
  Section OneNet.
    Variable n : net.
    Variable w : list K.
    Variable x : list V.
    Hypothesis L : Layered n.
    Hypothesis SM : sm_same n.

    Let F0 := S (length (n_hid n)).
    Definition Rv (v : nat) : V := ref_val n w x (S F0) v.
    Definition PREv (t : nat) : V := pre_of (n_con n) w (ref_val n w x F0) t.

    Lemma Rv_input v : In v (n_in n) -> Rv v = nth v x vzero.
    Proof. intro H. unfold Rv. simpl. apply mem_In in H. rewrite H. reflexivity. Qed.
    Lemma Rv_node v c : ~ In v (n_in n) -> alookup v (n_act n) = Some c ->
      Rv v = if c =? 5 then nth (index_of v (sm_nodes n)) (smx (map PREv (sm_nodes n))) vzero
             else act c (PREv v).
    Proof.
      intros H Hc. unfold Rv. simpl. apply mem_false in H. rewrite H, Hc. reflexivity.
    Qed.

    Lemma rank_bound rank t : rank_ok n rank -> In t (hidden n ++ n_out n) -> rank t <= F0.
    Proof.
      intros [_ [R2 [R3 _]]] H. apply in_app_iff in H. destruct H as [H|H].
      - apply In_concat_nth in H. destruct H as [i [Li [Hi Hv]]]. rewrite (R2 i Li t Hi Hv).
        assert (i < length (n_hid n)) by (apply nth_error_Some; congruence). unfold F0. lia.
      - rewrite (R3 t H). unfold F0. lia.
    Qed.
    Lemma PREv_Rv t : In t (hidden n ++ n_out n) -> PREv t = pre_of (n_con n) w Rv t.
    Proof.
      intro H. destruct (l_rank n L) as [rank R]. unfold PREv, Rv. apply pre_of_ext. intros a Ha.
      pose proof (rank_bound rank t R H) as Hb. destruct R as [R1 [R2 [R3 R4]]].
      destruct (R4 a t Ha) as [Hr _].
      apply (ref_val_stable n w x rank L SM (conj R1 (conj R2 (conj R3 R4)))); lia.
    Qed.

    (* the activation phase of one schedule group *)
    Lemma act_fold_aux ts (N : nat) :
      NoDup ts ->
      (forall t, In t ts -> t < N /\ ~ In t (n_in n)) ->
      ((exists t, In t ts /\ alookup t (n_act n) = Some 5) ->
       filter (has_code (n_act n) 5) ts = sm_nodes n) ->
      forall rest (b : list V),
        (forall c ns, In (c, ns) rest -> ns = filter (has_code (n_act n) c) ts) ->
        NoDup (map fst rest) -> length b = N ->
        (forall t c, In t ts -> alookup t (n_act n) = Some c ->
                     (In c (map fst rest) -> rd b t = PREv t) /\
                     (~ In c (map fst rest) -> rd b t = Rv t)) ->
        forall t c, In t ts -> alookup t (n_act n) = Some c ->
                    rd (fold_left apply_act rest b) t = Rv t.
    Proof.
      intros NDts Hts Hsm. induction rest as [|[c0 ns] rest IH]; intros b Hspec NDr HN Hinv t c Ht Hc.
      - simpl. apply (Hinv t c Ht Hc). intros [].
      - simpl. apply (IH (apply_act b (c0, ns))) with (c := c); auto.
        + intros c' ns' Hin. apply (Hspec c' ns'). simpl; auto.
        + simpl in NDr. inversion NDr; auto.
        + rewrite apply_act_length. auto.
        + (* the invariant after processing (c0, ns) *)
          clear t c Ht Hc. intros t c Ht Hc.
          assert (Ens : ns = filter (has_code (n_act n) c0) ts) by (apply (Hspec c0 ns); simpl; auto).
          assert (NDns : NoDup ns) by (rewrite Ens; apply NoDup_filter; auto).
          assert (Hns : forall u, In u ns <-> In u ts /\ alookup u (n_act n) = Some c0).
          { intro u. rewrite Ens, filter_In. unfold has_code. split.
            - intros [H1 H2]. split; auto. destruct (alookup u (n_act n)); [|discriminate].
              apply Nat.eqb_eq in H2. subst. auto.
            - intros [H1 H2]. rewrite H2, Nat.eqb_refl. auto. }
          assert (Evals : map (NetForward.rd V vzero b) ns = map PREv ns).
          { apply map_ext_in. intros u Hu. apply Hns in Hu. destruct Hu as [Hu1 Hu2].
            apply (Hinv u c0 Hu1 Hu2). simpl. auto. }
          assert (Hnotin : ~ In c0 (map fst rest)) by (simpl in NDr; inversion NDr; auto).
          unfold NetForward.apply_act. simpl. rewrite Evals.
          destruct (Nat.eq_dec c c0) as [->|Hne].
          * (* t is one of the nodes written now *)
            assert (Htn : In t ns) by (apply Hns; auto).
            split; [intro Hc'; contradiction|]. intros _.
            rewrite (Rv_node t c0 (proj2 (Hts t Ht)) Hc).
            destruct (c0 =? 5) eqn:E5.
            -- apply Nat.eqb_eq in E5. subst c0.
               assert (Esm : ns = sm_nodes n).
               { rewrite Ens. apply Hsm. exists t. auto. }
               rewrite <- Esm.
               apply write_all_In; auto.
               ++ intros j Hj. rewrite HN. apply Hts. apply Hns in Hj. tauto.
               ++ apply In_combine_index; auto. rewrite smx_length, map_length. auto.
            -- apply write_all_In; auto.
               ++ intros j Hj. rewrite HN. apply Hts. apply Hns in Hj. tauto.
               ++ apply (In_combine_self (fun u => act c0 (PREv u))) in Htn.
                  rewrite <- map_map in Htn. exact Htn.
          * (* t is not touched *)
            assert (Htn : ~ In t ns) by (intro H; apply Hns in H; destruct H; congruence).
            rewrite (write_all_frame K V kzero vzero vadd vscale act) by auto.
            destruct (Hinv t c Ht Hc) as [I1 I2]. simpl in I1, I2. split.
            -- intro H. apply I1. auto.
            -- intro H. apply I2. intros [E|E]; auto.
    Qed.

    (* softmax nodes of a schedule group = all softmax nodes of the net (proved below from sm_same) *)
    Definition sm_cond (g : group) : Prop :=
      (exists t, In t (g_to g) /\ alookup t (n_act n) = Some 5) ->
      filter (has_code (n_act n) 5) (g_to g) = sm_nodes n.

    Lemma node_has_code t : In t (hidden n ++ n_out n) -> exists c, alookup t (n_act n) = Some c.
    Proof. intro H. apply alookup_some. apply (l_act n L). apply in_app_iff. auto. Qed.

    Lemma group_step g calc (b : list V) :
      group_of (n_act n) (build_pairs (n_con n)) g -> sm_cond g ->
      incl (g_from g) calc -> (forall v, In v calc -> rd b v = Rv v) ->
      NoDup (g_to g) -> (forall t, In t (g_to g) -> ~ In t calc) ->
      (forall t, In t (g_to g) -> t < length b) ->
      (forall t, In t (g_to g) -> In t (hidden n ++ n_out n)) ->
      length (forward_group w b g) = length b /\
      (forall v, In v calc -> rd (forward_group w b g) v = Rv v) /\
      (forall t, In t (g_to g) -> rd (forward_group w b g) t = Rv t).
    Proof.
      intros [p [Hp [Ef [Et [Ew Hag]]]]] Hsm Hfrom Hcalc ND Hdis Hrange Hnode.
      destruct (build_pairs_spec (n_con n)) as [_ [_ HK]].
      destruct (build_pairs_rows (n_con n) p Hp) as [HL HR].
      destruct (act_groups_spec _ _ _ Hag) as [A1 [A2 A3]].
      split; [apply forward_group_length|].
      unfold NetForward.forward_group.
      set (Fw := fun wids : list nat =>
                   dot (map (fun i => nth i w kzero) wids) (map (NetForward.rd V vzero b) (g_from g))).
      set (b1 := write_all b (g_to g) (map Fw (g_wid g))).
      assert (Hb1len : length b1 = length b) by (unfold b1; apply write_all_length).
      assert (HA : forall t, In t (g_to g) -> rd b1 t = PREv t).
      { intros t Ht.
        assert (Ht' : In t (p_ts p)) by (rewrite <- Et; auto).
        destruct (In_combine_l (p_ts p) (p_ws p) t HL Ht') as [wr Hwr].
        pose proof (HR t wr Hwr) as Ewr.
        unfold b1. rewrite (write_all_In b (g_to g) (map Fw (g_wid g)) t (Fw wr)); auto.
        - unfold Fw. rewrite Ewr, Ef, (HK p t Hp Ht'). unfold key_of.
          replace (map (NetForward.rd V vzero b) (map fst (entries (n_con n) t)))
            with (map Rv (map fst (entries (n_con n) t))).
          + rewrite dot_entries. symmetry. apply PREv_Rv. auto.
          + apply map_ext_in. intros a Ha. symmetry. apply Hcalc. apply Hfrom.
            rewrite Ef, (HK p t Hp Ht'). exact Ha.
        - rewrite Et, Ew. apply In_combine_map_r. exact Hwr. }
      assert (HB : forall v, In v calc -> rd b1 v = Rv v).
      { intros v Hv. unfold b1. rewrite (write_all_frame K V kzero vzero vadd vscale act).
        - auto.
        - intro Hc. apply (Hdis v Hc Hv). }
      assert (Hsub : forall c ns, In (c, ns) (g_act g) -> incl ns (g_to g)).
      { intros c ns Hin u Hu. destruct (A2 c ns Hin) as [E _]. rewrite E in Hu.
        apply filter_In in Hu. tauto. }
      split.
      - intros v Hv. rewrite (fold_apply_act_frame K V kzero vzero vadd vscale act smx); auto.
        intros [c ns] Hin Hc. simpl in Hc. apply (Hdis v); auto. apply (Hsub c ns Hin v Hc).
      - intros t Ht. destruct (node_has_code t (Hnode t Ht)) as [c Hc].
        apply (act_fold_aux (g_to g) (length b)) with (c := c); auto.
        + intros u Hu. split; auto. intro Hin. apply (valid_disjoint n L u Hin). auto.
        + intros c' ns Hin. apply (A2 c' ns Hin).
        + intros u cu Hu Hcu. split.
          * intros _. apply HA; auto.
          * intro Hn. exfalso. apply Hn. apply in_map_iff.
            exists (cu, filter (has_code (n_act n) cu) (g_to g)). split; auto.
            apply (A3 u cu); auto.
    Qed.

    Lemma forward_inv : forall s calc (b : list V),
      Forall (group_of (n_act n) (build_pairs (n_con n))) s -> Forall sm_cond s ->
      well_sched calc s -> NoDup (targets s) ->
      (forall t, In t (targets s) -> ~ In t calc /\ t < length b /\ In t (hidden n ++ n_out n)) ->
      (forall v, In v calc -> rd b v = Rv v) ->
      forall v, In v calc \/ In v (targets s) -> rd (forward w b s) v = Rv v.
    Proof.
      induction s as [|g r IH]; intros calc b HG HS HW ND HT Hcalc v Hv.
      - destruct Hv as [Hv|[]]. auto.
      - inversion HG; subst. inversion HS; subst. destruct HW as [W1 W2].
        unfold targets in ND, HT, Hv. simpl in ND, HT, Hv.
        apply NoDup_app_elim in ND. destruct ND as [N1 [N2 N3]].
        destruct (group_step g calc b H1 H3 W1 Hcalc N1) as [GL [GC GT]].
        { intros t Ht. apply HT. apply in_app_iff; auto. }
        { intros t Ht. apply HT. apply in_app_iff; auto. }
        { intros t Ht. apply HT. apply in_app_iff; auto. }
        rewrite forward_cons.
        apply (IH (calc ++ g_to g)); auto.
        + intros t Ht. rewrite GL. split; [|apply HT; apply in_app_iff; auto].
          intro Hc. apply in_app_iff in Hc. destruct Hc as [Hc|Hc].
          * apply (proj1 (HT t (proj2 (in_app_iff _ _ _) (or_intror Ht)))). auto.
          * apply (N3 t Hc Ht).
        + intros u Hu. apply in_app_iff in Hu. destruct Hu; auto.
        + rewrite in_app_iff in Hv. rewrite in_app_iff. tauto.
    Qed.

    Lemma NoDup_map_filter (f : nat * nat -> bool) (a : list (nat * nat)) :
      NoDup (map fst a) -> NoDup (map fst (filter f a)).
    Proof.
      induction a as [|h t IH]; simpl; intro H; auto. inversion H; subst.
      destruct (f h); simpl; auto. constructor; auto.
      intro Hc. apply H2. apply in_map_iff in Hc. destruct Hc as [q [E Hq]].
      apply filter_In in Hq. rewrite <- E. apply in_map. tauto.
    Qed.

    (* from sm_same: the softmax nodes of a group are all softmax nodes of the net *)
    Lemma sm_cond_holds g : group_of (n_act n) (build_pairs (n_con n)) g -> sm_cond g.
    Proof.
      intros [p [Hp [Ef [Et [Ew Hag]]]]] [t0 [Ht0 Hc0]].
      destruct (build_pairs_spec (n_con n)) as [_ [HT HK]].
      apply sorted_lt_ext.
      - apply sorted_filter. rewrite Et. apply (build_pairs_sorted (n_con n) p Hp).
      - unfold sm_nodes. apply sort_nat_sorted. apply NoDup_map_filter. apply (l_keys n L).
      - intro u. rewrite (sm_nodes_In n u (l_keys n L)), filter_In. unfold has_code. split.
        + intros [_ H]. destruct (alookup u (n_act n)); [|discriminate].
          apply Nat.eqb_eq in H. subst. reflexivity.
        + intro Hu. split; [|rewrite Hu; reflexivity].
          assert (Hk : In u (map fst (n_act n))).
          { apply (alookup_In u 5 (n_act n) (l_keys n L)) in Hu. apply in_map_iff. exists (u, 5). auto. }
          apply (l_act n L) in Hk.
          assert (Hho : In u (hidden n ++ n_out n)) by (apply in_app_iff; auto).
          apply (valid_targets n L), HT, all_ts_In in Hho. destruct Hho as [p' [Hp' Hu']].
          assert (Ht0' : In t0 (p_ts p)) by (rewrite <- Et; auto).
          assert (E : fst p' = fst p).
          { rewrite (HK p' u Hp' Hu'), (HK p t0 Hp Ht0'). apply SM; auto. }
          rewrite (fst_inj _ p' p (build_pairs_fst_NoDup (n_con n)) Hp' Hp E) in Hu'.
          rewrite Et. exact Hu'.
    Qed.

    (* C12_forward_is_ref, one weight row *)
    Theorem forward_is_ref_row garbage s :
      get_order (order_fuel n) n = Some s ->
      (forall v, In v (n_in n ++ hidden n ++ n_out n) -> v < length garbage) ->
      forall v, In v (n_in n) \/ In v (hidden n ++ n_out n) ->
        rd (forward w (init_buf garbage (n_in n) x) s) v = Rv v.
    Proof.
      intros Hs Hrange v Hv.
      destruct (order_terminates n L) as [s' [E [W [P G]]]]. rewrite E in Hs. inversion Hs; subst s'.
      pose proof (l_sets n L) as HS. apply NoDup_app_elim in HS. destruct HS as [S1 [S2 S3]].
      assert (Hlen : length (init_buf garbage (n_in n) x) = length garbage).
      { unfold NetForward.init_buf. apply write_all_length. }
      apply (forward_inv s (n_in n)); auto.
      - eapply Forall_impl; [|exact G]. apply sm_cond_holds.
      - eapply Permutation_NoDup; [symmetry; exact P|auto].
      - intros t Ht. assert (Ht' : In t (hidden n ++ n_out n)) by (eapply Permutation_in; eauto).
        split; [|split; auto].
        + intro Hc. apply (S3 t Hc Ht').
        + rewrite Hlen. apply Hrange. apply in_app_iff. auto.
      - intros u Hu. rewrite Rv_input by auto. unfold NetForward.init_buf.
        apply write_all_In; auto.
        + intros j Hj. apply Hrange. apply in_app_iff. auto.
        + apply (In_combine_self (fun i => nth i x vzero)). auto.
      - destruct Hv as [Hv|Hv]; auto. right. eapply Permutation_in; [symmetry; exact P|auto].
    Qed.
  End OneNet.

  (* C12_forward_is_ref: Net.forward(X, W) = the reference evaluation with each row as weights *)
  Theorem forward_is_ref n garbage x ws :
    Layered n -> sm_same n ->
    (forall v, In v (n_in n ++ hidden n ++ n_out n) -> v < length garbage) ->
    NetForward.net_forward K V kzero vzero vadd vscale act smx (order_fuel n) n garbage x ws
    = Some (map (fun w => ref_eval n w x) ws).
  Proof.
    intros L SM Hrange. unfold NetForward.net_forward.
    destruct (order_terminates n L) as [s [E [W [P G]]]]. rewrite E. f_equal.
    pose proof (l_sets n L) as HS. apply NoDup_app_elim in HS. destruct HS as [S1 [S2 S3]].
    unfold NetForward.forward2d.
    rewrite (forward_rows_all K V kzero vzero vadd vscale act smx s (n_in n) (n_out n))
      with (b0 := init_buf garbage (n_in n) x); auto.
    - apply map_ext. intro w. unfold NetForward.ref_eval. apply map_ext_in. intros v Hv.
      apply (forward_is_ref_row n w x L SM garbage s E Hrange). right. apply in_app_iff. auto.
    - (* the schedule is structurally well formed *)
      clear - W G. revert W G. generalize (n_in n) as calc.
      induction s as [|g r IH]; intros calc W G; simpl; auto.
      destruct W as [W1 W2]. inversion G as [|? ? [p [Hp [Ef [Et [Ew Hag]]]]] G']; subst.
      destruct (build_pairs_rows (n_con n) p Hp) as [HL _].
      destruct (act_groups_spec _ _ _ Hag) as [_ [A2 _]].
      split; [exact W1|]. split; [rewrite Et, Ew; symmetry; exact HL|]. split.
      + intros [c ns] Hin u Hu. simpl in Hu. destruct (A2 c ns Hin) as [Ens _]. rewrite Ens in Hu.
        apply filter_In in Hu. tauto.
      + eapply sched_ok_ext; [|apply (IH (calc ++ g_to g)); auto].
        intros v Hv. apply in_app_iff in Hv. exact Hv.
    - intros v Hv Ht. apply (S3 v Hv). eapply Permutation_in; eauto.
    - intros v Hv. right. eapply Permutation_in; [symmetry; exact P|]. apply in_app_iff. auto.
    - intros v Hv. reflexivity.
  Qed.

  (* ---------------------------------------------------------------- C12_connection_order_irrelevant *)
  Lemma Permutation_filter' {A} (f : A -> bool) l l' :
    Permutation l l' -> Permutation (filter f l) (filter f l').
  Proof.
    induction 1; simpl; auto.
    - destruct (f x); auto.
    - destruct (f x), (f y); auto. apply perm_swap.
    - eapply perm_trans; eauto.
  Qed.

  (* the (weight, source value) pairs of the rows into u, read off the zipped (row, weight) list *)
  Definition row_terms (val : nat -> V) (u : nat) (cw : list ((nat * nat) * K)) : list (K * V) :=
    map (fun p => (snd p, val (fst (fst p)))) (filter (fun p => snd (fst p) =? u) cw).

  Lemma entries_from_terms (val : nat -> V) u con : forall pre wt,
    length wt = length con ->
    map (fun e => (nth (snd e) (pre ++ wt) kzero, val (fst e))) (entries_from (length pre) con u)
    = row_terms val u (combine con wt).
  Proof.
    induction con as [|[a b] r IH]; intros pre [|k wt] HL; simpl in *; try discriminate; auto.
    assert (IH' := IH (pre ++ [k]) wt ltac:(lia)).
    rewrite app_length in IH'. simpl in IH'. rewrite Nat.add_1_r, <- app_assoc in IH'. simpl in IH'.
    unfold row_terms. simpl. destruct (b =? u) eqn:E; simpl.
    - f_equal.
      + f_equal. rewrite app_nth2 by lia. rewrite Nat.sub_diag. reflexivity.
      + exact IH'.
    - exact IH'.
  Qed.

  Lemma pre_of_terms w (val : nat -> V) con u :
    length w = length con ->
    pre_of con w val u
    = fold_left (fun acc p => vadd acc (vscale (fst p) (snd p))) (row_terms val u (combine con w)) vzero.
  Proof.
    intro HL. unfold NetForward.pre_of, NetForward.dot. rewrite combine_map2.
    rewrite <- (entries_from_terms val u con [] w HL). reflexivity.
  Qed.

  Lemma pre_of_perm w w' (val : nat -> V) con con' u :
    length w = length con -> length w' = length con' ->
    Permutation (combine con w) (combine con' w') ->
    pre_of con w val u = pre_of con' w' val u.
  Proof.
    intros H1 H2 P. rewrite !pre_of_terms by auto. apply fold_left_perm.
    - intros a p q. rewrite <- !vadd_assoc. f_equal. apply vadd_comm.
    - unfold row_terms. apply Permutation_map. apply Permutation_filter'. exact P.
  Qed.

  Lemma ref_val_perm n n' w w' x :
    n_in n' = n_in n -> n_act n' = n_act n ->
    length w = length (n_con n) -> length w' = length (n_con n') ->
    Permutation (combine (n_con n) w) (combine (n_con n') w') ->
    forall f v, ref_val n' w' x f v = ref_val n w x f v.
  Proof.
    intros Ei Ea H1 H2 P. induction f as [|f IH]; intro v; simpl; auto.
    rewrite Ei, Ea. destruct (mem v (n_in n)); auto.
    assert (Hpre : forall u, pre_of (n_con n') w' (ref_val n' w' x f) u
                             = pre_of (n_con n) w (ref_val n w x f) u).
    { intro u. rewrite (pre_of_ext w' (n_con n') (ref_val n' w' x f) (ref_val n w x f)) by (intros; apply IH).
      symmetry. apply pre_of_perm; auto. }
    unfold sm_nodes. rewrite Ea. fold (sm_nodes n).
    destruct (alookup v (n_act n)) as [c|]; auto.
    destruct (c =? 5).
    - f_equal. f_equal. apply map_ext. exact Hpre.
    - f_equal. apply Hpre.
  Qed.

  (* permuting the connection rows together with the weights (the multiset of (row, weight)
     pairs is unchanged) does not change Net.forward *)
  Theorem order_irrelevant n n' w w' garbage x :
    Layered n -> sm_same n ->
    n_in n' = n_in n -> n_hid n' = n_hid n -> n_out n' = n_out n -> n_act n' = n_act n ->
    length w = length (n_con n) -> length w' = length (n_con n') ->
    Permutation (combine (n_con n) w) (combine (n_con n') w') ->
    (forall v, In v (n_in n ++ hidden n ++ n_out n) -> v < length garbage) ->
    NetForward.net_forward K V kzero vzero vadd vscale act smx (order_fuel n') n' garbage x [w']
    = NetForward.net_forward K V kzero vzero vadd vscale act smx (order_fuel n) n garbage x [w].
  Proof.
    intros L SM Ei Eh Eo Ea H1 H2 P Hrange.
    assert (Pc : Permutation (n_con n) (n_con n')).
    { rewrite <- (combine_fst (n_con n) w H1), <- (combine_fst (n_con n') w' H2).
      apply Permutation_map. exact P. }
    assert (Hin : forall c, In c (n_con n') <-> In c (n_con n)).
    { intro c. split; intro H; [eapply Permutation_in; [symmetry; exact Pc|exact H]
                                |eapply Permutation_in; [exact Pc|exact H]]. }
    assert (Hhid : hidden n' = hidden n) by (unfold hidden; rewrite Eh; auto).
    assert (L' : Layered n').
    { destruct L as [l1 l2 l3 l4 l5]. constructor; rewrite ?Ei, ?Hhid, ?Eo, ?Ea; auto.
      - destruct l2 as [rank [R1 [R2 [R3 R4]]]]. exists rank. unfold rank_ok.
        rewrite Ei, Eh, Eo, Hhid. repeat split; auto; intros; apply Hin in H; apply R4 in H; tauto.
      - intros v Hv. destruct (l3 v Hv) as [a Ha]. exists a. apply Hin. auto. }
    assert (SM' : sm_same n').
    { intros u v Hu Hv. rewrite Ea in Hu, Hv.
      rewrite <- !(key_of_perm (n_con n) (n_con n')) by auto. apply SM; auto. }
    rewrite (forward_is_ref n garbage x [w] L SM Hrange).
    rewrite (forward_is_ref n' garbage x [w'] L' SM').
    - simpl. f_equal. f_equal. unfold NetForward.ref_eval. rewrite Eh, Eo.
      apply map_ext. intro v. apply ref_val_perm; auto.
    - rewrite Ei, Hhid, Eo. exact Hrange.
  Qed.
End RefProofs.
