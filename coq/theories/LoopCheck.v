(* LoopCheck.v — replays a recorded run (batches handed to the objective, in order) through the loop
   model and compares everything the implementation reported. *)
From TF Require Import Base EALoop.
Open Scope Q_scope.

Fixpoint ztab (t : list (Z * Z)) (x : Z) : Z :=
  match t with [] => 0%Z | (a, b) :: r => if (a =? x)%Z then b else ztab r x end.
Fixpoint qtab (t : list (Z * Q)) (x : Z) : Q :=
  match t with [] => 0 | (a, b) :: r => if (a =? x)%Z then b else qtab r x end.

Definition trip := (Z * Z * Q)%type.
Record lcase := {
  lc_kind : kind; lc_elit : bool; lc_aim : option Q; lc_nin : option nat; lc_iters : nat;
  lc_g2p : list (Z * Z); lc_nf : list (Z * Q); lc_batches : list (list Z);
  lc_gens : nat; lc_calls : nat; lc_callbacks : nat;
  lc_best : trip; lc_counter : nat; lc_pop : list trip; lc_hist : list (list trip * trip) }.

Definition trip_eqb (a b : trip) : bool :=
  let '(g1, p1, f1) := a in let '(g2, p2, f2) := b in (g1 =? g2)%Z && (p1 =? p2)%Z && Qeq_bool f1 f2.
Definition trip_of (i : indiv Z Z) : trip := (ig i, iph i, ifit i).
Fixpoint trips_eqb (a b : list trip) : bool :=
  match a, b with
  | [], [] => true
  | x :: a', y :: b' => trip_eqb x y && trips_eqb a' b'
  | _, _ => false
  end.
Definition snap_eqb (s : snapshot Z Z) (e : list trip * trip) : bool :=
  trips_eqb (map trip_of (s_pop s)) (fst e) &&
  match s_max s with Some m => trip_eqb (trip_of m) (snd e) | None => false end.
Fixpoint hist_eqb (a : list (snapshot Z Z)) (b : list (list trip * trip)) : bool :=
  match a, b with
  | [], [] => true
  | x :: a', y :: b' => snap_eqb x y && hist_eqb a' b'
  | _, _ => false
  end.

Definition run_case (c : lcase) : state Z Z :=
  let var := fun st : state Z Z => nth (gens st) (lc_batches c) [] in
  fit Z Z (ztab (lc_g2p c)) (qtab (lc_nf c)) (lc_kind c) (lc_elit c) true (lc_aim c) (lc_nin c) var
      (lc_iters c) (hd [] (lc_batches c)).

(* bit i of the result tells which comparison failed (0 = all agree) *)
Definition diff_loop (c : lcase) : list nat :=
  let st := run_case c in
  (if (gens st =? lc_gens c)%nat then [] else [1%nat]) ++
  (if (calls st =? lc_calls c)%nat then [] else [2%nat]) ++
  (if (callbacks st =? lc_callbacks c)%nat then [] else [3%nat]) ++
  (if match best st with Some b => trip_eqb (trip_of b) (lc_best c) | None => false end then [] else [4%nat]) ++
  (if (counter st =? lc_counter c)%nat then [] else [5%nat]) ++
  (if trips_eqb (map trip_of (pop st)) (lc_pop c) then [] else [6%nat]) ++
  (if hist_eqb (hist st) (lc_hist c) then [] else [7%nat]).
Definition chk_loop (c : lcase) : bool := match diff_loop c with [] => true | _ => false end.
