(* PoolsClosed.v — closure of one GA generation step over the operator POOLS (C06).
   For every triple of pool names (whatever tables they are looked up in, provided the crossover table
   passes the computable well-formedness check cx_table_ok), every population of binary rows of one
   length, every weight / rank vector of the population's length and every outcome of the draws, the
   individual produced by  selection -> crossover -> flip mutation  (GeneticAlgorithm / SelfCGA, and
   PDPGA with its extra draw) is a binary row of the same length.
   The tables this is instantiated with are the GENERATED ones (coq/gen/GenPools.v, re-extracted from
   the source on every run): see props/C06.v. *)
From TF Require Import Base RandomPrims RandomPrimsProofs BinaryOps BinaryOpsProofs Pools C06Check.
From Coq Require Import String.
Open Scope string_scope.
Open Scope Q_scope.

(* ---------------- validity of the remaining draws *)
Lemma valid_tail d ds : valid_draws (d :: ds) -> valid_draws ds.
Proof. intros H; inversion H; auto. Qed.

Lemma rws_loop_valid w q replace : forall ds acc r ds',
  valid_draws ds -> rws_loop w q replace acc ds = Some (r, ds') -> valid_draws ds'.
Proof.
  induction ds as [|d ds IH]; intros acc r ds' Hv H; cbn [rws_loop] in H.
  - destruct (q <=? List.length acc)%nat; [|discriminate]. inversion H; subst. constructor.
  - destruct (q <=? List.length acc)%nat.
    + inversion H; subst. exact Hv.
    + destruct d as [u|m v|x]; try discriminate.
      destruct (negb replace && memZ (Z.of_nat (weighted_pick w u)) acc);
        eapply IH; eauto using valid_tail.
Qed.

Lemma tournament_selection_valid fitness tour : forall quantity ds ws ds',
  valid_draws ds -> (0 < tour)%nat -> tournament_selection fitness tour quantity ds = Some (ws, ds') ->
  valid_draws ds'.
Proof.
  induction quantity as [|k IH]; intros ds ws ds' Hv Ht H; cbn [tournament_selection] in H.
  - inversion H; subst. exact Hv.
  - unfold bind, ret in H.
    destruct (tournament_one fitness tour ds) as [[w ds1]|] eqn:E1; [|discriminate].
    destruct (tournament_selection fitness tour k ds1) as [[ws1 ds2]|] eqn:E2; [|discriminate].
    inversion H; subst; clear H.
    destruct (tournament_one_spec _ _ _ _ _ Hv Ht E1) as (t & _ & _ & _ & _ & _ & Hv1).
    eapply IH; eauto.
Qed.

(* ---------------- what a selection / a crossover has to guarantee *)
Definition sel_ok (n_pop : nat) (tour quantity : nat) (sel : list Q -> list Q -> nat -> nat -> M (list Z)) : Prop :=
  forall fs fr ds r ds', valid_draws ds -> List.length fs = n_pop -> List.length fr = n_pop ->
    sel fs fr tour quantity ds = Some (r, ds') ->
    List.length r = quantity /\ Forall (fun v => (0 <= v < Z.of_nat n_pop)%Z) r /\ valid_draws ds'.

Definition cx_ok (quantity : nat) (cx : list row -> list Q -> list Q -> M row) : Prop :=
  forall ps f r ds c ds', valid_draws ds -> List.length ps = quantity -> List.length f = quantity ->
    List.length r = quantity -> cx ps f r ds = Some (c, ds') -> from_parents ps c.

Lemma selection_by_fun_ok f sel n_pop tour quantity :
  selection_by_fun f = Some sel -> (0 < n_pop)%nat -> (0 < tour)%nat -> sel_ok n_pop tour quantity sel.
Proof.
  unfold selection_by_fun. intros H Hn Ht fs fr ds r ds' Hv Hfs Hfr Hs.
  destruct (String.eqb f "proportional_selection").
  { inversion H; subst sel. unfold proportional_selection in Hs.
    assert (Hne : fs <> []) by (destruct fs; simpl in Hfs; [lia|congruence]).
    destruct (weighted_selection_count_range _ _ _ _ _ Hne Hs) as (A & B). rewrite Hfs in B.
    repeat split; auto. eapply rws_loop_valid; eauto. }
  destruct (String.eqb f "rank_selection").
  { inversion H; subst sel. unfold rank_selection in Hs.
    assert (Hne : fr <> []) by (destruct fr; simpl in Hfr; [lia|congruence]).
    destruct (weighted_selection_count_range _ _ _ _ _ Hne Hs) as (A & B). rewrite Hfr in B.
    repeat split; auto. eapply rws_loop_valid; eauto. }
  destruct (String.eqb f "tournament_selection"); [|discriminate].
  inversion H; subst sel. cbn beta in Hs.
  destruct (tournament_selection_spec _ _ _ _ _ _ Hv Ht Hs) as (A & B).
  repeat split; auto.
  - rewrite Hfs in B. eapply Forall_impl; [|exact B]. cbn beta. tauto.
  - eapply tournament_selection_valid; eauto.
Qed.

(* the number of parents a crossover function needs at least *)
Definition min_parents (f : string) : nat :=
  if String.eqb f "one_point_crossover" then 2
  else if String.eqb f "two_point_crossover" then 2 else 1.

Lemma crossover_by_fun_ok f cx quantity :
  crossover_by_fun f = Some cx -> (min_parents f <= quantity)%nat -> cx_ok quantity cx.
Proof.
  unfold crossover_by_fun, min_parents. intros H Hq ps fi rk ds c ds' Hv Hps Hf Hr Hc.
  destruct (String.eqb f "empty_crossover") eqn:E0.
  { inversion H; subst cx. cbn beta in Hc. destruct (empty_clone _ _ _ _ Hc) as (-> & _).
    apply String.eqb_eq in E0. subst f. cbn in Hq.
    split; [reflexivity|]. intros i Hi. exists 0%nat. split; [lia|reflexivity]. }
  destruct (String.eqb f "one_point_crossover") eqn:E1.
  { inversion H; subst cx. cbn beta in Hc.
    destruct (one_point_sound _ _ _ _ Hv Hc) as (cp & coin & _ & ->).
    apply one_point_child_from_parents. lia. }
  destruct (String.eqb f "two_point_crossover") eqn:E2.
  { inversion H; subst cx. cbn beta in Hc.
    destruct (two_point_sound _ _ _ _ Hv Hc) as (c0 & c1 & coin & _ & _ & ->).
    apply two_point_child_from_parents. lia. }
  destruct (String.eqb f "uniform_crossover").
  { inversion H; subst cx. apply (uniform_from_parents ps fi rk ds c ds' Hv); auto. lia. }
  destruct (String.eqb f "uniform_proportional_crossover").
  { inversion H; subst cx. unfold uniform_proportional_crossover in Hc.
    unfold bind, ret in Hc.
    destruct (random_weighted_sample fi (width ps) true ds) as [[ch ds1]|] eqn:E; [|discriminate].
    inversion Hc; subst. apply (uniform_weighted_from_parents ps fi ds ch ds'); [|lia|exact E].
    destruct fi; simpl in Hf; [lia|congruence]. }
  destruct (String.eqb f "uniform_rank_crossover").
  { inversion H; subst cx. unfold uniform_rank_crossover in Hc.
    unfold bind, ret in Hc.
    destruct (random_weighted_sample rk (width ps) true ds) as [[ch ds1]|] eqn:E; [|discriminate].
    inversion Hc; subst. apply (uniform_weighted_from_parents ps rk ds ch ds'); [|lia|exact E].
    destruct rk; simpl in Hr; [lia|congruence]. }
  destruct (String.eqb f "uniform_tournament_crossover"); [|discriminate].
  inversion H; subst cx. apply (uniform_tour_sound ps fi rk ds c ds' Hv Hc).
Qed.

(* ---------------- one new individual, with the validity of the draws threaded through *)
Lemma gather_length {A} (d : A) l idx : List.length (gather d l idx) = List.length idx.
Proof. unfold gather. apply map_length. Qed.

Lemma child_of_parents_ok n pop sel cx quantity ds c ds' fscale frank :
  pop_ok n pop -> (0 < quantity)%nat -> valid_draws ds ->
  List.length sel = quantity -> Forall (fun v => (0 <= v < Z.of_nat (List.length pop))%Z) sel ->
  cx_ok quantity cx ->
  cx (gather [] pop sel) (gather 0 fscale sel) (gather 0 frank sel) ds = Some (c, ds') ->
  binary c /\ List.length c = n.
Proof.
  intros Hp Hq Hv Hl Hr Hcx Hc.
  pose proof (gather_ok n pop sel Hp Hr) as Hg.
  assert (Hfp : from_parents (gather [] pop sel) c).
  { eapply Hcx; eauto; rewrite gather_length; auto. }
  assert (Hw : width (gather [] pop sel) = n).
  { unfold width. destruct sel as [|v l']; [simpl in Hl; lia|]. cbn [gather map nth].
    inversion Hg; subst. tauto. }
  split.
  - eapply from_parents_binary; [|exact Hfp]. intros p Hp'. unfold pop_ok in Hg.
    rewrite Forall_forall in Hg. rewrite Hw. apply Hg. apply nth_In; auto.
  - destruct Hfp as (Hlen & _). lia.
Qed.

Theorem new_individ_closed (pdp : bool) sel tour quantity cx proba is_const pop fscale frank n ds child ds' :
  pop_ok n pop -> (0 < quantity)%nat -> valid_draws ds ->
  List.length fscale = List.length pop -> List.length frank = List.length pop ->
  sel_ok (List.length pop) tour quantity sel -> cx_ok quantity cx ->
  (if pdp then new_individ_pdp else new_individ) sel tour quantity cx proba is_const pop fscale frank ds = Some (child, ds') ->
  binary child /\ List.length child = n.
Proof.
  intros Hp Hq Hv Hfs Hfr Hsel Hcx H.
  destruct pdp.
  - unfold new_individ_pdp in H. minv H.
    destruct (Hsel _ _ _ _ _ Hv Hfs Hfr E) as (Hl & Hr & Hv1).
    pose proof (popI_inv _ _ _ _ E0) as ->.
    assert (Hv2 : valid_draws l1) by (eapply valid_tail; eauto).
    destruct (child_of_parents_ok n pop l cx quantity _ _ _ fscale frank Hp Hq Hv2 Hl Hr Hcx E1) as (Hb & Hlen).
    destruct (flip_sound _ _ _ _ _ H) as (cs & Hcs & ->).
    destruct (flip_binary r cs Hb) as (H1 & H2). split; auto. lia.
  - unfold new_individ in H. minv H.
    destruct (Hsel _ _ _ _ _ Hv Hfs Hfr E) as (Hl & Hr & Hv1).
    destruct (child_of_parents_ok n pop l cx quantity _ _ _ fscale frank Hp Hq Hv1 Hl Hr Hcx E0) as (Hb & Hlen).
    destruct (flip_sound _ _ _ _ _ H) as (cs & Hcs & ->).
    destruct (flip_binary r cs Hb) as (H1 & H2). split; auto. lia.
Qed.

(* ---------------- the pools as data: a computable well-formedness check of a crossover table *)
Definition attrs_ok (a : attrs) : Prop := (0 < a_tour a)%Z /\ (2 <= a_parents a)%Z.

(* an entry whose function the binary GA can apply must promise at least the parents that function needs;
   a "_parents_num" entry relies on attrs_ok (GeneticAlgorithm requires parents_num >= 2 for one/two-point only,
   the uniform family works from 1 parent on) *)
Definition cx_entry_ok (e : entry) : bool :=
  match crossover_by_fun (e_fun e) with
  | None => true                                   (* GP operators: not applicable to the binary GA *)
  | Some _ =>
    match e_param e with
    | PInt z => (Z.of_nat (min_parents (e_fun e)) <=? z)%Z
    | PAttr s => String.eqb s "_parents_num"
    | PQ _ => false
    end
  end.
Definition cx_table_ok (t : list entry) : bool := forallb cx_entry_ok t.
Definition sel_entry_ok (e : entry) : bool :=
  match e_param e with
  | PInt z => String.eqb (e_fun e) "tournament_selection" && (0 <? z)%Z
              || negb (String.eqb (e_fun e) "tournament_selection")
  | PAttr s => String.eqb s "_tour_size"
  | PQ _ => false
  end.
Definition sel_table_ok (t : list entry) : bool := forallb sel_entry_ok t.

Lemma lookup_in n t e : lookup n t = Some e -> In e t.
Proof. unfold lookup. intros H. apply find_some in H. tauto. Qed.

(* proportional / rank ignore the tournament size: any positive stand-in gives the same computation *)
Lemma sel_tour_irrelevant f sel : selection_by_fun f = Some sel ->
  String.eqb f "tournament_selection" = false ->
  forall fs fr t1 t2 q, sel fs fr t1 q = sel fs fr t2 q.
Proof.
  unfold selection_by_fun. intros H Hn.
  destruct (String.eqb f "proportional_selection"); [inversion H; subst; reflexivity|].
  destruct (String.eqb f "rank_selection"); [inversion H; subst; reflexivity|].
  rewrite Hn in H. discriminate.
Qed.

Theorem ga_new_individ_closed pdp sp cp mp a sn cn mn pop fscale frank n ds child ds' :
  sel_table_ok sp = true -> cx_table_ok cp = true -> attrs_ok a ->
  pop_ok n pop -> pop <> [] -> valid_draws ds ->
  List.length fscale = List.length pop -> List.length frank = List.length pop ->
  ga_new_individ pdp sp cp mp a sn cn mn pop fscale frank ds = Some (child, ds') ->
  binary child /\ List.length child = n.
Proof.
  intros Hst Hct (Hat & Hap) Hp Hne Hv Hfs Hfr H. unfold ga_new_individ in H.
  destruct (lookup sn sp) as [se|] eqn:Ls; [|discriminate].
  destruct (lookup cn cp) as [ce|] eqn:Lc; [|discriminate].
  destruct (lookup mn mp) as [me|] eqn:Lm; [|discriminate].
  destruct (selection_by_fun (e_fun se)) as [sel|] eqn:Fs; [|discriminate].
  destruct (param_nat a (e_param se)) as [tour|] eqn:Pt; [|discriminate].
  destruct (crossover_by_fun (e_fun ce)) as [cx|] eqn:Fc; [|discriminate].
  destruct (param_nat a (e_param ce)) as [quantity|] eqn:Pq; [|discriminate].
  destruct (param_q a (e_param me)) as [proba|] eqn:Pp; [|discriminate].
  destruct (String.eqb (e_fun me) "flip_mutation"); [|discriminate].
  (* the crossover entry promises enough parents *)
  assert (Hce : cx_entry_ok ce = true).
  { unfold cx_table_ok in Hct. rewrite forallb_forall in Hct. apply Hct. eapply lookup_in; eauto. }
  assert (Hq : (min_parents (e_fun ce) <= quantity)%nat /\ (0 < quantity)%nat).
  { unfold cx_entry_ok in Hce. rewrite Fc in Hce. unfold param_nat in Pq.
    assert (Hm : (1 <= min_parents (e_fun ce) <= 2)%nat).
    { unfold min_parents. destruct (String.eqb _ "one_point_crossover"); [lia|].
      destruct (String.eqb _ "two_point_crossover"); lia. }
    destruct (e_param ce) as [z|q|s]; [| discriminate |].
    - apply Z.leb_le in Hce. inversion Pq; subst. lia.
    - apply String.eqb_eq in Hce. subst s. cbn in Pq. inversion Pq; subst. lia. }
  destruct Hq as (Hq1 & Hq0).
  pose proof (crossover_by_fun_ok _ _ _ Fc Hq1) as Hcx.
  assert (Hn0 : (0 < List.length pop)%nat) by (destruct pop; [congruence|simpl; lia]).
  (* the selection entry: a positive tournament size where it matters *)
  assert (Hse : sel_entry_ok se = true).
  { unfold sel_table_ok in Hst. rewrite forallb_forall in Hst. apply Hst. eapply lookup_in; eauto. }
  destruct (String.eqb (e_fun se) "tournament_selection") eqn:Et.
  - assert (Ht : (0 < tour)%nat).
    { unfold sel_entry_ok in Hse. rewrite Et in Hse. unfold param_nat in Pt.
      destruct (e_param se) as [z|q|s]; [| discriminate |].
      - cbn in Hse. rewrite orb_false_r in Hse. apply Z.ltb_lt in Hse. inversion Pt; subst. lia.
      - apply String.eqb_eq in Hse. subst s. cbn in Pt. inversion Pt; subst. lia. }
    apply (new_individ_closed pdp sel tour quantity cx proba (e_const me) pop fscale frank n ds child ds'); auto.
    apply selection_by_fun_ok with (f := e_fun se); auto.
  - (* tournament size irrelevant: replace it by 1 *)
    assert (Hsel : sel_ok (List.length pop) tour quantity sel).
    { intros fs fr ds0 r0 ds0' Hv0 A B Hs0.
      rewrite (sel_tour_irrelevant _ _ Fs Et fs fr tour 1%nat quantity) in Hs0.
      pose proof (selection_by_fun_ok _ _ (List.length pop) 1%nat quantity Fs Hn0 Nat.lt_0_1) as Hk.
      exact (Hk fs fr ds0 r0 ds0' Hv0 A B Hs0). }
    apply (new_individ_closed pdp sel tour quantity cx proba (e_const me) pop fscale frank n ds child ds'); auto.
Qed.
