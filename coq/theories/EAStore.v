(* EAStore.v — aliasing model of the optimizer's arrays (C01 last clause, C17).
   Sources: base/_ea.py (TheFittest._replace / get, Statistics._update, _update_data,
   _from_population_g_to_fitness elitism write) and the greedy writes `pop[mask] = trial[mask]` of
   the DE family / SHAGA.
   numpy semantics abstracted to ROW LOCATIONS: a 2-D array is a list of row locations; `a[i]` is the
   row location (a view); `x.copy()` allocates a fresh location with the same contents;
   `a[mask] = b[mask]`, `a[-1] = v` write CONTENTS into existing locations; `np.array([...])` allocates
   fresh rows.  The harness observes the same relation on the implementation with np.shares_memory / `is`. *)
From TF Require Export Base.

Section Store.
Variable V : Type.                 (* contents of a row / an object *)
Variable dflt : V.

Definition loc := nat.
Definition store := list V.
Definition rd (s : store) (l : loc) : V := nth l s dflt.
Definition alloc (s : store) (v : V) : store * loc := (s ++ [v], length s).
Definition wr (s : store) (l : loc) (v : V) : store := upd s l v.

Fixpoint alloc_all (s : store) (vs : list V) : store * list loc :=
  match vs with
  | [] => (s, [])
  | v :: r => let '(s1, l) := alloc s v in let '(s2, ls) := alloc_all s1 r in (s2, l :: ls)
  end.

Record st := {
  heap : store;
  pop : list loc;            (* rows of the working population (g, ph and fitness rows alike) *)
  rcd : list loc;            (* the TheFittest record: its genotype / phenotype objects *)
  hist : list loc;           (* every object stored in get_stats() *)
  caller : list loc;         (* caller-owned: init_population rows, *_args values *)
  ret : list loc             (* objects handed out by get_fittest() *)
}.

Inductive op :=
| NewPop (vals : list V)          (* generational: population_g = np.array([...]) — fresh rows *)
| InitFromCaller                  (* population_g = init_population.copy() *)
| PopWrite (i : nat) (v : V)      (* pop[mask] = trial[mask] (one accepted slot) *)
| ElitismWrite                    (* pop[-1] = copy handed out by get(): contents of the record *)
| ReplaceRecord (i : nat)         (* _replace(pop[i].copy()) *)
| Snapshot                        (* Statistics._update: value.copy() for every value *)
| Get                             (* get_fittest(): copies *)
| CallerWrite (k : nat) (v : V).  (* the caller overwrites the k-th object it got from get_fittest() *)

Definition step (s : st) (o : op) : st :=
  match o with
  | NewPop vals =>
    let '(h, ls) := alloc_all (heap s) vals in
    {| heap := h; pop := ls; rcd := rcd s; hist := hist s; caller := caller s; ret := ret s |}
  | InitFromCaller =>
    let '(h, ls) := alloc_all (heap s) (map (rd (heap s)) (caller s)) in
    {| heap := h; pop := ls; rcd := rcd s; hist := hist s; caller := caller s; ret := ret s |}
  | PopWrite i v =>
    match nth_error (pop s) i with
    | Some l => {| heap := wr (heap s) l v; pop := pop s; rcd := rcd s; hist := hist s; caller := caller s; ret := ret s |}
    | None => s
    end
  | ElitismWrite =>
    match rcd s, rev (pop s) with
    | r :: _, l :: _ => {| heap := wr (heap s) l (rd (heap s) r); pop := pop s; rcd := rcd s; hist := hist s; caller := caller s; ret := ret s |}
    | _, _ => s
    end
  | ReplaceRecord i =>
    match nth_error (pop s) i with
    | Some l => let '(h, r) := alloc (heap s) (rd (heap s) l) in
                {| heap := h; pop := pop s; rcd := [r]; hist := hist s; caller := caller s; ret := ret s |}
    | None => s
    end
  | Snapshot =>
    let '(h, ls) := alloc_all (heap s) (map (rd (heap s)) (pop s)) in
    {| heap := h; pop := pop s; rcd := rcd s; hist := hist s ++ ls; caller := caller s; ret := ret s |}
  | Get =>
    let '(h, ls) := alloc_all (heap s) (map (rd (heap s)) (rcd s)) in
    {| heap := h; pop := pop s; rcd := rcd s; hist := hist s; caller := caller s; ret := ret s ++ ls |}
  | CallerWrite k v =>
    match nth_error (ret s) k with
    | Some l => {| heap := wr (heap s) l v; pop := pop s; rcd := rcd s; hist := hist s; caller := caller s; ret := ret s |}
    | None => s
    end
  end.

Definition run (s : st) (ops : list op) : st := fold_left step ops s.

(* every location is allocated; the population rows are distinct from everything the optimizer
   promises to keep stable, and returned objects are distinct from the record and the history *)
Definition disjoint (a b : list loc) : Prop := forall l, In l a -> ~ In l b.
Definition wf (s : st) : Prop :=
  (forall l, In l (pop s ++ rcd s ++ hist s ++ caller s ++ ret s) -> (l < length (heap s))%nat) /\
  disjoint (pop s) (rcd s) /\ disjoint (pop s) (hist s) /\ disjoint (pop s) (caller s) /\ disjoint (pop s) (ret s) /\
  disjoint (ret s) (rcd s) /\ disjoint (ret s) (hist s) /\ disjoint (ret s) (caller s).

End Store.
