(* NetForwardProofs.v — C12, part 1: the reused node buffer leaks nothing
   (C12_batch_rows_independent), output shape, softmax normalisation.                          *)
From TF Require Import Base Net NetAlgebra NetOrder NetForward NetProofs NetProofs2 NetOrderProofs.
From Coq Require Import Permutation.
Local Open Scope nat_scope.

Section FwdProofs.
  Variables K V : Type.
  Variable kzero : K.
  Variable vzero : V.
  Variable vadd : V -> V -> V.
  Variable vscale : K -> V -> V.
  Variable act : nat -> V -> V.
  Variable smx : list V -> list V.
  Hypothesis smx_length : forall l, length (smx l) = length l.

  Notation rd := (rd V vzero).
  Notation write_all := (write_all V).
  Notation apply_act := (apply_act V vzero act smx).
  Notation forward_group := (forward_group K V kzero vzero vadd vscale act smx).
  Notation forward := (forward K V kzero vzero vadd vscale act smx).
  Notation init_buf := (init_buf V vzero).
  Notation forward_rows := (forward_rows K V kzero vzero vadd vscale act smx).
  Notation forward2d := (forward2d K V kzero vzero vadd vscale act smx).
  Notation net_forward := (net_forward K V kzero vzero vadd vscale act smx).

  (* ---------------------------------------------------------------- buffer lemmas *)
  Lemma upd_out (b : list V) i x : length b <= i -> upd b i x = b.
  Proof.
    revert i. induction b as [|h t IH]; intros [|i] H; simpl in *; auto; try lia.
    f_equal. apply IH. lia.
  Qed.
  Lemma rd_upd_same (b1 b2 : list V) i x :
    length b1 = length b2 -> rd (upd b1 i x) i = rd (upd b2 i x) i.
  Proof.
    intro H. unfold NetForward.rd. destruct (Nat.lt_ge_cases i (length b1)) as [L|L].
    - rewrite !nth_upd_eq; auto. lia.
    - rewrite !upd_out by lia. rewrite !nth_overflow; auto; lia.
  Qed.
  Lemma rd_upd_other (b : list V) i j x : i <> j -> rd (upd b i x) j = rd b j.
  Proof. intro H. unfold NetForward.rd. apply nth_upd_neq; auto. Qed.

  Lemma write_all_length (b : list V) ids vals : length (write_all b ids vals) = length b.
  Proof.
    revert b vals. induction ids as [|i ids IH]; intros b [|v vals]; simpl; auto.
    rewrite IH. apply upd_length.
  Qed.
  Lemma write_all_frame (b : list V) ids vals v :
    ~ In v ids -> rd (write_all b ids vals) v = rd b v.
  Proof.
    revert b vals. induction ids as [|i ids IH]; intros b [|x vals] H; simpl; auto.
    rewrite IH by (simpl in H; tauto). apply rd_upd_other. simpl in H. intro E. subst. tauto.
  Qed.

  Definition agree (P : nat -> Prop) (b1 b2 : list V) : Prop := forall v, P v -> rd b1 v = rd b2 v.

  Lemma upd_agree (P : nat -> Prop) (b1 b2 : list V) i x :
    length b1 = length b2 -> agree P b1 b2 ->
    agree (fun v => P v \/ v = i) (upd b1 i x) (upd b2 i x).
  Proof.
    intros HL HA v Hv. destruct (Nat.eq_dec i v) as [E|E].
    - subst. apply rd_upd_same; auto.
    - rewrite !rd_upd_other by auto. apply HA. destruct Hv; auto. congruence.
  Qed.
  (* the same writes on two buffers of equal length keep every agreement ... *)
  Lemma write_all_keep (P : nat -> Prop) (b1 b2 : list V) ids vals :
    length b1 = length b2 -> agree P b1 b2 -> agree P (write_all b1 ids vals) (write_all b2 ids vals).
  Proof.
    revert b1 b2 vals. induction ids as [|i ids IH]; intros b1 b2 [|x vals] HL HA; simpl; auto.
    apply IH.
    - rewrite !upd_length. auto.
    - intros v Hv. apply (upd_agree P b1 b2 i x HL HA). auto.
  Qed.
  (* ... and make the buffers agree on the written ids *)
  Lemma write_all_gain (P : nat -> Prop) (b1 b2 : list V) ids vals :
    length b1 = length b2 -> length vals = length ids -> agree P b1 b2 ->
    agree (fun v => P v \/ In v ids) (write_all b1 ids vals) (write_all b2 ids vals).
  Proof.
    revert b1 b2 vals P. induction ids as [|i ids IH]; intros b1 b2 [|x vals] P HL HV HA; simpl in *;
      try discriminate.
    - intros v [Hv|[]]. auto.
    - intros v Hv.
      apply (IH (upd b1 i x) (upd b2 i x) vals (fun v => P v \/ v = i)).
      + rewrite !upd_length. auto.
      + lia.
      + apply upd_agree; auto.
      + destruct Hv as [Hv|[Hv|Hv]]; auto.
  Qed.

  (* ---------------------------------------------------------------- one group, whole schedule *)
  (* structural well-formedness of a schedule w.r.t. the set P of computed nodes *)
  Fixpoint sched_ok (P : nat -> Prop) (s : list group) : Prop :=
    match s with
    | [] => True
    | g :: r =>
      (forall v, In v (g_from g) -> P v) /\
      length (g_wid g) = length (g_to g) /\
      (forall cg, In cg (g_act g) -> incl (snd cg) (g_to g)) /\
      sched_ok (fun v => P v \/ In v (g_to g)) r
    end.
  Lemma sched_ok_ext (P Q : nat -> Prop) s : (forall v, P v -> Q v) -> sched_ok P s -> sched_ok Q s.
  Proof.
    revert P Q. induction s as [|g r IH]; simpl; intros P Q H; auto.
    intros [H1 [H2 [H3 H4]]]. repeat split; auto.
    eapply IH; [|exact H4]. intros v [Hv|Hv]; auto.
  Qed.
  Definition acts_inside (s : list group) : Prop :=
    forall g cg, In g s -> In cg (g_act g) -> incl (snd cg) (g_to g).
  Lemma sched_ok_acts (P : nat -> Prop) s : sched_ok P s -> acts_inside s.
  Proof.
    revert P. induction s as [|g r IH]; simpl; intros P H g' cg Hg; [destruct Hg|].
    destruct H as [_ [_ [H3 H4]]]. destruct Hg as [<-|Hg]; auto. eapply IH; eauto.
  Qed.

  Lemma apply_act_length (b : list V) cg : length (apply_act b cg) = length b.
  Proof. unfold NetForward.apply_act. apply write_all_length. Qed.
  Lemma fold_apply_act_length acts (b : list V) : length (fold_left apply_act acts b) = length b.
  Proof.
    revert b. induction acts as [|cg r IH]; intro b; simpl; auto. rewrite IH. apply apply_act_length.
  Qed.
  Lemma forward_group_length w (b : list V) g : length (forward_group w b g) = length b.
  Proof. unfold NetForward.forward_group. rewrite fold_apply_act_length. apply write_all_length. Qed.
  Lemma forward_cons w (b : list V) g r : forward w b (g :: r) = forward w (forward_group w b g) r.
  Proof. reflexivity. Qed.
  Lemma forward_length w s : forall b : list V, length (forward w b s) = length b.
  Proof.
    induction s as [|g r IH]; intro b; auto.
    rewrite forward_cons, IH. apply forward_group_length.
  Qed.

  Lemma apply_act_agree (P : nat -> Prop) (b1 b2 : list V) cg :
    length b1 = length b2 -> (forall v, In v (snd cg) -> P v) -> agree P b1 b2 ->
    agree P (apply_act b1 cg) (apply_act b2 cg).
  Proof.
    intros HL Hin HA. unfold NetForward.apply_act.
    replace (map (NetForward.rd V vzero b1) (snd cg)) with (map (NetForward.rd V vzero b2) (snd cg)).
    - apply write_all_keep; auto.
    - symmetry. apply map_ext_in. intros v Hv. apply HA. auto.
  Qed.
  Lemma fold_apply_act_agree (P : nat -> Prop) acts : forall b1 b2 : list V,
    length b1 = length b2 -> (forall cg v, In cg acts -> In v (snd cg) -> P v) -> agree P b1 b2 ->
    agree P (fold_left apply_act acts b1) (fold_left apply_act acts b2).
  Proof.
    induction acts as [|cg r IH]; intros b1 b2 HL Hin HA; simpl; auto.
    apply IH.
    - rewrite !apply_act_length. auto.
    - intros cg' v Hc Hv. apply (Hin cg' v); simpl; auto.
    - apply apply_act_agree; auto. intros v Hv. apply (Hin cg v); simpl; auto.
  Qed.

  Lemma forward_group_agree (P : nat -> Prop) w (b1 b2 : list V) g :
    length b1 = length b2 -> (forall v, In v (g_from g) -> P v) ->
    length (g_wid g) = length (g_to g) ->
    (forall cg, In cg (g_act g) -> incl (snd cg) (g_to g)) ->
    agree P b1 b2 ->
    agree (fun v => P v \/ In v (g_to g)) (forward_group w b1 g) (forward_group w b2 g).
  Proof.
    intros HL Hf Hw Ha HA. unfold NetForward.forward_group.
    replace (map (NetForward.rd V vzero b1) (g_from g)) with (map (NetForward.rd V vzero b2) (g_from g)).
    2:{ symmetry. apply map_ext_in. intros v Hv. apply HA. auto. }
    apply fold_apply_act_agree.
    - rewrite !write_all_length. auto.
    - intros cg v Hc Hv. right. apply (Ha cg Hc v Hv).
    - apply write_all_gain; auto. rewrite map_length. auto.
  Qed.

  Lemma forward_agree w s : forall (P : nat -> Prop) (b1 b2 : list V),
    length b1 = length b2 -> sched_ok P s -> agree P b1 b2 ->
    agree (fun v => P v \/ In v (targets s)) (forward w b1 s) (forward w b2 s).
  Proof.
    induction s as [|g r IH]; intros P b1 b2 HL HS HA.
    - intros v [Hv|[]]. apply HA; auto.
    - destruct HS as [H1 [H2 [H3 H4]]].
      rewrite !forward_cons.
      pose proof (forward_group_agree P w b1 b2 g HL H1 H2 H3 HA) as HG.
      intros v Hv.
      apply (IH (fun v => P v \/ In v (g_to g)) (forward_group w b1 g) (forward_group w b2 g)); auto.
      + rewrite !forward_group_length. auto.
      + unfold targets in Hv. simpl in Hv. rewrite in_app_iff in Hv. tauto.
  Qed.

  (* nodes that are not targets keep their value: inputs are never written *)
  Lemma fold_apply_act_frame acts : forall (b : list V) v,
    (forall cg, In cg acts -> ~ In v (snd cg)) -> rd (fold_left apply_act acts b) v = rd b v.
  Proof.
    induction acts as [|cg r IH]; intros b v H; simpl; auto.
    rewrite IH by (intros cg' Hc; apply H; simpl; auto).
    unfold NetForward.apply_act. apply write_all_frame. apply H. simpl; auto.
  Qed.
  Lemma forward_frame w s : acts_inside s -> forall (b : list V) v,
    ~ In v (targets s) -> rd (forward w b s) v = rd b v.
  Proof.
    induction s as [|g r IH]; intros HA b v Hv; auto.
    rewrite forward_cons. unfold targets in Hv. simpl in Hv. rewrite in_app_iff in Hv.
    rewrite (IH (fun g' cg Hg Hc => HA g' cg (or_intror Hg) Hc)) by tauto.
    unfold NetForward.forward_group. rewrite fold_apply_act_frame.
    - apply write_all_frame. tauto.
    - intros cg Hc Hin. apply Hv. left. apply (HA g cg (or_introl eq_refl) Hc v Hin).
  Qed.

  (* ---------------------------------------------------------------- C12_batch_rows_independent *)
  Lemma forward_rows_nth s inputs outputs :
    sched_ok (fun v => In v inputs) s ->
    (forall v, In v inputs -> ~ In v (targets s)) ->
    (forall v, In v outputs -> In v inputs \/ In v (targets s)) ->
    forall ws (b b0 : list V) r w,
      length b = length b0 -> agree (fun v => In v inputs) b b0 ->
      nth_error ws r = Some w ->
      nth_error (forward_rows ws b outputs s) r = Some (map (NetForward.rd V vzero (forward w b0 s)) outputs).
  Proof.
    intros HS Hdis Hout. induction ws as [|w0 ws IH]; intros b b0 r w HL HA Hr.
    - destruct r; discriminate.
    - destruct r as [|r]; simpl in *.
      + inversion Hr; subst. f_equal. apply map_ext_in. intros v Hv.
        apply (forward_agree w s (fun v => In v inputs) b b0 HL HS HA). apply Hout; auto.
      + apply IH; auto.
        * rewrite forward_length. auto.
        * intros v Hv. rewrite forward_frame; auto. eapply sched_ok_acts; eauto.
  Qed.

  (* every row of the batch is what a fresh buffer would give *)
  Lemma forward_rows_all s inputs outputs :
    sched_ok (fun v => In v inputs) s ->
    (forall v, In v inputs -> ~ In v (targets s)) ->
    (forall v, In v outputs -> In v inputs \/ In v (targets s)) ->
    forall ws (b b0 : list V),
      length b = length b0 -> agree (fun v => In v inputs) b b0 ->
      forward_rows ws b outputs s
      = map (fun w => map (NetForward.rd V vzero (forward w b0 s)) outputs) ws.
  Proof.
    intros HS Hdis Hout. induction ws as [|w0 ws IH]; intros b b0 HL HA; simpl; auto.
    f_equal.
    - apply map_ext_in. intros v Hv.
      apply (forward_agree w0 s (fun v => In v inputs) b b0 HL HS HA). apply Hout; auto.
    - apply IH.
      + rewrite forward_length. auto.
      + intros v Hv. rewrite forward_frame; auto. eapply sched_ok_acts; eauto.
  Qed.

  Theorem batch_rows_independent s inputs outputs garbage1 garbage2 x ws r w :
    sched_ok (fun v => In v inputs) s ->
    (forall v, In v inputs -> ~ In v (targets s)) ->
    (forall v, In v outputs -> In v inputs \/ In v (targets s)) ->
    length garbage1 = length garbage2 ->
    nth_error ws r = Some w ->
    nth_error (forward2d garbage1 x inputs outputs s ws) r
    = Some (hd [] (forward2d garbage2 x inputs outputs s [w])).
  Proof.
    intros HS Hdis Hout HL Hr. unfold NetForward.forward2d. simpl.
    apply (forward_rows_nth s inputs outputs HS Hdis Hout); auto.
    - unfold NetForward.init_buf. rewrite !write_all_length. auto.
    - unfold NetForward.init_buf. intros v Hv.
      apply (write_all_gain (fun _ => False) garbage1 garbage2 inputs); auto.
      + rewrite map_length. auto.
      + intros u [].
  Qed.

  (* ---------------------------------------------------------------- nets *)
  Lemma well_sched_sched_ok acts con : forall s calc,
    well_sched calc s -> Forall (group_of acts (build_pairs con)) s ->
    sched_ok (fun v => In v calc) s.
  Proof.
    induction s as [|g r IH]; intros calc W G; simpl; auto.
    destruct W as [W1 W2]. inversion G as [|? ? [p [Hp [Ef [Et [Ew Hag]]]]] G']; subst.
    destruct (build_pairs_rows con p Hp) as [HL _].
    destruct (act_groups_spec _ _ _ Hag) as [_ [A2 _]].
    split; [exact W1|]. split; [rewrite Et, Ew; symmetry; exact HL|]. split.
    - intros [c ns] Hin u Hu. simpl in Hu. destruct (A2 c ns Hin) as [Ens _]. rewrite Ens in Hu.
      apply filter_In in Hu. tauto.
    - eapply sched_ok_ext; [|apply (IH (calc ++ g_to g)); auto].
      intros v Hv. apply in_app_iff in Hv. exact Hv.
  Qed.

  Lemma layered_sched n s :
    Layered n -> get_order (order_fuel n) n = Some s ->
    sched_ok (fun v => In v (n_in n)) s /\
    (forall v, In v (n_in n) -> ~ In v (targets s)) /\
    (forall v, In v (n_out n) -> In v (n_in n) \/ In v (targets s)).
  Proof.
    intros L Hs. destruct (order_terminates n L) as [s' [E [W [P G]]]].
    rewrite E in Hs. inversion Hs; subst s'.
    pose proof (l_sets n L) as HS. apply NoDup_app_elim in HS. destruct HS as [S1 [S2 S3]].
    split; [|split].
    - eapply well_sched_sched_ok; eauto.
    - intros v Hv Ht. apply (S3 v Hv). eapply Permutation_in; eauto.
    - intros v Hv. right. eapply Permutation_in; [symmetry; exact P|]. apply in_app_iff. auto.
  Qed.

  (* the result does not depend on what the buffer held before (np.empty garbage, or the values
     left by an earlier call) *)
  Theorem net_garbage_independent n garbage1 garbage2 x ws :
    Layered n -> length garbage1 = length garbage2 ->
    net_forward (order_fuel n) n garbage1 x ws = net_forward (order_fuel n) n garbage2 x ws.
  Proof.
    intros L HL. unfold NetForward.net_forward.
    destruct (get_order (order_fuel n) n) as [s|] eqn:E; auto. f_equal.
    destruct (layered_sched n s L E) as [H1 [H2 H3]].
    unfold NetForward.forward2d.
    rewrite (forward_rows_all s (n_in n) (n_out n) H1 H2 H3 ws _ (init_buf garbage2 (n_in n) x)).
    - rewrite (forward_rows_all s (n_in n) (n_out n) H1 H2 H3 ws _ (init_buf garbage2 (n_in n) x)); auto.
      intros v Hv. reflexivity.
    - unfold NetForward.init_buf. rewrite !write_all_length. auto.
    - unfold NetForward.init_buf. intros v Hv.
      apply (write_all_gain (fun _ => False) garbage1 garbage2 (n_in n)); auto.
      + rewrite map_length. auto.
      + intros u [].
  Qed.

  (* C12_batch_rows_independent for nets *)
  Theorem net_batch_rows_independent n garbage1 garbage2 x ws r w out :
    Layered n -> length garbage1 = length garbage2 ->
    net_forward (order_fuel n) n garbage1 x ws = Some out -> nth_error ws r = Some w ->
    exists row, nth_error out r = Some row /\
                net_forward (order_fuel n) n garbage2 x [w] = Some [row].
  Proof.
    intros L HL. unfold NetForward.net_forward.
    destruct (get_order (order_fuel n) n) as [s|] eqn:E; [|discriminate].
    intros Ho Hr. inversion Ho; subst out. clear Ho.
    destruct (layered_sched n s L E) as [H1 [H2 H3]].
    pose proof (batch_rows_independent s (n_in n) (n_out n) garbage1 garbage2 x ws r w H1 H2 H3 HL Hr) as B.
    exists (hd [] (forward2d garbage2 x (n_in n) (n_out n) s [w])). split; auto.
  Qed.

  (* shape: one output row per weight row, one value per output node *)
  Lemma forward_rows_shape s outputs : forall ws (b : list V),
    length (forward_rows ws b outputs s) = length ws /\
    Forall (fun row => length row = length outputs) (forward_rows ws b outputs s).
  Proof.
    induction ws as [|w ws IH]; intro b; simpl.
    - split; auto.
    - destruct (IH (forward w b s)) as [H1 H2]. split; [lia|]. constructor; auto. apply map_length.
  Qed.
  Theorem forward_shape fuel n garbage x ws out :
    net_forward fuel n garbage x ws = Some out ->
    length out = length ws /\ Forall (fun row => length row = length (n_out n)) out.
  Proof.
    unfold NetForward.net_forward. destruct (get_order fuel n); [|discriminate].
    intro H. inversion H; subst. unfold NetForward.forward2d. apply forward_rows_shape.
  Qed.
End FwdProofs.

(* -------------------------------------------------------------------------------------------
   softmax_numba over Q with an abstract exponential that is only assumed positive:
     exps = exp(X - max(X)); sum_ = sum(exps); if sum_ == 0: sum_ = 1; result = exps / sum_
   every entry is >= 0 and the entries of a non-empty row sum to 1.                              *)
Section Softmax.
  Open Scope Q_scope.
  Variable exp : Q -> Q.
  Hypothesis exp_pos : forall x, 0 < exp x.

  Definition qmaxl (l : list Q) : Q :=
    fold_right (fun a b => if Qle_bool a b then b else a) (hd 0 l) l.
  Definition qsum (l : list Q) : Q := fold_right Qplus 0 l.
  Definition softmax_q (l : list Q) : list Q :=
    let m := qmaxl l in
    let es := map (fun x => exp (x - m)) l in
    let s := qsum es in
    let s' := if Qeq_bool s 0 then 1 else s in
    map (fun e => e / s') es.

  Lemma qsum_pos es : es <> [] -> Forall (fun e => 0 < e) es -> 0 < qsum es.
  Proof.
    intros Hne HF. induction HF as [|e r He Hr IH]; [congruence|]. simpl.
    destruct r as [|e' r'].
    - simpl. lra.
    - assert (0 < qsum (e' :: r')) by (apply IH; discriminate). lra.
  Qed.
  Lemma qsum_div es s : qsum (map (fun e => e / s) es) == qsum es / s.
  Proof.
    induction es as [|e r IH]; simpl.
    - unfold Qdiv. ring.
    - rewrite IH. unfold Qdiv. ring.
  Qed.

  Theorem softmax_normalised l : l <> [] ->
    Forall (fun y => 0 <= y) (softmax_q l) /\ qsum (softmax_q l) == 1.
  Proof.
    intro Hne. unfold softmax_q.
    set (m := qmaxl l). set (es := map (fun x => exp (x - m)) l).
    assert (Hes : Forall (fun e => 0 < e) es).
    { unfold es. apply Forall_forall. intros e He. apply in_map_iff in He.
      destruct He as [x0 [<- _]]. apply exp_pos. }
    assert (Hne' : es <> []) by (unfold es; destruct l; simpl; congruence).
    pose proof (qsum_pos es Hne' Hes) as Hs.
    assert (E : Qeq_bool (qsum es) 0 = false).
    { destruct (Qeq_bool (qsum es) 0) eqn:E; auto. apply Qeq_bool_iff in E. lra. }
    rewrite E. split.
    - apply Forall_forall. intros y Hy. apply in_map_iff in Hy. destruct Hy as [e [<- He]].
      rewrite Forall_forall in Hes. specialize (Hes e He).
      apply Qle_shift_div_l; auto. lra.
    - rewrite qsum_div. field. lra.
  Qed.
End Softmax.
