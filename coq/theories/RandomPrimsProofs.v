(* RandomPrimsProofs.v — theorems about the models of RandomPrims.v (C11). *)
From TF Require Import Base RandomPrims.
From Coq Require Import Permutation.
Open Scope Q_scope.

(* ------------------------------------------------------------------ binary search *)
Lemma bsi_loop_spec fuel : forall v c l r,
  (r - l <= fuel)%nat -> (l < r < length c)%nat -> nth l c 0 < v ->
  (v <= nth r c 0 \/ r = (length c - 1)%nat) ->
  let i := bsi_loop fuel v c l r in
  (l < i <= r)%nat /\ nth (i - 1) c 0 < v /\ (v <= nth i c 0 \/ i = (length c - 1)%nat).
Proof.
  induction fuel as [|f IH]; intros v c l r Hf Hlr Hl Hr; cbn [bsi_loop].
  - assert (r = S l) by lia. subst r. cbn. replace (l - 0)%nat with l by lia.
    repeat split; try lia; auto.
  - destruct (1 <? r - l)%nat eqn:E.
    + apply Nat.ltb_lt in E.
      assert (Hmid : (l < (l + r) / 2 < r)%nat).
      { split.
        - apply Nat.div_le_lower_bound with (b := 2%nat) (q := S l); lia.
        - apply Nat.div_lt_upper_bound; lia. }
      set (mid := ((l + r) / 2)%nat) in *.
      destruct (Qle_bool v (nth mid c 0)) eqn:Ev.
      * apply Qle_bool_iff in Ev.
        specialize (IH v c l mid). cbv zeta in IH.
        destruct IH as (H1 & H2 & H3); try lia; auto.
        repeat split; try lia; auto.
      * apply Qle_bool_false in Ev.
        specialize (IH v c mid r). cbv zeta in IH.
        destruct IH as (H1 & H2 & H3); try lia; auto.
        repeat split; try lia; auto.
    + apply Nat.ltb_ge in E. assert (r = S l) by lia. subst r.
      replace (S l - 1)%nat with l by lia. repeat split; try lia; auto.
Qed.

(* the index returned: everything before it is < v ... *)
Definition sorted (c : list Q) : Prop :=
  forall i j, (i <= j < length c)%nat -> nth i c 0 <= nth j c 0.

Theorem bsi_spec v c : c <> [] ->
  let i := bsi v c in
  (i < length c)%nat /\ ((0 < i)%nat -> nth (i - 1) c 0 < v) /\
  (v <= nth i c 0 \/ i = (length c - 1)%nat).
Proof.
  intros Hne. unfold bsi. cbv zeta.
  assert (Hlen : (0 < length c)%nat) by (destruct c; simpl; [congruence|lia]).
  destruct (Qle_bool v (nth 0 c 0)) eqn:E.
  - apply Qle_bool_iff in E. repeat split; auto; lia.
  - apply Qle_bool_false in E.
    destruct (Nat.eq_dec (length c) 1) as [H1|H1].
    + rewrite H1. cbn. repeat split; try lia; try (right; lia).
    + pose proof (bsi_loop_spec (length c) v c 0 (length c - 1)) as H.
      cbv zeta in H. destruct H as (Ha & Hb & Hc); try lia; auto.
      repeat split; try lia; auto.
Qed.

Theorem bsi_first v c : c <> [] -> sorted c ->
  let i := bsi v c in
  (forall j, (j < i)%nat -> nth j c 0 < v) /\ (v <= nth i c 0 \/ i = (length c - 1)%nat).
Proof.
  intros Hne Hs. destruct (bsi_spec v c Hne) as (H1 & H2 & H3). cbv zeta. split; auto.
  intros j Hj. eapply Qle_lt_trans; [|apply H2; lia]. apply Hs. lia.
Qed.

(* ------------------------------------------------------------------ cumulative sums *)
Fixpoint Qsum (l : list Q) : Q := match l with [] => 0 | x :: t => x + Qsum t end.

Lemma cumsum_from_length acc w : length (cumsum_from acc w) = length w.
Proof. revert acc; induction w as [|x t IH]; intros; simpl; auto. Qed.

Lemma cumsum_length w : length (cumsum w) = length w.
Proof. apply cumsum_from_length. Qed.

Lemma cumsum_from_nth w : forall acc i, (i < length w)%nat ->
  nth i (cumsum_from acc w) 0 == acc + Qsum (firstn (S i) w).
Proof.
  induction w as [|x t IH]; intros acc i Hi; simpl in Hi; [lia|].
  destruct i as [|i].
  - cbn. destruct t; cbn; lra.
  - cbn [cumsum_from nth]. rewrite IH by lia. cbn [firstn Qsum]. lra.
Qed.

Definition nonneg (w : list Q) := Forall (fun x => 0 <= x) w.

Lemma Qsum_nonneg w : nonneg w -> 0 <= Qsum w.
Proof. induction 1; simpl; lra. Qed.

Lemma firstn_nonneg w n : nonneg w -> nonneg (firstn n w).
Proof. unfold nonneg. intros H. revert n. induction H; intros [|n]; simpl; constructor; auto. Qed.

Lemma Qsum_firstn_mono w : nonneg w -> forall i j, (i <= j)%nat ->
  Qsum (firstn i w) <= Qsum (firstn j w).
Proof.
  induction 1 as [|x t Hx Ht IH]; intros i j Hij.
  - destruct i, j; simpl; lra.
  - destruct i as [|i], j as [|j]; simpl; try lra; try lia.
    + pose proof (Qsum_nonneg (firstn j t) (firstn_nonneg t j Ht)). lra.
    + specialize (IH i j). assert (i <= j)%nat by lia. specialize (IH H). lra.
Qed.

Lemma cumsum_sorted w : nonneg w -> sorted (cumsum w).
Proof.
  intros Hw i j Hij. unfold cumsum in *. rewrite cumsum_from_length in Hij.
  rewrite !cumsum_from_nth by lia.
  pose proof (Qsum_firstn_mono w Hw (S i) (S j) ltac:(lia)). lra.
Qed.

Lemma total_eq w : w <> [] -> total w == Qsum w.
Proof.
  intros Hne. unfold total, cumsum.
  assert (Hl : (0 < length w)%nat) by (destruct w; simpl; [congruence|lia]).
  rewrite cumsum_from_nth by lia.
  replace (S (length w - 1)) with (length w) by lia. rewrite firstn_all. lra.
Qed.

(* weight of index i = c_i - c_(i-1) *)
Lemma cumsum_step w i : (i < length w)%nat ->
  nth i (cumsum w) 0 == (if (i =? 0)%nat then 0 else nth (i - 1) (cumsum w) 0) + nth i w 0.
Proof.
  intros Hi. unfold cumsum. rewrite cumsum_from_nth by lia.
  destruct i as [|i].
  - cbn. destruct w; cbn in *; [lia|]. destruct w; cbn; lra.
  - cbn [Nat.eqb]. replace (S i - 1)%nat with i by lia. rewrite cumsum_from_nth by lia.
    assert (H : forall (l : list Q) k, (k < length l)%nat -> Qsum (firstn (S k) l) == Qsum (firstn k l) + nth k l 0).
    { clear. induction l as [|x t IH]; intros k Hk; simpl in Hk; [lia|].
      destruct k as [|k].
      - cbn. destruct t; cbn; lra.
      - specialize (IH k ltac:(lia)). cbn [firstn Qsum nth] in *. lra. }
    pose proof (H w (S i) ltac:(lia)) as H'. lra.
Qed.

(* ------------------------------------------------------------------ weighted pick *)
Theorem weighted_pick_interval w u : w <> [] -> nonneg w -> 0 < total w -> 0 <= u -> u < 1 ->
  let i := weighted_pick w u in
  let c := cumsum w in
  (i < length w)%nat /\ (forall j, (j < i)%nat -> nth j c 0 < total w * u) /\ total w * u <= nth i c 0.
Proof.
  intros Hne Hw HS Hu0 Hu1. cbv zeta. unfold weighted_pick.
  assert (Hc : cumsum w <> []).
  { unfold cumsum. destruct w; [congruence|]. simpl. congruence. }
  destruct (bsi_first (total w * u) (cumsum w) Hc (cumsum_sorted w Hw)) as (H1 & H2).
  destruct (bsi_spec (total w * u) (cumsum w) Hc) as (H0 & _ & _).
  rewrite cumsum_length in *.
  repeat split; auto.
  destruct H2 as [H2|H2]; auto.
  rewrite H2.
  assert (Hl : (0 < length w)%nat) by (destruct w; simpl; [congruence|lia]).
  fold (total w). nra.
Qed.

Theorem zero_weight_excluded w u : w <> [] -> nonneg w -> 0 < total w -> 0 < u -> u < 1 ->
  nth (weighted_pick w u) w 0 > 0.
Proof.
  intros Hne Hw HS Hu0 Hu1.
  destruct (weighted_pick_interval w u Hne Hw HS) as (Hi & Hlt & Hle); try lra.
  set (i := weighted_pick w u) in *.
  pose proof (cumsum_step w i Hi) as Hstep.
  destruct i as [|i].
  - cbn [Nat.eqb] in Hstep. assert (0 < total w * u) by nra. lra.
  - cbn [Nat.eqb] in Hstep. replace (S i - 1)%nat with i in Hstep by lia.
    specialize (Hlt i). assert (i < S i)%nat by lia. specialize (Hlt H). lra.
Qed.

(* ------------------------------------------------------------------ random_sample *)
Lemma memZ_In v l : memZ v l = true <-> In v l.
Proof.
  unfold memZ. rewrite existsb_exists. split.
  - intros (x & Hx & He). apply Z.eqb_eq in He. subst; auto.
  - intros H. exists v. split; auto. apply Z.eqb_refl.
Qed.

Lemma NoDup_snoc {A} (l : list A) x : NoDup l -> ~ In x l -> NoDup (l ++ [x]).
Proof.
  induction l as [|a l IH]; simpl; intros Hnd Hnin.
  - constructor; auto; constructor.
  - inversion Hnd; subst. constructor.
    + intro Hin. apply in_app_or in Hin. destruct Hin as [Hin|[Hin|[]]]; [contradiction|].
      subst. apply Hnin. left; auto.
    + apply IH; auto.
Qed.

Lemma random_sample_loop_spec n q replace : forall ds acc r ds',
  valid_draws ds -> (length acc <= q)%nat ->
  Forall (fun v => (0 <= v < n)%Z) acc -> (replace = false -> NoDup acc) ->
  random_sample_loop n q replace acc ds = Some (r, ds') ->
  length r = q /\ Forall (fun v => (0 <= v < n)%Z) r /\ (replace = false -> NoDup r) /\
  (exists k, ds' = skipn k ds) /\ (exists ext, r = acc ++ ext).
Proof.
  induction ds as [|d ds IH]; intros acc r ds' Hv Hlen Hr Hnd H; cbn [random_sample_loop] in H.
  - destruct (q <=? length acc)%nat eqn:E; [|discriminate]. apply Nat.leb_le in E.
    inversion H; subst. repeat split; auto; try lia. exists 0%nat; auto. exists []. now rewrite app_nil_r.
  - destruct (q <=? length acc)%nat eqn:E.
    + apply Nat.leb_le in E. inversion H; subst. repeat split; auto; try lia.
      exists 0%nat; auto. exists []. now rewrite app_nil_r.
    + apply Nat.leb_gt in E. destruct d as [u|m v|x]; try discriminate.
      destruct (m =? n)%Z eqn:Em; [|discriminate]. apply Z.eqb_eq in Em. subst m.
      inversion Hv as [|? ? Hd Hv']; subst. cbn in Hd.
      destruct (negb replace && memZ v acc) eqn:Eb.
      * destruct (IH acc r ds' Hv' ltac:(lia) Hr Hnd H) as (A & B & Cc & (k & D) & Ee).
        repeat split; auto. exists (S k). auto.
      * assert (Hr' : Forall (fun v => (0 <= v < n)%Z) (acc ++ [v])).
        { apply Forall_app; split; auto. }
        assert (Hnd' : replace = false -> NoDup (acc ++ [v])).
        { intros Hrep. subst replace. cbn in Eb.
          assert (~ In v acc). { intro Hin. apply memZ_In in Hin. congruence. }
          apply NoDup_snoc; auto. }
        assert (Hl' : (length (acc ++ [v]) <= q)%nat) by (rewrite app_length; simpl; lia).
        destruct (IH (acc ++ [v]) r ds' Hv' Hl' Hr' Hnd' H) as (A & B & Cc & (k & D) & (ext & Ee)).
        repeat split; auto. exists (S k); auto. exists (v :: ext). rewrite Ee, <- app_assoc. reflexivity.
Qed.

Theorem random_sample_spec n q replace ds r ds' :
  valid_draws ds -> random_sample n q replace ds = Some (r, ds') ->
  length r = q /\ Forall (fun v => (0 <= v < n)%Z) r /\ (replace = false -> NoDup r).
Proof.
  intros Hv H. unfold random_sample in H.
  destruct (random_sample_loop_spec n q replace ds [] r ds' Hv) as (A & B & Cc & _); auto.
  - simpl; lia.
  - intros _. constructor.
Qed.

Lemma random_sample_suffix n q replace ds r ds' :
  valid_draws ds -> random_sample n q replace ds = Some (r, ds') -> valid_draws ds'.
Proof.
  intros Hv H. unfold random_sample in H.
  destruct (random_sample_loop_spec n q replace ds [] r ds' Hv) as (_ & _ & _ & (k & D) & _); auto.
  - simpl; lia.
  - intros _; constructor.
  - subst. clear H. revert ds Hv. induction k as [|k IH]; intros ds Hv; simpl; auto.
    destruct ds; auto. inversion Hv; subst. apply IH; auto.
Qed.

(* ------------------------------------------------------------------ argmax *)
Lemma argmax_from_spec l : forall best bi i,
  (bi < i)%nat ->
  let r := argmax_from best bi i l in
  (r = bi \/ (i <= r < i + length l)%nat) /\
  (forall d, let bv := if (r =? bi)%nat then best else nth (r - i) l d in
     best <= bv /\ Forall (fun x => x <= bv) l).
Proof.
  induction l as [|x t IH]; intros best bi i Hlt; cbn [argmax_from].
  - split; [left; reflexivity|]. intros d. cbv zeta. rewrite Nat.eqb_refl. split; [lra|constructor].
  - destruct (Qltb best x) eqn:E.
    + apply Qltb_lt in E. destruct (IH x i (S i) ltac:(lia)) as (H1 & H2). cbv zeta in *.
      set (r := argmax_from x i (S i) t) in *.
      split.
      * right. destruct H1 as [H1|H1]; cbn [length]; lia.
      * intros d. specialize (H2 d).
        assert (Hrb : (r =? bi)%nat = false).
        { apply Nat.eqb_neq. destruct H1; lia. }
        rewrite Hrb. destruct (r =? i)%nat eqn:Eri.
        -- apply Nat.eqb_eq in Eri. rewrite Eri. replace (i - i)%nat with 0%nat by lia. cbn [nth].
           destruct H2 as (Ha & Hb). split; [lra|]. constructor; [lra|auto].
        -- apply Nat.eqb_neq in Eri. destruct H1 as [H1|H1]; [lia|].
           replace (r - i)%nat with (S (r - S i)) by lia. cbn [nth].
           destruct H2 as (Ha & Hb). split; [lra|]. constructor; [lra|auto].
    + assert (E' : x <= best). { destruct (Qlt_le_dec best x) as [Hl|Hl]; auto. apply Qltb_lt in Hl. congruence. }
      destruct (IH best bi (S i) ltac:(lia)) as (H1 & H2). cbv zeta in *.
      set (r := argmax_from best bi (S i) t) in *.
      split.
      * destruct H1 as [H1|H1]; [left; auto|right; cbn [length]; lia].
      * intros d. specialize (H2 d). destruct (r =? bi)%nat eqn:Erb.
        -- destruct H2 as (Ha & Hb). split; [lra|]. constructor; auto.
        -- apply Nat.eqb_neq in Erb. destruct H1 as [H1|H1]; [congruence|].
           replace (r - i)%nat with (S (r - S i)) by lia. cbn [nth].
           destruct H2 as (Ha & Hb). split; auto. constructor; [lra|auto].
Qed.

Theorem argmax_spec l d : l <> [] ->
  (argmax l < length l)%nat /\ Forall (fun x => x <= nth (argmax l) l d) l.
Proof.
  destruct l as [|x t]; [congruence|]. intros _. unfold argmax.
  destruct (argmax_from_spec t x 0%nat 1%nat ltac:(lia)) as (H1 & H2). cbv zeta in *.
  set (r := argmax_from x 0 1 t) in *. specialize (H2 d).
  split.
  - destruct H1 as [H1|H1]; cbn [length]; lia.
  - destruct (r =? 0)%nat eqn:E.
    + apply Nat.eqb_eq in E. rewrite E. cbn [nth]. destruct H2 as (Ha & Hb). constructor; [lra|auto].
    + apply Nat.eqb_neq in E. destruct H1 as [H1|H1]; [congruence|].
      clearbody r. destruct r as [|m]; [congruence|]. replace (S m - 1)%nat with m in * by lia.
      cbn [nth]. destruct H2 as (Ha & Hb). constructor; auto.
Qed.

(* ------------------------------------------------------------------ tournament *)
Lemma nth_map_default {A B} (f : A -> B) l : forall n dA dB, (n < length l)%nat ->
  nth n (map f l) dB = f (nth n l dA).
Proof. induction l as [|x t IH]; intros [|n] dA dB H; simpl in *; try lia; auto. apply IH; lia. Qed.

Theorem tournament_one_spec fitness tour ds w ds' :
  valid_draws ds -> (0 < tour)%nat -> tournament_one fitness tour ds = Some (w, ds') ->
  exists t, length t = tour /\ NoDup t /\
    Forall (fun v => (0 <= v < Z.of_nat (length fitness))%Z) t /\
    In w t /\
    Forall (fun j => nth (Z.to_nat j) fitness 0 <= nth (Z.to_nat w) fitness 0) t /\
    valid_draws ds'.
Proof.
  intros Hv Ht H. unfold tournament_one, bind, ret in H.
  destruct (random_sample (Z.of_nat (length fitness)) tour false ds) as [[t ds1]|] eqn:E; [|discriminate].
  inversion H; subst; clear H.
  destruct (random_sample_spec _ _ _ _ _ _ Hv E) as (Hl & Hr & Hnd).
  pose proof (random_sample_suffix _ _ _ _ _ _ Hv E) as Hv'.
  assert (Hne : gatherQ fitness t <> []).
  { destruct t; [simpl in Hl; lia|]. simpl. congruence. }
  destruct (argmax_spec (gatherQ fitness t) 0 Hne) as (Ha & Hb).
  unfold gatherQ in Ha at 2. rewrite map_length in Ha.
  set (a := argmax (gatherQ fitness t)) in *.
  exists t. split; [auto|]. split; [auto|]. split; [auto|].
  split; [apply nth_In; auto|]. split; [|auto].
  unfold gatherQ in Hb.
  rewrite Forall_map in Hb.
  replace (nth a (map (fun i => nth (Z.to_nat i) fitness 0) t) 0)
    with (nth (Z.to_nat (nth a t 0%Z)) fitness 0) in Hb.
  - exact Hb.
  - rewrite (nth_map_default (fun i : Z => nth (Z.to_nat i) fitness 0) t a 0%Z 0) by auto. reflexivity.
Qed.

(* the winner is never one of the (tour-1) strictly worst: at least [tour] members are <= it *)
Definition count_le (fitness : list Q) (w : Z) : nat :=
  length (filter (fun j => Qle_bool (nth j fitness 0) (nth (Z.to_nat w) fitness 0)) (seq 0 (length fitness))).

Theorem tournament_not_worst fitness tour ds w ds' :
  valid_draws ds -> (0 < tour)%nat -> tournament_one fitness tour ds = Some (w, ds') ->
  (tour <= count_le fitness w)%nat.
Proof.
  intros Hv Ht H.
  destruct (tournament_one_spec _ _ _ _ _ Hv Ht H) as (t & Hl & Hnd & Hr & Hin & Hle & _).
  unfold count_le. rewrite <- Hl.
  rewrite <- (map_length Z.to_nat t).
  apply NoDup_incl_length.
  - (* NoDup (map Z.to_nat t) *)
    clear - Hnd Hr. induction t as [|x t IH]; simpl; constructor.
    + inversion Hnd; inversion Hr; subst. intro Hin. apply in_map_iff in Hin.
      destruct Hin as (y & Hy & Hyin). rewrite Forall_forall in H6. specialize (H6 y Hyin).
      assert (y = x) by lia. subst. contradiction.
    + inversion Hnd; inversion Hr; subst. auto.
  - intros j Hj. apply in_map_iff in Hj. destruct Hj as (z & Hz & Hzin). subst j.
    apply filter_In. rewrite Forall_forall in Hr, Hle. split.
    + apply in_seq. specialize (Hr z Hzin). lia.
    + apply Qle_bool_iff. apply Hle; auto.
Qed.

(* tour_size = population size  =>  the winner is a global maximum *)
Theorem tournament_full_is_global fitness ds w ds' :
  valid_draws ds -> (0 < length fitness)%nat ->
  tournament_one fitness (length fitness) ds = Some (w, ds') ->
  Forall (fun x => x <= nth (Z.to_nat w) fitness 0) fitness.
Proof.
  intros Hv Hn H.
  destruct (tournament_one_spec _ _ _ _ _ Hv Hn H) as (t & Hl & Hnd & Hr & Hin & Hle & _).
  assert (Hincl : incl (seq 0 (length fitness)) (map Z.to_nat t)).
  { apply NoDup_length_incl.
    - clear - Hnd Hr. induction t as [|x t IH]; simpl; constructor.
      + inversion Hnd; inversion Hr; subst. intro Hin. apply in_map_iff in Hin.
        destruct Hin as (y & Hy & Hyin). rewrite Forall_forall in H6. specialize (H6 y Hyin).
        assert (y = x) by lia. subst. contradiction.
      + inversion Hnd; inversion Hr; subst. auto.
    - rewrite map_length, seq_length. lia.
    - intros j Hj. apply in_map_iff in Hj. destruct Hj as (z & Hz & Hzin). subst.
      rewrite Forall_forall in Hr. specialize (Hr z Hzin). apply in_seq. lia. }
  apply Forall_forall. intros x Hx. destruct (In_nth _ _ 0 Hx) as (j & Hj & Hjx). subst x.
  assert (Hjin : In j (map Z.to_nat t)) by (apply Hincl, in_seq; lia).
  apply in_map_iff in Hjin. destruct Hjin as (z & Hz & Hzin). subst j.
  rewrite Forall_forall in Hle. apply Hle; auto.
Qed.

Theorem tournament_selection_spec fitness tour : forall quantity ds ws ds',
  valid_draws ds -> (0 < tour)%nat -> tournament_selection fitness tour quantity ds = Some (ws, ds') ->
  length ws = quantity /\
  Forall (fun w => (0 <= w < Z.of_nat (length fitness))%Z /\ (tour <= count_le fitness w)%nat) ws.
Proof.
  induction quantity as [|k IH]; intros ds ws ds' Hv Ht H; cbn [tournament_selection] in H.
  - inversion H; subst. split; auto.
  - unfold bind, ret in H.
    destruct (tournament_one fitness tour ds) as [[w ds1]|] eqn:E1; [|discriminate].
    destruct (tournament_selection fitness tour k ds1) as [[ws1 ds2]|] eqn:E2; [|discriminate].
    inversion H; subst; clear H.
    pose proof (tournament_not_worst _ _ _ _ _ Hv Ht E1) as Hnw.
    destruct (tournament_one_spec _ _ _ _ _ Hv Ht E1) as (t & _ & _ & Hr & Hin & _ & Hv1).
    destruct (IH _ _ _ Hv1 Ht E2) as (Hl & Hall).
    split; [simpl; lia|]. constructor; auto. split; auto.
    rewrite Forall_forall in Hr. apply Hr; auto.
Qed.

(* ------------------------------------------------------------------ weighted sample: count and range *)
Lemma rws_loop_spec w q replace : w <> [] -> forall ds acc r ds',
  (length acc <= q)%nat -> Forall (fun v => (0 <= v < Z.of_nat (length w))%Z) acc ->
  rws_loop w q replace acc ds = Some (r, ds') ->
  length r = q /\ Forall (fun v => (0 <= v < Z.of_nat (length w))%Z) r.
Proof.
  intros Hne. induction ds as [|d ds IH]; intros acc r ds' Hlen Hr H; cbn [rws_loop] in H.
  - destruct (q <=? length acc)%nat eqn:E; [|discriminate]. apply Nat.leb_le in E.
    inversion H; subst. split; auto; lia.
  - destruct (q <=? length acc)%nat eqn:E.
    + apply Nat.leb_le in E. inversion H; subst. split; auto; lia.
    + apply Nat.leb_gt in E. destruct d as [u|m v|x]; try discriminate.
      destruct (negb replace && memZ (Z.of_nat (weighted_pick w u)) acc).
      * apply (IH acc r ds'); auto.
      * apply (IH (acc ++ [Z.of_nat (weighted_pick w u)]) r ds'); auto.
        -- rewrite app_length; simpl; lia.
        -- apply Forall_app; split; auto. constructor; auto.
           assert (Hc : cumsum w <> []). { unfold cumsum. destruct w; [congruence|]. simpl. congruence. }
           destruct (bsi_spec (total w * u) (cumsum w) Hc) as (H0 & _).
           rewrite cumsum_length in H0. unfold weighted_pick. lia.
Qed.

Theorem weighted_selection_count_range w q ds r ds' : w <> [] ->
  random_weighted_sample w q true ds = Some (r, ds') ->
  length r = q /\ Forall (fun v => (0 <= v < Z.of_nat (length w))%Z) r.
Proof.
  intros Hne H. unfold random_weighted_sample in H.
  apply (rws_loop_spec w q true Hne ds [] r ds'); auto. simpl; lia.
Qed.
