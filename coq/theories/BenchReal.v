(* BenchReal.v — C20 (b), IDEALISED: exact rational arithmetic (Q), hand transcription of the
   formulas of the polynomial basic functions of _optproblems.py and of the shift wrapper.
   Not tied to the code by a translator; the floating-point implementation is compared with
   these facts only by the sampled checks of harness/props/c20.py (optimum / lower bound).

     wsq w x        = sum_i w_i * x_i^2          Sphere (w = 1), HighConditionedElliptic
                                                 (w_i = 10^(6 (i-1)/(D-1)) > 0, kept abstract)
     schwefel_1_2 x = sum_i (sum_{j<=i} x_j)^2   Schwefe1_2
     shifted f o b x = f (x - o) + b             TestShiftedFunction.__call__  (F1, F2)            *)
From TF Require Import Base.
Open Scope Q_scope.

Fixpoint wsq (w x : list Q) : Q :=
  match w, x with
  | wi :: w', xi :: x' => wi * (xi * xi) + wsq w' x'
  | _, _ => 0
  end.

Definition sphere (x : list Q) : Q := wsq (map (fun _ => 1) x) x.

Fixpoint prefix_sums (acc : Q) (x : list Q) : list Q :=
  match x with
  | [] => []
  | xi :: x' => (acc + xi) :: prefix_sums (acc + xi) x'
  end.
Definition schwefel_1_2 (x : list Q) : Q := sphere (prefix_sums 0 x).

Fixpoint vsub (x o : list Q) : list Q :=
  match x, o with
  | xi :: x', oi :: o' => (xi - oi) :: vsub x' o'
  | _, _ => []
  end.
Definition shifted (f : list Q -> Q) (o : list Q) (bias : Q) (x : list Q) : Q := f (vsub x o) + bias.

Definition all_zero (x : list Q) : Prop := Forall (fun a => a == 0) x.

Lemma sq_nonneg (a : Q) : 0 <= a * a.
Proof. nra. Qed.

Lemma wsq_nonneg : forall w x, Forall (fun a => 0 <= a) w -> 0 <= wsq w x.
Proof.
  induction w as [|wi w IH]; intros [|xi x] H; simpl; try apply Qle_refl.
  inversion H as [|? ? Hw Hr]; subst. specialize (IH x Hr).
  pose proof (sq_nonneg xi) as Hs.
  assert (0 <= wi * (xi * xi)) by (apply Qmult_le_0_compat; assumption).
  lra.
Qed.

Lemma wsq_zero_at_zero : forall w x, all_zero x -> wsq w x == 0.
Proof.
  induction w as [|wi w IH]; intros [|xi x] H; simpl; try reflexivity.
  inversion H as [|? ? Hx Hr]; subst. rewrite (IH x Hr), Hx. ring.
Qed.

Lemma wsq_zero_only : forall w x, Forall (fun a => 0 < a) w -> length w = length x ->
  wsq w x == 0 -> all_zero x.
Proof.
  induction w as [|wi w IH]; intros [|xi x] Hw Hl H; simpl in *; try discriminate; [constructor|].
  inversion Hw as [|? ? Hwi Hr]; subst.
  assert (Hnn : 0 <= wsq w x).
  { apply wsq_nonneg. eapply Forall_impl; [|exact Hr]. intros a Ha; simpl in Ha. lra. }
  pose proof (sq_nonneg xi) as Hs.
  assert (H1 : 0 <= wi * (xi * xi)) by (apply Qmult_le_0_compat; lra).
  assert (Hz : wi * (xi * xi) == 0) by lra.
  assert (Hr0 : wsq w x == 0) by lra.
  constructor.
  - apply Qmult_integral in Hz as [Hz|Hz]; [lra|].
    apply Qmult_integral in Hz as [Hz|Hz]; assumption.
  - apply IH; auto.
Qed.

Lemma ones_pos (x : list Q) : Forall (fun a => 0 < a) (map (fun _ => 1) x).
Proof. induction x; simpl; constructor; auto. reflexivity. Qed.
Lemma ones_nonneg (x : list Q) : Forall (fun a => 0 <= a) (map (fun _ => 1) x).
Proof. induction x; simpl; constructor; auto. discriminate. Qed.

Theorem sphere_nonneg x : 0 <= sphere x.
Proof. apply wsq_nonneg, ones_nonneg. Qed.
Theorem sphere_zero_iff x : sphere x == 0 <-> all_zero x.
Proof.
  split.
  - apply wsq_zero_only; [apply ones_pos|apply map_length].
  - apply wsq_zero_at_zero.
Qed.

Theorem schwefel_1_2_nonneg x : 0 <= schwefel_1_2 x.
Proof. apply sphere_nonneg. Qed.

Lemma prefix_sums_zero : forall x acc, acc == 0 -> all_zero x -> all_zero (prefix_sums acc x).
Proof.
  induction x as [|xi x IH]; intros acc Ha H; simpl; [constructor|].
  inversion H as [|? ? Hx Hr]; subst.
  assert (acc + xi == 0) by (rewrite Ha, Hx; reflexivity).
  constructor; [assumption|apply IH; assumption].
Qed.
Theorem schwefel_1_2_zero_at_zero x : all_zero x -> schwefel_1_2 x == 0.
Proof. intro H. apply sphere_zero_iff. apply prefix_sums_zero; [reflexivity|assumption]. Qed.

Lemma prefix_sums_zero_only : forall x acc, acc == 0 -> all_zero (prefix_sums acc x) -> all_zero x.
Proof.
  induction x as [|xi x IH]; intros acc Ha H; simpl in *; [constructor|].
  inversion H as [|? ? Hx Hr]; subst.
  constructor; [lra|]. apply (IH (acc + xi)); assumption.
Qed.
Theorem schwefel_1_2_zero_iff x : schwefel_1_2 x == 0 <-> all_zero x.
Proof.
  split; [|apply schwefel_1_2_zero_at_zero].
  intro H. apply sphere_zero_iff in H. apply (prefix_sums_zero_only x 0); [reflexivity|assumption].
Qed.

(* shift wrapper *)
Lemma vsub_self : forall o, all_zero (vsub o o).
Proof. induction o as [|a o IH]; simpl; constructor; [ring|assumption]. Qed.

Lemma vsub_zero_only : forall x o, length x = length o -> all_zero (vsub x o) ->
  Forall2 (fun a b => a == b) x o.
Proof.
  induction x as [|xi x IH]; intros [|oi o] Hl H; simpl in *; try discriminate; constructor.
  - inversion H; subst. lra.
  - inversion H; subst. apply IH; auto.
Qed.

Section Shifted.
  Variable f : list Q -> Q.
  Hypothesis f_nonneg : forall z, 0 <= f z.
  Hypothesis f_zero : forall z, all_zero z -> f z == 0.

  Theorem shifted_lower_bound o bias x : bias <= shifted f o bias x.
  Proof. unfold shifted. pose proof (f_nonneg (vsub x o)). lra. Qed.

  Theorem shifted_optimum o bias : shifted f o bias o == bias.
  Proof. unfold shifted. rewrite (f_zero _ (vsub_self o)). ring. Qed.
End Shifted.

(* instances: F1 (ShiftedSphere), F2 (ShiftedSchwefe1_2), and the elliptic base with any
   positive weights *)
Theorem F1_ideal o bias x : bias <= shifted sphere o bias x /\ shifted sphere o bias o == bias.
Proof.
  split; [apply shifted_lower_bound, sphere_nonneg|].
  apply shifted_optimum. intros z Hz. apply sphere_zero_iff; assumption.
Qed.

Theorem F1_ideal_unique o bias x : length x = length o ->
  shifted sphere o bias x == bias -> Forall2 (fun a b => a == b) x o.
Proof.
  intros Hl H. unfold shifted in H. apply vsub_zero_only; [assumption|].
  apply sphere_zero_iff. lra.
Qed.

Theorem F2_ideal o bias x : bias <= shifted schwefel_1_2 o bias x /\ shifted schwefel_1_2 o bias o == bias.
Proof.
  split; [apply shifted_lower_bound, schwefel_1_2_nonneg|].
  apply shifted_optimum, schwefel_1_2_zero_at_zero.
Qed.

Theorem elliptic_ideal w x : Forall (fun a => 0 < a) w -> length w = length x ->
  0 <= wsq w x /\ (wsq w x == 0 <-> all_zero x).
Proof.
  intros Hw Hl. split; [|split; [apply wsq_zero_only; assumption|apply wsq_zero_at_zero]].
  apply wsq_nonneg. eapply Forall_impl; [|exact Hw]. intros a Ha; simpl in Ha. lra.
Qed.
