(* C07Check.v — case checkers for the DE operators. *)
From TF Require Import Base RandomPrims DEOps C11Check.
Open Scope Q_scope.

(* |a - b| <= 2^-30 (1 + |a|) *)
Definition Qclose_rel (a b : Q) : bool := Qle_bool (Qabs (a - b)) ((1 # 1073741824) * (1 + Qabs a)).
Definition vclose (a b : vec) : bool :=
  (length a =? length b)%nat && forallb (fun p => Qclose_rel (fst p) (snd p)) (combine a b).
Definition chk_vec_exact (r : option (vec * list draw)) (out : vec) : bool := chk_done Qlist_eqb r out.
Definition chk_vec_close (r : option (vec * list draw)) (out : vec) : bool := chk_done vclose r out.

Definition chk_clamp (c : vec * vec * vec * vec) : bool :=
  let '(a, l, r, out) := c in Qlist_eqb (bounds_control a l r) out.
Definition chk_mean (c : vec * vec * vec * vec * vec) : bool :=
  let '(a, p, l, r, out) := c in Qlist_eqb (bounds_control_mean a p l r) out.
Definition chk_binomial_q (c : vec * vec * Q * list draw * vec) : bool :=
  let '(x, m, cr, ds, out) := c in chk_vec_exact (binomial x m cr ds) out.
Definition chk_mutation (c : nat * vec * vec * list vec * Q * list draw * vec) : bool :=
  let '(code, cur, best, pop, F, ds, out) := c in chk_vec_close (de_mutation code cur best pop F ds) out.
Definition chk_de_new (c : nat * vec * vec * list vec * Q * Q * vec * vec * list draw * vec) : bool :=
  let '(code, cur, best, pop, F, CR, l, r, ds, out) := c in
  chk_vec_close (de_new_individ code cur best pop F CR l r ds) out.
Definition chk_shade_new (c : vec * list vec * list Z * Q * Q * list vec * vec * vec * list draw * vec) : bool :=
  let '(cur, pop, pbest, F, CR, arch, l, r, ds, out) := c in
  chk_vec_close (shade_new_individ cur pop pbest F CR arch l r ds) out.
