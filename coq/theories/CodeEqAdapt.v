(* CodeEqAdapt.v — the adaptive control-parameter code of SHADE / SHAGA / jDE (plain Python functions and methods of
   optimizers/_shade.py, _shaga.py, _jde.py), translated on every run (gen/GenCode.v: py_lehmer_mean_.., py_SHADE_..,
   py_SHAGA_.., py_jDE_..), is EQUAL to the hand-written models of Adapt.v.  Rational results that the source and the
   model compute by different but equivalent arithmetic (1 * x^2 against x * x, fold_left against fold_right) are
   related by ==, everything else by =. *)
From TF Require Import Py PyLemmas RandomPrimsProofs2 Adapt AdaptProofs CodeEqC07 CodeEqC11 CodeEqC15.
From TFG Require Import GenCode.
From Coq Require Import Qfield.
Open Scope Q_scope.

(* ---------- sums ---------- *)
Lemma fold_left_Qplus_acc (l : list Q) (a : Q) : fold_left Qplus l a == a + qsum l.
Proof.
  revert a; induction l as [|x l IH]; intro a; cbn [fold_left qsum].
  - ring.
  - rewrite IH. ring.
Qed.
Lemma sumQ_qsum l : sumQ l == qsum l.
Proof. unfold sumQ. rewrite fold_left_Qplus_acc. ring. Qed.

Lemma qsum_ext (f g : Q * Q -> Q) (l : list (Q * Q)) : (forall p, f p == g p) -> qsum (map f l) == qsum (map g l).
Proof. intro H; induction l as [|p l IH]; cbn [map qsum]; [reflexivity|]. rewrite H, IH. reflexivity. Qed.

Lemma combine_map_r {A B C} (g : B -> C) (a : list A) (b : list B) :
  combine a (map g b) = map (fun p => (fst p, g (snd p))) (combine a b).
Proof. revert b; induction a as [|x a IH]; intros [|y b]; cbn; [reflexivity..|]. now rewrite IH. Qed.
Lemma combine_map_l {A B C} (g : A -> C) (a : list A) (b : list B) :
  combine (map g a) b = map (fun p => (g (fst p), snd p)) (combine a b).
Proof. revert b; induction a as [|x a IH]; intros [|y b]; cbn; [reflexivity..|]. now rewrite IH. Qed.

Lemma Qpower_2 x : Qpower x 2 == x * x.
Proof. reflexivity. Qed.
Lemma Qpower_1 x : Qpower x 1 == x.
Proof. reflexivity. Qed.

(* sum(w * x**2) and sum(w * x**1) *)
Lemma sum_up w x : sumQ (vmulv w (vpow x 2)) == wsum w (sq x).
Proof.
  rewrite sumQ_qsum. unfold vmulv, vmap2, wsum, vpow, sq. rewrite !combine_map_r, !map_map. apply qsum_ext. intros [a b]. cbn [fst snd]. reflexivity.
Qed.
Lemma sum_down w x : sumQ (vmulv w (vpow x 1)) == wsum w x.
Proof.
  rewrite sumQ_qsum. unfold vmulv, vmap2, wsum, vpow. rewrite !combine_map_r, !map_map. apply qsum_ext. intros [a b]. cbn [fst snd]. reflexivity.
Qed.

Lemma Qeq_bool_compat a b c : a == b -> Qeq_bool a c = Qeq_bool b c.
Proof.
  intro H. destruct (Qeq_bool b c) eqn:E.
  - apply Qeq_bool_iff. apply Qeq_bool_iff in E. now rewrite H.
  - destruct (Qeq_bool a c) eqn:E2; [|reflexivity]. apply Qeq_bool_iff in E2. rewrite H in E2. apply Qeq_bool_iff in E2. congruence.
Qed.

(* lehmer_mean(x, weight=w) *)
Theorem code_lehmer_weighted x w : py_lehmer_mean_weighted x w == lehmer w x.
Proof.
  unfold py_lehmer_mean_weighted, lehmer. cbv zeta. unfold ZtoQ. change (inject_Z 0) with 0.
  rewrite (Qeq_bool_compat _ _ 0 (sum_down w x)).
  destruct (Qeq_bool (wsum w x) 0); [reflexivity|].
  rewrite sum_up, sum_down. reflexivity.
Qed.

Lemma wsum_ones_gen : forall (x : list Q) n, (length x <= n)%nat -> wsum (ones n) x == qsum x.
Proof.
  induction x as [|a x IH]; intros n Hn.
  - unfold wsum. destruct n; reflexivity.
  - destruct n as [|n]; [cbn in Hn; lia|]. unfold wsum, ones in *. cbn [repeat combine map qsum fst snd].
    rewrite IH by (cbn in Hn; lia). ring.
Qed.
Lemma sq_length x : length (sq x) = length x. Proof. unfold sq. apply map_length. Qed.

Lemma ones_down x : sumQ (smul 1 (vpow x 1)) == wsum (ones (length x)) x.
Proof.
  rewrite wsum_ones_gen by lia. rewrite sumQ_qsum. unfold smul, vpow. rewrite map_map.
  induction x as [|a x IH]; cbn [map qsum]; [reflexivity|]. rewrite IH. change (Qpower a 1) with a. ring.
Qed.
Lemma ones_up x : sumQ (smul 1 (vpow x 2)) == wsum (ones (length x)) (sq x).
Proof.
  rewrite wsum_ones_gen by (rewrite sq_length; lia). rewrite sumQ_qsum. unfold smul, vpow, sq. rewrite map_map.
  induction x as [|a x IH]; cbn [map qsum]; [reflexivity|]. rewrite IH. change (Qpower a 2) with (a * a). ring.
Qed.
(* lehmer_mean(x): weight 1 *)
Theorem code_lehmer_unweighted x : py_lehmer_mean_unweighted x == lehmer (ones (length x)) x.
Proof.
  unfold py_lehmer_mean_unweighted, lehmer. cbv zeta. unfold ZtoQ. change (inject_Z 0) with 0. change (inject_Z 1) with 1.
  pose proof (ones_down x) as Hd. pose proof (ones_up x) as Hu.
  rewrite (Qeq_bool_compat _ _ 0 Hd).
  destruct (Qeq_bool (wsum (ones (length x)) x) 0); [reflexivity|].
  rewrite Hu, Hd. reflexivity.
Qed.

Lemma zlen_zero_nil {A} (l : list A) : (zlen l =? 0)%Z = match l with [] => true | _ => false end.
Proof. destruct l; reflexivity. Qed.

(* SHADE._update_u_F *)
Theorem code_SHADE_update_u_F u S : py_SHADE_update_u_F u S == shade_update_F u S.
Proof.
  unfold py_SHADE_update_u_F, shade_update_F. rewrite zlen_zero_nil. destruct S as [|a S]; [reflexivity|].
  cbn [negb]. apply code_lehmer_unweighted.
Qed.

Lemma Qltb_compat a b c : b == c -> Qltb a b = Qltb a c.
Proof.
  intro H. unfold Qltb. f_equal. destruct (Qle_bool c a) eqn:E.
  - apply Qle_bool_iff. apply Qle_bool_iff in E. now rewrite H.
  - destruct (Qle_bool b a) eqn:E2; [|reflexivity]. apply Qle_bool_iff in E2. rewrite H in E2. apply Qle_bool_iff in E2. congruence.
Qed.

Lemma weights_vdivs df : Forall2 Qeq (vdivs df (sumQ df)) (weights df).
Proof.
  unfold vdivs, weights. pose proof (sumQ_qsum df) as H. revert H. generalize (sumQ df), (qsum df). intros s t Hst.
  induction df as [|d df IH]; cbn [map]; constructor; [|exact IH]. now rewrite Hst.
Qed.
Lemma wsum_compat_l : forall w w' x, Forall2 Qeq w w' -> wsum w x == wsum w' x.
Proof.
  intros w w' x H; revert x; induction H as [|a b w w' Hab _ IH]; intro x; [reflexivity|].
  destruct x as [|c x]; [reflexivity|]. unfold wsum in *. cbn [combine map qsum fst snd]. rewrite Hab, IH. reflexivity.
Qed.
Lemma sum_weighted w x : sumQ (vmulv w x) == wsum w x.
Proof. rewrite sumQ_qsum. unfold vmulv, vmap2, wsum. reflexivity. Qed.

(* SHADE._update_u_CR *)
Theorem code_SHADE_update_u_CR u S df : py_SHADE_update_u_CR u S df == shade_update_CR u S df.
Proof.
  unfold py_SHADE_update_u_CR, shade_update_CR. rewrite zlen_zero_nil. destruct S as [|a S]; [reflexivity|].
  cbn [negb]. cbv zeta. unfold ZtoQ. change (inject_Z 0) with 0.
  rewrite (Qltb_compat 0 _ _ (sumQ_qsum df)). destruct (Qltb 0 (qsum df)); [|reflexivity].
  rewrite sum_weighted. apply wsum_compat_l. apply weights_vdivs.
Qed.

Lemma lehmer_compat_l w w' x : Forall2 Qeq w w' -> lehmer w x == lehmer w' x.
Proof.
  intro H. unfold lehmer. rewrite (Qeq_bool_compat _ _ 0 (wsum_compat_l w w' x H)).
  destruct (Qeq_bool (wsum w' x) 0); [reflexivity|].
  rewrite (wsum_compat_l w w' x H), (wsum_compat_l w w' (sq x) H). reflexivity.
Qed.

(* SHAGA._update_u *)
Theorem code_SHAGA_update_u u S df : py_SHAGA_update_u u S df == shaga_update u S df.
Proof.
  unfold py_SHAGA_update_u, shaga_update. rewrite zlen_zero_nil. destruct S as [|a S]; [reflexivity|].
  cbn [negb]. cbv zeta. unfold ZtoQ. change (inject_Z 0) with 0.
  rewrite (Qltb_compat 0 _ _ (sumQ_qsum df)). destruct (Qltb 0 (qsum df)); [|reflexivity].
  rewrite code_lehmer_weighted. apply lehmer_compat_l. apply weights_vdivs.
Qed.

(* ---------- samplers ---------- *)
Open Scope Z_scope.

(* SHAGA._randn: one value, clamped to [0, 1] *)
Theorem code_SHAGA_randn u scale ds : py_SHAGA_randn u scale ds = randn01 ds.
Proof.
  unfold py_SHAGA_randn, randn01. cbv zeta. rewrite !bind_app, popXs_one, bind_app.
  destruct (popX ds) as [[v ds1]|]; [|reflexivity]. rewrite ret_app, getQ_0. cbn [nth].
  unfold clamp01, ZtoQ. change (inject_Z 0) with 0%Q. change (inject_Z 1) with 1%Q.
  destruct (Qltb v 0); [reflexivity|]. destruct (Qltb 1 v); reflexivity.
Qed.

(* SHAGA._randc: redraw while value <= 0 or value > 5 / str_len *)
Fixpoint redraw_hi (hi : Q) (v : Q) (ds : list draw) : option (Q * list draw) :=
  if Qle_bool v 0 || Qltb hi v then match ds with DX v' :: r => redraw_hi hi v' r | _ => None end else Some (v, ds).

Lemma randc_hi_redraw hi v r : randc_hi hi (DX v :: r) = redraw_hi hi v r.
Proof.
  revert v; induction r as [|d r IH]; intro v; cbn [randc_hi redraw_hi].
  - destruct (Qle_bool v 0 || Qltb hi v); reflexivity.
  - destruct (Qle_bool v 0 || Qltb hi v); [|reflexivity].
    destruct d as [u|m w|x]; try reflexivity. apply IH.
Qed.

Lemma while_redraw_hi hi : forall ds v,
  while_f (length ds) (fun value_ => Qle_bool value_ (ZtoQ 0) || Qltb hi value_)
    (fun _ => bind (Py.popXs 1) (fun r_2 => ret (getQ r_2 0))) v ds = redraw_hi hi v ds.
Proof.
  induction ds as [|d r IH]; intro v; cbn [length while_f redraw_hi]; unfold ZtoQ; change (inject_Z 0) with 0%Q.
  - destruct (Qle_bool v 0 || Qltb hi v); reflexivity.
  - destruct (Qle_bool v 0 || Qltb hi v); [|reflexivity].
    rewrite bind_app, bind_app, popXs_one, bind_app.
    destruct d as [u|m w|x]; try reflexivity. cbn [popX]. rewrite !ret_app, getQ_0. cbn [nth]. apply IH.
Qed.

Theorem code_SHAGA_randc str_len u scale ds : py_SHAGA_randc str_len u scale ds = randc_hi (ZtoQ 5 / ZtoQ str_len)%Q ds.
Proof.
  unfold py_SHAGA_randc. cbv zeta. rewrite bind_app, popXs_one, bind_app.
  destruct ds as [|[w|m w|v] r]; try reflexivity. cbn [popX]. rewrite ret_app, getQ_0. cbn [nth].
  rewrite bind_app. unfold while_ds. cbn [Nat.add].
  rewrite randc_hi_redraw.
  pose proof (while_redraw_hi (ZtoQ 5 / ZtoQ str_len)%Q r v) as H. cbv zeta in H.
  match goal with |- match ?X with _ => _ end = _ => replace X with (redraw_hi (ZtoQ 5 / ZtoQ str_len)%Q v r) end.
  destruct (redraw_hi _ v r) as [[w r']|]; [|reflexivity]. now rewrite ret_app.
Qed.

(* ---------- one pair of parameters per individual ---------- *)
Section Generate.
  Variables (fa fb : Q -> M Q) (first : list draw -> option (Q * list draw)).
  Hypothesis Hfa : forall u ds, fa u ds = first ds.
  Hypothesis Hfb : forall u ds, fb u ds = randn01 ds.
  Variables (H : Z) (HA HB : list Q).

  Definition gen_body (i : Z) (st : list Q * list Q) : M (list Q * list Q) :=
    let '(A_i, B_i) := st in
    bind (py_randint 0 H 1) (fun r_1 =>
      let r_i := getZ r_1 0 in
      let u_A := getQ HA r_i in
      let u_B := getQ HB r_i in
      bind (fa u_A) (fun r_2 =>
        let A_i := setA A_i i r_2 in
        bind (fb u_B) (fun r_3 =>
          let B_i := setA B_i i r_3 in
          ret (A_i, B_i)))).

  Lemma setA_app_mid (d : list Q) x zs a : setA (d ++ x :: zs) (zlen d) a = (d ++ [a]) ++ zs.
  Proof. unfold zlen. rewrite setA_nat, upd_app_r. cbn [upd]. now rewrite <- app_assoc. Qed.

  Lemma gen_loop : forall k dA dB ds, length dA = length dB ->
    for_nat k (zlen dA) gen_body (dA ++ repeat 0%Q k, dB ++ repeat 0%Q k) ds
    = bind (gen_pairs first k H) (fun l => ret (dA ++ map (fun t => snd (fst t)) l, dB ++ map snd l)) ds.
  Proof.
    induction k as [|k IH]; intros dA dB ds Hl.
    - cbn [for_nat gen_pairs repeat map]. rewrite bind_app, !ret_app. reflexivity.
    - cbn [for_nat gen_pairs repeat]. rewrite !bind_app. unfold gen_body at 1. cbv zeta. rewrite bind_app.
      change 1 with (Z.of_nat 1). rewrite code_randint.
      destruct (randint 0 H 1 ds) as [[r ds1]|]; [|reflexivity].
      rewrite !bind_app, Hfa. destruct (first ds1) as [[a ds2]|]; [|reflexivity].
      rewrite !bind_app, Hfb. destruct (randn01 ds2) as [[b ds3]|]; [|reflexivity].
      rewrite ret_app. rewrite (setA_app_mid dA).
      replace (zlen dA) with (zlen dB) at 2 by (unfold zlen; now rewrite Hl). rewrite (setA_app_mid dB).
      replace (zlen dA + Z.of_nat 1) with (zlen (dA ++ [a])) by (unfold zlen; rewrite app_length; cbn [length]; lia).
      rewrite IH by (rewrite !app_length; cbn [length]; lia).
      rewrite !bind_app. destruct (gen_pairs first k H ds3) as [[l ds4]|]; [|reflexivity].
      rewrite !ret_app. cbn [map fst snd]. now rewrite <- !app_assoc.
  Qed.
End Generate.

Definition pairs_out (l : list (Z * Q * Q)) : list Q * list Q := (map (fun t => snd (fst t)) l, map snd l).

(* SHADE._generate_F_CR *)
Theorem code_SHADE_generate_F_CR (pop : nat) H HF HCR ds :
  py_SHADE_generate_F_CR (Z.of_nat pop) H HF HCR ds = bind (shade_generate pop H) (fun l => ret (pairs_out l)) ds.
Proof.
  unfold py_SHADE_generate_F_CR, shade_generate. cbv zeta. rewrite bind_app. unfold for_range.
  replace (Z.to_nat (Z.of_nat pop - 0)) with pop by lia.
  unfold zerosQ. rewrite Nat2Z.id.
  pose proof (gen_loop py_randc01 py_randn01 randc01 code_randc01 code_randn01 H HF HCR pop [] [] ds eq_refl) as G.
  cbn [app] in G. change (zlen (@nil Q)) with 0 in G. unfold gen_body in G.
  match goal with |- match ?X with _ => _ end = _ => replace X with
    (bind (gen_pairs randc01 pop H) (fun l => ret (map (fun t => snd (fst t)) l, map snd l)) ds) end.
  rewrite !bind_app. destruct (gen_pairs randc01 pop H ds) as [[l ds']|]; [|reflexivity]. rewrite !ret_app. reflexivity.
Qed.

(* SHAGA._generate_MR_CR: MR from the truncated Cauchy sampler with bound 5 / str_len *)
Theorem code_SHAGA_generate_MR_CR (pop : nat) H HMR HCR str_len ds :
  py_SHAGA_generate_MR_CR (Z.of_nat pop) H HMR HCR str_len ds
  = bind (shaga_generate (ZtoQ 5 / ZtoQ str_len)%Q pop H) (fun l => ret (pairs_out l)) ds.
Proof.
  unfold py_SHAGA_generate_MR_CR, shaga_generate. cbv zeta. rewrite bind_app. unfold for_range.
  replace (Z.to_nat (Z.of_nat pop - 0)) with pop by lia.
  unfold zerosQ. rewrite Nat2Z.id.
  pose proof (gen_loop (fun u => py_SHAGA_randc str_len u ((1 # 10) / ZtoQ str_len)%Q) (fun u => py_SHAGA_randn u (1 # 10)%Q)
               (randc_hi (ZtoQ 5 / ZtoQ str_len)%Q) (fun u ds => code_SHAGA_randc str_len u _ ds) (fun u ds => code_SHAGA_randn u _ ds)
               H HMR HCR pop [] [] ds eq_refl) as G.
  cbn [app] in G. change (zlen (@nil Q)) with 0 in G. unfold gen_body in G.
  match goal with |- match ?X with _ => _ end = _ => replace X with
    (bind (gen_pairs (randc_hi (ZtoQ 5 / ZtoQ str_len)%Q) pop H) (fun l => ret (map (fun t => snd (fst t)) l, map snd l)) ds) end.
  rewrite !bind_app. destruct (gen_pairs _ pop H ds) as [[l ds']|]; [|reflexivity]. rewrite !ret_app. reflexivity.
Qed.

(* ---------- jDE: regeneration of F and CR ---------- *)
Lemma popXs_nat_model n : popXs_nat n = Adapt.popXs n.
Proof. induction n as [|n IH]; cbn [popXs_nat Adapt.popXs]; [reflexivity|]. now rewrite IH. Qed.

Lemma py_uniform_popXs lo hi (n : nat) ds : py_uniform lo hi (Z.of_nat n) ds = Adapt.popXs n ds.
Proof.
  unfold py_uniform, Py.popXs. rewrite Nat2Z.id, popXs_nat_model, bind_app.
  destruct (Adapt.popXs n ds) as [[v ds']|]; reflexivity.
Qed.

Lemma mask_scatter_scatter (g : Q -> Q) : forall mask old vs, mask_scatter mask old (map g vs) = scatter g mask old vs.
Proof.
  induction mask as [|m mask IH]; intros old vs; [destruct old; reflexivity|].
  destruct old as [|o old]; [destruct m; reflexivity|].
  destruct m; cbn [mask_scatter scatter].
  - destruct vs as [|v vs]; cbn [map]; [reflexivity|]. now rewrite IH.
  - now rewrite IH.
Qed.

Lemma countB_filter mask : countB mask = Z.of_nat (length (filter (fun b : bool => b) mask)).
Proof. reflexivity. Qed.

Section JDE.
  Variables (old : list Q) (t : Q).
  Lemma jde_shape (g : Q -> Q) (post : list Q -> list Q) ds : (forall vs, post vs = map g vs) ->
    bind (py_uniform (0 # 1) (1 # 1) (zlen old)) (fun r_1 =>
      let mask := ltmaskQ r_1 t in
      bind (py_uniform (0 # 1) (1 # 1) (countB mask)) (fun r_2 =>
        let random_values := r_2 in
        let out := mask_scatter mask old (post random_values) in
        ret out)) ds
    = jde_mutate g t old ds.
  Proof.
    intro Hpost. unfold jde_mutate. cbv zeta. rewrite !bind_app. unfold zlen at 1. rewrite py_uniform_popXs.
    destruct (Adapt.popXs (length old) ds) as [[us ds1]|]; [|reflexivity].
    rewrite !bind_app, countB_filter, py_uniform_popXs. unfold ltmaskQ.
    destruct (Adapt.popXs _ ds1) as [[vs ds2]|]; [|reflexivity].
    rewrite !ret_app, Hpost, mask_scatter_scatter. reflexivity.
  Qed.
End JDE.

(* jDE._get_mutate_F: F_min + value * F_max where the uniform mask value is below t_F (the product is computed as F_max * value
   by numpy broadcasting of the scalar: the same rational) *)
Theorem code_jDE_get_mutate_F F tF Fmin Fmax ds :
  py_jDE_get_mutate_F F (zlen F) tF Fmin Fmax ds = jde_mutate (fun r => Fmin + Fmax * r)%Q tF F ds.
Proof.
  unfold py_jDE_get_mutate_F. cbv zeta.
  apply (jde_shape F tF (fun r => Fmin + Fmax * r)%Q (fun vs => sadd Fmin (smul Fmax vs)) ds).
  intro vs. unfold sadd, smul. now rewrite map_map.
Qed.

Theorem code_jDE_get_mutate_CR CR tCR ds :
  py_jDE_get_mutate_CR CR (zlen CR) tCR ds = jde_mutate_CR tCR CR ds.
Proof.
  unfold py_jDE_get_mutate_CR, jde_mutate_CR. cbv zeta.
  apply (jde_shape CR tCR (fun r => r) (fun vs => vs) ds).
  intro vs. now rewrite map_id.
Qed.

(* ---------- what the source's own definitions guarantee (C15) ---------- *)
Open Scope Q_scope.

Theorem src_SHADE_update_u_F_range u S : 0 < u /\ u <= 1 -> Forall (fun a => 0 < a /\ a <= 1) S ->
  0 < py_SHADE_update_u_F u S /\ py_SHADE_update_u_F u S <= 1.
Proof. intros Hu HS. rewrite code_SHADE_update_u_F. now apply shade_update_F_range. Qed.

Theorem src_SHADE_update_u_CR_range u S df : 0 <= u /\ u <= 1 -> Forall (fun a => 0 <= a /\ a <= 1) S ->
  Forall (fun d => 0 <= d) df -> length df = length S ->
  0 <= py_SHADE_update_u_CR u S df /\ py_SHADE_update_u_CR u S df <= 1.
Proof. intros. rewrite code_SHADE_update_u_CR. now apply shade_update_CR_range. Qed.

Theorem src_SHAGA_update_u_range_MR hi u S df : 0 < u /\ u <= hi ->
  (exists lo, 0 < lo /\ Forall (fun a => lo <= a /\ a <= hi) S) ->
  Forall (fun d => 0 <= d) df -> length df = length S ->
  0 < py_SHAGA_update_u u S df /\ py_SHAGA_update_u u S df <= hi.
Proof. intros. rewrite code_SHAGA_update_u. now apply shaga_update_range_MR. Qed.

Theorem src_SHAGA_update_u_range_CR u S df : 0 <= u /\ u <= 1 -> Forall (fun a => 0 <= a /\ a <= 1) S ->
  Forall (fun d => 0 <= d) df -> length df = length S ->
  0 <= py_SHAGA_update_u u S df /\ py_SHAGA_update_u u S df <= 1.
Proof. intros. rewrite code_SHAGA_update_u. now apply shaga_update_range_CR. Qed.

(* no success: the next memory cell is a copy of the current one, in the source's own functions *)
Theorem src_no_success_copy u df : py_SHADE_update_u_F u [] = u /\ py_SHADE_update_u_CR u [] df = u /\ py_SHAGA_update_u u [] df = u.
Proof. repeat split; reflexivity. Qed.

(* lehmer_mean never divides by zero: a zero denominator yields 0 (the repaired guard) *)
Theorem src_lehmer_zero_denominator x w : sumQ (vmulv w (vpow x 1)) == 0 -> py_lehmer_mean_weighted x w = 0.
Proof.
  intro Hz. unfold py_lehmer_mean_weighted. cbv zeta. unfold ZtoQ. change (inject_Z 0) with 0.
  apply Qeq_bool_iff in Hz. now rewrite Hz.
Qed.

(* SHADE._generate_F_CR / SHAGA._generate_MR_CR: one pair per individual, every value in its range *)
Theorem src_SHADE_generate_ranges (pop : nat) H HF HCR ds Fs CRs ds' : (0 < H)%Z -> valid_draws ds ->
  py_SHADE_generate_F_CR (Z.of_nat pop) H HF HCR ds = Some ((Fs, CRs), ds') ->
  length Fs = pop /\ length CRs = pop /\ Forall (fun a => 0 < a /\ a <= 1) Fs /\ Forall (fun a => 0 <= a /\ a <= 1) CRs.
Proof.
  intros HH Hv. rewrite code_SHADE_generate_F_CR, bind_app.
  destruct (shade_generate pop H ds) as [[l ds1]|] eqn:E; [|discriminate].
  rewrite ret_app. intro X. inversion X; subst. clear X.
  destruct (shade_ranges pop H ds l _ HH Hv E) as [Hlen Hok].
  rewrite !map_length. repeat split; try exact Hlen.
  - apply Forall_map. eapply Forall_impl; [|exact Hok]. intros t Ht. apply Ht.
  - apply Forall_map. eapply Forall_impl; [|exact Hok]. intros t Ht. apply Ht.
Qed.

Theorem src_SHAGA_generate_ranges (pop : nat) H HMR HCR str_len ds MRs CRs ds' : (0 < H)%Z -> valid_draws ds ->
  py_SHAGA_generate_MR_CR (Z.of_nat pop) H HMR HCR str_len ds = Some ((MRs, CRs), ds') ->
  length MRs = pop /\ length CRs = pop /\ Forall (fun a => 0 < a /\ a <= ZtoQ 5 / ZtoQ str_len) MRs /\ Forall (fun a => 0 <= a /\ a <= 1) CRs.
Proof.
  intros HH Hv. rewrite code_SHAGA_generate_MR_CR, bind_app.
  destruct (shaga_generate _ pop H ds) as [[l ds1]|] eqn:E; [|discriminate].
  rewrite ret_app. intro X. inversion X; subst. clear X.
  destruct (shaga_ranges _ pop H ds l _ HH Hv E) as [Hlen Hok].
  rewrite !map_length. repeat split; try exact Hlen.
  - apply Forall_map. eapply Forall_impl; [|exact Hok]. intros t Ht. apply Ht.
  - apply Forall_map. eapply Forall_impl; [|exact Hok]. intros t Ht. apply Ht.
Qed.

(* ---------- SHADE's archive: _append_archive and the row shuffle it uses ---------- *)
Open Scope Z_scope.
Lemma getR_nonneg' {A} (l : list (list A)) i : 0 <= i -> getR l i = nth (Z.to_nat i) l [].
Proof. intro H. unfold getR. now rewrite pyidx_nonneg. Qed.

Lemma for_down_sattolo_rows : forall (i : nat) (arr : list (list Q)) ds, valid_draws ds ->
  for_down_nat i (Z.of_nat i) (fun i0 shuffled_arr =>
      bind popU (fun r_1 =>
        let j := Qfloor' (r_1 * ZtoQ i0)%Q in
        let v_2 := getR shuffled_arr j in
        let v_3 := getR shuffled_arr i0 in
        let shuffled_arr := setA shuffled_arr i0 v_2 in
        let shuffled_arr := setA shuffled_arr j v_3 in
        ret shuffled_arr)) arr ds
  = sattolo_loop [] i arr ds.
Proof.
  induction i as [|i IH]; intros arr ds Hv; [reflexivity|].
  cbn [for_down_nat sattolo_loop]. unfold bind at 1. unfold bind at 1. unfold bind at 2. unfold popU.
  destruct ds as [|[u|m v|x] ds]; try reflexivity.
  inversion Hv as [|? ? Hd Hv']; subst. cbn in Hd. destruct Hd as [Hu0 Hu1].
  cbv zeta. unfold ret at 1.
  assert (Hj : 0 <= Qfloor' (u * ZtoQ (Z.of_nat (Datatypes.S i)))).
  { unfold ZtoQ. apply (Qfloor'_bounds u (Z.of_nat (Datatypes.S i)) Hu0 Hu1). lia. }
  rewrite (getR_nonneg' _ _ Hj), getR_nat, setA_nat, (setA_nonneg _ _ _ Hj).
  replace (Z.of_nat (Datatypes.S i) - 1) with (Z.of_nat i) by lia.
  rewrite IH by exact Hv'. unfold swap, ZtoQ. reflexivity.
Qed.

Theorem code_sattolo_shuffle_2d (arr : list (list Q)) ds : valid_draws ds ->
  py_sattolo_shuffle_2d arr ds = sattolo [] arr ds.
Proof.
  intro Hv. unfold py_sattolo_shuffle_2d, sattolo. cbv zeta. unfold bind at 1. unfold for_down.
  assert (Hn : zlen arr - 1 - 0 = Z.of_nat (length arr - 1) /\ zlen arr - 1 = Z.of_nat (length arr - 1) \/ arr = []).
  { destruct arr; [right; reflexivity|left]. unfold zlen. simpl length. lia. }
  destruct Hn as [[H1 H2]| ->]; [|reflexivity].
  rewrite H1, H2, Nat2Z.id. pose proof (for_down_sattolo_rows (length arr - 1) arr ds Hv) as H.
  cbv zeta in H. rewrite H. destruct (sattolo_loop [] (length arr - 1) arr ds) as [[r ds']|]; reflexivity.
Qed.

(* SHADE._append_archive: append the replaced parents; when longer than pop_size: Sattolo shuffle of the rows, keep the first pop_size *)
Theorem code_SHADE_append_archive (pop_size : nat) (archive worse : list (list Q)) ds : valid_draws ds ->
  py_SHADE_append_archive (Z.of_nat pop_size) archive worse ds = append_archive [] pop_size archive worse ds.
Proof.
  intro Hv. unfold py_SHADE_append_archive, append_archive. cbv zeta. rewrite bind_app.
  assert (Hc : (zlen (archive ++ worse) >? Z.of_nat pop_size) = (pop_size <? length (archive ++ worse))%nat).
  { unfold zlen. destruct (Nat.ltb_spec pop_size (length (archive ++ worse))); [apply Z.gtb_lt|rewrite Z.gtb_ltb; apply Z.ltb_ge]; lia. }
  rewrite Hc. destruct (pop_size <? length (archive ++ worse))%nat.
  - rewrite !bind_app, code_sattolo_shuffle_2d by exact Hv.
    destruct (sattolo [] (archive ++ worse) ds) as [[s ds1]|]; [|reflexivity].
    rewrite !ret_app. unfold sliceTo. rewrite pyidx_nat. reflexivity.
  - rewrite !ret_app. reflexivity.
Qed.

(* hence (AdaptProofs.archive_spec): the archive produced by the source's own _append_archive never exceeds pop_size and holds only
   old archive members and replaced parents *)
Theorem src_SHADE_append_archive (pop_size : nat) (archive worse : list (list Q)) ds a ds' : valid_draws ds ->
  py_SHADE_append_archive (Z.of_nat pop_size) archive worse ds = Some (a, ds') -> (length archive <= pop_size)%nat ->
  (length a <= pop_size)%nat /\ (forall x, In x a -> In x archive \/ In x worse).
Proof.
  intros Hv. rewrite code_SHADE_append_archive by exact Hv. intros H Hl.
  exact (archive_spec [] pop_size archive worse ds a ds' Hv H Hl).
Qed.
