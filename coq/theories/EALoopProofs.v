(* EALoopProofs.v — invariants of the generation loop (C01, C02, C03, C05, C17). *)
From TF Require Import Base EALoop.
Open Scope Q_scope.

Section Proofs.
Variables G P : Type.
Variable g2p : G -> P.
Variable nf : P -> Q.
Notation indiv := (indiv G P).
Notation state := (state G P).
Notation eval := (eval G P g2p nf).

Lemma Qltb_false a b : Qltb a b = false -> b <= a.
Proof. intros H. destruct (Qlt_le_dec a b) as [Hl|Hl]; auto. apply Qltb_lt in Hl. congruence. Qed.

(* ------------------------------------------------------------------ first maximum *)
Lemma first_max_spec (l : list indiv) : forall b,
  let m := first_max G P b l in
  (m = b \/ In m l) /\ ifit b <= ifit m /\ Forall (fun x => ifit x <= ifit m) l.
Proof.
  induction l as [|x t IH]; intros b; cbn [first_max]; cbv zeta.
  - split; [left; reflexivity|]. split; [lra|constructor].
  - destruct (Qltb (ifit b) (ifit x)) eqn:E.
    + apply Qltb_lt in E. destruct (IH x) as (H1 & H2 & H3). cbv zeta in *.
      split; [right; destruct H1 as [-> |H1]; [left|right]; auto|]. split; [lra|]. constructor; auto.
    + apply Qltb_false in E. destruct (IH b) as (H1 & H2 & H3). cbv zeta in *.
      split; [destruct H1 as [H1|H1]; [left|right; right]; auto|]. split; [auto|]. constructor; [lra|auto].
Qed.

Lemma best_of_spec (l : list indiv) m : best_of G P l = Some m ->
  In m l /\ Forall (fun x => ifit x <= ifit m) l.
Proof.
  destruct l as [|x t]; [discriminate|]. cbn [best_of]. intros H; inversion H; subst; clear H.
  destruct (first_max_spec t x) as (H1 & H2 & H3). cbv zeta in *. split.
  - destruct H1 as [-> |H1]; [left|right]; auto.
  - constructor; auto.
Qed.

Lemma best_of_none (l : list indiv) : best_of G P l = None <-> l = [].
Proof. destruct l; cbn; split; intros; congruence. Qed.

(* ------------------------------------------------------------------ record update *)
Lemma update_best_spec b c p b' c' : update_best G P b c p = (b', c') -> p <> [] ->
  exists m, b' = Some m /\ (In m p \/ b = Some m) /\ Forall (fun x => ifit x <= ifit m) p /\
    (forall b0, b = Some b0 -> ifit b0 <= ifit m) /\
    (* stagnation counter: reset exactly on strict improvement *)
    ((c' = 0%nat /\ (b = None \/ exists b0, b = Some b0 /\ ifit b0 < ifit m)) \/
     (c' = S c /\ b = Some m)).
Proof.
  intros H Hne. unfold update_best in H. destruct (best_of G P p) as [cand|] eqn:Eb.
  2:{ apply best_of_none in Eb. contradiction. }
  destruct (best_of_spec _ _ Eb) as (Hin & Hall).
  destruct b as [b0|].
  - destruct (Qltb (ifit b0) (ifit cand)) eqn:E; inversion H; subst; clear H.
    + apply Qltb_lt in E. exists cand. split; [auto|]. split; [auto|]. split; [auto|]. split.
      * intros b1 Hb1. inversion Hb1; subst. lra.
      * left. split; auto. right. eauto.
    + apply Qltb_false in E. exists b0. split; [auto|]. split; [auto|]. split.
      * eapply Forall_impl; [|exact Hall]. intros a Ha. cbn in Ha. lra.
      * split; [intros b1 Hb1; inversion Hb1; subst; lra|]. right. auto.
  - inversion H; subst; clear H. exists cand. split; [auto|]. split; [auto|]. split; [auto|].
    split; [intros b1 Hb1; discriminate|]. left. auto.
Qed.

(* ------------------------------------------------------------------ greedy replacement *)
Lemma greedy_length : forall (ts ps : list indiv), length (greedy G P ts ps) = length ps.
Proof.
  induction ts as [|t ts IH]; intros ps; cbn [greedy]; auto. destruct ps; auto. simpl. f_equal. apply IH.
Qed.

Lemma greedy_in : forall (ts ps : list indiv) x, In x (greedy G P ts ps) -> In x ts \/ In x ps.
Proof.
  induction ts as [|t ts IH]; intros ps x H; cbn [greedy] in H; auto. destruct ps as [|p ps]; auto.
  destruct H as [H|H].
  - destruct (Qle_bool (ifit p) (ifit t)); subst; [left; left|right; left]; auto.
  - destruct (IH ps x H); [left; right|right; right]; auto.
Qed.

(* every trial is dominated by a member of the new population (accepted, or worse than its parent) *)
Lemma greedy_dominates : forall (ts ps : list indiv), (length ts <= length ps)%nat ->
  forall t, In t ts -> exists x, In x (greedy G P ts ps) /\ ifit t <= ifit x.
Proof.
  induction ts as [|t0 ts IH]; intros ps Hl t Hin; [contradiction|].
  destruct ps as [|p ps]; [simpl in Hl; lia|]. cbn [greedy]. destruct Hin as [-> |Hin].
  - destruct (Qle_bool (ifit p) (ifit t)) eqn:E.
    + exists t. split; [left; auto|lra].
    + apply Qle_bool_false in E. exists p. split; [left; auto|lra].
  - destruct (IH ps ltac:(simpl in Hl; lia) t Hin) as (x & Hx & Hle). exists x. split; [right; auto|auto].
Qed.

(* slot-wise: a slot changes only to a trial that is at least as good *)
Lemma greedy_slot : forall (ts ps : list indiv) i d, (i < length ps)%nat ->
  let r := greedy G P ts ps in
  ifit (nth i ps d) <= ifit (nth i r d) /\
  (nth i r d = nth i ps d \/ (nth i r d = nth i ts d /\ (i < length ts)%nat)).
Proof.
  induction ts as [|t ts IH]; intros ps i d Hi; cbn [greedy]; cbv zeta.
  - split; [lra|left; reflexivity].
  - destruct ps as [|p ps]; [simpl in Hi; lia|]. destruct i as [|i].
    + cbn [nth]. destruct (Qle_bool (ifit p) (ifit t)) eqn:E.
      * apply Qle_bool_iff in E. split; [auto|right; split; [reflexivity|simpl; lia]].
      * split; [lra|left; reflexivity].
    + cbn [nth]. destruct (IH ps i d ltac:(simpl in Hi; lia)) as (H1 & H2). cbv zeta in *. split; [auto|].
      destruct H2 as [H2|(H2 & H3)]; [left; auto|right; split; [auto|simpl; lia]].
Qed.

(* ------------------------------------------------------------------ the invariant *)
Variable k : kind.
Variable elitism keep_history : bool.
Variable aim : option Q.
Variable no_increase_num : option nat.
Variable var : state -> list G.
Variable n : nat.                              (* pop_size *)
Hypothesis n_pos : (0 < n)%nat.
Hypothesis var_len : forall st, length (var st) = n.

Notation step := (step G P g2p nf k elitism keep_history).
Notation terminate := (terminate G P aim no_increase_num).
Notation loop := (loop G P g2p nf k elitism keep_history aim no_increase_num var).
Notation fit := (fit G P g2p nf k elitism keep_history aim no_increase_num var).
Notation trajectory := (trajectory G P g2p nf k elitism keep_history aim no_increase_num var).

Definition Inv (st : state) : Prop :=
  length (pop st) = n /\
  (forall p, In p (pop st) -> In p (evaluated st)) /\
  (exists b, best st = Some b /\ In b (evaluated st) /\ Forall (fun e => ifit e <= ifit b) (evaluated st)) /\
  (forall e, In e (evaluated st) -> exists g, e = eval g) /\
  calls st = (n * gens st)%nat /\
  (keep_history = true -> length (hist st) = gens st) /\
  (keep_history = false -> hist st = []) /\
  (elitism = true -> exists b, best st = Some b /\ last (pop st) b = b /\ In b (pop st)).

Lemma set_last_length (p : list indiv) b : length (set_last G P p b) = length p.
Proof.
  unfold set_last. destruct p as [|x t]; [reflexivity|].
  rewrite app_length. cbn [length]. rewrite removelast_length || idtac.
  assert (H : forall (l : list indiv), l <> [] -> length (removelast l) = (length l - 1)%nat).
  { induction l as [|y l IH]; intros Hn; [congruence|]. destruct l as [|z l]; [reflexivity|].
    cbn [removelast length] in *. rewrite IH by congruence. simpl. lia. }
  rewrite H by congruence. simpl. lia.
Qed.

Lemma set_last_in (p : list indiv) b x : In x (set_last G P p b) -> In x p \/ x = b.
Proof.
  unfold set_last. destruct p as [|y t]; [intros []|]. intros H. apply in_app_or in H. destruct H as [H|[H|[]]].
  - left. assert (Hr : forall (l : list indiv) z, In z (removelast l) -> In z l).
    { induction l as [|a l IH]; intros z Hz; [contradiction|]. destruct l as [|a' l]; [contradiction|].
      cbn [removelast] in Hz. destruct Hz as [->|Hz]; [left; auto|right; apply IH; auto]. }
    apply Hr; auto.
  - right; auto.
Qed.

Lemma set_last_last (p : list indiv) b d : p <> [] -> last (set_last G P p b) d = b /\ In b (set_last G P p b).
Proof.
  intros Hn. unfold set_last. destruct p as [|y t]; [congruence|]. split.
  - apply last_last.
  - apply in_or_app. right. left. reflexivity.
Qed.

(* one generation step preserves the invariant; the first step establishes it *)
Lemma step_inv first st gs : length gs = n -> (first = true /\ st = init_state G P \/ first = false /\ Inv st) ->
  Inv (step first st gs).
Proof.
  intros Hgs Hst.
  set (batch := map eval gs).
  assert (Hbl : length batch = n) by (unfold batch; rewrite map_length; auto).
  assert (Hbe : forall e, In e batch -> exists g, e = eval g).
  { intros e He. apply in_map_iff in He. destruct He as (g & <- & _). eauto. }
  set (pop1 := match k with Generational => batch | Greedy => if first then batch else greedy G P batch (pop st) end).
  assert (Hev0 : first = true -> evaluated st = [] /\ best st = None /\ calls st = 0%nat /\ gens st = 0%nat /\ hist st = []).
  { intros Hf. destruct Hst as [(_ & Hs)|(Hc & _)]; [subst st; cbn; auto 6|congruence]. }
  assert (Hp1len : length pop1 = n).
  { unfold pop1. destruct k; auto. destruct first; auto. rewrite greedy_length.
    destruct Hst as [(Hc & _)|(_ & Hi)]; [congruence|]. apply Hi. }
  assert (Hp1ne : pop1 <> []). { intro Hc. rewrite Hc in Hp1len. simpl in Hp1len. lia. }
  assert (Hp1in : forall x, In x pop1 -> In x (evaluated st ++ batch)).
  { intros x Hx. unfold pop1 in Hx. apply in_or_app. destruct k; [right; auto|]. destruct first; [right; auto|].
    destruct Hst as [(Hc & _)|(_ & Hi)]; [congruence|].
    apply greedy_in in Hx. destruct Hx as [Hx|Hx]; [right; auto|left]. apply Hi; auto. }
  (* every trial of the batch is dominated by a member of pop1 *)
  assert (Hdom : forall t, In t batch -> exists x, In x pop1 /\ ifit t <= ifit x).
  { intros t Ht. unfold pop1. destruct k; [exists t; split; [auto|lra]|]. destruct first; [exists t; split; [auto|lra]|].
    destruct Hst as [(Hc & _)|(_ & Hi)]; [congruence|].
    apply greedy_dominates; auto. destruct Hi as (Hl & _). lia. }
  unfold step. fold batch. fold pop1.
  destruct (update_best G P (best st) (counter st) pop1) as [b1 c1] eqn:Eu.
  destruct (update_best_spec _ _ _ _ _ Eu Hp1ne) as (m & -> & Hm & Hmall & Hmb & _).
  assert (Hm_in : In m (evaluated st ++ batch)).
  { destruct Hm as [Hm|Hm]; [apply Hp1in; auto|].
    destruct Hst as [(Hf & Hs)|(_ & Hi)]; [subst st; cbn in Hm; discriminate|].
    destruct Hi as (_ & _ & (b & Hb & Hbin & _) & _). rewrite Hb in Hm. inversion Hm; subst. apply in_or_app; auto. }
  assert (Hm_max : Forall (fun e => ifit e <= ifit m) (evaluated st ++ batch)).
  { apply Forall_app. split.
    - destruct Hst as [(Hf & Hs)|(_ & Hi)]; [subst st; constructor|].
      destruct Hi as (_ & _ & (b & Hb & _ & Hball) & _). specialize (Hmb b Hb).
      eapply Forall_impl; [|exact Hball]. intros a Ha. cbn in Ha. lra.
    - apply Forall_forall. intros t Ht. destruct (Hdom t Ht) as (x & Hx & Hle).
      rewrite Forall_forall in Hmall. specialize (Hmall x Hx). cbn in Hmall. lra. }
  unfold Inv. cbn [pop best counter gens calls evaluated hist callbacks].
  set (pop2 := if elitism then set_last G P pop1 m else pop1).
  assert (Hp2len : length pop2 = n). { unfold pop2. destruct elitism; auto. rewrite set_last_length; auto. }
  split; [exact Hp2len|]. split.
  { intros p Hp. unfold pop2 in Hp. destruct elitism; [|apply Hp1in; auto].
    apply set_last_in in Hp. destruct Hp as [Hp| ->]; [apply Hp1in; auto|auto]. }
  split; [exists m; auto|]. split.
  { intros e He. apply in_app_or in He. destruct He as [He|He]; [|auto].
    destruct Hst as [(Hf & Hs)|(_ & Hi)]; [subst st; contradiction|]. apply Hi; auto. }
  split.
  { rewrite Hbl. destruct Hst as [(Hf & Hs)|(_ & Hi)]; [subst st; cbn; lia|].
    destruct Hi as (_ & _ & _ & _ & Hc & _). rewrite Hc. lia. }
  split.
  { intros Hk. rewrite Hk. rewrite app_length. cbn [length].
    destruct Hst as [(Hf & Hs)|(_ & Hi)]; [subst st; cbn; lia|].
    destruct Hi as (_ & _ & _ & _ & _ & Hh & _). rewrite (Hh Hk). lia. }
  split.
  { intros Hk. rewrite Hk. destruct Hst as [(Hf & Hs)|(_ & Hi)]; [subst st; reflexivity|]. apply Hi; auto. }
  intros He. exists m. split; [auto|]. unfold pop2. rewrite He. apply set_last_last; auto.
Qed.

Lemma callback_inv st : Inv st -> Inv (callback G P st).
Proof. intros H. exact H. Qed.

Lemma loop_inv m : forall st, Inv st -> Inv (loop m st).
Proof.
  induction m as [|m IH]; intros st Hi; cbn [EALoop.loop]; auto.
  destruct (terminate st); auto. apply IH. apply callback_inv. apply step_inv; auto.
Qed.

Theorem fit_inv iters gs0 : length gs0 = n -> Inv (fit iters gs0).
Proof. intros H. unfold EALoop.fit. apply loop_inv. apply step_inv; auto. Qed.

(* ------------------------------------------------------------------ C01 *)
Theorem best_is_max iters gs0 : length gs0 = n ->
  let st := fit iters gs0 in
  exists b, best st = Some b /\ In b (evaluated st) /\ Forall (fun e => ifit e <= ifit b) (evaluated st) /\
    iph b = g2p (ig b) /\ ifit b = nf (iph b).
Proof.
  intros H. cbv zeta. destruct (fit_inv iters gs0 H) as (_ & _ & (b & Hb & Hin & Hall) & Hev & _).
  exists b. repeat split; auto; destruct (Hev b Hin) as (g & ->); reflexivity.
Qed.

(* ------------------------------------------------------------------ C02 *)
Theorem best_monotone st gs b : Inv st -> length gs = n -> best st = Some b ->
  exists b', best (step false st gs) = Some b' /\ ifit b <= ifit b'.
Proof.
  intros Hi Hgs Hb.
  pose proof (step_inv false st gs Hgs (or_intror (conj eq_refl Hi))) as Hi'.
  destruct Hi' as (_ & _ & (b' & Hb' & _ & Hall) & _).
  exists b'. split; auto. rewrite Forall_forall in Hall. apply Hall.
  unfold EALoop.step. destruct (update_best _ _ _ _ _). cbn [evaluated]. apply in_or_app. left.
  destruct Hi as (_ & _ & (b0 & Hb0 & Hin & _) & _). rewrite Hb in Hb0. inversion Hb0; subst. auto.
Qed.

Theorem elite_present st gs first : elitism = true -> length gs = n ->
  (first = true /\ st = init_state G P \/ first = false /\ Inv st) ->
  exists b, best (step first st gs) = Some b /\ last (pop (step first st gs)) b = b /\ In b (pop (step first st gs)).
Proof. intros He Hgs Hst. destruct (step_inv first st gs Hgs Hst) as (_ & _ & _ & _ & _ & _ & _ & H). auto. Qed.

Theorem slot_consistent st : Inv st -> forall p, In p (pop st) -> iph p = g2p (ig p) /\ ifit p = nf (iph p).
Proof.
  intros (_ & Hp & _ & Hev & _) p Hin. destruct (Hev p (Hp p Hin)) as (g & ->). split; reflexivity.
Qed.

End Proofs.
