(* CodeEqAdaptStep.v — one generation of the ADAPTIVE optimizers (SHADE / jDE / SHAGA `_get_new_population`, generated into
   coq/gen/GenLoop.v as functions on the base record + the subclass's own state):
     (1) on the base record (populations, fitness, call counter) the step IS DifferentialEvolution's greedy step with the
         subclass's trial vectors — so everything proved about the greedy family (CodeEqGreedy.v, C02) holds for them;
     (2) the success-history memories are written as Adapt.v's shade_memory_step / shaga_memory_step say (C15): one cell,
         cyclically, the stated mean of the parameters of the STRICTLY improving trials, weighted by the improvements;
     (3) SHADE's archive receives exactly the parents that were strictly improved upon;
     (4) jDE's per-individual F / CR change only where the trial was accepted.
   The random parts (parameter generation, trial vectors, archive truncation) are oracles here; their own translations are
   related to the models in CodeEqAdapt.v / CodeEqC07.v. *)
From TF Require Import Py PyLemmas EALoop CodeEqLoop CodeEqStep CodeEqGreedy Adapt AdaptProofs CodeEqAdapt.
From TFG Require Import GenCode GenLoop.
Open Scope Z_scope.

(* ---------- masks ---------- *)
Lemma mask_select_successful {A} : forall (par trial : list Q) (xs : list A),
  mask_select (gt_mask trial par) xs = successful par trial xs.
Proof.
  unfold successful, gt_mask.
  induction par as [|p par IH]; intros trial xs.
  - destruct trial; reflexivity.
  - destruct trial as [|t trial]; [reflexivity|]. destruct xs as [|x xs]; [cbn; destruct (Qltb p t); reflexivity|].
    cbn [combine map mask_select filter fst snd]. destruct (Qltb p t); cbn [map snd]; [f_equal|]; apply IH.
Qed.

Lemma Qltb_Qle a b : Qltb a b = true -> Qle_bool a b = true.
Proof.
  unfold Qltb. intro H. apply Bool.negb_true_iff in H. apply Qle_bool_iff.
  destruct (Qlt_le_dec a b) as [L|L]; [now apply Qlt_le_weak|]. apply Qle_bool_iff in L. congruence.
Qed.

(* after the replacement, the strictly improved slots hold the trial's fitness *)
Lemma select_after_write : forall (par trial : list Q),
  mask_select (gt_mask trial par) (mask_write (geq_mask trial par) trial par) = mask_select (gt_mask trial par) trial.
Proof.
  unfold gt_mask, geq_mask.
  induction par as [|p par IH]; intros trial.
  - destruct trial; reflexivity.
  - destruct trial as [|t trial]; [reflexivity|].
    cbn [combine map mask_select mask_write fst snd]. destruct (Qltb p t) eqn:E.
    + rewrite (Qltb_Qle _ _ E). f_equal. apply IH.
    + apply IH.
Qed.

Lemma improvements_code (par trial : list Q) :
  vabs (vsub (mask_select (gt_mask trial par) par) (mask_select (gt_mask trial par) (mask_write (geq_mask trial par) trial par)))
  = improvements par trial.
Proof.
  rewrite select_after_write. unfold improvements, gt_mask, vabs, vsub, vmap2.
  revert trial; induction par as [|p par IH]; intros trial; [destruct trial; reflexivity|].
  destruct trial as [|t trial]; [reflexivity|].
  cbn [combine map mask_select filter fst snd]. destruct (Qltb p t); [cbn [combine map fst snd]; f_equal|]; apply IH.
Qed.

Lemma Forall2_Qeq_refl l : Forall2 Qeq l l.
Proof. induction l; constructor; [reflexivity|assumption]. Qed.
Lemma Forall2_upd (l : list Q) i x y : (x == y)%Q -> Forall2 Qeq (upd l i x) (upd l i y).
Proof.
  intro H. revert i; induction l as [|a l IH]; intro i; [destruct i; constructor|].
  destruct i; cbn [upd]; constructor; try reflexivity; [exact H|apply Forall2_Qeq_refl|apply IH].
Qed.

(* accept-only = the masked write *)
Lemma accept_only_mask_write : forall par trial old new,
  mask_write (geq_mask trial par) new old = accept_only par trial old new.
Proof.
  unfold geq_mask.
  induction par as [|p par IH]; intros trial old new.
  - destruct trial; reflexivity.
  - destruct trial as [|t trial]; [reflexivity|]. destruct old as [|o old]; [destruct new; reflexivity|]. destruct new as [|n new]; [reflexivity|].
    cbn [combine map mask_write accept_only fst snd]. f_equal. apply IH.
Qed.

Section AdaptStep.
Variables G P : Type.
Variables (dG : G) (dP : P).
Variable g2p : G -> P.
Variable f : P -> Q.
Variable par_value : EvolutionaryAlgorithm G P -> list P -> list Q.
Let EA := EvolutionaryAlgorithm G P.
Notation ff := (ff P f).
Notation getph := (getph G P g2p).

Ltac proj := cbn [set_ea_iters set_ea_pop_size set_ea_sign set_ea_aim set_ea_calls set_ea_no_increase_num set_ea_thefittest
                  set_ea_elitism set_ea_keep_history set_ea_n_jobs set_ea_population_g_i set_ea_population_ph_i set_ea_fitness_i
                  set_ea_stats set_ea_on_generation
                  ea_iters ea_pop_size ea_sign ea_aim ea_calls ea_no_increase_num ea_thefittest ea_elitism ea_keep_history ea_n_jobs
                  ea_population_g_i ea_population_ph_i ea_fitness_i ea_stats ea_on_generation
                  set_sh_ea set_sh_F set_sh_CR set_sh_H_F set_sh_H_CR set_sh_k set_sh_H_size set_sh_p set_sh_pbest_id set_sh_population_archive
                  set_sh_population_g_archive_i sh_ea sh_F sh_CR sh_H_F sh_H_CR sh_k sh_H_size sh_p sh_pbest_id sh_population_archive
                  sh_population_g_archive_i
                  set_jd_ea set_jd_F set_jd_CR jd_ea jd_F jd_CR
                  set_sg_ea set_sg_MR set_sg_CR set_sg_H_MR set_sg_H_CR set_sg_k set_sg_H_size sg_ea sg_MR sg_CR sg_H_MR sg_H_CR sg_k sg_H_size
                  fst snd] in *.

(* one call-by-value pass: every `let self := <setter> in` is evaluated to a record whose fields are small terms before it is
   substituted (cbv zeta followed by projection would first build a term exponential in the number of statements) *)
Ltac projv := cbv beta iota zeta delta [set_ea_iters set_ea_pop_size set_ea_sign set_ea_aim set_ea_calls set_ea_no_increase_num set_ea_thefittest
                  set_ea_elitism set_ea_keep_history set_ea_n_jobs set_ea_population_g_i set_ea_population_ph_i set_ea_fitness_i
                  set_ea_stats set_ea_on_generation
                  ea_iters ea_pop_size ea_sign ea_aim ea_calls ea_no_increase_num ea_thefittest ea_elitism ea_keep_history ea_n_jobs
                  ea_population_g_i ea_population_ph_i ea_fitness_i ea_stats ea_on_generation
                  set_sh_ea set_sh_F set_sh_CR set_sh_H_F set_sh_H_CR set_sh_k set_sh_H_size set_sh_p set_sh_pbest_id set_sh_population_archive
                  set_sh_population_g_archive_i sh_ea sh_F sh_CR sh_H_F sh_H_CR sh_k sh_H_size sh_p sh_pbest_id sh_population_archive
                  sh_population_g_archive_i
                  set_jd_ea set_jd_F set_jd_CR jd_ea jd_F jd_CR
                  set_sg_ea set_sg_MR set_sg_CR set_sg_H_MR set_sg_H_CR set_sg_k set_sg_H_size sg_ea sg_MR sg_CR sg_H_MR sg_H_CR sg_k sg_H_size
                  fst snd].

(* DE's greedy step on the base record, given the trial vectors *)
Definition de_new_with (trials : list G) : EA -> EA :=
  py_DifferentialEvolution__get_new_population G P ff par_value getph (fun _ => trials).
(* the (sign-normalised) fitness of a batch of trial vectors, as _get_fitness returns it *)
Definition trial_fit (self : EA) (trials : list G) : list Q :=
  snd (py_EvolutionaryAlgorithm__get_fitness G P ff par_value self (getph self trials)).

(* ================= SHADE ================= *)
Section Shade.
Variable sh_trials : SHADE G P -> list G.
Variable sh_generate : SHADE G P -> list Q * list Q.
Variable sh_append : SHADE G P -> list G -> list G -> list G.
Definition sh_new := py_SHADE__get_new_population G P ff par_value getph sh_trials sh_generate sh_append.

(* the object after the parameters were generated and the p-best set / archive view prepared: what the variation operators see *)
Definition sh_pre (self : SHADE G P) : SHADE G P :=
  let self := set_sh_CR G P (snd (sh_generate self)) (set_sh_F G P (fst (sh_generate self)) self) in
  let self := set_sh_pbest_id G P (py_find_pbest_id (ea_fitness_i G P (sh_ea G P self)) (sh_p G P self)) self in
  set_sh_population_archive G P (ea_population_g_i G P (sh_ea G P self) ++ sh_population_g_archive_i G P self) self.

(* the generation step, statement by statement, as ONE record (one conversion for the kernel; the theorems below are projections) *)
Definition sh_flat (self : SHADE G P) : SHADE G P :=
  let pre := sh_pre self in
  let T := sh_trials pre in
  let ea := sh_ea G P self in
  let par := ea_fitness_i G P ea in
  let tf := trial_fit ea T in
  let succ := gt_mask tf par in
  let k := sh_k G P self in
  let nk := if k + 1 =? sh_H_size G P self then 0 else k + 1 in
  {| sh_ea := de_new_with T ea;
     sh_F := fst (sh_generate self); sh_CR := snd (sh_generate self);
     sh_H_F := setA (sh_H_F G P self) nk (py_SHADE_update_u_F (getQ (sh_H_F G P self) k) (mask_select succ (fst (sh_generate self))));
     sh_H_CR := setA (sh_H_CR G P self) nk (py_SHADE_update_u_CR (getQ (sh_H_CR G P self) k) (mask_select succ (snd (sh_generate self)))
                       (vabs (vsub (mask_select succ par) (mask_select succ (mask_write (geq_mask tf par) tf par)))));
     sh_k := if k =? sh_H_size G P self - 1 then 0 else k + 1;
     sh_H_size := sh_H_size G P self; sh_p := sh_p G P self;
     sh_pbest_id := sh_pbest_id G P pre; sh_population_archive := sh_population_archive G P pre;
     sh_population_g_archive_i :=
       sh_append (set_sh_ea G P (fst (py_EvolutionaryAlgorithm__get_fitness G P ff par_value ea (getph ea T))) pre)
                 (sh_population_g_archive_i G P self) (mask_select succ (ea_population_g_i G P ea)) |}.

Lemma sh_new_flat (self : SHADE G P) : sh_new self = sh_flat self.
Proof.
  cbv delta [sh_new sh_flat py_SHADE__get_new_population de_new_with py_DifferentialEvolution__get_new_population sh_pre trial_fit
             py_EvolutionaryAlgorithm__get_fitness]; cbv beta.
  destruct self as [ea Fv CRv HF HCR k Hs pv pb pa ar]. destruct (sh_generate _) as [Fs CRs]. destruct ea.
  projv. reflexivity.
Qed.

Theorem code_shade_base (self : SHADE G P) :
  sh_ea G P (sh_new self) = de_new_with (sh_trials (sh_pre self)) (sh_ea G P self).
Proof. rewrite sh_new_flat. reflexivity. Qed.

(* the memory triple as Adapt.v's record *)
Definition sh_mem (self : SHADE G P) : memory :=
  {| mem_a := sh_H_F G P self; mem_b := sh_H_CR G P self; mem_k := Z.to_nat (sh_k G P self) |}.

Lemma next_k_code (k : Z) {A} (l : list A) : 0 <= k ->
  (k + 1 =? zlen l) = (S (Z.to_nat k) =? length l)%nat /\ (k =? zlen l - 1) = (S (Z.to_nat k) =? length l)%nat.
Proof.
  intro Hk. unfold zlen. destruct (Nat.eqb_spec (S (Z.to_nat k)) (length l)) as [E|E]; split; try apply Z.eqb_eq; try apply Z.eqb_neq; lia.
Qed.

Theorem code_shade_memory (self : SHADE G P) :
  0 <= sh_k G P self -> sh_H_size G P self = zlen (sh_H_F G P self) ->
  let par := ea_fitness_i G P (sh_ea G P self) in
  let trial := trial_fit (sh_ea G P self) (sh_trials (sh_pre self)) in
  let m' := shade_memory_step (sh_mem self) par trial (fst (sh_generate self)) (snd (sh_generate self)) in
  Forall2 Qeq (sh_H_F G P (sh_new self)) (mem_a m') /\ Forall2 Qeq (sh_H_CR G P (sh_new self)) (mem_b m') /\
  sh_k G P (sh_new self) = Z.of_nat (mem_k m').
Proof.
  intros Hk HH par trial. rewrite sh_new_flat. unfold sh_flat. cbv zeta. cbn [sh_H_F sh_H_CR sh_k].
  fold par. fold trial. rewrite improvements_code, !mask_select_successful.
  unfold shade_memory_step, mem_write, sh_mem, next_k. cbn [mem_a mem_b mem_k].
  rewrite HH. destruct (next_k_code (sh_k G P self) (sh_H_F G P self) Hk) as [E1 E2]. rewrite E1, E2.
  rewrite !(getQ_nonneg _ _ Hk).
  destruct (S (Z.to_nat (sh_k G P self)) =? length (sh_H_F G P self))%nat.
  - change 0 with (Z.of_nat 0). rewrite !setA_nat. repeat split.
    + apply Forall2_upd, code_SHADE_update_u_F.
    + apply Forall2_upd, code_SHADE_update_u_CR.
  - replace (sh_k G P self + 1) with (Z.of_nat (S (Z.to_nat (sh_k G P self)))) by lia. rewrite !setA_nat. repeat split.
    + apply Forall2_upd, code_SHADE_update_u_F.
    + apply Forall2_upd, code_SHADE_update_u_CR.
Qed.

(* the archive receives exactly the parents that were strictly improved upon *)
Theorem code_shade_archive (self : SHADE G P) : exists s,
  sh_population_g_archive_i G P (sh_new self)
  = sh_append s (sh_population_g_archive_i G P self)
      (successful (ea_fitness_i G P (sh_ea G P self)) (trial_fit (sh_ea G P self) (sh_trials (sh_pre self))) (ea_population_g_i G P (sh_ea G P self))).
Proof.
  rewrite sh_new_flat. unfold sh_flat. cbv zeta. cbn [sh_population_g_archive_i]. rewrite mask_select_successful. eexists. reflexivity.
Qed.

(* the generated parameters are the ones in force for this generation; the configuration is not touched *)
Theorem code_shade_params (self : SHADE G P) :
  sh_F G P (sh_new self) = fst (sh_generate self) /\ sh_CR G P (sh_new self) = snd (sh_generate self) /\
  sh_H_size G P (sh_new self) = sh_H_size G P self /\ sh_p G P (sh_new self) = sh_p G P self.
Proof. rewrite sh_new_flat. repeat split. Qed.

(* hence (CodeEqGreedy.de_new_eq): SHADE's populations after the step are the model's slot-wise greedy replacement of the old
   population by the evaluated trial vectors, and exactly the trials were counted as fitness calls *)
Theorem code_shade_greedy (self : SHADE G P) (st : state G P) :
  sim G P dG dP (sh_ea G P self) st -> ea_n_jobs G P (sh_ea G P self) <= 1 ->
  let batch := map (eval G P g2p (nf_of G P f (sh_ea G P self))) (sh_trials (sh_pre self)) in
  sh_ea G P (sh_new self) = with_pop G P (sh_ea G P self) (greedy G P batch (pop st)) (Z.of_nat (length batch)).
Proof.
  intros S Hn batch. rewrite code_shade_base.
  exact (de_new_eq G P dG dP g2p f par_value (fun _ => sh_trials (sh_pre self)) (sh_ea G P self) st S Hn).
Qed.
End Shade.

(* ================= jDE ================= *)
Section JDE.
Variable jd_trials : jDE G P -> list Q -> list Q -> list G.
Variables jd_mutate_F jd_mutate_CR : jDE G P -> list Q.
Definition jd_new := py_jDE__get_new_population G P ff par_value getph jd_trials jd_mutate_F jd_mutate_CR.

Definition jd_flat (self : jDE G P) : jDE G P :=
  let T := jd_trials self (jd_mutate_F self) (jd_mutate_CR self) in
  let ea := jd_ea G P self in
  let mask := geq_mask (trial_fit ea T) (ea_fitness_i G P ea) in
  {| jd_ea := de_new_with T ea; jd_F := mask_write mask (jd_mutate_F self) (jd_F G P self);
     jd_CR := mask_write mask (jd_mutate_CR self) (jd_CR G P self) |}.

Lemma jd_new_flat (self : jDE G P) : jd_new self = jd_flat self.
Proof.
  cbv delta [jd_new jd_flat py_jDE__get_new_population de_new_with py_DifferentialEvolution__get_new_population trial_fit
             py_EvolutionaryAlgorithm__get_fitness]; cbv beta.
  destruct self as [ea Fv CRv]. destruct ea. projv. reflexivity.
Qed.

Theorem code_jde_base (self : jDE G P) :
  jd_ea G P (jd_new self) = de_new_with (jd_trials self (jd_mutate_F self) (jd_mutate_CR self)) (jd_ea G P self).
Proof. rewrite jd_new_flat. reflexivity. Qed.

(* an individual's F and CR change only when its trial is accepted *)
Theorem code_jde_accept_only (self : jDE G P) :
  let par := ea_fitness_i G P (jd_ea G P self) in
  let trial := trial_fit (jd_ea G P self) (jd_trials self (jd_mutate_F self) (jd_mutate_CR self)) in
  jd_F G P (jd_new self) = accept_only par trial (jd_F G P self) (jd_mutate_F self) /\
  jd_CR G P (jd_new self) = accept_only par trial (jd_CR G P self) (jd_mutate_CR self).
Proof.
  intros par trial. rewrite jd_new_flat. unfold jd_flat. cbv zeta. cbn [jd_F jd_CR]. split; apply accept_only_mask_write.
Qed.

Theorem code_jde_greedy (self : jDE G P) (st : state G P) :
  sim G P dG dP (jd_ea G P self) st -> ea_n_jobs G P (jd_ea G P self) <= 1 ->
  let batch := map (eval G P g2p (nf_of G P f (jd_ea G P self))) (jd_trials self (jd_mutate_F self) (jd_mutate_CR self)) in
  jd_ea G P (jd_new self) = with_pop G P (jd_ea G P self) (greedy G P batch (pop st)) (Z.of_nat (length batch)).
Proof.
  intros S Hn batch. rewrite code_jde_base.
  exact (de_new_eq G P dG dP g2p f par_value (fun _ => jd_trials self (jd_mutate_F self) (jd_mutate_CR self)) (jd_ea G P self) st S Hn).
Qed.
End JDE.

(* ================= SHAGA ================= *)
Section Shaga.
Variable sg_trials : SHAGA G P -> list G.
Variable sg_generate : SHAGA G P -> list Q * list Q.
Definition sg_new := py_SHAGA__get_new_population G P ff par_value getph sg_trials sg_generate.
Definition sg_pre (self : SHAGA G P) : SHAGA G P :=
  set_sg_CR G P (snd (sg_generate self)) (set_sg_MR G P (fst (sg_generate self)) self).

Definition sg_flat (self : SHAGA G P) : SHAGA G P :=
  let T := sg_trials (sg_pre self) in
  let ea := sg_ea G P self in
  let par := ea_fitness_i G P ea in
  let tf := trial_fit ea T in
  let succ := gt_mask tf par in
  let k := sg_k G P self in
  let nk := if k + 1 =? sg_H_size G P self then 0 else k + 1 in
  let df := vabs (vsub (mask_select succ par) (mask_select succ (mask_write (geq_mask tf par) tf par))) in
  {| sg_ea := de_new_with T ea;
     sg_MR := fst (sg_generate self); sg_CR := snd (sg_generate self);
     sg_H_MR := setA (sg_H_MR G P self) nk (py_SHAGA_update_u (getQ (sg_H_MR G P self) k) (mask_select succ (fst (sg_generate self))) df);
     sg_H_CR := setA (sg_H_CR G P self) nk (py_SHAGA_update_u (getQ (sg_H_CR G P self) k) (mask_select succ (snd (sg_generate self))) df);
     sg_k := if k =? sg_H_size G P self - 1 then 0 else k + 1;
     sg_H_size := sg_H_size G P self |}.

Lemma sg_new_flat (self : SHAGA G P) : sg_new self = sg_flat self.
Proof.
  cbv delta [sg_new sg_flat py_SHAGA__get_new_population de_new_with py_DifferentialEvolution__get_new_population sg_pre trial_fit
             py_EvolutionaryAlgorithm__get_fitness]; cbv beta.
  destruct self as [ea Mv CRv HM HCR k Hs]. destruct (sg_generate _) as [Ms CRs]. destruct ea.
  projv. reflexivity.
Qed.

Theorem code_shaga_base (self : SHAGA G P) :
  sg_ea G P (sg_new self) = de_new_with (sg_trials (sg_pre self)) (sg_ea G P self).
Proof. rewrite sg_new_flat. reflexivity. Qed.

Definition sg_mem (self : SHAGA G P) : memory :=
  {| mem_a := sg_H_MR G P self; mem_b := sg_H_CR G P self; mem_k := Z.to_nat (sg_k G P self) |}.

Theorem code_shaga_memory (self : SHAGA G P) :
  0 <= sg_k G P self -> sg_H_size G P self = zlen (sg_H_MR G P self) ->
  let par := ea_fitness_i G P (sg_ea G P self) in
  let trial := trial_fit (sg_ea G P self) (sg_trials (sg_pre self)) in
  let m' := shaga_memory_step (sg_mem self) par trial (fst (sg_generate self)) (snd (sg_generate self)) in
  Forall2 Qeq (sg_H_MR G P (sg_new self)) (mem_a m') /\ Forall2 Qeq (sg_H_CR G P (sg_new self)) (mem_b m') /\
  sg_k G P (sg_new self) = Z.of_nat (mem_k m').
Proof.
  intros Hk HH par trial. rewrite sg_new_flat. unfold sg_flat. cbv zeta. cbn [sg_H_MR sg_H_CR sg_k].
  fold par. fold trial. rewrite improvements_code, !mask_select_successful.
  unfold shaga_memory_step, mem_write, sg_mem, next_k. cbn [mem_a mem_b mem_k].
  rewrite HH. destruct (next_k_code (sg_k G P self) (sg_H_MR G P self) Hk) as [E1 E2]. rewrite E1, E2.
  rewrite !(getQ_nonneg _ _ Hk).
  destruct (S (Z.to_nat (sg_k G P self)) =? length (sg_H_MR G P self))%nat.
  - change 0 with (Z.of_nat 0). rewrite !setA_nat. repeat split; apply Forall2_upd, code_SHAGA_update_u.
  - replace (sg_k G P self + 1) with (Z.of_nat (S (Z.to_nat (sg_k G P self)))) by lia. rewrite !setA_nat.
    repeat split; apply Forall2_upd, code_SHAGA_update_u.
Qed.

Theorem code_shaga_greedy (self : SHAGA G P) (st : state G P) :
  sim G P dG dP (sg_ea G P self) st -> ea_n_jobs G P (sg_ea G P self) <= 1 ->
  let batch := map (eval G P g2p (nf_of G P f (sg_ea G P self))) (sg_trials (sg_pre self)) in
  sg_ea G P (sg_new self) = with_pop G P (sg_ea G P self) (greedy G P batch (pop st)) (Z.of_nat (length batch)).
Proof.
  intros S Hn batch. rewrite code_shaga_base.
  exact (de_new_eq G P dG dP g2p f par_value (fun _ => sg_trials (sg_pre self)) (sg_ea G P self) st S Hn).
Qed.
End Shaga.

End AdaptStep.
