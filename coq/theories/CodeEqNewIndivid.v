(* CodeEqNewIndivid.v — the trial vector / offspring of ONE individual (`_get_new_individ_g` of SHADE, SHAGA and
   DifferentialEvolution; jDE inherits DifferentialEvolution's), translated on every run as methods (gen/GenCode.v), is the
   composition the models state: strategy / selection, then crossover, then repair / mutation, each with the arguments named.
   These are the bodies of the oracles `d_*_trials` of the generation step (CodeEqAdaptStep.v). *)
From TF Require Import Py PyLemmas RandomPrimsProofs BinaryOps DEOps C06Check CodeEqC06 CodeEqC07 CodeEqC11.
From TFG Require Import GenCode.
Open Scope Z_scope.

(* SHADE: current-to-pbest/1 with archive, binomial crossover, repair towards the parent *)
Theorem code_SHADE_get_new_individ_g pop pbest archive l r cur F CR ds :
  valid_draws ds -> (0 < length pop)%nat ->
  uniform_rows (length cur) pop -> uniform_rows (length cur) archive ->
  Forall (fun v => 0 <= v < Z.of_nat (length pop)) pbest ->
  py_SHADE_get_new_individ_g pop pbest archive l r cur F CR ds = shade_new_individ cur pop pbest F CR archive l r ds.
Proof.
  intros Hv Hp Hu Ha Hb. unfold py_SHADE_get_new_individ_g, shade_new_individ. cbv zeta.
  rewrite !bind_app, (code_current_to_pbest cur pop pbest F archive ds Hv Hp Hu Ha Hb).
  destruct (current_to_pbest cur pop pbest F archive ds) as [[m ds1]|]; [|reflexivity].
  rewrite !bind_app, code_binomial. destruct (binomial cur m CR ds1) as [[c ds2]|]; [|reflexivity].
  rewrite !ret_app, code_bounds_control_mean. reflexivity.
Qed.

(* DifferentialEvolution / jDE: the configured strategy (whatever function the pool holds), binomial crossover, clamp to the box *)
Theorem code_DE_get_new_individ_g (mf : list Q -> list Q -> list (list Q) -> Q -> M (list Q)) best pop l r cur F CR ds :
  py_DE_get_new_individ_g mf best pop l r cur F CR ds
  = bind (mf cur best pop F) (fun m => bind (binomial cur m CR) (fun c => ret (bounds_control c l r))) ds.
Proof.
  unfold py_DE_get_new_individ_g. cbv zeta. rewrite !bind_app.
  destruct (mf cur best pop F ds) as [[m ds1]|]; [|reflexivity].
  rewrite !bind_app, code_binomial. destruct (binomial cur m CR ds1) as [[c ds2]|]; [|reflexivity].
  rewrite !ret_app, code_bounds_control. reflexivity.
Qed.

(* ... hence, for a strategy function that is the model's strategy `code` on these draws, the model's de_new_individ *)
Theorem code_DE_get_new_individ_g_strategy mf (code : nat) best pop l r cur F CR ds :
  mf cur best pop F ds = de_mutation code cur best pop F ds ->
  py_DE_get_new_individ_g mf best pop l r cur F CR ds = de_new_individ code cur best pop F CR l r ds.
Proof.
  intro H. rewrite code_DE_get_new_individ_g. unfold de_new_individ. rewrite !bind_app, H. reflexivity.
Qed.

(* the six named strategies of the pool, each with the translated strategy function in the function position *)
Theorem code_DE_new_individ_best_1 best pop l r cur F CR ds :
  valid_draws ds -> (2 <= length pop)%nat -> uniform_rows (length best) pop -> length cur = length best ->
  py_DE_get_new_individ_g py_best_1 best pop l r cur F CR ds = de_new_individ 0 cur best pop F CR l r ds.
Proof. intros. apply code_DE_get_new_individ_g_strategy. now apply code_best_1. Qed.
Theorem code_DE_new_individ_rand_1 best pop l r cur F CR ds :
  valid_draws ds -> (3 <= length pop)%nat -> uniform_rows (length best) pop -> length cur = length best ->
  py_DE_get_new_individ_g py_rand_1 best pop l r cur F CR ds = de_new_individ 1 cur best pop F CR l r ds.
Proof. intros. apply code_DE_get_new_individ_g_strategy. now apply code_rand_1. Qed.

(* SHAGA: second parent by a tournament of 2 over the raw fitness, binomial crossover with the individual, flip mutation at MR *)
Theorem code_SHAGA_get_new_individ_g fitness pop x MR CR ds :
  valid_draws ds -> (2 <= length fitness)%nat ->
  py_SHAGA_get_new_individ_g fitness pop x MR CR ds = shaga_new_individ pop fitness x MR CR ds.
Proof.
  intros Hv H2. unfold py_SHAGA_get_new_individ_g, shaga_new_individ. unfold row in *. cbv zeta. rewrite !bind_app.
  change 2 with (Z.of_nat 2). change 1 with (Z.of_nat 1).
  rewrite (code_tournament_selection fitness fitness 2 1 ds Hv H2).
  cbn [tournament_selection]. rewrite !bind_app.
  destruct (tournament_one fitness 2 ds) as [[w ds1]|] eqn:E; [|reflexivity].
  rewrite !bind_app, !ret_app. cbn [nth]. rewrite getZ_0. cbn [nth].
  destruct (tournament_one_spec fitness 2 ds w ds1 Hv ltac:(lia) E) as (t & _ & _ & Hr & Hin & _).
  assert (Hw : 0 <= w) by (rewrite Forall_forall in Hr; apply (Hr w Hin)).
  unfold getR. rewrite (pyidx_nonneg _ _ Hw).
  rewrite !bind_app, code_binomialGA. cbn [nth]. destruct (binomialGA x (nth (Z.to_nat w) pop []) CR ds1) as [[c ds2]|]; [|reflexivity].
  rewrite !bind_app, code_flip_mutation. destruct (flip_mutation c MR ds2) as [[mu ds3]|]; reflexivity.
Qed.

(* GeneticAlgorithm._get_new_individ_g (SelfCGA inherits it): the three pool entries (function + configured parameters) are
   parameters of the generated definition; for whatever functions the pools hold, the offspring is: select `quantity` parents with
   the selection's tournament size, cross over (population, scaled fitness, ranks of the selected), flip-mutate at the entry's rate
   (divided by the string length unless the entry says the rate is constant) *)
Lemma gatherR_gather {A} (m : list (list A)) idx : Forall (fun v => 0 <= v) idx -> gatherR m idx = gather [] m idx.
Proof.
  intro H. unfold gatherR, gather. apply map_ext_in. intros i Hi. rewrite Forall_forall in H.
  unfold getR. now rewrite pyidx_nonneg by (apply H; exact Hi).
Qed.
Lemma gatherQz_gather (f : list Q) idx : Forall (fun v => 0 <= v) idx -> gatherQz f idx = gather 0%Q f idx.
Proof.
  intro H. unfold gatherQz, gather. apply map_ext_in. intros i Hi. rewrite Forall_forall in H.
  now rewrite getQ_nonneg by (apply H; exact Hi).
Qed.

Theorem code_GA_get_new_individ_g
    (selpy : list Q -> list Q -> Z -> Z -> M (list Z)) (sel : list Q -> list Q -> nat -> nat -> M (list Z)) (tour q : nat)
    (cxpy cx : list (list Z) -> list Q -> list Q -> M (list Z)) (mupy : list Z -> Q -> M (list Z))
    (proba : Q) (const : bool) fs fr pop ds :
  selpy fs fr (Z.of_nat tour) (Z.of_nat q) ds = sel fs fr tour q ds ->
  (forall r ds', sel fs fr tour q ds = Some (r, ds') -> Forall (fun v => 0 <= v) r) ->
  (forall a b c ds', cxpy a b c ds' = cx a b c ds') ->
  (forall c p ds', mupy c p ds' = flip_mutation c p ds') ->
  py_GA_get_new_individ_g selpy (Z.of_nat tour) cxpy (Z.of_nat q) mupy proba const fs fr pop ds
  = new_individ sel tour q cx proba const pop fs fr ds.
Proof.
  intros Hsel Hnn Hcx Hmu. unfold py_GA_get_new_individ_g, new_individ. unfold row in *. cbv zeta. rewrite !bind_app, Hsel.
  destruct (sel fs fr tour q ds) as [[r ds1]|] eqn:E; [|reflexivity].
  pose proof (Hnn r ds1 eq_refl) as Hr.
  rewrite !bind_app, Hcx, (gatherR_gather pop r Hr), !(gatherQz_gather _ r Hr).
  destruct (cx (gather [] pop r) (gather 0%Q fs r) (gather 0%Q fr r) ds1) as [[c ds2]|]; [|reflexivity].
  rewrite !bind_app, Hmu. unfold mutation_rate, zlen, ZtoQ.
  destruct const; destruct (flip_mutation c _ ds2) as [[o ds3]|]; reflexivity.
Qed.

(* PDPGA: one parent of the selected ones is remembered (its raw fitness is what "success" is later measured against); the draw is
   one index below the number of selected parents, taken between selection and crossover *)
Lemma random_sample_one n ds : random_sample n 1 true ds = bind (popI n) (fun v => ret [v]) ds.
Proof.
  unfold random_sample, bind, popI, ret. destruct ds as [|[u|m v|x] r]; cbn; try reflexivity.
  destruct (m =? n); [|reflexivity]. destruct r; reflexivity.
Qed.

Theorem code_PDPGA_choice_parent (f : list Q) ds :
  py_PDPGA_choice_parent f ds = bind (popI (zlen f)) (fun i => ret (getQ f i)) ds.
Proof.
  unfold py_PDPGA_choice_parent. cbv zeta. rewrite bind_app.
  change 1 with (Z.of_nat 1). rewrite (code_random_sample (zlen f) 1 true ds (or_introl eq_refl)), random_sample_one, !bind_app.
  destruct (popI (zlen f) ds) as [[v ds1]|]; [|reflexivity]. rewrite !ret_app, getZ_0. reflexivity.
Qed.

Theorem code_PDPGA_get_new_individ_g
    (selpy : list Q -> list Q -> Z -> Z -> M (list Z)) (sel : list Q -> list Q -> nat -> nat -> M (list Z)) (tour q : nat)
    (cxpy cx : list (list Z) -> list Q -> list Q -> M (list Z)) (mupy : list Z -> Q -> M (list Z))
    (proba : Q) (const : bool) fs fr fit pop ds :
  selpy fs fr (Z.of_nat tour) (Z.of_nat q) ds = sel fs fr tour q ds ->
  (forall r ds', sel fs fr tour q ds = Some (r, ds') -> Forall (fun v => 0 <= v) r) ->
  (forall a b c ds', cxpy a b c ds' = cx a b c ds') ->
  (forall c p ds', mupy c p ds' = flip_mutation c p ds') ->
  py_PDPGA_get_new_individ_g selpy (Z.of_nat tour) cxpy (Z.of_nat q) mupy proba const fs fr fit pop ds
  = bind (sel fs fr tour q) (fun r =>
      bind (popI (Z.of_nat (length r))) (fun i =>
        bind (cx (gather [] pop r) (gather 0%Q fs r) (gather 0%Q fr r)) (fun c =>
          bind (flip_mutation c (mutation_rate proba const (length c))) (fun o =>
            ret (getQ (gather 0%Q fit r) i, o))))) ds.
Proof.
  intros Hsel Hnn Hcx Hmu. unfold py_PDPGA_get_new_individ_g. unfold row in *. cbv zeta. rewrite !bind_app, Hsel.
  destruct (sel fs fr tour q ds) as [[r ds1]|] eqn:E; [|reflexivity].
  pose proof (Hnn r ds1 eq_refl) as Hr.
  rewrite !bind_app, code_PDPGA_choice_parent, !bind_app.
  replace (zlen (gatherQz fit r)) with (Z.of_nat (length r)) by (unfold zlen, gatherQz; now rewrite map_length).
  destruct (popI (Z.of_nat (length r)) ds1) as [[i ds2]|]; [|reflexivity].
  rewrite !ret_app, !bind_app, Hcx, (gatherR_gather pop r Hr), !(gatherQz_gather _ r Hr).
  destruct (cx (gather [] pop r) (gather 0%Q fs r) (gather 0%Q fr r) ds2) as [[c ds3]|]; [|reflexivity].
  rewrite !bind_app, Hmu. unfold mutation_rate, zlen, ZtoQ.
  destruct const; destruct (flip_mutation c _ ds3) as [[o ds4]|]; rewrite ?ret_app; reflexivity.
Qed.

(* ... whose offspring component is the model's new_individ_pdp (the remembered value is not part of that model) *)
Theorem code_PDPGA_offspring
    (selpy : list Q -> list Q -> Z -> Z -> M (list Z)) (sel : list Q -> list Q -> nat -> nat -> M (list Z)) (tour q : nat)
    (cxpy cx : list (list Z) -> list Q -> list Q -> M (list Z)) (mupy : list Z -> Q -> M (list Z))
    (proba : Q) (const : bool) fs fr fit pop ds :
  selpy fs fr (Z.of_nat tour) (Z.of_nat q) ds = sel fs fr tour q ds ->
  (forall r ds', sel fs fr tour q ds = Some (r, ds') -> Forall (fun v => 0 <= v) r) ->
  (forall a b c ds', cxpy a b c ds' = cx a b c ds') ->
  (forall c p ds', mupy c p ds' = flip_mutation c p ds') ->
  match py_PDPGA_get_new_individ_g selpy (Z.of_nat tour) cxpy (Z.of_nat q) mupy proba const fs fr fit pop ds with
  | Some ((_, child), ds') => new_individ_pdp sel tour q cx proba const pop fs fr ds = Some (child, ds')
  | None => new_individ_pdp sel tour q cx proba const pop fs fr ds = None
  end.
Proof.
  intros Hsel Hnn Hcx Hmu. rewrite (code_PDPGA_get_new_individ_g selpy sel tour q cxpy cx mupy proba const fs fr fit pop ds Hsel Hnn Hcx Hmu).
  unfold new_individ_pdp. unfold row in *. rewrite !bind_app.
  destruct (sel fs fr tour q ds) as [[r ds1]|]; [|reflexivity].
  rewrite !bind_app. destruct (popI (Z.of_nat (length r)) ds1) as [[i ds2]|]; [|reflexivity].
  rewrite !bind_app. destruct (cx (gather [] pop r) (gather 0%Q fs r) (gather 0%Q fr r) ds2) as [[c ds3]|]; [|reflexivity].
  rewrite !bind_app. destruct (flip_mutation c _ ds3) as [[o ds4]|]; [|reflexivity]. rewrite ret_app. reflexivity.
Qed.

(* ---------- hence, about the optimizers' own methods: every trial vector is inside the box ---------- *)
From TF Require Import DEOpsProofs.
Theorem src_DE_trial_in_box (mf : list Q -> list Q -> list (list Q) -> Q -> M (list Q)) best pop l r cur F CR ds t ds' :
  box_ok l r -> length cur = length l ->
  py_DE_get_new_individ_g mf best pop l r cur F CR ds = Some (t, ds') -> in_box l r t.
Proof.
  intros Hb Hc. rewrite code_DE_get_new_individ_g, !bind_app.
  destruct (mf cur best pop F ds) as [[m ds1]|]; [|discriminate].
  rewrite !bind_app. destruct (binomial cur m CR ds1) as [[c ds2]|] eqn:E; [|discriminate].
  rewrite ret_app. intro H. inversion H; subst.
  apply clamp_in_box; auto. rewrite (binomial_length _ _ _ _ _ _ E). auto.
Qed.

Theorem src_SHADE_trial_in_box pop pbest archive l r cur F CR ds t ds' :
  valid_draws ds -> (0 < length pop)%nat ->
  uniform_rows (length cur) pop -> uniform_rows (length cur) archive ->
  Forall (fun v => (0 <= v < Z.of_nat (length pop))%Z) pbest ->
  in_box l r cur ->
  py_SHADE_get_new_individ_g pop pbest archive l r cur F CR ds = Some (t, ds') -> in_box l r t.
Proof.
  intros Hv Hp Hu Ha Hpb Hc. rewrite (code_SHADE_get_new_individ_g pop pbest archive l r cur F CR ds Hv Hp Hu Ha Hpb).
  apply shade_trial_in_box. exact Hc.
Qed.
