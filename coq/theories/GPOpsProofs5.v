(* GPOpsProofs5.v — C08: the statements of props/C08.v assembled from parts 1-4
   (per operator: _wf = child well formed + provenance of its symbols, _depth = max_level is
   respected, _named = the behaviour the operator is named after). *)
From Coq Require Import List Arith Bool Lia ZArith QArith Permutation.
Import ListNotations.
From TF Require Import Base RandomPrims Tree TreeIdx TreeProofs TreeProofs2 TreeCR GPOps
  GPOpsProofs GPOpsProofs2 GPOpsProofs3 GPOpsProofs4.
Open Scope nat_scope.

Section A.
  Context {sym : Type}.
  Variable arity : sym -> nat.
  Notation tree := (tree sym).
  Notation pt := (ptree sym).
  Notation wfp := (wfp arity).
  Notation good := (good arity).
  Notation mk := (mk arity).

  (* ---------------------------------------------------------------- standard *)
  Lemma standard_wf (p1 p2 : pt) rest ml ds c ds' : wfp p1 -> wfp p2 ->
    standard_crossover (p1 :: p2 :: rest) ml ds = Some (c, ds') -> wfp c /\ syms_from [p1; p2] c.
  Proof. intros W1 W2 H. destruct (standard_crossover_closed arity _ _ _ _ _ _ _ W1 W2 H) as (A & B & _). auto. Qed.
  Lemma standard_depth (p1 p2 : pt) rest ml ds c ds' : wfp p1 -> wfp p2 ->
    standard_crossover (p1 :: p2 :: rest) ml ds = Some (c, ds') ->
    depthp p1 <= ml -> depthp p2 <= ml -> depthp c <= ml.
  Proof. intros W1 W2 H. destruct (standard_crossover_closed arity _ _ _ _ _ _ _ W1 W2 H) as (_ & _ & D). auto. Qed.

  (* ---------------------------------------------------------------- one point *)
  Lemma one_point_wf (p1 p2 : pt) rest ds c ds' : wfp p1 -> wfp p2 ->
    one_point_crossoverGP (p1 :: p2 :: rest) ds = Some (c, ds') -> wfp c /\ syms_from [p1; p2] c.
  Proof. intros W1 W2 H. destruct (one_point_closed arity _ _ _ _ _ _ 0 W1 W2 H) as (A & B & _). auto. Qed.
  Lemma one_point_depth (p1 p2 : pt) rest ds c ds' ml : wfp p1 -> wfp p2 ->
    one_point_crossoverGP (p1 :: p2 :: rest) ds = Some (c, ds') ->
    depthp p1 <= ml -> depthp p2 <= ml -> depthp c <= ml.
  Proof. intros W1 W2 H. destruct (one_point_closed arity _ _ _ _ _ _ ml W1 W2 H) as (_ & _ & D). auto. Qed.

  (* ---------------------------------------------------------------- uniform family, two parents *)
  Lemma uniform_two_wf (p1 p2 : pt) draw_pool ds c ds' : wfp p1 -> wfp p2 ->
    uniform_with arity [p1; p2] draw_pool ds = Some (c, ds') -> wfp c /\ syms_from [p1; p2] c.
  Proof. intros W1 W2 H. destruct (uniform_two_closed arity _ _ _ _ _ _ 0 W1 W2 H) as (A & B & _). auto. Qed.
  Lemma uniform_two_depth (p1 p2 : pt) draw_pool ds c ds' ml : wfp p1 -> wfp p2 ->
    uniform_with arity [p1; p2] draw_pool ds = Some (c, ds') ->
    depthp p1 <= ml -> depthp p2 <= ml -> depthp c <= ml.
  Proof. intros W1 W2 H. destruct (uniform_two_closed arity _ _ _ _ _ _ ml W1 W2 H) as (_ & _ & D). auto. Qed.

  (* the four operators of the family are instances (they differ only in how the donor vector is drawn) *)
  Lemma uniform_family_two (p1 p2 : pt) fitness rank ds c ds' ml : wfp p1 -> wfp p2 ->
    (uniform_crossoverGP arity [p1; p2] fitness rank ds = Some (c, ds') \/
     uniform_proportional_crossover_GP arity [p1; p2] fitness rank ds = Some (c, ds') \/
     uniform_rank_crossover_GP arity [p1; p2] fitness rank ds = Some (c, ds') \/
     uniform_tournament_crossover_GP arity [p1; p2] fitness rank ds = Some (c, ds')) ->
    wfp c /\ syms_from [p1; p2] c /\ (depthp p1 <= ml -> depthp p2 <= ml -> depthp c <= ml) /\
    exists T1 T2 C, good p1 T1 /\ good p2 T2 /\ good c C /\ mix arity [T1; T2] C.
  Proof.
    intros W1 W2 H.
    assert (X : exists dp, uniform_with arity [p1; p2] dp ds = Some (c, ds')).
    { destruct H as [H|[H|[H|H]]]; eexists; exact H. }
    destruct X as (dp & X).
    destruct (uniform_two_closed arity _ _ _ _ _ _ ml W1 W2 X) as (A & B & D).
    split; auto. split; auto. split; auto.
    pose proof W1 as G1. pose proof W2 as G2. apply wfp_good in G1. apply wfp_good in G2.
    destruct G1 as (T1 & G1). destruct G2 as (T2 & G2).
    destruct (uniform_two_spec arity _ _ _ _ _ _ _ _ G1 G2 X) as (C & GC & M).
    exists T1, T2, C. auto.
  Qed.

  (* ---------------------------------------------------------------- mutations *)
  Lemma point_wf (t : pt) U proba ds c ds' : wfp t -> uniset_ok arity U ->
    point_mutation arity t U proba ds = Some (c, ds') ->
    wfp c /\ forall x, In x (fst c) -> In x (fst t) \/ in_uniset U x.
  Proof. intros W UO H. destruct (point_mutation_closed arity _ _ _ _ _ _ 0 W UO H) as (A & B & _). auto. Qed.
  Lemma point_depth (t : pt) U proba ds c ds' ml : wfp t -> uniset_ok arity U ->
    point_mutation arity t U proba ds = Some (c, ds') -> depthp t <= ml -> depthp c <= ml.
  Proof. intros W UO H. destruct (point_mutation_closed arity _ _ _ _ _ _ ml W UO H) as (_ & _ & D). auto. Qed.

  Lemma grow_wf (t : pt) U proba ds c ds' : wfp t -> uniset_ok arity U ->
    growing_mutation arity t U proba ds = Some (c, ds') ->
    wfp c /\ forall x, In x (fst c) -> In x (fst t) \/ in_uniset U x.
  Proof. intros W UO H. destruct (growing_mutation_closed arity _ _ _ _ _ _ 0 W UO H) as (A & B & _). auto. Qed.
  Lemma grow_depth (t : pt) U proba ds c ds' ml : wfp t -> uniset_ok arity U ->
    growing_mutation arity t U proba ds = Some (c, ds') -> depthp t <= ml -> depthp c <= ml.
  Proof. intros W UO H. destruct (growing_mutation_closed arity _ _ _ _ _ _ ml W UO H) as (_ & _ & D). auto. Qed.

  Lemma shrink_wf (t : pt) (U : uniset) proba ds c ds' : wfp t ->
    shrink_mutation t U proba ds = Some (c, ds') -> wfp c /\ forall x, In x (fst c) -> In x (fst t).
  Proof. intros W H. destruct (shrink_mutation_closed arity _ _ _ _ _ _ 0 W H) as (A & B & _). auto. Qed.
  Lemma shrink_depth (t : pt) (U : uniset) proba ds c ds' ml : wfp t ->
    shrink_mutation t U proba ds = Some (c, ds') -> depthp t <= ml -> depthp c <= ml.
  Proof. intros W H. destruct (shrink_mutation_closed arity _ _ _ _ _ _ ml W H) as (_ & _ & D). auto. Qed.

  Lemma swap_wf (t : pt) (U : uniset) proba ds c ds' : wfp t -> valid_draws ds ->
    swap_mutation t U proba ds = Some (c, ds') -> wfp c /\ forall x, In x (fst c) -> In x (fst t).
  Proof. intros W Hv H. destruct (swap_mutation_closed arity _ _ _ _ _ _ 0 W Hv H) as (A & B & _). auto. Qed.
  Lemma swap_depth (t : pt) (U : uniset) proba ds c ds' ml : wfp t -> valid_draws ds ->
    swap_mutation t U proba ds = Some (c, ds') -> depthp t <= ml -> depthp c <= ml.
  Proof. intros W Hv H. destruct (swap_mutation_closed arity _ _ _ _ _ _ ml W Hv H) as (_ & _ & D). auto. Qed.

  (* ---------------------------------------------------------------- initialisers, in one statement *)
  Theorem init_wf_depth U ml : uniset_ok arity U ->
    (forall ds t ds', full_growing_method arity U ml ds = Some (t, ds') ->
       exists T, good t T /\ depth T <= ml /\ fullt ml T = true /\ in_U U T) /\
    (forall ds t ds', growing_method arity U ml ds = Some (t, ds') ->
       exists T, good t T /\ depth T <= ml /\ in_U U T) /\
    (forall ds t ds', random_tree arity U ml ds = Some (t, ds') ->
       exists T, good t T /\ depth T <= ml /\ in_U U T) /\
    (forall pop ds l ds', valid_draws ds -> 2 <= ml -> half_and_half arity pop U ml ds = Some (l, ds') ->
       length l = pop /\ Forall (fun t => exists T, good t T /\ depth T <= ml /\ in_U U T) l).
  Proof.
    intros UO. repeat split.
    - intros. eapply full_growing_method_spec; eauto.
    - intros. eapply growing_method_spec; eauto.
    - intros. eapply random_tree_spec; eauto.
    - eapply half_and_half_spec; eauto.
    - eapply half_and_half_spec; eauto.
  Qed.

  (* fullt: every leaf of a full tree sits exactly at max_level *)
  Lemma fullt_leaves : forall (T : tree) d, fullt d T = true ->
    forall i s, sub_at T i = Some (Node s []) -> level_at T i = d.
  Proof.
    apply (tree_ind2
      (fun t => forall d, fullt d t = true -> forall i s, sub_at t i = Some (Node s []) -> level_at t i = d)
      (fun ts => forall d, forallb (fullt d) ts = true -> forall j s, sub_at_f ts j = Some (Node s []) ->
                           level_at_f ts j = S d)).
    - intros s kids IH d F [|j] s' H.
      + simpl in H. inversion H; subst. destruct d; [reflexivity|discriminate].
      + rewrite sub_at_Node in H. rewrite level_at_Node'. destruct kids as [|k r]; [discriminate|].
        destruct d as [|d]; [discriminate|].
        change (fullt (S d) (Node s (k :: r))) with (forallb (fullt d) (k :: r)) in F.
        eapply IH; eauto.
    - intros d _ j s H. discriminate.
    - intros t ts IHt IHts d F j s H. simpl in F. apply andb_true_iff in F. destruct F as (Ft & Fts).
      rewrite sub_at_f_cons in H. rewrite level_at_f_cons. destruct (j <? size t).
      + f_equal. eapply IHt; eauto.
      + eapply IHts; eauto.
  Qed.
End A.
