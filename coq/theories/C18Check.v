(* C18Check.v — case checkers for the estimator glue. *)
From TF Require Import Base Estimator C11Check.
Open Scope Q_scope.
Definition chk_classes (c : list Z * list Z) : bool := let '(ys, cs) := c in Zlist_eqb (classes ys) cs.
Definition chk_predict (c : list Z * list (list Q) * list Z) : bool :=
  let '(cs, rows, out) := c in Zlist_eqb (map (predict_label cs) rows) out.
Definition chk_encode (c : list Z * list Z * list nat) : bool :=
  let '(cs, ys, out) := c in
  natlist_eqb (map (fun y => match encode cs y with Some i => i | None => length cs end) ys) out.
