(* TreeCRk.v — the k-tree walk  common_region(trees)  (model: TreeIdx.common_region_k / crk_loop)
   returns exactly the recursive common region of the k trees, for ALL k >= 1 and all tuples of
   well-formed trees.  Shared by C08 and C09.

   Recursive definition ([crk_rec]): the tuple of roots is a common column; when ALL k root
   arities agree the region continues into the arguments (i-th argument of every tree, for every
   i), otherwise the column is a border and nothing below it belongs to the region.

   Proof plan
     Part A  spec level:  crk_rec  =  a work-list formulation over k per-tree forests ([specF]),
             by transposition of a work list of k-tuples ([tagsW], [transp]).
     Part B  the loop: one iteration of crk_loop (crk_scan up to the first column whose arities
             differ, then crk_advance behind the k sub-terms rooted there) = the corresponding
             steps of [specF]  ([scan_forest], [advance_*], [crk_loop_forest]). *)
From Coq Require Import List Arith Bool Lia.
Import ListNotations.
From TF Require Import Tree TreeIdx TreeProofs TreeCR.

(* ================================================================ definitions *)
Section Spec.
  Context {sym : Type}.
  Variable arity : sym -> nat.
  Notation tree := (tree sym).

  Definition root_arities (ts : list tree) : list nat := map (fun t => arity (root t)) ts.
  (* the i-th argument of every tree of a tuple *)
  Definition kid_col (i : nat) (ts : list tree) : list tree := map (fun t => nth i (children t) t) ts.
  (* positions behind the trees of a tuple that starts at positions os *)
  Definition adv (os : list nat) (ts : list tree) : list nat :=
    map (fun ok => fst ok + size (snd ok)) (combine os ts).

  (* a scanned column (one position per tree) tagged with "is a border" *)
  Definition tcol : Type := (list nat * bool)%type.
  Fixpoint crk_kids (rec : list tree -> list nat -> list tcol) (n i : nat) (ts : list tree) (os : list nat)
    : list tcol :=
    match n with
    | 0 => []
    | S n' => rec (kid_col i ts) os ++ crk_kids rec n' (S i) ts (adv os (kid_col i ts))
    end.
  (* THE recursive common region of the k trees ts whose roots are at prefix positions os.
     Fuel bounds the depth of the recursion: any fuel > depth of the first tree gives the same
     result ([crk_rec_fuel]). *)
  Fixpoint crk_rec (fuel : nat) (ts : list tree) (os : list nat) : list tcol :=
    match fuel with
    | 0 => []
    | S f =>
      if all_eqb (root_arities ts) then
        (os, false) :: crk_kids (crk_rec f) (hd 0 (root_arities ts)) 0 ts (map S os)
      else [(os, true)]
    end.
  (* what the walk returns: every column, and the border columns *)
  Definition region_of (L : list tcol) : list (list nat) * list (list nat) :=
    (map fst L, map fst (filter (@snd _ _) L)).

  (* ---- work list of k-tuples *)
  Fixpoint tagsW (d : nat) (W : list (list tree)) (os : list nat) : list tcol :=
    match W with
    | [] => []
    | ts :: W' => crk_rec d ts os ++ tagsW d W' (adv os ts)
    end.
  Definition advW (os : list nat) (W : list (list tree)) : list nat := fold_left adv W os.
  Definition kids_cols (n i : nat) (ts : list tree) : list (list tree) :=
    map (fun i => kid_col i ts) (seq i n).

  (* ---- work list as k forests, one per tree *)
  Fixpoint heads (Fs : list (list tree)) : option (list tree) :=
    match Fs with
    | [] => Some []
    | F :: r => match F, heads r with
                | t :: _, Some hs => Some (t :: hs)
                | _, _ => None
                end
    end.
  Definition expand (F : list tree) : list tree :=
    match F with [] => [] | t :: r => children t ++ r end.
  Fixpoint specF (fuel : nat) (Fs : list (list tree)) (os : list nat) : list tcol :=
    match fuel with
    | 0 => []
    | S f =>
      match heads Fs with
      | None => []
      | Some hs =>
        if all_eqb (root_arities hs) then (os, false) :: specF f (map expand Fs) (map S os)
        else (os, true) :: specF f (map (@tl _) Fs) (adv os hs)
      end
    end.

  (* transposition: k-tuples -> k forests *)
  Definition zipcons (ts : list tree) (Fs : list (list tree)) : list (list tree) :=
    map (fun p => fst p :: snd p) (combine ts Fs).
  Definition transp (k : nat) (W : list (list tree)) : list (list tree) :=
    fold_right zipcons (repeat [] k) W.
End Spec.

(* ================================================================ Part A: spec level *)
Section PartA.
  Context {sym : Type}.
  Variable arity : sym -> nat.
  Notation tree := (tree sym).
  Notation wft := (wft arity).
  Notation wff := (wff arity).
  Notation crk_rec := (crk_rec arity).
  Notation tagsW := (tagsW arity).
  Notation specF := (specF arity).
  Notation root_arities := (root_arities arity).

  Lemma child_depth_lt s (kids : list tree) u : In u kids -> depth u < depth (Node s kids).
  Proof.
    change (depth (Node s kids)) with (fold_right (fun k m => Nat.max (S (depth k)) m) 0 kids).
    induction kids as [|k r IH]; intros H; [destruct H|].
    cbn [fold_right]. destruct H as [->|H]; [lia|]. specialize (IH H). lia.
  Qed.

  Lemma wft_child s (kids : list tree) u : wft (Node s kids) = true -> In u kids -> wft u = true.
  Proof.
    intros W H. apply wft_Node in W. destruct W as [_ W]. unfold Tree.wff in W.
    rewrite forallb_forall in W. auto.
  Qed.

  Lemma crk_kids_tagsW f : forall n i (ts : list tree) os,
    crk_kids (crk_rec f) n i ts os = tagsW f (kids_cols n i ts) os.
  Proof.
    induction n as [|n IH]; intros i ts os; simpl; auto. rewrite IH. reflexivity.
  Qed.

  Lemma tagsW_app d : forall (A B : list (list tree)) os,
    tagsW d (A ++ B) os = tagsW d A os ++ tagsW d B (advW os A).
  Proof.
    induction A as [|ts A IH]; intros B os; simpl; auto.
    rewrite IH, app_assoc. reflexivity.
  Qed.

  (* ---- fuel independence *)
  Lemma crk_kids_ext (r1 r2 : list tree -> list nat -> list tcol) : forall n i (ts : list tree) os,
    (forall j os', i <= j < i + n -> r1 (kid_col j ts) os' = r2 (kid_col j ts) os') ->
    crk_kids r1 n i ts os = crk_kids r2 n i ts os.
  Proof.
    induction n as [|n IH]; intros i ts os H; simpl; auto.
    rewrite H by lia. f_equal. apply IH. intros j os' Hj. apply H. lia.
  Qed.

  Lemma crk_rec_fuel : forall d d' (t0 : tree) ts' os, wft t0 = true ->
    depth t0 < d -> depth t0 < d' -> crk_rec d (t0 :: ts') os = crk_rec d' (t0 :: ts') os.
  Proof.
    induction d as [|d IH]; intros d' t0 ts' os W H H'; [lia|]. destruct d' as [|d']; [lia|].
    cbn [TreeCRk.crk_rec]. destruct (all_eqb (root_arities (t0 :: ts'))); auto. f_equal.
    apply crk_kids_ext. intros j os' Hj. cbn [TreeCRk.root_arities map hd] in Hj.
    destruct t0 as [s kids]. cbn [root] in Hj. cbn [kid_col map children].
    pose proof W as W'. apply wft_Node in W'. destruct W' as [L _].
    assert (Hin : In (nth j kids (Node s kids)) kids) by (apply nth_In; lia).
    pose proof (child_depth_lt s kids _ Hin). apply IH; try lia. eapply wft_child; eauto.
  Qed.

  (* every tuple of the work list starts with a well-formed tree of depth < d *)
  Definition shallow (d : nat) (W : list (list tree)) : Prop :=
    Forall (fun ts => match ts with t0 :: _ => wft t0 = true /\ depth t0 < d | [] => False end) W.

  Lemma tagsW_fuel d d' : forall (W : list (list tree)) os, shallow d W -> shallow d' W ->
    tagsW d W os = tagsW d' W os.
  Proof.
    induction W as [|ts W IH]; intros os H H'; simpl; auto.
    inversion H as [|? ? H1 H2]; subst. inversion H' as [|? ? H1' H2']; subst.
    destruct ts as [|t0 ts']; [destruct H1|]. destruct H1 as [W0 D0]. destruct H1' as [_ D0'].
    rewrite (crk_rec_fuel d d' t0 ts' os W0 D0 D0'), (IH _ H2 H2'). reflexivity.
  Qed.

  (* ---- transposition *)
  Lemma heads_zipcons : forall (ts : list tree) Fs, length ts = length Fs -> heads (zipcons ts Fs) = Some ts.
  Proof.
    induction ts as [|t ts IH]; intros [|F Fs] L; simpl in *; try discriminate; auto.
    unfold zipcons in IH. rewrite IH by lia. reflexivity.
  Qed.
  Lemma tl_zipcons : forall (ts : list tree) Fs, length ts = length Fs -> map (@tl _) (zipcons ts Fs) = Fs.
  Proof.
    induction ts as [|t ts IH]; intros [|F Fs] L; simpl in *; try discriminate; auto.
    unfold zipcons in IH. rewrite IH by lia. reflexivity.
  Qed.
  Lemma zipcons_length (ts : list tree) Fs : length ts = length Fs -> length (zipcons ts Fs) = length Fs.
  Proof. intros L. unfold zipcons. rewrite map_length, combine_length. lia. Qed.

  Lemma transp_length k : forall W : list (list tree), Forall (fun ts => length ts = k) W ->
    length (transp k W) = k.
  Proof.
    induction W as [|ts W IH]; intros H; simpl.
    - apply repeat_length.
    - inversion H; subst. rewrite zipcons_length; rewrite IH; auto.
  Qed.

  Lemma heads_repeat_nil k : 1 <= k -> heads (repeat (@nil tree) k) = None.
  Proof. destruct k; [lia|]. reflexivity. Qed.

  Lemma firstn_S_skipn {A} (l : list A) i n d : i < length l ->
    firstn (S n) (skipn i l) = nth i l d :: firstn n (skipn (S i) l).
  Proof.
    revert i; induction l as [|x l IH]; intros [|i] H; simpl in *; try lia; auto.
    apply (IH i). lia.
  Qed.

  (* expanding the heads of the forests = putting the columns of arguments in front of the work list *)
  Lemma expand_zip_kids : forall n i (ts : list tree) Fs, length ts = length Fs ->
    (forall t, In t ts -> i + n <= length (children t)) ->
    fold_right zipcons Fs (kids_cols n i ts)
    = map (fun p => firstn n (skipn i (children (fst p))) ++ snd p) (combine ts Fs).
  Proof.
    induction n as [|n IH]; intros i ts Fs L H.
    - simpl. clear H. revert Fs L. induction ts as [|t ts IHt]; intros [|F Fs] L; simpl in *; try discriminate; auto.
      f_equal. apply IHt. lia.
    - unfold kids_cols. simpl seq. simpl map. simpl fold_right.
      change (map (fun i0 => kid_col i0 ts) (seq (S i) n)) with (kids_cols n (S i) ts).
      rewrite IH by (auto; intros t Ht; specialize (H t Ht); lia).
      clear IH. revert Fs L. induction ts as [|t ts IHt]; intros [|F Fs] L; cbn [length] in L; try discriminate;
        [reflexivity|].
      unfold zipcons, kid_col in *. cbn [map combine fst snd]. f_equal.
      + change (match skipn i (children t) with [] => [] | a :: l => a :: firstn n l end)
          with (firstn (S n) (skipn i (children t))).
        rewrite (firstn_S_skipn (children t) i n t) by (specialize (H t (or_introl eq_refl)); lia). reflexivity.
      + apply IHt; [intros t' Ht'; apply H; right; auto | lia].
  Qed.

  Lemma expand_transp (ts : list tree) Fs ar : length ts = length Fs ->
    (forall t, In t ts -> length (children t) = ar) ->
    map expand (zipcons ts Fs) = fold_right zipcons Fs (kids_cols ar 0 ts).
  Proof.
    intros L H. rewrite expand_zip_kids by (auto; intros t Ht; rewrite (H t Ht); lia).
    revert Fs L. induction ts as [|t ts IH]; intros [|F Fs] L; simpl in *; try discriminate; auto.
    unfold zipcons in *. simpl. f_equal.
    - rewrite <- (H t (or_introl eq_refl)), firstn_all. reflexivity.
    - apply IH; [intros t' Ht'; apply H; auto | lia].
  Qed.

  Lemma transp_app k (A B : list (list tree)) : transp k (A ++ B) = fold_right zipcons (transp k B) A.
  Proof. unfold transp. apply fold_right_app. Qed.

  (* positions: behind all the arguments = behind the tree *)
  Lemma advW_kids : forall n i (ts : list tree) os, length os = length ts ->
    (forall t, In t ts -> i + n <= length (children t)) ->
    advW os (kids_cols n i ts)
    = map (fun ok => fst ok + sizes (firstn n (skipn i (children (snd ok))))) (combine os ts).
  Proof.
    induction n as [|n IH]; intros i ts os L H.
    - simpl. clear H. revert ts L. induction os as [|o os IHo]; intros [|t ts] L; simpl in *; try discriminate; auto.
      unfold sizes; simpl. rewrite Nat.add_0_r. f_equal. apply IHo. lia.
    - unfold kids_cols, advW. simpl seq. simpl map. simpl fold_left.
      change (fold_left adv (map (fun i0 => kid_col i0 ts) (seq (S i) n)) (adv os (kid_col i ts)))
        with (advW (adv os (kid_col i ts)) (kids_cols n (S i) ts)).
      rewrite IH.
      + clear IH. revert ts L H. induction os as [|o os IHo]; intros [|t ts] L H; cbn [length] in L; try discriminate;
          [reflexivity|].
        unfold adv, kid_col in *. cbn [map combine fst snd]. f_equal.
        * change (match skipn i (children t) with [] => [] | a :: l => a :: firstn n l end)
            with (firstn (S n) (skipn i (children t))).
          rewrite (firstn_S_skipn (children t) i n t) by (specialize (H t (or_introl eq_refl)); lia).
          rewrite sizes_cons. lia.
        * apply IHo; [lia | intros t' Ht'; apply H; right; auto].
      + unfold adv, kid_col. rewrite map_length, combine_length, map_length. lia.
      + intros t Ht. specialize (H t Ht). lia.
  Qed.

  Lemma sizes_children (t : tree) : S (sizes (children t)) = size t.
  Proof. destruct t; reflexivity. Qed.

  Lemma advW_all_kids (ts : list tree) os ar : length os = length ts ->
    (forall t, In t ts -> length (children t) = ar) ->
    advW (map S os) (kids_cols ar 0 ts) = adv os ts.
  Proof.
    intros L H. rewrite advW_kids; [| rewrite map_length; auto | intros t Ht; rewrite (H t Ht); lia].
    unfold adv. revert ts L H. induction os as [|o os IH]; intros [|t ts] L H; simpl in *; try discriminate; auto.
    f_equal.
    - rewrite <- (H t (or_introl eq_refl)), firstn_all, <- sizes_children. lia.
    - apply IH; [lia | intros t' Ht'; apply H; auto].
  Qed.

  Lemma all_eqb_same : forall (l : list nat) x y, all_eqb l = true -> In x l -> In y l -> x = y.
  Proof.
    intros [|a l] x y H Hx Hy; [destruct Hx|]. simpl in H. rewrite forallb_forall in H.
    assert (E : forall z, In z (a :: l) -> z = a).
    { intros z [<-|Hz]; auto. apply H in Hz. apply Nat.eqb_eq in Hz. auto. }
    rewrite (E x Hx), (E y Hy). reflexivity.
  Qed.

  (* all trees of a tuple with equal root arities have that many children *)
  Lemma same_arity_children (t0 : tree) ts' : Forall (fun t => wft t = true) (t0 :: ts') ->
    all_eqb (root_arities (t0 :: ts')) = true ->
    forall t, In t (t0 :: ts') -> length (children t) = arity (root t0).
  Proof.
    intros W E t Ht. rewrite Forall_forall in W. pose proof (W t Ht) as Wt.
    destruct t as [s kids]. apply wft_Node in Wt. destruct Wt as [L _]. simpl children. rewrite L.
    apply (all_eqb_same (root_arities (t0 :: ts'))); auto.
    - unfold TreeCRk.root_arities. apply in_map_iff. exists (Node s kids). auto.
    - left. reflexivity.
  Qed.

  (* size of the first forest of the transposed work list *)
  Definition size0 (W : list (list tree)) : nat :=
    list_sum (map (fun ts => match ts with t0 :: _ => size t0 | [] => 0 end) W).

  Definition tuples_ok (k : nat) (W : list (list tree)) : Prop :=
    Forall (fun ts => length ts = k /\ Forall (fun t => wft t = true) ts) W.

  Lemma kids_cols_ok k (t0 : tree) ts' : length (t0 :: ts') = k ->
    Forall (fun t => wft t = true) (t0 :: ts') ->
    all_eqb (root_arities (t0 :: ts')) = true ->
    tuples_ok k (kids_cols (arity (root t0)) 0 (t0 :: ts')).
  Proof.
    intros Lk W E. unfold tuples_ok, kids_cols. apply Forall_forall. intros c Hc.
    apply in_map_iff in Hc. destruct Hc as (i & <- & Hi). apply in_seq in Hi. split.
    - unfold kid_col. rewrite map_length. auto.
    - apply Forall_forall. intros u Hu. unfold kid_col in Hu. apply in_map_iff in Hu.
      destruct Hu as (t & <- & Ht).
      pose proof (same_arity_children t0 ts' W E t Ht) as Lc.
      rewrite Forall_forall in W. pose proof (W t Ht) as Wt. destruct t as [s kids]. simpl in *.
      eapply wft_child; eauto. apply nth_In. lia.
  Qed.

  Lemma kids_cols_shallow d (t0 : tree) ts' : wft t0 = true -> depth t0 < S d ->
    shallow d (kids_cols (arity (root t0)) 0 (t0 :: ts')).
  Proof.
    intros W D. unfold shallow, kids_cols. apply Forall_forall. intros c Hc.
    apply in_map_iff in Hc. destruct Hc as (i & <- & Hi). apply in_seq in Hi.
    destruct t0 as [s kids]. cbn [kid_col map children root] in *.
    pose proof W as W'. apply wft_Node in W'. destruct W' as [L _].
    assert (Hin : In (nth i kids (Node s kids)) kids) by (apply nth_In; lia).
    split; [eapply wft_child; eauto|]. pose proof (child_depth_lt s kids _ Hin). lia.
  Qed.

  Lemma shallow_mono d d' (W : list (list tree)) : d <= d' -> shallow d W -> shallow d' W.
  Proof.
    intros Hd H. unfold shallow in *. eapply Forall_impl; [|exact H].
    intros [|t0 ts']; auto. intros [A B]. split; auto. lia.
  Qed.

  Lemma size0_app (A B : list (list tree)) : size0 (A ++ B) = size0 A + size0 B.
  Proof. unfold size0. rewrite map_app, list_sum_app. reflexivity. Qed.

  Lemma kids_cols_S n i (ts : list tree) : kids_cols (S n) i ts = kid_col i ts :: kids_cols n (S i) ts.
  Proof. reflexivity. Qed.
  Lemma size0_cons (c : list tree) W :
    size0 (c :: W) = match c with t0 :: _ => size t0 | [] => 0 end + size0 W.
  Proof. reflexivity. Qed.

  Lemma size0_kids : forall n i (t0 : tree) ts', i + n <= length (children t0) ->
    size0 (kids_cols n i (t0 :: ts')) = sizes (firstn n (skipn i (children t0))).
  Proof.
    induction n as [|n IH]; intros i t0 ts' H; [reflexivity|].
    rewrite kids_cols_S, size0_cons, IH by lia. cbn [kid_col map].
    rewrite (firstn_S_skipn (children t0) i n t0) by lia. rewrite sizes_cons. reflexivity.
  Qed.

  (* the work-list formulation over forests = the work-list formulation over tuples *)
  Theorem specF_tagsW k : 1 <= k -> forall fuel D (W : list (list tree)) os,
    tuples_ok k W -> length os = k -> size0 W <= fuel -> shallow D W ->
    specF fuel (transp k W) os = tagsW D W os.
  Proof.
    intros Hk. induction fuel as [|f IH]; intros D W os OK Lo Hf Sh.
    - destruct W as [|ts W]; [reflexivity|]. exfalso.
      inversion OK as [|? ? [L1 W1] _]; subst. destruct ts as [|t0 ts']; [simpl in *; lia|].
      unfold size0 in Hf. simpl in Hf. pose proof (size_pos t0). lia.
    - destruct W as [|ts W].
      + simpl. rewrite heads_repeat_nil; auto.
      + inversion OK as [|? ? [L1 W1] OK']; subst. inversion Sh as [|? ? Sh1 Sh']; subst.
        destruct ts as [|t0 ts']; [destruct Sh1|]. destruct Sh1 as [W0 D0].
        destruct D as [|d]; [lia|].
        assert (LT : length (t0 :: ts') = length (transp (length os) W)).
        { rewrite transp_length; auto. eapply Forall_impl; [|exact OK']. intros a [A _]; exact A. }
        cbn [TreeCRk.specF transp fold_right]. fold (transp (length os) W).
        rewrite heads_zipcons by exact LT.
        cbn [TreeCRk.tagsW TreeCRk.crk_rec].
        destruct (all_eqb (root_arities (t0 :: ts'))) eqn:E.
        * pose proof (same_arity_children t0 ts' W1 E) as CH.
          cbn [TreeCRk.root_arities map hd].
          rewrite (expand_transp (t0 :: ts') _ (arity (root t0)) LT CH), <- transp_app.
          rewrite (IH (S d)).
          -- rewrite tagsW_app, crk_kids_tagsW.
             rewrite (advW_all_kids (t0 :: ts') os (arity (root t0))) by auto.
             rewrite (tagsW_fuel (S d) d (kids_cols (arity (root t0)) 0 (t0 :: ts'))).
             ++ reflexivity.
             ++ apply (shallow_mono d); [lia|]. apply kids_cols_shallow; auto.
             ++ apply kids_cols_shallow; auto.
          -- unfold tuples_ok. apply Forall_app. split; auto. apply kids_cols_ok; auto.
          -- rewrite map_length. auto.
          -- rewrite size0_app, size0_kids by (rewrite (CH t0 (or_introl eq_refl)); lia).
             rewrite <- (CH t0 (or_introl eq_refl)), firstn_all.
             cbn [skipn]. unfold size0 in Hf. simpl in Hf. pose proof (sizes_children t0). unfold size0. lia.
          -- unfold shallow. apply Forall_app. split; auto.
             apply (shallow_mono d); [lia|]. apply kids_cols_shallow; auto.
        * rewrite tl_zipcons by exact LT. simpl app. apply (f_equal (cons (os, true))). apply IH; auto.
          -- unfold adv. rewrite map_length, combine_length. lia.
          -- unfold size0 in *. simpl in Hf. pose proof (size_pos t0). lia.
  Qed.
End PartA.

(* ================================================================ Part B: the loop *)
Inductive All3 {A B C : Type} (R : A -> B -> C -> Prop) : list A -> list B -> list C -> Prop :=
| All3_nil : All3 R [] [] []
| All3_cons a b c la lb lc : R a b c -> All3 R la lb lc -> All3 R (a :: la) (b :: lb) (c :: lc).

Lemma fold_min_spec : forall (l : list nat) b,
  (fold_right Nat.min b l <= b /\ forall x, In x l -> fold_right Nat.min b l <= x) /\
  (fold_right Nat.min b l = b \/ In (fold_right Nat.min b l) l).
Proof.
  induction l as [|x l IH]; intros b; simpl.
  - split; [split; [lia|intros x []]|left; reflexivity].
  - destruct (IH b) as [[A B] C]. split; [split|].
    + lia.
    + intros y [<-|Hy]; [lia|]. specialize (B y Hy). lia.
    + destruct (Nat.min_spec x (fold_right Nat.min b l)) as [[_ E]|[_ E]]; rewrite E.
      * right; left; reflexivity.
      * destruct C as [C|C]; [left; exact C|right; right; exact C].
Qed.

Lemma map_add_S (l : list nat) i : map S (map (fun o => o + i) l) = map (fun o => o + S i) l.
Proof. rewrite map_map. apply map_ext. intros; lia. Qed.
Lemma map_add_0 (l : list nat) : map (fun o => o + 0) l = l.
Proof. rewrite <- (map_id l) at 2. apply map_ext. intros; lia. Qed.

Lemma col_nil i : col [] [] i = Some [].
Proof. reflexivity. Qed.
Lemma col_cons a arrs o offs i :
  col (a :: arrs) (o :: offs) i =
  match nth_error a (o + i), col arrs offs i with
  | Some x, Some xs => Some (x :: xs)
  | _, _ => None
  end.
Proof. reflexivity. Qed.
Lemma crk_scan_S arrs offs i n :
  crk_scan arrs offs i (S n) =
  match col arrs offs i with
  | None => None
  | Some c =>
    if all_eqb c then
      match crk_scan arrs offs (S i) n with
      | Some (cs, last, b) => Some (map (fun o => o + i) offs :: cs, last, b)
      | None => None
      end
    else Some ([map (fun o => o + i) offs], i, true)
  end.
Proof. reflexivity. Qed.

Section PartB.
  Context {sym : Type}.
  Variable arity : sym -> nat.
  Notation tree := (tree sym).
  Notation nargs := (nargs arity).
  Notation wft := (wft arity).
  Notation wff := (wff arity).
  Notation specF := (specF arity).
  Notation root_arities := (root_arities arity).

  Definition aligned (m : nat) (Fs : list (list tree)) : Prop := Forall (fun F => length F = m) Fs.

  (* parent state: the array is  pre ++ (encoding of the pending forest F),  and position o + i
     is the start of that encoding *)
  Definition st (i : nat) (a : list nat) (o : nat) (F : list tree) : Prop :=
    wff F = true /\ exists pre, a = pre ++ nargs (flats F) /\ o + i = length pre.

  Lemma find_end_raw (t : tree) (pre rest : list nat) : wft t = true ->
    find_end (pre ++ nargs (flatten t) ++ rest) (length pre) = Some (length pre + size t).
  Proof.
    intros W. rewrite find_end_walk, skipn_app_len, (walk_wf arity t W 0 rest), walk_0.
    simpl. f_equal. lia.
  Qed.

  Lemma heads_some m : forall Fs : list (list tree), aligned m Fs -> 1 <= m -> exists hs, heads Fs = Some hs.
  Proof.
    induction Fs as [|F Fs IH]; intros A Hm; [exists []; reflexivity|].
    inversion A as [|? ? LF A']; subst. destruct (IH A' Hm) as [hs E]. destruct F as [|t r]; [simpl in Hm; lia|].
    exists (t :: hs). simpl. rewrite E. reflexivity.
  Qed.

  Lemma expand_sizes (F : list tree) : F <> [] -> S (sizes (expand F)) = sizes F.
  Proof.
    destruct F as [|t r]; [congruence|]. intros _. simpl expand. rewrite sizes_app, sizes_cons.
    pose proof (sizes_children t). lia.
  Qed.

  (* ---- one column *)
  Lemma col_heads i : forall arrs offs (Fs : list (list tree)) hs,
    All3 (st i) arrs offs Fs -> heads Fs = Some hs -> col arrs offs i = Some (root_arities hs).
  Proof.
    intros arrs offs Fs hs H. revert hs. induction H as [|a o F arrs offs Fs Hst H IH]; intros hs E.
    - simpl in E. inversion E; subst. reflexivity.
    - simpl in E. destruct F as [|[s kids] r]; [discriminate|].
      destruct (heads Fs) as [hs'|] eqn:E'; [|discriminate]. inversion E; subst.
      rewrite col_cons, (IH hs' eq_refl). destruct Hst as [_ (pre & -> & Lp)].
      rewrite Lp, nth_error_app2, Nat.sub_diag by lia. reflexivity.
  Qed.

  (* ---- the border step: behind the heads *)
  Lemma border_step i : forall arrs offs (Fs : list (list tree)) hs,
    All3 (st i) arrs offs Fs -> heads Fs = Some hs ->
    All3 (fun a o o' => find_end a (o + i) = Some o') arrs offs (adv (map (fun o => o + i) offs) hs) /\
    All3 (st 0) arrs (adv (map (fun o => o + i) offs) hs) (map (@tl _) Fs).
  Proof.
    intros arrs offs Fs hs H. revert hs. induction H as [|a o F arrs offs Fs Hst H IH]; intros hs E.
    - simpl in E. inversion E; subst. split; constructor.
    - simpl in E. destruct F as [|t r]; [discriminate|].
      destruct (heads Fs) as [hs'|] eqn:E'; [|discriminate]. inversion E; subst.
      destruct (IH hs' eq_refl) as [I1 I2]. destruct Hst as [W (pre & -> & Lp)].
      apply wff_cons in W. destruct W as [Wt Wr].
      unfold adv. cbn [map combine fst snd]. fold (adv (map (fun o0 => o0 + i) offs) hs').
      rewrite flats_cons, (nargs_app arity). split; constructor; auto.
      + rewrite Lp. apply find_end_raw; auto.
      + split; [exact Wr|]. exists (pre ++ nargs (flatten t)). split.
        * rewrite <- app_assoc. reflexivity.
        * rewrite app_length, (nargs_length arity), flatten_length. simpl tl. lia.
  Qed.

  (* ---- the common step: into the arguments of the heads *)
  Lemma common_step i : forall arrs offs (Fs : list (list tree)),
    All3 (st i) arrs offs Fs -> (forall F, In F Fs -> F <> []) ->
    All3 (st (S i)) arrs offs (map expand Fs).
  Proof.
    intros arrs offs Fs H. induction H as [|a o F arrs offs Fs Hst H IH]; intros NE; [constructor|].
    simpl map. constructor; [|apply IH; intros F' HF'; apply NE; right; auto].
    destruct F as [|[s kids] r]; [exfalso; apply (NE []); [left; reflexivity|reflexivity]|].
    destruct Hst as [W (pre & -> & Lp)]. apply wff_cons in W. destruct W as [Wt Wr].
    apply wft_Node in Wt. destruct Wt as [_ Wk]. simpl expand. split.
    - rewrite wff_app, Wk, Wr. reflexivity.
    - exists (pre ++ [arity s]). split.
      + rewrite flats_cons, flatten_Node, flats_app, <- app_assoc. reflexivity.
      + rewrite app_length. simpl. lia.
  Qed.

  Lemma expand_aligned m (Fs : list (list tree)) hs ar : aligned m Fs -> 1 <= m -> heads Fs = Some hs ->
    (forall t, In t hs -> length (children t) = ar) -> aligned (ar + (m - 1)) (map expand Fs).
  Proof.
    revert hs. induction Fs as [|F Fs IH]; intros hs A Hm E CH; [constructor|].
    inversion A as [|? ? LF A']; subst. simpl in E. destruct F as [|t r]; [discriminate|].
    destruct (heads Fs) as [hs'|] eqn:E'; [|discriminate]. inversion E; subst.
    simpl map. constructor.
    - simpl expand. rewrite app_length, (CH t (or_introl eq_refl)). simpl length. lia.
    - apply (IH hs'); auto. intros t' Ht'. apply CH. right; auto.
  Qed.

  Lemma heads_wf i arrs offs (Fs : list (list tree)) hs : All3 (st i) arrs offs Fs -> heads Fs = Some hs ->
    Forall (fun t => wft t = true) hs.
  Proof.
    intros H. revert hs. induction H as [|a o F arrs offs Fs Hst H IH]; intros hs E.
    - simpl in E. inversion E; constructor.
    - simpl in E. destruct F as [|t r]; [discriminate|].
      destruct (heads Fs) as [hs'|] eqn:E'; [|discriminate]. inversion E; subst.
      destruct Hst as [W _]. apply wff_cons in W. constructor; [tauto|]. apply IH; reflexivity.
  Qed.

  Lemma heads_hd (Fs : list (list tree)) hs : heads Fs = Some hs -> Fs <> [] ->
    exists t0 r0 hs' Fs', Fs = (t0 :: r0) :: Fs' /\ hs = t0 :: hs'.
  Proof.
    destruct Fs as [|F Fs']; [congruence|]. intros E _. simpl in E. destruct F as [|t0 r0]; [discriminate|].
    destruct (heads Fs') as [hs'|]; [|discriminate]. inversion E; subst. eauto 6.
  Qed.

  Lemma tl_aligned m (Fs : list (list tree)) : aligned m Fs -> aligned (m - 1) (map (@tl _) Fs).
  Proof.
    intros A. induction A as [|F Fs L A IH]; simpl; constructor; auto.
    destruct F; simpl in *; lia.
  Qed.

  Lemma all_nil_heads (Fs : list (list tree)) : Fs <> [] -> aligned 0 Fs -> heads Fs = None.
  Proof.
    destruct Fs as [|F Fs]; [congruence|]. intros _ A. inversion A as [|? ? L _]; subst.
    destruct F; [reflexivity|discriminate].
  Qed.
  Lemma specF_all_nil fuel (Fs : list (list tree)) os : Fs <> [] -> aligned 0 Fs -> specF fuel Fs os = [].
  Proof. intros NE A. destruct fuel; simpl; auto. rewrite all_nil_heads; auto. Qed.

  (* ---- the scan: up to and including the first column whose arities differ *)
  Lemma scan_forest : forall N (Fs : list (list tree)) arrs offs i n fuel m,
    Fs <> [] -> aligned m Fs -> 1 <= m -> All3 (st i) arrs offs Fs ->
    sizes (hd [] Fs) <= N -> sizes (hd [] Fs) <= fuel ->
    (forall F, In F Fs -> n <= sizes F) -> (exists F, In F Fs /\ n = sizes F) ->
    (exists cs,
        crk_scan arrs offs i n = Some (cs, i + n - 1, false) /\
        specF fuel Fs (map (fun o => o + i) offs) = map (fun c => (c, false)) cs /\
        Forall2 (fun a o => find_end a (o + (i + n - 1)) = Some (length a)) arrs offs)
    \/
    (exists e cs (Fs' : list (list tree)) offs' m',
        crk_scan arrs offs i n = Some (cs ++ [map (fun o => o + (i + e)) offs], i + e, true) /\
        specF fuel Fs (map (fun o => o + i) offs)
          = map (fun c => (c, false)) cs ++ (map (fun o => o + (i + e)) offs, true) :: specF (fuel - S e) Fs' offs' /\
        All3 (fun a o o' => find_end a (o + (i + e)) = Some o') arrs offs offs' /\
        All3 (st 0) arrs offs' Fs' /\ aligned m' Fs' /\
        sizes (hd [] Fs') + S e <= sizes (hd [] Fs)).
  Proof.
    induction N as [|N IH]; intros Fs arrs offs i n fuel m NE A Hm H HN Hf Hle Heq.
    - exfalso. destruct Fs as [|F Fs]; [congruence|]. inversion A as [|? ? LF _]; subst.
      destruct F as [|t r]; [simpl in Hm; lia|]. simpl hd in HN. rewrite sizes_cons in HN. pose proof (size_pos t). lia.
    - destruct (heads_some m Fs A Hm) as [hs E].
      destruct (heads_hd Fs hs E NE) as (t0 & r0 & hs' & Fs0 & -> & ->).
      assert (NEF : forall F, In F ((t0 :: r0) :: Fs0) -> F <> []).
      { intros F HF. pose proof A as A0. unfold aligned in A0. rewrite Forall_forall in A0. specialize (A0 F HF).
        destruct F; [simpl in A0; lia|discriminate]. }
      simpl hd in HN, Hf. rewrite sizes_cons in HN, Hf. pose proof (size_pos t0) as P0.
      destruct fuel as [|f]; [lia|].
      assert (Hn : 1 <= n).
      { destruct Heq as (F & HF & ->). pose proof (NEF F HF). destruct F as [|t r]; [congruence|].
        rewrite sizes_cons. pose proof (size_pos t). lia. }
      destruct n as [|n]; [lia|].
      rewrite crk_scan_S, (col_heads i _ _ _ _ H E).
      cbn [TreeCRk.specF]. rewrite E.
      pose proof (heads_wf i _ _ _ _ H E) as WH.
      destruct (all_eqb (root_arities (t0 :: hs'))) eqn:EA.
      + (* all arities agree: continue into the arguments *)
        pose proof (same_arity_children arity t0 hs' WH EA) as CH.
        set (ar := arity (root t0)) in *.
        pose proof (expand_aligned m _ _ ar A Hm E CH) as A'.
        pose proof (common_step i _ _ _ H NEF) as H'.
        assert (NE' : map expand ((t0 :: r0) :: Fs0) <> []) by discriminate.
        assert (Hle' : forall F, In F (map expand ((t0 :: r0) :: Fs0)) -> n <= sizes F).
        { intros F' HF'. apply in_map_iff in HF'. destruct HF' as (F & <- & HF).
          pose proof (expand_sizes F (NEF F HF)). specialize (Hle F HF). lia. }
        assert (Heq' : exists F, In F (map expand ((t0 :: r0) :: Fs0)) /\ n = sizes F).
        { destruct Heq as (F & HF & EF). exists (expand F). split; [apply in_map; auto|].
          pose proof (expand_sizes F (NEF F HF)). lia. }
        assert (S0 : S (sizes (hd [] (map expand ((t0 :: r0) :: Fs0)))) = size t0 + sizes r0).
        { change (hd [] (map expand ((t0 :: r0) :: Fs0))) with (expand (t0 :: r0)).
          rewrite (expand_sizes (t0 :: r0)) by discriminate. apply sizes_cons. }
        destruct (Nat.eq_dec (ar + (m - 1)) 0) as [Z|NZ].
        * (* nothing left: every pending forest was a single leaf *)
          left. rewrite Z in A'.
          assert (n = 0).
          { destruct Heq' as (F' & HF' & ->). pose proof A' as A0. unfold aligned in A0.
            rewrite Forall_forall in A0. specialize (A0 F' HF'). destruct F'; [reflexivity|discriminate]. }
          subst n. exists [map (fun o => o + i) offs]. split; [|split].
          -- simpl crk_scan. replace (i + 1 - 1) with (i - 0) by lia. reflexivity.
          -- rewrite specF_all_nil; auto.
          -- replace (i + 1 - 1) with i by lia. clear - H A Z CH E Hm.
             assert (CH' : forall t, In t (t0 :: hs') -> children t = []).
             { intros t Ht. specialize (CH t Ht). destruct (children t); [reflexivity|simpl in CH; lia]. }
             assert (Hm1 : m = 1) by lia. subst m. clear Z CH Hm.
             revert E CH'. generalize (t0 :: hs') as hs. intros hs.
             revert hs. induction H as [|a o F arrs offs Fs Hst H IH]; intros hs E CH'; [constructor|].
             inversion A as [|? ? LF A']; subst. simpl in E. destruct F as [|t r]; [discriminate|].
             destruct r; [|discriminate].
             destruct (heads Fs) as [hs''|] eqn:E''; [|discriminate]. inversion E; subst.
             constructor; [|apply (IH A' hs''); auto; intros t' Ht'; apply CH'; right; auto].
             destruct Hst as [W (pre & -> & Lp)]. apply wff_cons in W. destruct W as [Wt _].
             rewrite Lp. pose proof (find_end_raw t pre [] Wt) as FE.
             rewrite !app_nil_r in FE. unfold flats. simpl flat_map. rewrite app_nil_r, FE.
             rewrite app_length, (nargs_length arity), flatten_length. reflexivity.
        * assert (Hm' : 1 <= ar + (m - 1)) by lia.
          assert (HN' : sizes (hd [] (map expand ((t0 :: r0) :: Fs0))) <= N) by lia.
          assert (Hf' : sizes (hd [] (map expand ((t0 :: r0) :: Fs0))) <= f) by lia.
          destruct (IH _ arrs offs (S i) n f _ NE' A' Hm' H' HN' Hf' Hle' Heq')
            as [(cs & SC & SP & EN) | (e & cs & Fs' & offs' & m' & SC & SP & FE & ST & AL & SZ)].
          -- left. exists (map (fun o => o + i) offs :: cs). rewrite SC.
             replace (S i + n - 1) with (i + S n - 1) by lia. split; [reflexivity|]. split.
             ++ rewrite map_add_S, SP. reflexivity.
             ++ replace (i + S n - 1) with (S i + n - 1) by lia. exact EN.
          -- right. exists (S e), (map (fun o => o + i) offs :: cs), Fs', offs', m'. rewrite SC.
             replace (S i + e) with (i + S e) in * by lia. split; [reflexivity|]. split; [|split; [|split; [|split]]]; auto.
             ++ rewrite map_add_S, SP. reflexivity.
             ++ simpl hd. rewrite sizes_cons. lia.
      + (* the arities differ: border; jump behind the heads *)
        right. destruct (border_step i _ _ _ _ H E) as [B1 B2].
        exists 0, [], (map (@tl _) ((t0 :: r0) :: Fs0)), (adv (map (fun o => o + i) offs) (t0 :: hs')), (m - 1).
        rewrite Nat.add_0_r. split; [reflexivity|]. split; [|split; [|split; [|split]]]; auto.
        * simpl. rewrite Nat.sub_0_r. reflexivity.
        * apply tl_aligned; auto.
        * cbn [map hd tl]. rewrite sizes_cons. lia.
  Qed.
End PartB.

(* ================================================================ Part C: advance, the loop, the theorem *)
Section PartC.
  Context {sym : Type}.
  Variable arity : sym -> nat.
  Notation tree := (tree sym).
  Notation nargs := (nargs arity).
  Notation wft := (wft arity).
  Notation wff := (wff arity).
  Notation specF := (specF arity).
  Notation st := (st arity).

  Lemma region_of_common (cs : list (list nat)) : region_of (map (fun c => (c, false)) cs) = (cs, []).
  Proof.
    unfold region_of. f_equal.
    - rewrite map_map. simpl. apply map_id.
    - induction cs; simpl; auto.
  Qed.
  Lemma region_of_app (L1 L2 : list tcol) :
    region_of (L1 ++ L2) = (fst (region_of L1) ++ fst (region_of L2), snd (region_of L1) ++ snd (region_of L2)).
  Proof. unfold region_of. simpl. rewrite filter_app, !map_app. reflexivity. Qed.
  Lemma region_of_border p (L : list tcol) :
    region_of ((p, true) :: L) = (p :: fst (region_of L), p :: snd (region_of L)).
  Proof. reflexivity. Qed.

  Lemma st_len (a : list nat) o (F : list tree) : st 0 a o F -> length a - o = sizes F /\ o <= length a.
  Proof.
    intros [_ (pre & -> & Lp)]. rewrite app_length, (nargs_length arity), flats_length. lia.
  Qed.

  Lemma iters_map : forall arrs offs (Fs : list (list tree)), All3 (st 0) arrs offs Fs ->
    map (fun ao => length (fst ao) - snd ao) (combine arrs offs) = map sizes Fs.
  Proof.
    intros arrs offs Fs H. induction H as [|a o F arrs offs Fs Hst H IH]; simpl; auto.
    rewrite IH. destruct (st_len a o F Hst) as [E _]. rewrite E. reflexivity.
  Qed.

  Lemma advance_continue last : forall arrs offs offs' (Fs' : list (list tree)),
    All3 (fun a o o' => find_end a (o + last) = Some o') arrs offs offs' ->
    All3 (st 0) arrs offs' Fs' -> (forall F, In F Fs' -> F <> []) ->
    crk_advance (combine arrs offs) last = Some (offs', false).
  Proof.
    intros arrs offs offs' Fs' H. revert Fs'.
    induction H as [|a o o' arrs offs offs' FE H IH]; intros Fs' H2 NE; [reflexivity|].
    inversion H2 as [|? ? F ? ? Fs0 Hst H2']; subst. simpl. rewrite FE.
    destruct (st_len a o' F Hst) as [E Lo].
    assert (1 <= sizes F).
    { pose proof (NE F (or_introl eq_refl)). destruct F as [|t r]; [congruence|].
      rewrite sizes_cons. pose proof (size_pos t). lia. }
    replace (length a <=? o') with false by (symmetry; apply Nat.leb_gt; lia).
    rewrite (IH Fs0 H2') by (intros F' HF'; apply NE; right; auto). reflexivity.
  Qed.

  Lemma advance_end last a0 o0 arrs offs e : find_end a0 (o0 + last) = Some e -> length a0 <= e ->
    exists x, crk_advance (combine (a0 :: arrs) (o0 :: offs)) last = Some (x, true).
  Proof.
    intros FE L. simpl. rewrite FE. replace (length a0 <=? e) with true by (symmetry; apply Nat.leb_le; lia).
    eauto.
  Qed.

  Lemma crk_loop_forest : forall fuelL (Fs : list (list tree)) arrs offs m fuel,
    Fs <> [] -> aligned m Fs -> 1 <= m -> All3 (st 0) arrs offs Fs ->
    sizes (hd [] Fs) < fuelL -> sizes (hd [] Fs) <= fuel ->
    crk_loop fuelL arrs offs = Some (region_of (specF fuel Fs offs)).
  Proof.
    induction fuelL as [|fl IH]; intros Fs arrs offs m fuel NE A Hm H HL Hf; [lia|].
    cbn [crk_loop]. rewrite (iters_map _ _ _ H).
    assert (B0 : length (hd [] arrs) - hd 0 offs = sizes (hd [] Fs)).
    { inversion H as [|a o F ? ? ? Hst _]; subst; [congruence|]. simpl. apply (st_len a o F Hst). }
    rewrite B0.
    set (iters := fold_right Nat.min (sizes (hd [] Fs)) (map sizes Fs)).
    destruct (fold_min_spec (map sizes Fs) (sizes (hd [] Fs))) as [[I1 I2] I3]. fold iters in I1, I2, I3.
    assert (Hle : forall F, In F Fs -> iters <= sizes F).
    { intros F HF. apply I2. apply in_map. exact HF. }
    assert (Heq : exists F, In F Fs /\ iters = sizes F).
    { destruct I3 as [I3|I3].
      - destruct Fs as [|F0 Fs0]; [congruence|]. exists F0. split; [left; reflexivity|exact I3].
      - apply in_map_iff in I3. destruct I3 as (F & EF & HF). exists F. auto. }
    destruct (scan_forest arity (sizes (hd [] Fs)) Fs arrs offs 0 iters fuel m NE A Hm H (le_n _) Hf Hle Heq)
      as [(cs & SC & SP & EN) | (e & cs & Fs' & offs' & m' & SC & SP & FE & ST & AL & SZ)].
    - (* the scan reached the end of every tree *)
      rewrite SC. rewrite map_add_0 in SP. rewrite SP, region_of_common.
      inversion EN as [|a0 o0 arrs0 offs0 E0 _]; subst.
      + inversion H; subst; congruence.
      + destruct (advance_end (0 + iters - 1) a0 o0 arrs0 offs0 (length a0) E0 (le_n _)) as [x AD].
        rewrite AD. reflexivity.
    - (* border at column e *)
      rewrite SC. rewrite map_add_0 in SP. rewrite SP, region_of_app, region_of_common, region_of_border.
      cbn [fst snd app]. simpl Nat.add in *.
      destruct (Nat.eq_dec m' 0) as [Z|NZ].
      + (* every tree is exhausted *)
        subst m'. assert (NE' : Fs' <> []).
        { inversion ST; subst; [inversion H; subst; congruence|discriminate]. }
        rewrite (specF_all_nil arity _ Fs' offs' NE' AL). cbn [region_of map filter fst snd].
        inversion FE as [|a0 o0 o0' arrs0 offs0 offs0' E0 FE']; subst; [inversion H; subst; congruence|].
        inversion ST as [|? ? F0' ? ? Fs0' Hst0 ST']; subst.
        inversion AL as [|? ? L0 _]; subst. destruct F0' as [|? ?]; [|discriminate].
        destruct (st_len a0 o0' [] Hst0) as [E1 _]. unfold sizes in E1; simpl in E1.
        destruct (advance_end e a0 o0 arrs0 offs0 o0' E0) as [x AD].
        { destruct Hst0 as [_ (pre & -> & Lp)]. simpl. rewrite app_nil_r. lia. }
        rewrite AD. reflexivity.
      + (* continue behind the k sub-terms *)
        assert (NEF : forall F, In F Fs' -> F <> []).
        { intros F HF. unfold aligned in AL. rewrite Forall_forall in AL. specialize (AL F HF).
          destruct F; [simpl in AL; lia|discriminate]. }
        rewrite (advance_continue e arrs offs offs' Fs' FE ST NEF).
        assert (NE' : Fs' <> []).
        { inversion ST; subst; [inversion H; subst; congruence|discriminate]. }
        rewrite (IH Fs' arrs offs' m' (fuel - S e)); auto; try lia.
        destruct (region_of (specF (fuel - S e) Fs' offs')) as [cs' bs']. cbn [fst snd].
        rewrite <- app_assoc. reflexivity.
  Qed.

  Lemma transp_single k (Ts : list tree) : length Ts = k -> transp k [Ts] = map (fun t => [t]) Ts.
  Proof.
    intros <-. unfold transp. simpl. unfold zipcons.
    induction Ts as [|t Ts IH]; simpl; auto. f_equal. exact IH.
  Qed.

  (* THE theorem: for every non-empty tuple of well-formed trees the k-tree walk returns every
     column and every border column of the recursive common region *)
  Theorem common_region_k_spec : forall (T0 : tree) (Ts' : list tree) d,
    Forall (fun t => wft t = true) (T0 :: Ts') -> depth T0 < d ->
    common_region_k (map (fun t => nargs (flatten t)) (T0 :: Ts'))
    = Some (region_of (crk_rec arity d (T0 :: Ts') (map (fun _ => 0) (T0 :: Ts')))).
  Proof.
    intros T0 Ts' d W Hd. set (Ts := T0 :: Ts') in *. set (k := length Ts).
    unfold common_region_k.
    assert (Z : map (fun _ : list nat => 0) (map (fun t => nargs (flatten t)) Ts) = map (fun _ => 0) Ts)
      by (rewrite map_map; reflexivity).
    rewrite Z.
    assert (ST : All3 (st 0) (map (fun t => nargs (flatten t)) Ts) (map (fun _ => 0) Ts) (map (fun t => [t]) Ts)).
    { clear - W. induction W as [|t Ts Wt W IH]; simpl; constructor; auto.
      split; [unfold Tree.wff; simpl; rewrite Wt; reflexivity|]. exists []. split; [|reflexivity].
      unfold flats; simpl. rewrite app_nil_r. reflexivity. }
    assert (AL : aligned 1 (map (fun t : tree => [t]) Ts)).
    { unfold aligned. apply Forall_forall. intros F HF. apply in_map_iff in HF. destruct HF as (t & <- & _). reflexivity. }
    rewrite (crk_loop_forest _ (map (fun t => [t]) Ts) _ _ 1 (size T0)); auto.
    - f_equal. f_equal.
      rewrite <- (transp_single k Ts eq_refl).
      rewrite (specF_tagsW arity k) with (D := d).
      + simpl. apply app_nil_r.
      + unfold k, Ts. simpl. lia.
      + constructor; [|constructor]. split; auto.
      + apply map_length.
      + unfold size0, Ts. simpl. lia.
      + constructor; [|constructor]. unfold Ts. split; auto. inversion W; auto.
    - discriminate.
    - unfold Ts. simpl. unfold sizes; simpl. rewrite (nargs_length arity), flatten_length. lia.
    - unfold Ts. simpl. unfold sizes; simpl. lia.
  Qed.
End PartC.
