(* TreeCRk.v — the k-tree walk  common_region(trees)  (model: TreeIdx.common_region_k / crk_loop)
   returns exactly the recursive common region of the k trees, for ALL k >= 1 and all tuples of
   well-formed trees.  Shared by C08 and C09.

   Recursive definition ([crk_rec]): the tuple of roots is a common column; when ALL k root
   arities agree the region continues into the arguments (i-th argument of every tree, for every
   i), otherwise the column is a border and nothing below it belongs to the region.

   Proof plan
     Part A  spec level:  crk_rec  =  a work-list formulation over k per-tree forests ([specF]),
             by transposition of a work list of k-tuples ([tagsW], [transp]).
     Part B  the loop: one iteration of crk_loop (crk_scan up to the first column whose arities
             differ, then crk_advance behind the k sub-terms rooted there) = the corresponding
             steps of [specF]  ([scan_forest], [advance_*], [crk_loop_forest]). *)
From Coq Require Import List Arith Bool Lia.
Import ListNotations.
From TF Require Import Tree TreeIdx TreeProofs TreeCR.

(* ================================================================ definitions *)
Section Spec.
  Context {sym : Type}.
  Variable arity : sym -> nat.
  Notation tree := (tree sym).

  Definition root_arities (ts : list tree) : list nat := map (fun t => arity (root t)) ts.
  (* the i-th argument of every tree of a tuple *)
  Definition kid_col (i : nat) (ts : list tree) : list tree := map (fun t => nth i (children t) t) ts.
  (* positions behind the trees of a tuple that starts at positions os *)
  Definition adv (os : list nat) (ts : list tree) : list nat :=
    map (fun ok => fst ok + size (snd ok)) (combine os ts).

  (* a scanned column (one position per tree) tagged with "is a border" *)
  Definition tcol : Type := (list nat * bool)%type.
  Fixpoint crk_kids (rec : list tree -> list nat -> list tcol) (n i : nat) (ts : list tree) (os : list nat)
    : list tcol :=
    match n with
    | 0 => []
    | S n' => rec (kid_col i ts) os ++ crk_kids rec n' (S i) ts (adv os (kid_col i ts))
    end.
  (* THE recursive common region of the k trees ts whose roots are at prefix positions os.
     Fuel bounds the depth of the recursion: any fuel > depth of the first tree gives the same
     result ([crk_rec_fuel]). *)
  Fixpoint crk_rec (fuel : nat) (ts : list tree) (os : list nat) : list tcol :=
    match fuel with
    | 0 => []
    | S f =>
      if all_eqb (root_arities ts) then
        (os, false) :: crk_kids (crk_rec f) (hd 0 (root_arities ts)) 0 ts (map S os)
      else [(os, true)]
    end.
  (* what the walk returns: every column, and the border columns *)
  Definition region_of (L : list tcol) : list (list nat) * list (list nat) :=
    (map fst L, map fst (filter (@snd _ _) L)).

  (* ---- work list of k-tuples *)
  Fixpoint tagsW (d : nat) (W : list (list tree)) (os : list nat) : list tcol :=
    match W with
    | [] => []
    | ts :: W' => crk_rec d ts os ++ tagsW d W' (adv os ts)
    end.
  Definition advW (os : list nat) (W : list (list tree)) : list nat := fold_left adv W os.
  Definition kids_cols (n i : nat) (ts : list tree) : list (list tree) :=
    map (fun i => kid_col i ts) (seq i n).

  (* ---- work list as k forests, one per tree *)
  Fixpoint heads (Fs : list (list tree)) : option (list tree) :=
    match Fs with
    | [] => Some []
    | F :: r => match F, heads r with
                | t :: _, Some hs => Some (t :: hs)
                | _, _ => None
                end
    end.
  Definition expand (F : list tree) : list tree :=
    match F with [] => [] | t :: r => children t ++ r end.
  Fixpoint specF (fuel : nat) (Fs : list (list tree)) (os : list nat) : list tcol :=
    match fuel with
    | 0 => []
    | S f =>
      match heads Fs with
      | None => []
      | Some hs =>
        if all_eqb (root_arities hs) then (os, false) :: specF f (map expand Fs) (map S os)
        else (os, true) :: specF f (map (@tl _) Fs) (adv os hs)
      end
    end.

  (* transposition: k-tuples -> k forests *)
  Definition zipcons (ts : list tree) (Fs : list (list tree)) : list (list tree) :=
    map (fun p => fst p :: snd p) (combine ts Fs).
  Definition transp (k : nat) (W : list (list tree)) : list (list tree) :=
    fold_right zipcons (repeat [] k) W.
End Spec.

(* ================================================================ Part A: spec level *)
Section PartA.
  Context {sym : Type}.
  Variable arity : sym -> nat.
  Notation tree := (tree sym).
  Notation wft := (wft arity).
  Notation wff := (wff arity).
  Notation crk_rec := (crk_rec arity).
  Notation tagsW := (tagsW arity).
  Notation specF := (specF arity).
  Notation root_arities := (root_arities arity).

  Lemma child_depth_lt s (kids : list tree) u : In u kids -> depth u < depth (Node s kids).
  Proof.
    change (depth (Node s kids)) with (fold_right (fun k m => Nat.max (S (depth k)) m) 0 kids).
    induction kids as [|k r IH]; intros H; [destruct H|].
    cbn [fold_right]. destruct H as [->|H]; [lia|]. specialize (IH H). lia.
  Qed.

  Lemma wft_child s (kids : list tree) u : wft (Node s kids) = true -> In u kids -> wft u = true.
  Proof.
    intros W H. apply wft_Node in W. destruct W as [_ W]. unfold Tree.wff in W.
    rewrite forallb_forall in W. auto.
  Qed.

  Lemma crk_kids_tagsW f : forall n i (ts : list tree) os,
    crk_kids (crk_rec f) n i ts os = tagsW f (kids_cols n i ts) os.
  Proof.
    induction n as [|n IH]; intros i ts os; simpl; auto. rewrite IH. reflexivity.
  Qed.

  Lemma tagsW_app d : forall (A B : list (list tree)) os,
    tagsW d (A ++ B) os = tagsW d A os ++ tagsW d B (advW os A).
  Proof.
    induction A as [|ts A IH]; intros B os; simpl; auto.
    rewrite IH, app_assoc. reflexivity.
  Qed.

  (* ---- fuel independence *)
  Lemma crk_kids_ext (r1 r2 : list tree -> list nat -> list tcol) : forall n i (ts : list tree) os,
    (forall j os', i <= j < i + n -> r1 (kid_col j ts) os' = r2 (kid_col j ts) os') ->
    crk_kids r1 n i ts os = crk_kids r2 n i ts os.
  Proof.
    induction n as [|n IH]; intros i ts os H; simpl; auto.
    rewrite H by lia. f_equal. apply IH. intros j os' Hj. apply H. lia.
  Qed.

  Lemma crk_rec_fuel : forall d d' (t0 : tree) ts' os, wft t0 = true ->
    depth t0 < d -> depth t0 < d' -> crk_rec d (t0 :: ts') os = crk_rec d' (t0 :: ts') os.
  Proof.
    induction d as [|d IH]; intros d' t0 ts' os W H H'; [lia|]. destruct d' as [|d']; [lia|].
    cbn [TreeCRk.crk_rec]. destruct (all_eqb (root_arities (t0 :: ts'))); auto. f_equal.
    apply crk_kids_ext. intros j os' Hj. cbn [TreeCRk.root_arities map hd] in Hj.
    destruct t0 as [s kids]. cbn [root] in Hj. cbn [kid_col map children].
    pose proof W as W'. apply wft_Node in W'. destruct W' as [L _].
    assert (Hin : In (nth j kids (Node s kids)) kids) by (apply nth_In; lia).
    pose proof (child_depth_lt s kids _ Hin). apply IH; try lia. eapply wft_child; eauto.
  Qed.

  (* every tuple of the work list starts with a well-formed tree of depth < d *)
  Definition shallow (d : nat) (W : list (list tree)) : Prop :=
    Forall (fun ts => match ts with t0 :: _ => wft t0 = true /\ depth t0 < d | [] => False end) W.

  Lemma tagsW_fuel d d' : forall (W : list (list tree)) os, shallow d W -> shallow d' W ->
    tagsW d W os = tagsW d' W os.
  Proof.
    induction W as [|ts W IH]; intros os H H'; simpl; auto.
    inversion H as [|? ? H1 H2]; subst. inversion H' as [|? ? H1' H2']; subst.
    destruct ts as [|t0 ts']; [destruct H1|]. destruct H1 as [W0 D0]. destruct H1' as [_ D0'].
    rewrite (crk_rec_fuel d d' t0 ts' os W0 D0 D0'), (IH _ H2 H2'). reflexivity.
  Qed.

  (* ---- transposition *)
  Lemma heads_zipcons : forall (ts : list tree) Fs, length ts = length Fs -> heads (zipcons ts Fs) = Some ts.
  Proof.
    induction ts as [|t ts IH]; intros [|F Fs] L; simpl in *; try discriminate; auto.
    unfold zipcons in IH. rewrite IH by lia. reflexivity.
  Qed.
  Lemma tl_zipcons : forall (ts : list tree) Fs, length ts = length Fs -> map (@tl _) (zipcons ts Fs) = Fs.
  Proof.
    induction ts as [|t ts IH]; intros [|F Fs] L; simpl in *; try discriminate; auto.
    unfold zipcons in IH. rewrite IH by lia. reflexivity.
  Qed.
  Lemma zipcons_length (ts : list tree) Fs : length ts = length Fs -> length (zipcons ts Fs) = length Fs.
  Proof. intros L. unfold zipcons. rewrite map_length, combine_length. lia. Qed.

  Lemma transp_length k : forall W : list (list tree), Forall (fun ts => length ts = k) W ->
    length (transp k W) = k.
  Proof.
    induction W as [|ts W IH]; intros H; simpl.
    - apply repeat_length.
    - inversion H; subst. rewrite zipcons_length; rewrite IH; auto.
  Qed.

  Lemma heads_repeat_nil k : 1 <= k -> heads (repeat (@nil tree) k) = None.
  Proof. destruct k; [lia|]. reflexivity. Qed.

  Lemma firstn_S_skipn {A} (l : list A) i n d : i < length l ->
    firstn (S n) (skipn i l) = nth i l d :: firstn n (skipn (S i) l).
  Proof.
    revert i; induction l as [|x l IH]; intros [|i] H; simpl in *; try lia; auto.
    apply (IH i). lia.
  Qed.

  (* expanding the heads of the forests = putting the columns of arguments in front of the work list *)
  Lemma expand_zip_kids : forall n i (ts : list tree) Fs, length ts = length Fs ->
    (forall t, In t ts -> i + n <= length (children t)) ->
    fold_right zipcons Fs (kids_cols n i ts)
    = map (fun p => firstn n (skipn i (children (fst p))) ++ snd p) (combine ts Fs).
  Proof.
    induction n as [|n IH]; intros i ts Fs L H.
    - simpl. clear H. revert Fs L. induction ts as [|t ts IHt]; intros [|F Fs] L; simpl in *; try discriminate; auto.
      f_equal. apply IHt. lia.
    - unfold kids_cols. simpl seq. simpl map. simpl fold_right.
      change (map (fun i0 => kid_col i0 ts) (seq (S i) n)) with (kids_cols n (S i) ts).
      rewrite IH by (auto; intros t Ht; specialize (H t Ht); lia).
      clear IH. revert Fs L. induction ts as [|t ts IHt]; intros [|F Fs] L; cbn [length] in L; try discriminate;
        [reflexivity|].
      unfold zipcons, kid_col in *. cbn [map combine fst snd]. f_equal.
      + change (match skipn i (children t) with [] => [] | a :: l => a :: firstn n l end)
          with (firstn (S n) (skipn i (children t))).
        rewrite (firstn_S_skipn (children t) i n t) by (specialize (H t (or_introl eq_refl)); lia). reflexivity.
      + apply IHt; [intros t' Ht'; apply H; right; auto | lia].
  Qed.

  Lemma expand_transp (ts : list tree) Fs ar : length ts = length Fs ->
    (forall t, In t ts -> length (children t) = ar) ->
    map expand (zipcons ts Fs) = fold_right zipcons Fs (kids_cols ar 0 ts).
  Proof.
    intros L H. rewrite expand_zip_kids by (auto; intros t Ht; rewrite (H t Ht); lia).
    revert Fs L. induction ts as [|t ts IH]; intros [|F Fs] L; simpl in *; try discriminate; auto.
    unfold zipcons in *. simpl. f_equal.
    - rewrite <- (H t (or_introl eq_refl)), firstn_all. reflexivity.
    - apply IH; [intros t' Ht'; apply H; auto | lia].
  Qed.

  Lemma transp_app k (A B : list (list tree)) : transp k (A ++ B) = fold_right zipcons (transp k B) A.
  Proof. unfold transp. apply fold_right_app. Qed.

  (* positions: behind all the arguments = behind the tree *)
  Lemma advW_kids : forall n i (ts : list tree) os, length os = length ts ->
    (forall t, In t ts -> i + n <= length (children t)) ->
    advW os (kids_cols n i ts)
    = map (fun ok => fst ok + sizes (firstn n (skipn i (children (snd ok))))) (combine os ts).
  Proof.
    induction n as [|n IH]; intros i ts os L H.
    - simpl. clear H. revert ts L. induction os as [|o os IHo]; intros [|t ts] L; simpl in *; try discriminate; auto.
      unfold sizes; simpl. rewrite Nat.add_0_r. f_equal. apply IHo. lia.
    - unfold kids_cols, advW. simpl seq. simpl map. simpl fold_left.
      change (fold_left adv (map (fun i0 => kid_col i0 ts) (seq (S i) n)) (adv os (kid_col i ts)))
        with (advW (adv os (kid_col i ts)) (kids_cols n (S i) ts)).
      rewrite IH.
      + clear IH. revert ts L H. induction os as [|o os IHo]; intros [|t ts] L H; cbn [length] in L; try discriminate;
          [reflexivity|].
        unfold adv, kid_col in *. cbn [map combine fst snd]. f_equal.
        * change (match skipn i (children t) with [] => [] | a :: l => a :: firstn n l end)
            with (firstn (S n) (skipn i (children t))).
          rewrite (firstn_S_skipn (children t) i n t) by (specialize (H t (or_introl eq_refl)); lia).
          rewrite sizes_cons. lia.
        * apply IHo; [lia | intros t' Ht'; apply H; right; auto].
      + unfold adv, kid_col. rewrite map_length, combine_length, map_length. lia.
      + intros t Ht. specialize (H t Ht). lia.
  Qed.

  Lemma sizes_children (t : tree) : S (sizes (children t)) = size t.
  Proof. destruct t; reflexivity. Qed.

  Lemma advW_all_kids (ts : list tree) os ar : length os = length ts ->
    (forall t, In t ts -> length (children t) = ar) ->
    advW (map S os) (kids_cols ar 0 ts) = adv os ts.
  Proof.
    intros L H. rewrite advW_kids; [| rewrite map_length; auto | intros t Ht; rewrite (H t Ht); lia].
    unfold adv. revert ts L H. induction os as [|o os IH]; intros [|t ts] L H; simpl in *; try discriminate; auto.
    f_equal.
    - rewrite <- (H t (or_introl eq_refl)), firstn_all, <- sizes_children. lia.
    - apply IH; [lia | intros t' Ht'; apply H; auto].
  Qed.

  Lemma all_eqb_same : forall (l : list nat) x y, all_eqb l = true -> In x l -> In y l -> x = y.
  Proof.
    intros [|a l] x y H Hx Hy; [destruct Hx|]. simpl in H. rewrite forallb_forall in H.
    assert (E : forall z, In z (a :: l) -> z = a).
    { intros z [<-|Hz]; auto. apply H in Hz. apply Nat.eqb_eq in Hz. auto. }
    rewrite (E x Hx), (E y Hy). reflexivity.
  Qed.

  (* all trees of a tuple with equal root arities have that many children *)
  Lemma same_arity_children (t0 : tree) ts' : Forall (fun t => wft t = true) (t0 :: ts') ->
    all_eqb (root_arities (t0 :: ts')) = true ->
    forall t, In t (t0 :: ts') -> length (children t) = arity (root t0).
  Proof.
    intros W E t Ht. rewrite Forall_forall in W. pose proof (W t Ht) as Wt.
    destruct t as [s kids]. apply wft_Node in Wt. destruct Wt as [L _]. simpl children. rewrite L.
    apply (all_eqb_same (root_arities (t0 :: ts'))); auto.
    - unfold TreeCRk.root_arities. apply in_map_iff. exists (Node s kids). auto.
    - left. reflexivity.
  Qed.

  (* size of the first forest of the transposed work list *)
  Definition size0 (W : list (list tree)) : nat :=
    list_sum (map (fun ts => match ts with t0 :: _ => size t0 | [] => 0 end) W).

  Definition tuples_ok (k : nat) (W : list (list tree)) : Prop :=
    Forall (fun ts => length ts = k /\ Forall (fun t => wft t = true) ts) W.

  Lemma kids_cols_ok k (t0 : tree) ts' : length (t0 :: ts') = k ->
    Forall (fun t => wft t = true) (t0 :: ts') ->
    all_eqb (root_arities (t0 :: ts')) = true ->
    tuples_ok k (kids_cols (arity (root t0)) 0 (t0 :: ts')).
  Proof.
    intros Lk W E. unfold tuples_ok, kids_cols. apply Forall_forall. intros c Hc.
    apply in_map_iff in Hc. destruct Hc as (i & <- & Hi). apply in_seq in Hi. split.
    - unfold kid_col. rewrite map_length. auto.
    - apply Forall_forall. intros u Hu. unfold kid_col in Hu. apply in_map_iff in Hu.
      destruct Hu as (t & <- & Ht).
      pose proof (same_arity_children t0 ts' W E t Ht) as Lc.
      rewrite Forall_forall in W. pose proof (W t Ht) as Wt. destruct t as [s kids]. simpl in *.
      eapply wft_child; eauto. apply nth_In. lia.
  Qed.

  Lemma kids_cols_shallow d (t0 : tree) ts' : wft t0 = true -> depth t0 < S d ->
    shallow d (kids_cols (arity (root t0)) 0 (t0 :: ts')).
  Proof.
    intros W D. unfold shallow, kids_cols. apply Forall_forall. intros c Hc.
    apply in_map_iff in Hc. destruct Hc as (i & <- & Hi). apply in_seq in Hi.
    destruct t0 as [s kids]. cbn [kid_col map children root] in *.
    pose proof W as W'. apply wft_Node in W'. destruct W' as [L _].
    assert (Hin : In (nth i kids (Node s kids)) kids) by (apply nth_In; lia).
    split; [eapply wft_child; eauto|]. pose proof (child_depth_lt s kids _ Hin). lia.
  Qed.

  Lemma shallow_mono d d' (W : list (list tree)) : d <= d' -> shallow d W -> shallow d' W.
  Proof.
    intros Hd H. unfold shallow in *. eapply Forall_impl; [|exact H].
    intros [|t0 ts']; auto. intros [A B]. split; auto. lia.
  Qed.

  Lemma size0_app (A B : list (list tree)) : size0 (A ++ B) = size0 A + size0 B.
  Proof. unfold size0. rewrite map_app, list_sum_app. reflexivity. Qed.

  Lemma kids_cols_S n i (ts : list tree) : kids_cols (S n) i ts = kid_col i ts :: kids_cols n (S i) ts.
  Proof. reflexivity. Qed.
  Lemma size0_cons (c : list tree) W :
    size0 (c :: W) = match c with t0 :: _ => size t0 | [] => 0 end + size0 W.
  Proof. reflexivity. Qed.

  Lemma size0_kids : forall n i (t0 : tree) ts', i + n <= length (children t0) ->
    size0 (kids_cols n i (t0 :: ts')) = sizes (firstn n (skipn i (children t0))).
  Proof.
    induction n as [|n IH]; intros i t0 ts' H; [reflexivity|].
    rewrite kids_cols_S, size0_cons, IH by lia. cbn [kid_col map].
    rewrite (firstn_S_skipn (children t0) i n t0) by lia. rewrite sizes_cons. reflexivity.
  Qed.

  (* the work-list formulation over forests = the work-list formulation over tuples *)
  Theorem specF_tagsW k : 1 <= k -> forall fuel D (W : list (list tree)) os,
    tuples_ok k W -> length os = k -> size0 W <= fuel -> shallow D W ->
    specF fuel (transp k W) os = tagsW D W os.
  Proof.
    intros Hk. induction fuel as [|f IH]; intros D W os OK Lo Hf Sh.
    - destruct W as [|ts W]; [reflexivity|]. exfalso.
      inversion OK as [|? ? [L1 W1] _]; subst. destruct ts as [|t0 ts']; [simpl in *; lia|].
      unfold size0 in Hf. simpl in Hf. pose proof (size_pos t0). lia.
    - destruct W as [|ts W].
      + simpl. rewrite heads_repeat_nil; auto.
      + inversion OK as [|? ? [L1 W1] OK']; subst. inversion Sh as [|? ? Sh1 Sh']; subst.
        destruct ts as [|t0 ts']; [destruct Sh1|]. destruct Sh1 as [W0 D0].
        destruct D as [|d]; [lia|].
        assert (LT : length (t0 :: ts') = length (transp (length os) W)).
        { rewrite transp_length; auto. eapply Forall_impl; [|exact OK']. intros a [A _]; exact A. }
        cbn [TreeCRk.specF transp fold_right]. fold (transp (length os) W).
        rewrite heads_zipcons by exact LT.
        cbn [TreeCRk.tagsW TreeCRk.crk_rec].
        destruct (all_eqb (root_arities (t0 :: ts'))) eqn:E.
        * pose proof (same_arity_children t0 ts' W1 E) as CH.
          cbn [TreeCRk.root_arities map hd].
          rewrite (expand_transp (t0 :: ts') _ (arity (root t0)) LT CH), <- transp_app.
          rewrite (IH (S d)).
          -- rewrite tagsW_app, crk_kids_tagsW.
             rewrite (advW_all_kids (t0 :: ts') os (arity (root t0))) by auto.
             rewrite (tagsW_fuel (S d) d (kids_cols (arity (root t0)) 0 (t0 :: ts'))).
             ++ reflexivity.
             ++ apply (shallow_mono d); [lia|]. apply kids_cols_shallow; auto.
             ++ apply kids_cols_shallow; auto.
          -- unfold tuples_ok. apply Forall_app. split; auto. apply kids_cols_ok; auto.
          -- rewrite map_length. auto.
          -- rewrite size0_app, size0_kids by (rewrite (CH t0 (or_introl eq_refl)); lia).
             rewrite <- (CH t0 (or_introl eq_refl)), firstn_all.
             cbn [skipn]. unfold size0 in Hf. simpl in Hf. pose proof (sizes_children t0). unfold size0. lia.
          -- unfold shallow. apply Forall_app. split; auto.
             apply (shallow_mono d); [lia|]. apply kids_cols_shallow; auto.
        * rewrite tl_zipcons by exact LT. simpl app. apply (f_equal (cons (os, true))). apply IH; auto.
          -- unfold adv. rewrite map_length, combine_length. lia.
          -- unfold size0 in *. simpl in Hf. pose proof (size_pos t0). lia.
  Qed.
End PartA.
