(* EntropyProofs.v — a seeded run does not depend on what was drawn before it (C04). *)
From TF Require Import Base Entropy.

Section P.
Variable stream_py stream_np : Z -> nat -> draw.

(* after an integer / RandomState seed the generator state does not depend on the previous state *)
Theorem reseed_forgets a g1 g2 : a <> SNone -> check_random_state a g1 = check_random_state a g2.
Proof. destruct a; [congruence| |]; intros _; reflexivity. Qed.

(* hence the draws of the run — any interleaving of the two streams — are a function of the seed *)
Theorem seeded_draws_functional a which g1 g2 : a <> SNone ->
  take stream_py stream_np which (check_random_state a g1) = take stream_py stream_np which (check_random_state a g2).
Proof. intros H. now rewrite (reseed_forgets a g1 g2 H). Qed.

(* equal seed values give equal streams: an int seed and a RandomState whose first key word is that int *)
Theorem int_and_state_agree z g : (0 <= z < 4294967296)%Z ->
  check_random_state (SInt z) g = check_random_state (SState z) g.
Proof. intros H. cbn. now rewrite Z.mod_small. Qed.

(* both compiled streams are reseeded *)
Theorem both_streams_seeded a g : a <> SNone ->
  snd (g_py (check_random_state a g)) = O /\ snd (g_np (check_random_state a g)) = O /\
  fst (g_py (check_random_state a g)) = fst (g_np (check_random_state a g)).
Proof. destruct a; [congruence| |]; intros _; cbn; auto. Qed.

(* random_state=None: nothing is reseeded (the run continues the current streams) *)
Theorem none_keeps_state g : check_random_state SNone g = g.
Proof. reflexivity. Qed.
End P.
