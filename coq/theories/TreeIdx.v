(* TreeIdx.v — literal models of the compiled index helpers of thefittest.utils that work on the
   arity array  Tree._n_args,  and of the Tree methods built on them (shared by C08 and C09).
   MODEL ONLY (no proofs; see TreeProofs.v, TreeCR.v).

   An arity array is a [list nat].  The helpers index WITHOUT bounds checks when compiled; in the
   model every read  a[i]  is  nth_error  and an out-of-range read (or exhausted fuel) yields
   None — the correspondence runs the pure-Python mirror first, where the same read raises
   IndexError. *)
From Coq Require Import List Arith Bool Lia.
Import ListNotations.
From TF Require Import Tree.
Set Implicit Arguments.

(* ---------------------------------------------------------------- find_end_subtree_from_i
     n_index = index + 1
     possible_steps = n_args_array[index]
     while possible_steps:
         possible_steps += n_args_array[n_index] - 1
         n_index += 1
     return n_index
   (possible_steps >= 1 inside the loop, so  steps + a - 1  never goes below 0: nat is exact) *)
Fixpoint find_end_loop (fuel : nat) (a : list nat) (n_index steps : nat) : option nat :=
  match steps with
  | 0 => Some n_index
  | S s' =>
    match fuel with
    | 0 => None
    | S f =>
      match nth_error a n_index with
      | None => None
      | Some k => find_end_loop f a (S n_index) (s' + k)
      end
    end
  end.
Definition find_end (a : list nat) (index : nat) : option nat :=
  match nth_error a index with
  | None => None
  | Some k => find_end_loop (length a) a (S index) k
  end.

(* the same walk on the remaining suffix of the array (proof device; [walk steps l] = number of
   entries consumed until the counter reaches 0) *)
Fixpoint walk (steps : nat) (l : list nat) : option nat :=
  match steps with
  | 0 => Some 0
  | S s' =>
    match l with
    | [] => None
    | k :: l' => option_map S (walk (s' + k) l')
    end
  end.

(* ---------------------------------------------------------------- find_id_args_from_i
     out = np.empty(n_args_array[index]); out[0] = index + 1
     for i in range(1, len(out)): out[i] = find_end_subtree_from_i(out[i-1], n_args_array)
   [find_args_old]: the code before the repair wrote out[0] even when len(out) = 0 (terminal
   node): an out-of-bounds write when compiled, IndexError as plain Python -> None.
   [find_args]: repaired code ( if len(out) > 0: out[0] = index + 1 ). *)
Fixpoint find_args_loop (a : list nat) (n : nat) (prev : nat) : option (list nat) :=
  match n with
  | 0 => Some []
  | S n' =>
    match find_end a prev with
    | None => None
    | Some e =>
      match find_args_loop a n' e with
      | None => None
      | Some r => Some (e :: r)
      end
    end
  end.
Definition find_args (a : list nat) (index : nat) : option (list nat) :=
  match nth_error a index with
  | None => None
  | Some 0 => Some []
  | Some (S n) => option_map (cons (S index)) (find_args_loop a n (S index))
  end.
Definition find_args_old (a : list nat) (index : nat) : option (list nat) :=
  match nth_error a index with
  | None => None
  | Some 0 => None
  | Some (S n) => option_map (cons (S index)) (find_args_loop a n (S index))
  end.

(* ---------------------------------------------------------------- get_levels_tree_from_i
     d_i = -1; s = [1]; d = [-1]; result_list = []
     for n_arg in n_args_array[origin:]:
         s[-1] = s[-1] - 1
         if s[-1] == 0: s.pop(); d_i = d.pop() + 1
         else:          d_i = d[-1] + 1
         result_list.append(d_i)
         if n_arg > 0: s.append(n_arg); d.append(d_i)
         if len(s) == 0: break
   The two stacks s and d are pushed and popped in lockstep; they are modelled as one list of
   pairs (remaining arguments, level of those arguments) with the top at the head.  The code
   stores the level of the parent (d) and adds 1 on use; the model stores d+1 so that the
   initial -1 is the natural number 0.  The  break  on an empty stack is the first match arm. *)
Fixpoint levels_loop (st : list (nat * nat)) (l : list nat) : list nat :=
  match l with
  | [] => []
  | n :: l' =>
    match st with
    | [] => []
    | (c, lv) :: st' =>
      let st1 := match c with 1 => st' | _ => (c - 1, lv) :: st' end in
      let st2 := if 0 <? n then (n, S lv) :: st1 else st1 in
      lv :: levels_loop st2 l'
    end
  end.
Definition levels (a : list nat) (origin : nat) : list nat :=
  levels_loop [(1, 0)] (skipn origin a).
(* Tree.get_max_level:  max(self.get_levels(0)) *)
Definition max_level (a : list nat) : nat := list_max (levels a 0).

(* ---------------------------------------------------------------- Tree.subtree_id / subtree / concat
   A prefix tree as the implementation holds it: node list and arity array side by side. *)
Section Slices.
  Context {A : Type}.
  (* python  l[i:j]  for 0 <= i *)
  Definition slice (l : list A) (i j : nat) : list A := firstn (j - i) (skipn i l).
  (* python  l[i:j] = m  (on a copy) *)
  Definition splice (l : list A) (i j : nat) (m : list A) : list A := firstn i l ++ m ++ skipn j l.
End Slices.

Definition ptree (sym : Type) : Type := (list sym * list nat)%type.

Section PTree.
  Context {sym : Type}.
  Variable arity : sym -> nat.

  (* Tree(nodes)  with n_args=None:  _init_n_args *)
  Definition mk (p : list sym) : ptree sym := (p, nargs arity p).

  Definition subtree_id (t : ptree sym) (i : nat) : option (nat * nat) :=
    option_map (fun e => (i, e)) (find_end (snd t) i).
  (* Tree(self._nodes[index:n_index].copy(), self._n_args[index:n_index].copy()) *)
  Definition subtree_p (t : ptree sym) (i : nat) : option (ptree sym) :=
    match find_end (snd t) i with
    | None => None
    | Some e => Some (slice (fst t) i e, slice (snd t) i e)
    end.
  (* to_return._nodes[left:right] = other._nodes;  n_args = r_[n_args[:left], other.n_args, n_args[right:]] *)
  Definition concat_p (t : ptree sym) (i : nat) (o : ptree sym) : option (ptree sym) :=
    match find_end (snd t) i with
    | None => None
    | Some e => Some (splice (fst t) i e (fst o), splice (snd t) i e (snd o))
    end.

  (* the same on node lists whose arity array is the derived one *)
  Definition subtree (p : list sym) (i : nat) : option (list sym) :=
    option_map (fun e => slice p i e) (find_end (nargs arity p) i).
  Definition concat (p : list sym) (i : nat) (q : list sym) : option (list sym) :=
    option_map (fun e => splice p i e q) (find_end (nargs arity p) i).
End PTree.

(* ---------------------------------------------------------------- find_first_difference_between_two
     for i in np.arange(min(len(a1), len(a2))):
         if a1[i] != a2[i]: break
     return i
   (first index where the arrays differ, else the last index of the shorter one; undefined for an
   empty array — the caller guards against that; the model returns 0 there) *)
Fixpoint ffd (a1 a2 : list nat) : nat :=
  match a1, a2 with
  | x :: r1, y :: r2 =>
    if x =? y then match r1, r2 with
                   | _ :: _, _ :: _ => S (ffd r1 r2)
                   | _, _ => 0
                   end
    else 0
  | _, _ => 0
  end.

(* ---------------------------------------------------------------- common_region_two_trees
     index_1 = index_2 = 0
     while True:
         if index_1 < len(a1) and index_2 < len(a2):
             id_1, id_2 = index_1, index_2
             end = find_first_difference_between_two(a1[id_1:], a2[id_2:])
             index_1 += end; index_2 += end
             common_1.extend(range(id_1, index_1 + 1)); common_2.extend(range(id_2, index_2 + 1))
         if len(a1) - 1 > index_1 or len(a2) - 1 > index_2:
             border_1.append(index_1); border_2.append(index_2)
             index_1 = find_end_subtree_from_i(index_1, a1); index_2 = find_end_subtree_from_i(index_2, a2)
         else: break
     return [common_1, common_2], [border_1, border_2]
   The model returns the common positions as a list of pairs (position in tree 1, position in
   tree 2) and likewise the border; (map fst, map snd) are the four lists of the code. *)
Definition cr_out : Type := (list (nat * nat) * list (nat * nat))%type.
Definition cr_app (x y : cr_out) : cr_out := (fst x ++ fst y, snd x ++ snd y).

Fixpoint pair_range (i1 i2 : nat) (n : nat) : list (nat * nat) :=
  match n with 0 => [] | S n' => (i1, i2) :: pair_range (S i1) (S i2) n' end.

Fixpoint cr2_loop (fuel : nat) (a1 a2 : list nat) (i1 i2 : nat) : option cr_out :=
  match fuel with
  | 0 => None
  | S f =>
    let '(j1, j2, com) :=
      if (i1 <? length a1) && (i2 <? length a2) then
        let e := ffd (skipn i1 a1) (skipn i2 a2) in
        (i1 + e, i2 + e, pair_range i1 i2 (S e))
      else (i1, i2, []) in
    if (j1 <? length a1 - 1) || (j2 <? length a2 - 1) then
      match find_end a1 j1, find_end a2 j2 with
      | Some k1, Some k2 =>
        match cr2_loop f a1 a2 k1 k2 with
        | Some r => Some (cr_app (com, [(j1, j2)]) r)
        | None => None
        end
      | _, _ => None
      end
    else Some (com, [])
  end.
Definition common_region_two (a1 a2 : list nat) : option cr_out :=
  cr2_loop (S (length a1)) a1 a2 0 0.

(* ---------------------------------------------------------------- common_region (k trees)
     indexes[j] = list(range(len(tree_j)))         -- always a suffix range: modelled by its offset
     while not terminate:
         inner_break = False; iters = min(map(len, indexes))
         for i in range(iters):
             first_n_args = arity(tree_0, indexes[0][i]); common[0].append(indexes[0][i])
             for j in 1..: common[j].append(indexes[j][i]); if first_n_args != arity(tree_j, indexes[j][i]): inner_break = True
             if inner_break: (for all j: border[j].append(indexes[j][i])); break
         for j in range(k):
             _, right = trees[j].subtree_id(common[j][-1])
             delete_to = indexes[j].index(right - 1) + 1; indexes[j] = indexes[j][delete_to:]
             if len(indexes[j]) < 1: terminate = True; break
   Output: for every scanned column i the list of positions (one per tree). *)
Definition all_eqb (l : list nat) : bool :=
  match l with [] => true | x :: r => forallb (Nat.eqb x) r end.
Definition col (arrs : list (list nat)) (offs : list nat) (i : nat) : option (list nat) :=
  (fix go (l : list (list nat * nat)) : option (list nat) :=
     match l with
     | [] => Some []
     | (a, o) :: r => match nth_error a (o + i), go r with
                      | Some x, Some xs => Some (x :: xs)
                      | _, _ => None
                      end
     end) (combine arrs offs).
(* scan columns i, i+1, ..: returns (columns scanned as position lists, index of last scanned column, broke?) *)
Fixpoint crk_scan (arrs : list (list nat)) (offs : list nat) (i n : nat)
  : option (list (list nat) * nat * bool) :=
  match n with
  | 0 => Some ([], i - 1, false)
  | S n' =>
    match col arrs offs i with
    | None => None
    | Some c =>
      let pos := map (fun o => o + i) offs in
      if all_eqb c then
        match crk_scan arrs offs (S i) n' with
        | Some (cs, last, b) => Some (pos :: cs, last, b)
        | None => None
        end
      else Some ([pos], i, true)
    end
  end.
(* new offsets: find_end of the last scanned position in every tree, stopping (as the code does)
   at the first tree whose index list becomes empty; returns (offsets, terminate) *)
Fixpoint crk_advance (l : list (list nat * nat)) (last : nat) : option (list nat * bool) :=
  match l with
  | [] => Some ([], false)
  | (a, o) :: r =>
    match find_end a (o + last) with
    | None => None
    | Some e =>
      if length a <=? e then Some (e :: map snd r, true)
      else match crk_advance r last with
           | Some (es, t) => Some (e :: es, t)
           | None => None
           end
    end
  end.
Definition crk_out : Type := (list (list nat) * list (list nat))%type.
Fixpoint crk_loop (fuel : nat) (arrs : list (list nat)) (offs : list nat) : option crk_out :=
  match fuel with
  | 0 => None
  | S f =>
    let iters := fold_right Nat.min (length (hd [] arrs) - hd 0 offs)
                   (map (fun ao => length (fst ao) - snd ao) (combine arrs offs)) in
    match crk_scan arrs offs 0 iters with
    | None => None
    | Some (cs, last, broke) =>
      let bs := if broke then [map (fun o => o + last) offs] else [] in
      match crk_advance (combine arrs offs) last with
      | None => None
      | Some (offs', true) => Some (cs, bs)
      | Some (offs', false) =>
        match crk_loop f arrs offs' with
        | Some (cs', bs') => Some (cs ++ cs', bs ++ bs')
        | None => None
        end
      end
    end
  end.
Definition common_region_k (arrs : list (list nat)) : option crk_out :=
  crk_loop (S (length (hd [] arrs))) arrs (map (fun _ => 0) arrs).

(* ---------------------------------------------------------------- recursive definition of the
   common region of two trees: the root is common; the arguments are paired off and visited iff
   the two nodes have the same arity, otherwise the node is a border of the region. *)
Section CRSpec.
  Context {sym : Type}.
  Variable arity : sym -> nat.

  Fixpoint cr_rec (t1 t2 : tree sym) (o1 o2 : nat) : cr_out :=
    match t1, t2 with
    | Node s1 k1, Node s2 k2 =>
      if arity s1 =? arity s2 then
        let r := (fix go (l1 l2 : list (tree sym)) (o1 o2 : nat) : cr_out :=
                    match l1, l2 with
                    | u1 :: r1, u2 :: r2 =>
                      cr_app (cr_rec u1 u2 o1 o2) (go r1 r2 (o1 + size u1) (o2 + size u2))
                    | _, _ => ([], [])
                    end) k1 k2 (S o1) (S o2) in
        ((o1, o2) :: fst r, snd r)
      else ([(o1, o2)], [(o1, o2)])
    end.
  Definition cr_rec_f : list (tree sym) -> list (tree sym) -> nat -> nat -> cr_out :=
    fix go (l1 l2 : list (tree sym)) (o1 o2 : nat) : cr_out :=
      match l1, l2 with
      | u1 :: r1, u2 :: r2 =>
        cr_app (cr_rec u1 u2 o1 o2) (go r1 r2 (o1 + size u1) (o2 + size u2))
      | _, _ => ([], [])
      end.
End CRSpec.
