(* NetMLPProofs2.v — C13/C12, unbounded facts about the MLP builder (repaired code):
   - the connection rows of define_net are, as a MULTISET, exactly the requested layering
     (Permutation with mlp_spec_connects); the only duplicated rows are bias -> first layer,
     with multiplicity exactly 2 (C13_mlp_duplicates);
   - every net built by define_net satisfies the premises of C12_forward_is_ref: Layered,
     all softmax nodes share one sorted source tuple, ids inside the node buffer (C12_mlp_premises). *)
From TF Require Import Base Net NetAlgebra NetOrder NetProofs NetProofs2 NetOrderProofs NetMLPProofs
     NetForward NetForwardProofs NetForwardProofs2.
From Coq Require Import Permutation Sorted.
Local Open Scope nat_scope.
Local Arguments net_op : simpl never.

(* ---------------------------------------------------------------- lists *)
Lemma list_prod_nil_r {A B} (l : list A) : list_prod l (@nil B) = [].
Proof. induction l; simpl; auto. Qed.
Lemma get_connect_prod l r : fst (get_connect l r) = list_prod l r.
Proof.
  unfold get_connect. destruct l as [|a l]; simpl; auto.
  destruct r as [|b r]; simpl; auto. symmetry. apply (list_prod_nil_r (a :: l)).
Qed.
Lemma list_prod_perm_r {A B} (l : list A) (m m' : list B) :
  Permutation m m' -> Permutation (list_prod l m) (list_prod l m').
Proof.
  intro P. induction l as [|x l IH]; simpl; auto.
  apply Permutation_app; auto. apply Permutation_map. auto.
Qed.
Lemma list_prod_perm_l {A B} (l l' : list A) (m : list B) :
  Permutation l l' -> Permutation (list_prod l m) (list_prod l' m).
Proof.
  induction 1; simpl; auto.
  - apply Permutation_app_head. auto.
  - rewrite !app_assoc. apply Permutation_app_tail. apply Permutation_app_comm.
  - eapply perm_trans; eauto.
Qed.
Lemma list_prod_perm {A B} (l l' : list A) (m m' : list B) :
  Permutation l l' -> Permutation m m' -> Permutation (list_prod l m) (list_prod l' m').
Proof.
  intros P Q. eapply perm_trans; [apply list_prod_perm_l; eauto|apply list_prod_perm_r; auto].
Qed.
Lemma NoDup_list_prod {A B} (l : list A) (m : list B) :
  NoDup l -> NoDup m -> NoDup (list_prod l m).
Proof.
  intros Hl Hm. induction Hl as [|x l Hx Hl IH]; simpl. constructor.
  apply NoDup_app_intro; auto.
  - apply FinFun.Injective_map_NoDup; auto. intros a b E. inversion E. auto.
  - intros [a b] H1 H2. apply in_map_iff in H1. destruct H1 as [b' [E _]]. inversion E; subst.
    apply in_prod_iff in H2. tauto.
Qed.
Lemma count_pair_perm c l l' : Permutation l l' -> count_pair c l = count_pair c l'.
Proof.
  intro P. unfold count_pair. apply Permutation_length. apply Permutation_filter2. auto.
Qed.
Lemma count_pair_app c l l' : count_pair c (l ++ l') = count_pair c l + count_pair c l'.
Proof. unfold count_pair. rewrite filter_app, app_length. auto. Qed.
Lemma count_pair_notin c l : ~ In c l -> count_pair c l = 0.
Proof.
  intro H. unfold count_pair. induction l as [|h t IH]; simpl; auto.
  destruct (pair_eqb c h) eqn:E.
  - apply pair_eqb_eq in E. subst. exfalso. apply H. simpl; auto.
  - apply IH. intro Hc. apply H. simpl; auto.
Qed.
Lemma count_pair_nodup c l : NoDup l -> In c l -> count_pair c l = 1.
Proof.
  intros ND. induction ND as [|h t Hh ND IH]; intro Hin; [destruct Hin|].
  unfold count_pair in *. simpl. destruct (pair_eqb c h) eqn:E.
  - apply pair_eqb_eq in E. subst. simpl. f_equal. apply (count_pair_notin h t Hh).
  - destruct Hin as [Hin|Hin]; auto. subst.
    assert (pair_eqb c c = true) by (apply pair_eqb_eq; auto). congruence.
Qed.

Lemma consecutive_snoc_eq (ls : list (list nat)) x : ls <> [] ->
  consecutive (ls ++ [x]) = consecutive ls ++ list_prod (last ls []) x.
Proof.
  induction ls as [|a t IH]; intro H; [congruence|].
  destruct t as [|b t].
  - simpl. rewrite app_nil_r. reflexivity.
  - change (consecutive ((a :: b :: t) ++ [x])) with (list_prod a b ++ consecutive ((b :: t) ++ [x])).
    change (consecutive (a :: b :: t)) with (list_prod a b ++ consecutive (b :: t)).
    change (last (a :: b :: t) []) with (last (b :: t) []).
    rewrite IH by discriminate. rewrite app_assoc. reflexivity.
Qed.
Lemma concat_mlp_ranges e hs : concat (mlp_ranges e hs) = seq e (list_sum hs).
Proof.
  revert e. induction hs as [|h t IH]; intro e; simpl; auto.
  rewrite IH, <- seq_app. reflexivity.
Qed.
Lemma mlp_ranges_length e hs : length (mlp_ranges e hs) = length hs.
Proof. revert e. induction hs; intro e; simpl; auto. Qed.
Lemma mlp_ranges_NoDup e hs : Forall (@NoDup nat) (mlp_ranges e hs).
Proof. revert e. induction hs; intro e; simpl; constructor; auto. apply seq_NoDup. Qed.

Lemma perm4 {A} (C P X Y : list A) : Permutation ((C ++ P) ++ X ++ Y) ((C ++ X) ++ Y ++ P).
Proof.
  rewrite <- !app_assoc. apply Permutation_app_head.
  eapply perm_trans; [apply Permutation_app_comm|]. rewrite <- app_assoc. apply Permutation_refl.
Qed.

(* the specification list, one layer more *)
Lemma spec_partial_snoc_perm ni hs h offset :
  Permutation (spec_partial ni (hs ++ [h]) offset)
              (spec_partial ni hs offset
               ++ (if offset then list_prod [ni - 1] (seq (ni + list_sum hs) h) else [])
               ++ list_prod (prev_layer ni hs) (seq (ni + list_sum hs) h)).
Proof.
  unfold spec_partial, prev_layer. rewrite mlp_ranges_snoc.
  change (seq 0 ni :: mlp_ranges ni hs ++ [seq (ni + list_sum hs) h])
    with ((seq 0 ni :: mlp_ranges ni hs) ++ [seq (ni + list_sum hs) h]).
  rewrite consecutive_snoc_eq by discriminate.
  set (C := consecutive (seq 0 ni :: mlp_ranges ni hs)).
  set (P := list_prod (last (seq 0 ni :: mlp_ranges ni hs) []) (seq (ni + list_sum hs) h)).
  destruct offset.
  - rewrite concat_app. simpl. rewrite !app_nil_r, map_app.
    apply perm4.
  - simpl. rewrite !app_nil_r. apply Permutation_refl.
Qed.

(* ---------------------------------------------------------------- the layer net, as a multiset *)
Lemma gt_to_unit_perm u T :
  is_unit u T -> NoDup T -> Forall (@NoDup nat) (n_hid u) -> NoDup (n_out u) ->
  Permutation (gt_to u) T.
Proof.
  intros [U1 [U2 [U3 U4]]] NT NH NO. apply NoDup_Permutation; auto.
  - unfold gt_to. apply NoDup_diff. apply NoDup_union; auto. apply NoDup_assemble. auto.
  - intro y. apply (gt_to_unitlike u T); auto. rewrite U2. intros c [].
Qed.

Lemma mlp_layer_perm fixed offset bias u T ln :
  is_unit u T -> NoDup T -> Forall (@NoDup nat) (n_hid u) -> NoDup (n_out u) ->
  mlp_layer fixed offset bias u = Some ln ->
  Permutation (n_con ln) (if offset then list_prod [bias] T else []) /\
  Permutation (gt_to ln) T /\ n_act ln = n_act u.
Proof.
  intros HU NT NH NO. pose proof HU as [U1 [U2 [U3 U4]]]. unfold mlp_layer. destruct offset.
  - assert (E : net_op fixed OPFUEL true (unit_in [bias]) u = Some (gt_plain (unit_in [bias]) u)).
    { unfold OPFUEL, net_op. simpl. rewrite U1. simpl. reflexivity. }
    rewrite E. intro H. inversion H; subst ln. clear H.
    pose proof (gt_to_unit_perm u T HU NT NH NO) as PT.
    split; [|split].
    + rewrite gt_plain_con, U2. change (n_con (unit_in [bias])) with (@nil (nat * nat)). cbn [app].
      unfold gt_new. rewrite get_connect_prod. apply list_prod_perm; auto.
    + (* open targets of the layer net: still T (its rows come from its own input) *)
      apply NoDup_Permutation; auto.
      * unfold gt_to. apply NoDup_diff. rewrite gt_plain_hid, gt_plain_out. simpl. rewrite union_nil_l.
        apply NoDup_union; auto. apply NoDup_assemble. auto.
      * intro y. apply (gt_to_unitlike (gt_plain (unit_in [bias]) u) T).
        -- intros [x z] Hc. rewrite gt_plain_con in Hc. simpl in Hc. rewrite U2 in Hc. simpl in Hc.
           unfold gt_new in Hc. apply get_connect_In in Hc. destruct Hc as [Hx _].
           rewrite gt_plain_in. simpl. rewrite U1. simpl. unfold gt_from in Hx. simpl in Hx. exact Hx.
        -- intro z. unfold hidden. rewrite gt_plain_hid, gt_plain_out. simpl. rewrite union_nil_l.
           apply U4.
    + rewrite gt_plain_act. reflexivity.
  - intro H. inversion H; subst ln. rewrite U2. split; [apply Permutation_refl|]. split; auto.
    apply gt_to_unit_perm; auto.
Qed.

(* the accumulated net: MInv plus the multiset of rows and uniqueness of the activation keys *)
Definition XInv (ni : nat) (offset : bool) (act : nat) (hs : list nat) (nt : net) : Prop :=
  MInv ni offset act hs nt /\
  Permutation (n_con nt) (spec_partial ni hs offset) /\
  NoDup (map fst (n_act nt)).

Lemma prev_layer_NoDup ni hs : NoDup (prev_layer ni hs).
Proof.
  unfold prev_layer.
  assert (H : Forall (@NoDup nat) (seq 0 ni :: mlp_ranges ni hs)).
  { constructor. apply seq_NoDup. apply mlp_ranges_NoDup. }
  destruct (exists_last (l := seq 0 ni :: mlp_ranges ni hs)) as [l' [a E]]; [discriminate|].
  rewrite E, last_last. rewrite E in H. apply Forall_app in H. destruct H as [_ H]. inversion H; auto.
Qed.
Lemma gt_from_perm ni offset act hs nt :
  MInv ni offset act hs nt -> Permutation (gt_from nt) (prev_layer ni hs).
Proof.
  intro M. apply NoDup_Permutation.
  - unfold gt_from. apply NoDup_diff. apply NoDup_union.
    + rewrite (m_in _ _ _ _ _ M). apply seq_NoDup.
    + apply NoDup_assemble. rewrite (m_hid _ _ _ _ _ M). apply mlp_ranges_NoDup.
  - apply prev_layer_NoDup.
  - apply (m_from _ _ _ _ _ M).
Qed.

Lemma step_perm ni offset act hs nt ln T :
  MInv ni offset act hs nt ->
  Permutation (n_con nt) (spec_partial ni hs offset) ->
  T = seq (ni + list_sum hs) (length T) ->
  Permutation (n_con ln) (if offset then list_prod [ni - 1] T else []) ->
  Permutation (gt_to ln) T ->
  Permutation (n_con (gt_plain nt ln)) (spec_partial ni (hs ++ [length T]) offset).
Proof.
  intros M P ET PL PT. rewrite gt_plain_con. rewrite spec_partial_snoc_perm. rewrite <- ET.
  apply Permutation_app; auto. apply Permutation_app; auto.
  unfold gt_new. rewrite get_connect_prod. apply list_prod_perm; auto.
  eapply gt_from_perm; eauto.
Qed.

Lemma XInv_init ni offset act : XInv ni offset act [] (unit_in (seq 0 ni)).
Proof.
  split; [apply MInv_init|]. split.
  - unfold spec_partial. simpl. destruct offset; simpl; constructor.
  - simpl. constructor.
Qed.

Lemma mlp_hidden_x fixed ni offset act : 1 <= ni -> forall hs done nt,
  Forall (fun h => 1 <= h) hs -> XInv ni offset act done nt ->
  exists nt', mlp_hidden fixed offset act (ni - 1) hs nt (ni + list_sum done)
              = Some (nt', ni + list_sum (done ++ hs)) /\
              XInv ni offset act (done ++ hs) nt'.
Proof.
  intros Hni. induction hs as [|h t IH]; intros done nt Hf [M [P K]]; simpl.
  - rewrite app_nil_r. exists nt. split; auto. split; auto.
  - inversion Hf; subst.
    destruct (mlp_hidden_step fixed ni offset act done nt h Hni H1 M) as [ln [nt' [E1 [E2 M']]]].
    rewrite E1, E2.
    set (T := seq (ni + list_sum done) h) in *.
    assert (HT : T = seq (ni + list_sum done) (length T)) by (unfold T; rewrite seq_length; auto).
    destruct (mlp_layer_perm fixed offset (ni - 1) (unit_hid T act) T ln) as [PL [PT EA]]; auto.
    { apply unit_hid_is_unit. } { apply seq_NoDup. }
    { simpl. constructor; auto. apply seq_NoDup. } { simpl. constructor. }
    assert (Enet : nt' = gt_plain nt ln).
    { rewrite (net_op_mlp fixed nt ln ni Hni (m_in _ _ _ _ _ M)) in E2; [inversion E2; auto|].
      right; left. destruct (mlp_layer_spec fixed offset (ni - 1) (unit_hid T act) T (unit_hid_is_unit T act))
        as [ln' [El' [_ [L2 _]]]]. rewrite E1 in El'. inversion El'; subst ln'. rewrite L2. simpl. discriminate. }
    assert (X' : XInv ni offset act (done ++ [h]) nt').
    { split; auto. split.
      - subst nt'. replace h with (length T) by (unfold T; apply seq_length).
        eapply step_perm; eauto.
      - subst nt'. rewrite gt_plain_act. apply amerge_NoDup; auto. rewrite EA. simpl.
        rewrite unit_keys. apply seq_NoDup. }
    destruct (IH (done ++ [h]) nt' H2 X') as [nt2 [E3 X2]].
    rewrite list_sum_app in E3. simpl in E3. rewrite Nat.add_0_r, Nat.add_assoc in E3.
    rewrite <- app_assoc in E3, X2. simpl in E3, X2. eauto.
Qed.

Lemma alookup_Some_In k c a : alookup k a = Some c -> In k (map fst a).
Proof.
  induction a as [|[k' c'] r IH]; simpl; [discriminate|].
  destruct (k =? k') eqn:E; auto. apply Nat.eqb_eq in E. auto.
Qed.

(* the finished net: architecture (as in NetMLPProofs), rows as a multiset, activation keys *)
Theorem mlp_result ni no hs act offset oact :
  1 <= ni -> 1 <= no -> Forall (fun h => 1 <= h) hs ->
  exists r, define_net true ni no hs act offset oact = Some r /\
    mlp_arch_ok ni no hs act offset oact r /\
    Permutation (n_con r) (mlp_spec_connects ni no hs offset) /\
    NoDup (map fst (n_act r)) /\
    (forall v, In v (map fst (n_act r)) <-> In v (hidden r) \/ In v (n_out r)).
Proof.
  intros Hni Hno Hf.
  destruct (mlp_architecture ni no hs act offset oact Hni Hno Hf) as [r [Er Ar]].
  exists r. split; auto. split; auto.
  unfold define_net in Er.
  destruct (mlp_hidden_x true ni offset act Hni hs [] (unit_in (seq 0 ni)) Hf (XInv_init ni offset act))
    as [nt [E [M [P K]]]].
  simpl in E, M, P. rewrite Nat.add_0_r in E. rewrite E in Er.
  set (e := ni + list_sum hs) in *. set (T := seq e no) in *.
  destruct (mlp_layer_spec true offset (ni - 1) (unit_out T oact) T (unit_out_is_unit T oact))
    as [ln [El [L1 [L2 [L3 [L4 [L5 L6]]]]]]].
  rewrite El in Er.
  assert (HT0 : In e T) by (apply in_seq; lia).
  assert (Eop : net_op true OPFUEL true nt ln = Some (gt_plain nt ln)).
  { apply (net_op_mlp true nt ln ni); auto. apply (m_in _ _ _ _ _ M). destruct offset.
    - right; right. split; auto. rewrite L3. simpl. intro Hc. rewrite Hc in HT0. destruct HT0.
    - left. auto. }
  rewrite Eop in Er. inversion Er; subst r. clear Er.
  destruct (mlp_layer_perm true offset (ni - 1) (unit_out T oact) T ln) as [PL [PT EA]]; auto.
  { apply unit_out_is_unit. } { apply seq_NoDup. } { simpl. constructor. } { simpl. apply seq_NoDup. }
  assert (HT : T = seq (ni + list_sum hs) (length T)) by (unfold T, e; rewrite seq_length; auto).
  split; [|split].
  - change (mlp_spec_connects ni no hs offset) with (spec_partial ni (hs ++ [no]) offset).
    replace no with (length T) by (unfold T; apply seq_length).
    eapply step_perm; eauto.
  - rewrite gt_plain_act. apply amerge_NoDup; auto. rewrite EA. simpl. rewrite unit_keys. apply seq_NoDup.
  - intro v. destruct Ar as [A1 [A2 [A3 _]]].
    assert (Hh : hidden (gt_plain nt ln) = hidden nt).
    { unfold hidden. rewrite gt_plain_hid, L2. simpl. rewrite app_nil_r. reflexivity. }
    assert (Ho : n_out (gt_plain nt ln) = T).
    { rewrite gt_plain_out, (m_out _ _ _ _ _ M), L3. simpl. apply union_nil_l. }
    rewrite Hh, Ho, gt_plain_act, amerge_In, EA. simpl. rewrite unit_keys. split.
    + intros [H|H]; auto. left. apply (m_keys _ _ _ _ _ M). auto.
    + intros [H|H]; auto. left. eapply alookup_Some_In. apply (m_act _ _ _ _ _ M). auto.
Qed.

(* ---------------------------------------------------------------- multiplicities of the rows *)
Lemma consecutive_snd (a : list nat) ls x y : In (x, y) (consecutive (a :: ls)) -> In y (concat ls).
Proof.
  revert a. induction ls as [|b t IH]; intros a H; [destruct H|].
  change (consecutive (a :: b :: t)) with (list_prod a b ++ consecutive (b :: t)) in H.
  apply in_app_iff in H. simpl. apply in_app_iff. destruct H as [H|H].
  - apply in_prod_iff in H. tauto.
  - right. eapply IH; eauto.
Qed.
Lemma consecutive_fst (ls : list (list nat)) x y : In (x, y) (consecutive ls) -> In x (concat ls).
Proof.
  induction ls as [|a t IH]; intro H; [destruct H|].
  destruct t as [|b t]; [destruct H|].
  change (consecutive (a :: b :: t)) with (list_prod a b ++ consecutive (b :: t)) in H.
  apply in_app_iff in H. simpl. apply in_app_iff. destruct H as [H|H].
  - apply in_prod_iff in H. tauto.
  - right. apply IH. auto.
Qed.
Lemma cons_NoDup hs : forall a e, NoDup a -> (forall x, In x a -> x < e) ->
  NoDup (consecutive (a :: mlp_ranges e hs)).
Proof.
  induction hs as [|h t IH]; intros a e Na Ha; simpl mlp_ranges.
  - simpl. constructor.
  - change (consecutive (a :: seq e h :: mlp_ranges (e + h) t))
      with (list_prod a (seq e h) ++ consecutive (seq e h :: mlp_ranges (e + h) t)).
    apply NoDup_app_intro.
    + apply NoDup_list_prod; auto. apply seq_NoDup.
    + apply IH. apply seq_NoDup. intros x Hx. apply in_seq in Hx. lia.
    + intros [x y] H1 H2. apply in_prod_iff in H1. destruct H1 as [_ H1]. apply in_seq in H1.
      apply consecutive_snd in H2. apply in_concat in H2. destruct H2 as [L [HL Hy]].
      pose proof (mlp_ranges_bound _ _ _ _ HL Hy). lia.
Qed.
(* a row of the layered part whose source is an input goes to the first layer *)
Lemma cons_first hs a e x y : (forall z, In z a -> z < e) -> x < e ->
  In (x, y) (consecutive (a :: mlp_ranges e hs)) -> In x a /\ In y (hd [] (mlp_ranges e hs)).
Proof.
  intros Ha Hx H. destruct hs as [|h t]; [destruct H|]. simpl mlp_ranges in *.
  change (consecutive (a :: seq e h :: mlp_ranges (e + h) t))
    with (list_prod a (seq e h) ++ consecutive (seq e h :: mlp_ranges (e + h) t)) in H.
  apply in_app_iff in H. destruct H as [H|H].
  - apply in_prod_iff in H. simpl. tauto.
  - exfalso. apply consecutive_fst in H. simpl in H. apply in_app_iff in H. destruct H as [H|H].
    + apply in_seq in H. lia.
    + apply in_concat in H. destruct H as [L [HL Hz]]. pose proof (mlp_ranges_bound _ _ _ _ HL Hz). lia.
Qed.
Lemma cons_first_in hs a e x y : In x a -> In y (hd [] (mlp_ranges e hs)) ->
  In (x, y) (consecutive (a :: mlp_ranges e hs)).
Proof.
  intros Hx Hy. destruct hs as [|h t]; [destruct Hy|]. simpl mlp_ranges in *.
  change (consecutive (a :: seq e h :: mlp_ranges (e + h) t))
    with (list_prod a (seq e h) ++ consecutive (seq e h :: mlp_ranges (e + h) t)).
  apply in_app_iff. left. apply in_prod_iff. auto.
Qed.
Lemma existsb_pair_In c l : existsb (pair_eqb c) l = true <-> In c l.
Proof.
  rewrite existsb_exists. split.
  - intros [d [H E]]. apply pair_eqb_eq in E. subst. auto.
  - intro H. exists c. split; auto. apply pair_eqb_eq. auto.
Qed.

(* C13_mlp_duplicates *)
Theorem mlp_duplicates ni no hs act offset oact :
  1 <= ni -> 1 <= no -> Forall (fun h => 1 <= h) hs ->
  exists r, define_net true ni no hs act offset oact = Some r /\
    Permutation (n_con r) (mlp_spec_connects ni no hs offset) /\
    forall c, count_pair c (n_con r) =
      if offset && (fst c =? ni - 1) && mem (snd c) (hd [] (mlp_ranges ni (hs ++ [no]))) then 2
      else if existsb (pair_eqb c) (mlp_spec_connects ni no hs offset) then 1 else 0.
Proof.
  intros Hni Hno Hf.
  destruct (mlp_result ni no hs act offset oact Hni Hno Hf) as [r [Er [_ [P _]]]].
  exists r. split; auto. split; auto. intros [x y].
  rewrite (count_pair_perm _ _ _ P). unfold mlp_spec_connects.
  set (LS := mlp_ranges ni (hs ++ [no])).
  set (CP := consecutive (seq 0 ni :: LS)). set (BP := list_prod [ni - 1] (concat LS)).
  assert (NC : NoDup CP).
  { unfold CP, LS. apply cons_NoDup. apply seq_NoDup. intros z Hz. apply in_seq in Hz. lia. }
  assert (NB : NoDup BP).
  { unfold BP, LS. apply NoDup_list_prod. repeat constructor; auto. rewrite concat_mlp_ranges. apply seq_NoDup. }
  assert (Hin0 : forall z, In z (seq 0 ni) -> z < ni) by (intros z Hz; apply in_seq in Hz; lia).
  assert (HBP : In (x, y) BP <-> x = ni - 1 /\ In y (concat LS)).
  { unfold BP. rewrite in_prod_iff. simpl. intuition. }
  assert (Hfirst : forall z, In z (hd [] LS) -> In z (concat LS)).
  { intros z Hz. destruct LS as [|L0 LS']; [destruct Hz|]. simpl in *. apply in_app_iff. auto. }
  rewrite count_pair_app. simpl fst. simpl snd.
  destruct (offset && (x =? ni - 1) && mem y (hd [] LS)) eqn:Ecase.
  - apply andb_true_iff in Ecase. destruct Ecase as [Ecase E3].
    apply andb_true_iff in Ecase. destruct Ecase as [E1 E2].
    subst offset. apply Nat.eqb_eq in E2. apply mem_In in E3. subst x.
    rewrite (count_pair_nodup _ CP NC), (count_pair_nodup _ BP NB); auto.
    + apply HBP. auto.
    + unfold CP, LS. apply cons_first_in; auto. apply in_seq. lia.
  - assert (Hnot : ~ (offset = true /\ In (x, y) CP /\ In (x, y) BP)).
    { intros [E1 [H1 H2]]. apply HBP in H2. destruct H2 as [Ex _]. subst x.
      unfold CP, LS in H1. apply cons_first in H1; auto; [|lia]. destruct H1 as [_ H1].
      apply mem_In in H1. fold LS in H1. rewrite E1, Nat.eqb_refl, H1 in Ecase. discriminate. }
    destruct (existsb (pair_eqb (x, y)) (CP ++ (if offset then BP else []))) eqn:Eex.
    + apply existsb_pair_In, in_app_iff in Eex. destruct Eex as [H1|H2].
      * rewrite (count_pair_nodup _ CP NC) by auto. destruct offset; [|reflexivity].
        rewrite count_pair_notin; auto; intro H2; apply Hnot; auto.
      * destruct offset; [|destruct H2].
        rewrite (count_pair_nodup _ BP NB) by auto. rewrite count_pair_notin; auto;
        intro H1; apply Hnot; auto.
    + assert (Hn : ~ In (x, y) (CP ++ (if offset then BP else []))).
      { intro H. apply existsb_pair_In in H. congruence. }
      rewrite !count_pair_notin; auto; intro H; apply Hn; apply in_app_iff; auto.
Qed.

(* ---------------------------------------------------------------- C12 premises: Layered *)
Definition full_layers (ni no : nat) (hs : list nat) : list (list nat) :=
  seq 0 ni :: mlp_ranges ni (hs ++ [no]).

Lemma nth_error_last {A} (l : list A) d : l <> [] -> nth_error l (length l - 1) = Some (last l d).
Proof.
  intro H. destruct (exists_last H) as [l' [a E]]. subst l.
  rewrite last_last, app_length. simpl. replace (length l' + 1 - 1) with (length l') by lia.
  rewrite nth_error_app2 by lia. rewrite Nat.sub_diag. reflexivity.
Qed.

(* every row of the specification goes from a layer to a strictly later layer *)
Lemma spec_index ni offset : 1 <= ni -> forall hs x y,
  In (x, y) (spec_partial ni hs offset) ->
  exists i j A B, i < j /\
    nth_error (seq 0 ni :: mlp_ranges ni hs) i = Some A /\ In x A /\
    nth_error (seq 0 ni :: mlp_ranges ni hs) j = Some B /\ In y B.
Proof.
  intros Hni hs. induction hs as [|h t IH] using rev_ind; intros x y H.
  - unfold spec_partial in H. simpl in H. destruct offset; simpl in H; tauto.
  - rewrite mlp_ranges_snoc.
    change (seq 0 ni :: mlp_ranges ni t ++ [seq (ni + list_sum t) h])
      with ((seq 0 ni :: mlp_ranges ni t) ++ [seq (ni + list_sum t) h]).
    set (LL := seq 0 ni :: mlp_ranges ni t) in *. set (T := seq (ni + list_sum t) h) in *.
    assert (HT : nth_error (LL ++ [T]) (length LL) = Some T).
    { rewrite nth_error_app2 by lia. rewrite Nat.sub_diag. reflexivity. }
    apply spec_partial_snoc in H. destruct H as [H|[[_ [Ex Hy]]|[Hx Hy]]].
    + destruct (IH x y H) as [i [j [A [B [Hij [HA [HxA [HB HyB]]]]]]]].
      exists i, j, A, B. repeat split; auto.
      * rewrite nth_error_app1; auto. apply nth_error_Some. congruence.
      * rewrite nth_error_app1; auto. apply nth_error_Some. congruence.
    + exists 0, (length LL), (seq 0 ni), T. repeat split; auto.
      * unfold LL. simpl. lia.
      * subst x. apply in_seq. lia.
    + exists (length LL - 1), (length LL), (prev_layer ni t), T.
      assert (length LL >= 1) by (unfold LL; simpl; lia). repeat split; auto; try lia.
      rewrite nth_error_app1 by lia. unfold prev_layer. apply nth_error_last. unfold LL. discriminate.
Qed.

Lemma consecutive_In (ls : list (list nat)) : forall i A B x y,
  nth_error ls i = Some A -> nth_error ls (S i) = Some B -> In x A -> In y B ->
  In (x, y) (consecutive ls).
Proof.
  induction ls as [|a t IH]; intros i A B x y HA HB Hx Hy; [destruct i; discriminate|].
  destruct t as [|b t]; [destruct i; simpl in HB; try discriminate; destruct i; discriminate|].
  change (consecutive (a :: b :: t)) with (list_prod a b ++ consecutive (b :: t)).
  apply in_app_iff. destruct i as [|i]; simpl in HA, HB.
  - inversion HA; inversion HB; subst. left. apply in_prod_iff. auto.
  - right. eapply IH; eauto.
Qed.
Lemma mlp_ranges_nonempty e hs L :
  Forall (fun h => 1 <= h) hs -> In L (mlp_ranges e hs) -> exists x, In x L.
Proof.
  revert e. induction hs as [|h t IH]; intros e Hf HL; simpl in HL; [destruct HL|].
  inversion Hf; subst. destruct HL as [<-|HL].
  - exists e. apply in_seq. lia.
  - eapply IH; eauto.
Qed.

Section MLPPremises.
  Variables ni no : nat.
  Variable hs : list nat.
  Variables act oact : nat.
  Variable offset : bool.
  Hypothesis Hni : 1 <= ni.
  Hypothesis Hno : 1 <= no.
  Hypothesis Hf : Forall (fun h => 1 <= h) hs.
  Variable r : net.
  Hypothesis A : mlp_arch_ok ni no hs act offset oact r.
  Hypothesis Kn : NoDup (map fst (n_act r)).
  Hypothesis Ka : forall v, In v (map fst (n_act r)) <-> In v (hidden r) \/ In v (n_out r).

  Let e := ni + list_sum hs.

  Lemma mp_sets : NoDup (n_in r ++ hidden r ++ n_out r).
  Proof.
    destruct A as [A1 [A2 [A3 _]]]. unfold hidden. rewrite A1, A2, A3, concat_mlp_ranges.
    rewrite <- seq_app. change (seq ni (list_sum hs + no)) with (seq (0 + ni) (list_sum hs + no)).
    rewrite <- seq_app. apply seq_NoDup.
  Qed.

  Lemma mp_full_level k L v :
    nth_error (full_layers ni no hs) k = Some L -> In v L -> level r v k.
  Proof.
    destruct A as [A1 [A2 [A3 _]]]. unfold full_layers. rewrite mlp_ranges_snoc. intros HL Hv.
    destruct k as [|k]; simpl in HL.
    - inversion HL; subst. left. split; auto. rewrite A1. auto.
    - destruct (Nat.lt_ge_cases k (length (mlp_ranges ni hs))) as [Hk|Hk].
      + rewrite nth_error_app1 in HL by auto. right; left. exists k, L. rewrite A2. auto.
      + rewrite nth_error_app2 in HL by auto.
        destruct (k - length (mlp_ranges ni hs)) as [|d] eqn:Ed; simpl in HL; [|destruct d; discriminate].
        inversion HL; subst. right; right. rewrite A2, A3. split; auto. f_equal. lia.
  Qed.

  Lemma mp_con_levels a b : In (a, b) (n_con r) ->
    exists i j, i < j /\ level r a i /\ level r b j.
  Proof.
    intro H. destruct A as [_ [_ [_ [A4 _]]]]. apply A4 in H.
    change (mlp_spec_connects ni no hs offset) with (spec_partial ni (hs ++ [no]) offset) in H.
    destruct (spec_index ni offset Hni _ _ _ H) as [i [j [La [Lb [Hij [Ha [Hxa [Hb Hyb]]]]]]]].
    exists i, j. split; auto. split; eapply mp_full_level; eauto.
  Qed.

  Lemma mp_layered : Layered r.
  Proof.
    pose proof mp_sets as ND. constructor; auto.
    - exists (rank_of r). split; [|split; [|split]].
      + intros v Hv. apply level_rank_of; auto. left; auto.
      + intros i L v Hi Hv. apply level_rank_of; auto. right; left; eauto.
      + intros v Hv. apply level_rank_of; auto. right; right; auto.
      + intros a b Hab. destruct (mp_con_levels a b Hab) as [i [j [Hij [La Lb]]]].
        rewrite (level_rank_of r a i ND La), (level_rank_of r b j ND Lb). split; auto.
        pose proof (level_bound _ _ _ Lb) as Hb. split.
        * destruct La as [[_ H]|[[k [L [_ [Hk Hv]]]]|[-> _]]]; auto; try lia.
          right. apply In_concat_nth. eauto.
        * destruct Lb as [[-> _]|[[k [L [_ [Hk Hv]]]]|[_ H]]]; auto; try lia.
          left. apply In_concat_nth. eauto.
    - (* every hidden / output node has a row from the previous (non-empty) layer *)
      intros v Hv. destruct A as [A1 [A2 [A3 [A4 _]]]].
      assert (Hk : exists k L, nth_error (full_layers ni no hs) (S k) = Some L /\ In v L).
      { unfold full_layers. rewrite mlp_ranges_snoc. simpl. destruct Hv as [Hv|Hv].
        - apply In_concat_nth in Hv. destruct Hv as [k [L [Hk Hv]]]. exists k, L. split; auto.
          rewrite nth_error_app1; [rewrite <- A2; auto|]. rewrite <- A2. apply nth_error_Some. congruence.
        - exists (length (mlp_ranges ni hs)), (seq (ni + list_sum hs) no). split.
          + rewrite nth_error_app2 by lia. rewrite Nat.sub_diag. reflexivity.
          + rewrite <- A3. auto. }
      destruct Hk as [k [L [Hk HvL]]].
      assert (Hprev : exists P, nth_error (full_layers ni no hs) k = Some P).
      { destruct (nth_error (full_layers ni no hs) k) eqn:E; eauto.
        apply nth_error_None in E. assert (S k < length (full_layers ni no hs)) by (apply nth_error_Some; congruence). lia. }
      destruct Hprev as [P HP].
      assert (Hx : exists x, In x P).
      { unfold full_layers in HP. destruct k as [|k]; simpl in HP.
        - inversion HP; subst. exists 0. apply in_seq. lia.
        - apply nth_error_In in HP. apply (mlp_ranges_nonempty ni (hs ++ [no])); auto.
          apply Forall_app. split; auto. }
      destruct Hx as [x Hx]. exists x. apply A4. unfold mlp_spec_connects. apply in_app_iff. left.
      apply (consecutive_In (full_layers ni no hs) k P L); auto.
  Qed.

  Lemma mp_ids v : In v (n_in r ++ hidden r ++ n_out r) -> v < ni + list_sum hs + no.
  Proof.
    destruct A as [A1 [A2 [A3 _]]]. unfold hidden. rewrite A1, A2, A3, concat_mlp_ranges.
    rewrite !in_app_iff, !in_seq. lia.
  Qed.
End MLPPremises.

(* ---------------------------------------------------------------- C12 premises: sm_same *)
Lemma srcs_of_app l1 l2 t : srcs_of (l1 ++ l2) t = srcs_of l1 t ++ srcs_of l2 t.
Proof. unfold srcs_of. rewrite filter_app, map_app. reflexivity. Qed.
Lemma srcs_of_none l t : (forall c, In c l -> snd c <> t) -> srcs_of l t = [].
Proof.
  intro H. unfold srcs_of. induction l as [|c r IH]; simpl; auto.
  destruct (snd c =? t) eqn:E.
  - apply Nat.eqb_eq in E. exfalso. apply (H c); simpl; auto.
  - apply IH. intros d Hd. apply H. simpl; auto.
Qed.
Lemma srcs_map_pair (a : nat) B t : NoDup B -> In t B -> srcs_of (map (pair a) B) t = [a].
Proof.
  intro ND. induction ND as [|b B Hb ND IH]; intro Hin; [destruct Hin|].
  unfold srcs_of in *. simpl. destruct (b =? t) eqn:E.
  - apply Nat.eqb_eq in E. subst b. simpl. f_equal.
    apply (srcs_of_none (map (pair a) B) t). intros c Hc. apply in_map_iff in Hc.
    destruct Hc as [z [<- Hz]]. simpl. intro Ez. subst. auto.
  - apply IH. destruct Hin as [Hin|Hin]; auto. subst. rewrite Nat.eqb_refl in E. discriminate.
Qed.
Lemma srcs_prod (A B : list nat) t : NoDup B -> In t B -> srcs_of (list_prod A B) t = A.
Proof.
  intros ND Hin. induction A as [|a A IH]; simpl.
  - reflexivity.
  - rewrite srcs_of_app, srcs_map_pair, IH; auto.
Qed.
Lemma key_of_srcs_perm con t : Permutation (key_of con t) (srcs_of con t).
Proof.
  unfold key_of, entries. rewrite sort_src_perm, entries_from_srcs. apply Permutation_refl.
Qed.

(* the sources of an output node in the specification list do not depend on the node *)
Lemma spec_output_srcs ni no hs offset t :
  In t (seq (ni + list_sum hs) no) ->
  srcs_of (mlp_spec_connects ni no hs offset) t
  = prev_layer ni hs ++ (if offset then [ni - 1] else []).
Proof.
  intro Ht. unfold mlp_spec_connects. rewrite mlp_ranges_snoc.
  change (seq 0 ni :: mlp_ranges ni hs ++ [seq (ni + list_sum hs) no])
    with ((seq 0 ni :: mlp_ranges ni hs) ++ [seq (ni + list_sum hs) no]).
  rewrite consecutive_snoc_eq by discriminate. fold (prev_layer ni hs).
  assert (Hnone : srcs_of (consecutive (seq 0 ni :: mlp_ranges ni hs)) t = []).
  { apply srcs_of_none. intros [x y] Hc. simpl. apply consecutive_snd in Hc.
    apply hidden_ranges_bound in Hc. apply in_seq in Ht. lia. }
  assert (Hprev : srcs_of (list_prod (prev_layer ni hs) (seq (ni + list_sum hs) no)) t = prev_layer ni hs).
  { apply srcs_prod; auto. apply seq_NoDup. }
  rewrite !srcs_of_app, Hnone, Hprev. cbn [app]. f_equal.
  destruct offset; [|reflexivity].
  apply srcs_prod.
  - rewrite concat_app, concat_mlp_ranges. simpl. rewrite app_nil_r, <- seq_app. apply seq_NoDup.
  - rewrite concat_app. apply in_app_iff. right. simpl. rewrite app_nil_r. auto.
Qed.

(* C12_mlp_premises *)
Theorem mlp_premises ni no hs act offset oact :
  1 <= ni -> 1 <= no -> Forall (fun h => 1 <= h) hs -> act <> 5 ->
  exists r, define_net true ni no hs act offset oact = Some r /\
    Layered r /\ sm_same r /\
    (forall v, In v (n_in r ++ hidden r ++ n_out r) -> v < ni + list_sum hs + no).
Proof.
  intros Hni Hno Hf Hact.
  destruct (mlp_result ni no hs act offset oact Hni Hno Hf) as [r [Er [A [P [Kn Ka]]]]].
  exists r. split; auto. split; [|split].
  - exact (mp_layered ni no hs act oact offset Hni Hno Hf r A Kn Ka).
  - intros u v Hu Hv.
    assert (Hout : forall z, alookup z (n_act r) = Some 5 -> In z (seq (ni + list_sum hs) no)).
    { intros z Hz. destruct A as [_ [_ [A3 [_ [_ [A6 _]]]]]].
      pose proof (alookup_Some_In _ _ _ Hz) as Hk. apply Ka in Hk. destruct Hk as [Hk|Hk].
      - rewrite (A6 z Hk) in Hz. inversion Hz. congruence.
      - rewrite <- A3. auto. }
    rewrite !(key_of_perm (n_con r) (mlp_spec_connects ni no hs offset)) by auto.
    apply sorted_le_perm_eq.
    + unfold key_of, entries. apply sort_src_sorted.
    + unfold key_of, entries. apply sort_src_sorted.
    + rewrite !key_of_srcs_perm. rewrite !spec_output_srcs by auto. apply Permutation_refl.
  - eapply mp_ids; eauto.
Qed.
