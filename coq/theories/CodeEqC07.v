(* CodeEqC07.v — the hand-written models of the real-coded DE operators (DEOps.v) are EQUAL to the definitions
   generated from utils/crossovers.py (binomial), utils/mutations.py (the DE strategies),
   optimizers/_differentialevolution.py (bounds_control) and optimizers/_shade.py (bounds_control_mean). *)
From TF Require Import Py PyLemmas DEOps RandomPrimsProofs RandomPrimsProofs2 CodeEqC11 CodeEqC06.
Open Scope Z_scope.
From TFG Require Import GenCode.
Open Scope Z_scope.

(* ---------- generic pointwise loops over any element type ---------- *)
Lemma cond_overwrite_gen {A} (d : A) (c : nat -> bool) (f : nat -> A) (base : list A) :
  fold_left (fun st j => if c j then upd st j (f j) else st) (seq 0 (length base)) base
  = map (fun i => if c i then f i else nth i base d) (seq 0 (length base)).
Proof.
  rewrite (fold_pointwise_all d (fun st j => if c j then upd st j (f j) else st) (fun i old => if c i then f i else old)).
  - reflexivity.
  - intros st i Hi. destruct (c i); [reflexivity|]. symmetry. apply upd_same.
Qed.

Lemma coin_pointwise_gen {A} (d : A) (g : nat -> bool -> A -> A) (cs : list bool) (x : list A) :
  fold_left (fun st jj => upd st jj (g jj (nth jj cs false) (nth jj st d))) (seq 0 (length x)) x
  = map (fun i => g i (nth i cs false) (nth i x d)) (seq 0 (length x)).
Proof.
  apply (fold_pointwise_all d (fun st jj => upd st jj (g jj (nth jj cs false) (nth jj st d)))
           (fun i old => g i (nth i cs false) old)).
  intros; reflexivity.
Qed.

(* ---------- bounds_control / bounds_control_mean ---------- *)
Theorem code_bounds_control a l r : py_bounds_control a l r = bounds_control a l r.
Proof.
  unfold py_bounds_control, bounds_control, vbuild. cbv zeta. unfold zlen. rewrite for_range_p_0.
  transitivity (fold_left (fun st j => if Qltb (nth j a 0%Q) (nth j l 0%Q) || Qltb (nth j r 0%Q) (nth j a 0%Q)
                                       then upd st j (if Qltb (nth j a 0%Q) (nth j l 0%Q) then nth j l 0%Q else nth j r 0%Q) else st)
                  (seq 0 (length a)) a).
  { apply fold_left_ext. intros st j. rewrite !getQ_nat, !setA_nat.
    destruct (Qltb (nth j a 0%Q) (nth j l 0%Q)); [reflexivity|]. cbn [orb].
    destruct (Qltb (nth j r 0%Q) (nth j a 0%Q)); reflexivity. }
  rewrite (cond_overwrite_gen 0%Q). apply map_ext. intro i. unfold clamp1, vnth.
  destruct (Qltb (nth i a 0%Q) (nth i l 0%Q)); [reflexivity|]. cbn [orb].
  destruct (Qltb (nth i r 0%Q) (nth i a 0%Q)); reflexivity.
Qed.

Theorem code_bounds_control_mean a parent l r :
  py_bounds_control_mean a parent l r = bounds_control_mean a parent l r.
Proof.
  unfold py_bounds_control_mean, bounds_control_mean, vbuild. cbv zeta. unfold zlen. rewrite for_range_p_0.
  transitivity (fold_left (fun st j => if Qltb (nth j a 0%Q) (nth j l 0%Q) || Qltb (nth j r 0%Q) (nth j a 0%Q)
                                       then upd st j (if Qltb (nth j a 0%Q) (nth j l 0%Q)
                                                      then ((nth j l 0 + nth j parent 0) / ZtoQ 2)%Q
                                                      else ((nth j r 0 + nth j parent 0) / ZtoQ 2)%Q) else st)
                  (seq 0 (length a)) a).
  { apply fold_left_ext. intros st j. rewrite !getQ_nat, !setA_nat.
    destruct (Qltb (nth j a 0%Q) (nth j l 0%Q)); [reflexivity|]. cbn [orb].
    destruct (Qltb (nth j r 0%Q) (nth j a 0%Q)); reflexivity. }
  rewrite (cond_overwrite_gen 0%Q). apply map_ext. intro i. unfold mean1, vnth.
  destruct (Qltb (nth i a 0%Q) (nth i l 0%Q)); [reflexivity|]. cbn [orb].
  destruct (Qltb (nth i r 0%Q) (nth i a 0%Q)); reflexivity.
Qed.

(* ---------- binomial ---------- *)
Lemma qcoins_coins p n ds : qcoins p n ds = BinaryOps.coins p n ds.
Proof.
  revert ds; induction n as [|n IH]; intro ds; [reflexivity|].
  cbn [qcoins BinaryOps.coins]. rewrite !bind_app. destruct (flip_coin p ds) as [[b ds1]|]; [|reflexivity].
  rewrite !bind_app, IH. reflexivity.
Qed.

Theorem code_binomial individ mutant CR ds :
  py_binomial individ mutant CR ds = binomial individ mutant CR ds.
Proof.
  unfold py_binomial, binomial. cbv zeta. rewrite !bind_app.
  pose proof (code_randint 0 (zlen individ) 1 ds) as Hri. simpl (Z.of_nat 1) in Hri. rewrite Hri. clear Hri.
  unfold zlen.
  destruct (randint 0 (Z.of_nat (length individ)) 1 ds) as [[js ds1]|]; [|reflexivity].
  rewrite getZ_0, bind_app. rewrite for_range_0.
  set (j := nth 0 js 0).
  rewrite (for_idx_ext _ _ _ (fun i st => bind (py_flip_coin CR) (fun b =>
             ret (upd st i ((fun (i : nat) (b : bool) old => if b || (Z.of_nat i =? j) then nth i mutant 0%Q else old) i b (nth i st 0%Q)))))).
  2:{ intros i s ds0 _. rewrite !bind_app. destruct (py_flip_coin CR ds0) as [[b ds2]|]; [|reflexivity].
      rewrite !ret_app. destruct (b || (Z.of_nat i =? j)); [now rewrite setA_nat, getQ_nat|]. now rewrite upd_same. }
  rewrite (for_idx_coins CR (fun i b st => upd st i ((fun (i : nat) (b : bool) old => if b || (Z.of_nat i =? j) then nth i mutant 0%Q else old) i b (nth i st 0%Q)))).
  rewrite (bind_app (BinaryOps.coins _ _)), (bind_app (qcoins _ _)).
  replace (qcoins CR (length individ) ds1) with (BinaryOps.coins CR (length individ) ds1) by (symmetry; apply qcoins_coins).
  destruct (BinaryOps.coins CR (length individ) ds1) as [[cs ds2]|]; [|reflexivity].
  rewrite !ret_app. f_equal. f_equal. cbn [Nat.add].
  rewrite (coin_pointwise_gen 0%Q (fun i b old => if b || (Z.of_nat i =? j) then nth i mutant 0%Q else old)). reflexivity.
Qed.

(* ---------- linear combinations ---------- *)
Lemma vmap2_nth f a b i : (i < length a)%nat -> length b = length a ->
  nth i (vmap2 f a b) 0%Q = f (nth i a 0%Q) (nth i b 0%Q).
Proof.
  unfold vmap2. revert b i; induction a as [|x a IH]; intros [|y b] [|i] Hi Hl; simpl in *; try lia; auto.
  apply IH; lia.
Qed.
Lemma vmap2_length f a b : length b = length a -> length (vmap2 f a b) = length a.
Proof. intro H. unfold vmap2. rewrite map_length, combine_length. lia. Qed.
Lemma smul_nth s a i : (i < length a)%nat -> nth i (smul s a) 0%Q = (s * nth i a 0)%Q.
Proof.
  unfold smul. revert i; induction a as [|x a IH]; intros [|i] Hi; simpl in *; try lia; auto.
  apply IH; lia.
Qed.
Lemma vbuild_nth n f i : (i < n)%nat -> nth i (vbuild n f) 0%Q = f i.
Proof.
  intro Hi. unfold vbuild. rewrite (nth_indep _ 0%Q (f O)) by (rewrite map_length, seq_length; lia).
  rewrite map_nth, seq_nth by lia. reflexivity.
Qed.
Lemma vbuild_length n f : length (vbuild n f) = n.
Proof. unfold vbuild. now rewrite map_length, seq_length. Qed.
Lemma smul_length s a : length (smul s a) = length a.
Proof. apply map_length. Qed.

Lemma lin3_eq a F b c : length b = length a -> length c = length a ->
  vadd a (smul F (vsub b c)) = lin3 a F b c.
Proof.
  intros Hb Hc. unfold lin3, vadd, vsub.
  apply (nth_ext _ _ 0%Q 0%Q).
  - rewrite vmap2_length, vbuild_length; [reflexivity|]. rewrite smul_length, vmap2_length; lia.
  - intros i Hi. rewrite vmap2_length in Hi by (rewrite smul_length, vmap2_length; lia).
    rewrite vbuild_nth by lia.
    rewrite vmap2_nth, smul_nth, vmap2_nth; try lia;
      try (rewrite vmap2_length; lia); try (rewrite smul_length, vmap2_length; lia).
    reflexivity.
Qed.

Lemma lin5_eq a F b c d e : length b = length a -> length c = length a -> length d = length a -> length e = length a ->
  vadd (vadd a (smul F (vsub b c))) (smul F (vsub d e)) = lin5 a F b c d e.
Proof.
  intros Hb Hc Hd He. rewrite (lin3_eq a F b c) by assumption. unfold lin5, lin3, vadd, vsub.
  apply (nth_ext _ _ 0%Q 0%Q).
  - rewrite vmap2_length, !vbuild_length; [reflexivity|].
    rewrite smul_length, vmap2_length, vbuild_length; lia.
  - intros i Hi. rewrite vmap2_length in Hi by (rewrite smul_length, vmap2_length, vbuild_length; lia).
    rewrite vbuild_length in Hi.
    rewrite vbuild_nth by lia.
    rewrite vmap2_nth, smul_nth, vmap2_nth; try lia;
      try (rewrite vbuild_length; lia); try (rewrite vmap2_length; lia);
      try (rewrite smul_length, vmap2_length, vbuild_length; lia).
    rewrite vbuild_nth by lia. reflexivity.
Qed.

(* ---------- the six DE strategies ---------- *)
Lemma getZ_2 l : getZ l 2 = nth 2 l 0. Proof. exact (getZ_nat l 2). Qed.
Lemma getZ_3 l : getZ l 3 = nth 3 l 0. Proof. exact (getZ_nat l 3). Qed.
Lemma getZ_4 l : getZ l 4 = nth 4 l 0. Proof. exact (getZ_nat l 4). Qed.

Definition uniform_rows (n : nat) (pop : list (list Q)) : Prop := Forall (fun row => length row = n) pop.

Lemma row_ok (n : nat) pop r : uniform_rows n pop -> 0 <= r < Z.of_nat (length pop) ->
  getR pop r = row_of pop r /\ length (row_of pop r) = n.
Proof.
  intros Hu Hr. split; [apply getR_nonneg; lia|].
  unfold row_of, uniform_rows, vec in *. rewrite Forall_forall in Hu. apply Hu, nth_In. lia.
Qed.

Lemma code_random_sample_lit n (k : nat) kz ds : kz = Z.of_nat k -> kz <= n ->
  py_random_sample n kz false ds = random_sample n k false ds.
Proof. intros -> H. apply code_random_sample. now right. Qed.

Ltac de_start k Hv :=
  unfold uniform_rows, vec in *; cbv zeta; rewrite bind_app;
  rewrite (code_random_sample_lit _ k) by (try reflexivity; unfold zlen; lia);
  unfold de_mutation, sample_distinct, n_indices; unfold vec in *; rewrite bind_app; unfold zlen;
  let Ers := fresh "Ers" in
  match goal with |- context [random_sample ?n k false ?ds] =>
    destruct (random_sample n k false ds) as [[rs ds1]|] eqn:Ers; [|reflexivity];
    let Hl := fresh "Hl" in
    destruct (random_sample_spec _ _ _ _ _ _ Hv Ers) as (Hl & Hr & _) end;
  rewrite !ret_app; f_equal; f_equal; unfold donor_of, idx.

Ltac de_rows Hu :=
  repeat match goal with
  | Hr : Forall _ (?r :: _) |- _ =>
      let H1 := fresh "Hr" in let H2 := fresh "Hr" in
      inversion Hr as [|? ? H1 H2]; subst; clear Hr;
      let Ha := fresh "Hrow" in let Hb := fresh "Hlen" in
      destruct (row_ok _ _ r Hu H1) as [Ha Hb]; rewrite ?Ha; unfold vec in *
  end.

Theorem code_best_1 cur best pop F ds :
  valid_draws ds -> (2 <= length pop)%nat -> uniform_rows (length best) pop -> length cur = length best ->
  py_best_1 cur best pop F ds = de_mutation 0 cur best pop F ds.
Proof.
  intros Hv Hk Hu Hcur. unfold py_best_1. de_start 2%nat Hv.
  destruct rs as [|r1 [|r2 [|? ?]]]; try discriminate.
  rewrite getZ_0, getZ_1. cbn [nth]. de_rows Hu.
  apply lin3_eq; congruence.
Qed.

Theorem code_rand_1 cur best pop F ds :
  valid_draws ds -> (3 <= length pop)%nat -> uniform_rows (length best) pop -> length cur = length best ->
  py_rand_1 cur best pop F ds = de_mutation 1 cur best pop F ds.
Proof.
  intros Hv Hk Hu Hcur. unfold py_rand_1. de_start 3%nat Hv.
  destruct rs as [|r1 [|r2 [|r3 [|? ?]]]]; try discriminate.
  rewrite getZ_0, getZ_1, getZ_2. cbn [nth]. de_rows Hu.
  apply lin3_eq; congruence.
Qed.

Theorem code_rand_to_best1 cur best pop F ds :
  valid_draws ds -> (3 <= length pop)%nat -> uniform_rows (length best) pop -> length cur = length best ->
  py_rand_to_best1 cur best pop F ds = de_mutation 2 cur best pop F ds.
Proof.
  intros Hv Hk Hu Hcur. unfold py_rand_to_best1. de_start 3%nat Hv.
  destruct rs as [|r1 [|r2 [|r3 [|? ?]]]]; try discriminate.
  rewrite getZ_0, getZ_1, getZ_2. cbn [nth]. de_rows Hu.
  apply lin5_eq; congruence.
Qed.

Theorem code_current_to_best_1 cur best pop F ds :
  valid_draws ds -> (2 <= length pop)%nat -> uniform_rows (length best) pop -> length cur = length best ->
  py_current_to_best_1 cur best pop F ds = de_mutation 3 cur best pop F ds.
Proof.
  intros Hv Hk Hu Hcur. unfold py_current_to_best_1. de_start 2%nat Hv.
  destruct rs as [|r1 [|r2 [|? ?]]]; try discriminate.
  rewrite getZ_0, getZ_1. cbn [nth]. de_rows Hu.
  apply lin5_eq; congruence.
Qed.

Theorem code_best_2 cur best pop F ds :
  valid_draws ds -> (4 <= length pop)%nat -> uniform_rows (length best) pop -> length cur = length best ->
  py_best_2 cur best pop F ds = de_mutation 4 cur best pop F ds.
Proof.
  intros Hv Hk Hu Hcur. unfold py_best_2. de_start 4%nat Hv.
  destruct rs as [|r1 [|r2 [|r3 [|r4 [|? ?]]]]]; try discriminate.
  rewrite getZ_0, getZ_1, getZ_2, getZ_3. cbn [nth]. de_rows Hu.
  apply lin5_eq; congruence.
Qed.

Theorem code_rand_2 cur best pop F ds :
  valid_draws ds -> (5 <= length pop)%nat -> uniform_rows (length best) pop -> length cur = length best ->
  py_rand_2 cur best pop F ds = de_mutation 5 cur best pop F ds.
Proof.
  intros Hv Hk Hu Hcur. unfold py_rand_2. de_start 5%nat Hv.
  destruct rs as [|r1 [|r2 [|r3 [|r4 [|r5 [|? ?]]]]]]; try discriminate.
  rewrite getZ_0, getZ_1, getZ_2, getZ_3, getZ_4. cbn [nth]. de_rows Hu.
  apply lin5_eq; congruence.
Qed.

(* ---------- the property theorems, restated about the GENERATED definitions ---------- *)
From TF Require Import DEOpsProofs.
Open Scope Z_scope.

Theorem src_clamp_in_box a l r : box_ok l r -> length a = length l -> in_box l r (py_bounds_control a l r).
Proof. intros Hb Hl. rewrite code_bounds_control. now apply clamp_in_box. Qed.

Theorem src_mean_in_box a parent l r : length a = length l -> in_box l r parent ->
  in_box l r (py_bounds_control_mean a parent l r).
Proof. intros Hl Hp. rewrite code_bounds_control_mean. now apply mean_in_box. Qed.

Theorem src_binomial individ mutant CR ds child ds' :
  valid_draws ds -> (0 < length individ)%nat ->
  py_binomial individ mutant CR ds = Some (child, ds') ->
  length child = length individ /\
  exists j, (j < length individ)%nat /\ vnth child j = vnth mutant j /\
    forall i, (i < length individ)%nat -> vnth child i = vnth mutant i \/ vnth child i = vnth individ i.
Proof. intros Hv Hl H. rewrite code_binomial in H. exact (binomial_structure individ mutant CR ds child ds' Hv Hl H). Qed.

Theorem src_best_1_donor cur best pop F ds d ds' :
  valid_draws ds -> (2 <= length pop)%nat -> uniform_rows (length best) pop -> length cur = length best ->
  py_best_1 cur best pop F ds = Some (d, ds') ->
  exists rs, length rs = 2%nat /\ NoDup rs /\
    Forall (fun v => 0 <= v < Z.of_nat (length pop)) rs /\ d = donor_of 0 cur best pop F rs.
Proof. intros Hv Hk Hu Hc H. rewrite code_best_1 in H by auto. exact (donor_formula 0 cur best pop F ds d ds' Hv H). Qed.

(* ---------- current_to_pbest_1_archive_p_min (SHADE) ---------- *)
Lemma Qtrunc_floor q : 0 <= Qnum q -> Qtrunc q = Qfloor' q.
Proof. intro H. unfold Qtrunc, Qfloor'. apply Z.quot_div_nonneg; lia. Qed.

Lemma Qfloor'_nonneg q : (0 <= q)%Q -> 0 <= Qfloor' q.
Proof. intro H. unfold Qfloor'. apply Z.div_pos; [|lia]. unfold Qle in H. simpl in H. lia. Qed.

Lemma firstn_min {A} (l : list A) n : firstn (Nat.min n (length l)) l = firstn n l.
Proof.
  destruct (Nat.le_ge_cases n (length l)) as [H|H].
  - now rewrite Nat.min_l.
  - rewrite Nat.min_r by lia. now rewrite firstn_all, firstn_all2.
Qed.

Lemma popXs_one ds : popXs 1 ds = bind popX (fun x => ret [x]) ds.
Proof. unfold popXs. change (Z.to_nat 1) with 1%nat. cbn [popXs_nat]. rewrite !bind_app. destruct (popX ds) as [[x ds1]|]; reflexivity. Qed.

Lemma popI_valid n ds v ds' : valid_draws ds -> popI n ds = Some (v, ds') -> 0 <= v < n /\ valid_draws ds'.
Proof.
  intros Hv H. unfold popI in H. destruct ds as [|[u|m w|x] ds]; try discriminate.
  destruct (m =? n) eqn:E; [|discriminate]. apply Z.eqb_eq in E. subst m. inversion H; subst.
  inversion Hv as [|? ? Hd Hv']; subst. cbn in Hd. auto.
Qed.

Theorem code_current_to_pbest cur pop pbest F archive ds :
  valid_draws ds -> (0 < length pop)%nat ->
  uniform_rows (length cur) pop -> uniform_rows (length cur) archive ->
  Forall (fun v => 0 <= v < Z.of_nat (length pop)) pbest ->
  py_current_to_pbest_1_archive_p_min cur pop pbest F archive ds = current_to_pbest cur pop pbest F archive ds.
Proof.
  intros Hv Hpop Hu Hua Hpb. unfold py_current_to_pbest_1_archive_p_min, current_to_pbest, py_uniform. cbv zeta.
  unfold uniform_rows, vec in *.
  rewrite !bind_app, popXs_one, bind_app.
  destruct ds as [|[u|m w|p_i] ds]; try reflexivity. cbn [popX].
  assert (Hv1 : valid_draws ds) by (inversion Hv; assumption).
  rewrite ret_app, ret_app, getQ_0. cbn [nth].
  (* the cut *)
  set (x := (p_i * ZtoQ (zlen pop))%Q).
  assert (Hxdef : x = (p_i * inject_Z (Z.of_nat (length pop)))%Q) by reflexivity. clearbody x.
  assert (Hx : Qmaxq (ZtoQ 1) x = if Qltb 1 x then x else 1%Q) by reflexivity.
  assert (Hnum : 0 <= Qnum (if Qltb 1 x then x else 1%Q)).
  { destruct (Qltb 1 x) eqn:E; [|simpl; lia]. apply Qltb_lt in E. unfold Qlt in E. simpl in E. lia. }
  rewrite Hx, (Qtrunc_floor _ Hnum).
  assert (Hfl : 0 <= Qfloor' (if Qltb 1 x then x else 1%Q)).
  { apply Qfloor'_nonneg. destruct (Qltb 1 x) eqn:E; [|discriminate]. apply Qltb_lt in E. apply Qlt_le_weak. eapply Qlt_trans; [|exact E]. reflexivity. }
  unfold sliceTo. rewrite (pyidx_nonneg _ _ Hfl).
  assert (Hcut : firstn (Z.to_nat (Qfloor' (if Qltb 1 x then x else 1%Q))) pbest
               = firstn (pbest_cut_len p_i (length pop) (length pbest)) pbest).
  { unfold pbest_cut_len. rewrite firstn_min, <- Hxdef. reflexivity. }
  rewrite Hcut. set (cut := firstn (pbest_cut_len p_i (length pop) (length pbest)) pbest).
  assert (Hcutr : Forall (fun v => 0 <= v < Z.of_nat (length pop)) cut).
  { unfold cut. rewrite Forall_forall in *. intros v Hin. apply Hpb. eapply In_firstn; eauto. }
  (* the index into the cut *)
  rewrite bind_app.
  pose proof (code_randint 0 (zlen cut) 1 ds) as Hri. simpl (Z.of_nat 1) in Hri. rewrite Hri. clear Hri.
  unfold zlen at 1. rewrite bind_app, randint_one, bind_app.
  destruct ds as [|[u|m w|y] ds]; try reflexivity. cbn [popU].
  assert (Hu01 : (0 <= u)%Q /\ valid_draws ds) by (inversion Hv1 as [|? ? Hd Hv']; subst; cbn in Hd; tauto).
  destruct Hu01 as [Hu0 Hv2].
  rewrite !ret_app. rewrite !getZ_0. cbn [nth].
  set (k := 0 + Qfloor' (inject_Z (Z.of_nat (length cut) - 0) * u)).
  assert (Hk : 0 <= k).
  { unfold k. rewrite Z.add_0_l. apply Qfloor'_nonneg. apply Qmult_le_0_compat; [|exact Hu0].
    unfold Qle, inject_Z. simpl. lia. }
  rewrite (getZ_nonneg _ _ Hk).
  assert (Hb : 0 <= nth (Z.to_nat k) cut 0 < Z.of_nat (length pop)).
  { destruct (Nat.lt_ge_cases (Z.to_nat k) (length cut)) as [Hlt|Hge].
    - rewrite Forall_forall in Hcutr. apply Hcutr, nth_In. exact Hlt.
    - rewrite nth_overflow by lia. lia. }
  destruct (row_ok (length cur) pop _ Hu Hb) as [Hrow Hrl]. rewrite Hrow.
  (* r1, r2 *)
  rewrite !bind_app.
  pose proof (code_random_sample (zlen pop) 1 true ds (or_introl eq_refl)) as H1. simpl (Z.of_nat 1) in H1. rewrite H1. clear H1.
  rewrite random_sample_one, bind_app. unfold zlen at 1.
  destruct (popI (Z.of_nat (length pop)) ds) as [[r1 ds3]|] eqn:E1; [|reflexivity].
  destruct (popI_valid _ _ _ _ Hv2 E1) as [Hr1 Hv3].
  rewrite ret_app, getZ_0. cbn [nth]. rewrite !bind_app.
  pose proof (code_random_sample (zlen archive) 1 true ds3 (or_introl eq_refl)) as H2. simpl (Z.of_nat 1) in H2. rewrite H2. clear H2.
  rewrite random_sample_one, bind_app. unfold zlen at 1.
  destruct (popI (Z.of_nat (length archive)) ds3) as [[r2 ds4]|] eqn:E2; [|reflexivity].
  destruct (popI_valid _ _ _ _ Hv3 E2) as [Hr2 Hv4].
  rewrite !ret_app, getZ_0. cbn [nth]. f_equal. f_equal.
  destruct (row_ok (length cur) pop _ Hu Hr1) as [Hrow1 Hrl1].
  destruct (row_ok (length cur) archive _ Hua Hr2) as [Hrow2 Hrl2].
  rewrite Hrow1, Hrow2. unfold vec in *. apply lin5_eq; congruence.
Qed.

Theorem src_current_to_pbest_shape cur pop pbest F archive ds d ds' :
  valid_draws ds -> (0 < length pop)%nat ->
  uniform_rows (length cur) pop -> uniform_rows (length cur) archive ->
  Forall (fun v => 0 <= v < Z.of_nat (length pop)) pbest ->
  py_current_to_pbest_1_archive_p_min cur pop pbest F archive ds = Some (d, ds') -> length d = length cur.
Proof.
  intros Hv Hp Hu Hua Hpb H. rewrite code_current_to_pbest in H by assumption.
  unfold current_to_pbest in H. rewrite !bind_app in H.
  destruct (popX ds) as [[p_i ds1]|]; [|discriminate]. rewrite bind_app in H.
  destruct (randint 0 _ 1 ds1) as [[ks ds2]|]; [|discriminate]. rewrite bind_app in H.
  destruct (popI _ ds2) as [[r1 ds3]|]; [|discriminate]. rewrite bind_app in H.
  destruct (popI _ ds3) as [[r2 ds4]|]; [|discriminate]. rewrite ret_app in H. inversion H; subst.
  unfold lin5. apply vbuild_length.
Qed.
