(* Grid.v — model of SamplingGrid / GrayCode (src/thefittest/utils/transformations.py):
   the binary positional codec, fit, transform and inverse_transform.
   Numbers are exact (Z, Q); one individual = list bool (MSB first per variable);
   a population = list of rows.  Model only; proofs are in GridProofs.v. *)
From TF Require Import Base Gray.
From Coq Require Import Qround.
Open Scope Z_scope.

(* ------------------------------------------------------------------ binary codec *)

(* SamplingGrid.bit_to_int:  np.dot(bit_array, flip(powers[:num_bits]))
   = sum_i bit_i * 2^(num_bits-1-i) *)
Fixpoint bits_to_int (bs : list bool) : Z :=
  match bs with
  | [] => 0
  | b :: t => Z.b2z b * 2 ^ Z.of_nat (length t) + bits_to_int t
  end.

(* SamplingGrid.int_to_bit, one row, num_bits given:
   for i, p in enumerate(flip(powers[:num_bits])): bit[i] = (k & p) > 0,  p = 2^(num_bits-1-i) *)
Fixpoint int_to_bits (w : nat) (k : Z) : list bool :=
  match w with
  | O => []
  | S w' => Z.testbit k (Z.of_nat w') :: int_to_bits w' k
  end.

(* np.max(int_array) *)
Definition zmax (ks : list Z) : Z :=
  match ks with [] => 0 | k :: t => fold_left Z.max t k end.

(* num_bits = int(np.ceil(np.log2(np.max(int_array) + 1)))  — the width the ORIGINAL code always
   used (and the repaired code still uses when no width is passed): taken from the batch maximum *)
Definition batch_width (ks : list Z) : nat := Z.to_nat (Z.log2_up (zmax ks + 1)).

(* SamplingGrid.int_to_bit(int_array, powers, num_bits=None) on a batch (1-D int array -> rows) *)
Definition int_to_bit_batch (num_bits : option nat) (ks : list Z) : list (list bool) :=
  let n := match num_bits with Some n => n | None => batch_width ks end in
  map (int_to_bits n) ks.

(* ------------------------------------------------------------------ fit *)

Inductive kind := Binary | Gray.            (* SamplingGrid | GrayCode *)

(* one variable of a fitted grid: left border, right border, bits *)
Record var := mkvar { vl : Q; vr : Q; vw : nat }.

Definition pow2m1 (w : nat) : Z := 2 ^ Z.of_nat w - 1.

(* _culc_h_from_num_bits:  h = (right - left) / (2.0**bits - 1) *)
Definition h_from_bits (l r : Q) (w : nat) : Q := ((r - l) / inject_Z (pow2m1 w))%Q.
Definition vh (v : var) : Q := h_from_bits (vl v) (vr v) (vw v).

(* _culc_num_bits_from_h:  bits = ceil(log2((right - left)/h + 1)).
   For real x >= 1, ceil(log2 x) is the least n with 2^n >= x, and 2^n >= x <-> 2^n >= ceil x,
   hence  Z.log2_up (Qceiling x). *)
Definition bits_from_h (l r h : Q) : nat :=
  Z.to_nat (Z.log2_up (Qceiling ((r - l) / h + 1)%Q)).

(* fit(..., bits_per_variable=w) and fit(..., h_per_variable=h): in the second case the code
   derives the bits from h and then RECOMPUTES h from the bits (so only l, r, bits are state). *)
Definition fit_bits (l r : Q) (w : nat) : var := mkvar l r w.
Definition fit_h (l r h : Q) : var := mkvar l r (bits_from_h l r h).

Definition total_bits (vs : list var) : nat := list_sum (map vw vs).   (* get_str_len *)

(* ------------------------------------------------------------------ transform *)

Fixpoint map2 {A B C} (f : A -> B -> C) (la : list A) (lb : list B) : list C :=
  match la, lb with
  | a :: ta, b :: tb => f a b :: map2 f ta tb
  | _, _ => []
  end.

(* np.split(population, cumsum(bits)[:-1], axis=1): len(bits) parts, the last one takes the rest *)
Fixpoint split_widths (ws : list nat) (bs : list bool) : list (list bool) :=
  match ws with
  | [] => []
  | w :: t => match t with
              | [] => [bs]
              | _ => firstn w bs :: split_widths t (skipn w bs)
              end
  end.

(* SamplingGrid._decode / GrayCode._decode *)
Definition decode (k : kind) (chunk : list bool) : Z :=
  match k with
  | Binary => bits_to_int chunk
  | Gray => bits_to_int (gray_to_bits chunk)
  end.

(* left + h * int *)
Definition transform1 (k : kind) (v : var) (chunk : list bool) : Q :=
  (vl v + vh v * inject_Z (decode k chunk))%Q.

Definition transform_row (k : kind) (vs : list var) (bs : list bool) : list Q :=
  map2 (transform1 k) vs (split_widths (map vw vs) bs).

Definition transform (k : kind) (vs : list var) (pop : list (list bool)) : list (list Q) :=
  map (transform_row k vs) pop.

(* ------------------------------------------------------------------ inverse_transform *)

(* np.rint on an exact rational: round half to even *)
Definition Qrint (q : Q) : Z :=
  let f := Qfloor q in
  match Qcompare (q - inject_Z f) (1 # 2) with
  | Lt => f
  | Gt => f + 1
  | Eq => if Z.even f then f else f + 1
  end.

(* np.rint((x - left) / h) *)
Definition grid_index (v : var) (x : Q) : Z := Qrint ((x - vl v) / vh v)%Q.

(* SamplingGrid._float_to_bit / GrayCode._float_to_bit on one variable's column.
   repaired = false : the original code (width from the batch maximum);
   repaired = true  : the repaired code (inverse_transform passes the variable's width). *)
Definition float_to_bit (repaired : bool) (k : kind) (v : var) (col : list Q) : list (list bool) :=
  let ks := map (grid_index v) col in
  let bits := int_to_bit_batch (if repaired then Some (vw v) else None) ks in
  match k with
  | Binary => bits
  | Gray => map bits_to_gray bits
  end.

(* population.T for nv variables *)
Fixpoint columns (nv : nat) (pop : list (list Q)) : list (list Q) :=
  match nv with
  | O => []
  | S n => map (fun r => hd 0%Q r) pop :: columns n (map (@tl Q) pop)
  end.

(* np.hstack of per-variable 2-D arrays (each: one bit row per individual) *)
Fixpoint hstack (cols : list (list (list bool))) (nrows : nat) : list (list bool) :=
  match cols with
  | [] => repeat [] nrows
  | c :: t => map2 (@app bool) c (hstack t nrows)
  end.

(* inverse_transform: map(_float_to_bit, population.T, left, h[, bits]) then hstack *)
Definition inverse_transform_gen (repaired : bool) (k : kind) (vs : list var) (pop : list (list Q))
  : list (list bool) :=
  hstack (map2 (float_to_bit repaired k) vs (columns (length vs) pop)) (length pop).

Definition inverse_transform := inverse_transform_gen true.       (* repaired code *)
Definition inverse_transform_old := inverse_transform_gen false.  (* original code, kept as a record *)

(* row-wise specification of the repaired inverse (proved equal to inverse_transform) *)
Definition encode (k : kind) (w : nat) (i : Z) : list bool :=
  match k with
  | Binary => int_to_bits w i
  | Gray => bits_to_gray (int_to_bits w i)
  end.
Definition inverse1 (k : kind) (v : var) (x : Q) : list bool := encode k (vw v) (grid_index v x).
Definition inverse_row (k : kind) (vs : list var) (xs : list Q) : list bool :=
  concat (map2 (inverse1 k) vs xs).

(* ------------------------------------------------------------------ specification vocabulary *)
(* all bit strings of length n in lexicographic order (= itertools.product([0,1], repeat=n)) *)
Fixpoint all_strings (n : nat) : list (list bool) :=
  match n with
  | O => [[]]
  | S m => map (cons false) (all_strings m) ++ map (cons true) (all_strings m)
  end.

Definition good_var (v : var) : Prop := (vl v < vr v)%Q /\ (1 <= vw v)%nat.
Definition good (vs : list var) : Prop := Forall good_var vs.
Definition in_range (v : var) (i : Z) : Prop := 0 <= i <= pow2m1 (vw v).
Definition in_box (v : var) (x : Q) : Prop := (vl v <= x <= vr v)%Q.
Definition grid_point (v : var) (i : Z) : Q := (vl v + vh v * inject_Z i)%Q.
