(* Metrics.v — executable models of src/thefittest/utils/_metrics.py (C19) and the textbook
   (counting / summation) definitions they are compared with.  No proofs here; proofs are in
   MetricsProofs.v.

   Conventions.  int64 label arrays are [list nat]; float64 arrays are [list Q] (exact); a
   2-D array is the list of its rows.  [h[i] += 1] is [incr h i] ([upd] outside the array is the
   identity: the compiled code would write out of bounds there, which is why the theorems
   assume admissible inputs — label-encoded targets, predictions among the true classes).
   np.sqrt / np.log are Section variables (uninterpreted); the clip bounds 1e-7 / 1-1e-7 and the
   replacement denominator 1e-10 are parameters with the decimal constants as instances.
   np.empty(size) in the batch variants is an arbitrary [garbage] list (DESIGN §4). *)
From TF Require Export Base.
Open Scope Q_scope.

(* ------------------------------------------------------------------ numpy primitives *)
Definition zeros (n : nat) : list nat := repeat 0%nat n.                       (* np.zeros(n, int64) *)
Definition incr (h : list nat) (i : nat) : list nat := upd h i (S (nth i h 0%nat)).  (* h[i] += 1 *)
Definition n_classes (y : list nat) : nat := length (nodup Nat.eq_dec y).      (* len(np.unique(y)) *)

Definition Qn (n : nat) : Q := inject_Z (Z.of_nat n).                          (* int -> float *)
Definition qsum (l : list Q) : Q := fold_left Qplus l 0.                       (* np.sum: c = 0; c += v *)
Definition qmean (l : list Q) : Q := qsum l / Qn (length l).                   (* np.mean: sum / size *)
Definition ratio (a b : nat) : Q := Qn a / Qn b.                               (* int64 / int64 *)
Definition sq (x : Q) : Q := x * x.                                            (* x ** 2 *)
Definition vsub (a b : list Q) : list Q := map (fun ab => fst ab - snd ab) (combine a b).  (* a - b *)

(* for i in range(len(y_true)):  ... y_true[i] ... y_predict[i] ...  *)
Definition over_samples {S : Type} (step : S -> nat -> nat -> S) (y p : list nat) (s0 : S) : S :=
  fold_left (fun s i => step s (nth i y 0%nat) (nth i p 0%nat)) (seq 0 (length y)) s0.

(* ------------------------------------------------------------------ accuracy_score *)
(* comparison = y_true == y_predict; comparison_int = comparison.astype(int64); np.mean(...) *)
Definition accuracy_score (y p : list nat) : Q :=
  let comparison_int := map (fun tq => if (fst tq =? snd tq)%nat then 1%Z else 0%Z) (combine y p) in
  inject_Z (fold_left Z.add comparison_int 0%Z) / Qn (length comparison_int).

(* ------------------------------------------------------------------ confusion_matrix *)
(* for true, pred in zip(y_true, y_predict): confusion[true, pred] += 1 *)
Definition cm_step (cm : list (list nat)) (tq : nat * nat) : list (list nat) :=
  upd cm (fst tq) (incr (nth (fst tq) cm []) (snd tq)).
Definition confusion_matrix (y p : list nat) : list (list nat) :=
  let k := n_classes y in
  fold_left cm_step (combine y p) (repeat (zeros k) k).

(* ------------------------------------------------------------------ recall_score *)
Definition recall_step (s : list nat * list nat) (t q : nat) : list nat * list nat :=
  if (t =? q)%nat then (incr (fst s) t, snd s) else (fst s, incr (snd s) t).
Definition class_ratio (tp other : nat) : Q :=           (* zeros(...)[i] unless tp != 0 *)
  if (tp =? 0)%nat then 0 else ratio tp (other + tp).
Definition recall_counts (y p : list nat) : list nat * list nat :=      (* the first loop *)
  let k := n_classes y in over_samples recall_step y p (zeros k, zeros k).
Definition recall_score (y p : list nat) : Q :=
  let k := n_classes y in
  let s := recall_counts y p in
  let true_positives := fst s in
  let false_negatives := snd s in
  qmean (map (fun i => class_ratio (nth i true_positives 0%nat) (nth i false_negatives 0%nat)) (seq 0 k)).

(* ------------------------------------------------------------------ precision_score *)
(* the array the source calls false_negatives is indexed by y_predict[i]: false positives *)
Definition precision_step (s : list nat * list nat) (t q : nat) : list nat * list nat :=
  if (t =? q)%nat then (incr (fst s) t, snd s) else (fst s, incr (snd s) q).
Definition precision_counts (y p : list nat) : list nat * list nat :=
  let k := n_classes y in over_samples precision_step y p (zeros k, zeros k).
Definition precision_score (y p : list nat) : Q :=
  let k := n_classes y in
  let s := precision_counts y p in
  qmean (map (fun i => class_ratio (nth i (fst s) 0%nat) (nth i (snd s) 0%nat)) (seq 0 k)).

(* ------------------------------------------------------------------ f1_score *)
Definition f1_step (s : list nat * list nat * list nat) (t q : nat) : list nat * list nat * list nat :=
  let '(tp, fn, dp) := s in
  if (t =? q)%nat then (incr tp t, fn, dp) else (tp, incr fn t, incr dp q).
Definition class_f1 (tp fn dp : nat) : Q :=
  if (tp =? 0)%nat then 0 else
    let precision := ratio tp (dp + tp) in
    let recall := ratio tp (fn + tp) in
    2 * (precision * recall) / (precision + recall).
Definition f1_counts (y p : list nat) : list nat * list nat * list nat :=
  let k := n_classes y in over_samples f1_step y p (zeros k, zeros k, zeros k).
Definition f1_score (y p : list nat) : Q :=
  let k := n_classes y in
  let '(tp, fn, dp) := f1_counts y p in
  qmean (map (fun i => class_f1 (nth i tp 0%nat) (nth i fn 0%nat) (nth i dp 0%nat)) (seq 0 k)).

(* ------------------------------------------------------------------ regression metrics *)
Definition tiny : Q := 1 # 10000000000.        (* 1e-10 *)

Section Sqrt.
  Variable sqrt : Q -> Q.                       (* np.sqrt, uninterpreted *)
  Definition root_mean_square_error (y p : list Q) : Q :=
    let error := vsub y p in
    let mean_squared_error := qmean (map sq error) in
    sqrt mean_squared_error.
End Sqrt.

Definition coefficient_determination (y p : list Q) : Q :=
  let mean_y_true := qmean y in
  let total_sum := qsum (map (fun a => sq (a - mean_y_true)) y) in
  let total_sum' := if Qeq_bool total_sum 0 then tiny else total_sum in
  let error := vsub y p in
  let residual_sum := qsum (map sq error) in
  1 - residual_sum / total_sum'.

(* ------------------------------------------------------------------ categorical_crossentropy *)
Definition qmaximum (a b : Q) : Q := if Qle_bool a b then b else a.
Definition qminimum (a b : Q) : Q := if Qle_bool a b then a else b.
Definition clip (lo hi x : Q) : Q := qminimum (qmaximum x lo) hi.       (* np.clip(x, lo, hi) *)
Definition lo7 : Q := 1 # 10000000.             (* 1e-7 *)
Definition hi7 : Q := 1 - lo7.                  (* 1 - 1e-7 *)

Section Ln.
  Variable ln : Q -> Q.                         (* np.log, uninterpreted *)
  Variables lo hi : Q.
  (* one row of  -target_clipped * np.log(output_clipped) *)
  Definition neg_log_prob_row (t o : list Q) : list Q :=
    map (fun to => - clip lo hi (fst to) * ln (clip lo hi (snd to))) (combine t o).
  (* np.mean(np.sum(neg_log_prob, axis=1)) *)
  Definition categorical_crossentropy (target output : list (list Q)) : Q :=
    qmean (map (fun to => qsum (neg_log_prob_row (fst to) (snd to))) (combine target output)).
End Ln.

(* ------------------------------------------------------------------ batch variants *)
(* values = np.empty(size); for i in range(size): values[i] = f(y_true, rows[i]) *)
Definition batch_loop {A B : Type} (f : A -> B) (d : A) (rows : list A) (garbage : list B) : list B :=
  fold_left (fun out i => upd out i (f (nth i rows d))) (seq 0 (length rows)) garbage.

Definition root_mean_square_error2d (sqrt : Q -> Q) (y : list Q) (P : list (list Q)) (g : list Q) :=
  batch_loop (root_mean_square_error sqrt y) [] P g.
Definition coefficient_determination2d (y : list Q) (P : list (list Q)) (g : list Q) :=
  batch_loop (coefficient_determination y) [] P g.
Definition categorical_crossentropy3d (ln : Q -> Q) (lo hi : Q) (T : list (list Q))
           (O3 : list (list (list Q))) (g : list Q) :=
  batch_loop (categorical_crossentropy ln lo hi T) [] O3 g.
Definition accuracy_score2d (y : list nat) (P : list (list nat)) (g : list Q) :=
  batch_loop (accuracy_score y) [] P g.
Definition recall_score2d (y : list nat) (P : list (list nat)) (g : list Q) :=
  batch_loop (recall_score y) [] P g.
Definition precision_score2d (y : list nat) (P : list (list nat)) (g : list Q) :=
  batch_loop (precision_score y) [] P g.
Definition f1_score2d (y : list nat) (P : list (list nat)) (g : list Q) :=
  batch_loop (f1_score y) [] P g.

(* ================================================================== textbook definitions *)
(* Σ_{i<n} f i *)
Fixpoint sum_upto (n : nat) (f : nat -> Q) : Q :=
  match n with O => 0 | S m => sum_upto m f + f m end.

Definition count {A : Type} (f : A -> bool) (l : list A) : nat := length (filter f l).
(* #{ k | f y_k p_k } *)
Definition pairs_count (f : nat -> nat -> bool) (y p : list nat) : nat :=
  count (fun tq => f (fst tq) (snd tq)) (combine y p).
Definition TP (c : nat) (y p : list nat) := pairs_count (fun t q => (t =? c)%nat && (q =? c)%nat) y p.
Definition FN (c : nat) (y p : list nat) := pairs_count (fun t q => (t =? c)%nat && negb (q =? c)%nat) y p.
Definition FP (c : nat) (y p : list nat) := pairs_count (fun t q => negb (t =? c)%nat && (q =? c)%nat) y p.

(* macro average over classes 0..k-1 *)
Definition macro (k : nat) (f : nat -> Q) : Q := sum_upto k f / Qn k.
(* per-class score with "absent true positives score 0" *)
Definition score0 (tp other : nat) : Q := if (tp =? 0)%nat then 0 else Qn tp / Qn (tp + other).

(* admissible classification input: y takes exactly the values 0..k-1 (label-encoded, all
   occurring), is non-empty; predictions have the same length and are among the true classes *)
Definition label_encoded (k : nat) (y : list nat) : Prop := forall c, In c y <-> (c < k)%nat.
Definition admissible (k : nat) (y p : list nat) : Prop :=
  y <> [] /\ label_encoded k y /\ length p = length y /\ Forall (fun v => (v < k)%nat) p.

(* regression: textbook sums over the index range *)
Definition nthq (l : list Q) (i : nat) : Q := nth i l 0.
Definition mse_textbook (y p : list Q) : Q :=
  sum_upto (length y) (fun i => (nthq y i - nthq p i) ^ 2) / Qn (length y).
Definition ybar (y : list Q) : Q := sum_upto (length y) (nthq y) / Qn (length y).
Definition SStot (y : list Q) : Q := sum_upto (length y) (fun i => (nthq y i - ybar y) ^ 2).
Definition SSres (y p : list Q) : Q := sum_upto (length y) (fun i => (nthq y i - nthq p i) ^ 2).

(* cross-entropy of an n x c target/output pair; clipT = does the definition clip the target *)
Definition nth2 (m : list (list Q)) (i j : nat) : Q := nth j (nth i m []) 0.
Definition rect (n c : nat) (m : list (list Q)) : Prop :=
  length m = n /\ forall i, (i < n)%nat -> length (nth i m []) = c.
Definition ce_textbook (ln : Q -> Q) (ft fo : Q -> Q) (n c : nat) (T O : list (list Q)) : Q :=
  sum_upto n (fun i => sum_upto c (fun j => - ft (nth2 T i j) * ln (fo (nth2 O i j)))) / Qn n.
