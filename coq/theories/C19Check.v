(* C19Check.v — boolean case checkers evaluated by the correspondence (no proofs here).
   Cases carry binary64 values (hex literals).  Two kinds of check: (a) the exact Q models of
   Metrics.v, fed with the exact rational value of every input float ([Qof_float]), against the
   exact rational value of the implementation's result within a stated tolerance; (b) bit-exact
   binary64 transcriptions (PrimFloat) of the same functions: sequential sums, one division,
   sqrt — compared with PrimFloat.eqb. *)
From TF Require Import Base Metrics.
From Coq Require Import Floats.
Open Scope Q_scope.

(* |a - b| <= 1e-12 * max(1, |b|) *)
Definition tol12 : Q := 1 # 1000000000000.
Definition Qclose_rel (a b : Q) : bool := Qle_bool (Qabs (a - b)) (tol12 * qmaximum 1 (Qabs b)).
Definition Qlist_close_rel (a b : list Q) : bool :=
  (length a =? length b)%nat && forallb (fun ab => Qclose_rel (fst ab) (snd ab)) (combine a b).

Fixpoint natmat_eqb (a b : list (list nat)) : bool :=
  match a, b with
  | [], [] => true
  | x :: a', y :: b' => natlist_eqb x y && natmat_eqb a' b'
  | _, _ => false
  end.

(* ------------------------------------------------------------------ binary64 transcriptions *)
Definition fz (z : Z) : float := PrimFloat.of_uint63 (Uint63.of_Z z).
Definition fnat (n : nat) : float := fz (Z.of_nat n).
Definition fsum (l : list float) : float := fold_left PrimFloat.add l 0%float.
Definition fmean (l : list float) : float := (fsum l / fnat (length l))%float.
Definition fvsub (a b : list float) : list float := map (fun ab => (fst ab - snd ab)%float) (combine a b).
Definition fsq (x : float) : float := (x * x)%float.
Definition ftiny : float := 0x1.b7cdfd9d7bdbbp-34%float.       (* the double 1e-10 *)

Definition rmse_f (y p : list float) : float := PrimFloat.sqrt (fmean (map fsq (fvsub y p))).
Definition r2_f (y p : list float) : float :=
  let m := fmean y in
  let total := fsum (map (fun a => fsq (a - m)%float) y) in
  let total' := if PrimFloat.eqb total 0%float then ftiny else total in
  let resid := fsum (map fsq (fvsub y p)) in
  (1 - resid / total')%float.

Definition accuracy_f (y p : list nat) : float :=
  let cmp := map (fun tq => if (fst tq =? snd tq)%nat then 1%Z else 0%Z) (combine y p) in
  (fz (fold_left Z.add cmp 0%Z) / fnat (length cmp))%float.
Definition class_ratio_f (tp other : nat) : float :=
  if (tp =? 0)%nat then 0%float else (fnat tp / fnat (other + tp))%float.
Definition recall_f (y p : list nat) : float :=
  let s := recall_counts y p in
  fmean (map (fun i => class_ratio_f (nth i (fst s) 0%nat) (nth i (snd s) 0%nat)) (seq 0 (n_classes y))).
Definition precision_f (y p : list nat) : float :=
  let s := precision_counts y p in
  fmean (map (fun i => class_ratio_f (nth i (fst s) 0%nat) (nth i (snd s) 0%nat)) (seq 0 (n_classes y))).
Definition class_f1_f (tp fn dp : nat) : float :=
  if (tp =? 0)%nat then 0%float else
    let precision := (fnat tp / fnat (dp + tp))%float in
    let recall := (fnat tp / fnat (fn + tp))%float in
    (2 * (precision * recall) / (precision + recall))%float.
Definition f1_f (y p : list nat) : float :=
  let '(tp, fn, dp) := f1_counts y p in
  fmean (map (fun i => class_f1_f (nth i tp 0%nat) (nth i fn 0%nat) (nth i dp 0%nat)) (seq 0 (n_classes y))).

Definition flist_eqb (a b : list float) : bool :=
  (length a =? length b)%nat && forallb (fun ab => PrimFloat.eqb (fst ab) (snd ab)) (combine a b).

(* exact rational value of a finite binary64 (0 for nan/inf, which the harness never sends) *)
Definition Qof_float (f : float) : Q :=
  match Prim2SF f with
  | S754_finite s m e =>
      let z := if s then Z.neg m else Z.pos m in
      match e with
      | Z0 => inject_Z z
      | Zpos p => inject_Z (z * 2 ^ Zpos p)
      | Zneg p => Qred (z # (2 ^ p))
      end
  | _ => 0
  end.
Definition qv (l : list float) : list Q := map Qof_float l.
Definition qm (m : list (list float)) : list (list Q) := map qv m.

(* ------------------------------------------------------------------ classification cases *)
(* (y_true, y_predict, confusion matrix, (accuracy, recall, precision, f1) as returned) *)
Definition chk_counting
  (c : list nat * list nat * list (list nat) * (float * float * float * float)) : bool :=
  let '(y, p, cm, (facc, frec, fprec, ff1)) := c in
  natmat_eqb (confusion_matrix y p) cm
  && Qclose_rel (accuracy_score y p) (Qof_float facc) && Qclose_rel (recall_score y p) (Qof_float frec)
  && Qclose_rel (precision_score y p) (Qof_float fprec) && Qclose_rel (f1_score y p) (Qof_float ff1)
  && PrimFloat.eqb (accuracy_f y p) facc && PrimFloat.eqb (recall_f y p) frec
  && PrimFloat.eqb (precision_f y p) fprec && PrimFloat.eqb (f1_f y p) ff1.

(* batch variants through the literal loop model, np.empty = a list of -1 *)
Definition junk (n : nat) : list Q := repeat (-(1)) n.
Definition chk_batch_counting
  (c : list nat * list (list nat) * (list float * list float * list float * list float)) : bool :=
  let '(y, P, (accs, recs, precs, f1s)) := c in
  let g := junk (length P) in
  Qlist_close_rel (accuracy_score2d y P g) (qv accs) && Qlist_close_rel (recall_score2d y P g) (qv recs)
  && Qlist_close_rel (precision_score2d y P g) (qv precs) && Qlist_close_rel (f1_score2d y P g) (qv f1s)
  && flist_eqb (map (accuracy_f y) P) accs && flist_eqb (map (recall_f y) P) recs
  && flist_eqb (map (precision_f y) P) precs && flist_eqb (map (f1_f y) P) f1s.

(* ------------------------------------------------------------------ regression cases *)
(* (y_true, y_predict, rmse, r2) : rmse >= 0 and rmse^2 = mean squared error; r2 = model *)
Definition chk_regression (c : list float * list float * float * float) : bool :=
  let '(y, p, rmse, r2) := c in
  let rm := Qof_float rmse in
  Qle_bool 0 rm && Qclose_rel (rm * rm) (root_mean_square_error (fun x => x) (qv y) (qv p))
  && Qclose_rel (coefficient_determination (qv y) (qv p)) (Qof_float r2).

(* dyadic inputs with |y_i - p_i| constant: every float operation of RMSE is exact, so rmse^2 is
   exactly the model's mean squared error (R^2 still involves one inexact division) *)
Definition chk_regression_exact (c : list float * list float * float * float) : bool :=
  let '(y, p, rmse, r2) := c in
  let rm := Qof_float rmse in
  Qle_bool 0 rm && Qeq_bool (rm * rm) (root_mean_square_error (fun x => x) (qv y) (qv p))
  && Qclose_rel (coefficient_determination (qv y) (qv p)) (Qof_float r2).

Definition chk_regression_f (c : list float * list float * float * float) : bool :=
  let '(y, p, rmse, r2) := c in PrimFloat.eqb (rmse_f y p) rmse && PrimFloat.eqb (r2_f y p) r2.

Definition chk_batch_regression (c : list float * list (list float) * list float * list float) : bool :=
  let '(y, P, rmses, r2s) := c in
  let g := junk (length P) in
  Qlist_close_rel (map (fun r => r * r) (qv rmses)) (root_mean_square_error2d (fun x => x) (qv y) (qm P) g)
  && forallb (Qle_bool 0) (qv rmses)
  && Qlist_close_rel (coefficient_determination2d (qv y) (qm P) g) (qv r2s).

Definition chk_batch_regression_f (c : list float * list (list float) * list float * list float) : bool :=
  let '(y, P, rmses, r2s) := c in
  flist_eqb (map (rmse_f y) P) rmses && flist_eqb (map (r2_f y) P) r2s.

(* ------------------------------------------------------------------ cross-entropy cases *)
(* np.log is supplied as the finite table of the values libm returns for the clipped outputs that
   occur (computed by the harness with math.log); a missing key fails the case *)
Definition tab_find (tab : list (Q * Q)) (x : Q) : option Q :=
  match find (fun kv => Qeq_bool (fst kv) x) tab with Some kv => Some (snd kv) | None => None end.
Definition ln_tab (tab : list (Q * Q)) (x : Q) : Q := match tab_find tab x with Some v => v | None => 0 end.
Definition keys_ok (lo hi : Q) (tab : list (Q * Q)) (Y : list (list Q)) : bool :=
  forallb (fun row => forallb (fun o => match tab_find tab (clip lo hi o) with Some _ => true | None => false end) row) Y.
Definition qtab (tab : list (float * float)) : list (Q * Q) :=
  map (fun kv => (Qof_float (fst kv), Qof_float (snd kv))) tab.

(* (lo, hi, table, target, output, value) *)
Definition chk_crossentropy
  (c : float * float * list (float * float) * list (list float) * list (list float) * float) : bool :=
  let '(lo, hi, tab, T, Y, out) := c in
  let '(lo, hi, tab) := (Qof_float lo, Qof_float hi, qtab tab) in
  keys_ok lo hi tab (qm Y)
  && Qclose_rel (categorical_crossentropy (ln_tab tab) lo hi (qm T) (qm Y)) (Qof_float out).

Definition chk_batch_crossentropy
  (c : float * float * list (float * float) * list (list float) * list (list (list float)) * list float) : bool :=
  let '(lo, hi, tab, T, Y3, outs) := c in
  let '(lo, hi, tab) := (Qof_float lo, Qof_float hi, qtab tab) in
  forallb (fun Y => keys_ok lo hi tab (qm Y)) Y3
  && Qlist_close_rel (categorical_crossentropy3d (ln_tab tab) lo hi (qm T) (map qm Y3) (junk (length Y3))) (qv outs).
