(* C12Check.v — boolean case checkers evaluated by the correspondence of C12 (no proofs here).
   The forward model is instantiated with K = V = Qc (canonical rationals: Leibniz-equal ring
   laws, so the theorems of NetForwardProofs.v apply to exactly this instance), one sample at a
   time; activation codes 1 (ReLU) and 4 (identity) are exact, nets with other codes are not
   sent here (exact_codes).                                                                      *)
From TF Require Import Base Net NetAlgebra NetOrder NetForward.
From Coq Require Import Qcanon.
Local Open Scope nat_scope.

Definition relu_qc (x : Qc) : Qc := if Qle_bool 0 (this x) then x else Q2Qc 0.
Definition act_qc (code : nat) (x : Qc) : Qc := match code with 1 => relu_qc x | _ => x end.
Definition smx_qc (l : list Qc) : list Qc := l.     (* never reached: exact_codes excludes code 5 *)

Definition exact_codes (n : net) : bool :=
  forallb (fun p => (snd p =? 1) || (snd p =? 4)) (n_act n).

Definition fwd_qc (fuel : nat) (n : net) (garbage x : list Qc) (ws : list (list Qc)) :=
  net_forward Qc Qc (Q2Qc 0) (Q2Qc 0) Qcplus Qcmult act_qc smx_qc fuel n garbage x ws.
Definition ref_qc (n : net) (w x : list Qc) :=
  ref_eval Qc Qc (Q2Qc 0) (Q2Qc 0) Qcplus Qcmult act_qc smx_qc n w x.

Definition qc_eqb (a : Qc) (b : Q) : bool := Qeq_bool (this a) b.
Definition qcl_eqb (a : list Qc) (b : list Q) : bool :=
  (length a =? length b) && forallb (fun p => qc_eqb (fst p) (snd p)) (combine a b).
Definition qcll_eqb (a : list (list Qc)) (b : list (list Q)) : bool :=
  (length a =? length b) && forallb (fun p => qcl_eqb (fst p) (snd p)) (combine a b).

(* (net as the implementation holds it, X as samples x columns, weight rows,
    implementation output as rows x samples x outputs) *)
Definition chk_forward (c : net * list (list Q) * list (list Q) * list (list (list Q))) : bool :=
  let '(n, X, W, out) := c in
  let ncols := match X with x :: _ => length x | [] => 0 end in
  let garbage := repeat (Q2Qc 777) (ncols + length (hidden n) + length (n_out n)) in
  let Wc := map (map Q2Qc) W in
  exact_codes n && (length out =? length W) &&
  forallb (fun sx =>
    let s := fst sx in let x := map Q2Qc (snd sx) in
    let impl_s := map (fun row => nth s row []) out in           (* rows x outputs of sample s *)
    match fwd_qc (S (length (n_con n))) n garbage x Wc with
    | Some m => qcll_eqb m impl_s
    | None => false
    end
    && forallb (fun wo => qcl_eqb (ref_qc n (fst wo) x) (snd wo)) (combine Wc impl_s))
    (combine (seq 0 (length X)) X).

(* boolean forms of the premises of C12_forward_is_ref, evaluated on the implementation's nets *)
Definition layered_b (n : net) : bool :=
  let hid := hidden n in
  nodupb (n_in n ++ hid ++ n_out n)
  && forallb (fun c => (rank_of n (fst c) <? rank_of n (snd c))
                       && (mem (fst c) (n_in n) || mem (fst c) hid)
                       && (mem (snd c) hid || mem (snd c) (n_out n))) (n_con n)
  && forallb (fun v => existsb (fun c => snd c =? v) (n_con n)) (hid ++ n_out n)
  && nodupb (map fst (n_act n))
  && set_eq (map fst (n_act n)) (hid ++ n_out n).
Definition sm_same_b (n : net) : bool :=
  let sm := map fst (filter (fun p => snd p =? 5) (n_act n)) in
  forallb (fun u => forallb (fun v =>
     natlist_eqb (map fst (entries (n_con n) u)) (map fst (entries (n_con n) v))) sm) sm.
Definition chk_premises (n : net) : bool := layered_b n && sm_same_b n.
