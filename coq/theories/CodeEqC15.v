(* CodeEqC15.v — SHADE's parameter samplers randc01 / randn01 (optimizers/_shade.py): the hand-written models
   (Adapt.v) are EQUAL to the definitions generated from the source (gen/GenCode.v).  A real-valued primitive
   result (cauchy_distribution(loc, scale, n), np.random.normal(loc, scale, n)) is a DX draw: the value the
   primitive returned, after the affine arithmetic — in the model and in the translation alike. *)
From TF Require Import Py PyLemmas Adapt CodeEqC07.
From TFG Require Import GenCode.
Open Scope Z_scope.

Theorem code_randn01 u ds : py_randn01 u ds = randn01 ds.
Proof.
  unfold py_randn01, randn01. cbv zeta. rewrite !bind_app, popXs_one, bind_app.
  destruct (popX ds) as [[v ds1]|]; [|reflexivity]. rewrite ret_app, getQ_0. cbn [nth].
  unfold clamp01, ZtoQ. change (inject_Z 0) with 0%Q. change (inject_Z 1) with 1%Q.
  destruct (Qltb v 0); [reflexivity|]. destruct (Qltb 1 v); reflexivity.
Qed.

(* the rejection loop, started with a current value *)
Fixpoint redraw (v : Q) (ds : list draw) : option (Q * list draw) :=
  if Qle_bool v 0 then match ds with DX v' :: r => redraw v' r | _ => None end else Some (v, ds).

Lemma randc01_redraw v r : randc01 (DX v :: r)
  = match redraw v r with Some (w, r') => Some (if Qltb 1 w then 1%Q else w, r') | None => None end.
Proof.
  revert v; induction r as [|d r IH]; intro v; cbn [randc01 redraw].
  - destruct (Qle_bool v 0); reflexivity.
  - destruct (Qle_bool v 0); [|reflexivity].
    destruct d as [u|m w|x]; try reflexivity. apply IH.
Qed.

Lemma while_redraw : forall ds v,
  while_f (length ds) (fun value_ => Qle_bool value_ (ZtoQ 0))
    (fun _ => bind (Py.popXs 1) (fun r_2 => ret (getQ r_2 0))) v ds = redraw v ds.
Proof.
  induction ds as [|d r IH]; intro v; cbn [length while_f redraw]; unfold ZtoQ; change (inject_Z 0) with 0%Q.
  - destruct (Qle_bool v 0); reflexivity.
  - destruct (Qle_bool v 0); [|reflexivity].
    rewrite bind_app, bind_app, popXs_one, bind_app.
    destruct d as [u|m w|x]; try reflexivity. cbn [popX]. rewrite !ret_app, getQ_0. cbn [nth]. apply IH.
Qed.

Theorem code_randc01 u ds : py_randc01 u ds = randc01 ds.
Proof.
  unfold py_randc01. cbv zeta. rewrite bind_app, popXs_one, bind_app.
  destruct ds as [|[w|m w|v] r]; try reflexivity. cbn [popX]. rewrite ret_app, getQ_0. cbn [nth].
  rewrite bind_app. unfold while_ds. cbn [Nat.add].
  rewrite randc01_redraw.
  pose proof (while_redraw r v) as H. cbv zeta in H.
  match goal with |- match ?X with _ => _ end = _ => replace X with (redraw v r) end.
  destruct (redraw v r) as [[w r']|]; [|reflexivity]. rewrite ret_app. unfold ZtoQ. reflexivity.
Qed.

(* range statements about the generated definitions *)
From TF Require Import AdaptProofs.
Open Scope Q_scope.
Theorem src_randn01_range u ds v ds' : py_randn01 u ds = Some (v, ds') -> 0 <= v /\ v <= 1.
Proof.
  rewrite code_randn01. unfold randn01. rewrite bind_app. destruct (popX ds) as [[x ds1]|]; [|discriminate].
  rewrite ret_app. intro H. inversion H; subst. unfold clamp01.
  destruct (Qltb x 0) eqn:E0; [split; [apply Qle_refl|discriminate]|].
  destruct (Qltb 1 x) eqn:E1; [split; [discriminate|apply Qle_refl]|].
  apply Qle_bool_false in E0 || idtac.
  split.
  - apply Qnot_lt_le. intro Hc. apply Qltb_lt in Hc. congruence.
  - apply Qnot_lt_le. intro Hc. apply Qltb_lt in Hc. congruence.
Qed.
