(* DEOpsProofs.v — theorems about the DE operators (C07). *)
From TF Require Import Base RandomPrims RandomPrimsProofs RandomPrimsProofs2 DEOps.
Open Scope Q_scope.

Lemma vbuild_length n f : length (vbuild n f) = n.
Proof. unfold vbuild. now rewrite map_length, seq_length. Qed.
Lemma vbuild_nth n f i : (i < n)%nat -> vnth (vbuild n f) i = f i.
Proof.
  intros H. unfold vnth, vbuild. rewrite (nth_map_default f (seq 0 n) i O 0) by (rewrite seq_length; auto).
  now rewrite seq_nth.
Qed.

Ltac minv H :=
  unfold bind, ret in H;
  repeat match type of H with
  | match ?m with Some _ => _ | None => _ end = Some _ =>
      let E := fresh "E" in destruct m as [[? ?]|] eqn:E; [|discriminate]
  end;
  match type of H with
  | Some _ = Some _ => inversion H; subst; clear H
  | _ => idtac
  end.

Definition box_ok (l r : vec) : Prop :=
  length r = length l /\ forall i, (i < length l)%nat -> vnth l i <= vnth r i.

(* ---------------- clamp *)
Lemma clamp1_in x l r : l <= r -> l <= clamp1 x l r /\ clamp1 x l r <= r.
Proof.
  intros H. unfold clamp1. destruct (Qltb x l) eqn:E1; [lra|].
  destruct (Qltb r x) eqn:E2; [lra|].
  assert (l <= x). { destruct (Qlt_le_dec x l) as [Hc|Hc]; auto. apply Qltb_lt in Hc. congruence. }
  assert (x <= r). { destruct (Qlt_le_dec r x) as [Hc|Hc]; auto. apply Qltb_lt in Hc. congruence. }
  lra.
Qed.

Lemma clamp1_id x l r : l <= x -> x <= r -> clamp1 x l r = x.
Proof.
  intros H1 H2. unfold clamp1.
  destruct (Qltb x l) eqn:E1; [apply Qltb_lt in E1; lra|].
  destruct (Qltb r x) eqn:E2; [apply Qltb_lt in E2; lra|]. reflexivity.
Qed.

Theorem clamp_in_box a l r : box_ok l r -> length a = length l -> in_box l r (bounds_control a l r).
Proof.
  intros (Hlr & Hle) Hla. unfold in_box, bounds_control. rewrite vbuild_length. split; [auto|].
  intros i Hi. rewrite vbuild_nth by lia. apply clamp1_in. apply Hle; auto.
Qed.

Theorem clamp_minimal a l r i : (i < length a)%nat ->
  vnth l i <= vnth a i -> vnth a i <= vnth r i -> vnth (bounds_control a l r) i = vnth a i.
Proof. intros Hi H1 H2. unfold bounds_control. rewrite vbuild_nth by auto. now apply clamp1_id. Qed.

Theorem clamp_length a l r : length (bounds_control a l r) = length a.
Proof. apply vbuild_length. Qed.

(* ---------------- midpoint repair *)
Lemma mean1_in x p l r : l <= p -> p <= r -> l <= mean1 x p l r /\ mean1 x p l r <= r.
Proof.
  intros H1 H2. unfold mean1. destruct (Qltb x l) eqn:E1.
  - split; [apply Qle_shift_div_l|apply Qle_shift_div_r]; lra.
  - destruct (Qltb r x) eqn:E2.
    + split; [apply Qle_shift_div_l|apply Qle_shift_div_r]; lra.
    + assert (l <= x). { destruct (Qlt_le_dec x l) as [Hc|Hc]; auto. apply Qltb_lt in Hc. congruence. }
      assert (x <= r). { destruct (Qlt_le_dec r x) as [Hc|Hc]; auto. apply Qltb_lt in Hc. congruence. }
      lra.
Qed.

Theorem mean_in_box a parent l r : length a = length l -> in_box l r parent ->
  in_box l r (bounds_control_mean a parent l r).
Proof.
  intros Hla (Hpl & Hp). unfold in_box, bounds_control_mean. rewrite vbuild_length. split; [auto|].
  intros i Hi. rewrite vbuild_nth by lia. destruct (Hp i Hi). now apply mean1_in.
Qed.

Theorem mean_minimal a parent l r i : (i < length a)%nat ->
  vnth l i <= vnth a i -> vnth a i <= vnth r i -> vnth (bounds_control_mean a parent l r) i = vnth a i.
Proof.
  intros Hi H1 H2. unfold bounds_control_mean. rewrite vbuild_nth by auto. unfold mean1.
  destruct (Qltb (vnth a i) (vnth l i)) eqn:E1; [apply Qltb_lt in E1; lra|].
  destruct (Qltb (vnth r i) (vnth a i)) eqn:E2; [apply Qltb_lt in E2; lra|]. reflexivity.
Qed.

(* the code before the repair: (border + offending value)/2 can stay outside the box *)
Theorem bounds_mean_old_refuted :
  exists a l r, box_ok l r /\ length a = length l /\ ~ in_box l r (bounds_control_mean_old a l r).
Proof.
  exists [-10 # 1], [0], [1]. split; [|split].
  - split; [reflexivity|]. intros i Hi. simpl in Hi. assert (i = 0)%nat by lia. subst. cbn. lra.
  - reflexivity.
  - intros (_ & H). specialize (H 0%nat ltac:(simpl; lia)). cbn in H. destruct H as (H & _).
    unfold Qle in H. cbn in H. lia.
Qed.

(* ---------------- binomial *)
Lemma qcoins_length p : forall n ds cs ds', qcoins p n ds = Some (cs, ds') -> length cs = n.
Proof.
  induction n as [|n IH]; intros ds cs ds' H; cbn [qcoins] in H.
  - unfold ret in H. inversion H; auto.
  - minv H. simpl. f_equal. eapply IH; eauto.
Qed.

Theorem binomial_structure individ mutant CR ds child ds' :
  valid_draws ds -> (0 < length individ)%nat ->
  binomial individ mutant CR ds = Some (child, ds') ->
  length child = length individ /\
  exists j, (j < length individ)%nat /\ vnth child j = vnth mutant j /\
    forall i, (i < length individ)%nat -> vnth child i = vnth mutant i \/ vnth child i = vnth individ i.
Proof.
  intros Hv Hn H. unfold binomial in H. minv H.
  destruct (randint_range 0 (Z.of_nat (length individ)) ltac:(lia) 1 _ _ _ Hv E) as (Hl & Hr).
  destruct l as [|j [|? ?]]; simpl in Hl; try lia. inversion Hr as [|? ? Hj _]; subst. cbn [nth].
  unfold binomial_child. split; [apply vbuild_length|].
  exists (Z.to_nat j). split; [lia|]. split.
  - rewrite vbuild_nth by lia. rewrite Z2Nat.id by lia. rewrite Z.eqb_refl, orb_true_r. reflexivity.
  - intros i Hi. rewrite vbuild_nth by auto. destruct (_ || _); auto.
Qed.

Lemma binomial_length individ mutant CR ds child ds' :
  binomial individ mutant CR ds = Some (child, ds') -> length child = length individ.
Proof. intros H. unfold binomial in H. minv H. apply vbuild_length. Qed.

(* ---------------- donors *)
Theorem donor_formula code cur best pop F ds d ds' :
  valid_draws ds -> de_mutation code cur best pop F ds = Some (d, ds') ->
  exists rs, length rs = n_indices code /\ NoDup rs /\
    Forall (fun v => (0 <= v < Z.of_nat (length pop))%Z) rs /\ d = donor_of code cur best pop F rs.
Proof.
  intros Hv H. unfold de_mutation, sample_distinct in H. minv H.
  destruct (random_sample_spec _ _ _ _ _ _ Hv E) as (Hl & Hr & Hnd).
  exists l. repeat split; auto.
Qed.

(* the formulas, coordinate by coordinate *)
Theorem donor_coordinates cur best pop F rs i :
  let p k := row_of pop (idx rs k) in
  (i < length best)%nat -> (i < length cur)%nat ->
  (forall k, (i < length (p k))%nat) ->
  vnth (donor_of 0 cur best pop F rs) i = vnth best i + F * (vnth (p 0%nat) i - vnth (p 1%nat) i) /\
  vnth (donor_of 1 cur best pop F rs) i = vnth (p 2%nat) i + F * (vnth (p 0%nat) i - vnth (p 1%nat) i) /\
  vnth (donor_of 2 cur best pop F rs) i =
    vnth (p 0%nat) i + F * (vnth best i - vnth (p 0%nat) i) + F * (vnth (p 1%nat) i - vnth (p 2%nat) i) /\
  vnth (donor_of 3 cur best pop F rs) i =
    vnth cur i + F * (vnth best i - vnth cur i) + F * (vnth (p 0%nat) i - vnth (p 1%nat) i) /\
  vnth (donor_of 4 cur best pop F rs) i =
    vnth best i + F * (vnth (p 0%nat) i - vnth (p 1%nat) i) + F * (vnth (p 2%nat) i - vnth (p 3%nat) i) /\
  vnth (donor_of 5 cur best pop F rs) i =
    vnth (p 4%nat) i + F * (vnth (p 0%nat) i - vnth (p 1%nat) i) + F * (vnth (p 2%nat) i - vnth (p 3%nat) i).
Proof.
  intros p Hb Hc Hp. unfold donor_of, lin3, lin5. fold p.
  repeat split; rewrite vbuild_nth; auto; apply Hp.
Qed.

(* ---------------- one trial: always inside the box, whatever the donor, F and CR *)
Theorem de_trial_in_box code cur best pop F CR l r ds t ds' :
  box_ok l r -> length cur = length l ->
  de_new_individ code cur best pop F CR l r ds = Some (t, ds') -> in_box l r t.
Proof.
  intros Hb Hc H. unfold de_new_individ in H. minv H.
  apply clamp_in_box; auto. rewrite (binomial_length _ _ _ _ _ _ E0). auto.
Qed.

Theorem shade_trial_in_box cur pop pbest F CR archive l r ds t ds' :
  in_box l r cur ->
  shade_new_individ cur pop pbest F CR archive l r ds = Some (t, ds') -> in_box l r t.
Proof.
  intros Hc H. unfold shade_new_individ in H. minv H.
  apply mean_in_box; auto. rewrite (binomial_length _ _ _ _ _ _ E0). destruct Hc; auto.
Qed.

(* repair changes only coordinates that were outside *)
Theorem de_repair_minimal c l r i : (i < length c)%nat ->
  vnth l i <= vnth c i -> vnth c i <= vnth r i -> vnth (bounds_control c l r) i = vnth c i.
Proof. apply clamp_minimal. Qed.

(* ---------------- greedy replacement keeps every population member in the box *)
Theorem select_in_box l r : forall mask trials pop,
  Forall (in_box l r) trials -> Forall (in_box l r) pop -> Forall (in_box l r) (select mask trials pop).
Proof.
  induction mask as [|m ms IH]; intros trials pop Ht Hp; cbn [select]; auto.
  destruct trials as [|t ts]; auto. destruct pop as [|p ps]; auto.
  inversion Ht; inversion Hp; subst. constructor; [destruct m; auto|]. apply IH; auto.
Qed.

Lemma select_length {A} : forall mask (trials pop : list A), length (select mask trials pop) = length pop.
Proof.
  induction mask as [|m ms IH]; intros trials pop; cbn [select]; auto.
  destruct trials; auto. destruct pop; auto. simpl. f_equal. apply IH.
Qed.

(* a whole run: generations of (trials in box) + greedy replacement + elitism overwrite by a member *)
Inductive de_step (l r : vec) : list vec -> list vec -> Prop :=
| de_step_intro pop trials mask best :
    Forall (in_box l r) trials -> in_box l r best ->
    de_step l r pop (let p := select mask trials pop in p)
| de_step_elit pop trials mask best :
    Forall (in_box l r) trials -> in_box l r best ->
    de_step l r pop (let p := select mask trials pop in removelast p ++ [best]).

Inductive de_run (l r : vec) : list vec -> list vec -> Prop :=
| de_run_nil pop : de_run l r pop pop
| de_run_cons pop pop1 pop2 : de_step l r pop pop1 -> de_run l r pop1 pop2 -> de_run l r pop pop2.

Lemma Forall_removelast {A} (P : A -> Prop) (xs : list A) : Forall P xs -> Forall P (removelast xs).
Proof.
  induction xs as [|x xs IH]; intros H; simpl; auto. destruct xs; [constructor|].
  inversion H; subst. constructor; auto.
Qed.

Theorem run_in_box l r pop pop' : de_run l r pop pop' -> Forall (in_box l r) pop -> Forall (in_box l r) pop'.
Proof.
  induction 1 as [|pop pop1 pop2 Hs Hr IH]; intros Hp; auto. apply IH.
  destruct Hs as [pop trials mask best Ht Hb|pop trials mask best Ht Hb]; cbv zeta.
  - apply select_in_box; auto.
  - apply Forall_app. split; [|constructor; auto].
    apply Forall_removelast. apply select_in_box; auto.
Qed.
