(* BenchProofs.v — C20 (a): history independence of the benchmark problems from the decidable
   footprint conditions of Bench.v; proofs only.  Everything here is for an ARBITRARY table, an
   arbitrary initial store and an arbitrary behaviour of the opaque writes; the generated table
   is plugged in by props/C20.v. *)
From TF Require Import Base Bench.
From Coq Require Import String.
Open Scope Z_scope.

(* ---------------------------------------------------------------- selectors *)
Lemma sel_overlap_sound i a b : in_sel i a = true -> in_sel i b = true -> sel_overlap a b = true.
Proof.
  destruct a as [|l1 h1 s1], b as [|l2 h2 s2]; simpl; auto.
  intros H1 H2.
  apply andb_prop in H1 as [H1 _]. apply andb_prop in H1 as [L1 U1].
  apply andb_prop in H2 as [H2 _]. apply andb_prop in H2 as [L2 U2].
  apply Z.leb_le in L1, L2. apply Z.ltb_lt in U1, U2. apply Z.ltb_lt. lia.
Qed.

Lemma sels_overlap_sound addr : forall a b,
  matches addr a = true -> matches addr b = true -> sels_overlap a b = true.
Proof.
  induction addr as [|i addr IH]; intros [|sa a] [|sb b]; simpl; auto; try discriminate.
  intros H1 H2. apply andb_prop in H1 as [A1 A2]. apply andb_prop in H2 as [B1 B2].
  rewrite (sel_overlap_sound i sa sb A1 B1). simpl. apply IH; assumption.
Qed.

Lemma zrange_forall_spec P : forall n lo i,
  zrange_forall lo n P = true -> lo <= i < lo + Z.of_nat n -> P i = true.
Proof.
  induction n as [|n IH]; intros lo i H Hi.
  - simpl in Hi. lia.
  - simpl in H. apply andb_prop in H as [H0 H1].
    destruct (Z.eq_dec i lo) as [->|Hne]; [assumption|].
    apply (IH (lo + 1)); [assumption|]. rewrite Nat2Z.inj_succ in Hi. lia.
Qed.

Lemma in_sel_bounds i s lo hi : in_sel i s = true -> sel_bounds s = Some (lo, hi) -> lo <= i < hi.
Proof.
  destruct s as [|l h st]; simpl; [discriminate|].
  intros H E. inversion E; subst.
  apply andb_prop in H as [H _]. apply andb_prop in H as [L U].
  apply Z.leb_le in L. apply Z.ltb_lt in U. lia.
Qed.

Lemma sel_inter_sub_sound i a b c :
  sel_inter_sub a b c = true -> in_sel i a = true -> in_sel i b = true -> in_sel i c = true.
Proof.
  unfold sel_inter_sub. destruct c as [|lc hc sc]; [reflexivity|].
  intros H Ha Hb.
  set (P := fun i0 => implb (in_sel i0 a && in_sel i0 b) (in_sel i0 (SRange lc hc sc))) in *.
  assert (HP : forall lo hi, zrange_forall lo (Z.to_nat (hi - lo)) P = true -> lo <= i < hi ->
                             in_sel i (SRange lc hc sc) = true).
  { intros lo hi Hz Hi. assert (Pi : P i = true).
    { apply (zrange_forall_spec P _ lo i Hz). rewrite Z2Nat.id; lia. }
    unfold P in Pi. rewrite Ha, Hb in Pi. exact Pi. }
  destruct (sel_bounds a) as [[l1 h1]|] eqn:Ea; destruct (sel_bounds b) as [[l2 h2]|] eqn:Eb.
  - pose proof (in_sel_bounds _ _ _ _ Ha Ea). pose proof (in_sel_bounds _ _ _ _ Hb Eb).
    apply (HP _ _ H). lia.
  - pose proof (in_sel_bounds _ _ _ _ Ha Ea). apply (HP _ _ H). lia.
  - pose proof (in_sel_bounds _ _ _ _ Hb Eb). apply (HP _ _ H). lia.
  - discriminate.
Qed.

Lemma sels_inter_sub_sound : forall c addr a b,
  sels_inter_sub a b c = true -> matches addr a = true -> matches addr b = true ->
  matches addr c = true.
Proof.
  induction c as [|sc c IH]; intros addr a b H Ha Hb; [reflexivity|].
  destruct addr as [|i addr].
  - destruct a; [|discriminate]. destruct b; [|discriminate]. discriminate.
  - simpl. destruct a as [|sa a], b as [|sb b]; simpl in H, Ha, Hb; try discriminate.
    + apply andb_prop in H as [H1 H2]. apply andb_prop in Hb as [B1 B2].
      rewrite (sel_inter_sub_sound i SAll sb sc H1 eq_refl B1). simpl.
      apply (IH addr [] b H2); [reflexivity|assumption].
    + apply andb_prop in H as [H1 H2]. apply andb_prop in Ha as [A1 A2].
      rewrite (sel_inter_sub_sound i sa SAll sc H1 A1 eq_refl). simpl.
      apply (IH addr a [] H2); [assumption|reflexivity].
    + apply andb_prop in H as [H1 H2]. apply andb_prop in Ha as [A1 A2]. apply andb_prop in Hb as [B1 B2].
      rewrite (sel_inter_sub_sound i sa sb sc H1 A1 B1). simpl.
      apply (IH addr a b H2); assumption.
Qed.

Lemma Qeqb_strict_eq a b : Qeqb_strict a b = true -> a = b.
Proof.
  destruct a as [na da], b as [nb db]. unfold Qeqb_strict; simpl. intro H.
  apply andb_prop in H as [H1 H2]. apply Z.eqb_eq in H1. apply Pos.eqb_eq in H2. subst. reflexivity.
Qed.

Lemma val_agree_const w1 w2 : val_agree w1 w2 = true ->
  exists v, c_val w1 = VConst v /\ c_val w2 = VConst v.
Proof.
  unfold val_agree. destruct (c_val w1) as [a|], (c_val w2) as [b|]; try discriminate.
  intro H. apply Qeqb_strict_eq in H. subst. exists b. split; reflexivity.
Qed.

(* ---------------------------------------------------------------- writes on one cell *)
Section OneCell.
  Variable orc : oracle.
  Variable c : cell.

  Lemma apply_writes_untouched : forall ws s,
    (forall w, In w ws -> hits w c = false) -> apply_writes orc ws s c = s c.
  Proof.
    induction ws as [|w ws IH]; intros s H; [reflexivity|].
    unfold apply_writes in *. simpl. rewrite IH.
    - unfold apply_write. rewrite (H w (or_introl eq_refl)). reflexivity.
    - intros w' Hin. apply H. right; assumption.
  Qed.

  (* if every write that hits c stores the constant V, a write list either leaves c alone or
     leaves V in it *)
  Lemma apply_writes_settled V : forall ws s,
    (forall w, In w ws -> hits w c = true -> c_val w = VConst V) ->
    apply_writes orc ws s c = if existsb (fun w => hits w c) ws then V else s c.
  Proof.
    induction ws as [|w ws IH]; intros s H; [reflexivity|].
    unfold apply_writes in *. simpl. rewrite IH by (intros w' Hin; apply H; right; assumption).
    destruct (existsb (fun w0 => hits w0 c) ws) eqn:E.
    - rewrite orb_true_r. reflexivity.
    - rewrite orb_false_r. unfold apply_write. destruct (hits w c) eqn:Hw; [|reflexivity].
      rewrite (H w (or_introl eq_refl) Hw). reflexivity.
  Qed.
End OneCell.

(* ---------------------------------------------------------------- histories *)
Section History.
  Variable tbl : list entry.
  Variable dims : list Z.

  Lemma ev_writes_in_all ev : valid_event tbl dims ev -> incl (ev_writes tbl ev) (all_writes tbl dims).
  Proof.
    intros Hv w Hin. unfold all_writes. apply in_flat_map.
    destruct ev as [p|p D]; simpl in *.
    - exists (nth p tbl dummy_entry). split; [apply nth_In; assumption|].
      apply in_or_app. left. assumption.
    - destruct Hv as [Hp HD]. exists (nth p tbl dummy_entry). split; [apply nth_In; assumption|].
      apply in_or_app. right. apply in_flat_map. exists D. split; assumption.
  Qed.

  Definition ev_hits (c : cell) (ev : event) : bool := existsb (fun w => hits w c) (ev_writes tbl ev).

  Lemma run_untouched orc c : forall h s,
    Forall (valid_event tbl dims) h ->
    (forall w, In w (all_writes tbl dims) -> hits w c = false) ->
    run orc tbl h s c = s c.
  Proof.
    induction h as [|ev h IH]; intros s Hv H; [reflexivity|].
    inversion Hv as [|? ? Hev Hh]; subst.
    unfold run in *. simpl. rewrite IH by assumption.
    apply apply_writes_untouched. intros w Hin. apply H. apply (ev_writes_in_all ev Hev). assumption.
  Qed.

  Lemma run_settled orc c V : forall h s,
    Forall (valid_event tbl dims) h ->
    (forall w, In w (all_writes tbl dims) -> hits w c = true -> c_val w = VConst V) ->
    run orc tbl h s c = if existsb (ev_hits c) h then V else s c.
  Proof.
    induction h as [|ev h IH]; intros s Hv H; [reflexivity|].
    inversion Hv as [|? ? Hev Hh]; subst.
    unfold run in *. simpl. rewrite IH by assumption.
    destruct (existsb (ev_hits c) h) eqn:E.
    - rewrite orb_true_r. reflexivity.
    - rewrite orb_false_r. unfold ev_hits.
      apply apply_writes_settled. intros w Hin. apply H. apply (ev_writes_in_all ev Hev). assumption.
  Qed.

  Lemma existsb_ev_hits_in c h ev : In ev h -> ev_hits c ev = true -> existsb (ev_hits c) h = true.
  Proof. intros Hin He. apply existsb_exists. exists ev. split; assumption. Qed.

  (* the core: one reader, one cell *)
  Theorem reader_history_independent orc s0 h p D c :
    reader_ok tbl dims p D = true ->
    Forall (valid_event tbl dims) h -> (p < List.length tbl)%nat -> In D dims -> In (Ctor p) h ->
    in_reads tbl p D c = true ->
    run orc tbl (h ++ [Call p D]) s0 c = run orc tbl [Ctor p; Call p D] s0 c.
  Proof.
    intros Hok Hv Hp HD Hctor Hrd.
    assert (Hv1 : Forall (valid_event tbl dims) (h ++ [Call p D])).
    { apply Forall_app. split; [assumption|]. constructor; [|constructor]. simpl; auto. }
    assert (Hv2 : Forall (valid_event tbl dims) [Ctor p; Call p D]).
    { constructor; [simpl; assumption|]. constructor; [simpl; auto|constructor]. }
    destruct (existsb (fun w => hits w c) (all_writes tbl dims)) eqn:Ew.
    2:{ assert (Hno : forall w, In w (all_writes tbl dims) -> hits w c = false).
        { intros w Hin. destruct (hits w c) eqn:E; [|reflexivity].
          assert (existsb (fun w0 => hits w0 c) (all_writes tbl dims) = true)
            by (apply existsb_exists; exists w; split; assumption). congruence. }
        rewrite (run_untouched orc c _ s0 Hv1 Hno), (run_untouched orc c _ s0 Hv2 Hno). reflexivity. }
    apply existsb_exists in Ew as [w1 [Hin1 Hh1]].
    unfold in_reads in Hrd. apply existsb_exists in Hrd as [r0 [Hr0 Hhr]].
    unfold reader_ok in Hok. rewrite forallb_forall in Hok.
    specialize (Hok (peval D r0) (in_map _ _ _ Hr0)).
    rewrite forallb_forall in Hok.
    (* facts about a write that hits c *)
    assert (Htouch : forall w, hits w c = true -> touches w (peval D r0) = true).
    { intros w Hw. unfold hits in Hw. unfold hits_place in Hhr. unfold touches.
      apply andb_prop in Hw as [T1 M1]. apply andb_prop in Hhr as [T2 M2].
      apply Nat.eqb_eq in T1, T2. rewrite <- T1, <- T2, Nat.eqb_refl. simpl.
      apply (sels_overlap_sound (snd c)); assumption. }
    assert (Hwov : forall w w', hits w c = true -> hits w' c = true -> wov w w' = true).
    { intros w w' Hw Hw'. unfold hits in Hw, Hw'. unfold wov.
      apply andb_prop in Hw as [T1 M1]. apply andb_prop in Hw' as [T2 M2].
      apply Nat.eqb_eq in T1, T2. rewrite <- T1, <- T2, Nat.eqb_refl. simpl.
      apply (sels_overlap_sound (snd c)); assumption. }
    pose proof (Hok w1 Hin1) as H1. rewrite (Htouch w1 Hh1) in H1.
    apply andb_prop in H1 as [Hcov Hagree].
    (* the reader's own write that covers c *)
    apply existsb_exists in Hcov as [w' [Hinreq Hw']].
    apply andb_prop in Hw' as [Hw' Hsub]. apply andb_prop in Hw' as [Hva Htab].
    destruct (val_agree_const _ _ Hva) as [V [HV' HV1]].
    assert (Hh' : hits w' c = true).
    { unfold hits. unfold hits in Hh1. apply andb_prop in Hh1 as [T1 M1].
      apply Nat.eqb_eq in T1, Htab. rewrite Htab, T1, Nat.eqb_refl. simpl.
      unfold hits_place in Hhr. apply andb_prop in Hhr as [_ M2].
      apply (sels_inter_sub_sound _ _ _ _ Hsub M1 M2). }
    (* all writers of c store V *)
    assert (HallV : forall w, In w (all_writes tbl dims) -> hits w c = true -> c_val w = VConst V).
    { intros w Hin Hw. rewrite forallb_forall in Hagree. specialize (Hagree w Hin).
      rewrite (Htouch w Hw), (Hwov w1 w Hh1 Hw) in Hagree. simpl in Hagree.
      destruct (val_agree_const _ _ Hagree) as [V2 [E1 E2]]. congruence. }
    rewrite (run_settled orc c V _ s0 Hv1 HallV), (run_settled orc c V _ s0 Hv2 HallV).
    (* w' is performed by Ctor p or by Call p D, both of which occur in both histories *)
    assert (Hev : ev_hits c (Ctor p) = true \/ ev_hits c (Call p D) = true).
    { apply in_app_or in Hinreq as [Hi|Hi]; [left|right];
        unfold ev_hits; apply existsb_exists; exists w'; split; assumption. }
    assert (E1 : existsb (ev_hits c) (h ++ [Call p D]) = true).
    { destruct Hev as [He|He].
      - apply (existsb_ev_hits_in c _ (Ctor p)); [apply in_or_app; left; assumption|assumption].
      - apply (existsb_ev_hits_in c _ (Call p D)); [apply in_or_app; right; left; reflexivity|assumption]. }
    assert (E2 : existsb (ev_hits c) [Ctor p; Call p D] = true).
    { destruct Hev as [He|He].
      - apply (existsb_ev_hits_in c _ (Ctor p)); [left; reflexivity|assumption].
      - apply (existsb_ev_hits_in c _ (Call p D)); [right; left; reflexivity|assumption]. }
    rewrite E1, E2. reflexivity.
  Qed.

  (* lifted to the whole table by forallb_forall *)
  Theorem table_history_independent orc s0 h p D c :
    table_ok tbl dims = true ->
    Forall (valid_event tbl dims) h -> (p < List.length tbl)%nat -> In D dims -> In (Ctor p) h ->
    in_reads tbl p D c = true ->
    run orc tbl (h ++ [Call p D]) s0 c = run orc tbl [Ctor p; Call p D] s0 c.
  Proof.
    intros Hok. unfold table_ok in Hok. rewrite forallb_forall in Hok.
    intros Hv Hp HD Hc Hr.
    assert (Hin : In p (seq 0 (List.length tbl))) by (apply in_seq; lia).
    specialize (Hok p Hin). rewrite forallb_forall in Hok.
    apply reader_history_independent; auto.
  Qed.

  (* the value of a call: ANY function of (problem, D, x, store) that looks at the store only
     through the read footprint returns the same value after every history *)
  Section Value.
    Variables X R : Type.
    Variable value : nat -> Z -> X -> store -> R.
    Hypothesis value_reads_footprint : forall p D x s s',
      (forall c, in_reads tbl p D c = true -> s c = s' c) -> value p D x s = value p D x s'.

    Theorem call_value_history_independent orc s0 h p D x :
      table_ok tbl dims = true ->
      Forall (valid_event tbl dims) h -> (p < List.length tbl)%nat -> In D dims -> In (Ctor p) h ->
      value p D x (run orc tbl (h ++ [Call p D]) s0) = value p D x (run orc tbl [Ctor p; Call p D] s0).
    Proof.
      intros. apply value_reads_footprint. intros c Hc.
      apply table_history_independent; assumption.
    Qed.
  End Value.

  (* argument *)
  Theorem table_argument_untouched orc p D x :
    args_untouched tbl = true -> (p < List.length tbl)%nat -> forall c, arg_after orc tbl p D x c = x c.
  Proof.
    intros H Hp c. unfold args_untouched in H. rewrite forallb_forall in H.
    specialize (H (nth p tbl dummy_entry) (nth_In _ _ Hp)).
    unfold arg_after. destruct (e_arg (nth p tbl dummy_entry)); [reflexivity|discriminate].
  Qed.

  Theorem table_noise_documented names e :
    noise_documented tbl names = true -> In e tbl ->
    (e_noisy e = true <-> In (e_name e) names).
  Proof.
    intros H Hin. unfold noise_documented in H. rewrite forallb_forall in H.
    specialize (H e Hin). apply eqb_prop in H. rewrite H. split.
    - intro E. apply existsb_exists in E as [n [Hn Heq]]. apply String.eqb_eq in Heq. subst. assumption.
    - intro Hn. apply existsb_exists. exists (e_name e). split; [assumption|apply String.eqb_refl].
  Qed.
End History.

(* a table that performs an opaque or a non-constant... sanity of the condition itself:
   if the reader's place is touched by an opaque write the condition is false *)
Lemma val_agree_opaque_l w1 w2 : c_val w1 = VOpaque -> val_agree w1 w2 = false.
Proof. unfold val_agree. intros ->. reflexivity. Qed.
