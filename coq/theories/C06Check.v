(* C06Check.v — case checkers for the binary-GA operators and the wiring through the pools. *)
From TF Require Import Base RandomPrims BinaryOps Pools C11Check.
From Coq Require Import String.
Open Scope string_scope.
Open Scope Q_scope.

Definition chk_row (r : option (row * list draw)) (out : row) : bool := chk_done Zlist_eqb r out.

(* op code: 0 empty 1 one_point 2 two_point 3 uniform 4 uniform_prop 5 uniform_rank 6 uniform_tour *)
Definition crossover_by_code (code : nat) (ps : list row) (f r : list Q) : M row :=
  match code with
  | 0 => empty_crossover ps
  | 1 => one_point_crossover ps
  | 2 => two_point_crossover ps
  | 3 => uniform_crossover ps f r
  | 4 => uniform_proportional_crossover ps f r
  | 5 => uniform_rank_crossover ps f r
  | _ => uniform_tournament_crossover ps f r
  end%nat.
Definition chk_crossover (c : nat * list row * list Q * list Q * list draw * row) : bool :=
  let '(code, ps, f, r, ds, out) := c in chk_row (crossover_by_code code ps f r ds) out.
Definition chk_binomial (c : row * row * Q * list draw * row) : bool :=
  let '(x, m, cr, ds, out) := c in chk_row (binomialGA x m cr ds) out.
Definition chk_flip_mut (c : row * Q * list draw * row) : bool :=
  let '(x, p, ds, out) := c in chk_row (flip_mutation x p ds) out.

(* wiring through the (generated) pools *)
Record attrs := { a_tour : Z; a_parents : Z; a_rate : Q }.
Definition param_nat (a : attrs) (p : param) : option nat :=
  match p with
  | PInt z => Some (Z.to_nat z)
  | PAttr s => if String.eqb s "_tour_size" then Some (Z.to_nat (a_tour a))
               else if String.eqb s "_parents_num" then Some (Z.to_nat (a_parents a)) else None
  | PQ _ => None
  end.
Definition param_q (a : attrs) (p : param) : option Q :=
  match p with
  | PInt z => Some (inject_Z z)
  | PQ q => Some q
  | PAttr s => if String.eqb s "_mutation_rate" then Some (a_rate a) else None
  end.
Definition selection_by_fun (f : string) : option (list Q -> list Q -> nat -> nat -> M (list Z)) :=
  if String.eqb f "proportional_selection" then Some proportional_selection
  else if String.eqb f "rank_selection" then Some rank_selection
  else if String.eqb f "tournament_selection" then Some (fun fi rk t q => tournament_selection fi t q)
  else None.
Definition crossover_by_fun (f : string) : option (list row -> list Q -> list Q -> M row) :=
  if String.eqb f "empty_crossover" then Some (fun ps _ _ => empty_crossover ps)
  else if String.eqb f "one_point_crossover" then Some (fun ps _ _ => one_point_crossover ps)
  else if String.eqb f "two_point_crossover" then Some (fun ps _ _ => two_point_crossover ps)
  else if String.eqb f "uniform_crossover" then Some uniform_crossover
  else if String.eqb f "uniform_proportional_crossover" then Some uniform_proportional_crossover
  else if String.eqb f "uniform_rank_crossover" then Some uniform_rank_crossover
  else if String.eqb f "uniform_tournament_crossover" then Some uniform_tournament_crossover
  else None.

(* PDPGA._get_new_individ_g draws one extra index (the parent whose fitness is remembered) between
   selection and crossover *)
Definition new_individ_pdp
  (selection : list Q -> list Q -> nat -> nat -> M (list Z)) (tour quantity : nat)
  (crossover : list row -> list Q -> list Q -> M row)
  (proba : Q) (is_constant : bool)
  (pop : list row) (fscale frank : list Q) : M row :=
  sel <- selection fscale frank tour quantity ;;
  _ <- popI (Z.of_nat (List.length sel)) ;;
  c <- crossover (gather [] pop sel) (gather 0 fscale sel) (gather 0 frank sel) ;;
  flip_mutation c (mutation_rate proba is_constant (List.length c)).

Definition ga_new_individ (pdp : bool) (sp cp mp : list entry) (a : attrs) (sn cn mn : string)
  (pop : list row) (fscale frank : list Q) : M row :=
  fun ds =>
  match lookup sn sp, lookup cn cp, lookup mn mp with
  | Some se, Some ce, Some me =>
    match selection_by_fun (e_fun se), param_nat a (e_param se),
          crossover_by_fun (e_fun ce), param_nat a (e_param ce), param_q a (e_param me) with
    | Some sel, Some tour, Some cx, Some quantity, Some proba =>
      if String.eqb (e_fun me) "flip_mutation" then
        (if pdp then new_individ_pdp else new_individ) sel tour quantity cx proba (e_const me) pop fscale frank ds
      else None
    | _, _, _, _, _ => None
    end
  | _, _, _ => None
  end.

(* SHAGA._get_new_individ_g: second parent by tournament(2) over raw fitness, binomialGA, flip with MR *)
Definition shaga_new_individ (pop : list row) (fitness : list Q) (individ : row) (MR CR : Q) : M row :=
  sel <- tournament_selection fitness 2 1 ;;
  c <- binomialGA individ (nth (Z.to_nat (nth 0 sel 0%Z)) pop []) CR ;;
  flip_mutation c MR.
Definition chk_shaga (c : list row * list Q * row * Q * Q * list draw * row) : bool :=
  let '(pop, f, x, mr, cr, ds, out) := c in chk_row (shaga_new_individ pop f x mr cr ds) out.
