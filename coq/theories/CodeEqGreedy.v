(* CodeEqGreedy.v — the greedy family (DifferentialEvolution's overrides of _get_init_population, _get_new_population and
   _from_population_g_to_fitness, generated into coq/gen/GenLoop.v): `EALoop.step Greedy` / `EALoop.fit Greedy` simulate
   the generated run — trial evaluation, the `>=` replacement mask, record, elitism — on every field the code keeps. *)
From TF Require Import Py PyLemmas EALoop EALoopProofs EALoopProofs2 CodeEqLoop CodeEqStep.
From TFG Require Import GenLoop.
Open Scope Z_scope.

Section Greedy.
Variables G P : Type.
Variables (dG : G) (dP : P).
Variable g2p : G -> P.
Variable f : P -> Q.
Variable par_value : EvolutionaryAlgorithm G P -> list P -> list Q.
Let indiv := indiv G P.
Let EA := EvolutionaryAlgorithm G P.
Notation sim := (sim G P dG dP).
Notation nf_of := (nf_of G P f).

Ltac proj := cbn [set_ea_iters set_ea_pop_size set_ea_sign set_ea_aim set_ea_calls set_ea_no_increase_num set_ea_thefittest
                  set_ea_elitism set_ea_keep_history set_ea_n_jobs set_ea_population_g_i set_ea_population_ph_i set_ea_fitness_i
                  set_ea_stats set_ea_on_generation
                  ea_iters ea_pop_size ea_sign ea_aim ea_calls ea_no_increase_num ea_thefittest ea_elitism ea_keep_history ea_n_jobs
                  ea_population_g_i ea_population_ph_i ea_fitness_i ea_stats ea_on_generation fst snd] in *.

(* DE's generation step with the dispatch resolved: _update_data is the base class's, _adapt touches no field of the record *)
Definition de_from := py_DifferentialEvolution__from_population_g_to_fitness G P (upd_data G P dG dP) (fun s => s).
Definition de_init (gs0 : list G) :=
  py_DifferentialEvolution__get_init_population G P (ff P f) par_value (getph G P g2p) (fun s => set_pop_g G P s gs0).
Variable trials : EA -> list G.          (* the trial vectors (variation operators: C07) *)
Definition de_new := py_DifferentialEvolution__get_new_population G P (ff P f) par_value (getph G P g2p) trials.

(* the object with population p in its three arrays and c more calls counted *)
Definition with_pop (self : EA) (p : list indiv) (c : Z) : EA :=
  set_ea_fitness_i G P (map ifit p) (set_ea_calls G P (ea_calls G P self + c)
    (set_ea_population_ph_i G P (map iph p) (set_ea_population_g_i G P (map ig p) self))).

(* ... and what the model's step makes of population p after evaluating a batch *)
Definition model_finish (elitism keep_history : bool) (st : state G P) (p batch : list indiv) : state G P :=
  let '(b1, c1) := update_best G P (best st) (counter st) p in
  let pop2 := if elitism then match b1 with Some b => EALoop.set_last G P p b | None => p end else p in
  {| pop := pop2; best := b1; counter := c1; gens := S (gens st);
     calls := (calls st + length batch)%nat; evaluated := evaluated st ++ batch;
     hist := if keep_history then hist st ++ [{| s_pop := p; s_max := best_of G P p |}] else hist st;
     callbacks := callbacks st |}.

Lemma step_finish k nf el kh first st gs :
  step G P g2p nf k el kh first st gs
  = model_finish el kh st (match k with Generational => map (eval G P g2p nf) gs
                           | Greedy => if first then map (eval G P g2p nf) gs else greedy G P (map (eval G P g2p nf) gs) (pop st) end)
                 (map (eval G P g2p nf) gs).
Proof. reflexivity. Qed.

(* record + history + elitism on a population, code against model *)
Lemma finish_sim (self : EA) (st : state G P) (p batch : list indiv) :
  sim self st -> p <> [] ->
  sim (de_from (with_pop self p (Z.of_nat (length batch))))
      (model_finish (ea_elitism G P self) (ea_keep_history G P self) st p batch).
Proof.
  intros S Hp.
  unfold de_from, py_DifferentialEvolution__from_population_g_to_fitness, upd_data, py_EvolutionaryAlgorithm__update_data,
    py_EvolutionaryAlgorithm__update_fittest, py_EvolutionaryAlgorithm__update_stats, with_pop. cbv zeta. proj.
  pose proof (code_update_best G P dG dP (ea_thefittest G P self) p Hp (sim_fin _ _ _ _ _ _ S)) as Hub.
  rewrite (sim_cnt _ _ _ _ _ _ S) in Hub. specialize (Hub ltac:(lia)). cbv zeta in Hub.
  rewrite (sim_best _ _ _ _ _ _ S), Nat2Z.id in Hub.
  set (tf' := py_TheFittest__update G P dG dP (ea_thefittest G P self) (map ig p) (map iph p) (map ifit p)) in *.
  assert (Hentry : {| se_fitness := map ifit p; se_population_g := map ig p; se_population_ph := map iph p;
                      se_max_fitness := getQ (map ifit p) (argmaxZ (map ifit p));
                      se_max_g := getA dG (map ig p) (argmaxZ (map ifit p));
                      se_max_ph := getA dP (map iph p) (argmaxZ (map ifit p)) |}
                   = entry_of G P dG dP {| s_pop := p; s_max := best_of G P p |}).
  { unfold entry_of. cbn [s_pop s_max]. rewrite (best_of_argmax G P dG dP p Hp).
    unfold argmaxZ. set (k := argmax (map ifit p)).
    set (d0 := {| ig := dG; iph := dP; ifit := 0%Q |}).
    f_equal.
    - rewrite getQ_nat. change 0%Q with (ifit d0). apply map_nth.
    - unfold getA. rewrite pyidx_nat. change dG with (ig d0). apply map_nth.
    - unfold getA. rewrite pyidx_nat. change dP with (iph d0). apply map_nth. }
  rewrite Hentry. clear Hentry.
  assert (Hfin' : tf_fitness G P tf' <> PosInf).
  { unfold tf', py_TheFittest__update, py_TheFittest__replace, set_tf_genotype, set_tf_phenotype, set_tf_fitness, set_tf_no_update_counter. cbv zeta.
    destruct (Qinf_ltb _ _); cbn [tf_fitness]; [discriminate|exact (sim_fin _ _ _ _ _ _ S)]. }
  assert (Hsome : exists b, abs_best G P tf' = Some b /\ tf_fitness G P tf' = Fin (ifit b) /\ tf_genotype G P tf' = ig b /\ tf_phenotype G P tf' = iph b).
  { unfold abs_best. destruct (tf_fitness G P tf') as [|q|] eqn:E; [|eexists; repeat split; reflexivity|congruence].
    exfalso. unfold tf', py_TheFittest__update, py_TheFittest__replace, set_tf_genotype, set_tf_phenotype, set_tf_fitness, set_tf_no_update_counter in E. cbv zeta in E.
    destruct (tf_fitness G P (ea_thefittest G P self)) as [|q0|] eqn:E0.
    - unfold Qinf_ltb, Qinf_leb in E. cbn [negb tf_fitness] in E. discriminate.
    - destruct (Qinf_ltb (Fin q0) _); cbn [tf_fitness] in E; congruence.
    - exact (sim_fin _ _ _ _ _ _ S E0). }
  destruct Hsome as (b & Hb & Hbf' & Hbg' & Hbp').
  assert (Hcnt' : 0 <= tf_no_update_counter G P tf').
  { unfold tf', py_TheFittest__update, py_TheFittest__replace, set_tf_genotype, set_tf_phenotype, set_tf_fitness, set_tf_no_update_counter. cbv zeta.
    destruct (Qinf_ltb _ _); cbn [tf_no_update_counter]; [lia|]. rewrite (sim_cnt _ _ _ _ _ _ S). lia. }
  unfold model_finish. rewrite Hub.
  destruct (ea_elitism G P self) eqn:Eel; destruct (ea_keep_history G P self) eqn:Ekh; proj;
    unfold py_TheFittest_get; proj; rewrite ?Eel, ?Hb, ?Hbf', ?Hbg', ?Hbp'; cbn [Qinf_val];
    (constructor; proj; cbn [pop best counter calls hist callbacks];
      try (unfold EALoop.set_last; rewrite py_set_last_map; reflexivity);
      try reflexivity; try assumption;
      try (symmetry; apply Z2Nat.id; exact Hcnt');
      try (rewrite (sim_hist _ _ _ _ _ _ S), map_app; reflexivity);
      try (exact (sim_hist _ _ _ _ _ _ S));
      try (exact (sim_cb _ _ _ _ _ _ S));
      try (rewrite (sim_calls _ _ _ _ _ _ S), Nat2Z.inj_add; reflexivity)).
Qed.

(* ---------- the replacement mask ---------- *)
Lemma mask_write_greedy {B} (h : indiv -> B) : forall (batch p : list indiv),
  mask_write (geq_mask (map ifit batch) (map ifit p)) (map h batch) (map h p) = map h (greedy G P batch p).
Proof.
  induction batch as [|t ts IH]; intros [|q qs]; cbn [map greedy geq_mask combine mask_write]; try reflexivity.
  cbn [fst snd]. destruct (Qle_bool (ifit q) (ifit t)); cbn [map]; f_equal; apply IH.
Qed.

Lemma greedy_nonempty batch p : p <> [] -> greedy G P batch p <> [].
Proof. destruct batch, p; cbn; congruence. Qed.

(* ---------- the two evaluation sites of the greedy family ---------- *)
Lemma de_init_eq (self : EA) (gs0 : list G) : ea_n_jobs G P self <= 1 ->
  de_init gs0 self = with_pop self (map (eval G P g2p (nf_of self)) gs0) (Z.of_nat (length (map (eval G P g2p (nf_of self)) gs0))).
Proof.
  intro Hnj. unfold de_init, py_DifferentialEvolution__get_init_population, py_EvolutionaryAlgorithm__get_fitness, set_pop_g, getph, ff,
    with_pop. cbv zeta. proj.
  replace (ea_n_jobs G P self >? 1) with false by (symmetry; rewrite Z.gtb_ltb; apply Z.ltb_ge; lia).
  unfold smul. rewrite !map_map. cbn [ig iph ifit eval]. rewrite map_id. unfold CodeEqStep.nf_of, zlen. rewrite !map_length.
  reflexivity.
Qed.

Lemma de_new_eq (self : EA) (st : state G P) : sim self st -> ea_n_jobs G P self <= 1 ->
  de_new self = with_pop self (greedy G P (map (eval G P g2p (nf_of self)) (trials self)) (pop st))
                         (Z.of_nat (length (map (eval G P g2p (nf_of self)) (trials self)))).
Proof.
  intros S Hnj. unfold de_new, py_DifferentialEvolution__get_new_population, py_EvolutionaryAlgorithm__get_fitness, getph, ff, with_pop.
  cbv zeta. proj.
  replace (ea_n_jobs G P self >? 1) with false by (symmetry; rewrite Z.gtb_ltb; apply Z.ltb_ge; lia).
  set (batch := map (eval G P g2p (nf_of self)) (trials self)).
  assert (Hbg : trials self = map ig batch) by (unfold batch; rewrite map_map; cbn; symmetry; apply map_id).
  assert (Hbp : map g2p (trials self) = map iph batch) by (unfold batch; rewrite map_map; reflexivity).
  assert (Hbf : smul (ZtoQ (ea_sign G P self)) (map f (map g2p (trials self))) = map ifit batch).
  { unfold batch, smul. rewrite !map_map. reflexivity. }
  rewrite Hbf, Hbp. rewrite Hbg at 1.
  rewrite (sim_g _ _ _ _ _ _ S), (sim_ph _ _ _ _ _ _ S), (sim_fit _ _ _ _ _ _ S).
  rewrite !mask_write_greedy. unfold zlen. rewrite !map_length. unfold batch. rewrite map_length. reflexivity.
Qed.

(* ---------- one generation of the greedy family ---------- *)
Theorem code_step_greedy_first (self : EA) (st : state G P) (gs0 : list G) :
  sim self st -> gs0 <> [] -> ea_n_jobs G P self <= 1 ->
  sim (de_from (de_init gs0 self))
      (step G P g2p (nf_of self) Greedy (ea_elitism G P self) (ea_keep_history G P self) true st gs0).
Proof.
  intros S Hgs Hnj. rewrite (de_init_eq self gs0 Hnj), step_finish.
  apply finish_sim; [exact S|]. destruct gs0; [congruence|discriminate].
Qed.

Theorem code_step_greedy (self : EA) (st : state G P) :
  sim self st -> pop st <> [] -> ea_n_jobs G P self <= 1 ->
  sim (de_from (de_new self))
      (step G P g2p (nf_of self) Greedy (ea_elitism G P self) (ea_keep_history G P self) false st (trials self)).
Proof.
  intros S Hp Hnj. rewrite (de_new_eq self st S Hnj), step_finish.
  apply finish_sim; [exact S|]. now apply greedy_nonempty.
Qed.

(* ---------- the whole run of the greedy family ---------- *)
Notation consts := (consts G P).

Lemma finish_consts (self : EA) p c : consts (de_from (with_pop self p c)) self.
Proof.
  unfold de_from, py_DifferentialEvolution__from_population_g_to_fitness, upd_data, py_EvolutionaryAlgorithm__update_data,
    py_EvolutionaryAlgorithm__update_fittest, py_EvolutionaryAlgorithm__update_stats, with_pop, CodeEqStep.consts, py_TheFittest_get.
  cbv zeta. proj.
  destruct (ea_elitism G P self) eqn:Eel; destruct (ea_keep_history G P self) eqn:Ekh; proj; rewrite ?Eel, ?Ekh; proj;
    repeat split; proj; rewrite ?Eel, ?Ekh; congruence.
Qed.

Lemma finish_pop_nonempty el kh st p batch : p <> [] -> pop (model_finish el kh st p batch) <> [].
Proof.
  intro Hp. unfold model_finish. destruct (update_best G P (best st) (counter st) p) as [b1 c1]. cbn [pop].
  destruct el; [|exact Hp]. destruct b1 as [b|]; [|exact Hp].
  unfold EALoop.set_last. destruct p; [congruence|]. intro E. apply app_eq_nil in E. destruct E; discriminate.
Qed.

Variable var : state G P -> list G.

Definition gen_body_greedy (i : Z) (self : EA) : EA * bool :=
  if py_EvolutionaryAlgorithm__termitation_check G P self then (self, true)
  else
    let self := de_new self in
    let self := de_from self in
    if fst (ea_on_generation G P self)
    then (set_ea_on_generation G P (fst (ea_on_generation G P self), snd (ea_on_generation G P self) + 1) self, false)
    else (self, false).

Lemma code_loop_greedy (self0 : EA) :
  ea_n_jobs G P self0 <= 1 -> ea_aim G P self0 <> NegInf -> fst (ea_on_generation G P self0) = true ->
  (forall n, ea_no_increase_num G P self0 = Some n -> 0 <= n) ->
  (forall s st, sim s st -> trials s = var st) ->
  forall (k : nat) (lo : Z) (self : EA) (st : state G P), sim self st -> consts self self0 -> pop st <> [] ->
  sim (for_brk_nat_p k lo gen_body_greedy self)
      (loop G P g2p (nf_of self0) Greedy (ea_elitism G P self0) (ea_keep_history G P self0)
            (abs_aim (ea_aim G P self0)) (abs_nin (ea_no_increase_num G P self0)) var k st).
Proof.
  intros Hnj Haim Hcb Hnin Hvar. induction k as [|k IH]; intros lo self st S C Hpop; [exact S|].
  destruct C as (Csg & Cam & Cnin & Cel & Ckh & Cnj & Ccb & Cit).
  cbn [for_brk_nat_p loop]. unfold gen_body_greedy at 1.
  assert (Hterm : py_EvolutionaryAlgorithm__termitation_check G P self
                = terminate G P (abs_aim (ea_aim G P self0)) (abs_nin (ea_no_increase_num G P self0)) st).
  { rewrite <- Cam, <- Cnin. apply code_terminate.
    - now rewrite Cam.
    - exact (sim_fin _ _ _ _ _ _ S).
    - symmetry. exact (sim_best _ _ _ _ _ _ S).
    - symmetry. exact (sim_cnt _ _ _ _ _ _ S).
    - intros n Hn. apply Hnin. now rewrite <- Cnin. }
  rewrite Hterm. destruct (terminate _ _ _ _ st); [exact S|].
  cbv zeta.
  assert (Hnj' : ea_n_jobs G P self <= 1) by (rewrite Cnj; exact Hnj).
  pose proof (code_step_greedy self st S Hpop Hnj') as Hst.
  pose proof (de_new_eq self st S Hnj') as Hnew.
  pose proof (finish_consts self (greedy G P (map (eval G P g2p (nf_of self)) (trials self)) (pop st))
                (Z.of_nat (length (map (eval G P g2p (nf_of self)) (trials self))))) as Dc.
  rewrite <- Hnew in Dc. destruct Dc as (Dsg & Dam & Dnin & Del & Dkh & Dnj & Dcb & Dit).
  rewrite (Hvar self st S) in Hst.
  set (self' := de_from (de_new self)) in *.
  rewrite Dcb, Ccb, Hcb.
  unfold CodeEqStep.nf_of in Hst. rewrite Csg, Cel, Ckh in Hst. fold (nf_of self0) in Hst.
  apply IH.
  - destruct Hst as [A1 A2 A3 A4 A5 A6 A7 A8 A9]. constructor; proj; cbn [pop best counter calls hist callbacks callback]; auto.
    rewrite A9. lia.
  - unfold CodeEqStep.consts. proj. repeat split; try congruence.
  - cbn [callback pop]. rewrite step_finish. apply finish_pop_nonempty. now apply greedy_nonempty.
Qed.

(* EvolutionaryAlgorithm.fit with the dispatch resolved to DifferentialEvolution's overrides *)
Theorem code_fit_greedy (self0 : EA) (gs0 : list G) :
  CodeEqStep.sim G P dG dP self0 (init_state G P) -> gs0 <> [] ->
  ea_n_jobs G P self0 <= 1 -> ea_aim G P self0 <> NegInf -> fst (ea_on_generation G P self0) = true ->
  (forall n, ea_no_increase_num G P self0 = Some n -> 0 <= n) ->
  (forall s st, sim s st -> trials s = var st) ->
  sim (py_EvolutionaryAlgorithm_fit G P (de_init gs0) de_new de_from self0)
      (fit G P g2p (nf_of self0) Greedy (ea_elitism G P self0) (ea_keep_history G P self0)
           (abs_aim (ea_aim G P self0)) (abs_nin (ea_no_increase_num G P self0)) var (Z.to_nat (ea_iters G P self0)) gs0).
Proof.
  intros S0 Hgs Hnj Haim Hcb Hnin Hvar.
  unfold py_EvolutionaryAlgorithm_fit, fit. cbv zeta.
  pose proof (code_step_greedy_first self0 (init_state G P) gs0 S0 Hgs Hnj) as S1.
  pose proof (de_init_eq self0 gs0 Hnj) as Hi.
  pose proof (finish_consts self0 (map (eval G P g2p (nf_of self0)) gs0) (Z.of_nat (length (map (eval G P g2p (nf_of self0)) gs0)))) as C1.
  rewrite <- Hi in C1.
  set (self1 := de_from (de_init gs0 self0)) in *.
  unfold for_brk_p. rewrite Z.sub_0_r.
  destruct C1 as (Csg & Cam & Cnin & Cel & Ckh & Cnj & Ccb & Cit).
  replace (Z.to_nat (ea_iters G P self1 - 1)) with (Z.to_nat (ea_iters G P self0) - 1)%nat by (rewrite Cit; lia).
  apply (code_loop_greedy self0 Hnj Haim Hcb Hnin Hvar); [exact S1| |].
  - unfold CodeEqStep.consts. repeat split; assumption.
  - rewrite step_finish. apply finish_pop_nonempty. destruct gs0; [congruence|discriminate].
Qed.

(* C02 on the generated greedy run: a slot changes only to its own trial, and only when the trial is at least as fit *)
Corollary src_greedy_slots (self : EA) (st : state G P) : sim self st -> ea_n_jobs G P self <= 1 ->
  let batch := map (eval G P g2p (nf_of self)) (trials self) in
  let self' := de_new self in
  ea_fitness_i G P self' = map ifit (greedy G P batch (pop st)) /\
  ea_population_g_i G P self' = map ig (greedy G P batch (pop st)) /\
  ea_calls G P self' = ea_calls G P self + Z.of_nat (length batch).
Proof.
  intros S Hnj. cbv zeta. rewrite (de_new_eq self st S Hnj). unfold with_pop. proj. repeat split; reflexivity.
Qed.
End Greedy.
