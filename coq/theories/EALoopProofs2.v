(* EALoopProofs2.v — budget / stopping rules (C03), greedy slots (C02), history (C17), duality (C05). *)
From TF Require Import Base EALoop EALoopProofs.
Open Scope Q_scope.

Section Proofs2.
Variables G P : Type.
Variable g2p : G -> P.
Variable nf : P -> Q.
Notation indiv := (indiv G P).
Notation state := (state G P).
Variable k : kind.
Variable elitism keep_history : bool.
Variable aim : option Q.
Variable no_increase_num : option nat.
Variable var : state -> list G.
Variable n : nat.
Hypothesis n_pos : (0 < n)%nat.
Hypothesis var_len : forall st, length (var st) = n.

Notation step := (step G P g2p nf k elitism keep_history).
Notation terminate := (terminate G P aim no_increase_num).
Notation loop := (loop G P g2p nf k elitism keep_history aim no_increase_num var).
Notation fit := (fit G P g2p nf k elitism keep_history aim no_increase_num var).
Notation trajectory := (trajectory G P g2p nf k elitism keep_history aim no_increase_num var).
Notation Inv := (Inv G P g2p nf elitism keep_history n).

(* ------------------------------------------------------------------ C03: the stopping rule *)
(* trajectory = the states after each generation; the loop returns its last element; every state
   before the last did NOT satisfy the termination test; the last one does, or the budget is used up *)
Theorem trajectory_spec : forall m st,
  let tr := trajectory m st in
  loop m st = last tr st /\
  (length tr <= S m)%nat /\ (0 < length tr)%nat /\
  (forall i, (S i < length tr)%nat -> terminate (nth i tr st) = false) /\
  (terminate (last tr st) = true \/ length tr = S m) /\
  gens (last tr st) = (gens st + (length tr - 1))%nat /\
  callbacks (last tr st) = (callbacks st + (length tr - 1))%nat.
Proof.
  induction m as [|m IH]; intros st; cbn [EALoop.trajectory EALoop.loop]; cbv zeta.
  - cbn. repeat split; try lia; try (intros i Hi; lia).
  - destruct (terminate st) eqn:Et.
    + cbn. repeat split; try lia; auto; try (intros i Hi; lia).
    + set (st1 := callback G P (step false st (var st))).
      destruct (IH st1) as (H1 & H2 & H3 & H4 & H5 & H6 & H7). cbv zeta in *.
      set (tr := trajectory m st1) in *.
      assert (Hlast : forall d, last (st :: tr) d = last tr st1).
      { intros d. destruct tr as [|x t] eqn:E; [simpl in H3; lia|].
        change (last (st :: x :: t) d) with (last (x :: t) d).
        clear. revert x. induction t as [|y t IHt]; intros x; [reflexivity|].
        change (last (x :: y :: t) d) with (last (y :: t) d). change (last (x :: y :: t) st1) with (last (y :: t) st1).
        apply IHt. }
      rewrite Hlast. cbn [length]. split; [auto|]. split; [lia|]. split; [lia|]. split.
      * intros [|i] Hi; [cbn; auto|]. cbn [nth].
        rewrite (nth_indep tr st st1) by lia. apply H4. lia.
      * split; [destruct H5 as [H5|H5]; [left; auto|right; lia]|].
        assert (Hg : gens st1 = S (gens st)).
        { unfold st1, EALoop.step. destruct (update_best _ _ _ _ _). reflexivity. }
        assert (Hc : callbacks st1 = S (callbacks st)).
        { unfold st1, EALoop.step. destruct (update_best _ _ _ _ _). reflexivity. }
        split; lia.
Qed.

(* budget: at most iters generations, exactly pop_size evaluations each, one callback per generation
   after the first *)
Theorem budget iters gs0 : (1 <= iters)%nat -> length gs0 = n ->
  let st := fit iters gs0 in
  (1 <= gens st <= iters)%nat /\ calls st = (n * gens st)%nat /\
  callbacks st = (gens st - 1)%nat /\
  (n * iters - calls st = n * (iters - gens st))%nat.
Proof.
  intros Hit Hgs. cbv zeta. unfold EALoop.fit.
  set (st0 := step true (init_state G P) gs0).
  assert (Hg0 : gens st0 = 1%nat /\ callbacks st0 = 0%nat).
  { unfold st0, EALoop.step. destruct (update_best _ _ _ _ _). cbn. auto. }
  destruct (trajectory_spec (iters - 1) st0) as (H1 & H2 & H3 & _ & _ & H6 & H7). cbv zeta in *.
  rewrite H1.
  pose proof (fit_inv G P g2p nf k elitism keep_history aim no_increase_num var n n_pos var_len iters gs0 Hgs) as Hinv.
  unfold EALoop.fit in Hinv. fold st0 in Hinv. rewrite H1 in Hinv.
  destruct Hinv as (_ & _ & _ & _ & Hc & _).
  destruct Hg0 as (Hg0 & Hc0).
  split; [lia|]. split; [auto|]. split; [lia|]. rewrite Hc. nia.
Qed.

(* "stops immediately after the first generation that meets a criterion, and never earlier" *)
Theorem stop_exact iters gs0 : (1 <= iters)%nat ->
  let st0 := step true (init_state G P) gs0 in
  let tr := trajectory (iters - 1) st0 in
  fit iters gs0 = last tr st0 /\
  (forall i, (S i < length tr)%nat -> terminate (nth i tr st0) = false) /\
  (terminate (last tr st0) = true \/ length tr = iters).
Proof.
  intros Hit. cbv zeta. unfold EALoop.fit.
  destruct (trajectory_spec (iters - 1) (step true (init_state G P) gs0)) as (H1 & H2 & H3 & H4 & H5 & _).
  cbv zeta in *. split; [auto|]. split; [auto|]. destruct H5 as [H5|H5]; [left; auto|right; lia].
Qed.

(* ------------------------------------------------------------------ C02: greedy slots *)
Theorem slot_monotone st gs i d : k = Greedy -> Inv st -> length gs = n -> (i < n)%nat ->
  ifit (nth i (pop st) d) <= ifit (nth i (pop (step false st gs)) d).
Proof.
  intros Hk Hi Hgs Hlt.
  pose proof (step_inv G P g2p nf k elitism keep_history var n n_pos var_len false st gs Hgs (or_intror (conj eq_refl Hi))) as Hi'.
  destruct Hi as (Hlen & Hpin & _). destruct Hi' as (Hlen' & _ & (b' & Hb' & _ & Hmax) & _ & _ & _ & _ & Hel).
  unfold EALoop.step in *. rewrite Hk in *.
  set (pop1 := greedy G P (map (eval G P g2p nf) gs) (pop st)) in *.
  destruct (update_best G P (best st) (counter st) pop1) as [b1 c1] eqn:Eu.
  cbn [pop best evaluated] in *.
  destruct (greedy_slot G P (map (eval G P g2p nf) gs) (pop st) i d ltac:(lia)) as (Hs & _). fold pop1 in Hs.
  destruct elitism eqn:Ee; [|exact Hs].
  inversion Hb'; subst b1.
  (* elitism overwrote the last slot with the best, which dominates everything evaluated *)
  assert (Hp1len : length pop1 = n) by (unfold pop1; rewrite greedy_length; auto).
  unfold set_last. destruct pop1 as [|x t] eqn:Ep; [simpl in Hp1len; lia|].
  rewrite <- Ep in *.
  destruct (Nat.eq_dec i (n - 1)) as [Hlast|Hnl].
  - rewrite app_nth2; [|rewrite removelast_length' || idtac].
    all: assert (Hrl : length (removelast pop1) = (n - 1)%nat).
    all: try (rewrite <- Hp1len; clear; induction pop1 as [|y l IH]; [reflexivity|];
              destruct l as [|z l]; [reflexivity|]; cbn [removelast length] in *; rewrite IH; simpl; lia).
    + rewrite Hrl. replace (i - (n - 1))%nat with 0%nat by lia. cbn [nth].
      rewrite Forall_forall in Hmax. apply Hmax. apply in_or_app. left. apply Hpin. apply nth_In. lia.
    + lia.
  - assert (Hrl : length (removelast pop1) = (n - 1)%nat).
    { rewrite <- Hp1len; clear; induction pop1 as [|y l IH]; [reflexivity|];
      destruct l as [|z l]; [reflexivity|]; cbn [removelast length] in *; rewrite IH; simpl; lia. }
    rewrite app_nth1 by lia.
    assert (Hrn : forall (l : list indiv) j, (S j < length l)%nat -> nth j (removelast l) d = nth j l d).
    { induction l as [|y l IH]; intros j Hj; [simpl in Hj; lia|]. destruct l as [|z l]; [simpl in Hj; lia|].
      cbn [removelast]. destruct j; [reflexivity|]. cbn [nth]. apply IH. simpl in *. lia. }
    rewrite Hrn by lia. exact Hs.
Qed.

(* a slot is overwritten only by a trial that is at least as good (before the elitism write) *)
Theorem slot_replaced_only_by_better (ts ps : list indiv) i d : (i < length ps)%nat ->
  let r := greedy G P ts ps in
  nth i r d = nth i ps d \/ (nth i r d = nth i ts d /\ ifit (nth i ps d) <= ifit (nth i ts d)).
Proof.
  intros Hi. cbv zeta. destruct (greedy_slot G P ts ps i d Hi) as (H1 & [H2|(H2 & H3)]); [left; auto|].
  right. split; auto. rewrite <- H2. exact H1.
Qed.

(* ------------------------------------------------------------------ C17: history (model side) *)
Theorem history_complete iters gs0 : (1 <= iters)%nat -> length gs0 = n ->
  let st := fit iters gs0 in
  (keep_history = true -> length (hist st) = gens st) /\ (keep_history = false -> hist st = []).
Proof.
  intros Hit Hgs. cbv zeta.
  destruct (fit_inv G P g2p nf k elitism keep_history aim no_increase_num var n n_pos var_len iters gs0 Hgs)
    as (_ & _ & _ & _ & _ & H1 & H2 & _). auto.
Qed.

Definition snapshot_ok (s : snapshot G P) : Prop :=
  s_max s = best_of G P (s_pop s) /\
  forall m, s_max s = Some m -> In m (s_pop s) /\ Forall (fun x => ifit x <= ifit m) (s_pop s).

Lemma step_hist_ok first st gs : Forall snapshot_ok (hist st) -> Forall snapshot_ok (hist (step first st gs)).
Proof.
  intros H. unfold EALoop.step. destruct (update_best _ _ _ _ _). cbn [hist].
  destruct keep_history; auto. apply Forall_app. split; auto. constructor; [|constructor].
  split; [reflexivity|]. cbn. intros m Hm. apply (best_of_spec G P _ _ Hm).
Qed.

Lemma loop_hist_ok m : forall st, Forall snapshot_ok (hist st) -> Forall snapshot_ok (hist (loop m st)).
Proof.
  induction m as [|m IH]; intros st Hst; cbn [EALoop.loop]; auto.
  destruct (terminate st); auto. apply IH.
  change (hist (callback G P (step false st (var st)))) with (hist (step false st (var st))).
  apply step_hist_ok; auto.
Qed.

Theorem history_consistent iters gs0 : Forall snapshot_ok (hist (fit iters gs0)).
Proof. unfold EALoop.fit. apply loop_hist_ok. apply step_hist_ok. constructor. Qed.

(* later generations never alter an entry: the history only grows at the end *)
Theorem history_prefix st gs first : exists ext, hist (step first st gs) = hist st ++ ext.
Proof.
  unfold EALoop.step. destruct (update_best _ _ _ _ _). cbn [hist]. destruct keep_history; [eauto|].
  exists []. now rewrite app_nil_r.
Qed.

End Proofs2.

(* ------------------------------------------------------------------ C03: the side of the target *)
Theorem aim_side minimization v err x :
  match aim_of minimization (Some v) err with
  | Some a => (a <= sign_of minimization * x <-> if minimization then x <= v + err else v - err <= x)
  | None => False
  end.
Proof. unfold aim_of, sign_of. destruct minimization; split; intros H; lra. Qed.

(* ------------------------------------------------------------------ C05: minimising f = maximising -f *)
Lemma norm_fit_dual {P} (f : P -> Q) p : norm_fit true f p = norm_fit false (fun x => - f x) p.
Proof.
  unfold norm_fit, sign_of. destruct (f p) as [a b]. unfold Qmult, Qopp. cbn.
  f_equal. destruct a; reflexivity.
Qed.

Lemma aim_dual v err : aim_of true (Some v) err = aim_of false (Some (- v)) err.
Proof.
  unfold aim_of, sign_of. f_equal. destruct v as [a b], err as [c d]. unfold Qminus, Qplus, Qmult, Qopp. cbn.
  destruct a; reflexivity.
Qed.

Section Dual.
Variables G P : Type.
Variable g2p : G -> P.
Variables nf1 nf2 : P -> Q.
Hypothesis nf_ext : forall p, nf1 p = nf2 p.
Variable k : kind.
Variable elitism keep_history : bool.
Variable aim : option Q.
Variable no_increase_num : option nat.
Variable var : state G P -> list G.

Lemma eval_ext g : eval G P g2p nf1 g = eval G P g2p nf2 g.
Proof. unfold eval. now rewrite nf_ext. Qed.

Lemma step_ext first st gs :
  step G P g2p nf1 k elitism keep_history first st gs = step G P g2p nf2 k elitism keep_history first st gs.
Proof. unfold step. rewrite (map_ext _ _ eval_ext). reflexivity. Qed.

Lemma loop_ext m : forall st,
  loop G P g2p nf1 k elitism keep_history aim no_increase_num var m st =
  loop G P g2p nf2 k elitism keep_history aim no_increase_num var m st.
Proof.
  induction m as [|m IH]; intros st; cbn [loop]; auto.
  destruct (terminate G P aim no_increase_num st); auto. rewrite step_ext. apply IH.
Qed.

Theorem fit_ext iters gs0 :
  fit G P g2p nf1 k elitism keep_history aim no_increase_num var iters gs0 =
  fit G P g2p nf2 k elitism keep_history aim no_increase_num var iters gs0.
Proof. unfold fit. rewrite step_ext. apply loop_ext. Qed.
End Dual.

(* every population, the record, counters, history, stop generation: identical *)
Theorem dual G P (g2p : G -> P) (f : P -> Q) k elitism keep_history v err nin var iters gs0 :
  fit G P g2p (norm_fit true f) k elitism keep_history (aim_of true (Some v) err) nin var iters gs0 =
  fit G P g2p (norm_fit false (fun x => - f x)) k elitism keep_history (aim_of false (Some (- v)) err) nin var iters gs0.
Proof. rewrite aim_dual. apply fit_ext. intros p. apply norm_fit_dual. Qed.

Theorem dual_no_target G P (g2p : G -> P) (f : P -> Q) k elitism keep_history nin var iters gs0 :
  fit G P g2p (norm_fit true f) k elitism keep_history None nin var iters gs0 =
  fit G P g2p (norm_fit false (fun x => - f x)) k elitism keep_history None nin var iters gs0.
Proof. apply fit_ext. intros p. apply norm_fit_dual. Qed.
