(* Bench.v — C20 (a): store model of the benchmark problem classes of
   src/thefittest/benchmarks/_optproblems.py.  MODEL ONLY (no proofs here).

   What is modelled.  Every problem class is a table entry holding its *write footprint* and its
   *read footprint* on the module-level data tables (o_206, ackley_func_data, hybrid_func2_data, ...;
   the x_shift / rotate_M / M_D attributes of the instances are aliases of those tables — resolved
   by the translator through the constructor calls) and on its argument x.  The entries are NOT
   written by hand: harness/translate_bench.py regenerates coq/gen/GenBenchFootprint.v from the
   source AST on every run.

     e_ctor   writes performed by  <Class>.__init__          (e.g. F18-F20:  self.x_shift[9] = 0)
     e_call   writes performed by  <Class>.__call__(x), x of shape (n, D), to shared tables
              (e.g. F8:  self.x_shift[:D:2] = -32.0), index expressions are functions of D
     e_arg    writes performed by  __call__  to its argument x (in-place rounding)
     e_reads  the parts of the shared tables __call__ reads, as functions of D
     e_noisy  __call__ reaches np.random.*

   A table cell is (table id, address) with address = list of integer indices (one per axis).
   A selector list  [s1; ...; sk]  denotes all cells whose first k address components lie in
   s1..sk (numpy basic indexing: integer index or slice lo:hi:step per axis; a shorter selector
   list covers whole sub-arrays).  The store is a total map cell -> Q with ARBITRARY initial
   contents (the data files are not modelled).
   A call = apply the entry's writes (in program order, last write wins), then read. *)
From TF Require Import Base.
From Coq Require Import String.
Open Scope Z_scope.

(* ---------------------------------------------------------------- index expressions in D *)
(* DFloor a n = floor(a / n)    ( np.floor(a / n).astype(np.int64),  int(a / n)  for a >= 0 )
   DCeil  a n = ceil (a / n)    ( np.ceil (a / n).astype(np.int64) )                             *)
Inductive dexpr :=
| DC (z : Z) | DD
| DAdd (a b : dexpr) | DSub (a b : dexpr) | DMul (a b : dexpr)
| DFloor (a : dexpr) (n : Z) | DCeil (a : dexpr) (n : Z).

Fixpoint deval (D : Z) (e : dexpr) : Z :=
  match e with
  | DC z => z
  | DD => D
  | DAdd a b => deval D a + deval D b
  | DSub a b => deval D a - deval D b
  | DMul a b => deval D a * deval D b
  | DFloor a n => deval D a / n
  | DCeil a n => - ((- deval D a) / n)
  end.

(* selectors: symbolic (in the generated table) and evaluated at a dimension *)
Inductive esel := EAll | ERange (lo hi : dexpr) (step : Z).
Inductive sel := SAll | SRange (lo hi step : Z).

Definition sel_eval (D : Z) (e : esel) : sel :=
  match e with
  | EAll => SAll
  | ERange lo hi st => SRange (deval D lo) (deval D hi) st
  end.

(* i in lo:hi:step   (step >= 1; the translator rejects anything else) *)
Definition in_sel (i : Z) (s : sel) : bool :=
  match s with
  | SAll => true
  | SRange lo hi st => (lo <=? i) && (i <? hi) && ((i - lo) mod st =? 0)
  end.

(* address matched by a selector list (prefix semantics, see header) *)
Fixpoint matches (addr : list Z) (ss : list sel) {struct ss} : bool :=
  match ss with
  | [] => true
  | s :: ss' => match addr with
                | [] => false
                | i :: addr' => in_sel i s && matches addr' ss'
                end
  end.

(* ---------------------------------------------------------------- table entries *)
Definition cell := (nat * list Z)%type.
Definition store := cell -> Q.

(* value stored by a write: a literal constant (x[...] = 100), or anything else (depends on the
   argument, on the old contents — augmented assignment —, or on a mask): opaque *)
Inductive wval := VConst (q : Q) | VOpaque.

Record ewrite := { w_tab : nat; w_sel : list esel; w_val : wval; w_line : nat }.
Record eplace := { r_tab : nat; r_sel : list esel }.

Record entry := {
  e_name  : string;
  e_ctor  : list ewrite;
  e_call  : list ewrite;
  e_arg   : list ewrite;      (* w_tab unused: the target is the argument x *)
  e_reads : list eplace;
  e_noisy : bool
}.

Definition dummy_entry : entry :=
  {| e_name := EmptyString; e_ctor := []; e_call := []; e_arg := []; e_reads := []; e_noisy := false |}.

(* evaluated (concrete) writes and places *)
Record cwrite := { c_tab : nat; c_sel : list sel; c_val : wval; c_tag : nat }.
Record cplace := { p_tab : nat; p_sel : list sel }.

Definition ceval (D : Z) (w : ewrite) : cwrite :=
  {| c_tab := w_tab w; c_sel := map (sel_eval D) (w_sel w); c_val := w_val w; c_tag := w_line w |}.
Definition peval (D : Z) (r : eplace) : cplace :=
  {| p_tab := r_tab r; p_sel := map (sel_eval D) (r_sel r) |}.

Definition hits (w : cwrite) (c : cell) : bool :=
  Nat.eqb (fst c) (c_tab w) && matches (snd c) (c_sel w).
Definition hits_place (r : cplace) (c : cell) : bool :=
  Nat.eqb (fst c) (p_tab r) && matches (snd c) (p_sel r).

(* ---------------------------------------------------------------- execution *)
(* orc: what an opaque write stores, as an arbitrary function of (site, cell, old contents);
   theorems quantify over it *)
Definition oracle := nat -> cell -> Q -> Q.

Definition apply_write (orc : oracle) (w : cwrite) (s : store) : store :=
  fun c => if hits w c
           then match c_val w with VConst q => q | VOpaque => orc (c_tag w) c (s c) end
           else s c.

Definition apply_writes (orc : oracle) (ws : list cwrite) (s : store) : store :=
  fold_left (fun s w => apply_write orc w s) ws s.

(* events of a history: construction of an instance of problem p, a call of an instance of p on a
   population with D columns.  Instances need no identity: all per-instance arrays the translator
   finds are treated as shared by the instances of the class (a coarser, hence safer, model). *)
Inductive event := Ctor (p : nat) | Call (p : nat) (D : Z).

Definition ev_writes (tbl : list entry) (ev : event) : list cwrite :=
  match ev with
  | Ctor p => map (ceval 0) (e_ctor (nth p tbl dummy_entry))
  | Call p D => map (ceval D) (e_call (nth p tbl dummy_entry))
  end.

Definition run (orc : oracle) (tbl : list entry) (h : list event) (s : store) : store :=
  fold_left (fun s ev => apply_writes orc (ev_writes tbl ev) s) h s.

Definition in_reads (tbl : list entry) (p : nat) (D : Z) (c : cell) : bool :=
  existsb (fun r => hits_place (peval D r) c) (e_reads (nth p tbl dummy_entry)).

Definition valid_event (tbl : list entry) (dims : list Z) (ev : event) : Prop :=
  match ev with
  | Ctor p => (p < List.length tbl)%nat
  | Call p D => (p < List.length tbl)%nat /\ In D dims
  end.

(* the argument: a call leaves in x what its argument writes leave *)
Definition arg_after (orc : oracle) (tbl : list entry) (p : nat) (D : Z) (x : store) : store :=
  apply_writes orc (map (ceval D) (e_arg (nth p tbl dummy_entry))) x.

(* ---------------------------------------------------------------- decidable conditions *)
(* every write any event can perform (constructors, calls at the supported dimensions) *)
Definition all_writes (tbl : list entry) (dims : list Z) : list cwrite :=
  flat_map (fun e => map (ceval 0) (e_ctor e) ++ flat_map (fun D => map (ceval D) (e_call e)) dims) tbl.

(* over-approximation of "the two selectors have a common index" (steps ignored) *)
Definition sel_overlap (a b : sel) : bool :=
  match a, b with
  | SAll, _ => true
  | _, SAll => true
  | SRange l1 h1 _, SRange l2 h2 _ => Z.max l1 l2 <? Z.min h1 h2
  end.

Fixpoint sels_overlap (a b : list sel) : bool :=
  match a, b with
  | [], _ => true
  | _, [] => true
  | sa :: a', sb :: b' => sel_overlap sa sb && sels_overlap a' b'
  end.

Fixpoint zrange_forall (lo : Z) (n : nat) (P : Z -> bool) : bool :=
  match n with
  | O => true
  | S n' => P lo && zrange_forall (lo + 1) n' P
  end.

Definition sel_bounds (s : sel) : option (Z * Z) :=
  match s with SAll => None | SRange lo hi _ => Some (lo, hi) end.

(* sufficient test for   a ∩ b ⊆ c   (exact when a or b is bounded: enumeration) *)
Definition sel_inter_sub (a b c : sel) : bool :=
  match c with
  | SAll => true
  | SRange _ _ _ =>
      match (match sel_bounds a, sel_bounds b with
             | Some (l1, h1), Some (l2, h2) => Some (Z.max l1 l2, Z.min h1 h2)
             | Some x, None => Some x
             | None, Some x => Some x
             | None, None => None
             end) with
      | None => false
      | Some (lo, hi) =>
          zrange_forall lo (Z.to_nat (hi - lo)) (fun i => implb (in_sel i a && in_sel i b) (in_sel i c))
      end
  end.

Fixpoint sels_inter_sub (a b c : list sel) : bool :=
  match c with
  | [] => true
  | sc :: c' =>
      match a, b with
      | sa :: a', sb :: b' => sel_inter_sub sa sb sc && sels_inter_sub a' b' c'
      | sa :: a', [] => sel_inter_sub sa SAll sc && sels_inter_sub a' [] c'
      | [], sb :: b' => sel_inter_sub SAll sb sc && sels_inter_sub [] b' c'
      | [], [] => false
      end
  end.

(* Leibniz equality test on rationals (the translator emits reduced fractions) *)
Definition Qeqb_strict (a b : Q) : bool := (Qnum a =? Qnum b) && Pos.eqb (Qden a) (Qden b).

Definition val_agree (w1 w2 : cwrite) : bool :=
  match c_val w1, c_val w2 with
  | VConst a, VConst b => Qeqb_strict a b
  | _, _ => false
  end.

Definition touches (w : cwrite) (r : cplace) : bool :=
  Nat.eqb (c_tab w) (p_tab r) && sels_overlap (c_sel w) (p_sel r).
Definition wov (w1 w2 : cwrite) : bool :=
  Nat.eqb (c_tab w1) (c_tab w2) && sels_overlap (c_sel w1) (c_sel w2).

(* Reader (p, D) is insensitive to history when, for every place r it reads and every write w1 of
   ANY event that may touch r:
     - (covered)  the reader's own constructor+call contains a constant write w' with the same
       value that covers all of  w1 ∩ r   — so the reader re-establishes what w1 wrote; and
     - (agree)    every other write w2 that may touch the same cells stores the same constant
       — writes are idempotent constants, independent of the writer and of its D on r.          *)
Definition reader_ok (tbl : list entry) (dims : list Z) (p : nat) (D : Z) : bool :=
  let allw := all_writes tbl dims in
  let req := ev_writes tbl (Ctor p) ++ ev_writes tbl (Call p D) in
  forallb (fun r =>
    forallb (fun w1 =>
      if touches w1 r then
        existsb (fun w' => val_agree w' w1 && Nat.eqb (c_tab w') (c_tab w1)
                           && sels_inter_sub (c_sel w1) (p_sel r) (c_sel w')) req
        && forallb (fun w2 => if touches w2 r && wov w1 w2 then val_agree w1 w2 else true) allw
      else true) allw)
    (map (peval D) (e_reads (nth p tbl dummy_entry))).

Definition table_ok (tbl : list entry) (dims : list Z) : bool :=
  forallb (fun p => forallb (fun D => reader_ok tbl dims p D) dims) (seq 0 (List.length tbl)).

Definition args_untouched (tbl : list entry) : bool :=
  forallb (fun e => match e_arg e with [] => true | _ => false end) tbl.

Definition noise_documented (tbl : list entry) (noisy_names : list string) : bool :=
  forallb (fun e => Bool.eqb (e_noisy e) (existsb (String.eqb (e_name e)) noisy_names)) tbl.

(* dimensions for which problems_dict declares every CEC2005 problem usable *)
Definition supported_dims : list Z := [2; 10; 30; 50].
