(* C20Check.v — boolean case checker evaluated by the correspondence (no proofs here).
   A case is one real scenario executed in a fresh interpreter: the list of events (instance
   constructions and calls, in order) and, for a set of probed table cells, the contents observed
   BEFORE the first event and AFTER the last one.  The model (Bench.run over the generated table)
   must predict the final contents of every probed cell from the initial ones. *)
From TF Require Import Base Bench.
Open Scope Z_scope.

Definition cell_eqb (a b : cell) : bool :=
  Nat.eqb (fst a) (fst b) && Zlist_eqb (snd a) (snd b).

Definition s0_of (ps : list (cell * Q * Q)) : store :=
  fun c => match find (fun p => cell_eqb (fst (fst p)) c) ps with
           | Some p => snd (fst p)
           | None => 0%Q
           end.

(* cells hit by an opaque write somewhere in the history are not predicted *)
Definition opaque_hit (tbl : list entry) (h : list event) (c : cell) : bool :=
  existsb (fun ev => existsb (fun w => hits w c && match c_val w with VOpaque => true | _ => false end)
                             (ev_writes tbl ev)) h.

Definition chk_hist (tbl : list entry) (case : list event * list (cell * Q * Q)) : bool :=
  let '(h, ps) := case in
  let s := run (fun _ _ v => v) tbl h (s0_of ps) in
  forallb (fun p => let '(c, _, fin) := p in opaque_hit tbl h c || Qeq_bool (s c) fin) ps.
