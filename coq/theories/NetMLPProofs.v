(* NetMLPProofs.v — C13: the MLP builder (BaseMLPEA._defitne_net).
   - the pre-repair code (fixed = false) is refuted with a witness (kept as a record);
   - a bounded sweep (bound in the name) over the repaired builder.                              *)
From TF Require Import Base Net NetAlgebra NetProofs NetProofs2.
Local Open Scope nat_scope.

(* requested architecture as a predicate on the result *)
Definition mlp_arch_ok (ni no : nat) (hs : list nat) (act : nat) (offset : bool) (oact : nat)
           (r : net) : Prop :=
  n_in r = seq 0 ni /\ n_hid r = mlp_ranges ni hs /\
  n_out r = seq (ni + list_sum hs) no /\
  (forall c, In c (n_con r) <-> In c (mlp_spec_connects ni no hs offset)) /\
  n_nw r = length (n_con r) /\
  (forall v, In v (hidden r) -> alookup v (n_act r) = Some act) /\
  (forall v, In v (n_out r) -> alookup v (n_act r) = Some oact).

(* boolean form of the same *)
Definition mlp_arch_b (ni no : nat) (hs : list nat) (act : nat) (offset : bool) (oact : nat)
           (r : net) : bool :=
  natlist_eqb (n_in r) (seq 0 ni) && natll_eqb (n_hid r) (mlp_ranges ni hs)
  && natlist_eqb (n_out r) (seq (ni + list_sum hs) no)
  && pairlist_eqb (sort_dedup (n_con r)) (sort_dedup (mlp_spec_connects ni no hs offset))
  && (n_nw r =? length (n_con r))
  && forallb (fun v => match alookup v (n_act r) with Some a => a =? act | None => false end) (hidden r)
  && forallb (fun v => match alookup v (n_act r) with Some a => a =? oact | None => false end) (n_out r).

(* item 17 of DESIGN §7, before the repair: with no hidden layer and offset the features are
   not connected at all *)
Theorem mlp_no_hidden_offset_refuted :
  exists ni no act oact r,
    define_net false ni no [] act true oact = Some r /\
    ~ (forall c, In c (mlp_spec_connects ni no [] true) -> In c (n_con r)).
Proof.
  exists 4, 3, 0, 5. eexists. split.
  - vm_compute. reflexivity.
  - intro H. specialize (H (0, 4)). simpl in H.
    assert (Hin : In (0, 4) [(3, 4); (3, 5); (3, 6)]) by (apply H; auto).
    simpl in Hin. repeat (destruct Hin as [Hin|Hin]; [discriminate|]). exact Hin.
Qed.

(* all hidden tuples with <= 3 layers of sizes 1..3 *)
Definition sizes3 : list nat := [1; 2; 3].
Definition tuples_upto3 : list (list nat) :=
  [[]] ++ map (fun a => [a]) sizes3
  ++ map (fun p => [fst p; snd p]) (list_prod sizes3 sizes3)
  ++ map (fun p => [fst (fst p); snd (fst p); snd p]) (list_prod (list_prod sizes3 sizes3) sizes3).

Definition mlp_sweep : bool :=
  forallb (fun hs =>
    forallb (fun ni =>
      forallb (fun no =>
        forallb (fun offset =>
          match define_net true ni no hs 1 offset 5 with
          | Some r => mlp_arch_b ni no hs 1 offset 5 r
          | None => false
          end) [true; false]) [1; 2; 3]) [1; 2; 3; 4]) tuples_upto3.

Theorem mlp_architecture_sweep_3layers_size3_in4_out3 : mlp_sweep = true.
Proof. vm_compute. reflexivity. Qed.

(* ==============================================================================================
   The general theorem: for every hidden tuple (sizes >= 1), n_inputs >= 1, n_outputs >= 1,
   offset on/off, the repaired builder yields exactly the requested architecture.              *)
Local Arguments net_op : simpl never.

Lemma union_absorb a b : (forall x, In x b -> In x a) -> union a b = a.
Proof.
  intro H. unfold union. replace (filter (fun x => negb (mem x a)) b) with (@nil nat).
  - apply app_nil_r.
  - symmetry. induction b as [|h t IH]; simpl; auto.
    assert (E : mem h a = true) by (apply mem_In, H; simpl; auto). rewrite E. simpl.
    apply IH. intros x Hx. apply H. simpl; auto.
Qed.

Lemma gt_to_unitlike b T :
  (forall c, In c (n_con b) -> In (fst c) (n_in b)) ->
  (forall y, In y (hidden b) \/ In y (n_out b) <-> In y T) ->
  forall y, In y (gt_to b) <-> In y T.
Proof.
  intros Hs HT y. unfold gt_to. rewrite diff_In, union_In, assemble_In. fold (hidden b).
  rewrite HT. split; [tauto|]. intro H. split; auto.
  intro Hc. apply in_map_iff in Hc. destruct Hc as [c [_ Hc]]. apply filter_In in Hc.
  destruct Hc as [Hc Hn]. apply negb_true_iff, mem_false in Hn. apply Hn, Hs, Hc.
Qed.

(* a layer unit: hidden block or output block over the id list T *)
Definition is_unit (u : net) (T : list nat) : Prop :=
  n_in u = [] /\ n_con u = [] /\ n_nw u = 0 /\
  (forall y, In y (hidden u) \/ In y (n_out u) <-> In y T).

Lemma unit_hid_is_unit T a : is_unit (unit_hid T a) T.
Proof.
  repeat split; auto; unfold hidden; simpl; rewrite ?app_nil_r; tauto.
Qed.
Lemma unit_out_is_unit T a : is_unit (unit_out T a) T.
Proof. repeat split; auto; unfold hidden; simpl; tauto. Qed.

Lemma amerge_nil_l b : amerge [] b = b.
Proof. reflexivity. Qed.

(* Net(inputs={bias}) > unit   or just   unit *)
Lemma mlp_layer_spec fixed offset bias u T :
  is_unit u T ->
  exists ln, mlp_layer fixed offset bias u = Some ln /\
    n_in ln = (if offset then [bias] else []) /\ n_hid ln = n_hid u /\ n_out ln = n_out u /\
    (forall x y, In (x, y) (n_con ln) <-> offset = true /\ x = bias /\ In y T) /\
    n_nw ln = length (n_con ln) /\ n_act ln = n_act u.
Proof.
  intros [U1 [U2 [U3 U4]]]. unfold mlp_layer. destruct offset.
  - assert (E : net_op fixed OPFUEL true (unit_in [bias]) u = Some (gt_plain (unit_in [bias]) u)).
    { unfold OPFUEL, net_op. simpl. rewrite U1. simpl. reflexivity. }
    rewrite E. eexists. split; [reflexivity|].
    rewrite gt_plain_in, gt_plain_hid, gt_plain_out, gt_plain_con, gt_plain_nw, gt_plain_act.
    simpl. rewrite U1, U2, U3. simpl. rewrite union_nil_l.
    split; [reflexivity|split; [reflexivity|split; [reflexivity|split; [|split; [lia|reflexivity]]]]].
    intros x y. unfold gt_new. rewrite get_connect_In.
    rewrite (gt_to_unitlike u T); auto.
    + unfold gt_from. simpl. split.
      * intros [[H|[]] Hy]; auto.
      * intros [_ [-> Hy]]; auto.
    + rewrite U2. intros c [].
  - exists u. split; [reflexivity|]. split; [auto|]. split; [auto|split; [auto|split; [|split]]].
    + intros x y. rewrite U2. simpl. split; [intros []|intros [H _]; discriminate].
    + rewrite U2, U3. reflexivity.
    + reflexivity.
Qed.

(* nt > ln  where ln is a layer net whose inputs are already inputs of nt *)
Lemma mlp_gt_step nt ln prev T :
  n_out nt = [] ->
  (forall x, In x (n_in ln) -> In x (n_in nt)) ->
  (forall v, In v (gt_from nt) <-> In v prev) ->
  (forall c, In c (n_con ln) -> In (fst c) (n_in ln)) ->
  (forall y, In y (hidden ln) \/ In y (n_out ln) <-> In y T) ->
  let r := gt_plain nt ln in
  n_in r = n_in nt /\ n_hid r = n_hid nt ++ n_hid ln /\ n_out r = n_out ln /\
  (forall x y, In (x, y) (n_con r) <->
               In (x, y) (n_con nt) \/ In (x, y) (n_con ln) \/ (In x prev /\ In y T)) /\
  n_nw r = n_nw nt + n_nw ln + length (gt_new nt ln) /\
  n_con r = n_con nt ++ n_con ln ++ gt_new nt ln /\
  n_act r = amerge (n_act nt) (n_act ln).
Proof.
  intros Ho Hin Hfrom Hsrc HT r. unfold r.
  rewrite gt_plain_in, gt_plain_hid, gt_plain_out, gt_plain_con, gt_plain_nw, gt_plain_act.
  rewrite Ho, union_nil_l, (union_absorb _ _ Hin).
  repeat split; auto.
  - rewrite !in_app_iff. unfold gt_new. rewrite get_connect_In, Hfrom, (gt_to_unitlike ln T); auto.
  - rewrite !in_app_iff. unfold gt_new. rewrite get_connect_In, Hfrom, (gt_to_unitlike ln T); auto.
Qed.

(* ------------------------------------------------------------------ the specification, by prefixes *)
Definition spec_partial (ni : nat) (hs : list nat) (offset : bool) : list (nat * nat) :=
  consecutive (seq 0 ni :: mlp_ranges ni hs)
  ++ (if offset then list_prod [ni - 1] (concat (mlp_ranges ni hs)) else []).
Definition prev_layer (ni : nat) (hs : list nat) : list nat := last (seq 0 ni :: mlp_ranges ni hs) [].

Lemma mlp_ranges_snoc e hs h :
  mlp_ranges e (hs ++ [h]) = mlp_ranges e hs ++ [seq (e + list_sum hs) h].
Proof.
  revert e. induction hs as [|x t IH]; intro e; simpl.
  - rewrite Nat.add_0_r. reflexivity.
  - rewrite IH, Nat.add_assoc. reflexivity.
Qed.
Lemma mlp_ranges_bound e hs L v :
  In L (mlp_ranges e hs) -> In v L -> e <= v < e + list_sum hs.
Proof.
  revert e. induction hs as [|x t IH]; intros e HL Hv; simpl in *; [tauto|].
  destruct HL as [<-|HL].
  - apply in_seq in Hv. lia.
  - specialize (IH _ HL Hv). lia.
Qed.
Lemma consecutive_snoc (ls : list (list nat)) x c : ls <> [] ->
  (In c (consecutive (ls ++ [x])) <-> In c (consecutive ls) \/ In c (list_prod (last ls []) x)).
Proof.
  induction ls as [|a t IH]; intro H; [congruence|].
  destruct t as [|b t].
  - simpl. rewrite app_nil_r. tauto.
  - change (consecutive ((a :: b :: t) ++ [x])) with (list_prod a b ++ consecutive ((b :: t) ++ [x])).
    change (consecutive (a :: b :: t)) with (list_prod a b ++ consecutive (b :: t)).
    change (last (a :: b :: t) []) with (last (b :: t) []).
    rewrite !in_app_iff, IH by discriminate. tauto.
Qed.
Lemma spec_partial_snoc ni hs h offset x y :
  In (x, y) (spec_partial ni (hs ++ [h]) offset) <->
  In (x, y) (spec_partial ni hs offset)
  \/ (offset = true /\ x = ni - 1 /\ In y (seq (ni + list_sum hs) h))
  \/ (In x (prev_layer ni hs) /\ In y (seq (ni + list_sum hs) h)).
Proof.
  unfold spec_partial, prev_layer. rewrite mlp_ranges_snoc.
  change (seq 0 ni :: mlp_ranges ni hs ++ [seq (ni + list_sum hs) h])
    with ((seq 0 ni :: mlp_ranges ni hs) ++ [seq (ni + list_sum hs) h]).
  rewrite !in_app_iff, consecutive_snoc by discriminate.
  rewrite in_prod_iff.
  destruct offset.
  - rewrite !in_prod_iff, concat_app, !in_app_iff. simpl. rewrite app_nil_r.
    split; intro H; intuition; try discriminate.
  - simpl. split; intro H; intuition; try discriminate.
Qed.
Lemma spec_partial_bound ni hs offset x y : 1 <= ni ->
  In (x, y) (spec_partial ni hs offset) -> x < ni + list_sum hs /\ y < ni + list_sum hs.
Proof.
  intro Hni. induction hs as [|h t IH] using rev_ind.
  - unfold spec_partial. simpl. destruct offset; simpl; tauto.
  - rewrite spec_partial_snoc, list_sum_app. simpl. intros [H|[[_ [-> H]]|[H1 H2]]].
    + apply IH in H. lia.
    + apply in_seq in H. lia.
    + apply in_seq in H2. split; [|lia].
      unfold prev_layer in H1.
      assert (Hl : In (last (seq 0 ni :: mlp_ranges ni t) []) (seq 0 ni :: mlp_ranges ni t)).
      { destruct (exists_last (l := seq 0 ni :: mlp_ranges ni t)) as [l' [a E]]; [discriminate|].
        rewrite E, last_last. apply in_app_iff. simpl; auto. }
      destruct Hl as [E|Hl].
      * rewrite <- E in H1. apply in_seq in H1. lia.
      * pose proof (mlp_ranges_bound _ _ _ _ Hl H1). lia.
Qed.

(* ------------------------------------------------------------------ activation lookups *)
Lemma alookup_none k a : ~ In k (map fst a) -> alookup k a = None.
Proof.
  induction a as [|[k' c] r IH]; simpl; auto. intro H.
  destruct (k =? k') eqn:E; [apply Nat.eqb_eq in E; subst; tauto|]. apply IH. tauto.
Qed.
Lemma alookup_app k a b :
  alookup k (a ++ b) = match alookup k a with Some c => Some c | None => alookup k b end.
Proof.
  induction a as [|[k' c] r IH]; simpl; auto. destruct (k =? k'); auto.
Qed.
Lemma alookup_filter_in k kb a :
  In k kb -> alookup k (filter (fun p => negb (mem (fst p) kb)) a) = None.
Proof.
  intro H. apply alookup_none. intro Hc. apply in_map_iff in Hc. destruct Hc as [p [<- Hp]].
  apply filter_In in Hp. destruct Hp as [_ Hp]. apply negb_true_iff, mem_false in Hp. auto.
Qed.
Lemma alookup_filter_notin k kb a :
  ~ In k kb -> alookup k (filter (fun p => negb (mem (fst p) kb)) a) = alookup k a.
Proof.
  intro H. induction a as [|[k' c] r IH]; simpl; auto.
  destruct (mem k' kb) eqn:E; simpl.
  - destruct (k =? k') eqn:E2; auto. apply Nat.eqb_eq in E2. subst. apply mem_In in E. tauto.
  - rewrite IH. reflexivity.
Qed.
Lemma alookup_amerge k a b :
  alookup k (amerge a b) = if mem k (map fst b) then alookup k b else alookup k a.
Proof.
  unfold amerge. rewrite alookup_app. destruct (mem k (map fst b)) eqn:E.
  - apply mem_In in E. rewrite alookup_filter_in; auto.
  - apply mem_false in E. rewrite alookup_filter_notin; auto.
    destruct (alookup k a); auto. apply alookup_none; auto.
Qed.
Lemma alookup_unit k T (a : nat) : In k T -> alookup k (map (fun i => (i, a)) T) = Some a.
Proof.
  induction T as [|h t IH]; simpl; [tauto|]. intros [->|H].
  - rewrite Nat.eqb_refl. auto.
  - destruct (k =? h); auto.
Qed.

(* ------------------------------------------------------------------ the accumulated net *)
Record MInv (ni : nat) (offset : bool) (act : nat) (hs : list nat) (nt : net) : Prop := {
  m_in   : n_in nt = seq 0 ni;
  m_hid  : n_hid nt = mlp_ranges ni hs;
  m_out  : n_out nt = [];
  m_con  : forall x y, In (x, y) (n_con nt) <-> In (x, y) (spec_partial ni hs offset);
  m_nw   : n_nw nt = length (n_con nt);
  m_from : forall v, In v (gt_from nt) <-> In v (prev_layer ni hs);
  m_act  : forall v, In v (hidden nt) -> alookup v (n_act nt) = Some act;
  m_keys : forall v, In v (map fst (n_act nt)) -> In v (hidden nt)
}.

Lemma hidden_ranges_bound ni hs v : In v (concat (mlp_ranges ni hs)) -> ni <= v < ni + list_sum hs.
Proof.
  intro H. apply in_concat in H. destruct H as [L [HL Hv]]. eapply mlp_ranges_bound; eauto.
Qed.

Lemma net_op_mlp fixed nt ln ni : 1 <= ni -> n_in nt = seq 0 ni ->
  (n_in ln = [] \/ n_hid ln <> [] \/ (fixed = true /\ n_out ln <> [])) ->
  net_op fixed OPFUEL true nt ln = Some (gt_plain nt ln).
Proof.
  intros Hni Hin H. unfold OPFUEL, net_op. rewrite Hin. destruct ni; [lia|]. simpl.
  destruct H as [H|[H|[-> H]]].
  - rewrite H. simpl. rewrite !andb_false_r. simpl. destruct (has (n_hid nt)); reflexivity.
  - destruct (n_hid ln); [congruence|]. simpl. rewrite !andb_false_r. simpl.
    destruct (has (n_hid nt)); reflexivity.
  - destruct (n_out ln); [congruence|]. simpl. rewrite !andb_false_r. simpl.
    destruct (has (n_hid nt)); reflexivity.
Qed.

Lemma mlp_hidden_step fixed ni offset act hs nt h :
  1 <= ni -> 1 <= h -> MInv ni offset act hs nt ->
  exists ln nt', mlp_layer fixed offset (ni - 1) (unit_hid (seq (ni + list_sum hs) h) act) = Some ln /\
    net_op fixed OPFUEL true nt ln = Some nt' /\ MInv ni offset act (hs ++ [h]) nt'.
Proof.
  intros Hni Hh M. set (e := ni + list_sum hs). set (T := seq e h).
  destruct (mlp_layer_spec fixed offset (ni - 1) (unit_hid T act) T (unit_hid_is_unit T act))
    as [ln [El [L1 [L2 [L3 [L4 [L5 L6]]]]]]].
  exists ln, (gt_plain nt ln). split; auto.
  destruct M as [m1 m2 m3 m4 m5 m6 m7 m8].
  assert (Hlin : forall x, In x (n_in ln) -> In x (n_in nt)).
  { rewrite L1, m1. destruct offset; simpl; [|tauto]. intros x [<-|[]]. apply in_seq. lia. }
  assert (Hlsrc : forall c, In c (n_con ln) -> In (fst c) (n_in ln)).
  { intros [x y] Hc. apply L4 in Hc. destruct Hc as [-> [-> _]]. rewrite L1. simpl; auto. }
  assert (HlT : forall y, In y (hidden ln) \/ In y (n_out ln) <-> In y T).
  { intro y. unfold hidden. rewrite L2, L3. simpl. rewrite app_nil_r. tauto. }
  split.
  { apply (net_op_mlp fixed nt ln ni); auto. right; left. rewrite L2. simpl. discriminate. }
  destruct (mlp_gt_step nt ln (prev_layer ni hs) T m3 Hlin m6 Hlsrc HlT)
    as [R1 [R2 [R3 [R4 [R5 [R6 R7]]]]]].
  assert (HT0 : In e T) by (apply in_seq; lia).
  assert (Hprev_lt : forall v, In v (prev_layer ni hs) -> v < e).
  { intros v Hv. apply m6 in Hv. unfold gt_from in Hv. apply diff_In in Hv. destruct Hv as [Hv _].
    apply union_In in Hv. rewrite m1, m2, assemble_In in Hv. destruct Hv as [Hv|Hv].
    - apply in_seq in Hv. unfold e. lia.
    - apply hidden_ranges_bound in Hv. unfold e. lia. }
  assert (Hhid' : forall v, In v (hidden (gt_plain nt ln)) <-> In v (hidden nt) \/ In v T).
  { intro v. unfold hidden. rewrite R2, L2, concat_app, in_app_iff. simpl. rewrite app_nil_r. tauto. }
  constructor.
  - rewrite R1. auto.
  - rewrite R2, m2, L2, mlp_ranges_snoc. reflexivity.
  - rewrite R3, L3. reflexivity.
  - intros x y. rewrite R4, spec_partial_snoc, m4, L4. fold e. fold T. tauto.
  - rewrite R5, R6, !app_length, m5, L5. lia.
  - (* open sources of the new net = the new layer *)
    intro v. unfold prev_layer. rewrite mlp_ranges_snoc.
    change (seq 0 ni :: mlp_ranges ni hs ++ [seq (ni + list_sum hs) h])
      with ((seq 0 ni :: mlp_ranges ni hs) ++ [T]).
    rewrite last_last. unfold gt_from. rewrite diff_In, union_In, assemble_In.
    fold (hidden (gt_plain nt ln)). rewrite Hhid', R1. split.
    + intros [Hv Hns]. destruct Hv as [Hv|[Hv|Hv]]; auto; exfalso; apply Hns.
      * destruct (in_dec Nat.eq_dec v (map fst (n_con nt))) as [Hs|Hs].
        -- apply in_map_iff in Hs. destruct Hs as [[x y] [E Hc]]. simpl in E. subst x.
           apply in_map_iff. exists (v, y). split; auto. apply R4. auto.
        -- apply in_map_iff. exists (v, e). split; auto. apply R4. right; right. split; auto.
           apply m6. unfold gt_from. apply diff_In. split; auto. apply union_In. auto.
      * destruct (in_dec Nat.eq_dec v (map fst (n_con nt))) as [Hs|Hs].
        -- apply in_map_iff in Hs. destruct Hs as [[x y] [E Hc]]. simpl in E. subst x.
           apply in_map_iff. exists (v, y). split; auto. apply R4. auto.
        -- apply in_map_iff. exists (v, e). split; auto. apply R4. right; right. split; auto.
           apply m6. unfold gt_from. apply diff_In. split; auto. apply union_In. right.
           apply assemble_In. auto.
    + intro Hv. split; auto. intro Hs. apply in_map_iff in Hs. destruct Hs as [[x y] [E Hc]].
      simpl in E. subst x. apply in_seq in Hv. apply R4 in Hc. destruct Hc as [Hc|[Hc|[Hc _]]].
      * apply m4, (spec_partial_bound ni hs offset v y Hni) in Hc. unfold e in *. lia.
      * apply L4 in Hc. destruct Hc as [_ [-> _]]. unfold e in *. lia.
      * apply Hprev_lt in Hc. lia.
  - intros v Hv. rewrite R7, alookup_amerge, L6. simpl. rewrite unit_keys.
    apply Hhid' in Hv. destruct (mem v T) eqn:E.
    + apply mem_In in E. apply alookup_unit; auto.
    + destruct Hv as [Hv|Hv]; auto. apply mem_false in E. tauto.
  - intros v Hv. rewrite R7, amerge_In, L6 in Hv. simpl in Hv. rewrite unit_keys in Hv.
    apply Hhid'. destruct Hv; auto.
Qed.

Lemma MInv_init ni offset act : MInv ni offset act [] (unit_in (seq 0 ni)).
Proof.
  constructor; simpl; auto.
  - intros x y. unfold spec_partial. simpl. destruct offset; simpl; tauto.
  - intro v. unfold gt_from, prev_layer. simpl. rewrite diff_In, union_In. simpl. tauto.
  - intros v [].
Qed.

Lemma mlp_hidden_spec fixed ni offset act : 1 <= ni -> forall hs done nt,
  Forall (fun h => 1 <= h) hs -> MInv ni offset act done nt ->
  exists nt', mlp_hidden fixed offset act (ni - 1) hs nt (ni + list_sum done)
              = Some (nt', ni + list_sum (done ++ hs)) /\
              MInv ni offset act (done ++ hs) nt'.
Proof.
  intros Hni. induction hs as [|h t IH]; intros done nt Hf M; simpl.
  - rewrite app_nil_r. eauto.
  - inversion Hf; subst.
    destruct (mlp_hidden_step fixed ni offset act done nt h Hni H1 M) as [ln [nt' [E1 [E2 M']]]].
    rewrite E1, E2.
    destruct (IH (done ++ [h]) nt' H2 M') as [nt2 [E3 M2]].
    rewrite list_sum_app in E3. simpl in E3. rewrite Nat.add_0_r, Nat.add_assoc in E3.
    rewrite <- app_assoc in E3, M2. simpl in E3, M2. eauto.
Qed.

(* C13_mlp_architecture (repaired code, fixed = true) *)
Theorem mlp_architecture ni no hs act offset oact :
  1 <= ni -> 1 <= no -> Forall (fun h => 1 <= h) hs ->
  exists r, define_net true ni no hs act offset oact = Some r /\
            mlp_arch_ok ni no hs act offset oact r.
Proof.
  intros Hni Hno Hf. unfold define_net.
  destruct (mlp_hidden_spec true ni offset act Hni hs [] (unit_in (seq 0 ni)) Hf (MInv_init ni offset act))
    as [nt [E M]].
  simpl in E, M. rewrite Nat.add_0_r in E. rewrite E.
  set (e := ni + list_sum hs). set (T := seq e no).
  destruct (mlp_layer_spec true offset (ni - 1) (unit_out T oact) T (unit_out_is_unit T oact))
    as [ln [El [L1 [L2 [L3 [L4 [L5 L6]]]]]]].
  rewrite El. destruct M as [m1 m2 m3 m4 m5 m6 m7 m8].
  assert (HT0 : In e T) by (apply in_seq; lia).
  assert (Eop : net_op true OPFUEL true nt ln = Some (gt_plain nt ln)).
  { apply (net_op_mlp true nt ln ni); auto. destruct offset.
    - right; right. split; auto. rewrite L3. simpl. intro Hc. rewrite Hc in HT0. destruct HT0.
    - left. auto. }
  rewrite Eop. eexists. split; [reflexivity|].
  assert (Hlin : forall x, In x (n_in ln) -> In x (n_in nt)).
  { rewrite L1, m1. destruct offset; simpl; [|tauto]. intros x [<-|[]]. apply in_seq. lia. }
  assert (Hlsrc : forall c, In c (n_con ln) -> In (fst c) (n_in ln)).
  { intros [x y] Hc. apply L4 in Hc. destruct Hc as [-> [-> _]]. rewrite L1. simpl; auto. }
  assert (HlT : forall y, In y (hidden ln) \/ In y (n_out ln) <-> In y T).
  { intro y. unfold hidden. rewrite L2, L3. simpl. tauto. }
  destruct (mlp_gt_step nt ln (prev_layer ni hs) T m3 Hlin m6 Hlsrc HlT)
    as [R1 [R2 [R3 [R4 [R5 [R6 R7]]]]]].
  assert (Hhid : hidden (gt_plain nt ln) = hidden nt).
  { unfold hidden. rewrite R2, L2. simpl. rewrite app_nil_r. reflexivity. }
  unfold mlp_arch_ok. rewrite Hhid.
  split; [rewrite R1; auto|].
  split; [rewrite R2, L2, m2; simpl; apply app_nil_r|].
  split; [rewrite R3, L3; reflexivity|].
  split; [|split; [|split]].
  - intros [x y]. rewrite R4.
    change (mlp_spec_connects ni no hs offset) with (spec_partial ni (hs ++ [no]) offset).
    rewrite spec_partial_snoc, m4, L4. fold e. fold T. tauto.
  - rewrite R5, R6, !app_length, m5, L5. lia.
  - intros v Hv. rewrite R7, alookup_amerge, L6. simpl. rewrite unit_keys.
    assert (Hlt : v < e).
    { unfold hidden in Hv. rewrite m2 in Hv. apply hidden_ranges_bound in Hv. unfold e. lia. }
    destruct (mem v T) eqn:Em.
    + apply mem_In, in_seq in Em. lia.
    + auto.
  - intros v Hv. rewrite R3, L3 in Hv. simpl in Hv.
    rewrite R7, alookup_amerge, L6. simpl. rewrite unit_keys.
    assert (Em : mem v T = true) by (apply mem_In; auto). rewrite Em. apply alookup_unit; auto.
Qed.

(* multiplicities: the only duplicated rows are bias -> first layer (the bias column is also an
   input column).  Proved here only as a bounded sweep (bound in the name); the unbounded theorem
   above speaks about the connection *set* and the weight count. *)
Definition count_pair (c : nat * nat) (l : list (nat * nat)) : nat :=
  length (filter (pair_eqb c) l).
Definition mlp_dups_b (ni no : nat) (hs : list nat) (offset : bool) (r : net) : bool :=
  let first := hd [] (mlp_ranges ni (hs ++ [no])) in
  forallb (fun c =>
    count_pair c (n_con r) =?
      (if offset && (fst c =? ni - 1) && mem (snd c) first then 2 else 1)) (n_con r).
Definition mlp_dups_sweep : bool :=
  forallb (fun hs =>
    forallb (fun ni =>
      forallb (fun no =>
        forallb (fun offset =>
          match define_net true ni no hs 1 offset 5 with
          | Some r => mlp_dups_b ni no hs offset r
          | None => false
          end) [true; false]) [1; 2; 3]) [1; 2; 3; 4]) tuples_upto3.
Theorem mlp_duplicates_sweep_3layers_size3_in4_out3 : mlp_dups_sweep = true.
Proof. vm_compute. reflexivity. Qed.
