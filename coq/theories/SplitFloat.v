(* SplitFloat.v — executable, bit-exact binary64 model of
     numpy.linspace(start=0, stop=pop, num=n+1, dtype=numpy.int64)
   as called by  EvolutionaryAlgorithm._split_population  (numpy/_core/function_base.py, numpy 2.x):

     div   = num - 1 = n
     delta = float64(stop) - float64(start)            = float(pop)
     y     = arange(0, num, dtype=float64)             = [0.0, 1.0, ..., float(n)]
     if div > 0:
         step = delta / div                            (one float64 division)
         if step == 0:  y /= div;  y *= delta          (only for pop = 0)
         else:          y *= step                      (one float64 multiplication per point)
     else:              y = y * delta                  (n = 0: the single point 0)
     y += start                                        (+ 0.0)
     if num > 1: y[-1] = stop
     floor(y, out=y);  y.astype(int64)

   Only PrimFloat / Uint63 primitives are used (no axioms, no Floats spec library).
   Definitions only; the bounded sweep against [Envelope] is in SplitProofs.v. *)
From Coq Require Import List ZArith Bool.
From Coq Require Import Uint63 PrimFloat.
From TF Require Import Split.
Import ListNotations.
Open Scope Z_scope.

Definition f_of_Z (z : Z) : float := PrimFloat.of_uint63 (Uint63.of_Z z).

(* floor of a finite float x >= 0, as an integer.
   x < 1 -> 0.  Otherwise frshiftexp x = (m, se) with x = m * 2^(se - 2101), m in [0.5,1), and
   normfr_mantissa m = m * 2^53 (a 53-bit integer), so
     floor x = (m * 2^53) >> (53 - (se - 2101)) = mant >> (2154 - se)        for x < 2^53
   and mant << (se - 2154) for larger x (exact below 2^63).  The shift is done on the primitive
   integer, one conversion to Z at the end. *)
Definition float_floor (x : float) : Z :=
  if PrimFloat.ltb x PrimFloat.one then 0
  else let '(m, se) := PrimFloat.frshiftexp x in
       let mant := PrimFloat.normfr_mantissa m in
       Uint63.to_Z (if Uint63.leb se 2154%uint63
                    then Uint63.lsr mant (Uint63.sub 2154%uint63 se)
                    else Uint63.lsl mant (Uint63.sub se 2154%uint63)).

(* the float64 value y[k] before the end-point overwrite and the floor;
   delta = float(pop), nf = float(n), step = delta / nf are computed once per call, as numpy does *)
Definition linspace_y (delta nf step : float) (n k : Z) : float :=
  let yk := f_of_Z k in
  let y :=
    if 0 <? n then
      if PrimFloat.eqb step PrimFloat.zero
      then PrimFloat.mul (PrimFloat.div yk nf) delta
      else PrimFloat.mul yk step
    else PrimFloat.mul yk delta in
  PrimFloat.add y PrimFloat.zero.

(* numpy.linspace(0, pop, n+1, dtype=int64) for 0 <= pop, 0 <= n < 2^62 *)
Definition linspace_int (pop n : Z) : list Z :=
  let delta := f_of_Z pop in
  let nf := f_of_Z n in
  let step := PrimFloat.div delta nf in
  map (fun k => if (0 <? n) && (k =? n) then pop
                else float_floor (linspace_y delta nf step n k))
      (Zseq 0 (Z.to_nat n + 1)).

(* ------------------------------------------------------------------ boolean envelope test *)
(* l = [x_k; x_(k+1); ...] is tested against the envelope at indices k, k+1, ...
   With pop = n*a + b (0 <= b < n) the quotient and remainder of k*pop by n are carried along
   incrementally: k*pop = n*q + r, 0 <= r < n  (proved in SplitProofs.env_fast_spec). *)
Fixpoint env_fast (a b n q r : Z) (l : list Z) : bool :=
  match l with
  | [] => true
  | x :: t =>
      ((x =? q) || ((r =? 0) && negb (b =? 0) && (x =? q - 1)))
      && (let r1 := r + b in
          if r1 <? n then env_fast a b n (q + a) r1 t
          else env_fast a b n (q + a + 1) (r1 - n) t)
  end.

Definition envelope_b (pop n : Z) (l : list Z) : bool :=
  (Z.of_nat (length l) =? n + 1) && (nth 0 l 0 =? 0) && (nth (Z.to_nat n) l 0 =? pop)
  && (let '(a, b) := Z.div_eucl pop n in env_fast a b n 0 0 l).

(* all (pop, n) with 1 <= n <= pop <= B *)
Definition sweep_b (B : nat) : bool :=
  forallb (fun pop => forallb (fun n => envelope_b pop n (linspace_int pop n))
                              (Zseq 1 (Z.to_nat pop)))
          (Zseq 1 B).
