(* TreeProofs2.v — levels / max_level refine the recursive depth; the parser inverts flatten
   (so well-formedness of a prefix list is decidable and flatten is injective). *)
From Coq Require Import List Arith Bool Lia.
Import ListNotations.
From TF Require Import Tree TreeIdx TreeProofs.

Section Proofs2.
  Context {sym : Type}.
  Variable arity : sym -> nat.
  Notation tree := (tree sym).
  Notation nargs := (nargs arity).
  Notation wft := (wft arity).
  Notation wff := (wff arity).

  (* ---------------------------------------------------------------- the two-stack walk *)
  Definition norm (c lv : nat) (st : list (nat * nat)) : list (nat * nat) :=
    match c with 0 => st | _ => (c, lv) :: st end.

  Lemma levels_loop_cons c lv st n l :
    levels_loop ((S c, lv) :: st) (n :: l)
    = lv :: levels_loop (if 0 <? n then (n, S lv) :: norm c lv st else norm c lv st) l.
  Proof. destruct c; reflexivity. Qed.

  Lemma levels_loop_wf : forall t : tree, wft t = true -> forall c lv st rest,
    levels_loop ((S c, lv) :: st) (nargs (flatten t) ++ rest)
    = levels_rec lv t ++ levels_loop (norm c lv st) rest.
  Proof.
    apply (tree_ind2
      (fun t => wft t = true -> forall c lv st rest,
         levels_loop ((S c, lv) :: st) (nargs (flatten t) ++ rest)
         = levels_rec lv t ++ levels_loop (norm c lv st) rest)
      (fun ts => wff ts = true -> forall c lv st rest,
         levels_loop (norm (length ts + c) lv st) (nargs (flats ts) ++ rest)
         = flat_map (levels_rec lv) ts ++ levels_loop (norm c lv st) rest)).
    - intros s kids IH Hwf c lv st rest. apply wft_Node in Hwf. destruct Hwf as [L W].
      rewrite flatten_Node. change (nargs (s :: flats kids)) with (arity s :: nargs (flats kids)).
      simpl app. rewrite levels_loop_cons. simpl levels_rec. simpl app. f_equal.
      rewrite <- L. destruct kids as [|k r].
      + reflexivity.
      + specialize (IH W 0 (S lv) (norm c lv st) rest).
        rewrite Nat.add_0_r in IH. exact IH.
    - intros _ c lv st rest. reflexivity.
    - intros t ts IHt IHts Hwf c lv st rest. apply wff_cons in Hwf. destruct Hwf as [Wt Wts].
      simpl length. change (norm (S (length ts) + c) lv st) with ((S (length ts + c), lv) :: st).
      rewrite flats_cons, nargs_app, <- app_assoc, (IHt Wt), (IHts Wts).
      simpl flat_map. rewrite app_assoc. reflexivity.
  Qed.

  (* get_levels(i) at the root of an encoded sub-term = the recursive levels of that sub-term *)
  Theorem levels_flat : forall (t : tree) pre rest, wft t = true ->
    levels (nargs (pre ++ flatten t ++ rest)) (length pre) = levels_rec 0 t.
  Proof.
    intros t pre rest Hwf. unfold levels.
    rewrite nargs_app, <- (nargs_length arity pre), skipn_app_len, nargs_app.
    rewrite (levels_loop_wf t Hwf 0 0 [] (nargs rest)). simpl norm.
    destruct (nargs rest); simpl; apply app_nil_r.
  Qed.

  Theorem levels_sub_at : forall (t u : tree) i, wft t = true -> sub_at t i = Some u ->
    levels (nargs (flatten t)) i = levels_rec 0 u.
  Proof.
    intros t u i Hwf Hs. destruct (sub_at_decomp t i u Hs) as (pre & post & E & L & _).
    rewrite E, <- L. apply levels_flat. eapply sub_at_wf; eauto.
  Qed.

  Lemma list_max_levels_rec : forall (t : tree) lv, list_max (levels_rec lv t) = lv + depth t.
  Proof.
    apply (tree_ind2
      (fun t => forall lv, list_max (levels_rec lv t) = lv + depth t)
      (fun ts => forall lv, Nat.max lv (list_max (flat_map (levels_rec (S lv)) ts))
                            = lv + fold_right (fun k m => Nat.max (S (depth k)) m) 0 ts)).
    - intros s kids IH lv. simpl levels_rec. simpl depth.
      change (list_max (lv :: flat_map (levels_rec (S lv)) kids))
        with (Nat.max lv (list_max (flat_map (levels_rec (S lv)) kids))).
      apply IH.
    - intros lv. simpl. lia.
    - intros t ts IHt IHts lv. simpl flat_map. rewrite list_max_app, IHt. cbn [fold_right].
      specialize (IHts lv). lia.
  Qed.

  (* get_max_level = depth (a single node has depth 0) *)
  Theorem max_level_flat : forall (t : tree), wft t = true ->
    max_level (nargs (flatten t)) = depth t.
  Proof.
    intros t Hwf. unfold max_level.
    pose proof (levels_flat t [] [] Hwf) as H. simpl in H. rewrite app_nil_r in H.
    rewrite H. apply list_max_levels_rec.
  Qed.

  (* the level of position i *)
  Lemma level_at_Node s (kids : list tree) j :
    level_at (Node s kids) (S j) =
    (fix go (l : list tree) (j : nat) : nat :=
       match l with
       | [] => 0
       | k :: r => if j <? size k then S (level_at k j) else go r (j - size k)
       end) kids j.
  Proof. reflexivity. Qed.

  Lemma levels_rec_length : forall (t : tree) lv, length (levels_rec lv t) = size t.
  Proof.
    apply (tree_ind2
      (fun t => forall lv, length (levels_rec lv t) = size t)
      (fun ts => forall lv, length (flat_map (levels_rec lv) ts) = sizes ts)).
    - intros s kids IH lv. simpl. rewrite IH. reflexivity.
    - reflexivity.
    - intros t ts IHt IHts lv. simpl flat_map. rewrite app_length, IHt, IHts. reflexivity.
  Qed.

  Theorem levels_rec_nth : forall (t : tree) lv i, i < size t ->
    nth i (levels_rec lv t) 0 = lv + level_at t i.
  Proof.
    apply (tree_ind2
      (fun t => forall lv i, i < size t -> nth i (levels_rec lv t) 0 = lv + level_at t i)
      (fun ts => forall lv j, j < sizes ts ->
         nth j (flat_map (levels_rec (S lv)) ts) 0 =
         lv + (fix go (l : list tree) (j : nat) : nat :=
                 match l with
                 | [] => 0
                 | k :: r => if j <? size k then S (level_at k j) else go r (j - size k)
                 end) ts j)).
    - intros s kids IH lv [|j] H.
      + simpl. lia.
      + rewrite level_at_Node. simpl levels_rec. simpl nth. apply IH.
        rewrite size_Node in H. lia.
    - intros lv j H. unfold sizes in H; simpl in H. lia.
    - intros t ts IHt IHts lv j H. rewrite sizes_cons in H. simpl flat_map.
      destruct (j <? size t) eqn:C.
      + apply Nat.ltb_lt in C. rewrite app_nth1 by (rewrite levels_rec_length; lia).
        rewrite IHt by lia. lia.
      + apply Nat.ltb_ge in C. rewrite app_nth2 by (rewrite levels_rec_length; lia).
        rewrite levels_rec_length. apply IHts. lia.
  Qed.

  (* ---------------------------------------------------------------- parser *)
  Lemma parse_n_flat : forall t : tree, wft t = true -> forall fuel ts rest,
    size t + sizes ts <= fuel ->
    (forall fuel' rest', sizes ts <= fuel' ->
       parse_n arity fuel' (length ts) (flats ts ++ rest') = Some (ts, rest')) ->
    parse_n arity fuel (S (length ts)) (flatten t ++ flats ts ++ rest) = Some (t :: ts, rest).
  Proof.
    apply (tree_ind2
      (fun t => wft t = true -> forall fuel ts rest,
         size t + sizes ts <= fuel ->
         (forall fuel' rest', sizes ts <= fuel' ->
            parse_n arity fuel' (length ts) (flats ts ++ rest') = Some (ts, rest')) ->
         parse_n arity fuel (S (length ts)) (flatten t ++ flats ts ++ rest) = Some (t :: ts, rest))
      (fun ts => wff ts = true -> forall fuel rest, sizes ts <= fuel ->
         parse_n arity fuel (length ts) (flats ts ++ rest) = Some (ts, rest))).
    - intros s kids IH Hwf fuel ts rest Hf Hts. apply wft_Node in Hwf. destruct Hwf as [L W].
      rewrite size_Node in Hf. destruct fuel as [|f]; [lia|].
      rewrite flatten_Node. simpl. rewrite <- L, (IH W) by lia.
      rewrite Hts by lia. reflexivity.
    - intros _ fuel rest _. destruct fuel; reflexivity.
    - intros t ts IHt IHts Hwf fuel rest Hf. apply wff_cons in Hwf. destruct Hwf as [Wt Wts].
      rewrite sizes_cons in Hf. rewrite flats_cons, <- app_assoc. simpl length.
      apply IHt; auto.
  Qed.

  Theorem parse_flatten : forall t : tree, wft t = true -> parse arity (flatten t) = Some t.
  Proof.
    intros t Hwf. unfold parse. rewrite flatten_length.
    assert (H : parse_n arity (S (size t)) 1 (flatten t) = Some ([t], [])).
    { pose proof (parse_n_flat t Hwf (S (size t)) [] []) as H.
      cbn [flats flat_map length app] in H. rewrite app_nil_r in H. apply H.
      - unfold sizes; simpl; lia.
      - intros fuel' rest' _. destruct fuel'; reflexivity. }
    rewrite H. reflexivity.
  Qed.

  Lemma parse_n_sound : forall fuel n p ts rest,
    parse_n arity fuel n p = Some (ts, rest) ->
    p = flats ts ++ rest /\ wff ts = true /\ length ts = n.
  Proof.
    induction fuel as [|f IH]; intros n p ts rest H.
    - destruct n; simpl in H; [|discriminate]. inversion H; subst. auto.
    - destruct n; simpl in H.
      + inversion H; subst. auto.
      + destruct p as [|s p']; [discriminate|].
        destruct (parse_n arity f (arity s) p') as [[kids p'']|] eqn:E1; [|discriminate].
        destruct (parse_n arity f n p'') as [[ts' rest']|] eqn:E2; [|discriminate].
        inversion H; subst. apply IH in E1. apply IH in E2.
        destruct E1 as (-> & W1 & L1). destruct E2 as (-> & W2 & L2).
        split; [rewrite flats_cons, flatten_Node, <- app_assoc; reflexivity|].
        split; [|simpl; congruence].
        apply wff_cons. split; auto. apply wft_Node. auto.
  Qed.

  Theorem parse_sound : forall p t, parse arity p = Some t -> wft t = true /\ flatten t = p.
  Proof.
    intros p t. unfold parse.
    destruct (parse_n arity (S (length p)) 1 p) as [[ts rest]|] eqn:E; [|discriminate].
    destruct ts as [|t' [|? ?]]; try discriminate. destruct rest; try discriminate.
    intro H; inversion H; subst. apply parse_n_sound in E. destruct E as (-> & W & _).
    apply wff_cons in W. destruct W as [W _]. split; auto.
    rewrite flats_cons. simpl. rewrite !app_nil_r. reflexivity.
  Qed.

  (* well-formedness of a prefix list is decided by the parser *)
  Theorem wf_iff_parse : forall p, wf arity p <-> exists t, parse arity p = Some t.
  Proof.
    intros p; split.
    - intros (t & W & <-). exists t. apply parse_flatten; auto.
    - intros (t & H). exists t. apply parse_sound; auto.
  Qed.

  (* flatten is injective on well-formed trees: the prefix list determines the tree *)
  Theorem flatten_inj : forall t1 t2 : tree, wft t1 = true -> wft t2 = true ->
    flatten t1 = flatten t2 -> t1 = t2.
  Proof.
    intros t1 t2 W1 W2 E. apply parse_flatten in W1. apply parse_flatten in W2.
    rewrite E in W1. congruence.
  Qed.
End Proofs2.
