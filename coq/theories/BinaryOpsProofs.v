(* BinaryOpsProofs.v — theorems about the binary-GA operators (C06). *)
From TF Require Import Base RandomPrims RandomPrimsProofs RandomPrimsProofs2 BinaryOps.
Open Scope Q_scope.

Lemma build_length n f : length (build n f) = n.
Proof. unfold build. now rewrite map_length, seq_length. Qed.
Lemma build_nth n f i : (i < n)%nat -> nth i (build n f) 0%Z = f i.
Proof.
  intros H. unfold build. rewrite (nth_map_default f (seq 0 n) i O 0%Z) by (rewrite seq_length; auto).
  now rewrite seq_nth.
Qed.

Ltac minv H :=
  unfold bind, ret in H;
  repeat match type of H with
  | match ?m with Some _ => _ | None => _ end = Some _ =>
      let E := fresh "E" in destruct m as [[? ?]|] eqn:E; [|discriminate]
  end;
  match type of H with
  | Some _ = Some _ => inversion H; subst; clear H
  | _ => idtac
  end.

(* every locus of the child is that locus of one of the supplied parents *)
Definition from_parents (ps : list row) (child : row) : Prop :=
  length child = width ps /\
  forall i, (i < width ps)%nat -> exists p, (p < length ps)%nat /\ nth i child 0%Z = gene ps p i.

Lemma from_parents_binary ps child :
  (forall p, (p < length ps)%nat -> binary (nth p ps []) /\ length (nth p ps []) = width ps) ->
  from_parents ps child -> binary child.
Proof.
  intros Hps (Hl & Hg). apply Forall_forall. intros g Hin.
  destruct (In_nth _ _ 0%Z Hin) as (i & Hi & <-). rewrite Hl in Hi.
  destruct (Hg i Hi) as (p & Hp & ->). destruct (Hps p Hp) as (Hb & Hlen).
  unfold gene. unfold binary in Hb. rewrite Forall_forall in Hb. apply Hb. apply nth_In. lia.
Qed.

(* ---------------- empty *)
Theorem empty_clone ps ds c ds' : empty_crossover ps ds = Some (c, ds') -> c = nth 0 ps [] /\ ds' = ds.
Proof. unfold empty_crossover, ret. intros H; inversion H; auto. Qed.

(* ---------------- one point *)
Lemma flip_coin_inv t ds b ds' : flip_coin t ds = Some (b, ds') ->
  exists u, ds = DU u :: ds' /\ b = Qltb u t.
Proof.
  unfold flip_coin, bind, popU, ret. destruct ds as [|[u|? ?|?] r]; try discriminate.
  intros H; inversion H; subst. eauto.
Qed.

Lemma popI_inv n ds v ds' : popI n ds = Some (v, ds') -> ds = DI n v :: ds'.
Proof.
  unfold popI. destruct ds as [|[u|m x|?] r]; try discriminate.
  destruct (m =? n)%Z eqn:E; [|discriminate]. apply Z.eqb_eq in E. intros H; inversion H; subst; auto.
Qed.

Theorem one_point_sound ps ds child ds' :
  valid_draws ds -> one_point_crossover ps ds = Some (child, ds') ->
  exists c coin, (0 <= c < Z.of_nat (width ps))%Z /\ child = one_point_child ps c coin.
Proof.
  intros Hv H. unfold one_point_crossover in H. minv H.
  apply popI_inv in E. subst ds. inversion Hv as [|? ? Hd _]; subst. cbn in Hd. eauto.
Qed.

Lemma one_point_child_from_parents ps c coin : (2 <= length ps)%nat -> from_parents ps (one_point_child ps c coin).
Proof.
  intros H2. unfold one_point_child. split; [apply build_length|].
  intros i Hi. rewrite build_nth by auto.
  destruct (c <? Z.of_nat i)%Z; destruct coin; eexists; (split; [|reflexivity]); lia.
Qed.

(* structure: the first c+1 loci come from one parent, the rest from the other *)
Lemma one_point_child_structure ps c coin i : (i < width ps)%nat ->
  nth i (one_point_child ps c coin) 0%Z =
  if (Z.of_nat i <=? c)%Z then gene ps (if coin then 0 else 1)%nat i else gene ps (if coin then 1 else 0)%nat i.
Proof.
  intros Hi. unfold one_point_child. rewrite build_nth by auto.
  destruct (c <? Z.of_nat i)%Z eqn:E1; destruct (Z.of_nat i <=? c)%Z eqn:E2; try reflexivity;
    (apply Z.ltb_lt in E1 || apply Z.ltb_ge in E1); (apply Z.leb_le in E2 || apply Z.leb_gt in E2); lia.
Qed.

(* completeness: every cut point and either order is produced by some valid draws *)
Theorem one_point_complete ps c coin : (0 <= c < Z.of_nat (width ps))%Z ->
  exists ds, valid_draws ds /\ one_point_crossover ps ds = Some (one_point_child ps c coin, []).
Proof.
  intros Hc. exists [DI (Z.of_nat (width ps)) c; DU (if coin then 0 else 1 # 2)].
  split.
  - constructor; [cbn; lia|]. constructor; [|constructor]. destruct coin; cbn; lra.
  - unfold one_point_crossover, bind, popI, flip_coin, bind, popU, ret. rewrite Z.eqb_refl.
    destruct coin; reflexivity.
Qed.

(* ---------------- two point *)
Theorem two_point_sound ps ds child ds' :
  valid_draws ds -> two_point_crossover ps ds = Some (child, ds') ->
  exists c0 c1 coin, (0 <= c0 < c1)%Z /\ (c1 < Z.of_nat (width ps))%Z /\ child = two_point_child ps c0 c1 coin.
Proof.
  intros Hv H. unfold two_point_crossover in H. minv H.
  destruct (random_sample_spec _ _ _ _ _ _ Hv E) as (Hl & Hr & Hnd).
  specialize (Hnd eq_refl).
  destruct l as [|x [|y [|? ?]]]; simpl in Hl; try lia.
  inversion Hr as [|? ? Hx Hr']; subst. inversion Hr' as [|? ? Hy _]; subst.
  inversion Hnd as [|? ? Hnin _]; subst. assert (x <> y) by (intro; subst; apply Hnin; left; auto).
  cbn [nth]. exists (Z.min x y), (Z.max x y), b. repeat split; lia.
Qed.

Lemma two_point_child_from_parents ps c0 c1 coin : (2 <= length ps)%nat -> from_parents ps (two_point_child ps c0 c1 coin).
Proof.
  intros H2. unfold two_point_child. split; [apply build_length|].
  intros i Hi. rewrite build_nth by auto.
  destruct ((c0 <=? Z.of_nat i) && (Z.of_nat i <=? c1))%Z; destruct coin; eexists; (split; [|reflexivity]); lia.
Qed.

Theorem two_point_complete ps c0 c1 coin : (0 <= c0 < c1)%Z -> (c1 < Z.of_nat (width ps))%Z ->
  exists ds, valid_draws ds /\ two_point_crossover ps ds = Some (two_point_child ps c0 c1 coin, []).
Proof.
  intros Hc Hw.
  exists [DI (Z.of_nat (width ps)) c0; DI (Z.of_nat (width ps)) c1; DU (if coin then 0 else 1 # 2)].
  split.
  - constructor; [cbn; lia|]. constructor; [cbn; lia|]. constructor; [|constructor]. destruct coin; cbn; lra.
  - assert (Hne : (c1 =? c0)%Z = false) by (apply Z.eqb_neq; lia).
    unfold two_point_crossover, bind, random_sample.
    cbn [random_sample_loop length Nat.leb app negb andb memZ existsb orb].
    rewrite !Z.eqb_refl.
    cbn [random_sample_loop length Nat.leb app negb andb memZ existsb orb].
    rewrite Hne.
    cbn [random_sample_loop length Nat.leb app negb andb memZ existsb orb].
    unfold flip_coin, bind, popU, ret. cbn [nth].
    rewrite Z.min_l, Z.max_r by lia. destruct coin; reflexivity.
Qed.

(* ---------------- uniform family *)
Lemma from_choice_from_parents ps ch :
  (forall i, (i < width ps)%nat -> (0 <= nth i ch 0 < Z.of_nat (length ps))%Z) ->
  from_parents ps (from_choice ps ch).
Proof.
  intros Hch. unfold from_choice. split; [apply build_length|].
  intros i Hi. rewrite build_nth by auto. eexists; split; [|reflexivity]. specialize (Hch i Hi). lia.
Qed.

Lemma Forall_nth_range (l : list Z) k : Forall (fun v => (0 <= v < k)%Z) l ->
  forall i, (i < length l)%nat -> (0 <= nth i l 0 < k)%Z.
Proof. intros H i Hi. rewrite Forall_forall in H. apply H. apply nth_In; auto. Qed.

Theorem uniform_from_parents ps fitness rank ds child ds' :
  valid_draws ds -> length fitness = length ps ->
  uniform_crossover ps fitness rank ds = Some (child, ds') ->
  from_parents ps child /\ exists ch, length ch = width ps /\ child = from_choice ps ch.
Proof.
  intros Hv Hk H. unfold uniform_crossover in H. minv H.
  destruct (random_sample_spec _ _ _ _ _ _ Hv E) as (Hl & Hr & _).
  split; [|eauto]. apply from_choice_from_parents. intros i Hi. rewrite <- Hk.
  apply Forall_nth_range; auto. lia.
Qed.

(* completeness: every locus-wise choice vector over the k parents is reachable *)
Lemma random_sample_replace_complete n : forall ch acc, Forall (fun v => (0 <= v < n)%Z) ch ->
  random_sample_loop n (length acc + length ch) true acc (map (DI n) ch) = Some (acc ++ ch, []).
Proof.
  induction ch as [|c ch IH]; intros acc Hr; cbn [map random_sample_loop length].
  - rewrite Nat.add_0_r, Nat.leb_refl, app_nil_r. reflexivity.
  - assert ((length acc + S (length ch) <=? length acc)%nat = false) as -> by (apply Nat.leb_gt; lia).
    rewrite Z.eqb_refl. cbn [negb andb]. inversion Hr; subst.
    specialize (IH (acc ++ [c]) H2). rewrite app_length in IH. cbn [length] in IH.
    replace (length acc + 1 + length ch)%nat with (length acc + S (length ch))%nat in IH by lia.
    rewrite IH, <- app_assoc. reflexivity.
Qed.

Theorem uniform_complete ps fitness rank ch :
  length ch = width ps -> Forall (fun v => (0 <= v < Z.of_nat (length fitness))%Z) ch ->
  exists ds, valid_draws ds /\ uniform_crossover ps fitness rank ds = Some (from_choice ps ch, []).
Proof.
  intros Hl Hr. exists (map (DI (Z.of_nat (length fitness))) ch). split.
  - unfold valid_draws. rewrite Forall_map. eapply Forall_impl; [|exact Hr]. intros a Ha; cbn in *; lia.
  - unfold uniform_crossover, bind, random_sample.
    pose proof (random_sample_replace_complete (Z.of_nat (length fitness)) ch [] Hr) as H.
    cbn [length Nat.add app] in H. rewrite Hl in H. rewrite H. reflexivity.
Qed.

Theorem uniform_weighted_from_parents ps w ds ch ds' :
  w <> [] -> length w = length ps ->
  random_weighted_sample w (width ps) true ds = Some (ch, ds') ->
  from_parents ps (from_choice ps ch).
Proof.
  intros Hne Hk H. destruct (weighted_selection_count_range _ _ _ _ _ Hne H) as (Hl & Hr).
  apply from_choice_from_parents. intros i Hi. rewrite <- Hk. apply Forall_nth_range; auto. lia.
Qed.

(* tournament variant: per locus two contestants, the donor is a fitter one of the two *)
Lemma pair_winners_spec fitness : forall t k, length t = (2 * k)%nat ->
  length (pair_winners fitness t) = k /\
  forall i, (i < k)%nat ->
    let a := nth (2 * i) t 0%Z in let b := nth (2 * i + 1) t 0%Z in
    let w := nth i (pair_winners fitness t) 0%Z in
    (w = a \/ w = b) /\
    nth (Z.to_nat a) fitness 0 <= nth (Z.to_nat w) fitness 0 /\
    nth (Z.to_nat b) fitness 0 <= nth (Z.to_nat w) fitness 0.
Proof.
  intros t k. revert t. induction k as [|k IH]; intros t Hl.
  - destruct t; simpl in Hl; [|lia]. split; [reflexivity|]. intros i Hi; lia.
  - destruct t as [|a [|b r]]; simpl in Hl; try lia.
    destruct (IH r ltac:(lia)) as (H1 & H2). cbn [pair_winners]. split; [simpl; lia|].
    intros [|i] Hi.
    + cbn. destruct (Qltb (nth (Z.to_nat a) fitness 0) (nth (Z.to_nat b) fitness 0)) eqn:E.
      * apply Qltb_lt in E. split; [auto|]. split; lra.
      * assert (nth (Z.to_nat b) fitness 0 <= nth (Z.to_nat a) fitness 0).
        { destruct (Qlt_le_dec (nth (Z.to_nat a) fitness 0) (nth (Z.to_nat b) fitness 0)) as [Hc|Hc]; auto.
          apply Qltb_lt in Hc. congruence. }
        split; [auto|]. split; lra.
    + specialize (H2 i ltac:(lia)). cbv zeta in *.
      replace (2 * S i)%nat with (S (S (2 * i))) by lia.
      replace (S (S (2 * i)) + 1)%nat with (S (S (2 * i + 1))) by lia. cbn [nth]. exact H2.
Qed.

Theorem uniform_tour_sound ps fitness rank ds child ds' :
  valid_draws ds -> uniform_tournament_crossover ps fitness rank ds = Some (child, ds') ->
  from_parents ps child /\
  exists t, length t = (2 * width ps)%nat /\ Forall (fun v => (0 <= v < Z.of_nat (length ps))%Z) t /\
    forall i, (i < width ps)%nat ->
      let a := nth (2 * i) t 0%Z in let b := nth (2 * i + 1) t 0%Z in
      exists w, (w = a \/ w = b) /\ nth i child 0%Z = gene ps (Z.to_nat w) i /\
        nth (Z.to_nat a) fitness 0 <= nth (Z.to_nat w) fitness 0 /\
        nth (Z.to_nat b) fitness 0 <= nth (Z.to_nat w) fitness 0.
Proof.
  intros Hv H. unfold uniform_tournament_crossover in H. minv H.
  destruct (random_sample_spec _ _ _ _ _ _ Hv E) as (Hl & Hr & _).
  destruct (pair_winners_spec fitness l (width ps) Hl) as (Hw1 & Hw2).
  assert (Hrange : forall i, (i < width ps)%nat -> (0 <= nth i (pair_winners fitness l) 0 < Z.of_nat (length ps))%Z).
  { intros i Hi. destruct (Hw2 i Hi) as ([Hw|Hw] & _); rewrite Hw; apply Forall_nth_range; auto; lia. }
  split; [apply from_choice_from_parents; auto|].
  exists l. split; [auto|]. split; [auto|]. intros i Hi. cbv zeta.
  destruct (Hw2 i Hi) as (Ha & Hb & Hc). eexists. split; [exact Ha|]. split; [|split; auto].
  unfold from_choice. rewrite build_nth by auto. reflexivity.
Qed.

(* every parent can donate: with both contestants of a locus equal to p the donor is p *)
Theorem uniform_tour_every_parent_can_donate ps fitness rank p :
  (p < length ps)%nat ->
  exists ds, valid_draws ds /\
    uniform_tournament_crossover ps fitness rank ds =
      Some (build (width ps) (fun i => gene ps p i), []).
Proof.
  intros Hp. set (n := Z.of_nat (length ps)). set (ch := repeat (Z.of_nat p) (2 * width ps)).
  assert (Hr : Forall (fun v => (0 <= v < n)%Z) ch).
  { unfold ch. apply Forall_forall. intros x Hx. apply repeat_spec in Hx. subst. unfold n. lia. }
  exists (map (DI n) ch). split.
  - unfold valid_draws. rewrite Forall_map. eapply Forall_impl; [|exact Hr]. intros a Ha; cbn in *; lia.
  - unfold uniform_tournament_crossover, bind, random_sample.
    pose proof (random_sample_replace_complete n ch [] Hr) as H. cbn [length Nat.add app] in H.
    unfold ch in H at 1. rewrite repeat_length in H. fold n. rewrite H. unfold ret. f_equal. f_equal.
    unfold from_choice, build. apply map_ext_in. intros i Hi. apply in_seq in Hi.
    assert (Hpw : forall k, pair_winners fitness (repeat (Z.of_nat p) (2 * k)) = repeat (Z.of_nat p) k).
    { induction k as [|k IHk]; [reflexivity|].
      replace (2 * S k)%nat with (S (S (2 * k))) by lia. cbn [repeat pair_winners]. rewrite IHk.
      destruct (Qltb _ _); reflexivity. }
    unfold ch. rewrite Hpw. rewrite nth_repeat_lt || idtac.
    assert (Hn : nth i (repeat (Z.of_nat p) (width ps)) 0%Z = Z.of_nat p).
    { clear - Hi. destruct Hi as (_ & Hi). cbn in Hi. revert i Hi. induction (width ps) as [|w IHw]; intros i Hi; [lia|].
      destruct i; cbn; auto. apply IHw. lia. }
    rewrite Hn, Nat2Z.id. reflexivity.
Qed.

(* the code before the repair: only parents 0 and 1 could ever donate *)
Theorem uniform_tour_old_refuted :
  exists ps fitness rank, (3 <= length ps)%nat /\
    forall ds child ds', uniform_tournament_crossover_old ps fitness rank ds = Some (child, ds') ->
      nth 0 child 0%Z <> gene ps 2 0.
Proof.
  exists [[0]; [0]; [1]]%Z, [1; 1; 5], [1; 1; 1]. split; [simpl; lia|].
  intros ds child ds' H. unfold uniform_tournament_crossover_old in H. minv H.
  unfold from_choice, width, build, gene. cbn [nth length seq map].
  assert (Hp : forall t, nth 0 (pair_positions [1; 1; 5] t) 0%Z = 0%Z \/ nth 0 (pair_positions [1; 1; 5] t) 0%Z = 1%Z).
  { intros [|a [|b r]]; cbn; auto. destruct (Qltb _ _); auto. }
  destruct (Hp l) as [-> | ->]; cbn; discriminate.
Qed.

(* ---------------- binomial *)
Lemma coins_inv p : forall n ds cs ds', coins p n ds = Some (cs, ds') -> length cs = n.
Proof.
  induction n as [|n IH]; intros ds cs ds' H; cbn [coins] in H.
  - unfold ret in H. inversion H; auto.
  - minv H. simpl. f_equal. eapply IH; eauto.
Qed.

Theorem binomial_at_least_one individ mutant CR ds child ds' :
  valid_draws ds -> (0 < length individ)%nat ->
  binomialGA individ mutant CR ds = Some (child, ds') ->
  length child = length individ /\
  exists j, (j < length individ)%nat /\ nth j child 0%Z = nth j mutant 0%Z /\
    forall i, (i < length individ)%nat -> nth i child 0%Z = nth i mutant 0%Z \/ nth i child 0%Z = nth i individ 0%Z.
Proof.
  intros Hv Hn H. unfold binomialGA in H. minv H.
  destruct (randint_range 0 (Z.of_nat (length individ)) ltac:(lia) 1 _ _ _ Hv E) as (Hl & Hr).
  destruct l as [|j [|? ?]]; simpl in Hl; try lia. inversion Hr as [|? ? Hj _]; subst. cbn [nth].
  unfold binomial_child. split; [apply build_length|].
  exists (Z.to_nat j). split; [lia|]. split.
  - rewrite build_nth by lia. rewrite Z2Nat.id by lia. rewrite Z.eqb_refl, orb_true_r. reflexivity.
  - intros i Hi. rewrite build_nth by auto. destruct (_ || _); auto.
Qed.

Lemma coins_all p b : (forall u, 0 <= u -> u < 1 -> Qltb u p = b) ->
  forall n ds cs ds', valid_draws ds -> coins p n ds = Some (cs, ds') -> cs = repeat b n /\ valid_draws ds'.
Proof.
  intros Hp. induction n as [|n IH]; intros ds cs ds' Hv H; cbn [coins] in H.
  - unfold ret in H. inversion H; subst. auto.
  - minv H. apply flip_coin_inv in E. destruct E as (u & -> & ->).
    inversion Hv as [|? ? Hd Hv1]; subst. cbn in Hd.
    destruct (IH _ _ _ Hv1 E0) as (-> & Hv2). split; auto. cbn [repeat]. f_equal. apply Hp; tauto.
Qed.

(* ---------------- flip mutation *)
Theorem flip_sound x p ds child ds' : flip_mutation x p ds = Some (child, ds') ->
  exists cs, length cs = length x /\ child = flip_child x cs.
Proof. intros H. unfold flip_mutation in H. minv H. exists l. split; auto. eapply coins_inv; eauto. Qed.

Lemma nth_repeat_lt' {A} (a d : A) n i : (i < n)%nat -> nth i (repeat a n) d = a.
Proof. revert i; induction n as [|n IH]; intros [|i] H; cbn; try lia; auto. apply IH; lia. Qed.

Theorem flip_never_at_0 x p ds child ds' : valid_draws ds -> p <= 0 ->
  flip_mutation x p ds = Some (child, ds') -> child = build (length x) (fun i => nth i x 0%Z).
Proof.
  intros Hv Hp H. unfold flip_mutation in H. minv H.
  destruct (coins_all p false) with (n := length x) (ds := ds) (cs := l) (ds' := ds') as (-> & _); auto.
  { intros u Hu0 Hu1. destruct (Qltb u p) eqn:Eq; auto. apply Qltb_lt in Eq. lra. }
  unfold flip_child, build. apply map_ext_in. intros i Hi. apply in_seq in Hi.
  rewrite nth_repeat_lt' by lia. reflexivity.
Qed.

Theorem flip_always_at_1 x p ds child ds' : valid_draws ds -> 1 <= p ->
  flip_mutation x p ds = Some (child, ds') -> child = build (length x) (fun i => (1 - nth i x 0)%Z).
Proof.
  intros Hv Hp H. unfold flip_mutation in H. minv H.
  destruct (coins_all p true) with (n := length x) (ds := ds) (cs := l) (ds' := ds') as (-> & _); auto.
  { intros u Hu0 Hu1. apply Qltb_lt. lra. }
  unfold flip_child, build. apply map_ext_in. intros i Hi. apply in_seq in Hi.
  rewrite nth_repeat_lt' by lia. reflexivity.
Qed.

Theorem flip_binary x cs : binary x -> binary (flip_child x cs) /\ length (flip_child x cs) = length x.
Proof.
  intros Hb. split; [|apply build_length]. apply Forall_forall. intros g Hin.
  destruct (In_nth _ _ 0%Z Hin) as (i & Hi & <-). unfold flip_child in *. rewrite build_length in Hi.
  rewrite build_nth by auto. unfold binary in Hb. rewrite Forall_forall in Hb.
  assert (Hx : nth i x 0%Z = 0%Z \/ nth i x 0%Z = 1%Z) by (apply Hb, nth_In; auto).
  destruct (nth i cs false); destruct Hx as [-> | ->]; auto.
Qed.

(* independence per locus: bit i is flipped exactly when the i-th coin (u_i < p) says so *)
Theorem flip_per_locus x cs i : (i < length x)%nat ->
  nth i (flip_child x cs) 0%Z = if nth i cs false then (1 - nth i x 0)%Z else nth i x 0%Z.
Proof. intros Hi. unfold flip_child. now rewrite build_nth. Qed.

(* ---------------- rate presets: weak/average/strong = k / str_len *)
Theorem rate_preset proba len : mutation_rate proba false len = proba / inject_Z (Z.of_nat len) /\
  mutation_rate proba true len = proba.
Proof. split; reflexivity. Qed.

(* ---------------- one generation step keeps the population binary with the right shape *)
Definition pop_ok (n : nat) (pop : list row) : Prop :=
  Forall (fun x => binary x /\ length x = n) pop.

Lemma gather_ok n pop sel : pop_ok n pop ->
  Forall (fun v => (0 <= v < Z.of_nat (length pop))%Z) sel ->
  pop_ok n (gather [] pop sel).
Proof.
  intros Hp Hs. unfold pop_ok, gather in *. rewrite Forall_map. eapply Forall_impl; [|exact Hs].
  intros v Hv. cbn beta in *. rewrite Forall_forall in Hp. apply Hp. apply nth_In. unfold row in *. lia.
Qed.

Theorem new_individ_shape selection tour quantity crossover proba is_const pop fscale frank n ds child ds' :
  pop_ok n pop -> (0 < quantity)%nat ->
  (forall ds r ds', selection fscale frank tour quantity ds = Some (r, ds') ->
      length r = quantity /\ Forall (fun v => (0 <= v < Z.of_nat (length pop))%Z) r) ->
  (forall ps f r ds c ds', crossover ps f r ds = Some (c, ds') -> from_parents ps c) ->
  new_individ selection tour quantity crossover proba is_const pop fscale frank ds = Some (child, ds') ->
  binary child /\ length child = n.
Proof.
  intros Hp Hq Hsel Hcx H. unfold new_individ in H. minv H.
  destruct (Hsel _ _ _ E) as (Hl & Hr).
  pose proof (gather_ok n pop l Hp Hr) as Hg.
  pose proof (Hcx _ _ _ _ _ _ E0) as Hfp.
  assert (Hw : width (gather [] pop l) = n).
  { unfold width. destruct l as [|v l']; [simpl in Hl; lia|]. cbn [gather map nth].
    inversion Hg; subst. tauto. }
  assert (Hb : binary r /\ length r = n).
  { split.
    - eapply from_parents_binary; [|exact Hfp]. intros p Hp'. unfold pop_ok in Hg.
      rewrite Forall_forall in Hg. rewrite Hw. apply Hg. apply nth_In; auto.
    - destruct Hfp as (Hlen & _). lia. }
  destruct (flip_sound _ _ _ _ _ H) as (cs & Hcs & ->).
  destruct (flip_binary r cs (proj1 Hb)) as (H1 & H2). split; auto. lia.
Qed.

(* ---------------- a whole run: every individual of every generation is a binary row of length n and
   every generation has pop_size rows.  A generation = pop_size children, each produced by new_individ
   (selection -> crossover -> mutation over the CURRENT population) and, with elitism, the last slot
   overwritten by the best-so-far, which is a member of an earlier population. *)
Definition row_ok (n : nat) (x : row) : Prop := binary x /\ length x = n.

Inductive ga_step (n pop_size : nat) : list row -> list row -> Prop :=
| ga_step_plain pop children :
    length children = pop_size -> Forall (row_ok n) children -> ga_step n pop_size pop children
| ga_step_elite pop children best :
    length children = pop_size -> Forall (row_ok n) children -> row_ok n best ->
    ga_step n pop_size pop (removelast children ++ [best]).

Inductive ga_run (n pop_size : nat) : list row -> list row -> Prop :=
| ga_run_nil pop : ga_run n pop_size pop pop
| ga_run_cons pop pop1 pop2 : ga_step n pop_size pop pop1 -> ga_run n pop_size pop1 pop2 -> ga_run n pop_size pop pop2.

Lemma Forall_removelast' {A} (P : A -> Prop) (xs : list A) : Forall P xs -> Forall P (removelast xs).
Proof.
  induction xs as [|x xs IH]; intros H; simpl; auto. destruct xs; [constructor|].
  inversion H; subst. constructor; auto.
Qed.

Lemma removelast_length' {A} (xs : list A) : xs <> [] -> length (removelast xs) = (length xs - 1)%nat.
Proof.
  induction xs as [|x xs IH]; intros H; [congruence|]. destruct xs as [|y xs]; [reflexivity|].
  cbn [removelast length] in *. rewrite IH by congruence. simpl. lia.
Qed.

Theorem ga_run_shape n pop_size pop pop' : (0 < pop_size)%nat ->
  ga_run n pop_size pop pop' -> Forall (row_ok n) pop -> length pop = pop_size ->
  Forall (row_ok n) pop' /\ length pop' = pop_size.
Proof.
  intros Hp H. induction H as [|pop pop1 pop2 Hs Hr IH]; intros Hok Hl; [auto|]. apply IH.
  - destruct Hs as [pop children Hlc Hc|pop children best Hlc Hc Hb]; auto.
    apply Forall_app. split; [apply Forall_removelast'; auto|constructor; auto].
  - destruct Hs as [pop children Hlc Hc|pop children best Hlc Hc Hb]; auto.
    rewrite app_length, removelast_length' by (destruct children; simpl in *; [lia|congruence]). simpl. lia.
Qed.

(* each child of a generation satisfies row_ok: this is new_individ_shape restated with row_ok/pop_ok *)
Corollary new_individ_row_ok selection tour quantity crossover proba is_const pop fscale frank n ds child ds' :
  Forall (row_ok n) pop -> (0 < quantity)%nat ->
  (forall ds r ds', selection fscale frank tour quantity ds = Some (r, ds') ->
      length r = quantity /\ Forall (fun v => (0 <= v < Z.of_nat (length pop))%Z) r) ->
  (forall ps f r ds c ds', crossover ps f r ds = Some (c, ds') -> from_parents ps c) ->
  new_individ selection tour quantity crossover proba is_const pop fscale frank ds = Some (child, ds') ->
  row_ok n child.
Proof. intros. unfold row_ok. eapply new_individ_shape; eauto. Qed.
