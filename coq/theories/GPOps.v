(* GPOps.v — executable models of the GP variation operators and initialisers (C08).  MODEL ONLY.

   Sources
     src/thefittest/base/_tree.py          UniversalSet._random_terminal_or_ephemeral / _random_functional,
                                           Tree.full_growing_method / growing_method / random_tree
     src/thefittest/utils/crossovers.py    empty_crossoverGP, standard_crossover, one_point_crossoverGP,
                                           uniform_crossoverGP, uniform_proportional_crossover_GP,
                                           uniform_rank_crossover_GP, uniform_tournament_crossover_GP
     src/thefittest/utils/mutations.py     point_mutation, growing_mutation, swap_mutation, shrink_mutation
     src/thefittest/optimizers/_geneticprogramming.py   half_and_half

   A tree is the pair (node list, arity array) exactly as Tree._nodes / Tree._n_args  ([ptree] of
   TreeIdx.v); the index helpers read the ARRAY (snd), node replacement touches the LIST (fst) — that
   the two stay consistent is a theorem (GPOpsProofs.v), not an assumption of the model.
   Randomness: the operators pop draws from the [M] monad of Base.v in exactly the order the code
   draws them:
       randint(0, n, 1)[0]                 -> one DU            (rand_index)
       random_sample(n, 1, True)[0]        -> one DI n          (sample_index)
       flip_coin(p)                        -> one DU
       uniform(0, 1, 1)[0] < 0.5           -> one DX            (coin_x)
       sattolo_shuffle(a)                  -> len(a)-1 DU
       random_sample / random_weighted_sample / tournament_selection : as in RandomPrims.v
   An index the code would read out of range (IndexError in mirror mode, unchecked read when
   compiled) makes the model return None. *)
From TF Require Export Base RandomPrims.
From TF Require Export Tree TreeIdx.
Open Scope nat_scope.

Definition fail {A} : M A := fun _ => None.
Definition lift {A} (o : option A) : M A :=
  fun ds => match o with Some a => Some (a, ds) | None => None end.

(* randint(0, n, 1)[0] *)
Definition rand_index (n : nat) : M nat :=
  r <- randint 0 (Z.of_nat n) 1 ;; ret (Z.to_nat (nth 0 r 0%Z)).
(* random_sample(range_size=n, quantity=1, replace=True)[0] *)
Definition sample_index (n : nat) : M nat :=
  r <- random_sample (Z.of_nat n) 1 true ;; ret (Z.to_nat (nth 0 r 0%Z)).
(* uniform(low=0, high=1, size=1)[0] < 0.5 *)
Definition coin_x : M bool := v <- popX ;; ret (Qltb v (1 # 2)).

(* sorted(pairs, key=second component, reverse=True)  — insertion sort; the keys are distinct
   positions, so every sorting algorithm returns the same list *)
Fixpoint insert_desc (x : nat * nat) (l : list (nat * nat)) : list (nat * nat) :=
  match l with
  | [] => [x]
  | y :: r => if snd y <? snd x then x :: l else y :: insert_desc x r
  end.
Fixpoint sort_desc (l : list (nat * nat)) : list (nat * nat) :=
  match l with [] => [] | x :: r => insert_desc x (sort_desc r) end.

Section GP.
  Context {sym : Type}.
  Variable arity : sym -> nat.
  Notation pt := (ptree sym).

  (* ------------------------------------------------------------------ UniversalSet
     _functional_set[-1] = all function symbols in the order given, _functional_set[k] = those of
     arity k in that order; _terminal_set = terminals, an entry being either a TerminalNode (inl) or
     an EphemeralNode (inr g): g is the user's generator wrapped as EphemeralConstantNode, it may
     consume draws itself. *)
  Record uniset := { u_funcs : list sym; u_terms : list (sym + M sym) }.

  (* isinstance(node, FunctionalNode): function symbols are the ones with arguments *)
  Definition is_fun (s : sym) : bool := 0 <? arity s.

  Definition random_terminal (U : uniset) : M sym :=
    i <- sample_index (length (u_terms U)) ;;
    match nth_error (u_terms U) i with
    | Some (inl s) => ret s
    | Some (inr g) => g
    | None => fail
    end.
  Definition funcs_of (U : uniset) (k : option nat) : list sym :=
    match k with
    | None => u_funcs U
    | Some n => filter (fun s => arity s =? n) (u_funcs U)
    end.
  Definition random_functional (U : uniset) (k : option nat) : M sym :=
    i <- sample_index (length (funcs_of U k)) ;; lift (nth_error (funcs_of U k) i).

  (* ------------------------------------------------------------------ growing_method / full_growing_method
       possible_steps = [1]; previous_levels = [-1]
       while len(possible_steps):
           possible_steps[-1] -= 1
           if possible_steps[-1] == 0: possible_steps.pop(); level_i = previous_levels.pop() + 1
           else:                       level_i = previous_levels[-1] + 1
           if level_i == max_level:  terminal, n_args 0
           [grow only] elif level_i == 0: functional, push (n_i, level_i)
           [grow only] else: if uniform(0,1,1)[0] < 0.5: terminal else functional; push iff n_i > 0
           [full]      else: functional, push (n_i, level_i)
     The two stacks move in lockstep: one list of pairs (remaining arguments, level OF those
     arguments) as in TreeIdx.levels_loop.  Every iteration consumes at least one draw; the loop is
     given the number of available draws (+1) as fuel.  The result carries the recorded arity next
     to every node ( n_args.append(0) for the forced terminals, the node's own arity otherwise ). *)
  Fixpoint grow_loop (full : bool) (U : uniset) (ml : nat) (fuel : nat) (st : list (nat * nat))
    : M (list (sym * nat)) :=
    match st with
    | [] => ret []
    | (c, lv) :: st' =>
      match fuel with
      | 0 => fail
      | S f =>
        let st1 := match c with 1 => st' | _ => (c - 1, lv) :: st' end in
        if lv =? ml then
          s <- random_terminal U ;;
          r <- grow_loop full U ml f st1 ;; ret ((s, 0) :: r)
        else if full || (lv =? 0) then
          s <- random_functional U None ;;
          r <- grow_loop full U ml f ((arity s, S lv) :: st1) ;; ret ((s, arity s) :: r)
        else
          b <- coin_x ;;
          s <- (if b then random_terminal U else random_functional U None) ;;
          r <- grow_loop full U ml f (if 0 <? arity s then (arity s, S lv) :: st1 else st1) ;;
          ret ((s, arity s) :: r)
      end
    end.
  Definition gen_tree (full : bool) (U : uniset) (ml : nat) : M pt :=
    fun ds =>
      match grow_loop full U ml (S (length ds)) [(1, 0)] ds with
      | Some (r, ds') => Some ((map fst r, map snd r), ds')
      | None => None
      end.
  Definition full_growing_method := gen_tree true.
  Definition growing_method := gen_tree false.
  (* random_tree: if uniform(0,1,1)[0] < 0.5: full else grow *)
  Definition random_tree (U : uniset) (ml : nat) : M pt :=
    b <- coin_x ;; if b then full_growing_method U ml else growing_method U ml.
  (* half_and_half: level = randint(2, max_level, 1)[0]; [random_tree(uniset, level) for _ in range(pop_size)] *)
  Fixpoint repeatM {A} (n : nat) (m : M A) : M (list A) :=
    match n with 0 => ret [] | S k => x <- m ;; r <- repeatM k m ;; ret (x :: r) end.
  Definition half_and_half (pop_size : nat) (U : uniset) (ml : nat) : M (list pt) :=
    l <- randint 2 (Z.of_nat ml) 1 ;;
    repeatM pop_size (random_tree U (Z.to_nat (nth 0 l 0%Z))).

  (* ------------------------------------------------------------------ crossovers *)
  Definition obind {A B} (o : option A) (f : A -> option B) : option B :=
    match o with Some a => f a | None => None end.

  (* empty_crossoverGP: individs[0].copy() *)
  Definition empty_crossoverGP (ps : list pt) : M pt := lift (nth_error ps 0).

  (* standard_crossover:
       first_point = randint(0, len(p1), 1)[0]; second_point = randint(0, len(p2), 1)[0]
       if flip_coin(0.5): offspring = p2.concat(second_point, p1.subtree(first_point)); too deep -> p2
       else:              offspring = p1.concat(first_point, p2.subtree(second_point)); too deep -> p1 *)
  Definition transplant (donor : pt) (a : nat) (host : pt) (b : nat) : option pt :=
    obind (subtree_p donor a) (concat_p host b).
  Definition guard_depth (max_lv : nat) (host o : pt) : pt :=
    if max_lv <? max_level (snd o) then host else o.
  Definition standard_crossover (ps : list pt) (max_lv : nat) : M pt :=
    match ps with
    | p1 :: p2 :: _ =>
      a <- rand_index (length (fst p1)) ;;
      b <- rand_index (length (fst p2)) ;;
      c <- flip_coin (1 # 2) ;;
      if c then lift (option_map (guard_depth max_lv p2) (transplant p1 a p2 b))
      else lift (option_map (guard_depth max_lv p1) (transplant p2 b p1 a))
    | _ => fail
    end.

  (* one_point_crossoverGP:
       common, _ = p1.get_common_region([p2])            -- the two-tree walk on the arity arrays
       point = randint(0, len(common[0]), 1)[0]; (first_point, second_point) = common[.][point]
       if flip_coin(0.5): p2.concat(second_point, p1.subtree(first_point)) else the roles swapped *)
  Definition one_point_crossoverGP (ps : list pt) : M pt :=
    match ps with
    | p1 :: p2 :: _ =>
      match common_region_two (snd p1) (snd p2) with
      | Some (com, _) =>
        k <- rand_index (length com) ;;
        c <- flip_coin (1 # 2) ;;
        match nth_error com k with
        | Some (a, b) => if c then lift (transplant p1 a p2 b) else lift (transplant p2 b p1 a)
        | None => fail
        end
      | None => fail
      end
    | _ => fail
    end.

  (* Tree.get_common_region(individs[1:]) as the uniform family uses it: with exactly two parents
     the two-tree walk over the recorded arity arrays, otherwise the k-tree walk (which reads the
     arities of the node objects).  Result: the scanned columns (one position per parent) and
     border[0], the border positions in parent 0. *)
  Definition region (ps : list pt) : option (list (list nat) * list nat) :=
    match ps with
    | [] => None
    | [p1; p2] =>
      option_map (fun cb : cr_out => (map (fun ab => [fst ab; snd ab]) (fst cb), map fst (snd cb)))
                 (common_region_two (snd p1) (snd p2))
    | _ =>
      option_map (fun cb : crk_out => (fst cb, map (hd 0) (snd cb)))
                 (common_region_k (map (fun p : pt => nargs arity (fst p)) ps))
    end.

  (* the loop shared by the uniform family:
       for i, common_0_i in enumerate(common[0]):
           j = pool[i]; id_ = common[j][i]
           if common_0_i in border[0]: append the whole subtree of parent j at id_
           else:                       append node id_ of parent j and its recorded arity *)
  Fixpoint uniform_fold (ps : list pt) (bor0 : list nat) (cols : list (list nat)) (pool : list Z)
    : option pt :=
    match cols with
    | [] => Some ([], [])
    | col :: cols' =>
      match pool with
      | [] => None
      | j :: pool' =>
        match nth_error ps (Z.to_nat j), nth_error col (Z.to_nat j) with
        | Some p, Some id =>
          let part :=
            if existsb (Nat.eqb (hd 0 col)) bor0 then subtree_p p id
            else match nth_error (fst p) id, nth_error (snd p) id with
                 | Some x, Some n => Some ([x], [n])
                 | _, _ => None
                 end in
          match part, uniform_fold ps bor0 cols' pool' with
          | Some s, Some r => Some (fst s ++ fst r, snd s ++ snd r)
          | _, _ => None
          end
        | _, _ => None
        end
      end
    end.
  Definition uniform_with (ps : list pt) (draw_pool : nat -> M (list Z)) : M pt :=
    match region ps with
    | Some (cols, bor0) =>
      pool <- draw_pool (length cols) ;; lift (uniform_fold ps bor0 cols pool)
    | None => fail
    end.
  (* pool = random_sample(len(individs), len(common[0]), True) *)
  Definition uniform_crossoverGP (ps : list pt) (fitness rank : list Q) : M pt :=
    uniform_with ps (fun n => random_sample (Z.of_nat (length ps)) n true).
  (* pool = random_weighted_sample(fitness, len(common[0]), True) *)
  Definition uniform_proportional_crossover_GP (ps : list pt) (fitness rank : list Q) : M pt :=
    uniform_with ps (fun n => random_weighted_sample fitness n true).
  Definition uniform_rank_crossover_GP (ps : list pt) (fitness rank : list Q) : M pt :=
    uniform_with ps (fun n => random_weighted_sample rank n true).
  (* pool = tournament_selection(fitness, rank, 2, len(common[0])) *)
  Definition uniform_tournament_crossover_GP (ps : list pt) (fitness rank : list Q) : M pt :=
    uniform_with ps (fun n => tournament_selection fitness 2 n).

  (* ------------------------------------------------------------------ mutations *)
  (* point_mutation: if flip_coin(proba): i = randint(0, len, 1)[0];
       FunctionalNode -> uniset._random_functional(node._n_args) else _random_terminal_or_ephemeral();
       mutated_tree._nodes[i] = new_node            (the arity array is not touched) *)
  Definition point_mutation (t : pt) (U : uniset) (proba : Q) : M pt :=
    c <- flip_coin proba ;;
    if c then
      i <- rand_index (length (fst t)) ;;
      match nth_error (fst t) i with
      | Some s =>
        new <- (if is_fun s then random_functional U (Some (arity s)) else random_terminal U) ;;
        ret (upd (fst t) i new, snd t)
      | None => fail
      end
    else ret t.

  (* growing_mutation: if flip_coin(proba): i = randint(0, len, 1)[0];
       grown = Tree.growing_method(uniset, max(tree.get_levels(i))); tree.concat(i, grown) *)
  Definition growing_mutation (t : pt) (U : uniset) (proba : Q) : M pt :=
    c <- flip_coin proba ;;
    if c then
      i <- rand_index (length (fst t)) ;;
      g <- growing_method U (list_max (levels (snd t) i)) ;;
      lift (concat_p t i g)
    else ret t.

  (* np.arange(len(tree))[cond(n_args)] *)
  Definition positions_where (f : nat -> bool) (a : list nat) : list nat :=
    map fst (filter (fun ix => f (snd ix)) (combine (seq 0 (length a)) a)).

  (* swap_mutation (repaired code):
       if flip_coin(proba):
           indexes = positions with n_args > 1
           if len(indexes) > 0:
               i = indexes[random_sample(len(indexes), 1, True)[0]]
               args_id = get_args_id(i); new_arg_id = sattolo_shuffle(args_id.copy())
               for old_j, new_j in sorted(zip(args_id, new_arg_id), key=second, reverse=True):
                   mutated_tree = mutated_tree.concat(new_j, tree.subtree(old_j))
     (splices go from the right-most argument position to the left, so every position computed on
     the original tree is still valid when it is used) *)
  Fixpoint splice_all (orig : pt) (pairs : list (nat * nat)) (cur : pt) : option pt :=
    match pairs with
    | [] => Some cur
    | (old_j, new_j) :: r =>
      match subtree_p orig old_j with
      | Some s => obind (concat_p cur new_j s) (splice_all orig r)
      | None => None
      end
    end.
  Definition swap_with (order : list (nat * nat) -> list (nat * nat)) (t : pt) (U : uniset) (proba : Q) : M pt :=
    c <- flip_coin proba ;;
    if c then
      let idx := positions_where (fun n => 1 <? n) (snd t) in
      match idx with
      | [] => ret t
      | _ =>
        k <- sample_index (length idx) ;;
        match nth_error idx k with
        | Some i =>
          match find_args (snd t) i with
          | Some args =>
            new <- sattolo 0 args ;;
            lift (splice_all t (order (combine args new)) t)
          | None => fail
          end
        | None => fail
        end
      end
    else ret t.
  Definition swap_mutation := swap_with sort_desc.
  (* the code BEFORE the repair: the pairs are processed in argument order, i.e. every position but
     the first is used after earlier splices may have moved it *)
  Definition swap_mutation_old := swap_with (fun l => l).

  (* shrink_mutation:
       if len(tree) > 2:
           if flip_coin(proba):
               indexes = positions with n_args > 0
               if len(indexes) > 0:
                   i = indexes[random_sample(len(indexes), 1, True)[0]]; args_id = get_args_id(i)
                   choosen = args_id[random_sample(len(args_id), 1, True)[0]] if len(args_id) > 1 else args_id[0]
                   tree.concat(i, tree.subtree(choosen)) *)
  Definition shrink_mutation (t : pt) (U : uniset) (proba : Q) : M pt :=
    if 2 <? length (fst t) then
      c <- flip_coin proba ;;
      if c then
        let idx := positions_where (fun n => 0 <? n) (snd t) in
        match idx with
        | [] => ret t
        | _ =>
          k <- sample_index (length idx) ;;
          match nth_error idx k with
          | Some i =>
            match find_args (snd t) i with
            | Some args =>
              ch <- (if 1 <? length args then
                       m <- sample_index (length args) ;; lift (nth_error args m)
                     else lift (nth_error args 0)) ;;
              lift (transplant t ch t i)
            | None => fail
            end
          | None => fail
          end
        end
      else ret t
    else ret t.
End GP.

(* ====================================================================== specification side
   (definitions only; used by the theorems about the uniform family and by the checkers) *)
Section Spec.
  Context {sym : Type}.
  Variable arity : sym -> nat.
  Notation tree := (tree sym).

  Definition root_arities (ts : list tree) : list nat := map (fun t => arity (root t)) ts.
  (* the i-th argument of every tree of a tuple *)
  Definition kid_col (i : nat) (ts : list tree) : list tree := map (fun t => nth i (children t) t) ts.

  (* the recursive common region of k trees, every scanned column (one position per tree) tagged
     with "is a border":  the roots are common; when all root arities agree the region continues
     into the arguments pairwise, otherwise the column is a border.  [os] are the prefix positions
     of the roots.  Fuel bounds the depth of the recursion (depth of the first tree + 1 suffices). *)
  Definition tcol : Type := (list nat * bool)%type.
  Fixpoint crk_kids (rec : list tree -> list nat -> list tcol) (n i : nat) (ts : list tree) (os : list nat)
    : list tcol :=
    match n with
    | 0 => []
    | S n' =>
      let kids := kid_col i ts in
      rec kids os ++ crk_kids rec n' (S i) ts (map (fun ok => fst ok + size (snd ok)) (combine os kids))
    end.
  Fixpoint crk_tag (fuel : nat) (ts : list tree) (os : list nat) : list tcol :=
    match fuel with
    | 0 => []
    | S f =>
      if all_eqb (root_arities ts) then
        (os, false) :: crk_kids (crk_tag f) (hd 0 (root_arities ts)) 0 ts (map S os)
      else [(os, true)]
    end.
  (* what get_common_region returns: the columns, and the border columns *)
  Definition region_of (L : list tcol) : list (list nat) * list (list nat) :=
    (map fst L, map fst (filter snd L)).

  (* the children the uniform family may produce from parents ts: at a border of the common region
     a whole sub-term of one parent, inside the region the root symbol of one parent applied to
     children that are, argument by argument, mixes of the parents' arguments *)
  Inductive mix : list tree -> tree -> Prop :=
  | mix_border ts t : all_eqb (root_arities ts) = false -> In t ts -> mix ts t
  | mix_node ts s kids :
      all_eqb (root_arities ts) = true ->
      (exists t, In t ts /\ root t = s) ->
      length kids = arity s ->
      (forall i, i < length kids -> mix (kid_col i ts) (nth i kids (Node s []))) ->
      mix ts (Node s kids).
End Spec.
