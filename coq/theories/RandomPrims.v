(* RandomPrims.v — executable models of the sampling primitives (C11).
   Sources: src/thefittest/utils/__init__.py (binary_search_interval, check_for_value,
   argsort_k, find_pbest_id), utils/random.py (random_sample, random_weighted_sample,
   sattolo_shuffle, randint, flip_coin), utils/selections.py, utils/transformations.py
   (minmax_scale).  Proofs are in RandomPrimsProofs.v. *)
From TF Require Export Base.
Open Scope Q_scope.

(* ---- binary_search_interval(value, intervals) ---- *)
Fixpoint bsi_loop (fuel : nat) (v : Q) (c : list Q) (l r : nat) : nat :=
  match fuel with
  | O => r
  | S f =>
    if (1 <? r - l)%nat then
      let mid := ((l + r) / 2)%nat in
      if Qle_bool v (nth mid c 0) then bsi_loop f v c l mid else bsi_loop f v c mid r
    else r
  end.
Definition bsi (v : Q) (c : list Q) : nat :=
  if Qle_bool v (nth 0 c 0) then O else bsi_loop (length c) v c 0 (length c - 1).

(* ---- np.cumsum ---- *)
Fixpoint cumsum_from (acc : Q) (w : list Q) : list Q :=
  match w with [] => [] | x :: t => (acc + x) :: cumsum_from (acc + x) t end.
Definition cumsum (w : list Q) := cumsum_from 0 w.
Definition total (w : list Q) : Q := nth (length w - 1) (cumsum w) 0.   (* cumsumweights[-1] *)

(* ---- check_for_value over the already-filled prefix ---- *)
Definition memZ (v : Z) (l : list Z) : bool := existsb (Z.eqb v) l.

(* ---- random_sample(range_size, quantity, replace) ----
   while i < quantity: ind = randint(0, range_size); if not replace and ind in sample[:i]: continue *)
Fixpoint random_sample_loop (n : Z) (q : nat) (replace : bool) (acc : list Z) (ds : list draw)
  : option (list Z * list draw) :=
  match ds with
  | [] => if (q <=? length acc)%nat then Some (acc, []) else None
  | d :: r =>
    if (q <=? length acc)%nat then Some (acc, ds) else
    match d with
    | DI m v =>
      if (m =? n)%Z then
        if negb replace && memZ v acc then random_sample_loop n q replace acc r
        else random_sample_loop n q replace (acc ++ [v]) r
      else None
    | _ => None
    end
  end.
Definition random_sample (n : Z) (q : nat) (replace : bool) : M (list Z) :=
  random_sample_loop n q replace [].

(* ---- random_weighted_sample(weights, quantity, replace) ---- *)
Definition weighted_pick (w : list Q) (u : Q) : nat := bsi (total w * u) (cumsum w).
Fixpoint rws_loop (w : list Q) (q : nat) (replace : bool) (acc : list Z) (ds : list draw)
  : option (list Z * list draw) :=
  match ds with
  | [] => if (q <=? length acc)%nat then Some (acc, []) else None
  | d :: r =>
    if (q <=? length acc)%nat then Some (acc, ds) else
    match d with
    | DU u =>
      let ind := Z.of_nat (weighted_pick w u) in
      if negb replace && memZ ind acc then rws_loop w q replace acc r
      else rws_loop w q replace (acc ++ [ind]) r
    | _ => None
    end
  end.
Definition random_weighted_sample (w : list Q) (q : nat) (replace : bool) : M (list Z) :=
  rws_loop w q replace [].

(* ---- selections ---- *)
Definition proportional_selection (fitness rank : list Q) (tour : nat) (quantity : nat) :=
  random_weighted_sample fitness quantity true.
Definition rank_selection (fitness rank : list Q) (tour : nat) (quantity : nat) :=
  random_weighted_sample rank quantity true.

Definition gatherQ (f : list Q) (idx : list Z) : list Q := map (fun i => nth (Z.to_nat i) f 0) idx.
Definition tournament_one (fitness : list Q) (tour : nat) : M Z :=
  t <- random_sample (Z.of_nat (length fitness)) tour false ;;
  ret (nth (argmax (gatherQ fitness t)) t 0%Z).
Fixpoint tournament_selection (fitness : list Q) (tour : nat) (quantity : nat) : M (list Z) :=
  match quantity with
  | O => ret []
  | S k => w <- tournament_one fitness tour ;; ws <- tournament_selection fitness tour k ;; ret (w :: ws)
  end.

(* ---- sattolo_shuffle:  for i in n-1 .. 1:  j = floor(u*i); swap(i, j) ---- *)
Fixpoint sattolo_loop {A} (d : A) (i : nat) (arr : list A) : M (list A) :=
  match i with
  | O => ret arr
  | S i' =>
    u <- popU ;;
    sattolo_loop d i' (swap d arr i (Z.to_nat (Qfloor' (u * inject_Z (Z.of_nat i)))))
  end.
Definition sattolo {A} (d : A) (arr : list A) : M (list A) := sattolo_loop d (length arr - 1) arr.

(* ---- randint(low, high, size): low + floor((high-low)*u) ---- *)
Fixpoint randint (low high : Z) (size : nat) : M (list Z) :=
  match size with
  | O => ret []
  | S k => u <- popU ;; r <- randint low high k ;;
           ret ((low + Qfloor' (inject_Z (high - low) * u))%Z :: r)
  end.
Definition flip_coin (threshold : Q) : M bool := u <- popU ;; ret (Qltb u threshold).

(* ---- argsort_k (repaired code: max_id = i at the start of each outer iteration) ---- *)
Fixpoint find_max_from (a : list Q) (j : nat) (n : nat) (mx : Q) (mid : nat) : nat :=
  (* scans positions j, j+1, ..., j+n-1 *)
  match n with
  | O => mid
  | S n' => if Qltb mx (nth j a 0) then find_max_from a (S j) n' (nth j a 0) j
            else find_max_from a (S j) n' mx mid
  end.
Fixpoint argsort_k_loop (k : nat) (i : nat) (a : list Q) (idx : list nat) : list nat :=
  match k with
  | O => idx
  | S k' =>
    let mid := find_max_from a i (length a - i) (nth i a 0) i in
    argsort_k_loop k' (S i) (swap 0 a i mid) (swap O idx i mid)
  end.
Definition argsort_k (a : list Q) (k : nat) : list nat := argsort_k_loop k 0 a (seq 0 (length a)).

(* the code as it was before the repair: max_id is not reset; [garbage] is its value before
   the first assignment (an uninitialised local in the compiled code) *)
Fixpoint argsort_k_loop_stale (k : nat) (i : nat) (a : list Q) (idx : list nat) (stale : nat) : list nat :=
  match k with
  | O => idx
  | S k' =>
    let mid := find_max_from a i (length a - i) (nth i a 0) stale in
    argsort_k_loop_stale k' (S i) (swap 0 a i mid) (swap O idx i mid) mid
  end.
Definition argsort_k_stale (garbage : nat) (a : list Q) (k : nat) : list nat :=
  argsort_k_loop_stale k 0 a (seq 0 (length a)) garbage.

(* find_pbest_id: count = max(1, int(p*size)); argsort_k(array, count)[:count] *)
Definition pbest_count (p : Q) (n : nat) : nat :=
  Nat.max 1 (Z.to_nat (Qfloor' (p * inject_Z (Z.of_nat n)))).
Definition find_pbest_id (a : list Q) (p : Q) : list nat :=
  firstn (pbest_count p (length a)) (argsort_k a (pbest_count p (length a))).

(* ---- minmax_scale ---- *)
Definition Qmax_list (l : list Q) : Q := fold_left (fun m x => if Qltb m x then x else m) l (hd 0 l).
Definition Qmin_list (l : list Q) : Q := fold_left (fun m x => if Qltb x m then x else m) l (hd 0 l).
Definition minmax_scale (l : list Q) : list Q :=
  let mx := Qmax_list l in let mn := Qmin_list l in
  if Qeq_bool mx mn then map (fun _ => 1) l else map (fun x => (x - mn) / (mx - mn)) l.
