(* C13Check.v — boolean case checkers evaluated by the correspondence of C13 (no proofs here).
   The model is always the model of the *repaired* code (fixed = true).                          *)
From TF Require Import Base Net NetAlgebra NetOrder.
Local Open Scope nat_scope.

(* genotype_to_phenotype_tree: (n_variables, n_outputs, output activation code, tree._nodes,
   the implementation's net with sets sorted and activs sorted by key) *)
Definition chk_decode (c : nat * nat * nat * list gnode * net) : bool :=
  let '(nv, nout, oact, nodes, impl) := c in
  match decode_nodes true nv nout oact nodes with
  | Some m => net_eqb (canon m) impl
  | None => false
  end.

(* the property predicate (boolean form of Valid) on the implementation's net *)
Definition chk_valid (n : net) : bool := valid_b n.

(* Net.__add__ / Net.__gt__ on two given nets; connection rows compared as a multiset because
   the row order of product(set, set) follows Python's set iteration order *)
Definition chk_op (c : bool * net * net * net) : bool :=
  let '(isgt, a, b, impl) := c in
  match net_op true OPFUEL isgt a b with
  | Some m => net_eqb (canon_ms m) impl
  | None => false
  end.

(* Net._fix(inputs) *)
Definition chk_fix (c : list nat * net * net) : bool :=
  let '(inputs, a, impl) := c in net_eqb (canon (fix_net inputs a)) impl.

(* BaseMLPEA._defitne_net: (n_inputs, n_outputs, hidden_layers, activation code, offset,
   output activation code, implementation's net with connection rows sorted as a multiset) *)
Definition chk_mlp (c : nat * nat * list nat * nat * bool * nat * net) : bool :=
  let '(ni, no, hs, act, offset, oact, impl) := c in
  match define_net true ni no hs act offset oact with
  | Some m => net_eqb (canon_ms m) impl
  | None => false
  end.
(* architecture predicate on the implementation's net: connection *set* = requested layering *)
Definition chk_mlp_arch (c : nat * nat * list nat * bool * net) : bool :=
  let '(ni, no, hs, offset, impl) := c in
  pairlist_eqb (sort_dedup (n_con impl)) (sort_dedup (mlp_spec_connects ni no hs offset)).

(* Net._get_order: the schedule the implementation cached, against the model's *)
Definition chk_order (c : net * list group) : bool :=
  let '(n, impl) := c in
  match get_order (S (length (n_con n))) n with
  | Some s => sched_eqb s impl
  | None => false
  end.
