(* GPOpsProofs6.v — C08: the uniform family with ANY number of parents, unconditionally.

   TreeCRk.common_region_k_spec (C09) proves that the k-tree walk common_region_k returns the
   recursive common region for every tuple of well-formed trees.  GPOps.crk_tag is that recursive
   definition ([crk_tag_is_crk_rec]), so the hypothesis
       region arity (parents_of Ts) = Some (region_rec Ts fuel)
   of GPOpsProofs4.uniform_with_spec / uniform_with_closed holds for every number of parents
   ([region_is_rec]) and the closure theorem follows without it. *)
From Coq Require Import List Arith Bool Lia ZArith QArith Permutation.
Import ListNotations.
From TF Require Import Base RandomPrims Tree TreeIdx TreeProofs TreeProofs2 TreeCR TreeCRk GPOps
  GPOpsProofs GPOpsProofs2 GPOpsProofs3 GPOpsProofs4.
Open Scope nat_scope.

Section K.
  Context {sym : Type}.
  Variable arity : sym -> nat.
  Notation tree := (tree sym).
  Notation wft := (wft arity).

  (* the recursive region of GPOps.v and the one of TreeCRk.v are the same definition *)
  Lemma crk_tag_is_crk_rec : forall f (ts : list tree) os, crk_tag arity f ts os = crk_rec arity f ts os.
  Proof. intros f ts os. reflexivity. Qed.

  Lemma region_k (T0 : tree) Ts' : Forall (fun t => wft t = true) (T0 :: Ts') -> length Ts' <> 1 ->
    region arity (parents_of arity (T0 :: Ts')) = Some (region_rec arity (T0 :: Ts') (S (depth T0))).
  Proof.
    intros W Hk.
    assert (E : region arity (parents_of arity (T0 :: Ts')) =
                option_map (fun cb : crk_out => (fst cb, map (hd 0) (snd cb)))
                  (common_region_k (map (fun t => nargs arity (flatten t)) (T0 :: Ts')))).
    { unfold region, parents_of. rewrite !map_map.
      destruct Ts' as [|T1 [|T2 Ts'']]; [reflexivity| simpl in Hk; congruence | reflexivity]. }
    rewrite E, (common_region_k_spec arity T0 Ts' (S (depth T0)) W (Nat.lt_succ_diag_r _)).
    unfold region_rec, region_of. cbv zeta. cbn [option_map fst snd].
    rewrite <- crk_tag_is_crk_rec. reflexivity.
  Qed.

  (* get_common_region returns the recursive region, whatever the number of parents *)
  Theorem region_is_rec (T0 : tree) Ts' : Forall (fun t => wft t = true) (T0 :: Ts') ->
    region arity (parents_of arity (T0 :: Ts')) = Some (region_rec arity (T0 :: Ts') (S (depth T0))).
  Proof.
    intros W. destruct (Nat.eq_dec (length Ts') 1) as [E|NE]; [|apply region_k; auto].
    destruct Ts' as [|T1 [|? ?]]; try discriminate.
    inversion W as [|? ? W0 W']; subst. inversion W' as [|? ? W1 _]; subst.
    apply region_two; auto.
  Qed.

  Theorem uniform_k_closed (T0 : tree) Ts' draw_pool ds c ds' ml :
    Forall (fun t => wft t = true) (T0 :: Ts') ->
    uniform_with arity (parents_of arity (T0 :: Ts')) draw_pool ds = Some (c, ds') ->
    (wfp arity c /\ syms_from (parents_of arity (T0 :: Ts')) c /\
     (all_le ml (parents_of arity (T0 :: Ts')) -> depthp c <= ml)) /\
    exists C, good arity c C /\ mix arity (T0 :: Ts') C.
  Proof.
    intros W H. pose proof (region_is_rec T0 Ts' W) as R. split.
    - exact (uniform_with_closed arity T0 Ts' (S (depth T0)) draw_pool ds c ds' ml W (Nat.lt_succ_diag_r _) R H).
    - exact (uniform_with_spec arity T0 Ts' (S (depth T0)) draw_pool ds c ds' W (Nat.lt_succ_diag_r _) R H).
  Qed.
End K.
