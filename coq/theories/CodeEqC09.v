(* CodeEqC09.v — the index helpers of utils/__init__.py that walk the arity array of a prefix-encoded tree
   (find_end_subtree_from_i, find_id_args_from_i): whenever the hand-written model (TreeIdx.v, which returns None
   for an out-of-range read) yields a result, the definition GENERATED from the source (gen/GenCode.v) yields
   the same result, for every arity array and every start index. *)
From TF Require Import Py PyLemmas Tree TreeIdx.
From TFG Require Import GenCode.
Open Scope Z_scope.

Definition zs (a : list nat) : list Z := map Z.of_nat a.

Lemma getZ_zs a (i k : nat) : nth_error a i = Some k -> getZ (zs a) (Z.of_nat i) = Z.of_nat k.
Proof.
  intro H. rewrite getZ_nat. unfold zs. change 0 with (Z.of_nat 0). rewrite map_nth.
  f_equal. revert i H; induction a as [|x a IH]; intros [|i] H; simpl in *; try discriminate; [now inversion H|auto].
Qed.

Lemma find_end_loop_code a ds : forall fuel n_index steps e fuel',
  find_end_loop fuel a n_index steps = Some e -> (fuel <= fuel')%nat ->
  while_f fuel' (fun '(possible_steps, n_index0) => negb (possible_steps =? 0))
    (fun '(possible_steps, n_index0) =>
       let possible_steps := possible_steps + (getZ (zs a) n_index0 - 1) in
       let n_index0 := n_index0 + 1 in
       ret (possible_steps, n_index0))
    (Z.of_nat steps, Z.of_nat n_index) ds
  = Some ((0, Z.of_nat e), ds).
Proof.
  induction fuel as [|f IH]; intros n_index steps e fuel' H Hf.
  - destruct steps; simpl in H; [|discriminate]. inversion H; subst.
    destruct fuel'; cbn [while_f]; reflexivity.
  - destruct steps as [|s'].
    + simpl in H. inversion H; subst. destruct fuel'; cbn [while_f]; reflexivity.
    + cbn [find_end_loop] in H. destruct (nth_error a n_index) as [k|] eqn:Ek; [|discriminate].
      destruct fuel' as [|f']; [lia|]. cbn [while_f].
      replace (negb (Z.of_nat (Datatypes.S s') =? 0)) with true by (symmetry; apply negb_true_iff, Z.eqb_neq; lia).
      cbv zeta. rewrite bind_app, ret_app, (getZ_zs _ _ _ Ek).
      replace (Z.of_nat (Datatypes.S s') + (Z.of_nat k - 1)) with (Z.of_nat (s' + k)) by lia.
      replace (Z.of_nat n_index + 1) with (Z.of_nat (Datatypes.S n_index)) by lia.
      apply (IH _ _ _ f' H). lia.
Qed.

Theorem code_find_end_subtree_from_i a (index e : nat) ds :
  find_end a index = Some e ->
  py_find_end_subtree_from_i (Z.of_nat index) (zs a) ds = Some (Z.of_nat e, ds).
Proof.
  unfold find_end, py_find_end_subtree_from_i. intro H.
  destruct (nth_error a index) as [k|] eqn:Ek; [|discriminate].
  cbv zeta. rewrite bind_app. unfold while_ds.
  rewrite (getZ_zs _ _ _ Ek).
  replace (Z.of_nat index + 1) with (Z.of_nat (Datatypes.S index)) by lia.
  pose proof (find_end_loop_code a ds (length a) (Datatypes.S index) k e (length (zs a) + length ds) H) as Hw.
  cbv zeta in Hw. rewrite Hw by (unfold zs; rewrite map_length; lia). reflexivity.
Qed.

(* find_id_args_from_i *)
Lemma find_args_loop_code a ds (body : nat -> list Z -> M (list Z)) :
  (forall j s ds, body j s ds =
     bind (py_find_end_subtree_from_i (getZ s (Z.of_nat j - 1)) (zs a)) (fun r_1 => ret (setA s (Z.of_nat j) r_1)) ds) ->
  forall (n : nat) (prev : nat) r (acc rest : list Z),
  find_args_loop a n prev = Some r -> length rest = n -> acc <> [] -> last acc 0 = Z.of_nat prev ->
  for_idx n (length acc) body (acc ++ rest) ds = Some (acc ++ zs r, ds).
Proof.
  intros Hb n. induction n as [|n IH]; intros prev r acc rest H Hr Hne Hlast.
  - simpl in H. inversion H; subst. destruct rest; [|discriminate]. reflexivity.
  - cbn [find_args_loop] in H. destruct (find_end a prev) as [e|] eqn:Ee; [|discriminate].
    destruct (find_args_loop a n e) as [r'|] eqn:Er; [|discriminate]. inversion H; subst.
    cbn [for_idx]. rewrite bind_app, Hb, bind_app.
    assert (Hget : getZ (acc ++ rest) (Z.of_nat (length acc) - 1) = Z.of_nat prev).
    { destruct acc as [|x acc'] using rev_ind; [congruence|]. clear IHacc'.
      rewrite last_last in Hlast. subst x.
      rewrite app_length. simpl length. replace (Z.of_nat (length acc' + 1) - 1) with (Z.of_nat (length acc')) by lia.
      rewrite getZ_nat, <- app_assoc. rewrite app_nth2 by lia. now rewrite Nat.sub_diag. }
    rewrite Hget, (code_find_end_subtree_from_i _ _ _ _ Ee), ret_app.
    destruct rest as [|z rest']; [discriminate|].
    rewrite setA_nat, upd_app_r. cbn [upd].
    replace (acc ++ Z.of_nat e :: rest') with ((acc ++ [Z.of_nat e]) ++ rest') by now rewrite <- app_assoc.
    replace (Datatypes.S (length acc)) with (length (acc ++ [Z.of_nat e])) by (rewrite app_length; simpl; lia).
    rewrite (IH e r' (acc ++ [Z.of_nat e]) rest' Er); try (simpl in Hr; lia).
    + unfold zs. cbn [map]. now rewrite <- app_assoc.
    + intro E. apply app_eq_nil in E. destruct E; discriminate.
    + apply last_last.
Qed.

Theorem code_find_id_args_from_i a (index : nat) r ds :
  find_args a index = Some r ->
  py_find_id_args_from_i (Z.of_nat index) (zs a) ds = Some (zs r, ds).
Proof.
  unfold find_args, py_find_id_args_from_i. intro H. cbv zeta.
  destruct (nth_error a index) as [k|] eqn:Ek; [|discriminate].
  rewrite (getZ_zs _ _ _ Ek), zerosZ_nat.
  destruct k as [|n].
  - inversion H; subst. cbn [repeat]. reflexivity.
  - destruct (find_args_loop a n (Datatypes.S index)) as [r'|] eqn:Er; [|discriminate]. simpl in H. inversion H; subst.
    assert (Hlen : zlen (repeat 0 (Datatypes.S n)) >? 0 = true).
    { unfold zlen. rewrite repeat_length. apply Z.gtb_lt. lia. }
    rewrite Hlen. cbn [repeat]. change (setA (0 :: repeat 0 n) 0 (Z.of_nat index + 1)) with ((Z.of_nat index + 1) :: repeat 0 n).
    rewrite bind_app. unfold for_range, zlen. cbn [length]. rewrite repeat_length.
    replace (Z.to_nat (Z.of_nat (Datatypes.S n) - 1)) with n by lia.
    change 1 with (Z.of_nat 1) at 1. rewrite for_nat_idx.
    replace (Z.of_nat index + 1) with (Z.of_nat (Datatypes.S index)) by lia.
    pose proof (find_args_loop_code a ds
      (fun j out => bind (py_find_end_subtree_from_i (getZ out (Z.of_nat j - 1)) (zs a)) (fun r_1 => ret (setA out (Z.of_nat j) r_1)))
      (fun _ _ _ => eq_refl) n (Datatypes.S index) r' [Z.of_nat (Datatypes.S index)] (repeat 0 n) Er (repeat_length _ _)) as Hl.
    cbn [length app] in Hl. rewrite Hl; [reflexivity|discriminate|reflexivity].
Qed.

(* ---------- get_levels_tree_from_i ---------- *)
Lemma Zgtb_true' a b : b < a -> (a >? b) = true.
Proof. intro H. rewrite Z.gtb_ltb. apply Z.ltb_lt. lia. Qed.
Lemma Zgtb_false' a b : a <= b -> (a >? b) = false.
Proof. intro H. rewrite Z.gtb_ltb. apply Z.ltb_ge. lia. Qed.
(* the two Python stacks (top at the END of the list) against the model's one stack of pairs (top at the head);
   the code keeps the parent's level d and adds 1 on use, the model keeps d+1 *)
Definition sZ (st : list (nat * nat)) : list Z := rev (map (fun p => Z.of_nat (fst p)) st).
Definition dZ (st : list (nat * nat)) : list Z := rev (map (fun p => Z.of_nat (snd p) - 1) st).

Lemma getZ_last (l : list Z) x : getZ (l ++ [x]) (-1) = x.
Proof.
  unfold getZ, pyidx, zlen. replace (-1 <? 0) with true by reflexivity.
  rewrite app_length. simpl length. replace (Z.to_nat (-1 + Z.of_nat (length l + 1))) with (length l) by lia.
  rewrite app_nth2 by lia. now rewrite Nat.sub_diag.
Qed.
Lemma setA_last (l : list Z) x y : setA (l ++ [x]) (-1) y = l ++ [y].
Proof.
  unfold setA, pyidx, zlen. replace (-1 <? 0) with true by reflexivity.
  rewrite app_length. simpl length. replace (Z.to_nat (-1 + Z.of_nat (length l + 1))) with (length l) by lia.
  now rewrite upd_app_r.
Qed.

Definition levels_body (n_arg : Z) (st : list Z * Z * list Z * list Z) : (list Z * Z * list Z * list Z) * bool :=
  let '(s, d_i, d, result_list) := st in
    let s := setA s (- 1) ((getZ s (- 1)) - 1) in
    let '(s, d_i, d) := (if ((getZ s (- 1)) =? 0) then (
        let s := removelast s in
        let p_1 := last d 0 in
        let d := removelast d in
        let d_i := (p_1 + 1) in
        (s, d_i, d))
      else (
        let d_i := ((getZ d (- 1)) + 1) in
        (s, d_i, d))) in
    let result_list := (result_list ++ [d_i]) in
    let '(s, d) := (if (n_arg >? 0) then (
        let s := (s ++ [n_arg]) in
        let d := (d ++ [d_i]) in
        (s, d))
      else (
        (s, d))) in
    if ((zlen s) =? 0) then (
      ((s, d_i, d, result_list), true))
    else (
      ((s, d_i, d, result_list), false)).

Lemma zs_cons x t : zs (x :: t) = Z.of_nat x :: zs t.
Proof. reflexivity. Qed.

Definition pos_counts (st : list (nat * nat)) : Prop := Forall (fun p => (1 <= fst p)%nat) st.

Lemma levels_loop_code : forall (l : list nat) (st : list (nat * nat)) (d_i : Z) (acc : list Z),
  st <> [] -> pos_counts st ->
  snd (for_list_brk_p_aux (zs l) levels_body (sZ st, d_i, dZ st, acc)) = acc ++ zs (levels_loop st l).
Proof.
  induction l as [|n l IH]; intros st d_i acc Hne Hpos.
  - simpl. now rewrite app_nil_r.
  - destruct st as [|[c lv] st']; [congruence|].
    inversion Hpos as [|? ? Hc Hpos']; subst. cbn [fst] in Hc.
    cbn [levels_loop]. rewrite !zs_cons. cbn [for_list_brk_p_aux].
    unfold levels_body at 1. cbv zeta.
    unfold sZ, dZ. cbn [map rev fst snd].
    rewrite getZ_last, setA_last, getZ_last.
    set (S' := rev (map (fun p : nat * nat => Z.of_nat (fst p)) st')).
    set (D' := rev (map (fun p : nat * nat => Z.of_nat (snd p) - 1) st')).
    destruct (Nat.eq_dec c 1) as [->|Hc1].
    + (* the frame is finished: pop both stacks *)
      replace (Z.of_nat 1 - 1 =? 0) with true by reflexivity.
      rewrite removelast_last, last_last, removelast_last.
      replace (Z.of_nat lv - 1 + 1) with (Z.of_nat lv) by lia.
      destruct (0 <? n)%nat eqn:En.
      * replace (Z.of_nat n >? 0) with true by (symmetry; apply Zgtb_true'; apply Nat.ltb_lt in En; lia).
        replace (zlen (S' ++ [Z.of_nat n]) =? 0) with false
          by (symmetry; apply Z.eqb_neq; unfold zlen; rewrite app_length; simpl; lia).
        pose proof (IH ((n, Datatypes.S lv) :: st') (Z.of_nat lv) (acc ++ [Z.of_nat lv])) as H.
        unfold sZ, dZ in H. cbn [map rev fst snd] in H. fold S' D' in H.
        replace (Z.of_nat (Datatypes.S lv) - 1) with (Z.of_nat lv) in H by lia.
        rewrite H; [now rewrite <- app_assoc|discriminate|].
        constructor; [cbn [fst]; apply Nat.ltb_lt in En; lia|exact Hpos'].
      * replace (Z.of_nat n >? 0) with false by (symmetry; apply Zgtb_false'; apply Nat.ltb_ge in En; lia).
        destruct st' as [|p st''].
        -- (* both stacks empty: break *)
           subst S' D'. cbn [map rev zlen length Z.of_nat Z.eqb]. cbn [snd].
           destruct l; reflexivity.
        -- replace (zlen S' =? 0) with false
             by (symmetry; apply Z.eqb_neq; unfold zlen, S'; cbn [map rev]; rewrite app_length; simpl; lia).
           pose proof (IH (p :: st'') (Z.of_nat lv) (acc ++ [Z.of_nat lv])) as H.
           unfold sZ, dZ in H. fold S' D' in H.
           rewrite H; [now rewrite <- app_assoc|discriminate|exact Hpos'].
    + (* the frame stays, with one argument fewer *)
      replace (Z.of_nat c - 1 =? 0) with false by (symmetry; apply Z.eqb_neq; lia).
      rewrite getZ_last.
      replace (Z.of_nat lv - 1 + 1) with (Z.of_nat lv) by lia.
      assert (Hst1 : match c with 1%nat => st' | _ => (c - 1, lv)%nat :: st' end = (c - 1, lv)%nat :: st').
      { destruct c as [|[|c']]; try lia; reflexivity. }
      rewrite Hst1.
      replace (Z.of_nat c - 1) with (Z.of_nat (c - 1)) by lia.
      destruct (0 <? n)%nat eqn:En.
      * replace (Z.of_nat n >? 0) with true by (symmetry; apply Zgtb_true'; apply Nat.ltb_lt in En; lia).
        replace (zlen ((S' ++ [Z.of_nat (c - 1)]) ++ [Z.of_nat n]) =? 0) with false
          by (symmetry; apply Z.eqb_neq; unfold zlen; rewrite !app_length; simpl; lia).
        pose proof (IH ((n, Datatypes.S lv) :: (c - 1, lv)%nat :: st') (Z.of_nat lv) (acc ++ [Z.of_nat lv])) as H.
        unfold sZ, dZ in H. cbn [map rev fst snd] in H. fold S' D' in H.
        replace (Z.of_nat (Datatypes.S lv) - 1) with (Z.of_nat lv) in H by lia.
        rewrite H; [now rewrite <- app_assoc|discriminate|].
        constructor; [cbn [fst]; apply Nat.ltb_lt in En; lia|]. constructor; [cbn [fst]; lia|exact Hpos'].
      * replace (Z.of_nat n >? 0) with false by (symmetry; apply Zgtb_false'; apply Nat.ltb_ge in En; lia).
        replace (zlen (S' ++ [Z.of_nat (c - 1)]) =? 0) with false
          by (symmetry; apply Z.eqb_neq; unfold zlen; rewrite app_length; simpl; lia).
        pose proof (IH ((c - 1, lv)%nat :: st') (Z.of_nat lv) (acc ++ [Z.of_nat lv])) as H.
        unfold sZ, dZ in H. cbn [map rev fst snd] in H. fold S' D' in H.
        rewrite H; [now rewrite <- app_assoc|discriminate|].
        constructor; [cbn [fst]; lia|exact Hpos'].
Qed.

Lemma sliceFrom_zs a (origin : nat) : sliceFrom (zs a) (Z.of_nat origin) = zs (skipn origin a).
Proof. unfold sliceFrom, zs. rewrite pyidx_nat. apply skipn_map. Qed.

Theorem code_get_levels_tree_from_i a (origin : nat) :
  py_get_levels_tree_from_i (Z.of_nat origin) (zs a) = zs (levels a origin).
Proof.
  unfold py_get_levels_tree_from_i, levels, for_list_brk_p. cbv zeta. rewrite sliceFrom_zs.
  pose proof (levels_loop_code (skipn origin a) [(1%nat, 0%nat)] (-1) []) as H.
  unfold sZ, dZ in H. cbn [map rev fst snd app Z.of_nat Z.sub Z.add Z.opp Z.pos_sub] in H.
  transitivity (snd (for_list_brk_p_aux (zs (skipn origin a)) levels_body ([1], -1, [-1], []))).
  - unfold levels_body. destruct (for_list_brk_p_aux _ _ _) as [[[s1 di1] d1] r1]. reflexivity.
  - apply H; [discriminate|]. constructor; [cbn; lia|constructor].
Qed.
