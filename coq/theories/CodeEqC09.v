(* CodeEqC09.v — the index helpers of utils/__init__.py that walk the arity array of a prefix-encoded tree
   (find_end_subtree_from_i, find_id_args_from_i): whenever the hand-written model (TreeIdx.v, which returns None
   for an out-of-range read) yields a result, the definition GENERATED from the source (gen/GenCode.v) yields
   the same result, for every arity array and every start index. *)
From TF Require Import Py PyLemmas Tree TreeIdx.
From TFG Require Import GenCode.
Open Scope Z_scope.

Definition zs (a : list nat) : list Z := map Z.of_nat a.

Lemma getZ_zs a (i k : nat) : nth_error a i = Some k -> getZ (zs a) (Z.of_nat i) = Z.of_nat k.
Proof.
  intro H. rewrite getZ_nat. unfold zs. change 0 with (Z.of_nat 0). rewrite map_nth.
  f_equal. revert i H; induction a as [|x a IH]; intros [|i] H; simpl in *; try discriminate; [now inversion H|auto].
Qed.

Lemma find_end_loop_code a ds : forall fuel n_index steps e fuel',
  find_end_loop fuel a n_index steps = Some e -> (fuel <= fuel')%nat ->
  while_f fuel' (fun '(possible_steps, n_index0) => negb (possible_steps =? 0))
    (fun '(possible_steps, n_index0) =>
       let possible_steps := possible_steps + (getZ (zs a) n_index0 - 1) in
       let n_index0 := n_index0 + 1 in
       ret (possible_steps, n_index0))
    (Z.of_nat steps, Z.of_nat n_index) ds
  = Some ((0, Z.of_nat e), ds).
Proof.
  induction fuel as [|f IH]; intros n_index steps e fuel' H Hf.
  - destruct steps; simpl in H; [|discriminate]. inversion H; subst.
    destruct fuel'; cbn [while_f]; reflexivity.
  - destruct steps as [|s'].
    + simpl in H. inversion H; subst. destruct fuel'; cbn [while_f]; reflexivity.
    + cbn [find_end_loop] in H. destruct (nth_error a n_index) as [k|] eqn:Ek; [|discriminate].
      destruct fuel' as [|f']; [lia|]. cbn [while_f].
      replace (negb (Z.of_nat (Datatypes.S s') =? 0)) with true by (symmetry; apply negb_true_iff, Z.eqb_neq; lia).
      cbv zeta. rewrite bind_app, ret_app, (getZ_zs _ _ _ Ek).
      replace (Z.of_nat (Datatypes.S s') + (Z.of_nat k - 1)) with (Z.of_nat (s' + k)) by lia.
      replace (Z.of_nat n_index + 1) with (Z.of_nat (Datatypes.S n_index)) by lia.
      apply (IH _ _ _ f' H). lia.
Qed.

Theorem code_find_end_subtree_from_i a (index e : nat) ds :
  find_end a index = Some e ->
  py_find_end_subtree_from_i (Z.of_nat index) (zs a) ds = Some (Z.of_nat e, ds).
Proof.
  unfold find_end, py_find_end_subtree_from_i. intro H.
  destruct (nth_error a index) as [k|] eqn:Ek; [|discriminate].
  cbv zeta. rewrite bind_app. unfold while_ds.
  rewrite (getZ_zs _ _ _ Ek).
  replace (Z.of_nat index + 1) with (Z.of_nat (Datatypes.S index)) by lia.
  pose proof (find_end_loop_code a ds (length a) (Datatypes.S index) k e (length (zs a) + length ds) H) as Hw.
  cbv zeta in Hw. rewrite Hw by (unfold zs; rewrite map_length; lia). reflexivity.
Qed.

(* find_id_args_from_i *)
Lemma find_args_loop_code a ds (body : nat -> list Z -> M (list Z)) :
  (forall j s ds, body j s ds =
     bind (py_find_end_subtree_from_i (getZ s (Z.of_nat j - 1)) (zs a)) (fun r_1 => ret (setA s (Z.of_nat j) r_1)) ds) ->
  forall (n : nat) (prev : nat) r (acc rest : list Z),
  find_args_loop a n prev = Some r -> length rest = n -> acc <> [] -> last acc 0 = Z.of_nat prev ->
  for_idx n (length acc) body (acc ++ rest) ds = Some (acc ++ zs r, ds).
Proof.
  intros Hb n. induction n as [|n IH]; intros prev r acc rest H Hr Hne Hlast.
  - simpl in H. inversion H; subst. destruct rest; [|discriminate]. reflexivity.
  - cbn [find_args_loop] in H. destruct (find_end a prev) as [e|] eqn:Ee; [|discriminate].
    destruct (find_args_loop a n e) as [r'|] eqn:Er; [|discriminate]. inversion H; subst.
    cbn [for_idx]. rewrite bind_app, Hb, bind_app.
    assert (Hget : getZ (acc ++ rest) (Z.of_nat (length acc) - 1) = Z.of_nat prev).
    { destruct acc as [|x acc'] using rev_ind; [congruence|]. clear IHacc'.
      rewrite last_last in Hlast. subst x.
      rewrite app_length. simpl length. replace (Z.of_nat (length acc' + 1) - 1) with (Z.of_nat (length acc')) by lia.
      rewrite getZ_nat, <- app_assoc. rewrite app_nth2 by lia. now rewrite Nat.sub_diag. }
    rewrite Hget, (code_find_end_subtree_from_i _ _ _ _ Ee), ret_app.
    destruct rest as [|z rest']; [discriminate|].
    rewrite setA_nat, upd_app_r. cbn [upd].
    replace (acc ++ Z.of_nat e :: rest') with ((acc ++ [Z.of_nat e]) ++ rest') by now rewrite <- app_assoc.
    replace (Datatypes.S (length acc)) with (length (acc ++ [Z.of_nat e])) by (rewrite app_length; simpl; lia).
    rewrite (IH e r' (acc ++ [Z.of_nat e]) rest' Er); try (simpl in Hr; lia).
    + unfold zs. cbn [map]. now rewrite <- app_assoc.
    + intro E. apply app_eq_nil in E. destruct E; discriminate.
    + apply last_last.
Qed.

Theorem code_find_id_args_from_i a (index : nat) r ds :
  find_args a index = Some r ->
  py_find_id_args_from_i (Z.of_nat index) (zs a) ds = Some (zs r, ds).
Proof.
  unfold find_args, py_find_id_args_from_i. intro H. cbv zeta.
  destruct (nth_error a index) as [k|] eqn:Ek; [|discriminate].
  rewrite (getZ_zs _ _ _ Ek), zerosZ_nat.
  destruct k as [|n].
  - inversion H; subst. cbn [repeat]. reflexivity.
  - destruct (find_args_loop a n (Datatypes.S index)) as [r'|] eqn:Er; [|discriminate]. simpl in H. inversion H; subst.
    assert (Hlen : zlen (repeat 0 (Datatypes.S n)) >? 0 = true).
    { unfold zlen. rewrite repeat_length. apply Z.gtb_lt. lia. }
    rewrite Hlen. cbn [repeat]. change (setA (0 :: repeat 0 n) 0 (Z.of_nat index + 1)) with ((Z.of_nat index + 1) :: repeat 0 n).
    rewrite bind_app. unfold for_range, zlen. cbn [length]. rewrite repeat_length.
    replace (Z.to_nat (Z.of_nat (Datatypes.S n) - 1)) with n by lia.
    change 1 with (Z.of_nat 1) at 1. rewrite for_nat_idx.
    replace (Z.of_nat index + 1) with (Z.of_nat (Datatypes.S index)) by lia.
    pose proof (find_args_loop_code a ds
      (fun j out => bind (py_find_end_subtree_from_i (getZ out (Z.of_nat j - 1)) (zs a)) (fun r_1 => ret (setA out (Z.of_nat j) r_1)))
      (fun _ _ _ => eq_refl) n (Datatypes.S index) r' [Z.of_nat (Datatypes.S index)] (repeat 0 n) Er (repeat_length _ _)) as Hl.
    cbn [length app] in Hl. rewrite Hl; [reflexivity|discriminate|reflexivity].
Qed.
