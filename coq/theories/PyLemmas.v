(* PyLemmas.v — reasoning principles for the combinators of Py.v (used by the CodeEq*.v files, which prove
   the hand-written models equal to the definitions generated from the source). *)
From TF Require Import Py.
Open Scope Z_scope.

(* ---------- indices ---------- *)
Lemma zlen_nonneg {A} (l : list A) : 0 <= zlen l.
Proof. unfold zlen; lia. Qed.
Lemma pyidx_nat n (k : nat) : pyidx n (Z.of_nat k) = k.
Proof. unfold pyidx. destruct (Z.of_nat k <? 0) eqn:E; [lia|]. apply Nat2Z.id. Qed.
Lemma pyidx_nonneg n i : 0 <= i -> pyidx n i = Z.to_nat i.
Proof. intro H. unfold pyidx. destruct (i <? 0) eqn:E; [lia|reflexivity]. Qed.
Lemma pyidx_last n : 0 < n -> pyidx n (-1) = (Z.to_nat n - 1)%nat.
Proof. intro H. unfold pyidx. replace (-1 <? 0) with true by reflexivity. lia. Qed.

Lemma getZ_nat l (k : nat) : getZ l (Z.of_nat k) = nth k l 0.
Proof. unfold getZ. now rewrite pyidx_nat. Qed.
Lemma getQ_nat l (k : nat) : getQ l (Z.of_nat k) = nth k l 0%Q.
Proof. unfold getQ. now rewrite pyidx_nat. Qed.
Lemma getR_nat {A} (l : list (list A)) (k : nat) : getR l (Z.of_nat k) = nth k l [].
Proof. unfold getR. now rewrite pyidx_nat. Qed.
Lemma setA_nat {A} (l : list A) (k : nat) x : setA l (Z.of_nat k) x = upd l k x.
Proof. unfold setA. now rewrite pyidx_nat. Qed.
Lemma getZ_nonneg l i : 0 <= i -> getZ l i = nth (Z.to_nat i) l 0.
Proof. intro H. unfold getZ. now rewrite pyidx_nonneg. Qed.
Lemma getQ_nonneg l i : 0 <= i -> getQ l i = nth (Z.to_nat i) l 0%Q.
Proof. intro H. unfold getQ. now rewrite pyidx_nonneg. Qed.
Lemma getR_nonneg {A} (l : list (list A)) i : 0 <= i -> getR l i = nth (Z.to_nat i) l [].
Proof. intro H. unfold getR. now rewrite pyidx_nonneg. Qed.
Lemma setA_nonneg {A} (l : list A) i x : 0 <= i -> setA l i x = upd l (Z.to_nat i) x.
Proof. intro H. unfold setA. now rewrite pyidx_nonneg. Qed.
Lemma getZ_0 l : getZ l 0 = nth 0 l 0.
Proof. exact (getZ_nat l 0). Qed.
Lemma getQ_0 l : getQ l 0 = nth 0 l 0%Q.
Proof. exact (getQ_nat l 0). Qed.
Lemma getR_0 {A} (l : list (list A)) : getR l 0 = nth 0 l [].
Proof. exact (getR_nat l 0). Qed.
Lemma getR_1 {A} (l : list (list A)) : getR l 1 = nth 1 l [].
Proof. exact (getR_nat l 1). Qed.
Lemma getZ_1 l : getZ l 1 = nth 1 l 0.
Proof. exact (getZ_nat l 1). Qed.
Lemma getQ_last l : getQ l (-1) = nth (length l - 1) l 0%Q.
Proof.
  unfold getQ, pyidx, zlen. replace (-1 <? 0) with true by reflexivity.
  destruct l as [|x t]; [reflexivity|]. f_equal. cbn [length]. lia.
Qed.
Lemma setA_length {A} (l : list A) i x : length (setA l i x) = length l.
Proof. apply upd_length. Qed.
Lemma zerosZ_length n : length (zerosZ n) = Z.to_nat n.
Proof. apply repeat_length. Qed.
Lemma zerosZ_nat (n : nat) : zerosZ (Z.of_nat n) = repeat 0 n.
Proof. unfold zerosZ. now rewrite Nat2Z.id. Qed.

Lemma upd_same {A} (l : list A) i d : upd l i (nth i l d) = l.
Proof. revert i; induction l as [|h t IH]; intros [|i]; simpl; auto. now rewrite IH. Qed.
Lemma upd_app_r {A} (a b : list A) x : upd (a ++ b) (length a) x = a ++ upd b 0 x.
Proof. induction a as [|h t IH]; simpl; auto. now rewrite IH. Qed.
Lemma upd_out {A} (l : list A) i x : (length l <= i)%nat -> upd l i x = l.
Proof. revert i; induction l as [|h t IH]; intros [|i] H; simpl in *; auto; try lia. now rewrite IH by lia. Qed.

(* ---------- for loops as folds over nat indices ---------- *)

Lemma fold_left_ext {A B} (f g : A -> B -> A) l a :
  (forall a b, f a b = g a b) -> fold_left f l a = fold_left g l a.
Proof. intro H. revert a; induction l as [|x t IH]; intro a; simpl; [reflexivity|]. now rewrite H, IH. Qed.

Lemma fold_left_map' {A B C} (f : A -> C -> A) (g : B -> C) l a :
  fold_left f (map g l) a = fold_left (fun a b => f a (g b)) l a.
Proof. revert a; induction l as [|x t IH]; intro a; simpl; auto. Qed.

Lemma for_nat_p_fold {S} k lo (body : Z -> S -> S) s :
  for_nat_p k lo body s = fold_left (fun s j => body (lo + Z.of_nat j) s) (seq 0 k) s.
Proof.
  revert lo s; induction k as [|k IH]; intros lo s; [reflexivity|].
  cbn [for_nat_p seq fold_left]. rewrite IH, <- seq_shift, fold_left_map'.
  replace (lo + Z.of_nat 0) with lo by lia.
  apply fold_left_ext. intros a b. f_equal. lia.
Qed.
Lemma for_range_p_0 {S} (n : nat) (body : Z -> S -> S) s :
  for_range_p 0 (Z.of_nat n) s body = fold_left (fun s j => body (Z.of_nat j) s) (seq 0 n) s.
Proof.
  unfold for_range_p. rewrite Z.sub_0_r, Nat2Z.id, for_nat_p_fold. now apply fold_left_ext.
Qed.

(* monadic for loop, nat-indexed view *)
Fixpoint for_idx {S} (k : nat) (i : nat) (body : nat -> S -> M S) (s : S) : M S :=
  match k with O => ret s | Datatypes.S k' => s' <- body i s ;; for_idx k' (Datatypes.S i) body s' end.
Lemma for_nat_idx {S} k (i : nat) (body : Z -> S -> M S) s ds :
  for_nat k (Z.of_nat i) body s ds = for_idx k i (fun j => body (Z.of_nat j)) s ds.
Proof.
  revert i s ds; induction k as [|k IH]; intros i s ds; [reflexivity|].
  cbn [for_nat for_idx]. unfold bind. destruct (body (Z.of_nat i) s ds) as [[s' ds']|]; [|reflexivity].
  replace (Z.of_nat i + 1) with (Z.of_nat (Datatypes.S i)) by lia. apply IH.
Qed.
Lemma for_range_0 {S} (n : nat) (body : Z -> S -> M S) s ds :
  for_range 0 (Z.of_nat n) s body ds = for_idx n 0 (fun j => body (Z.of_nat j)) s ds.
Proof. unfold for_range. rewrite Z.sub_0_r, Nat2Z.id. exact (for_nat_idx n 0 body s ds). Qed.
Lemma for_idx_ext {S} k i (b1 b2 : nat -> S -> M S) s ds :
  (forall j s ds, (i <= j < i + k)%nat -> b1 j s ds = b2 j s ds) -> for_idx k i b1 s ds = for_idx k i b2 s ds.
Proof.
  revert i s ds; induction k as [|k IH]; intros i s ds H; [reflexivity|].
  cbn [for_idx]. unfold bind. rewrite H by lia. destruct (b2 i s ds) as [[s' ds']|]; [|reflexivity].
  apply IH. intros; apply H; lia.
Qed.

(* ---------- pointwise array loops ---------- *)
(* a loop whose iteration i only rewrites position i, as a function of the old value there *)
Lemma fold_pointwise_nth {A} (d : A) (step : list A -> nat -> list A) (h : nat -> A -> A) :
  (forall st i, (i < length st)%nat -> step st i = upd st i (h i (nth i st d))) ->
  forall k m st, (m + k <= length st)%nat ->
    length (fold_left step (seq m k) st) = length st /\
    forall j, nth j (fold_left step (seq m k) st) d
              = if ((m <=? j) && (j <? m + k))%nat then h j (nth j st d) else nth j st d.
Proof.
  intros Hstep k; induction k as [|k IH]; intros m st Hlen.
  - simpl. split; [reflexivity|]. intro j.
    destruct ((m <=? j) && (j <? m + 0))%nat eqn:E; [|reflexivity].
    apply andb_prop in E. destruct E as [E1 E2]. apply Nat.leb_le in E1. apply Nat.ltb_lt in E2. lia.
  - cbn [seq fold_left]. rewrite Hstep by lia.
    destruct (IH (Datatypes.S m) (upd st m (h m (nth m st d)))) as [L N]; [rewrite upd_length; lia|].
    split; [now rewrite L, upd_length|]. intro j. rewrite N.
    destruct (Nat.eq_dec j m) as [->|Hne].
    + replace ((Datatypes.S m <=? m) && (m <? Datatypes.S m + k))%nat with false
        by (symmetry; apply andb_false_iff; left; apply Nat.leb_gt; lia).
      replace ((m <=? m) && (m <? m + Datatypes.S k))%nat with true
        by (symmetry; apply andb_true_iff; split; [apply Nat.leb_le|apply Nat.ltb_lt]; lia).
      apply nth_upd_eq. lia.
    + rewrite nth_upd_neq by congruence.
      replace ((Datatypes.S m <=? j) && (j <? Datatypes.S m + k))%nat with ((m <=? j) && (j <? m + Datatypes.S k))%nat; [reflexivity|].
      destruct (m <=? j)%nat eqn:E1, (Datatypes.S m <=? j)%nat eqn:E2,
               (j <? m + Datatypes.S k)%nat eqn:E3, (j <? Datatypes.S m + k)%nat eqn:E4; try reflexivity;
        repeat match goal with
               | H : (_ <=? _)%nat = true |- _ => apply Nat.leb_le in H
               | H : (_ <=? _)%nat = false |- _ => apply Nat.leb_gt in H
               | H : (_ <? _)%nat = true |- _ => apply Nat.ltb_lt in H
               | H : (_ <? _)%nat = false |- _ => apply Nat.ltb_ge in H
               end; lia.
Qed.

Lemma fold_pointwise_all {A} (d : A) (step : list A -> nat -> list A) (h : nat -> A -> A) st :
  (forall st i, (i < length st)%nat -> step st i = upd st i (h i (nth i st d))) ->
  fold_left step (seq 0 (length st)) st = map (fun i => h i (nth i st d)) (seq 0 (length st)).
Proof.
  intro H. destruct (fold_pointwise_nth d step h H (length st) 0 st) as [L N]; [lia|].
  apply (nth_ext _ _ d (h 0%nat d)).
  - now rewrite L, map_length, seq_length.
  - intros j Hj. rewrite L in Hj. rewrite N.
    replace ((0 <=? j) && (j <? 0 + length st))%nat with true
      by (symmetry; apply andb_true_iff; split; [apply Nat.leb_le|apply Nat.ltb_lt]; lia).
    rewrite (nth_indep _ (h 0%nat d) (h j (nth j st d))) by now rewrite map_length, seq_length.
    change (h j (nth j st d)) with ((fun i => h i (nth i st d)) j) at 2.
    rewrite map_nth. now rewrite seq_nth by lia.
Qed.

Lemma bind_app {A B} (m : M A) (k : A -> M B) ds :
  bind m k ds = match m ds with Some (a, ds') => k a ds' | None => None end.
Proof. reflexivity. Qed.
Lemma ret_app {A} (a : A) ds : ret a ds = Some (a, ds).
Proof. reflexivity. Qed.
