(* Split.v — model of the parallel-evaluation path of
   /repo/src/thefittest/base/_ea.py  (C16).  Definitions only; proofs are in SplitProofs.v.

     _get_n_jobs        -> get_n_jobs (repaired code), get_n_jobs_orig (code before the repair)
     _split_population  -> split_population  (inner = indexes[1:-1];  np_split = numpy.split)
     _get_phenotype     -> get_phenotype
     _get_fitness       -> get_fitness
     fit() loop (only what C16 needs: every generation goes through the two functions above) -> run

   numpy.linspace(0, pop, n+1, dtype=int64) is NOT modelled here by a formula: the theorems
   quantify over every cut vector in [Envelope]; the bit-exact float model is SplitFloat.v. *)
From Coq Require Import List ZArith Bool.
Import ListNotations.
Open Scope Z_scope.

(* ------------------------------------------------------------------ _get_n_jobs *)
(* cpu = joblib.cpu_count(); pop = self._pop_size; None = raise ValueError *)

(* before the repair:
     if n_jobs < 0: return max(cpu_count() + 1 + n_jobs, 1)
     elif n_jobs == 0: raise ValueError
     elif n_jobs > self._pop_size: return self._pop_size
     else: return n_jobs                                                     *)
Definition get_n_jobs_orig (cpu pop n : Z) : option Z :=
  if n <? 0 then Some (Z.max (cpu + 1 + n) 1)
  else if n =? 0 then None
  else if pop <? n then Some pop
  else Some n.

(* repaired:
     if n_jobs < 0: return min(max(cpu_count() + 1 + n_jobs, 1), self._pop_size)   *)
Definition get_n_jobs (cpu pop n : Z) : option Z :=
  if n <? 0 then Some (Z.min (Z.max (cpu + 1 + n) 1) pop)
  else if n =? 0 then None
  else if pop <? n then Some pop
  else Some n.

(* ------------------------------------------------------------------ cut points *)
Definition Zseq (a : Z) (len : nat) : list Z := map (fun i => a + Z.of_nat i) (seq 0 len).

(* the n+1 points  [c 0; c 1; ...; c n]  of a cut function *)
Definition cut_points (c : Z -> Z) (n : Z) : list Z := map c (Zseq 0 (Z.to_nat n + 1)).
(* and back: the cut function of a list of points *)
Definition cut_fn (pts : list Z) : Z -> Z := fun k => nth (Z.to_nat k) pts 0.

(* what an exact linspace would give *)
Definition cut_floor (pop n : Z) : Z -> Z := fun k => k * pop / n.

(* what numpy.linspace(0, pop, n+1, dtype=int64) is known to satisfy (DESIGN §6 C16): the
   end points are exact, and an inner cut is the floor of k*pop/n, or one less, the latter only
   where the exact quotient k*pop/n is an integer while the step pop/n is not. *)
Definition Envelope (pop n : Z) (c : Z -> Z) : Prop :=
  c 0 = 0 /\ c n = pop /\
  forall k, 0 < k < n ->
    c k = k * pop / n \/
    ((k * pop) mod n = 0 /\ pop mod n <> 0 /\ c k = k * pop / n - 1).

(* ------------------------------------------------------------------ numpy.split *)
(* Python slice  xs[a:b]  for 0 <= a, 0 <= b *)
Definition slice {A} (a b : nat) (xs : list A) : list A := firstn (b - a) (skipn a xs).

(* indexes[1:-1] *)
Definition inner {A} (l : list A) : list A := removelast (tl l).

(* sub-arrays between consecutive division points *)
Fixpoint slices {A} (pts : list nat) (xs : list A) : list (list A) :=
  match pts with
  | a :: t => match t with
              | b :: _ => slice a b xs :: slices t xs
              | [] => []
              end
  | [] => []
  end.

(* numpy.split(ary, indices) for a list of indices (numpy.array_split):
     div_points = [0] + list(indices) + [Ntotal];  sub_arys[i] = ary[div_points[i]:div_points[i+1]] *)
Definition np_split {A} (indices : list nat) (xs : list A) : list (list A) :=
  slices (0%nat :: indices ++ [length xs]) xs.

(* _split_population, given the value of
     np.linspace(start=0, stop=self._pop_size, num=self._n_jobs + 1, dtype=np.int64) *)
Definition split_population {A} (linspace : list Z) (xs : list A) : list (list A) :=
  np_split (map Z.to_nat (inner linspace)) xs.

(* ------------------------------------------------------------------ evaluation *)
Section Eval.
  Variables G P F : Type.
  (* joblib:  self._parallel(delayed(f)(chunk) for chunk in chunks)  — a list of results;
     that it is in submission order is a hypothesis of the theorems, not part of the model *)
  Variable parallel : forall X Y : Type, (X -> Y) -> list X -> list Y.

  (* _get_phenotype; g2p = None: population_ph = population_g (needs P = G; modelled by passing
     g2p = Some id-like function or None together with a coercion) *)
  Definition get_phenotype (g2p : option (list G -> list P)) (coerce : list G -> list P)
             (n_jobs : Z) (linspace : list Z) (pop_g : list G) : list P :=
    match g2p with
    | Some f =>
        if 1 <? n_jobs
        then concat (parallel _ _ f (split_population linspace pop_g))
        else f pop_g
    | None => coerce pop_g
    end.

  (* _get_fitness: returns (value, new self._calls); the multiplication by _sign is C05's *)
  Definition get_fitness (fit : list P -> list F) (n_jobs : Z) (linspace : list Z)
             (calls : Z) (pop_ph : list P) : list F * Z :=
    let value := if 1 <? n_jobs
                 then concat (parallel _ _ fit (split_population linspace pop_ph))
                 else fit pop_ph in
    (value, calls + Z.of_nat (length value)).

  (* _from_population_g_to_fitness, evaluation part *)
  Definition evaluate g2p coerce fit n_jobs linspace calls (pop_g : list G)
    : list P * list F * Z :=
    let ph := get_phenotype g2p coerce n_jobs linspace pop_g in
    let '(v, calls') := get_fitness fit n_jobs linspace calls ph in
    (ph, v, calls').

  (* the generation loop as far as C16 is concerned: an arbitrary optimizer state S; the next
     population is a function of the state ([next], with its draws folded into the state); the
     state is updated from what the evaluation returned ([update]).  [trace] collects what
     get_stats() would record. *)
  Section Run.
    Variable S : Type.
    Variable next : S -> list G.
    Variable update : S -> list G -> list P -> list F -> S.
    Fixpoint run g2p coerce fit n_jobs linspace (iters : nat) (st : S) (calls : Z)
             (trace : list (list G * list P * list F))
      : S * Z * list (list G * list P * list F) :=
      match iters with
      | O => (st, calls, trace)
      | Datatypes.S it =>
          let g := next st in
          let '(ph, v, calls') := evaluate g2p coerce fit n_jobs linspace calls g in
          run g2p coerce fit n_jobs linspace it (update st g ph v) calls' (trace ++ [(g, ph, v)])
      end.
  End Run.
End Eval.
