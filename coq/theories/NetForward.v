(* NetForward.v — model of the compiled evaluation of a Net (C12).  Model only, no proofs.

   Sources modelled (/repo/src/thefittest/utils/__init__.py):
     forward          one pass over the cached schedule with a weight vector and the node buffer
     forward2d        np.empty buffer, nodes[inputs] = X.T[inputs], loop over the weight rows
                      with ONE reused buffer, outs[n] = nodes[outputs].T
     multiactivation2d / softmax_numba  are abstract:  act code  (codes 0..4, elementwise)
                      and  smx  (code 5, jointly over the listed nodes)
   and Net.forward (base/_net.py): schedule from _get_order, own weights or the given batch.

   Scalars K are weights; a node value V is the row of that node over all samples (V = K for a
   single sample); only  vadd / vscale  are used, so the samples are never mixed by construction
   of the model — that the real code treats samples independently is checked by the
   correspondence (model run per sample against the batched real call).
   The np.empty buffer is an arbitrary list [garbage]; theorems hold for every garbage.         *)
From TF Require Import Base Net NetOrder.
Local Open Scope nat_scope.

Section Forward.
  Variables K V : Type.
  Variable kzero : K.
  Variable vzero : V.
  Variable vadd : V -> V -> V.
  Variable vscale : K -> V -> V.
  Variable act : nat -> V -> V.
  Variable smx : list V -> list V.

  Definition rd (buf : list V) (i : nat) : V := nth i buf vzero.

  (* np.dot(nodes[from_i].T, weights_i.T) for one target: sum_k w_k * v_k, k ascending *)
  Definition dot (ws : list K) (vs : list V) : V :=
    fold_left (fun acc p => vadd acc (vscale (fst p) (snd p))) (combine ws vs) vzero.

  (* nodes[ids] = vals  (row by row; a repeated id keeps the last value, as numpy does) *)
  Fixpoint write_all (buf : list V) (ids : list nat) (vals : list V) : list V :=
    match ids, vals with
    | i :: ids', v :: vals' => write_all (upd buf i v) ids' vals'
    | _, _ => buf
    end.

  (* nodes[a_nodes] = multiactivation2d(nodes[a_nodes].T, code).T *)
  Definition apply_act (buf : list V) (cg : nat * list nat) : list V :=
    let vals := map (rd buf) (snd cg) in
    write_all buf (snd cg) (if fst cg =? 5 then smx vals else map (act (fst cg)) vals).

  (* one iteration of the loop in forward *)
  Definition forward_group (w : list K) (buf : list V) (g : group) : list V :=
    let srcs := map (rd buf) (g_from g) in
    let outs := map (fun wids => dot (map (fun i => nth i w kzero) wids) srcs) (g_wid g) in
    fold_left apply_act (g_act g) (write_all buf (g_to g) outs).

  Definition forward (w : list K) (buf : list V) (s : list group) : list V :=
    fold_left (forward_group w) s buf.

  (* nodes = np.empty(...); nodes[inputs] = X.T[inputs]   (x = columns of X, indexed by input id) *)
  Definition init_buf (garbage : list V) (inputs : list nat) (x : list V) : list V :=
    write_all garbage inputs (map (fun i => nth i x vzero) inputs).

  (* for n in range(len(weights)): forward(weights[n], nodes, ...); outs[n] = nodes[outputs].T *)
  Fixpoint forward_rows (ws : list (list K)) (buf : list V) (outputs : list nat) (s : list group)
    : list (list V) :=
    match ws with
    | [] => []
    | w :: r =>
      let buf' := forward w buf s in
      map (rd buf') outputs :: forward_rows r buf' outputs s
    end.

  Definition forward2d (garbage : list V) (x : list V) (inputs outputs : list nat)
             (s : list group) (ws : list (list K)) : list (list V) :=
    forward_rows ws (init_buf garbage inputs x) outputs s.

  (* Net.forward(X, weights): None = _get_order does not finish within [fuel] passes *)
  Definition net_forward (fuel : nat) (n : net) (garbage : list V) (x : list V)
             (ws : list (list K)) : option (list (list V)) :=
    match get_order fuel n with
    | Some s => Some (forward2d garbage x (n_in n) (n_out n) s ws)
    | None => None
    end.

  (* ------------------------------------------------------------------------------------------
     reference semantics of the graph, independent of any schedule:
       value(v) = x_v                                      for an input
       value(v) = act_v (sum over rows (a, v) of w_row * value(a))   otherwise,
     rows in connection-list order (duplicates add up), softmax jointly over all code-5 nodes
     (ascending id).  Recursion on fuel = the rank of the node.                                *)
  Definition pre_of (con : list (nat * nat)) (w : list K) (val : nat -> V) (v : nat) : V :=
    let es := entries_from 0 con v in
    dot (map (fun e => nth (snd e) w kzero) es) (map (fun e => val (fst e)) es).

  Definition sm_nodes (n : net) : list nat :=
    sort_nat (map fst (filter (fun p => snd p =? 5) (n_act n))).

  Fixpoint index_of (v : nat) (l : list nat) : nat :=
    match l with
    | [] => 0
    | h :: t => if v =? h then 0 else S (index_of v t)
    end.

  Fixpoint ref_val (n : net) (w : list K) (x : list V) (fuel : nat) (v : nat) : V :=
    match fuel with
    | O => nth v x vzero
    | S f =>
      if mem v (n_in n) then nth v x vzero
      else
        let pre := pre_of (n_con n) w (ref_val n w x f) in
        match alookup v (n_act n) with
        | Some c =>
          if c =? 5 then nth (index_of v (sm_nodes n)) (smx (map pre (sm_nodes n))) vzero
          else act c (pre v)
        | None => vzero
        end
    end.

  Definition ref_eval (n : net) (w : list K) (x : list V) : list V :=
    map (ref_val n w x (S (S (length (n_hid n))))) (n_out n).
End Forward.
