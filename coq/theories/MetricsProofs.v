(* MetricsProofs.v — the metric loops of Metrics.v equal the textbook (counting / summation)
   definitions, for all inputs (C19).  Part 1: classification metrics and batch variants. *)
From TF Require Import Base Metrics.
From Coq Require Import Permutation.
Open Scope Q_scope.

(* ------------------------------------------------------------------ sums *)
Lemma qsum_app1 l x : qsum (l ++ [x]) = qsum l + x.
Proof. unfold qsum. rewrite fold_left_app. reflexivity. Qed.

Lemma qsum_map_seq (f : nat -> Q) n : qsum (map f (seq 0 n)) = sum_upto n f.
Proof.
  induction n as [|n IH]; [reflexivity|].
  rewrite seq_S, map_app. change (map f [(0 + n)%nat]) with [f n].
  rewrite qsum_app1. simpl. now rewrite IH.
Qed.

Lemma sum_upto_ext_lt n (f g : nat -> Q) :
  (forall i, (i < n)%nat -> f i = g i) -> sum_upto n f = sum_upto n g.
Proof.
  induction n as [|n IH]; intros H; simpl; [reflexivity|].
  rewrite IH by (intros; apply H; lia). rewrite H by lia. reflexivity.
Qed.

Lemma sum_upto_eqv n (f g : nat -> Q) :
  (forall i, (i < n)%nat -> f i == g i) -> sum_upto n f == sum_upto n g.
Proof.
  induction n as [|n IH]; intros H; simpl; [reflexivity|].
  rewrite IH by (intros; apply H; lia). rewrite (H n) by lia. reflexivity.
Qed.

(* ------------------------------------------------------------------ index loops = zip *)
Lemma combine_nth_seq {A B} (da : A) (db : B) (y : list A) (p : list B) : length p = length y ->
  combine y p = map (fun i => (nth i y da, nth i p db)) (seq 0 (length y)).
Proof.
  revert p; induction y as [|a y IH]; intros [|b p] H; simpl in *; try discriminate; auto.
  f_equal. rewrite <- seq_shift, map_map. simpl. apply IH. lia.
Qed.

Lemma fold_left_map {A B C} (f : A -> B -> A) (g : C -> B) l a :
  fold_left f (map g l) a = fold_left (fun s c => f s (g c)) l a.
Proof. revert a; induction l; simpl; auto. Qed.

Lemma over_samples_combine {S} (step : S -> nat -> nat -> S) y p s0 : length p = length y ->
  over_samples step y p s0 = fold_left (fun s tq => step s (fst tq) (snd tq)) (combine y p) s0.
Proof.
  intros H. rewrite (combine_nth_seq 0%nat 0%nat y p H), fold_left_map. reflexivity.
Qed.

(* ------------------------------------------------------------------ counters *)
Lemma nth_repeat_lt {A} (a d : A) m i : (i < m)%nat -> nth i (repeat a m) d = a.
Proof. revert i; induction m; intros [|i] H; simpl; try lia; auto. apply IHm; lia. Qed.

Lemma incr_length h i : length (incr h i) = length h.
Proof. apply upd_length. Qed.

Lemma nth_incr h i j : (j < length h)%nat ->
  nth j (incr h i) 0%nat = if (i =? j)%nat then S (nth j h 0%nat) else nth j h 0%nat.
Proof.
  intros H. unfold incr. destruct (Nat.eqb_spec i j).
  - subst. apply nth_upd_eq; auto.
  - apply nth_upd_neq; auto.
Qed.

Lemma count_cons {A} (f : A -> bool) a l :
  count f (a :: l) = ((if f a then 1 else 0) + count f l)%nat.
Proof. unfold count; simpl. destruct (f a); reflexivity. Qed.

Lemma count_ext {A} (f g : A -> bool) l : (forall x, f x = g x) -> count f l = count g l.
Proof. intros H. unfold count. now rewrite (filter_ext _ _ H). Qed.

Lemma count_le_length {A} (f : A -> bool) l : (count f l <= length l)%nat.
Proof. induction l; [apply Nat.le_refl|]. rewrite count_cons; simpl. destruct (f a); lia. Qed.

(* one counter array updated at an index selected from the sample *)
Definition bump (sel : nat * nat -> option nat) (h : list nat) (x : nat * nat) : list nat :=
  match sel x with Some i => incr h i | None => h end.
Definition hits (sel : nat * nat -> option nat) (i : nat) (x : nat * nat) : bool :=
  match sel x with Some j => (j =? i)%nat | None => false end.

Lemma bump_length sel h x : length (bump sel h x) = length h.
Proof. unfold bump. destruct (sel x); auto using incr_length. Qed.

Lemma hist_spec sel l : forall h i, (i < length h)%nat ->
  nth i (fold_left (bump sel) l h) 0%nat = (nth i h 0 + count (hits sel i) l)%nat.
Proof.
  induction l as [|x l IH]; intros h i Hi; simpl.
  - unfold count; simpl; lia.
  - rewrite IH by (rewrite bump_length; exact Hi). rewrite count_cons.
    unfold bump, hits. destruct (sel x) as [j|]; [|lia].
    rewrite nth_incr by exact Hi. destruct (j =? i)%nat; lia.
Qed.

Definition sel_tp (x : nat * nat) := if (fst x =? snd x)%nat then Some (fst x) else None.
Definition sel_fn (x : nat * nat) := if (fst x =? snd x)%nat then None else Some (fst x).
Definition sel_fp (x : nat * nat) := if (fst x =? snd x)%nat then None else Some (snd x).

Lemma hits_tp c x : hits sel_tp c x = ((fst x =? c)%nat && (snd x =? c)%nat).
Proof.
  destruct x as [t q]; unfold hits, sel_tp; simpl.
  destruct (Nat.eqb_spec t q), (Nat.eqb_spec t c), (Nat.eqb_spec q c); simpl; auto; lia.
Qed.
Lemma hits_fn c x : hits sel_fn c x = ((fst x =? c)%nat && negb (snd x =? c)%nat).
Proof.
  destruct x as [t q]; unfold hits, sel_fn; simpl.
  destruct (Nat.eqb_spec t q), (Nat.eqb_spec t c), (Nat.eqb_spec q c); simpl; auto; lia.
Qed.
Lemma hits_fp c x : hits sel_fp c x = (negb (fst x =? c)%nat && (snd x =? c)%nat).
Proof.
  destruct x as [t q]; unfold hits, sel_fp; simpl.
  destruct (Nat.eqb_spec t q), (Nat.eqb_spec t c), (Nat.eqb_spec q c); simpl; auto; lia.
Qed.

Lemma counter_tp k l c : (c < k)%nat ->
  nth c (fold_left (bump sel_tp) l (zeros k)) 0%nat
  = count (fun tq => (fst tq =? c)%nat && (snd tq =? c)%nat) l.
Proof.
  intros H. rewrite hist_spec by (unfold zeros; rewrite repeat_length; exact H).
  unfold zeros; rewrite nth_repeat_lt by exact H. simpl. apply count_ext, hits_tp.
Qed.
Lemma counter_fn k l c : (c < k)%nat ->
  nth c (fold_left (bump sel_fn) l (zeros k)) 0%nat
  = count (fun tq => (fst tq =? c)%nat && negb (snd tq =? c)%nat) l.
Proof.
  intros H. rewrite hist_spec by (unfold zeros; rewrite repeat_length; exact H).
  unfold zeros; rewrite nth_repeat_lt by exact H. simpl. apply count_ext, hits_fn.
Qed.
Lemma counter_fp k l c : (c < k)%nat ->
  nth c (fold_left (bump sel_fp) l (zeros k)) 0%nat
  = count (fun tq => negb (fst tq =? c)%nat && (snd tq =? c)%nat) l.
Proof.
  intros H. rewrite hist_spec by (unfold zeros; rewrite repeat_length; exact H).
  unfold zeros; rewrite nth_repeat_lt by exact H. simpl. apply count_ext, hits_fp.
Qed.

(* ------------------------------------------------------------------ number of classes *)
Lemma n_classes_label_encoded k y : label_encoded k y -> n_classes y = k.
Proof.
  intros H. unfold n_classes. rewrite <- (seq_length k 0).
  apply Permutation_length, NoDup_Permutation.
  - apply NoDup_nodup.
  - apply seq_NoDup.
  - intros c. rewrite nodup_In, in_seq, (H c). lia.
Qed.

Lemma admissible_pos k y p : admissible k y p -> (0 < k)%nat /\ (0 < length y)%nat.
Proof.
  intros (Hne & Hle & _). destruct y as [|a y]; [congruence|]. split; [|simpl; lia].
  assert (a < k)%nat by (apply Hle; left; reflexivity). lia.
Qed.

(* ------------------------------------------------------------------ accuracy *)
Lemma fold_add_indicator {A} (f : A -> bool) l : forall acc,
  fold_left Z.add (map (fun x => if f x then 1%Z else 0%Z) l) acc = (acc + Z.of_nat (count f l))%Z.
Proof.
  induction l as [|x l IH]; intros acc; simpl.
  - unfold count; simpl; lia.
  - rewrite IH, count_cons. destruct (f x); lia.
Qed.

Theorem accuracy_spec y p : length p = length y ->
  accuracy_score y p = Qn (pairs_count Nat.eqb y p) / Qn (length y).
Proof.
  intros H. unfold accuracy_score, pairs_count.
  rewrite (fold_add_indicator (fun tq => (fst tq =? snd tq)%nat)), map_length, combine_length, H, Nat.min_id.
  reflexivity.
Qed.

(* ------------------------------------------------------------------ confusion matrix *)
Lemma cm_step_length cm x : length (cm_step cm x) = length cm.
Proof. apply upd_length. Qed.

Lemma cm_step_nth cm x i : (i < length cm)%nat ->
  nth i (cm_step cm x) [] = if (fst x =? i)%nat then incr (nth i cm []) (snd x) else nth i cm [].
Proof.
  intros H. unfold cm_step. destruct (Nat.eqb_spec (fst x) i) as [E|E].
  - rewrite E. apply nth_upd_eq; auto.
  - apply nth_upd_neq; auto.
Qed.

Lemma cm_fold_spec l : forall cm i j, (i < length cm)%nat -> (j < length (nth i cm []))%nat ->
  length (fold_left cm_step l cm) = length cm /\
  length (nth i (fold_left cm_step l cm) []) = length (nth i cm []) /\
  nth j (nth i (fold_left cm_step l cm) []) 0%nat
  = (nth j (nth i cm []) 0 + count (fun tq => (fst tq =? i)%nat && (snd tq =? j)%nat) l)%nat.
Proof.
  induction l as [|x l IH]; intros cm i j Hi Hj; simpl.
  - unfold count; simpl. repeat split; lia.
  - assert (Hi' : (i < length (cm_step cm x))%nat) by (rewrite cm_step_length; exact Hi).
    assert (Hrow : length (nth i (cm_step cm x) []) = length (nth i cm [])).
    { rewrite cm_step_nth by exact Hi. destruct (fst x =? i)%nat; auto using incr_length. }
    destruct (IH (cm_step cm x) i j Hi' ltac:(rewrite Hrow; exact Hj)) as (L1 & L2 & L3).
    rewrite L1, L2, L3, cm_step_length, Hrow, count_cons. repeat split; auto.
    rewrite cm_step_nth by exact Hi.
    destruct (fst x =? i)%nat; simpl; [|lia].
    rewrite nth_incr by exact Hj. destruct (snd x =? j)%nat; lia.
Qed.

Theorem confusion_matrix_spec k y p : admissible k y p ->
  length (confusion_matrix y p) = k /\
  (forall i, (i < k)%nat -> length (nth i (confusion_matrix y p) []) = k) /\
  (forall i j, (i < k)%nat -> (j < k)%nat ->
     nth j (nth i (confusion_matrix y p) []) 0%nat
     = pairs_count (fun t q => (t =? i)%nat && (q =? j)%nat) y p).
Proof.
  intros (_ & Hle & _ & _). unfold confusion_matrix. rewrite (n_classes_label_encoded k y Hle).
  assert (L0 : length (repeat (zeros k) k) = k) by apply repeat_length.
  assert (R0 : forall i, (i < k)%nat -> nth i (repeat (zeros k) k) [] = zeros k)
    by (intros; apply nth_repeat_lt; auto).
  assert (Z0 : length (zeros k) = k) by apply repeat_length.
  split; [|split].
  - destruct k as [|k']; [|].
    + simpl. clear. induction (combine y p) as [|x l IH]; simpl; auto.
    + destruct (cm_fold_spec (combine y p) (repeat (zeros (S k')) (S k')) 0%nat 0%nat) as (L & _);
        [rewrite L0; lia | rewrite R0, Z0 by lia; lia | ]. rewrite L, L0. reflexivity.
  - intros i Hi.
    destruct (cm_fold_spec (combine y p) (repeat (zeros k) k) i 0%nat) as (_ & L & _);
      [rewrite L0; exact Hi | rewrite R0, Z0 by exact Hi; lia | ]. rewrite L, R0, Z0 by exact Hi. reflexivity.
  - intros i j Hi Hj.
    destruct (cm_fold_spec (combine y p) (repeat (zeros k) k) i j) as (_ & _ & L);
      [rewrite L0; exact Hi | rewrite R0, Z0 by exact Hi; exact Hj | ].
    rewrite L, R0 by exact Hi. unfold zeros at 1. rewrite nth_repeat_lt by exact Hj. reflexivity.
Qed.

(* ------------------------------------------------------------------ recall / precision *)
Lemma recall_fold l : forall tp fn,
  fold_left (fun s tq => recall_step s (fst tq) (snd tq)) l (tp, fn)
  = (fold_left (bump sel_tp) l tp, fold_left (bump sel_fn) l fn).
Proof.
  induction l as [|[t q] l IH]; intros tp fn; simpl; [reflexivity|].
  unfold recall_step, bump, sel_tp, sel_fn; simpl. destruct (t =? q)%nat; apply IH.
Qed.

Lemma precision_fold l : forall tp fp,
  fold_left (fun s tq => precision_step s (fst tq) (snd tq)) l (tp, fp)
  = (fold_left (bump sel_tp) l tp, fold_left (bump sel_fp) l fp).
Proof.
  induction l as [|[t q] l IH]; intros tp fp; simpl; [reflexivity|].
  unfold precision_step, bump, sel_tp, sel_fp; simpl. destruct (t =? q)%nat; apply IH.
Qed.

Lemma f1_fold l : forall tp fn dp,
  fold_left (fun s tq => f1_step s (fst tq) (snd tq)) l (tp, fn, dp)
  = (fold_left (bump sel_tp) l tp, fold_left (bump sel_fn) l fn, fold_left (bump sel_fp) l dp).
Proof.
  induction l as [|[t q] l IH]; intros tp fn dp; simpl; [reflexivity|].
  unfold bump, sel_tp, sel_fn, sel_fp; simpl. destruct (t =? q)%nat; apply IH.
Qed.

Lemma class_ratio_score0 tp other : class_ratio tp other = score0 tp other.
Proof. unfold class_ratio, score0, ratio. now rewrite Nat.add_comm. Qed.

Theorem recall_spec k y p : admissible k y p ->
  recall_score y p = macro k (fun c => score0 (TP c y p) (FN c y p)).
Proof.
  intros (_ & Hle & Hlen & _). unfold recall_score, recall_counts.
  rewrite (n_classes_label_encoded k y Hle), (over_samples_combine _ _ _ _ Hlen), recall_fold.
  unfold qmean, macro. rewrite map_length, seq_length, qsum_map_seq. f_equal.
  apply sum_upto_ext_lt. intros c Hc. cbv [fst snd].
  rewrite counter_tp, counter_fn by exact Hc. apply class_ratio_score0.
Qed.

Theorem precision_spec k y p : admissible k y p ->
  precision_score y p = macro k (fun c => score0 (TP c y p) (FP c y p)).
Proof.
  intros (_ & Hle & Hlen & _). unfold precision_score, precision_counts.
  rewrite (n_classes_label_encoded k y Hle), (over_samples_combine _ _ _ _ Hlen), precision_fold.
  unfold qmean, macro. rewrite map_length, seq_length, qsum_map_seq. f_equal.
  apply sum_upto_ext_lt. intros c Hc. cbv [fst snd].
  rewrite counter_tp, counter_fp by exact Hc. apply class_ratio_score0.
Qed.

(* ------------------------------------------------------------------ F1 *)
(* per-class F1 as the harmonic mean of the counting precision and recall, 0 without true positives *)
Definition f1_textbook (tp fp fn : nat) : Q :=
  if (tp =? 0)%nat then 0 else
    let P := Qn tp / Qn (tp + fp) in
    let R := Qn tp / Qn (tp + fn) in
    2 * (P * R) / (P + R).

Lemma class_f1_textbook tp fn dp : class_f1 tp fn dp = f1_textbook tp dp fn.
Proof.
  unfold class_f1, f1_textbook, ratio. now rewrite (Nat.add_comm dp tp), (Nat.add_comm fn tp).
Qed.

Theorem f1_spec k y p : admissible k y p ->
  f1_score y p = macro k (fun c => f1_textbook (TP c y p) (FP c y p) (FN c y p)).
Proof.
  intros (_ & Hle & Hlen & _). unfold f1_score, f1_counts.
  rewrite (n_classes_label_encoded k y Hle), (over_samples_combine _ _ _ _ Hlen), f1_fold.
  unfold qmean, macro. rewrite map_length, seq_length, qsum_map_seq. f_equal.
  apply sum_upto_ext_lt. intros c Hc.
  rewrite counter_tp, counter_fn, counter_fp by exact Hc. apply class_f1_textbook.
Qed.

Lemma Qn_add a b : Qn (a + b) == Qn a + Qn b.
Proof. unfold Qn. rewrite Nat2Z.inj_add, inject_Z_plus. reflexivity. Qed.
Lemma Qn_pos a : (0 < a)%nat -> 0 < Qn a.
Proof. intros H. unfold Qn. change 0 with (inject_Z 0). rewrite <- Zlt_Qlt. lia. Qed.
Lemma Qn_nonneg a : 0 <= Qn a.
Proof. unfold Qn. change 0 with (inject_Z 0). rewrite <- Zle_Qle. lia. Qed.

(* the harmonic-mean form equals 2TP / (2TP + FP + FN) (which is 0 when TP = 0) *)
Theorem f1_textbook_counts tp fp fn :
  f1_textbook tp fp fn == Qn (2 * tp) / Qn (2 * tp + fp + fn).
Proof.
  unfold f1_textbook. destruct (Nat.eqb_spec tp 0) as [E|E].
  - subst. simpl. unfold Qn at 1. simpl. unfold Qdiv. rewrite Qmult_0_l. reflexivity.
  - assert (Ha : 0 < Qn tp) by (apply Qn_pos; lia).
    pose proof (Qn_nonneg fp) as Hb. pose proof (Qn_nonneg fn) as Hc.
    replace (2 * tp)%nat with (tp + tp)%nat by lia.
    rewrite !Qn_add. cbv zeta. field.
    assert (0 < Qn tp * (Qn tp + Qn fn)) by (apply Qmult_lt_0_compat; lra).
    assert (0 < Qn tp * (Qn tp + Qn fp)) by (apply Qmult_lt_0_compat; lra).
    repeat split; lra.
Qed.

(* ------------------------------------------------------------------ batch variants *)
Lemma batch_fold_nth {A B} (f : A -> B) (d : A) (rows : list A) (db : B) m : forall s out j,
  (s + m <= length out)%nat ->
  nth j (fold_left (fun o i => upd o i (f (nth i rows d))) (seq s m) out) db
  = if ((s <=? j) && (j <? s + m))%nat then f (nth j rows d) else nth j out db.
Proof.
  induction m as [|m IH]; intros s out j H; simpl.
  - replace ((s <=? j)%nat && (j <? s + 0)%nat) with false; auto.
    symmetry. apply andb_false_iff. destruct (Nat.leb_spec s j); auto. right. apply Nat.ltb_ge. lia.
  - rewrite IH by (rewrite upd_length; lia).
    destruct (Nat.leb_spec (S s) j), (Nat.ltb_spec j (S s + m)), (Nat.leb_spec s j), (Nat.ltb_spec j (s + S m));
      simpl; try lia; auto.
    + rewrite nth_upd_neq by lia. reflexivity.
    + assert (j = s) by lia. subst. apply nth_upd_eq. lia.
    + rewrite nth_upd_neq by lia. reflexivity.
Qed.

Lemma fold_upd_length {B} (g : nat -> B) (l : list nat) : forall out : list B,
  length (fold_left (fun o i => upd o i (g i)) l out) = length out.
Proof. induction l; intros; simpl; auto. rewrite IHl. apply upd_length. Qed.

Theorem batch_loop_rowwise {A B} (f : A -> B) (d : A) (rows : list A) (garbage : list B) :
  length garbage = length rows -> batch_loop f d rows garbage = map f rows.
Proof.
  intros H. unfold batch_loop.
  destruct rows as [|r0 rows']; [destruct garbage; [reflexivity|discriminate]|].
  set (rows := r0 :: rows') in *.
  apply (nth_ext _ _ (f d) (f d)).
  - rewrite (fold_upd_length (fun i => f (nth i rows d))), map_length. exact H.
  - intros j Hj. rewrite (fold_upd_length (fun i => f (nth i rows d))) in Hj.
    rewrite batch_fold_nth by lia. rewrite map_nth.
    replace ((0 <=? j)%nat && (j <? 0 + length rows)%nat) with true; auto.
    symmetry. apply andb_true_iff. split; [apply Nat.leb_le; lia | apply Nat.ltb_lt; lia].
Qed.

(* ================================================================== Part 2: regression, cross-entropy *)
Lemma list_as_map_nth (l : list Q) : l = map (nthq l) (seq 0 (length l)).
Proof.
  induction l as [|a l IH]; simpl; [reflexivity|].
  f_equal. rewrite <- seq_shift, map_map. exact IH.
Qed.

Lemma qsum_nth y : qsum y = sum_upto (length y) (nthq y).
Proof. rewrite <- qsum_map_seq. f_equal. apply list_as_map_nth. Qed.

Lemma qsum_map_nth (g : Q -> Q) y : qsum (map g y) = sum_upto (length y) (fun i => g (nthq y i)).
Proof.
  rewrite <- qsum_map_seq, <- (map_map (nthq y) g). f_equal. f_equal. apply list_as_map_nth.
Qed.

Lemma qsum_map_combine {A B} (da : A) (db : B) (g : A * B -> Q) y p : length p = length y ->
  qsum (map g (combine y p)) = sum_upto (length y) (fun i => g (nth i y da, nth i p db)).
Proof. intros H. rewrite (combine_nth_seq da db y p H), map_map, qsum_map_seq. reflexivity. Qed.

Lemma sq_pow x : sq x == x ^ 2.
Proof. unfold sq. simpl. reflexivity. Qed.

Lemma sq_nonneg x : 0 <= x ^ 2.
Proof. rewrite <- sq_pow. unfold sq. nra. Qed.

Lemma sum_upto_nonneg n f : (forall i, (i < n)%nat -> 0 <= f i) -> 0 <= sum_upto n f.
Proof.
  induction n as [|n IH]; intros H; simpl; [lra|].
  pose proof (IH ltac:(intros; apply H; lia)). pose proof (H n ltac:(lia)). lra.
Qed.

Lemma Qdiv_nonneg a b : 0 <= a -> 0 <= b -> 0 <= a / b.
Proof. intros. unfold Qdiv. apply Qmult_le_0_compat; auto. apply Qinv_le_0_compat; auto. Qed.

Lemma qmean_ybar y : qmean y = ybar y.
Proof. unfold qmean, ybar. now rewrite qsum_nth. Qed.

Lemma residual_model y p : length p = length y ->
  qsum (map sq (vsub y p)) == SSres y p.
Proof.
  intros H. unfold vsub, SSres. rewrite map_map, (qsum_map_combine 0 0 _ y p H).
  apply sum_upto_eqv. intros i _. simpl fst; simpl snd. apply sq_pow.
Qed.

(* RMSE: the value is sqrt of a radicand that equals the textbook mean squared error *)
Theorem rmse_spec (sqrt : Q -> Q) y p : length p = length y ->
  exists m, root_mean_square_error sqrt y p = sqrt m /\ m == mse_textbook y p /\ 0 <= m /\
            (sqrt m * sqrt m == m ->
             root_mean_square_error sqrt y p * root_mean_square_error sqrt y p == mse_textbook y p).
Proof.
  intros H. unfold root_mean_square_error.
  set (m := qmean (map sq (vsub y p))).
  assert (Hm : m == mse_textbook y p).
  { unfold m, qmean, mse_textbook. rewrite (residual_model y p H).
    unfold vsub. rewrite !map_length, combine_length, H, Nat.min_id. reflexivity. }
  exists m. repeat split; auto.
  - rewrite Hm. unfold mse_textbook. apply Qdiv_nonneg; [|apply Qn_nonneg].
    apply sum_upto_nonneg. intros; apply sq_nonneg.
  - intros Hs. rewrite Hs. exact Hm.
Qed.

(* R^2 *)
Lemma total_model y : qsum (map (fun a => sq (a - qmean y)) y) == SStot y.
Proof.
  rewrite (qsum_map_nth (fun a => sq (a - qmean y))), qmean_ybar. unfold SStot.
  apply sum_upto_eqv. intros i _. apply sq_pow.
Qed.

Theorem r2_spec y p : length p = length y ->
  (~ SStot y == 0 -> coefficient_determination y p == 1 - SSres y p / SStot y) /\
  (SStot y == 0 -> coefficient_determination y p == 1 - SSres y p / tiny).
Proof.
  intros H. unfold coefficient_determination.
  pose proof (total_model y) as Ht. pose proof (residual_model y p H) as Hr.
  destruct (Qeq_bool (qsum (map (fun a => sq (a - qmean y)) y)) 0) eqn:E.
  - apply Qeq_bool_iff in E. rewrite Ht in E. split; intros H0.
    + contradiction.
    + rewrite Hr. reflexivity.
  - apply Qeq_bool_neq in E. rewrite Ht in E. split; intros H0.
    + rewrite Hr, Ht. reflexivity.
    + contradiction.
Qed.

Lemma sum_upto_zero_terms n f : (forall i, (i < n)%nat -> 0 <= f i) -> sum_upto n f == 0 ->
  forall i, (i < n)%nat -> f i == 0.
Proof.
  induction n as [|n IH]; intros Hf Hs i Hi; [lia|]. simpl in Hs.
  pose proof (sum_upto_nonneg n f ltac:(intros; apply Hf; lia)) as H1.
  pose proof (Hf n ltac:(lia)) as H2.
  destruct (Nat.eq_dec i n) as [->|Hne]; [lra|].
  apply IH; try lia; [intros; apply Hf; lia | lra].
Qed.

Lemma sum_upto_const n f c : (forall i, (i < n)%nat -> f i == c) -> sum_upto n f == Qn n * c.
Proof.
  induction n as [|n IH]; intros H; simpl.
  - unfold Qn; simpl. ring.
  - rewrite IH by (intros; apply H; lia). rewrite (H n) by lia.
    replace (S n) with (n + 1)%nat by lia. rewrite Qn_add. change (Qn 1) with 1. ring.
Qed.

Lemma pow2_zero x : x ^ 2 == 0 -> x == 0.
Proof. rewrite <- sq_pow. unfold sq. intros H. destruct (Qmult_integral _ _ H); auto. Qed.

(* the replaced denominator is used exactly for constant targets *)
Theorem SStot_zero_iff_constant y : y <> [] ->
  (SStot y == 0 <-> exists c, forall i, (i < length y)%nat -> nthq y i == c).
Proof.
  intros Hne. assert (Hn : 0 < Qn (length y)) by (apply Qn_pos; destruct y; [congruence|simpl; lia]).
  split.
  - intros H. exists (ybar y). intros i Hi.
    pose proof (sum_upto_zero_terms _ _ ltac:(intros; apply sq_nonneg) H i Hi) as Hz.
    apply pow2_zero in Hz. lra.
  - intros [c Hc]. unfold SStot.
    assert (Hb : ybar y == c).
    { unfold ybar. rewrite (sum_upto_const _ _ c Hc). field. lra. }
    rewrite (sum_upto_const _ _ 0); [ring|].
    intros i Hi. rewrite (Hc i Hi), Hb. simpl. ring.
Qed.

Theorem r2_perfect y : coefficient_determination y y == 1.
Proof.
  destruct (r2_spec y y eq_refl) as [H1 H2].
  assert (Hr : SSres y y == 0).
  { unfold SSres. rewrite (sum_upto_const _ _ 0); [ring|]. intros i _. simpl. ring. }
  destruct (Qeq_dec (SStot y) 0) as [E|E].
  - rewrite (H2 E), Hr. unfold Qdiv. ring.
  - rewrite (H1 E), Hr. unfold Qdiv. ring.
Qed.

(* cross-entropy *)
Theorem crossentropy_spec (ln : Q -> Q) lo hi n c T O : rect n c T -> rect n c O ->
  categorical_crossentropy ln lo hi T O = ce_textbook ln (clip lo hi) (clip lo hi) n c T O.
Proof.
  intros [HT HTr] [HO HOr]. unfold categorical_crossentropy, ce_textbook, qmean.
  rewrite map_length, combine_length, HT, HO, Nat.min_id. f_equal.
  rewrite (qsum_map_combine [] [] _ T O) by congruence. rewrite HT.
  apply sum_upto_ext_lt. intros i Hi. cbv [fst snd]. unfold neg_log_prob_row.
  rewrite (qsum_map_combine 0 0 _ (nth i T []) (nth i O [])) by (rewrite HTr, HOr; auto).
  rewrite (HTr i Hi). reflexivity.
Qed.

Lemma clip_range lo hi x : lo <= hi -> lo <= clip lo hi x /\ clip lo hi x <= hi.
Proof.
  intros H. unfold clip, qminimum, qmaximum.
  destruct (Qle_bool x lo) eqn:E1.
  - apply Qle_bool_iff in E1. destruct (Qle_bool lo hi) eqn:E2.
    + split; lra.
    + apply Qle_bool_false in E2. lra.
  - apply Qle_bool_false in E1. destruct (Qle_bool x hi) eqn:E2.
    + apply Qle_bool_iff in E2. split; lra.
    + apply Qle_bool_false in E2. split; lra.
Qed.

Lemma clip_dev lo hi eps t : 0 <= lo -> lo <= hi -> lo <= eps -> 1 - hi <= eps -> 0 <= t -> t <= 1 ->
  Qabs (clip lo hi t - t) <= eps.
Proof.
  intros. apply Qabs_Qle_condition. unfold clip, qminimum, qmaximum.
  destruct (Qle_bool t lo) eqn:E1.
  - apply Qle_bool_iff in E1. destruct (Qle_bool lo hi) eqn:E2.
    + split; lra.
    + apply Qle_bool_false in E2. lra.
  - apply Qle_bool_false in E1. destruct (Qle_bool t hi) eqn:E2.
    + apply Qle_bool_iff in E2. split; lra.
    + apply Qle_bool_false in E2. split; lra.
Qed.

Lemma sum_upto_abs_diff n f g B : (forall i, (i < n)%nat -> Qabs (f i - g i) <= B) ->
  Qabs (sum_upto n f - sum_upto n g) <= Qn n * B.
Proof.
  induction n as [|n IH]; intros H; cbn [sum_upto].
  - setoid_replace (0 - 0) with 0 by ring. change (Qn 0) with 0. change (Qabs 0) with 0. lra.
  - pose proof (IH ltac:(intros; apply H; lia)) as H1. pose proof (H n ltac:(lia)) as H2.
    setoid_replace (sum_upto n f + f n - (sum_upto n g + g n))
      with ((sum_upto n f - sum_upto n g) + (f n - g n)) by ring.
    eapply Qle_trans; [apply Qabs_triangle|].
    replace (S n) with (n + 1)%nat by lia. rewrite Qn_add. change (Qn 1) with 1. lra.
Qed.

Lemma Qabs_div_le x q B : 0 < q -> Qabs x <= q * B -> Qabs (x / q) <= B.
Proof.
  intros Hq H. unfold Qdiv. rewrite Qabs_Qmult.
  rewrite (Qabs_pos (/ q)) by (apply Qinv_le_0_compat; lra).
  apply Qle_shift_div_r; auto. lra.
Qed.

(* deviation of the code's definition (target clipped too) from the definition that clips only
   the prediction: at most c * eps * L for targets in [0,1], where L bounds -ln on [lo,hi] *)
Theorem crossentropy_target_clip_deviation (ln : Q -> Q) lo hi eps L n c T O :
  0 <= lo -> lo <= hi -> lo <= eps -> 1 - hi <= eps -> (0 < n)%nat ->
  (forall x, lo <= x -> x <= hi -> 0 <= - ln x /\ - ln x <= L) ->
  (forall i j, (i < n)%nat -> (j < c)%nat -> 0 <= nth2 T i j /\ nth2 T i j <= 1) ->
  Qabs (ce_textbook ln (clip lo hi) (clip lo hi) n c T O
        - ce_textbook ln (fun t => t) (clip lo hi) n c T O) <= Qn c * (eps * L).
Proof.
  intros Hlo Hlh He1 He2 Hn Hln HT. unfold ce_textbook.
  set (S1 := sum_upto n _). set (S2 := sum_upto n _).
  setoid_replace (S1 / Qn n - S2 / Qn n) with ((S1 - S2) / Qn n)
    by (field; pose proof (Qn_pos n Hn); lra).
  apply Qabs_div_le; [apply Qn_pos; exact Hn|].
  apply sum_upto_abs_diff. intros i Hi.
  apply sum_upto_abs_diff. intros j Hj.
  destruct (HT i j Hi Hj) as [T0 T1].
  destruct (clip_range lo hi (nth2 O i j) Hlh) as [C0 C1].
  destruct (Hln _ C0 C1) as [L0 L1].
  pose proof (clip_dev lo hi eps (nth2 T i j) Hlo Hlh He1 He2 T0 T1) as Hd.
  set (l := ln (clip lo hi (nth2 O i j))) in *. set (t := nth2 T i j) in *.
  setoid_replace (- clip lo hi t * l - - t * l) with ((clip lo hi t - t) * (- l)) by ring.
  rewrite Qabs_Qmult, (Qabs_pos (- l)) by exact L0.
  apply Qmult_le_compat_nonneg; split; auto. apply Qabs_nonneg.
Qed.

(* ------------------------------------------------------------------ instances of the batch theorem *)
Theorem batch_variants_rowwise (sqrt ln : Q -> Q) (lo hi : Q)
  (yq : list Q) (Pq : list (list Q)) (T : list (list Q)) (O3 : list (list (list Q)))
  (yl : list nat) (Pl : list (list nat)) (g1 g2 g3 : list Q) :
  length g1 = length Pq -> length g2 = length O3 -> length g3 = length Pl ->
  root_mean_square_error2d sqrt yq Pq g1 = map (root_mean_square_error sqrt yq) Pq /\
  coefficient_determination2d yq Pq g1 = map (coefficient_determination yq) Pq /\
  categorical_crossentropy3d ln lo hi T O3 g2 = map (categorical_crossentropy ln lo hi T) O3 /\
  accuracy_score2d yl Pl g3 = map (accuracy_score yl) Pl /\
  recall_score2d yl Pl g3 = map (recall_score yl) Pl /\
  precision_score2d yl Pl g3 = map (precision_score yl) Pl /\
  f1_score2d yl Pl g3 = map (f1_score yl) Pl.
Proof.
  intros H1 H2 H3. repeat split; apply batch_loop_rowwise; assumption.
Qed.

(* ------------------------------------------------------------------ the hypotheses are satisfiable *)
Lemma metrics_nonvacuous :
  admissible 3 [0; 1; 2; 2; 1]%nat [0; 2; 2; 1; 1]%nat /\
  confusion_matrix [0; 1; 2; 2; 1]%nat [0; 2; 2; 1; 1]%nat = [[1; 0; 0]; [0; 1; 1]; [0; 1; 1]]%nat /\
  TP 2 [0; 1; 2; 2; 1]%nat [0; 2; 2; 1; 1]%nat = 1%nat /\
  FN 2 [0; 1; 2; 2; 1]%nat [0; 2; 2; 1; 1]%nat = 1%nat /\
  FP 2 [0; 1; 2; 2; 1]%nat [0; 2; 2; 1; 1]%nat = 1%nat /\
  recall_score [0; 1; 2; 2; 1]%nat [0; 2; 2; 1; 1]%nat == 2 # 3 /\
  f1_score [0; 1; 1]%nat [1; 1; 1]%nat == 2 # 5 /\
  (let sqrt := fun x : Q => if Qeq_bool x 4 then 2 else 0 in
   sqrt 4 * sqrt 4 == 4 /\ root_mean_square_error sqrt [3; 1] [1; 3] == 2) /\
  coefficient_determination [1 # 2; 1 # 2] [1 # 2; 1 # 4] == 1 - (1 # 16) / tiny /\
  rect 2 2 [[1; 0]; [0; 1]] /\
  (let ln := fun _ : Q => - (1) in forall x, lo7 <= x -> x <= hi7 -> 0 <= - ln x /\ - ln x <= 1).
Proof.
  split; [|repeat split; try (vm_compute; reflexivity); try (vm_compute; congruence)].
  - repeat split.
    + discriminate.
    + simpl. intros; lia.
    + simpl. intros; lia.
    + repeat constructor.
  - intros i Hi. destruct i as [|[|i]]; simpl; try reflexivity; lia.
Qed.
