(* TreeCR.v — common_region_two_trees (the index-pair walk with find_first_difference and
   find_end jumps) returns exactly the recursive common region, for ALL pairs of well-formed
   trees.  Shared by C08 and C09. *)
From Coq Require Import List Arith Bool Lia.
Import ListNotations.
From TF Require Import Tree TreeIdx TreeProofs.

Lemma cr_app_nil_l x : cr_app ([], []) x = x.
Proof. destruct x; reflexivity. Qed.
Lemma cr_app_nil_r x : cr_app x ([], []) = x.
Proof. destruct x; unfold cr_app; simpl. rewrite !app_nil_r. reflexivity. Qed.
Lemma cr_app_assoc x y z : cr_app (cr_app x y) z = cr_app x (cr_app y z).
Proof. unfold cr_app; simpl. rewrite !app_assoc. reflexivity. Qed.

Lemma ffd_cons x r1 y r2 :
  ffd (x :: r1) (y :: r2) =
  if x =? y then match r1, r2 with _ :: _, _ :: _ => S (ffd r1 r2) | _, _ => 0 end else 0.
Proof. reflexivity. Qed.

Section CR.
  Context {sym : Type}.
  Variable arity : sym -> nat.
  Notation tree := (tree sym).
  Notation nargs := (nargs arity).
  Notation wft := (wft arity).
  Notation wff := (wff arity).
  Notation cr_rec := (cr_rec arity).
  Notation cr_rec_f := (cr_rec_f arity).

  Lemma cr_rec_Node s1 (k1 : list tree) s2 k2 o1 o2 :
    cr_rec (Node s1 k1) (Node s2 k2) o1 o2 =
    if arity s1 =? arity s2
    then ((o1, o2) :: fst (cr_rec_f k1 k2 (S o1) (S o2)), snd (cr_rec_f k1 k2 (S o1) (S o2)))
    else ([(o1, o2)], [(o1, o2)]).
  Proof. reflexivity. Qed.
  Lemma cr_rec_f_cons (u1 : tree) r1 u2 r2 o1 o2 :
    cr_rec_f (u1 :: r1) (u2 :: r2) o1 o2
    = cr_app (cr_rec u1 u2 o1 o2) (cr_rec_f r1 r2 (o1 + size u1) (o2 + size u2)).
  Proof. reflexivity. Qed.

  Lemma sizes_app (a b : list tree) : sizes (a ++ b) = sizes a + sizes b.
  Proof. unfold sizes. rewrite map_app, list_sum_app. reflexivity. Qed.
  Lemma wff_app (a b : list tree) : wff (a ++ b) = wff a && wff b.
  Proof. apply forallb_app. Qed.

  Lemma cr_rec_f_app : forall (a1 a2 b1 b2 : list tree) o1 o2, length a1 = length a2 ->
    cr_rec_f (a1 ++ b1) (a2 ++ b2) o1 o2
    = cr_app (cr_rec_f a1 a2 o1 o2) (cr_rec_f b1 b2 (o1 + sizes a1) (o2 + sizes a2)).
  Proof.
    induction a1 as [|u1 a1 IH]; intros [|u2 a2] b1 b2 o1 o2 L; simpl in L; try discriminate.
    - simpl app. unfold sizes; simpl. rewrite !Nat.add_0_r.
      change (cr_rec_f [] [] o1 o2) with (@nil (nat * nat), @nil (nat * nat)).
      rewrite cr_app_nil_l. reflexivity.
    - simpl app. rewrite !cr_rec_f_cons, IH by lia. rewrite cr_app_assoc, !sizes_cons, !Nat.add_assoc.
      reflexivity.
  Qed.

  (* a node whose arity agrees: one step of the pre-order walk over the two work lists *)
  Lemma crf_unfold s1 (k1 r1 : list tree) s2 k2 r2 o1 o2 :
    arity s1 = arity s2 -> length k1 = length k2 ->
    cr_rec_f (Node s1 k1 :: r1) (Node s2 k2 :: r2) o1 o2
    = cr_app ([(o1, o2)], []) (cr_rec_f (k1 ++ r1) (k2 ++ r2) (S o1) (S o2)).
  Proof.
    intros A L. rewrite cr_rec_f_cons, cr_rec_Node, A, Nat.eqb_refl, (cr_rec_f_app k1 k2 r1 r2) by auto.
    rewrite !size_Node. replace (o1 + S (sizes k1)) with (S o1 + sizes k1) by lia.
    replace (o2 + S (sizes k2)) with (S o2 + sizes k2) by lia.
    unfold cr_app; simpl. reflexivity.
  Qed.

  Lemma flats_Node_cons s (k r : list tree) : flats (Node s k :: r) = s :: flats (k ++ r).
  Proof. rewrite flats_cons, flatten_Node, flats_app. reflexivity. Qed.

  Lemma flats_nonempty (ts : list tree) : ts <> [] -> 1 <= length (nargs (flats ts)).
  Proof.
    destruct ts as [|t ts]; [congruence|]. intros _.
    rewrite nargs_length, flats_length, sizes_cons. pose proof (size_pos t). lia.
  Qed.

  Lemma wft_size_ge2 s (k : list tree) : wft (Node s k) = true -> 0 < arity s -> 2 <= size (Node s k).
  Proof.
    intros W H. apply wft_Node in W. destruct W as [L _]. destruct k as [|u k]; simpl in L; [lia|].
    rewrite size_Node, sizes_cons. pose proof (size_pos u). lia.
  Qed.

  (* what one call of find_first_difference sees on the encodings of two aligned work lists:
     either no arity differs (the lists have the same shape: everything is common, no border), or
     the first difference is at offset e: positions 0..e are common, e is a border, and behind the
     two sub-terms rooted there the remaining work lists are aligned again *)
  Definition FA (ts1 ts2 : list tree) (e : nat) : Prop :=
    length (nargs (flats ts1)) = S e /\ length (nargs (flats ts2)) = S e /\
    forall o1 o2, cr_rec_f ts1 ts2 o1 o2 = (pair_range o1 o2 (S e), []).
  Definition FB (ts1 ts2 : list tree) (e : nat) : Prop :=
    exists m1 m2 (ts1' ts2' : list tree),
      wff ts1' = true /\ wff ts2' = true /\ length ts1' = length ts2' /\
      walk 1 (skipn e (nargs (flats ts1))) = Some m1 /\ walk 1 (skipn e (nargs (flats ts2))) = Some m2 /\
      skipn (e + m1) (nargs (flats ts1)) = nargs (flats ts1') /\
      skipn (e + m2) (nargs (flats ts2)) = nargs (flats ts2') /\
      e + m1 <= length (nargs (flats ts1)) /\ e + m2 <= length (nargs (flats ts2)) /\
      (S e < length (nargs (flats ts1)) \/ S e < length (nargs (flats ts2))) /\
      sizes ts1' < sizes ts1 /\
      forall o1 o2, cr_rec_f ts1 ts2 o1 o2
        = cr_app (pair_range o1 o2 (S e), [(o1 + e, o2 + e)])
                 (cr_rec_f ts1' ts2' (o1 + e + m1) (o2 + e + m2)).

  Lemma ffd_forest : forall N (ts1 ts2 : list tree), sizes ts1 <= N ->
    wff ts1 = true -> wff ts2 = true -> length ts1 = length ts2 -> ts1 <> [] ->
    let e := ffd (nargs (flats ts1)) (nargs (flats ts2)) in FA ts1 ts2 e \/ FB ts1 ts2 e.
  Proof.
    induction N as [|N IH]; intros ts1 ts2 HN W1 W2 L NE.
    - destruct ts1 as [|t ts1]; [congruence|]. rewrite sizes_cons in HN. pose proof (size_pos t). lia.
    - destruct ts1 as [|[s1 k1] r1]; [congruence|]. destruct ts2 as [|[s2 k2] r2]; [discriminate|].
      simpl in L. apply wff_cons in W1. destruct W1 as [Wt1 Wr1]. apply wff_cons in W2. destruct W2 as [Wt2 Wr2].
      pose proof Wt1 as Wt1'. pose proof Wt2 as Wt2'.
      apply wft_Node in Wt1'. destruct Wt1' as [L1 Wk1]. apply wft_Node in Wt2'. destruct Wt2' as [L2 Wk2].
      rewrite !flats_Node_cons. cbv zeta.
      change (nargs (s1 :: flats (k1 ++ r1))) with (arity s1 :: nargs (flats (k1 ++ r1))).
      change (nargs (s2 :: flats (k2 ++ r2))) with (arity s2 :: nargs (flats (k2 ++ r2))).
      rewrite ffd_cons. destruct (arity s1 =? arity s2) eqn:EA; cbv beta iota.
      + (* same arity: continue into the arguments, then the siblings *)
        apply Nat.eqb_eq in EA.
        assert (LK : length k1 = length k2) by congruence.
        assert (LF : length (k1 ++ r1) = length (k2 ++ r2)) by (rewrite !app_length; lia).
        assert (WF1 : wff (k1 ++ r1) = true) by (rewrite wff_app, Wk1, Wr1; reflexivity).
        assert (WF2 : wff (k2 ++ r2) = true) by (rewrite wff_app, Wk2, Wr2; reflexivity).
        destruct (k1 ++ r1) as [|u1 F1] eqn:E1.
        * (* nothing left: both work lists were a single leaf *)
          destruct (k2 ++ r2) as [|u2 F2] eqn:E2; [|discriminate]. left.
          apply app_eq_nil in E1. destruct E1 as [-> ->]. apply app_eq_nil in E2. destruct E2 as [-> ->].
          unfold FA. split; [reflexivity|]. split; [reflexivity|].
          intros o1 o2. rewrite crf_unfold by auto. reflexivity.
        * destruct (k2 ++ r2) as [|u2 F2] eqn:E2; [discriminate|].
          assert (NE1 : u1 :: F1 <> []) by discriminate.
          assert (NE2 : u2 :: F2 <> []) by discriminate.
          pose proof (flats_nonempty _ NE1) as P1. pose proof (flats_nonempty _ NE2) as P2.
          assert (HS : sizes (u1 :: F1) <= N).
          { rewrite <- E1, sizes_app. rewrite sizes_cons, size_Node in HN. lia. }
          specialize (IH (u1 :: F1) (u2 :: F2) HS WF1 WF2 LF NE1). cbv zeta in IH.
          unfold FA, FB in IH |- *.
          remember (nargs (flats (u1 :: F1))) as TT1 eqn:ET1.
          remember (nargs (flats (u2 :: F2))) as TT2 eqn:ET2.
          destruct TT1 as [|x1 T1]; [simpl in P1; lia|].
          destruct TT2 as [|x2 T2]; [simpl in P2; lia|]. cbv beta iota.
          assert (CRF : forall o1 o2, cr_rec_f (Node s1 k1 :: r1) (Node s2 k2 :: r2) o1 o2
                        = cr_app ([(o1, o2)], []) (cr_rec_f (u1 :: F1) (u2 :: F2) (S o1) (S o2))).
          { intros o1 o2. rewrite crf_unfold, E1, E2 by auto. reflexivity. }
          assert (SZ : sizes (Node s1 k1 :: r1) = S (sizes (u1 :: F1))).
          { rewrite <- E1, sizes_app, sizes_cons, size_Node. lia. }
          assert (EL1 : nargs (flats (Node s1 k1 :: r1)) = arity s1 :: x1 :: T1).
          { rewrite flats_Node_cons, E1.
            change (nargs (s1 :: flats (u1 :: F1))) with (arity s1 :: nargs (flats (u1 :: F1))).
            rewrite <- ET1. reflexivity. }
          assert (EL2 : nargs (flats (Node s2 k2 :: r2)) = arity s2 :: x2 :: T2).
          { rewrite flats_Node_cons, E2.
            change (nargs (s2 :: flats (u2 :: F2))) with (arity s2 :: nargs (flats (u2 :: F2))).
            rewrite <- ET2. reflexivity. }
          rewrite EL1, EL2. cbn [length skipn Nat.add].
          destruct IH as [(LA1 & LA2 & HA) | (m1 & m2 & ts1' & ts2' & W1' & W2' & L' & K1 & K2 & S1 & S2 & B1 & B2 & NL & SZ' & HB)].
          -- left. cbn [length] in LA1, LA2. split; [lia|]. split; [lia|].
             intros o1 o2. rewrite CRF, HA. reflexivity.
          -- right. exists m1, m2, ts1', ts2'. cbn [length] in B1, B2, NL.
             repeat split; auto; try lia.
             intros o1 o2. rewrite CRF, HB.
             replace (S o1 + ffd (x1 :: T1) (x2 :: T2)) with (o1 + S (ffd (x1 :: T1) (x2 :: T2))) by lia.
             replace (S o2 + ffd (x1 :: T1) (x2 :: T2)) with (o2 + S (ffd (x1 :: T1) (x2 :: T2))) by lia.
             unfold cr_app; simpl. reflexivity.
      + (* the arities differ here: border; jump behind both sub-terms *)
        apply Nat.eqb_neq in EA.
        assert (EL1 : nargs (flats (Node s1 k1 :: r1)) = nargs (flatten (Node s1 k1)) ++ nargs (flats r1))
          by (rewrite flats_cons, nargs_app; reflexivity).
        assert (EL2 : nargs (flats (Node s2 k2 :: r2)) = nargs (flatten (Node s2 k2)) ++ nargs (flats r2))
          by (rewrite flats_cons, nargs_app; reflexivity).
        assert (LN1 : length (nargs (flatten (Node s1 k1))) = size (Node s1 k1))
          by (rewrite nargs_length, flatten_length; reflexivity).
        assert (LN2 : length (nargs (flatten (Node s2 k2))) = size (Node s2 k2))
          by (rewrite nargs_length, flatten_length; reflexivity).
        assert (WK1 : walk 1 (nargs (flatten (Node s1 k1)) ++ nargs (flats r1)) = Some (size (Node s1 k1))).
        { rewrite (walk_wf arity _ Wt1 0), walk_0. simpl. f_equal. lia. }
        assert (WK2 : walk 1 (nargs (flatten (Node s2 k2)) ++ nargs (flats r2)) = Some (size (Node s2 k2))).
        { rewrite (walk_wf arity _ Wt2 0), walk_0. simpl. f_equal. lia. }
        right. unfold FB. exists (size (Node s1 k1)), (size (Node s2 k2)), r1, r2.
        rewrite EL1, EL2. cbn [skipn Nat.add].
        split; [exact Wr1|]. split; [exact Wr2|]. split; [lia|]. split; [exact WK1|]. split; [exact WK2|].
        split. { rewrite <- LN1. apply skipn_app_len. }
        split. { rewrite <- LN2. apply skipn_app_len. }
        rewrite !app_length, LN1, LN2. split; [lia|]. split; [lia|].
        split.
        { destruct (arity s1) eqn:A1.
          - right. assert (H : 0 < arity s2) by lia. pose proof (wft_size_ge2 _ _ Wt2 H). lia.
          - left. assert (H : 0 < arity s1) by lia. pose proof (wft_size_ge2 _ _ Wt1 H). lia. }
        split. { rewrite sizes_cons. pose proof (size_pos (Node s1 k1)). lia. }
        intros o1 o2. rewrite cr_rec_f_cons, cr_rec_Node.
        replace (arity s1 =? arity s2) with false by (symmetry; apply Nat.eqb_neq; auto).
        rewrite !Nat.add_0_r. reflexivity.
  Qed.

  Lemma firstn_skipn_len {A} (l : list A) n : n <= length l -> length (firstn n l) = n.
  Proof. apply firstn_length_le. Qed.

  (* the loop, started at the beginning of two aligned work lists that reach the ends of the arrays *)
  Lemma cr2_loop_forest : forall fuel (ts1 ts2 : list tree) (pre1 pre2 : list nat),
    sizes ts1 < fuel -> wff ts1 = true -> wff ts2 = true -> length ts1 = length ts2 ->
    cr2_loop fuel (pre1 ++ nargs (flats ts1)) (pre2 ++ nargs (flats ts2)) (length pre1) (length pre2)
    = Some (cr_rec_f ts1 ts2 (length pre1) (length pre2)).
  Proof.
    induction fuel as [|f IH]; intros ts1 ts2 pre1 pre2 HF W1 W2 L; [lia|].
    destruct ts1 as [|t1 r1].
    - destruct ts2; [|discriminate]. simpl. rewrite !app_nil_r, !Nat.ltb_irrefl. simpl.
      replace (length pre1 <? length pre1 - 1) with false by (symmetry; apply Nat.ltb_ge; lia).
      replace (length pre2 <? length pre2 - 1) with false by (symmetry; apply Nat.ltb_ge; lia).
      reflexivity.
    - assert (NE : t1 :: r1 <> []) by discriminate.
      assert (NE2 : ts2 <> []) by (destruct ts2; [discriminate|discriminate]).
      pose proof (flats_nonempty _ NE) as P1. pose proof (flats_nonempty _ NE2) as P2.
      pose proof (ffd_forest (sizes (t1 :: r1)) (t1 :: r1) ts2 (le_n _) W1 W2 L NE) as F. cbv zeta in F. unfold FA, FB in F.
      remember (nargs (flats (t1 :: r1))) as l1 eqn:El1. remember (nargs (flats ts2)) as l2 eqn:El2.
      remember (ffd l1 l2) as e eqn:Ee.
      cbn [cr2_loop]. rewrite !app_length.
      replace (length pre1 <? length pre1 + length l1) with true by (symmetry; apply Nat.ltb_lt; lia).
      replace (length pre2 <? length pre2 + length l2) with true by (symmetry; apply Nat.ltb_lt; lia).
      cbn [andb]. rewrite !skipn_app_len, <- Ee.
      destruct F as [(LA1 & LA2 & HA) | (m1 & m2 & ts1' & ts2' & W1' & W2' & L' & K1 & K2 & S1 & S2 & B1 & B2 & NL & SZ' & HB)].
      + replace (length pre1 + e <? length pre1 + length l1 - 1) with false by (symmetry; apply Nat.ltb_ge; lia).
        replace (length pre2 + e <? length pre2 + length l2 - 1) with false by (symmetry; apply Nat.ltb_ge; lia).
        cbn [orb]. rewrite HA. reflexivity.
      + replace ((length pre1 + e <? length pre1 + length l1 - 1) || (length pre2 + e <? length pre2 + length l2 - 1))
          with true.
        2:{ symmetry. apply orb_true_iff. destruct NL; [left|right]; apply Nat.ltb_lt; lia. }
        rewrite !find_end_walk, !skipn_app_plus, K1, K2. cbn [option_map].
        assert (D1 : pre1 ++ l1 = (pre1 ++ firstn (e + m1) l1) ++ nargs (flats ts1')).
        { rewrite <- app_assoc, <- S1, firstn_skipn. reflexivity. }
        assert (D2 : pre2 ++ l2 = (pre2 ++ firstn (e + m2) l2) ++ nargs (flats ts2')).
        { rewrite <- app_assoc, <- S2, firstn_skipn. reflexivity. }
        assert (Q1 : length pre1 + e + m1 = length (pre1 ++ firstn (e + m1) l1)).
        { rewrite app_length, firstn_length_le by lia. lia. }
        assert (Q2 : length pre2 + e + m2 = length (pre2 ++ firstn (e + m2) l2)).
        { rewrite app_length, firstn_length_le by lia. lia. }
        rewrite D1, D2, Q1, Q2.
        rewrite (IH ts1' ts2' _ _) by (auto; lia).
        rewrite <- Q1, <- Q2, HB. reflexivity.
  Qed.

  Theorem common_region_two_spec : forall t1 t2 : tree, wft t1 = true -> wft t2 = true ->
    common_region_two (nargs (flatten t1)) (nargs (flatten t2)) = Some (cr_rec t1 t2 0 0).
  Proof.
    intros t1 t2 W1 W2. unfold common_region_two.
    assert (H : cr2_loop (S (length (nargs (flatten t1)))) ([] ++ nargs (flats [t1])) ([] ++ nargs (flats [t2]))
                  (length (@nil nat)) (length (@nil nat)) = Some (cr_rec_f [t1] [t2] (length (@nil nat)) (length (@nil nat)))).
    { apply cr2_loop_forest.
      - rewrite nargs_length, flatten_length. unfold sizes; simpl. lia.
      - unfold Tree.wff; simpl. rewrite W1; reflexivity.
      - unfold Tree.wff; simpl. rewrite W2; reflexivity.
      - reflexivity. }
    unfold flats in H. cbn [flat_map app length] in H. rewrite !app_nil_r in H. rewrite H.
    rewrite cr_rec_f_cons.
    change (cr_rec_f [] [] (0 + size t1) (0 + size t2)) with (@nil (nat * nat), @nil (nat * nat)).
    rewrite cr_app_nil_r. reflexivity.
  Qed.
End CR.
