(* C10Check.v — boolean case checkers evaluated by the correspondence (no proofs here). *)
From TF Require Import Base Gray Grid.
Open Scope Q_scope.

Notation T := true (only parsing).
Notation F := false (only parsing).

Fixpoint bools_eqb (a b : list bool) : bool :=
  match a, b with
  | [], [] => true
  | x :: a', y :: b' => Bool.eqb x y && bools_eqb a' b'
  | _, _ => false
  end.
Fixpoint rows_eqb {A} (eqb : A -> A -> bool) (a b : list A) : bool :=
  match a, b with
  | [], [] => true
  | x :: a', y :: b' => eqb x y && rows_eqb eqb a' b'
  | _, _ => false
  end.

Definition mk (t : Q * Q * nat) : var := let '(l, r, w) := t in mkvar l r w.
Definition mks (ts : list (Q * Q * nat)) : list var := map mk ts.
Definition kind_of (gray : bool) : kind := if gray then Gray else Binary.

(* ---- static codec methods, exhaustively over all strings of width w (model enumerates them) *)
Definition chk_bit_to_int (c : nat * list Z) : bool :=
  let '(w, outs) := c in Zlist_eqb (map bits_to_int (all_strings w)) outs.
Definition chk_gray_to_bit (c : nat * list (list bool)) : bool :=
  let '(w, outs) := c in rows_eqb bools_eqb (map gray_to_bits (all_strings w)) outs.
Definition chk_bit_to_gray (c : nat * list (list bool)) : bool :=
  let '(w, outs) := c in rows_eqb bools_eqb (map bits_to_gray (all_strings w)) outs.
(* SamplingGrid.int_to_bit(ks, num_bits=None | w) *)
Definition chk_int_to_bit (c : option nat * list Z * list (list bool)) : bool :=
  let '(nb, ks, outs) := c in rows_eqb bools_eqb (int_to_bit_batch nb ks) outs.

(* ---- transform *)
(* exhaustive: outputs for ALL strings of the total length, lexicographic order; exact *)
Definition chk_transform_all (c : bool * list (Q * Q * nat) * list (list Q)) : bool :=
  let '(g, ts, outs) := c in
  let vs := mks ts in
  rows_eqb Qlist_eqb (transform (kind_of g) vs (all_strings (total_bits vs))) outs.
(* the same in blocks: outputs for the strings number start, start+1, ... of that enumeration *)
Definition chk_transform_blk (c : bool * list (Q * Q * nat) * Z * list (list Q)) : bool :=
  let '(g, ts, start, outs) := c in
  let vs := mks ts in
  let strings := firstn (length outs) (skipn (Z.to_nat start) (all_strings (total_bits vs))) in
  (length strings =? length outs)%nat && rows_eqb Qlist_eqb (transform (kind_of g) vs strings) outs.
(* listed rows; exact *)
Definition chk_transform_rows (c : bool * list (Q * Q * nat) * list (list bool * list Q)) : bool :=
  let '(g, ts, rows) := c in
  let vs := mks ts in
  forallb (fun p => Qlist_eqb (transform_row (kind_of g) vs (fst p)) (snd p)) rows.
(* listed rows; |model - impl| <= 4 * 2^-52 * max(|l|,|r|)   (4 ulp at the scale of the box) *)
Definition Qmax (a b : Q) : Q := if Qle_bool a b then b else a.
Definition tol4 (v : var) : Q := (4 # 4503599627370496) * Qmax (Qabs (vl v)) (Qabs (vr v)).
Fixpoint close_row (vs : list var) (a b : list Q) : bool :=
  match vs, a, b with
  | [], [], [] => true
  | v :: vs', x :: a', y :: b' => Qle_bool (Qabs (x - y)) (tol4 v) && close_row vs' a' b'
  | _, _, _ => false
  end.
Definition chk_transform_close (c : bool * list (Q * Q * nat) * list (list bool * list Q)) : bool :=
  let '(g, ts, rows) := c in
  let vs := mks ts in
  forallb (fun p => close_row vs (transform_row (kind_of g) vs (fst p)) (snd p)) rows.

(* ---- inverse_transform on a batch; repaired = which model (true: current code) *)
Definition chk_inverse (c : bool * bool * list (Q * Q * nat) * list (list Q) * list (list bool)) : bool :=
  let '(repaired, g, ts, pop, outs) := c in
  rows_eqb bools_eqb (inverse_transform_gen repaired (kind_of g) (mks ts) pop) outs.

(* ---- fit *)
Definition Qrel_close (a b : Q) : bool :=   (* |a-b| <= 2^-51 |b| *)
  Qle_bool (Qabs (a - b)) ((1 # 2251799813685248) * Qabs b).
(* fit(h_per_variable=h): (l, r, h, bits reported, h reported) *)
Definition chk_fit_h (c : Q * Q * Q * nat * Q) : bool :=
  let '(l, r, h, w, hout) := c in
  (bits_from_h l r h =? w)%nat && Qrel_close hout (h_from_bits l r w).
(* fit(bits_per_variable=w): (l, r, w, h reported) *)
Definition chk_fit_bits (c : Q * Q * nat * Q) : bool :=
  let '(l, r, w, hout) := c in Qrel_close hout (h_from_bits l r w).
