(* CodeEqLoop.v — the record keeper and the scalar loop logic of base/_ea.py: the definitions of the loop model
   (EALoop.v: update_best, terminate, aim_of, the remaining-calls formula) are EQUAL to the definitions that
   harness/translate_loop.py generates from TheFittest / EvolutionaryAlgorithm (coq/gen/GenLoop.v). *)
From TF Require Import Py PyLemmas EALoop.
From TFG Require Import GenLoop.
Open Scope Z_scope.

Section Tie.
Variables G P : Type.
Variables (dG : G) (dP : P).
Let indiv := indiv G P.
Let d0 : indiv := {| ig := dG; iph := dP; ifit := 0%Q |}.

(* what the record keeper's state means in the loop model: nothing recorded while the fitness is -inf *)
Definition abs_best (tf : TheFittest G P) : option indiv :=
  match tf_fitness G P tf with
  | Fin f => Some {| ig := tf_genotype G P tf; iph := tf_phenotype G P tf; ifit := f |}
  | _ => None
  end.

(* np.argmax and the model's first maximum pick the same individual *)
Lemma first_max_argmax (all : list indiv) : forall (t : list indiv) (b : indiv) (bi i : nat),
  nth bi all d0 = b -> skipn i all = t -> (bi < i)%nat ->
  first_max G P b t = nth (argmax_from (ifit b) bi i (map ifit t)) all d0.
Proof.
  induction t as [|x t IH]; intros b bi i Hb Ht Hlt; cbn [first_max map argmax_from]; [now symmetry|].
  assert (Hx : nth i all d0 = x /\ skipn (Datatypes.S i) all = t).
  { clear -Ht. revert i Ht; induction all as [|a all IHa]; intros [|i] Ht; simpl in *; try discriminate.
    - inversion Ht; auto.
    - apply IHa in Ht. exact Ht. }
  destruct Hx as [Hx Hs].
  destruct (Qltb (ifit b) (ifit x)); apply IH; auto.
Qed.

Lemma best_of_argmax (p : list indiv) : p <> [] ->
  best_of G P p = Some (nth (argmax (map ifit p)) p d0).
Proof.
  destruct p as [|x t]; [congruence|]. intros _. cbn [best_of map argmax]. f_equal.
  apply (first_max_argmax (x :: t) t x 0%nat 1%nat); auto.
Qed.

Lemma argmax_from_lt (l : list Q) : forall b bi i, (bi < i)%nat -> (argmax_from b bi i l < i + length l)%nat.
Proof.
  induction l as [|x t IH]; intros b bi i H; cbn [argmax_from length]; [lia|].
  destruct (Qltb b x); [specialize (IH x i (Datatypes.S i))|specialize (IH b bi (Datatypes.S i))]; lia.
Qed.
Lemma argmax_lt (l : list Q) : l <> [] -> (argmax l < length l)%nat.
Proof. destruct l as [|x t]; [congruence|]. intros _. cbn [argmax length]. pose proof (argmax_from_lt t x 0%nat 1%nat). lia. Qed.

(* TheFittest._update  =  update_best *)
Theorem code_update_best (tf : TheFittest G P) (p : list indiv) :
  p <> [] -> tf_fitness G P tf <> PosInf -> 0 <= tf_no_update_counter G P tf ->
  let tf' := py_TheFittest__update G P dG dP tf (map ig p) (map iph p) (map ifit p) in
  update_best G P (abs_best tf) (Z.to_nat (tf_no_update_counter G P tf)) p
  = (abs_best tf', Z.to_nat (tf_no_update_counter G P tf')).
Proof.
  intros Hp Hinf Hc. cbv zeta. unfold py_TheFittest__update, py_TheFittest__replace, update_best,
    set_tf_genotype, set_tf_phenotype, set_tf_fitness, set_tf_no_update_counter. cbv zeta.
  rewrite (best_of_argmax p Hp).
  set (k := argmax (map ifit p)).
  assert (Hk : (k < length p)%nat).
  { unfold k. replace (length p) with (length (map (@ifit G P) p)) by apply map_length. apply argmax_lt. destruct p; [congruence|discriminate]. }
  unfold argmaxZ. fold k.
  assert (Hf : getQ (map ifit p) (Z.of_nat k) = ifit (nth k p d0)).
  { rewrite getQ_nat. change 0%Q with (ifit d0). apply map_nth. }
  assert (Hg : getA dG (map ig p) (Z.of_nat k) = ig (nth k p d0)).
  { unfold getA. rewrite pyidx_nat. change dG with (ig d0). apply map_nth. }
  assert (Hph : getA dP (map iph p) (Z.of_nat k) = iph (nth k p d0)).
  { unfold getA. rewrite pyidx_nat. change dP with (iph d0). apply map_nth. }
  rewrite Hf, Hg, Hph. set (m := nth k p d0).
  unfold abs_best.
  destruct (tf_fitness G P tf) as [|f|] eqn:Ef; [| |congruence].
  - (* nothing recorded yet *)
    unfold Qinf_ltb, Qinf_leb. cbn [negb tf_fitness tf_genotype tf_phenotype tf_no_update_counter].
    destruct m; reflexivity.
  - unfold Qinf_ltb, Qinf_leb, Qltb. cbn [EALoop.ifit].
    destruct (Qle_bool (ifit m) f) eqn:E; cbn [negb tf_fitness tf_genotype tf_phenotype tf_no_update_counter].
    + rewrite ?Ef. f_equal. lia.
    + destruct m; reflexivity.
Qed.

(* TheFittest.get returns the recorded triple *)
Theorem code_get (tf : TheFittest G P) f : tf_fitness G P tf = Fin f ->
  py_TheFittest_get G P tf = (tf_genotype G P tf, tf_phenotype G P tf, Fin f) /\
  abs_best tf = Some {| ig := tf_genotype G P tf; iph := tf_phenotype G P tf; ifit := f |}.
Proof. intro H. unfold py_TheFittest_get, abs_best. now rewrite H. Qed.

(* _get_aim = aim_of, for the sign the constructor stores *)
Definition abs_aim (a : Qinf) : option Q := match a with Fin q => Some q | _ => None end.

Theorem code_get_aim (self : EvolutionaryAlgorithm G P) (minimization : bool) optimal err :
  ea_sign G P self = (if minimization then -1 else 1) ->
  abs_aim (py_EvolutionaryAlgorithm__get_aim G P self optimal err) = aim_of minimization optimal err.
Proof.
  intro Hs. unfold py_EvolutionaryAlgorithm__get_aim, aim_of. destruct optimal as [v|]; [|reflexivity].
  rewrite Hs. destruct minimization; reflexivity.
Qed.

(* _termitation_check = terminate *)
Definition abs_nin (n : option Z) : option nat := option_map Z.to_nat n.

Theorem code_terminate (self : EvolutionaryAlgorithm G P) (st : state G P) :
  ea_aim G P self <> NegInf -> tf_fitness G P (ea_thefittest G P self) <> PosInf ->
  best st = abs_best (ea_thefittest G P self) ->
  Z.of_nat (counter st) = tf_no_update_counter G P (ea_thefittest G P self) ->
  (forall n, ea_no_increase_num G P self = Some n -> 0 <= n) ->
  py_EvolutionaryAlgorithm__termitation_check G P self
  = terminate G P (abs_aim (ea_aim G P self)) (abs_nin (ea_no_increase_num G P self)) st.
Proof.
  intros Ha Hf Hb Hc Hn. unfold py_EvolutionaryAlgorithm__termitation_check, terminate. cbv zeta.
  rewrite Hb. unfold abs_best, abs_aim, abs_nin.
  f_equal.
  - destruct (ea_aim G P self) as [|a|]; [congruence| |];
      destruct (tf_fitness G P (ea_thefittest G P self)) as [|f|]; try congruence; reflexivity.
  - destruct (ea_no_increase_num G P self) as [n|] eqn:En; [|reflexivity]. cbn [option_map].
    rewrite <- Hc. specialize (Hn n eq_refl).
    destruct (Nat.eqb_spec (counter st) (Z.to_nat n)) as [He|Hne].
    + apply Z.eqb_eq. lia.
    + apply Z.eqb_neq. lia.
Qed.

(* get_remains_calls = iters*pop_size - calls *)
Theorem code_remains (self : EvolutionaryAlgorithm G P) :
  py_EvolutionaryAlgorithm_get_remains_calls G P self
  = ea_iters G P self * ea_pop_size G P self - ea_calls G P self.
Proof. unfold py_EvolutionaryAlgorithm_get_remains_calls. lia. Qed.

(* the constructor's state: nothing recorded, counter 0, calls 0, aim = aim_of *)
Theorem code_init iters pop_size minimization optimal err nin elitism keep_history n_jobs has_cb :
  let self := py_EvolutionaryAlgorithm_init G P dG dP iters pop_size minimization optimal err nin elitism keep_history n_jobs has_cb in
  abs_best (ea_thefittest G P self) = None /\ tf_no_update_counter G P (ea_thefittest G P self) = 0 /\
  ea_calls G P self = 0 /\ abs_aim (ea_aim G P self) = aim_of minimization optimal err /\ ea_aim G P self <> NegInf /\
  ea_stats G P self = [] /\ snd (ea_on_generation G P self) = 0.
Proof.
  cbv zeta. unfold py_EvolutionaryAlgorithm_init. cbv zeta. cbn [ea_thefittest ea_calls ea_aim ea_stats ea_on_generation snd].
  repeat split.
  - apply code_get_aim. reflexivity.
  - unfold py_EvolutionaryAlgorithm__get_aim. destruct optimal; discriminate.
Qed.

End Tie.
