(* NetOrderProofs.v — C13/C12: Net._get_order terminates on Valid nets and schedules every
   non-input node exactly once, sources before use.                                             *)
From TF Require Import Base Net NetAlgebra NetOrder NetProofs NetProofs2.
From Coq Require Import Permutation Sorted.
Local Open Scope nat_scope.

(* ------------------------------------------------------------------ np.unique *)
Lemma ins_u_In x l y : In y (ins_u x l) <-> y = x \/ In y l.
Proof.
  induction l as [|h t IH]; simpl.
  - intuition.
  - destruct (x =? h) eqn:E.
    + apply Nat.eqb_eq in E. subst. simpl. intuition.
    + destruct (x <? h); simpl; rewrite ?IH; intuition.
Qed.
Lemma usort_In l y : In y (usort l) <-> In y l.
Proof.
  induction l as [|h t IH]; simpl; [tauto|]. unfold usort in *. simpl.
  rewrite ins_u_In, IH. intuition.
Qed.
Lemma ins_u_sorted x l : StronglySorted lt l -> StronglySorted lt (ins_u x l).
Proof.
  induction l as [|h t IH]; simpl; intro H.
  - repeat constructor.
  - inversion H; subst. destruct (x =? h) eqn:E; auto.
    apply Nat.eqb_neq in E. destruct (x <? h) eqn:E2.
    + apply Nat.ltb_lt in E2. constructor; auto. constructor; auto.
      eapply Forall_impl; [|exact H3]. intros a Ha. simpl in Ha. lia.
    + apply Nat.ltb_ge in E2. constructor; auto. apply Forall_forall. intros y Hy.
      apply ins_u_In in Hy. destruct Hy as [->|Hy]; [lia|].
      rewrite Forall_forall in H3. auto.
Qed.
Lemma usort_sorted l : StronglySorted lt (usort l).
Proof.
  induction l as [|h t IH]; simpl. constructor. unfold usort in *. simpl. apply ins_u_sorted; auto.
Qed.
Lemma usort_NoDup l : NoDup (usort l).
Proof.
  pose proof (usort_sorted l) as H. induction H; constructor; auto.
  intro Hc. rewrite Forall_forall in H0. apply H0 in Hc. lia.
Qed.

(* ------------------------------------------------------------------ entries / keys *)
Lemma ins_src_In x l y : In y (ins_src x l) <-> y = x \/ In y l.
Proof.
  induction l as [|h t IH]; simpl.
  - intuition.
  - destruct (fst x <=? fst h); simpl; rewrite ?IH; intuition.
Qed.
Lemma sort_src_In l y : In y (fold_right ins_src [] l) <-> In y l.
Proof.
  induction l as [|h t IH]; simpl; [tauto|]. rewrite ins_src_In, IH. intuition.
Qed.
Lemma entries_from_src s con t a :
  In a (map fst (entries_from s con t)) <-> In (a, t) con.
Proof.
  revert s. induction con as [|[x y] r IH]; intro s; simpl; [tauto|].
  destruct (y =? t) eqn:E.
  - apply Nat.eqb_eq in E. subst. simpl. rewrite IH. split.
    + intros [->|H]; auto.
    + intros [H|H]; auto. inversion H; auto.
  - apply Nat.eqb_neq in E. rewrite IH. split; auto.
    intros [H|H]; auto. inversion H; subst. congruence.
Qed.
Definition key_of (con : list (nat * nat)) (t : nat) : list nat := map fst (entries con t).
Lemma key_of_In con t a : In a (key_of con t) <-> In (a, t) con.
Proof.
  unfold key_of, entries. rewrite <- (entries_from_src 0 con t a), !in_map_iff.
  split; intros [p [E H]]; exists p; split; auto; apply sort_src_In; auto.
Qed.

(* ------------------------------------------------------------------ build_pairs *)
Definition p_ts (p : pairT) : list nat := fst (snd p).
Definition all_ts (ps : list pairT) : list nat := concat (map p_ts ps).

Lemma natlist_eqb_eq a b : natlist_eqb a b = true -> a = b.
Proof.
  revert b. induction a as [|x a IH]; intros [|y b] H; simpl in *; try discriminate; auto.
  apply andb_true_iff in H. destruct H as [H1 H2]. apply Nat.eqb_eq in H1. subst. f_equal; auto.
Qed.

Lemma add_pair_ts key t w ps : Permutation (all_ts (add_pair key t w ps)) (t :: all_ts ps).
Proof.
  induction ps as [|p r IH]; simpl.
  - unfold all_ts. simpl. auto.
  - destruct (natlist_eqb (fst p) key).
    + unfold all_ts. simpl. unfold p_ts at 1. simpl.
      rewrite <- app_assoc. simpl.
      change (Permutation (fst (snd p) ++ t :: all_ts r) (t :: p_ts p ++ all_ts r)).
      symmetry. apply Permutation_middle.
    + unfold all_ts in *. simpl. rewrite IH.
      change (Permutation (p_ts p ++ t :: concat (map p_ts r)) (t :: p_ts p ++ concat (map p_ts r))).
      symmetry. apply Permutation_middle.
Qed.

(* every target of a group has the group's key as its sorted source tuple *)
Definition keys_ok (con : list (nat * nat)) (ps : list pairT) : Prop :=
  forall p t, In p ps -> In t (p_ts p) -> fst p = key_of con t.

Lemma add_pair_keys con t ps :
  keys_ok con ps ->
  keys_ok con (add_pair (key_of con t) t (map snd (entries con t)) ps).
Proof.
  intro H. induction ps as [|p r IH]; simpl.
  - intros p' t' [E|[]] Ht. subst p'. unfold p_ts in Ht. simpl in Ht.
    destruct Ht as [E|[]]. subst t'. reflexivity.
  - destruct (natlist_eqb (fst p) (key_of con t)) eqn:E.
    + apply natlist_eqb_eq in E. intros p' t' [Ep|Hp] Ht.
      * subst p'. unfold p_ts in Ht. simpl in *. apply in_app_iff in Ht.
        destruct Ht as [Ht|[Et|[]]].
        -- apply (H p); simpl; auto.
        -- subst t'. exact E.
      * apply (H p'); simpl; auto.
    + intros p' t' [Ep|Hp] Ht.
      * subst p'. apply (H p); simpl; auto.
      * apply IH; auto. intros q u Hq Hu. apply (H q); simpl; auto.
Qed.

Lemma build_pairs_fold con ts ps0 :
  keys_ok con ps0 ->
  let ps := fold_left (fun ps t => let e := entries con t in add_pair (map fst e) t (map snd e) ps) ts ps0 in
  Permutation (all_ts ps) (all_ts ps0 ++ ts) /\ keys_ok con ps.
Proof.
  revert ps0. induction ts as [|t ts IH]; intros ps0 H; simpl.
  - rewrite app_nil_r. auto.
  - destruct (IH (add_pair (map fst (entries con t)) t (map snd (entries con t)) ps0)) as [P K].
    { apply add_pair_keys; auto. }
    split; auto. rewrite P, add_pair_ts.
    change (Permutation ((t :: all_ts ps0) ++ ts) (all_ts ps0 ++ t :: ts)).
    simpl. apply Permutation_middle.
Qed.

Lemma build_pairs_spec con :
  let ps := build_pairs con in
  NoDup (all_ts ps) /\ (forall t, In t (all_ts ps) <-> In t (map snd con)) /\ keys_ok con ps.
Proof.
  unfold build_pairs.
  destruct (build_pairs_fold con (usort (map snd con)) []) as [P K].
  { intros p t []. }
  simpl in P. split; [|split]; auto.
  - eapply Permutation_NoDup; [symmetry; exact P|]. apply usort_NoDup.
  - intro t. split; intro H.
    + apply (usort_In (map snd con)). eapply Permutation_in; [exact P|exact H].
    + apply (usort_In (map snd con)) in H. eapply Permutation_in; [symmetry; exact P|exact H].
Qed.

(* ------------------------------------------------------------------ one pass *)
Definition targets (s : list group) : list nat := concat (map g_to s).
(* every group's sources are inputs or targets of earlier groups *)
Fixpoint well_sched (calc : list nat) (s : list group) : Prop :=
  match s with
  | [] => True
  | g :: r => incl (g_from g) calc /\ well_sched (calc ++ g_to g) r
  end.
Definition eligible (calc : list nat) (p : pairT) : bool :=
  subset (fst p) calc && negb (subset (p_ts p) calc).
Definition closed (calc : list nat) (PS : list pairT) : Prop :=
  forall p, In p PS -> incl (p_ts p) calc \/ (forall v, In v (p_ts p) -> ~ In v calc).
(* a schedule group is one entry of the pairs table *)
Definition group_of (acts : list (nat * nat)) (PS : list pairT) (g : group) : Prop :=
  exists p, In p PS /\ g_from g = fst p /\ g_to g = p_ts p /\ g_wid g = snd (snd p) /\
            act_groups acts (g_to g) [] = Some (g_act g).

Lemma well_sched_incl c1 c2 s : incl c1 c2 -> well_sched c1 s -> well_sched c2 s.
Proof.
  revert c1 c2. induction s as [|g r IH]; simpl; intros c1 c2 H Hw; auto.
  destruct Hw as [H1 H2]. split.
  - eapply incl_tran; eauto.
  - eapply IH; [|exact H2]. apply incl_app; [apply incl_appl; auto|apply incl_appr, incl_refl].
Qed.
Lemma well_sched_app c s1 s2 :
  well_sched c s1 -> well_sched (c ++ targets s1) s2 -> well_sched c (s1 ++ s2).
Proof.
  revert c. induction s1 as [|g r IH]; simpl; intros c H1 H2.
  - unfold targets in H2. simpl in H2. rewrite app_nil_r in H2. auto.
  - destruct H1 as [H1 H3]. split; auto. apply IH; auto.
    unfold targets in *. simpl in H2. rewrite app_assoc in H2. auto.
Qed.

Lemma act_groups_some acts ts : forall acc,
  (forall t, In t ts -> exists c, alookup t acts = Some c) ->
  exists ag, act_groups acts ts acc = Some ag.
Proof.
  induction ts as [|t r IH]; intros acc H; simpl; eauto.
  destruct (H t (or_introl eq_refl)) as [c Hc]. rewrite Hc. apply IH.
  intros u Hu. apply H. simpl; auto.
Qed.

Lemma pass_spec acts PS ps : forall calc,
  incl ps PS ->
  (forall p t, In p ps -> In t (p_ts p) -> exists c, alookup t acts = Some c) ->
  exists calc' gs, pass acts calc ps = Some (calc', gs) /\
    incl calc calc' /\
    (forall v, In v calc' <-> In v calc \/ In v (targets gs)) /\
    (forall p, In p ps -> subset (fst p) calc = true -> incl (p_ts p) calc') /\
    well_sched calc gs /\ Forall (group_of acts PS) gs.
Proof.
  induction ps as [|p r IH]; intros calc Hin Hact; simpl.
  - exists calc, []. split; auto. split; [apply incl_refl|]. split; [|split; [|split]]; simpl; auto.
    + intro v. unfold targets. simpl. tauto.
    + intros p [].
  - assert (Hin' : incl r PS) by (intros x Hx; apply Hin; simpl; auto).
    assert (Hact' : forall q t, In q r -> In t (p_ts q) -> exists c, alookup t acts = Some c).
    { intros q t Hq Ht. apply (Hact q t); simpl; auto. }
    destruct (subset (fst p) calc && negb (subset (fst (snd p)) calc)) eqn:E.
    + destruct (act_groups_some acts (fst (snd p)) []) as [ag Hag].
      { intros t Ht. apply (Hact p t); simpl; auto. }
      rewrite Hag.
      destruct (IH (union calc (fst (snd p))) Hin' Hact') as [c' [gs [E1 [I1 [I2 [I3 [I4 I5]]]]]]].
      rewrite E1. exists c', (mkG (fst p) (fst (snd p)) (snd (snd p)) ag :: gs).
      apply andb_true_iff in E. destruct E as [Ek Et].
      split; auto. split; [|split; [|split; [|split]]].
      * intros v Hv. apply I1. apply union_In. auto.
      * intro v. rewrite I2, union_In. unfold targets. simpl. rewrite in_app_iff. tauto.
      * intros q [<-|Hq] Hs.
        -- intros v Hv. apply I1. apply union_In. auto.
        -- apply I3; auto. apply subset_spec. intros x Hx. apply union_In. left.
           rewrite subset_spec in Hs. auto.
      * simpl. split.
        -- exact (proj1 (subset_spec _ _) Ek).
        -- eapply well_sched_incl; [|exact I4]. intros v Hv. apply union_In in Hv.
           apply in_app_iff. auto.
      * constructor; auto. exists p. simpl. repeat split; auto. apply Hin. simpl; auto.
    + destruct (IH calc Hin' Hact') as [c' [gs [E1 [I1 [I2 [I3 [I4 I5]]]]]]].
      rewrite E1. exists c', gs. split; auto. split; auto. split; auto. split; auto.
      intros q [<-|Hq] Hs; auto.
      rewrite Hs in E. simpl in E. apply negb_false_iff in E. rewrite subset_spec in E.
      intros v Hv. apply I1. apply E. auto.
Qed.

Lemma same_group PS p q v :
  NoDup (all_ts PS) -> In p PS -> In q PS -> In v (p_ts p) -> In v (p_ts q) -> p_ts p = p_ts q.
Proof.
  induction PS as [|x r IH]; intros ND Hp Hq Hvp Hvq; [destruct Hp|].
  unfold all_ts in ND. simpl in ND. apply NoDup_app_elim in ND. destruct ND as [N1 [N2 N3]].
  assert (Hall : forall y, In y r -> In v (p_ts y) -> In v (concat (map p_ts r))).
  { intros y Hy Hv. apply in_concat. exists (p_ts y). split; auto. apply in_map; auto. }
  destruct Hp as [<-|Hp], Hq as [<-|Hq]; auto.
  - exfalso. apply (N3 v); eauto.
  - exfalso. apply (N3 v); eauto.
Qed.

Lemma closed_union calc PS p :
  NoDup (all_ts PS) -> In p PS -> closed calc PS -> closed (union calc (p_ts p)) PS.
Proof.
  intros ND Hp Hc q Hq. destruct (Hc q Hq) as [H|H].
  - left. intros v Hv. apply union_In. auto.
  - destruct (existsb (fun v => mem v (p_ts p)) (p_ts q)) eqn:E.
    + apply existsb_exists in E. destruct E as [v [Hv1 Hv2]]. apply mem_In in Hv2.
      left. rewrite (same_group PS q p v); auto. intros x Hx. apply union_In. auto.
    + right. intros v Hv Hc'. apply union_In in Hc'. destruct Hc' as [Hc'|Hc'].
      * apply (H v); auto.
      * assert (existsb (fun v => mem v (p_ts p)) (p_ts q) = true); [|congruence].
        apply existsb_exists. exists v. split; auto. apply mem_In; auto.
Qed.

Lemma pass_nodup acts PS ps : forall calc calc' gs,
  NoDup (all_ts PS) -> incl ps PS -> closed calc PS ->
  pass acts calc ps = Some (calc', gs) ->
  closed calc' PS /\ NoDup (targets gs) /\ (forall v, In v (targets gs) -> ~ In v calc).
Proof.
  induction ps as [|p r IH]; intros calc calc' gs ND Hin Hc Hp; simpl in Hp.
  - inversion Hp; subst. split; auto. split; [constructor|]. intros v [].
  - assert (Hin' : incl r PS) by (intros x Hx; apply Hin; simpl; auto).
    assert (HpPS : In p PS) by (apply Hin; simpl; auto).
    destruct (subset (fst p) calc && negb (subset (fst (snd p)) calc)) eqn:E.
    + destruct (act_groups acts (fst (snd p)) []) as [ag|]; [|discriminate].
      destruct (pass acts (union calc (fst (snd p))) r) as [[c2 gs2]|] eqn:E2; [|discriminate].
      inversion Hp; subst. clear Hp.
      apply andb_true_iff in E. destruct E as [_ Et]. apply negb_true_iff in Et.
      assert (Hdis : forall v, In v (p_ts p) -> ~ In v calc).
      { destruct (Hc p HpPS) as [H|H]; auto.
        exfalso. assert (subset (p_ts p) calc = true) by (apply subset_spec; auto).
        unfold p_ts in *. congruence. }
      destruct (IH _ _ _ ND Hin' (closed_union calc PS p ND HpPS Hc) E2) as [C1 [C2 C3]].
      split; auto. unfold targets in *. simpl. split.
      * apply NoDup_app_intro; auto.
        -- (* targets of one entry are duplicate free *)
           clear - ND HpPS. induction PS as [|x r IH]; [destruct HpPS|].
           unfold all_ts in ND. simpl in ND. apply NoDup_app_elim in ND. destruct ND as [N1 [N2 _]].
           destruct HpPS as [<-|H]; auto.
        -- intros v H1 H2. apply (C3 v H2). apply union_In. auto.
      * intros v Hv. apply in_app_iff in Hv. destruct Hv as [Hv|Hv].
        -- apply Hdis; auto.
        -- intro Hc'. apply (C3 v Hv). apply union_In. auto.
    + eapply IH; eauto.
Qed.

(* ------------------------------------------------------------------ layered nets *)
(* what the schedule needs of a net: Valid without uniqueness of the connection rows (duplicate
   rows add up in forward), without the outgoing-connection and weight-count clauses *)
Record Layered (n : net) : Prop := {
  l_sets     : NoDup (n_in n ++ hidden n ++ n_out n);
  l_rank     : exists rank, rank_ok n rank;
  l_incoming : forall v, In v (hidden n) \/ In v (n_out n) -> exists a, In (a, v) (n_con n);
  l_keys     : NoDup (map fst (n_act n));
  l_act      : forall v, In v (map fst (n_act n)) <-> In v (hidden n) \/ In v (n_out n)
}.
Lemma Valid_Layered n : Valid n -> Layered n.
Proof.
  intro V. constructor.
  - apply (v_sets n V). - apply (v_rank n V). - apply (v_incoming n V).
  - apply (proj1 (v_activs n V)). - apply (proj2 (v_activs n V)).
Qed.

Lemma purpose_In n v : In v (purpose n) <-> In v (n_in n) \/ In v (hidden n) \/ In v (n_out n).
Proof. unfold purpose. rewrite !union_In, assemble_In. unfold hidden. tauto. Qed.

Lemma valid_targets n : Layered n ->
  forall t, In t (map snd (n_con n)) <-> In t (hidden n ++ n_out n).
Proof.
  intros V t. rewrite in_app_iff. split.
  - intro H. apply in_map_iff in H. destruct H as [[a b] [E Hc]]. simpl in E. subst b.
    destruct (l_rank n V) as [rank [_ [_ [_ R]]]]. destruct (R a t Hc) as [_ [_ H]]. auto.
  - intro H. destruct (l_incoming n V t H) as [a Ha]. apply in_map_iff. exists (a, t). auto.
Qed.

Lemma valid_disjoint n : Layered n -> forall v, In v (n_in n) -> In v (hidden n ++ n_out n) -> False.
Proof. intros V. pose proof (l_sets n V) as H. apply NoDup_app_elim in H. tauto. Qed.

Lemma alookup_some k acts : In k (map fst acts) -> exists c, alookup k acts = Some c.
Proof.
  induction acts as [|[k' c] r IH]; simpl; [tauto|].
  destruct (k =? k') eqn:E; eauto. intros [H|H]; auto. apply Nat.eqb_neq in E. congruence.
Qed.

Lemma all_ts_In ps t : In t (all_ts ps) <-> exists p, In p ps /\ In t (p_ts p).
Proof.
  unfold all_ts. rewrite in_concat. split.
  - intros [l [Hl Ht]]. apply in_map_iff in Hl. destruct Hl as [p [<- Hp]]. eauto.
  - intros [p [Hp Ht]]. exists (p_ts p). split; auto. apply in_map; auto.
Qed.

(* if no group can be emitted, everything is computed (strong induction on the rank) *)
Lemma no_eligible_done n calc : Layered n -> incl (n_in n) calc ->
  existsb (eligible calc) (build_pairs (n_con n)) = false ->
  forall v, In v (purpose n) -> In v calc.
Proof.
  intros V Hin Hne.
  destruct (build_pairs_spec (n_con n)) as [ND [HT HK]].
  destruct (l_rank n V) as [rank [R1 [R2 [R3 R4]]]].
  assert (Main : forall k v, rank v < k -> In v (purpose n) -> In v calc).
  { induction k as [|k IH]; intros v Hk Hv; [lia|].
    apply purpose_In in Hv. destruct Hv as [Hv|Hv]; [apply Hin; auto|].
    assert (Hho : In v (hidden n ++ n_out n)) by (apply in_app_iff; auto).
    apply (valid_targets n V), HT, all_ts_In in Hho. destruct Hho as [p [Hp Ht]].
    assert (Hs : subset (fst p) calc = true).
    { apply subset_spec. intros a Ha. rewrite (HK p v Hp Ht) in Ha. apply key_of_In in Ha.
      destruct (R4 a v Ha) as [Hr [Ha' _]]. apply IH; [lia|].
      apply purpose_In. tauto. }
    assert (He : eligible calc p = false).
    { destruct (eligible calc p) eqn:E; auto.
      assert (existsb (eligible calc) (build_pairs (n_con n)) = true); [|congruence].
      apply existsb_exists. eauto. }
    unfold eligible in He. rewrite Hs in He. simpl in He. apply negb_false_iff in He.
    rewrite subset_spec in He. auto. }
  intros v Hv. apply (Main (S (rank v))); auto.
Qed.

Definition pending (calc : list nat) (ps : list pairT) : nat :=
  length (filter (fun p => negb (subset (p_ts p) calc)) ps).

Lemma filter_length_le {A} (f g : A -> bool) l :
  (forall x, In x l -> g x = true -> f x = true) -> length (filter g l) <= length (filter f l).
Proof.
  induction l as [|h t IH]; simpl; intro H; auto.
  destruct (g h) eqn:Eg.
  - rewrite (H h (or_introl eq_refl) Eg). simpl. apply le_n_S, IH. intros x Hx. apply H; simpl; auto.
  - destruct (f h); simpl; [apply le_S|]; apply IH; intros x Hx; apply H; simpl; auto.
Qed.
Lemma filter_length_lt {A} (f g : A -> bool) l :
  (forall x, In x l -> g x = true -> f x = true) ->
  (exists x, In x l /\ f x = true /\ g x = false) -> length (filter g l) < length (filter f l).
Proof.
  induction l as [|h t IH]; simpl; intros H [x [Hx [Hf Hg]]]; [destruct Hx|].
  assert (H' : forall x, In x t -> g x = true -> f x = true) by (intros y Hy; apply H; auto).
  destruct Hx as [<-|Hx].
  - rewrite Hf, Hg. simpl. apply le_n_S. apply filter_length_le; auto.
  - destruct (g h) eqn:Eg.
    + rewrite (H h (or_introl eq_refl) Eg). simpl. apply (proj1 (Nat.succ_lt_mono _ _)). apply IH; eauto.
    + destruct (f h); simpl; [apply Nat.lt_lt_succ_r|]; apply IH; eauto.
Qed.

Lemma order_loop_ok n : Layered n ->
  let ps := build_pairs (n_con n) in
  forall fuel calc acc,
    pending calc ps <= fuel -> incl (n_in n) calc ->
    (forall v, In v calc <-> In v (n_in n) \/ In v (targets acc)) ->
    (forall v, In v (targets acc) -> In v (hidden n ++ n_out n)) ->
    closed calc ps -> NoDup (targets acc) -> well_sched (n_in n) acc -> Forall (group_of (n_act n) ps) acc ->
    exists s, order_loop fuel (n_act n) calc (purpose n) ps acc = Some s /\
              well_sched (n_in n) s /\ NoDup (targets s) /\ Forall (group_of (n_act n) ps) s /\
              (forall v, In v (targets s) <-> In v (hidden n ++ n_out n)).
Proof.
  intros V ps.
  destruct (build_pairs_spec (n_con n)) as [ND [HT HK]]. fold ps in ND, HT, HK.
  assert (Hact : forall p t, In p ps -> In t (p_ts p) -> exists c, alookup t (n_act n) = Some c).
  { intros p t Hp Ht. apply alookup_some. apply (l_act n V).
    apply in_app_iff. apply (valid_targets n V). apply HT. apply all_ts_In. eauto. }
  induction fuel as [|f IH]; intros calc acc Hpend Hin Hcalc Hacc Hcl Hnd Hws Hgo; simpl.
  - destruct (set_eq calc (purpose n)) eqn:E.
    + exists acc. split; auto. split; auto. split; auto. split; auto.
      rewrite set_eq_spec in E. intro v. split; auto. intro Hv.
      assert (Hp : In v (purpose n)) by (apply purpose_In; apply in_app_iff in Hv; tauto).
      apply E, Hcalc in Hp. destruct Hp as [Hp|Hp]; auto.
      exfalso. apply (valid_disjoint n V v); auto.
    + exfalso.
      assert (Hall : forall v, In v (purpose n) -> In v calc).
      { apply no_eligible_done; auto. fold ps.
        destruct (existsb (eligible calc) ps) eqn:Ex; auto.
        apply existsb_exists in Ex. destruct Ex as [p [Hp He]].
        unfold eligible in He. apply andb_true_iff in He. destruct He as [_ He].
        unfold pending in Hpend.
        assert (In p (filter (fun p => negb (subset (p_ts p) calc)) ps)) by (apply filter_In; auto).
        destruct (filter (fun p => negb (subset (p_ts p) calc)) ps); simpl in *; [tauto|lia]. }
      assert (set_eq calc (purpose n) = true); [|congruence].
      apply set_eq_spec. intro v. split; auto.
      intro Hv. apply Hcalc in Hv. apply purpose_In. destruct Hv as [Hv|Hv]; auto.
      apply Hacc, in_app_iff in Hv. tauto.
  - destruct (set_eq calc (purpose n)) eqn:E.
    + exists acc. split; auto. split; auto. split; auto. split; auto.
      rewrite set_eq_spec in E. intro v. split; auto. intro Hv.
      assert (Hp : In v (purpose n)) by (apply purpose_In; apply in_app_iff in Hv; tauto).
      apply E, Hcalc in Hp. destruct Hp as [Hp|Hp]; auto.
      exfalso. apply (valid_disjoint n V v); auto.
    + destruct (pass_spec (n_act n) ps ps calc (incl_refl _) Hact)
        as [c' [gs [Ep [P1 [P2 [P3 [P4 P5]]]]]]].
      rewrite Ep.
      destruct (pass_nodup (n_act n) ps ps calc c' gs ND (incl_refl _) Hcl Ep) as [Q1 [Q2 Q3]].
      assert (Hgs : forall v, In v (targets gs) -> In v (hidden n ++ n_out n)).
      { intros v Hv. unfold targets in Hv. apply in_concat in Hv. destruct Hv as [l [Hl Hv]].
        apply in_map_iff in Hl. destruct Hl as [g [<- Hg]].
        rewrite Forall_forall in P5. destruct (P5 g Hg) as [p [Hp [_ [Et _]]]].
        apply (valid_targets n V), HT, all_ts_In. exists p. rewrite <- Et. auto. }
      apply IH.
      * (* progress *)
        assert (Hex : existsb (eligible calc) ps = true).
        { destruct (existsb (eligible calc) ps) eqn:Ex; auto. exfalso.
          assert (set_eq calc (purpose n) = true); [|congruence].
          apply set_eq_spec. intro v. split.
          - intro Hv. apply Hcalc in Hv. apply purpose_In. destruct Hv as [Hv|Hv]; auto.
            apply Hacc, in_app_iff in Hv. tauto.
          - apply no_eligible_done; auto. }
        apply existsb_exists in Hex. destruct Hex as [p [Hp He]].
        unfold eligible in He. apply andb_true_iff in He. destruct He as [He1 He2].
        assert (pending c' ps < pending calc ps); [|lia].
        unfold pending. apply filter_length_lt.
        -- intros x Hx Hg. apply negb_true_iff in Hg. apply negb_true_iff.
           destruct (subset (p_ts x) calc) eqn:Es; auto.
           assert (subset (p_ts x) c' = true); [|congruence].
           apply subset_spec. intros y Hy. apply P1. rewrite subset_spec in Es. auto.
        -- exists p. split; auto. split; auto. apply negb_false_iff. apply subset_spec.
           apply P3; auto.
      * eapply incl_tran; eauto.
      * intro v. rewrite P2, Hcalc. unfold targets. rewrite map_app, concat_app, in_app_iff. tauto.
      * intros v Hv. unfold targets in Hv. rewrite map_app, concat_app, in_app_iff in Hv.
        destruct Hv; auto.
      * auto.
      * unfold targets. rewrite map_app, concat_app. apply NoDup_app_intro; auto.
        intros v H1 H2. apply (Q3 v H2). apply Hcalc. auto.
      * apply well_sched_app; auto. eapply well_sched_incl; [|exact P4].
        intros v Hv. apply Hcalc in Hv. apply in_app_iff. auto.
      * apply Forall_app. auto.
Qed.

(* C13_order_terminates *)
Theorem order_terminates n : Layered n ->
  exists s, get_order (order_fuel n) n = Some s /\
            well_sched (n_in n) s /\
            Permutation (targets s) (hidden n ++ n_out n) /\
            Forall (group_of (n_act n) (build_pairs (n_con n))) s.
Proof.
  intro V. unfold get_order, order_fuel.
  destruct (build_pairs_spec (n_con n)) as [ND [HT HK]].
  destruct (order_loop_ok n V (length (build_pairs (n_con n))) (n_in n) []) as [s [E [W [N [G T]]]]].
  - unfold pending. clear. induction (build_pairs (n_con n)) as [|h t IH]; simpl; auto.
    destruct (negb (subset (p_ts h) (n_in n))); simpl; lia.
  - apply incl_refl.
  - intro v. unfold targets. simpl. tauto.
  - intros v [].
  - intros p Hp. right. intros v Hv Hc. apply (valid_disjoint n V v); auto.
    apply (valid_targets n V), HT, all_ts_In. eauto.
  - constructor.
  - simpl. auto.
  - constructor.
  - exists s. split; auto. split; auto. split; auto.
    apply NoDup_Permutation; auto.
    pose proof (l_sets n V) as H. apply NoDup_app_elim in H. tauto.
Qed.

(* more fuel never changes a result *)
Lemma order_loop_mono acts purpose ps : forall fuel k calc acc s,
  order_loop fuel acts calc purpose ps acc = Some s ->
  order_loop (fuel + k) acts calc purpose ps acc = Some s.
Proof.
  induction fuel as [|f IH]; intros k calc acc s; simpl.
  - destruct (set_eq calc purpose) eqn:E; [|discriminate].
    intro H. destruct k; simpl; rewrite E; auto.
  - destruct (set_eq calc purpose) eqn:E; auto.
    destruct (pass acts calc ps) as [[c' gs]|]; [|discriminate]. apply IH.
Qed.

Theorem order_terminates_valid n : Valid n ->
  exists s, get_order (order_fuel n) n = Some s /\
            well_sched (n_in n) s /\
            Permutation (targets s) (hidden n ++ n_out n) /\
            Forall (group_of (n_act n) (build_pairs (n_con n))) s.
Proof. intro V. apply order_terminates. apply Valid_Layered; auto. Qed.

(* ------------------------------------------------------------------ weight-index rows *)
Definition p_ws (p : pairT) : list (list nat) := snd (snd p).
(* row j of a group's weight-index matrix lists the connection rows into target j, sorted by source *)
Definition rows_ok (con : list (nat * nat)) (ps : list pairT) : Prop :=
  forall p, In p ps ->
    length (p_ts p) = length (p_ws p) /\
    forall t wr, In (t, wr) (combine (p_ts p) (p_ws p)) -> wr = map snd (entries con t).

Lemma combine_snoc {A B} (l1 : list A) (l2 : list B) a b :
  length l1 = length l2 -> combine (l1 ++ [a]) (l2 ++ [b]) = combine l1 l2 ++ [(a, b)].
Proof.
  revert l2. induction l1 as [|x t IH]; intros [|y u] H; simpl in *; try discriminate; auto.
  f_equal. apply IH. lia.
Qed.

Lemma add_pair_rows con t ps :
  rows_ok con ps -> rows_ok con (add_pair (key_of con t) t (map snd (entries con t)) ps).
Proof.
  intro H. induction ps as [|p r IH]; simpl.
  - intros p' [E|[]]. subst p'. unfold p_ts, p_ws. simpl. split; auto.
    intros t' wr [E|[]]. inversion E; subst. reflexivity.
  - destruct (natlist_eqb (fst p) (key_of con t)) eqn:E.
    + intros p' [Ep|Hp].
      * subst p'. unfold p_ts, p_ws. simpl. destruct (H p (or_introl eq_refl)) as [HL HR].
        unfold p_ts, p_ws in HL, HR. split.
        -- rewrite !app_length. simpl. lia.
        -- intros t' wr Hin. rewrite combine_snoc in Hin by auto. apply in_app_iff in Hin.
           destruct Hin as [Hin|[Hin|[]]]; auto. inversion Hin; subst. reflexivity.
      * apply (H p'). simpl; auto.
    + intros p' [Ep|Hp].
      * subst p'. apply (H p). simpl; auto.
      * apply IH; auto. intros q Hq. apply (H q). simpl; auto.
Qed.

Lemma build_pairs_rows con : rows_ok con (build_pairs con).
Proof.
  unfold build_pairs.
  assert (G : forall ts ps0, rows_ok con ps0 ->
            rows_ok con (fold_left (fun ps t => let e := entries con t in
                                    add_pair (map fst e) t (map snd e) ps) ts ps0)).
  { induction ts as [|t ts IH]; intros ps0 H; simpl; auto.
    apply IH. apply add_pair_rows; auto. }
  apply G. intros p [].
Qed.

(* ------------------------------------------------------------------ activation groups *)
Definition has_code (acts : list (nat * nat)) (c v : nat) : bool :=
  match alookup v acts with Some c' => c' =? c | None => false end.

Fixpoint glookup (c : nat) (acc : list (nat * list nat)) : list nat :=
  match acc with
  | [] => []
  | p :: r => if c =? fst p then snd p else glookup c r
  end.

Lemma filter_snoc {A} (f : A -> bool) l x :
  filter f (l ++ [x]) = filter f l ++ (if f x then [x] else []).
Proof. rewrite filter_app. simpl. destruct (f x); auto. Qed.

Lemma add_code_same c t acc : glookup c (add_code c t acc) = glookup c acc ++ [t].
Proof.
  induction acc as [|p r IH]; simpl.
  - rewrite Nat.eqb_refl. reflexivity.
  - destruct (c =? fst p) eqn:E; simpl; rewrite E; auto.
Qed.
Lemma add_code_other c c' t acc : c' <> c -> glookup c' (add_code c t acc) = glookup c' acc.
Proof.
  intro H. induction acc as [|p r IH]; simpl.
  - apply Nat.eqb_neq in H. rewrite H. reflexivity.
  - destruct (c =? fst p) eqn:E; simpl.
    + destruct (c' =? fst p) eqn:E2; auto. apply Nat.eqb_eq in E. apply Nat.eqb_eq in E2. congruence.
    + rewrite IH. reflexivity.
Qed.
Lemma add_code_keys c t acc x :
  In x (map fst (add_code c t acc)) <-> x = c \/ In x (map fst acc).
Proof.
  induction acc as [|p r IH]; simpl.
  - intuition.
  - destruct (c =? fst p) eqn:E; simpl.
    + apply Nat.eqb_eq in E. subst. intuition.
    + rewrite IH. intuition.
Qed.
Lemma add_code_NoDup c t acc : NoDup (map fst acc) -> NoDup (map fst (add_code c t acc)).
Proof.
  induction acc as [|p r IH]; simpl; intro H.
  - repeat constructor; auto.
  - inversion H; subst. destruct (c =? fst p) eqn:E; simpl.
    + constructor; auto.
    + constructor; auto. rewrite add_code_keys. intros [Hc|Hc]; auto.
      subst. rewrite Nat.eqb_refl in E. discriminate.
Qed.
Lemma glookup_In c ns acc : NoDup (map fst acc) -> In (c, ns) acc -> glookup c acc = ns.
Proof.
  induction acc as [|p r IH]; simpl; intros H Hin; [destruct Hin|].
  inversion H; subst. destruct Hin as [E|Hin].
  - subst. simpl. rewrite Nat.eqb_refl. reflexivity.
  - destruct (c =? fst p) eqn:E.
    + apply Nat.eqb_eq in E. exfalso. apply H2. rewrite <- E. apply in_map_iff. exists (c, ns). auto.
    + apply IH; auto.
Qed.

(* nodes_i after processing the targets [done]: the entry of code c holds exactly the targets
   with that code, in order; a code has an entry iff some target has it *)
Definition ag_inv (acts : list (nat * nat)) (done : list nat) (acc : list (nat * list nat)) : Prop :=
  NoDup (map fst acc) /\
  (forall c, glookup c acc = filter (has_code acts c) done) /\
  (forall c, In c (map fst acc) <-> filter (has_code acts c) done <> []).

Lemma add_code_inv acts done acc c t :
  alookup t acts = Some c -> ag_inv acts done acc -> ag_inv acts (done ++ [t]) (add_code c t acc).
Proof.
  intros Hc [I1 [I2 I3]].
  assert (Hself : has_code acts c t = true) by (unfold has_code; rewrite Hc; apply Nat.eqb_refl).
  assert (Hother : forall c', c' <> c -> has_code acts c' t = false).
  { intros c' Hn. unfold has_code. rewrite Hc. apply Nat.eqb_neq. auto. }
  split; [apply add_code_NoDup; auto|]. split.
  - intro c'. destruct (Nat.eq_dec c' c) as [->|Hn].
    + rewrite add_code_same, filter_snoc, Hself, I2. reflexivity.
    + rewrite add_code_other, filter_snoc, Hother, app_nil_r by auto. apply I2.
  - intro c'. rewrite add_code_keys, filter_snoc. destruct (Nat.eq_dec c' c) as [->|Hn].
    + rewrite Hself. split.
      * intros _ E. apply app_eq_nil in E. destruct E; discriminate.
      * intros _. left. reflexivity.
    + rewrite Hother, app_nil_r by auto. rewrite <- I3. split.
      * intros [E|E]; [congruence|exact E].
      * intro E. right. exact E.
Qed.

Lemma act_groups_inv acts ts : forall done acc ag,
  act_groups acts ts acc = Some ag -> ag_inv acts done acc -> ag_inv acts (done ++ ts) ag.
Proof.
  induction ts as [|t r IH]; intros done acc ag H I; simpl in H.
  - inversion H; subst. rewrite app_nil_r. auto.
  - destruct (alookup t acts) as [c|] eqn:E; [|discriminate].
    replace (done ++ t :: r) with ((done ++ [t]) ++ r) by (rewrite <- app_assoc; reflexivity).
    eapply IH; eauto. apply add_code_inv; auto.
Qed.

(* the activation groups of a schedule group: codes distinct, the nodes of code c are exactly the
   targets with that code, in target order, and non-empty *)
Lemma act_groups_spec acts ts ag :
  act_groups acts ts [] = Some ag ->
  NoDup (map fst ag) /\
  (forall c ns, In (c, ns) ag -> ns = filter (has_code acts c) ts /\ ns <> []) /\
  (forall v c, In v ts -> alookup v acts = Some c -> In (c, filter (has_code acts c) ts) ag).
Proof.
  intro H. destruct (act_groups_inv acts ts [] [] ag H) as [I1 [I2 I3]].
  { split; [constructor|]. split; intro c; simpl; [reflexivity|]. split; [intros []|intro Hc; congruence]. }
  simpl in *. split; auto. split.
  - intros c ns Hin. rewrite <- I2. rewrite (glookup_In c ns ag I1 Hin). split; auto.
    rewrite <- (glookup_In c ns ag I1 Hin), I2. apply I3. apply in_map_iff. exists (c, ns). auto.
  - intros v c Hv Hl.
    assert (Hne : filter (has_code acts c) ts <> []).
    { intro E. assert (Hin : In v (filter (has_code acts c) ts)).
      { apply filter_In. split; auto. unfold has_code. rewrite Hl. apply Nat.eqb_refl. }
      rewrite E in Hin. destruct Hin. }
    apply I3 in Hne. apply in_map_iff in Hne. destruct Hne as [[c' ns] [E Hin]]. simpl in E. subst c'.
    rewrite <- I2, (glookup_In c ns ag I1 Hin). auto.
Qed.

(* ------------------------------------------------------------------ more on the pairs table *)
Lemma natlist_eqb_refl a : natlist_eqb a a = true.
Proof. induction a as [|x a IH]; simpl; auto. rewrite Nat.eqb_refl. auto. Qed.

Lemma add_pair_fst key t w ps k :
  In k (map fst (add_pair key t w ps)) <-> In k (map fst ps) \/ k = key.
Proof.
  induction ps as [|p r IH]; simpl.
  - intuition.
  - destruct (natlist_eqb (fst p) key) eqn:E; simpl.
    + apply natlist_eqb_eq in E. intuition. subst. auto.
    + rewrite IH. intuition.
Qed.
Lemma add_pair_fst_NoDup key t w ps :
  NoDup (map fst ps) -> NoDup (map fst (add_pair key t w ps)).
Proof.
  induction ps as [|p r IH]; simpl; intro H.
  - repeat constructor; auto.
  - inversion H; subst. destruct (natlist_eqb (fst p) key) eqn:E; simpl.
    + constructor; auto.
    + constructor; auto. rewrite add_pair_fst. intros [Hc|Hc]; auto.
      rewrite Hc, natlist_eqb_refl in E. discriminate.
Qed.
Lemma build_pairs_fst_NoDup con : NoDup (map fst (build_pairs con)).
Proof.
  unfold build_pairs.
  assert (G : forall ts ps0, NoDup (map fst ps0) ->
            NoDup (map fst (fold_left (fun ps t => let e := entries con t in
                                       add_pair (map fst e) t (map snd e) ps) ts ps0))).
  { induction ts as [|t ts IH]; intros ps0 H; simpl; auto.
    apply IH. apply add_pair_fst_NoDup; auto. }
  apply G. constructor.
Qed.
Lemma fst_inj (ps : list pairT) p q :
  NoDup (map fst ps) -> In p ps -> In q ps -> fst p = fst q -> p = q.
Proof.
  induction ps as [|x r IH]; simpl; intros ND Hp Hq E; [destruct Hp|].
  inversion ND; subst. destruct Hp as [<-|Hp], Hq as [<-|Hq]; auto.
  - exfalso. apply H1. rewrite E. apply in_map. auto.
  - exfalso. apply H1. rewrite <- E. apply in_map. auto.
Qed.

(* the targets of a group are strictly ascending *)
Lemma sorted_snoc l t : StronglySorted lt l -> Forall (fun v => v < t) l -> StronglySorted lt (l ++ [t]).
Proof.
  induction 1; simpl; intro HF.
  - repeat constructor.
  - inversion HF; subst. constructor; auto. apply Forall_app. split; auto.
Qed.
Definition ts_sorted (ps : list pairT) : Prop := forall p, In p ps -> StronglySorted lt (p_ts p).
Lemma add_pair_sorted key t w ps :
  (forall v, In v (all_ts ps) -> v < t) -> ts_sorted ps -> ts_sorted (add_pair key t w ps).
Proof.
  intros Hlt H. induction ps as [|p r IH]; simpl.
  - intros p' [E|[]]. subst. unfold p_ts. simpl. repeat constructor.
  - assert (Hr : forall v, In v (all_ts r) -> v < t).
    { intros v Hv. apply Hlt. unfold all_ts in *. simpl. apply in_app_iff. auto. }
    destruct (natlist_eqb (fst p) key).
    + intros p' [E|Hp].
      * subst. unfold p_ts. simpl. apply sorted_snoc.
        -- apply (H p). simpl; auto.
        -- apply Forall_forall. intros v Hv. apply Hlt. unfold all_ts. simpl. apply in_app_iff. auto.
      * apply (H p'). simpl; auto.
    + intros p' [E|Hp].
      * subst. apply (H p'). simpl; auto.
      * apply IH; auto. intros q Hq. apply (H q). simpl; auto.
Qed.
Lemma build_pairs_sorted con : ts_sorted (build_pairs con).
Proof.
  unfold build_pairs.
  assert (G : forall ts ps0, StronglySorted lt ts ->
            (forall v t, In v (all_ts ps0) -> In t ts -> v < t) -> ts_sorted ps0 ->
            ts_sorted (fold_left (fun ps t => let e := entries con t in
                                  add_pair (map fst e) t (map snd e) ps) ts ps0)).
  { induction ts as [|t ts IH]; intros ps0 HS Hlt H; simpl; auto.
    inversion HS; subst. apply IH; auto.
    - intros v u Hv Hu.
      assert (Hv' : In v (t :: all_ts ps0)).
      { eapply Permutation_in; [apply add_pair_ts|exact Hv]. }
      destruct Hv' as [<-|Hv'].
      + rewrite Forall_forall in H3. auto.
      + apply Hlt; simpl; auto.
    - apply add_pair_sorted; auto. intros v Hv. apply Hlt; simpl; auto. }
  apply G.
  - apply usort_sorted.
  - intros v t [].
  - intros p [].
Qed.

Lemma sorted_filter (f : nat -> bool) l : StronglySorted lt l -> StronglySorted lt (filter f l).
Proof.
  induction 1; simpl. constructor. destruct (f a); auto. constructor; auto.
  apply Forall_forall. intros x Hx. apply filter_In in Hx. rewrite Forall_forall in H0. apply H0. tauto.
Qed.
Lemma sorted_lt_ext l1 : forall l2,
  StronglySorted lt l1 -> StronglySorted lt l2 -> (forall x, In x l1 <-> In x l2) -> l1 = l2.
Proof.
  induction l1 as [|a l1 IH]; intros [|b l2] H1 H2 HE; auto.
  - exfalso. apply (HE b). simpl; auto.
  - exfalso. apply (HE a). simpl; auto.
  - inversion H1; subst. inversion H2; subst. rewrite Forall_forall in H4, H6.
    assert (a = b).
    { assert (Ha : In a (b :: l2)) by (apply HE; simpl; auto).
      assert (Hb : In b (a :: l1)) by (apply HE; simpl; auto).
      destruct Ha as [Ha|Ha]; auto. destruct Hb as [Hb|Hb]; auto.
      apply H6 in Ha. apply H4 in Hb. lia. }
    subst b. f_equal. apply IH; auto. intro x. split; intro Hx.
    + assert (Hin : In x (a :: l2)) by (apply HE; simpl; auto).
      destruct Hin as [<-|Hin]; auto. apply H4 in Hx. lia.
    + assert (Hin : In x (a :: l1)) by (apply HE; simpl; auto).
      destruct Hin as [<-|Hin]; auto. apply H6 in Hx. lia.
Qed.
Lemma ins_nat_In' x l y : In y (ins_nat x l) <-> y = x \/ In y l.
Proof.
  induction l as [|h t IH]; simpl; [intuition|].
  destruct (x <=? h); simpl; rewrite ?IH; intuition.
Qed.
Lemma sort_nat_sorted l : NoDup l -> StronglySorted lt (sort_nat l).
Proof.
  induction l as [|x l IH]; simpl; intro ND. constructor.
  inversion ND; subst. specialize (IH H2). unfold sort_nat in *. simpl.
  assert (Hx : ~ In x (fold_right ins_nat [] l)).
  { intro Hc. apply H1. clear - Hc. induction l as [|h t IH]; simpl in *; auto.
    apply ins_nat_In' in Hc. destruct Hc; auto. }
  revert IH Hx. generalize (fold_right ins_nat [] l). clear. intro m.
  induction m as [|h t IH]; simpl; intros HS Hx.
  - repeat constructor.
  - inversion HS; subst. destruct (x <=? h) eqn:E.
    + apply Nat.leb_le in E. assert (x <> h) by (intro; subst; apply Hx; simpl; auto). assert (x < h) by lia.
      constructor; auto. constructor; auto. eapply Forall_impl; [|exact H2]. intros; simpl in *; lia.
    + apply Nat.leb_gt in E. constructor.
      * apply IH; auto.
      * apply Forall_forall. intros y Hy. apply ins_nat_In' in Hy. destruct Hy as [->|Hy]; auto.
        rewrite Forall_forall in H2. auto.
Qed.
