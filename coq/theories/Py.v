(* Py.v — meaning of the Python/numba subset that harness/translate_code.py emits (coq/gen/GenCode*.v).

   The translator turns the *bodies* of the numba-compiled helper functions of thefittest into Gallina,
   statement by statement; everything it emits is built from the definitions of this file, so this file
   IS the semantics the translation gives to the source (trusted base: DESIGN §12.8).  Conventions:

     int64 / int8 / Python int   Z            (unbounded; wrap-around is not modelled)
     float64                     Q            (exact; IEEE rounding is not modelled)
     bool                        bool
     1-D array                   list         (value semantics; the translator only accepts stores into
     2-D array                   list (list)   arrays the function itself allocated — see translate_code.py)
     random.random()             popU          np.random.randint(0,n)   popI n
     np.random.uniform(l,h,n)    popXs n       (n results, each logged after the affine map)
     a[i]                        getZ/getQ/getR  with numpy's wrap-around of ONE negative period
     for i in range(lo,hi)       for_range lo hi       (state threaded explicitly)
     for … with break            for_brk
     for i in range(hi,lo,-1)    for_down
     while c: …                  while_ds / while_f    (fuel; out of fuel = None, an error value that the
                                                        equivalence theorems show is never produced)
     assert c                    guard c               (None when the assertion fails)

   Reading outside an array yields the default (0, [] …): numba does not check bounds; the theorems that
   use these definitions state the ranges under which that default is never read. *)
From TF Require Export Base RandomPrims.
Open Scope Z_scope.

Definition zlen {A} (l : list A) : Z := Z.of_nat (length l).

(* numpy index normalisation: a negative index counts from the end *)
Definition pyidx (n : Z) (i : Z) : nat := Z.to_nat (if i <? 0 then i + n else i).
Definition getZ (l : list Z) (i : Z) : Z := nth (pyidx (zlen l) i) l 0.
Definition getQ (l : list Q) (i : Z) : Q := nth (pyidx (zlen l) i) l 0%Q.
Definition getB (l : list bool) (i : Z) : bool := nth (pyidx (zlen l) i) l false.
Definition getR {A} (l : list (list A)) (i : Z) : list A := nth (pyidx (zlen l) i) l [].
Definition setA {A} (l : list A) (i : Z) (x : A) : list A := upd l (pyidx (zlen l) i) x.

Definition zerosZ (n : Z) : list Z := repeat 0 (Z.to_nat n).
Definition zerosQ (n : Z) : list Q := repeat 0%Q (Z.to_nat n).
Definition arange (n : Z) : list Z := map Z.of_nat (seq 0 (Z.to_nat n)).
Definition sliceTo {A} (l : list A) (k : Z) : list A :=            (* l[:k] *)
  firstn (pyidx (zlen l) k) l.
Definition sliceFrom {A} (l : list A) (k : Z) : list A :=          (* l[k:] *)
  skipn (pyidx (zlen l) k) l.
Definition gatherZ (l : list Z) (idx : list Z) : list Z := map (getZ l) idx.      (* l[idx] *)
Definition gatherQz (l : list Q) (idx : list Z) : list Q := map (getQ l) idx.
Definition argmaxZ (l : list Q) : Z := Z.of_nat (argmax l).                        (* np.argmax *)

(* sorted() of a short int array: insertion sort *)
Fixpoint insertZ (x : Z) (l : list Z) : list Z :=
  match l with [] => [x] | y :: t => if x <=? y then x :: l else y :: insertZ x t end.
Definition sortedZ (l : list Z) : list Z := fold_right insertZ [] l.

(* scalar conversions *)
Definition ZtoQ (z : Z) : Q := inject_Z z.
Definition Qtrunc (q : Q) : Z := Z.quot (Qnum q) (Zpos (Qden q)).      (* np.int64(x): toward zero *)
Definition Qmaxq (a b : Q) : Q := if Qltb a b then b else a.             (* max(a, b): a unless b > a *)
Definition Qminq (a b : Q) : Q := if Qltb b a then b else a.
Definition Zmaxq (a : Z) (b : Q) : Q := Qmaxq (ZtoQ a) b.

(* vector arithmetic (numpy broadcasting of scalar against 1-D array, 1-D against 1-D of equal length) *)
Definition vmap2 (f : Q -> Q -> Q) (a b : list Q) : list Q := map (fun p => f (fst p) (snd p)) (combine a b).
Definition vadd := vmap2 Qplus.
Definition vsub := vmap2 Qminus.
Definition vmulv := vmap2 Qmult.
Definition smul (s : Q) (a : list Q) : list Q := map (Qmult s) a.
Definition sumQ (l : list Q) : Q := fold_left Qplus l 0%Q.
Definition sumZ (l : list Z) : Z := fold_left Z.add l 0.
Definition meanZ (l : list Z) : Q := (ZtoQ (sumZ l) / ZtoQ (zlen l))%Q.
Definition meanQ (l : list Q) : Q := (sumQ l / ZtoQ (zlen l))%Q.
Definition eqmaskZ (a b : list Z) : list Z :=                          (* (a == b).astype(int64) *)
  map (fun p => if fst p =? snd p then 1 else 0) (combine a b).
(* np.unique of an int array: sorted distinct values *)
Fixpoint dedup_sorted (l : list Z) : list Z :=
  match l with
  | x :: ((y :: _) as t) => if x =? y then dedup_sorted t else x :: dedup_sorted t
  | _ => l
  end.
Definition uniqueZ (l : list Z) : list Z := dedup_sorted (sortedZ l).
Definition zeros2 (r c : Z) : list (list Z) := repeat (zerosZ c) (Z.to_nat r).
Definition set2 (m : list (list Z)) (i j : Z) (x : Z) : list (list Z) := setA m i (setA (getR m i) j x).
Definition get2 (m : list (list Z)) (i j : Z) : Z := getZ (getR m i) j.

(* ---- draws ---- *)
Fixpoint popXs_nat (n : nat) : M (list Q) :=
  match n with O => ret [] | S k => x <- popX ;; r <- popXs_nat k ;; ret (x :: r) end.
Definition popXs (n : Z) : M (list Q) := popXs_nat (Z.to_nat n).
Definition guard (c : bool) : M unit := fun ds => if c then Some (tt, ds) else None.

(* ---- loops ---- *)
Section Loops.
  Context {S : Type}.

  (* pure for loop: i = lo, lo+1, …, lo+k-1 *)
  Fixpoint for_nat_p (k : nat) (lo : Z) (body : Z -> S -> S) (s : S) : S :=
    match k with O => s | Datatypes.S k' => for_nat_p k' (lo + 1) body (body lo s) end.
  Definition for_range_p (lo hi : Z) (s : S) (body : Z -> S -> S) : S :=
    for_nat_p (Z.to_nat (hi - lo)) lo body s.

  (* pure for loop with break: the body returns (state, broke) *)
  Fixpoint for_brk_nat_p (k : nat) (lo : Z) (body : Z -> S -> S * bool) (s : S) : S :=
    match k with
    | O => s
    | Datatypes.S k' => let '(s', b) := body lo s in if b then s' else for_brk_nat_p k' (lo + 1) body s'
    end.
  Definition for_brk_p (lo hi : Z) (s : S) (body : Z -> S -> S * bool) : S :=
    for_brk_nat_p (Z.to_nat (hi - lo)) lo body s.

  (* monadic for loop *)
  Fixpoint for_nat (k : nat) (lo : Z) (body : Z -> S -> M S) (s : S) : M S :=
    match k with O => ret s | Datatypes.S k' => s' <- body lo s ;; for_nat k' (lo + 1) body s' end.
  Definition for_range (lo hi : Z) (s : S) (body : Z -> S -> M S) : M S :=
    for_nat (Z.to_nat (hi - lo)) lo body s.

  (* monadic downward loop: i = hi, hi-1, …, lo+1   (range(hi, lo, -1)) *)
  Fixpoint for_down_nat (k : nat) (hi : Z) (body : Z -> S -> M S) (s : S) : M S :=
    match k with O => ret s | Datatypes.S k' => s' <- body hi s ;; for_down_nat k' (hi - 1) body s' end.
  Definition for_down (hi lo : Z) (s : S) (body : Z -> S -> M S) : M S :=
    for_down_nat (Z.to_nat (hi - lo)) hi body s.

  (* while with fuel; None when the fuel runs out while the condition still holds *)
  Fixpoint while_f (fuel : nat) (cond : S -> bool) (body : S -> M S) (s : S) : M S :=
    if cond s then
      match fuel with
      | O => fun _ => None
      | Datatypes.S f => s' <- body s ;; while_f f cond body s'
      end
    else ret s.
  (* loops whose every iteration consumes a draw: fuel = number of draws left (+ extra) *)
  Definition while_ds (extra : nat) (s : S) (cond : S -> bool) (body : S -> M S) : M S :=
    fun ds => while_f (extra + length ds) cond body s ds.
End Loops.

(* ---- extended rationals: float values that may be -inf / +inf (TheFittest._fitness, EvolutionaryAlgorithm._aim) ---- *)
Inductive Qinf := NegInf | Fin (q : Q) | PosInf.
Definition Qinf_leb (a b : Qinf) : bool :=
  match a, b with
  | NegInf, _ => true
  | _, PosInf => true
  | Fin x, Fin y => Qle_bool x y
  | _, _ => false
  end.
Definition Qinf_ltb (a b : Qinf) : bool := negb (Qinf_leb b a).
(* a[i] on a population of abstract individuals *)
Definition getA {A} (d : A) (l : list A) (i : Z) : A := nth (pyidx (zlen l) i) l d.
Definition vsubs (a : list Q) (s : Q) : list Q := map (fun x => (x - s)%Q) a.     (* array - scalar *)
Definition vdivs (a : list Q) (s : Q) : list Q := map (fun x => (x / s)%Q) a.     (* array / scalar *)
Definition onesQ (n : Z) : list Q := repeat 1%Q (Z.to_nat n).                     (* np.ones_like *)
(* for x in <list>: ... with break: the body returns (state, broke) *)
Fixpoint for_list_brk_p_aux {S} (l : list Z) (body : Z -> S -> S * bool) (s : S) : S :=
  match l with
  | [] => s
  | x :: t => let '(s', b) := body x s in if b then s' else for_list_brk_p_aux t body s'
  end.
Definition for_list_brk_p {S} (l : list Z) (dummy : unit) (s : S) (body : Z -> S -> S * bool) : S := for_list_brk_p_aux l body s.
(* a[-1] = v on a population / fitness vector; the finite value of an extended rational *)
Definition set_last {A} (l : list A) (x : A) : list A := match l with [] => [] | _ => removelast l ++ [x] end.
Definition Qinf_val (a : Qinf) : Q := match a with Fin q => q | _ => 0%Q end.
(* mask = a >= b (element-wise);  x[mask] = y[mask] *)
Definition geq_mask (a b : list Q) : list bool := map (fun p => Qle_bool (snd p) (fst p)) (combine a b).
Fixpoint mask_write {A} (mask : list bool) (src dst : list A) : list A :=
  match mask, src, dst with
  | m :: ms, s :: ss, d :: ds => (if m then s else d) :: mask_write ms ss ds
  | _, _, _ => dst
  end.
(* numpy reshape(-1, 2), 2-D gather, row-wise argmax and m[rows, cols] (uniform_tournament_crossover) *)
Fixpoint pairs2 (l : list Z) : list (list Z) := match l with a :: b :: t => [a; b] :: pairs2 t | _ => [] end.
Definition gather2Q (f : list Q) (m : list (list Z)) : list (list Q) := map (gatherQz f) m.
Definition argmax_rows (m : list (list Q)) : list Z := map argmaxZ m.
Definition pick2 (m : list (list Z)) (rows cols : list Z) : list Z := map (fun p => get2 m (fst p) (snd p)) (combine rows cols).
(* np.power(a, k) for a literal k >= 0; element-wise a < s; np.sum of a bool array; a[mask] = vals (vals: one per True); s + a *)
Definition vpow (a : list Q) (k : Z) : list Q := map (fun x => Qpower x k) a.
Definition ltmaskQ (a : list Q) (s : Q) : list bool := map (fun x => Qltb x s) a.
Definition countB (m : list bool) : Z := zlen (filter (fun b => b) m).
Fixpoint mask_scatter (mask : list bool) (dst vals : list Q) : list Q :=
  match mask, dst with
  | true :: ms, _ :: ds => match vals with v :: vs => v :: mask_scatter ms ds vs | [] => dst end
  | false :: ms, d :: ds => d :: mask_scatter ms ds vals
  | _, _ => dst
  end.
Definition sadd (s : Q) (a : list Q) : list Q := map (Qplus s) a.
(* a > b element-wise; a[mask] (the elements at the True positions); np.abs *)
Definition gt_mask (a b : list Q) : list bool := map (fun p => Qltb (snd p) (fst p)) (combine a b).
Fixpoint mask_select {A} (mask : list bool) (l : list A) : list A :=
  match mask, l with
  | m :: ms, x :: xs => if m then x :: mask_select ms xs else mask_select ms xs
  | _, _ => []
  end.
Definition vabs (a : list Q) : list Q := map Qabs a.
(* a.clip(lo, hi) = minimum(maximum(a, lo), hi) *)
Definition vclip (lo hi : Q) (a : list Q) : list Q :=
  map (fun x => let m := if Qltb x lo then lo else x in if Qltb hi m then hi else m) a.
(* m[idx] for a 2-D array and an index array: the rows, in the order of idx *)
Definition gatherR {A} (m : list (list A)) (idx : list Z) : list (list A) := map (getR m) idx.
(* raise: the computation has no result *)
Definition fail {A} : M A := fun _ => None.
(* whole-array forms of the grid decoders (utils/transformations.py): 2 ** a, np.dot(2-D, 1-D), np.logical_xor.accumulate(m, axis=-1)
   (then astype(byte)), np.logical_xor of two 2-D arrays, the column slices m[:, :-1] and m[:, 1:], np.hstack([m[:, 0].reshape(-1, 1), rest]);
   truth values are 0 / 1 integers (non-zero = true) *)
Definition pow2s (l : list Z) : list Z := map (Z.pow 2) l.
Definition dotZ (a b : list Z) : Z := sumZ (map (fun p => fst p * snd p) (combine a b)).
Definition matvecZ (m : list (list Z)) (v : list Z) : list Z := map (fun r => dotZ r v) m.
Definition b2z (b : bool) : Z := if b then 1 else 0.
Definition z2b (z : Z) : bool := negb (z =? 0).
Fixpoint xor_accZ (acc : bool) (g : list Z) : list Z :=
  match g with [] => [] | x :: t => let a := xorb acc (z2b x) in b2z a :: xor_accZ a t end.
Definition xor_accumulate_rows (m : list (list Z)) : list (list Z) := map (xor_accZ false) m.
Fixpoint zip_with {A B C} (f : A -> B -> C) (la : list A) (lb : list B) : list C :=
  match la, lb with a :: ta, b :: tb => f a b :: zip_with f ta tb | _, _ => [] end.
Definition logical_xor2 (a b : list (list Z)) : list (list Z) := zip_with (zip_with (fun x y => b2z (xorb (z2b x) (z2b y)))) a b.
Definition cols_but_last (m : list (list Z)) : list (list Z) := map (@removelast Z) m.
Definition cols_from1 (m : list (list Z)) : list (list Z) := map (@tl Z) m.
Definition hstack_col0 (m rest : list (list Z)) : list (list Z) := zip_with (fun r q => hd 0 r :: q) m rest.
