(* GPOpsProofs.v — C08, part 1: splice closure (concat), standard and one-point crossover, point and
   shrink mutation.  All statements are for ALL well-formed trees, all positions, all draws. *)
From Coq Require Import List Arith Bool Lia ZArith QArith.
Import ListNotations.
From TF Require Import Base RandomPrims Tree TreeIdx TreeProofs TreeProofs2 TreeCR GPOps.
Open Scope nat_scope.

(* ------------------------------------------------------------------ the draw monad *)
Lemma bind_inv {A B} (m : M A) (f : A -> M B) ds r :
  bind m f ds = Some r -> exists a ds1, m ds = Some (a, ds1) /\ f a ds1 = Some r.
Proof. unfold bind. destruct (m ds) as [[a ds1]|]; [eauto|discriminate]. Qed.
Lemma ret_inv {A} (a : A) ds r : ret a ds = Some r -> r = (a, ds).
Proof. unfold ret. congruence. Qed.
Lemma lift_inv {A} (o : option A) ds r : lift o ds = Some r -> exists a, o = Some a /\ r = (a, ds).
Proof. unfold lift. destruct o; [intros H; inversion H; eauto|discriminate]. Qed.
Lemma fail_inv {A} ds (r : A * list draw) : fail ds = Some r -> False.
Proof. discriminate. Qed.

Ltac minv H :=
  match type of H with
  | bind _ _ _ = Some _ =>
    let a := fresh "a" in let ds := fresh "ds" in let H1 := fresh "Hm" in
    apply bind_inv in H; destruct H as (a & ds & H1 & H)
  | ret _ _ = Some _ => apply ret_inv in H
  | lift _ _ = Some _ =>
    let a := fresh "a" in let H1 := fresh "Hl" in
    apply lift_inv in H; destruct H as (a & H1 & H)
  | fail _ = Some _ => exfalso; apply fail_inv in H; assumption
  end.

Lemma obind_inv {A B} (o : option A) (f : A -> option B) r :
  obind o f = Some r -> exists a, o = Some a /\ f a = Some r.
Proof. destruct o; simpl; [eauto|discriminate]. Qed.

Lemma upd_app_len {A} (pre : list A) x rest y : upd (pre ++ x :: rest) (length pre) y = pre ++ y :: rest.
Proof. induction pre; simpl; auto. f_equal; auto. Qed.

Section D.
  Context {sym : Type}.
  Variable arity : sym -> nat.
  Notation tree := (tree sym).
  Notation nargs := (nargs arity).
  Notation wft := (wft arity).
  Notation wff := (wff arity).
  Notation wf := (wf arity).
  Notation mk := (mk arity).

  (* ---------------------------------------------------------------- depth and levels *)
  Definition depth_f (ts : list tree) : nat := fold_right (fun k m => Nat.max (S (depth k)) m) 0 ts.
  Lemma depth_Node s (kids : list tree) : depth (Node s kids) = depth_f kids.
  Proof. reflexivity. Qed.
  Lemma depth_f_cons (k : tree) r : depth_f (k :: r) = Nat.max (S (depth k)) (depth_f r).
  Proof. reflexivity. Qed.

  Definition level_at_f : list tree -> nat -> nat :=
    fix go (l : list tree) (j : nat) : nat :=
      match l with
      | [] => 0
      | k :: r => if j <? size k then S (level_at k j) else go r (j - size k)
      end.
  Lemma level_at_Node' s (kids : list tree) j : level_at (Node s kids) (S j) = level_at_f kids j.
  Proof. reflexivity. Qed.
  Lemma level_at_f_cons (k : tree) r j :
    level_at_f (k :: r) j = if j <? size k then S (level_at k j) else level_at_f r (j - size k).
  Proof. reflexivity. Qed.

  (* a sub-term at level l has depth at most depth T - l *)
  Lemma level_depth_le : forall (T : tree) i u, sub_at T i = Some u -> level_at T i + depth u <= depth T.
  Proof.
    apply (tree_ind2
      (fun t => forall i u, sub_at t i = Some u -> level_at t i + depth u <= depth t)
      (fun ts => forall j u, sub_at_f ts j = Some u -> level_at_f ts j + depth u <= depth_f ts)).
    - intros s kids IH [|j] u H.
      + simpl in H. inversion H; subst. simpl. lia.
      + rewrite sub_at_Node in H. rewrite level_at_Node', depth_Node. apply IH; auto.
    - intros j u H. discriminate.
    - intros t ts IHt IHts j u H. rewrite sub_at_f_cons in H. rewrite level_at_f_cons, depth_f_cons.
      destruct (j <? size t).
      + apply IHt in H. lia.
      + apply IHts in H. lia.
  Qed.

  (* depth after a replacement *)
  Lemma replace_depth : forall (T : tree) i u v, sub_at T i = Some u ->
    depth (replace_at T i v) <= Nat.max (depth T) (level_at T i + depth v).
  Proof.
    apply (tree_ind2
      (fun t => forall i u v, sub_at t i = Some u ->
         depth (replace_at t i v) <= Nat.max (depth t) (level_at t i + depth v))
      (fun ts => forall j u v, sub_at_f ts j = Some u ->
         depth_f (replace_at_f v ts j) <= Nat.max (depth_f ts) (level_at_f ts j + depth v))).
    - intros s kids IH [|j] u v H.
      + simpl. lia.
      + rewrite sub_at_Node in H. rewrite replace_at_Node, level_at_Node', !depth_Node. eapply IH; eauto.
    - intros j u v H. discriminate.
    - intros t ts IHt IHts j u v H. rewrite sub_at_f_cons in H.
      rewrite replace_at_f_cons, level_at_f_cons. destruct (j <? size t).
      + rewrite !depth_f_cons. specialize (IHt _ _ v H). lia.
      + rewrite !depth_f_cons. specialize (IHts _ _ v H). lia.
  Qed.

  Lemma replace_depth_le (T : tree) i u v : sub_at T i = Some u -> depth v <= depth u ->
    depth (replace_at T i v) <= depth T.
  Proof.
    intros H Hd. pose proof (replace_depth T i u v H). pose proof (level_depth_le T i u H). lia.
  Qed.

  (* symbols after a replacement *)
  Lemma replace_syms (T : tree) i u v x : sub_at T i = Some u ->
    In x (flatten (replace_at T i v)) -> In x (flatten T) \/ In x (flatten v).
  Proof.
    intros H Hin. destruct (sub_at_decomp T i u H) as (pre & post & E & _ & R).
    rewrite R in Hin. rewrite E. rewrite !in_app_iff in *. tauto.
  Qed.
  Lemma sub_syms (T : tree) i u x : sub_at T i = Some u -> In x (flatten u) -> In x (flatten T).
  Proof.
    intros H Hin. destruct (sub_at_decomp T i u H) as (pre & post & E & _ & _).
    rewrite E, !in_app_iff. tauto.
  Qed.

  (* ---------------------------------------------------------------- the pair (node list, arity array) *)
  Definition good (t : ptree sym) (T : tree) : Prop := wft T = true /\ t = mk (flatten T).
  (* well-formed prefix tree as the implementation holds it: the recorded arity of every node is
     the arity of its symbol, and the node list is the encoding of one complete tree *)
  Definition wfp (t : ptree sym) : Prop := snd t = nargs (fst t) /\ wf (fst t).
  Definition depthp (t : ptree sym) : nat := max_level (snd t).

  Lemma wfp_good t : wfp t <-> exists T, good t T.
  Proof.
    split.
    - intros (Hn & T & W & E). exists T. split; auto. destruct t as [p a]; simpl in *. subst. reflexivity.
    - intros (T & W & ->). split; [reflexivity|]. exists T. auto.
  Qed.
  Lemma good_depth t T : good t T -> depthp t = depth T.
  Proof. intros (W & ->). unfold depthp. simpl. apply max_level_flat; auto. Qed.
  Lemma good_wfp t T : good t T -> wfp t.
  Proof. intros H. apply wfp_good. eauto. Qed.
  Lemma good_length t T : good t T -> length (fst t) = size T.
  Proof. intros (_ & ->). simpl. apply flatten_length. Qed.

  Lemma find_end_none_out (a : list nat) i : length a <= i -> find_end a i = None.
  Proof. intros H. unfold find_end. replace (nth_error a i) with (@None nat); auto. symmetry. apply nth_error_None; auto. Qed.

  Lemma subtree_p_good t T i s : good t T -> subtree_p t i = Some s ->
    exists u, sub_at T i = Some u /\ good s u.
  Proof.
    intros (W & ->) H. rewrite subtree_p_mk in H.
    destruct (Nat.lt_ge_cases i (size T)) as [Hi|Hi].
    - destruct (sub_at_some T i Hi) as (u & Hu). exists u. split; auto.
      rewrite (subtree_flatten arity T i u W Hu) in H. simpl in H. inversion H; subst.
      split; auto. eapply sub_at_wf; eauto.
    - unfold subtree in H. rewrite find_end_none_out in H; [discriminate|].
      rewrite nargs_length, flatten_length. auto.
  Qed.

  Lemma concat_p_good t T i q V o : good t T -> good q V -> concat_p t i q = Some o ->
    exists u, sub_at T i = Some u /\ good o (replace_at T i V).
  Proof.
    intros (W & ->) (WV & ->) H. rewrite concat_p_mk in H.
    destruct (Nat.lt_ge_cases i (size T)) as [Hi|Hi].
    - destruct (sub_at_some T i Hi) as (u & Hu). exists u. split; auto.
      rewrite (concat_flatten arity T i u V W Hu) in H. simpl in H. inversion H; subst.
      split; auto. apply replace_at_wf; auto.
    - unfold concat in H. rewrite find_end_none_out in H; [discriminate|].
      rewrite nargs_length, flatten_length. auto.
  Qed.

  (* ---------------------------------------------------------------- C08_concat_wf *)
  Theorem concat_wf_depth (p q : list sym) i : wf p -> wf q -> i < length p ->
    exists r, concat arity p i q = Some r /\ wf r /\
      max_level (nargs r) <= Nat.max (max_level (nargs p)) (nth i (levels (nargs p) 0) 0 + max_level (nargs q)).
  Proof.
    intros (T & W & <-) (V & WV & <-) Hi. rewrite flatten_length in Hi.
    destruct (sub_at_some T i Hi) as (u & Hu).
    exists (flatten (replace_at T i V)). split; [apply (concat_flatten arity T i u V W Hu)|].
    assert (WR : wft (replace_at T i V) = true) by (apply replace_at_wf; auto).
    split; [exists (replace_at T i V); auto|].
    rewrite !max_level_flat by auto.
    pose proof (levels_flat arity T [] [] W) as HL. simpl in HL. rewrite app_nil_r in HL. rewrite HL.
    rewrite levels_rec_nth by auto. simpl. eapply replace_depth; eauto.
  Qed.

  (* transplant = sub-term of the donor at a replaces the sub-term of the host at b *)
  Lemma transplant_good donor D a host H b o : good donor D -> good host H ->
    transplant donor a host b = Some o ->
    exists u w, sub_at D a = Some u /\ sub_at H b = Some w /\ good o (replace_at H b u).
  Proof.
    intros GD GH E. unfold transplant in E. apply obind_inv in E. destruct E as (s & Es & Ec).
    destruct (subtree_p_good _ _ _ _ GD Es) as (u & Hu & Gs).
    destruct (concat_p_good _ _ _ _ _ _ GH Gs Ec) as (w & Hw & Go).
    exists u, w. auto.
  Qed.

  (* ---------------------------------------------------------------- standard_crossover *)
  Definition syms_from (ps : list (ptree sym)) (c : ptree sym) : Prop :=
    forall x, In x (fst c) -> exists p, In p ps /\ In x (fst p).

  (* named behaviour: one sub-term of one parent replaces one sub-term of the other — or the child
     is that other parent itself when the result would be deeper than max_level *)
  Definition is_transplant (D H C : tree) : Prop :=
    exists a b u w, sub_at D a = Some u /\ sub_at H b = Some w /\ C = replace_at H b u.

  Theorem standard_crossover_spec p1 T1 p2 T2 rest ml ds c ds' :
    good p1 T1 -> good p2 T2 ->
    standard_crossover (p1 :: p2 :: rest) ml ds = Some (c, ds') ->
    exists C, good c C /\
      ((is_transplant T1 T2 C /\ depth C <= ml) \/ (is_transplant T2 T1 C /\ depth C <= ml) \/ C = T1 \/ C = T2).
  Proof.
    intros G1 G2 H. unfold standard_crossover in H.
    minv H. minv H. minv H. destruct a1.
    - minv H. destruct (transplant p1 a p2 a0) as [o|] eqn:E; simpl in Hl; [|discriminate].
      inversion Hl; subst; clear Hl. inversion H; subst; clear H.
      destruct (transplant_good _ _ _ _ _ _ _ G1 G2 E) as (u & w & Hu & Hw & Go).
      unfold guard_depth. destruct (ml <? max_level (snd o)) eqn:Cm.
      + exists T2. split; auto.
      + exists (replace_at T2 a0 u). split; auto. left. split.
        * exists a, a0, u, w. auto.
        * apply Nat.ltb_ge in Cm. pose proof (good_depth _ _ Go) as Hd. unfold depthp in Hd. lia.
    - minv H. destruct (transplant p2 a0 p1 a) as [o|] eqn:E; simpl in Hl; [|discriminate].
      inversion Hl; subst; clear Hl. inversion H; subst; clear H.
      destruct (transplant_good _ _ _ _ _ _ _ G2 G1 E) as (u & w & Hu & Hw & Go).
      unfold guard_depth. destruct (ml <? max_level (snd o)) eqn:Cm.
      + exists T1. split; auto.
      + exists (replace_at T1 a u). split; auto. right. left. split.
        * exists a0, a, u, w. auto.
        * apply Nat.ltb_ge in Cm. pose proof (good_depth _ _ Go) as Hd. unfold depthp in Hd. lia.
  Qed.

  Lemma transplant_syms D H C x : is_transplant D H C -> In x (flatten C) -> In x (flatten D) \/ In x (flatten H).
  Proof.
    intros (a & b & u & w & Hu & Hw & ->) Hin.
    destruct (replace_syms _ _ _ _ _ Hw Hin) as [|Hx]; auto. left. eapply sub_syms; eauto.
  Qed.

  Theorem standard_crossover_closed p1 p2 rest ml ds c ds' :
    wfp p1 -> wfp p2 ->
    standard_crossover (p1 :: p2 :: rest) ml ds = Some (c, ds') ->
    wfp c /\ syms_from [p1; p2] c /\ (depthp p1 <= ml -> depthp p2 <= ml -> depthp c <= ml).
  Proof.
    intros W1 W2 H. apply wfp_good in W1. apply wfp_good in W2.
    destruct W1 as (T1 & G1). destruct W2 as (T2 & G2).
    destruct (standard_crossover_spec _ _ _ _ _ _ _ _ _ G1 G2 H) as (C & GC & HC).
    split; [eapply good_wfp; eauto|].
    rewrite (good_depth _ _ G1), (good_depth _ _ G2), (good_depth _ _ GC).
    destruct G1 as (_ & E1). destruct G2 as (_ & E2). destruct GC as (_ & EC). subst. simpl.
    split.
    - intros x Hx. simpl in Hx.
      destruct HC as [(Ht & _)|[(Ht & _)|[->| ->]]].
      + destruct (transplant_syms _ _ _ _ Ht Hx); [exists (mk (flatten T1))|exists (mk (flatten T2))]; simpl; auto.
      + destruct (transplant_syms _ _ _ _ Ht Hx); [exists (mk (flatten T2))|exists (mk (flatten T1))]; simpl; auto.
      + exists (mk (flatten T1)); simpl; auto.
      + exists (mk (flatten T2)); simpl; auto.
    - intros D1 D2. destruct HC as [(_ & Hd)|[(_ & Hd)|[->| ->]]]; auto.
  Qed.

  (* ---------------------------------------------------------------- common region: positions and levels *)
  Notation cr_rec := (cr_rec arity).
  Notation cr_rec_f := (cr_rec_f arity).

  Lemma cr_rec_pos : forall (t1 t2 : tree) o1 o2 a b, In (a, b) (fst (cr_rec t1 t2 o1 o2)) ->
    exists a' b', a = o1 + a' /\ b = o2 + b' /\ a' < size t1 /\ b' < size t2 /\
                  level_at t1 a' = level_at t2 b'.
  Proof.
    apply (tree_ind2
      (fun t1 => forall (t2 : tree) o1 o2 a b, In (a, b) (fst (cr_rec t1 t2 o1 o2)) ->
         exists a' b', a = o1 + a' /\ b = o2 + b' /\ a' < size t1 /\ b' < size t2 /\
                       level_at t1 a' = level_at t2 b')
      (fun l1 => forall (l2 : list tree) o1 o2 a b, In (a, b) (fst (cr_rec_f l1 l2 o1 o2)) ->
         exists a' b', a = o1 + a' /\ b = o2 + b' /\ a' < sizes l1 /\ b' < sizes l2 /\
                       level_at_f l1 a' = level_at_f l2 b')).
    - intros s1 k1 IH [s2 k2] o1 o2 a b H. rewrite cr_rec_Node in H.
      destruct (arity s1 =? arity s2).
      + simpl in H. destruct H as [H|H].
        * inversion H; subst. exists 0, 0. rewrite !size_Node. repeat split; simpl; lia.
        * apply IH in H. destruct H as (a' & b' & -> & -> & L1 & L2 & LV).
          exists (S a'), (S b'). rewrite !size_Node, !level_at_Node'. repeat split; auto; lia.
      + simpl in H. destruct H as [H|[]]. inversion H; subst.
        exists 0, 0. rewrite !size_Node. repeat split; simpl; lia.
    - intros l2 o1 o2 a b H. simpl in H. destruct l2; contradiction.
    - intros u1 r1 IHu IHr [|u2 r2] o1 o2 a b H; [simpl in H; contradiction|].
      rewrite cr_rec_f_cons in H. unfold cr_app in H. simpl fst in H. apply in_app_or in H.
      destruct H as [H|H].
      + apply IHu in H. destruct H as (a' & b' & -> & -> & L1 & L2 & LV).
        exists a', b'. rewrite !sizes_cons, !level_at_f_cons.
        replace (a' <? size u1) with true by (symmetry; apply Nat.ltb_lt; auto).
        replace (b' <? size u2) with true by (symmetry; apply Nat.ltb_lt; auto).
        repeat split; auto; lia.
      + apply IHr in H. destruct H as (a' & b' & -> & -> & L1 & L2 & LV).
        exists (size u1 + a'), (size u2 + b'). rewrite !sizes_cons, !level_at_f_cons.
        replace (size u1 + a' <? size u1) with false by (symmetry; apply Nat.ltb_ge; lia).
        replace (size u2 + b' <? size u2) with false by (symmetry; apply Nat.ltb_ge; lia).
        replace (size u1 + a' - size u1) with a' by lia. replace (size u2 + b' - size u2) with b' by lia.
        repeat split; auto; lia.
  Qed.

  (* ---------------------------------------------------------------- one_point_crossoverGP *)
  (* named behaviour: the sub-terms at ONE common position (a, b) — same level in both parents —
     are exchanged: the child is one parent with the other parent's sub-term at that position *)
  Definition is_common_exchange (T1 T2 C : tree) : Prop :=
    exists a b u1 u2, In (a, b) (fst (cr_rec T1 T2 0 0)) /\ sub_at T1 a = Some u1 /\ sub_at T2 b = Some u2 /\
      level_at T1 a = level_at T2 b /\ (C = replace_at T2 b u1 \/ C = replace_at T1 a u2).

  Theorem one_point_spec p1 T1 p2 T2 rest ds c ds' :
    good p1 T1 -> good p2 T2 ->
    one_point_crossoverGP (p1 :: p2 :: rest) ds = Some (c, ds') ->
    exists C, good c C /\ is_common_exchange T1 T2 C.
  Proof.
    intros G1 G2 H. unfold one_point_crossoverGP in H.
    assert (CR : common_region_two (snd p1) (snd p2) = Some (cr_rec T1 T2 0 0)).
    { destruct G1 as (W1 & ->). destruct G2 as (W2 & ->). simpl. apply common_region_two_spec; auto. }
    rewrite CR in H. destruct (cr_rec T1 T2 0 0) as [com bor] eqn:ER.
    minv H. minv H. destruct (nth_error com a) as [[x y]|] eqn:En; [|minv H].
    assert (Hin : In (x, y) (fst (cr_rec T1 T2 0 0))) by (rewrite ER; simpl; eapply nth_error_In; eauto).
    destruct (cr_rec_pos _ _ _ _ _ _ Hin) as (a' & b' & Ea & Eb & L1 & L2 & LV). simpl in Ea, Eb. subst a' b'.
    destruct a0; minv H.
    - destruct (transplant_good _ _ _ _ _ _ _ G1 G2 Hl) as (u & w & Hu & Hw & Go).
      inversion H; subst. exists (replace_at T2 y u). split; auto.
      exists x, y, u, w. repeat split; auto.
    - destruct (transplant_good _ _ _ _ _ _ _ G2 G1 Hl) as (u & w & Hu & Hw & Go).
      inversion H; subst. exists (replace_at T1 x u). split; auto.
      exists x, y, w, u. repeat split; auto.
  Qed.

  Lemma common_exchange_depth T1 T2 C : is_common_exchange T1 T2 C -> depth C <= Nat.max (depth T1) (depth T2).
  Proof.
    intros (a & b & u1 & u2 & _ & H1 & H2 & LV & [-> | ->]).
    - pose proof (replace_depth T2 b u2 u1 H2). pose proof (level_depth_le T1 a u1 H1). lia.
    - pose proof (replace_depth T1 a u1 u2 H1). pose proof (level_depth_le T2 b u2 H2). lia.
  Qed.

  Theorem one_point_closed p1 p2 rest ds c ds' ml :
    wfp p1 -> wfp p2 ->
    one_point_crossoverGP (p1 :: p2 :: rest) ds = Some (c, ds') ->
    wfp c /\ syms_from [p1; p2] c /\ (depthp p1 <= ml -> depthp p2 <= ml -> depthp c <= ml).
  Proof.
    intros W1 W2 H. apply wfp_good in W1. apply wfp_good in W2.
    destruct W1 as (T1 & G1). destruct W2 as (T2 & G2).
    destruct (one_point_spec _ _ _ _ _ _ _ _ G1 G2 H) as (C & GC & HC).
    split; [eapply good_wfp; eauto|].
    rewrite (good_depth _ _ G1), (good_depth _ _ G2), (good_depth _ _ GC).
    split.
    - destruct G1 as (_ & E1). destruct G2 as (_ & E2). destruct GC as (_ & EC). subst. simpl.
      intros x Hx. simpl in Hx. destruct HC as (a & b & u1 & u2 & _ & H1 & H2 & _ & [-> | ->]).
      + destruct (replace_syms _ _ _ _ _ H2 Hx) as [Hy|Hy].
        * exists (mk (flatten T2)); simpl; auto.
        * exists (mk (flatten T1)); simpl; split; auto. eapply sub_syms; eauto.
      + destruct (replace_syms _ _ _ _ _ H1 Hx) as [Hy|Hy].
        * exists (mk (flatten T1)); simpl; auto.
        * exists (mk (flatten T2)); simpl; split; auto. eapply sub_syms; eauto.
    - intros D1 D2. pose proof (common_exchange_depth _ _ _ HC). lia.
  Qed.

  (* ---------------------------------------------------------------- empty_crossoverGP *)
  Theorem empty_crossover_spec (ps : list (ptree sym)) ds c ds' :
    empty_crossoverGP ps ds = Some (c, ds') -> nth_error ps 0 = Some c /\ ds' = ds.
  Proof. unfold empty_crossoverGP. intros H. minv H. inversion H; subst. auto. Qed.

  (* ---------------------------------------------------------------- list-level occurrences
     (a well-formed sub-term k encoded inside ANY node list: what find_end / subtree / concat do at
     its root position) *)
  Lemma subtree_occ (k : tree) pre post : wft k = true ->
    subtree arity (pre ++ flatten k ++ post) (length pre) = Some (flatten k).
  Proof.
    intros W. unfold subtree. rewrite (find_end_flat arity k pre post W). simpl.
    rewrite <- flatten_length, slice_mid. reflexivity.
  Qed.
  Lemma concat_occ (k : tree) pre post q : wft k = true ->
    concat arity (pre ++ flatten k ++ post) (length pre) q = Some (pre ++ q ++ post).
  Proof.
    intros W. unfold concat. rewrite (find_end_flat arity k pre post W). simpl.
    rewrite <- flatten_length, splice_mid. reflexivity.
  Qed.
  Lemma nth_error_occ {A} (pre : list A) x rest : nth_error (pre ++ x :: rest) (length pre) = Some x.
  Proof. rewrite nth_error_app2 by lia. rewrite Nat.sub_diag. reflexivity. Qed.

  Lemma child_starts_nth : forall (kids : list tree) o m ch, nth_error (child_starts o kids) m = Some ch ->
    exists kid, nth_error kids m = Some kid /\ ch = o + sizes (firstn m kids) /\
                kids = firstn m kids ++ kid :: skipn (S m) kids.
  Proof.
    induction kids as [|k r IH]; intros o m ch H.
    - destruct m; discriminate.
    - destruct m as [|m]; simpl in H.
      + inversion H; subst. exists k. simpl. unfold sizes; simpl. repeat split; auto.
      + apply IH in H. destruct H as (kid & Hn & -> & E). exists kid. simpl. split; auto. split.
        * rewrite sizes_cons. lia.
        * f_equal. exact E.
  Qed.
  Lemma child_starts_length : forall (kids : list tree) o, length (child_starts o kids) = length kids.
  Proof. induction kids; intros; simpl; auto. Qed.

  Lemma combine_seq_In {A} : forall (a : list A) o i n, In (i, n) (combine (seq o (length a)) a) ->
    o <= i /\ nth_error a (i - o) = Some n.
  Proof.
    induction a as [|x a IH]; intros o i n H; simpl in H; [contradiction|].
    destruct H as [H|H].
    - inversion H; subst. rewrite Nat.sub_diag. auto.
    - apply IH in H. destruct H as (Hle & Hn). split; [lia|].
      replace (i - o) with (S (i - S o)) by lia. exact Hn.
  Qed.
  Lemma positions_where_In f (a : list nat) i : In i (positions_where f a) ->
    exists n, nth_error a i = Some n /\ f n = true.
  Proof.
    unfold positions_where. rewrite in_map_iff. intros ([j n] & E & H). simpl in E. subst j.
    apply filter_In in H. destruct H as (H & Hf). simpl in Hf.
    apply combine_seq_In in H. rewrite Nat.sub_0_r in H. exists n. tauto.
  Qed.

  (* the node at position i of a well-formed tree, with the context around it *)
  Lemma node_at (T : tree) i : i < size T ->
    exists s kids pre post, sub_at T i = Some (Node s kids) /\ flatten T = pre ++ flatten (Node s kids) ++ post /\
      length pre = i /\ forall v, flatten (replace_at T i v) = pre ++ flatten v ++ post.
  Proof.
    intros Hi. destruct (sub_at_some T i Hi) as ([s kids] & Hu).
    destruct (sub_at_decomp T i _ Hu) as (pre & post & E & L & R). exists s, kids, pre, post. auto.
  Qed.

  (* ---------------------------------------------------------------- the universal set *)
  Definition term_of (U : uniset) (s : sym) : Prop :=
    In (inl s) (u_terms U) \/ exists g ds ds', In (inr g) (u_terms U) /\ g ds = Some (s, ds').
  Definition in_uniset (U : uniset) (s : sym) : Prop := In s (u_funcs U) \/ term_of U s.
  (* function symbols take arguments, terminals (and whatever an ephemeral generator returns) do not *)
  Definition uniset_ok (U : uniset) : Prop :=
    (forall s, In s (u_funcs U) -> 1 <= arity s) /\ (forall s, term_of U s -> arity s = 0).

  Lemma random_terminal_spec U ds s ds' : random_terminal U ds = Some (s, ds') -> term_of U s.
  Proof.
    unfold random_terminal. intros H. minv H.
    destruct (nth_error (u_terms U) a) as [[x|g]|] eqn:E; [| |minv H].
    - minv H. inversion H; subst. left. eapply nth_error_In; eauto.
    - right. exists g, ds0, ds'. split; auto. eapply nth_error_In; eauto.
  Qed.
  Lemma random_functional_spec U k ds s ds' : random_functional arity U k ds = Some (s, ds') ->
    In s (u_funcs U) /\ forall n, k = Some n -> arity s = n.
  Proof.
    unfold random_functional. intros H. minv H. minv H. inversion H; subst.
    apply nth_error_In in Hl. destruct k as [n|]; simpl in Hl.
    - apply filter_In in Hl. destruct Hl as (Hin & Ha). apply Nat.eqb_eq in Ha.
      split; auto. intros m Hmm. inversion Hmm; subst; auto.
    - split; auto. discriminate.
  Qed.

  (* ---------------------------------------------------------------- point_mutation *)
  (* named behaviour: ONE symbol is replaced by a symbol of the same arity from the universal set
     (a terminal by a terminal, a function by a function of the same arity); nothing else changes *)
  Definition is_relabel (U : uniset) (T C : tree) : Prop :=
    exists i s kids s', sub_at T i = Some (Node s kids) /\ arity s' = arity s /\ in_uniset U s' /\
      C = replace_at T i (Node s' kids).

  Theorem point_mutation_spec t T U proba ds c ds' :
    good t T -> uniset_ok U ->
    point_mutation arity t U proba ds = Some (c, ds') ->
    exists C, good c C /\ (C = T \/ is_relabel U T C).
  Proof.
    intros G (UF & UT) H. unfold point_mutation in H. minv H. destruct a.
    2:{ minv H. inversion H; subst. exists T. auto. }
    minv H. destruct (nth_error (fst t) a) as [s|] eqn:En; [|minv H].
    minv H. minv H. inversion H; subst; clear H.
    destruct G as (W & ->). simpl in *.
    assert (Hi : a < size T). { rewrite <- flatten_length. apply nth_error_Some. congruence. }
    destruct (node_at T a Hi) as (s0 & kids & pre & post & Hu & E & L & R).
    assert (s0 = s). { rewrite E, <- L in En. simpl in En. rewrite nth_error_occ in En. congruence. }
    subst s0.
    assert (Hnew : arity a0 = arity s /\ in_uniset U a0).
    { unfold is_fun in Hm1. destruct (0 <? arity s) eqn:Ef.
      - apply random_functional_spec in Hm1. destruct Hm1 as (Hin & Ha). split; [apply Ha; auto|left; auto].
      - apply random_terminal_spec in Hm1. apply Nat.ltb_ge in Ef. split; [rewrite (UT _ Hm1); lia|right; auto]. }
    destruct Hnew as (Ha & Hu').
    pose proof (sub_at_wf arity T W _ _ Hu) as Wu. apply wft_Node in Wu. destruct Wu as (Lk & Wk).
    exists (replace_at T a (Node a0 kids)). split.
    - split.
      + apply replace_at_wf; auto. apply wft_Node. split; auto. congruence.
      + unfold mk. rewrite R, E, <- L. simpl. rewrite upd_app_len. f_equal.
        rewrite !nargs_app. simpl. rewrite Ha. reflexivity.
    - right. exists a, s, kids, a0. auto.
  Qed.

  Lemma relabel_depth U T C : is_relabel U T C -> depth C <= depth T.
  Proof.
    intros (i & s & kids & s' & Hu & _ & _ & ->). eapply replace_depth_le; eauto.
  Qed.

  Theorem point_mutation_closed t U proba ds c ds' ml :
    wfp t -> uniset_ok U ->
    point_mutation arity t U proba ds = Some (c, ds') ->
    wfp c /\ (forall x, In x (fst c) -> In x (fst t) \/ in_uniset U x) /\ (depthp t <= ml -> depthp c <= ml).
  Proof.
    intros W UO H. apply wfp_good in W. destruct W as (T & G).
    destruct (point_mutation_spec _ _ _ _ _ _ _ G UO H) as (C & GC & HC).
    split; [eapply good_wfp; eauto|].
    rewrite (good_depth _ _ G), (good_depth _ _ GC).
    destruct G as (_ & ->). destruct GC as (_ & ->). simpl. split.
    - intros x Hx. destruct HC as [->|(i & s & kids & s' & Hu & Ha & Hin & ->)]; auto.
      destruct (replace_syms _ _ _ _ _ Hu Hx) as [|Hy]; auto. simpl in Hy. destruct Hy as [<-|Hy]; auto.
      left. eapply sub_syms; eauto. simpl. auto.
    - intros D. destruct HC as [->|HC]; auto. pose proof (relabel_depth _ _ _ HC). lia.
  Qed.

  (* ---------------------------------------------------------------- shrink_mutation *)
  (* named behaviour: a function node is replaced by one of its own arguments *)
  Definition is_shrink (T C : tree) : Prop :=
    exists i s kids k, sub_at T i = Some (Node s kids) /\ In k kids /\ C = replace_at T i k.

  Theorem shrink_mutation_spec t T (U : uniset) proba ds c ds' :
    good t T ->
    shrink_mutation t U proba ds = Some (c, ds') ->
    (size T <= 2 -> c = t /\ ds' = ds) /\
    exists C, good c C /\ (C = T \/ is_shrink T C).
  Proof.
    intros G H. unfold shrink_mutation in H. rewrite (good_length _ _ G) in H.
    destruct (2 <? size T) eqn:E2.
    2:{ minv H. inversion H; subst. split; auto. exists T. auto. }
    apply Nat.ltb_lt in E2. split; [lia|].
    minv H. destruct a.
    2:{ minv H. inversion H; subst. exists T. auto. }
    destruct (positions_where (fun n => 0 <? n) (snd t)) as [|i0 idx] eqn:Ei.
    { minv H. inversion H; subst. exists T. auto. }
    minv H. destruct (nth_error (i0 :: idx) a) as [i|] eqn:En; [|minv H].
    destruct (find_args (snd t) i) as [args|] eqn:Ea; [|minv H].
    minv H. minv H. inversion H; subst; clear H.
    pose proof G as (W & Et).
    assert (Hi : i < size T).
    { unfold find_args in Ea. destruct (nth_error (snd t) i) eqn:Ex; [|discriminate].
      assert (i < length (snd t)) by (apply nth_error_Some; congruence).
      rewrite Et in H. simpl in H. rewrite nargs_length, flatten_length in H. auto. }
    destruct (node_at T i Hi) as (s & kids & pre & post & Hu & E & L & R).
    pose proof (sub_at_wf arity T W _ _ Hu) as Wu.
    assert (Hargs : args = child_starts (S i) kids).
    { rewrite Et in Ea. simpl in Ea. rewrite E, <- L in Ea. rewrite (find_args_flat arity s kids pre post Wu) in Ea.
      congruence. }
    assert (Hch : exists m, nth_error args m = Some a0).
    { destruct (1 <? length args); [minv Hm1; minv Hm1; inversion Hm1; subst; eauto|].
      minv Hm1. inversion Hm1; subst. eauto. }
    destruct Hch as (m & Hnm). rewrite Hargs in Hnm.
    destruct (child_starts_nth _ _ _ _ Hnm) as (kid & Hk & Ech & Ekids).
    apply wft_Node in Wu. destruct Wu as (Lk & Wk).
    assert (Wkid : wft kid = true).
    { unfold Tree.wff in Wk. rewrite forallb_forall in Wk. apply Wk. eapply nth_error_In; eauto. }
    (* the chosen argument as an occurrence in the node list *)
    assert (Es : subtree_p t a0 = Some (mk (flatten kid))).
    { rewrite Et, subtree_p_mk. rewrite E, flatten_Node. rewrite Ekids, flats_app, flats_cons.
      replace (pre ++ (s :: flats (firstn m kids) ++ flatten kid ++ flats (skipn (S m) kids)) ++ post)
        with ((pre ++ s :: flats (firstn m kids)) ++ flatten kid ++ (flats (skipn (S m) kids) ++ post))
        by (rewrite <- !app_assoc; simpl; rewrite <- !app_assoc; reflexivity).
      replace a0 with (length (pre ++ s :: flats (firstn m kids))).
      - rewrite subtree_occ by auto. reflexivity.
      - rewrite app_length. simpl. rewrite flats_length. lia. }
    unfold transplant in Hl. rewrite Es in Hl. simpl in Hl.
    assert (Gk : good (mk (flatten kid)) kid) by (split; auto).
    destruct (concat_p_good _ _ _ _ _ _ G Gk Hl) as (w & Hw & Go).
    exists (replace_at T i kid). split; auto. right. exists i, s, kids, kid. repeat split; auto.
    eapply nth_error_In; eauto.
  Qed.

  Lemma shrink_depth T C : is_shrink T C -> depth C <= depth T.
  Proof.
    intros (i & s & kids & k & Hu & Hin & ->). eapply replace_depth_le; eauto.
    rewrite depth_Node. clear Hu. induction kids as [|x r IH]; [contradiction|].
    rewrite depth_f_cons. destruct Hin as [->|Hin]; [lia|]. apply IH in Hin. lia.
  Qed.
  Lemma shrink_syms T C x : is_shrink T C -> In x (flatten C) -> In x (flatten T).
  Proof.
    intros (i & s & kids & k & Hu & Hin & ->) Hx.
    destruct (replace_syms _ _ _ _ _ Hu Hx) as [|Hy]; auto.
    eapply sub_syms; eauto. simpl. right. unfold flats. apply in_flat_map. eauto.
  Qed.

  Theorem shrink_mutation_closed t (U : uniset) proba ds c ds' ml :
    wfp t ->
    shrink_mutation t U proba ds = Some (c, ds') ->
    wfp c /\ (forall x, In x (fst c) -> In x (fst t)) /\ (depthp t <= ml -> depthp c <= ml).
  Proof.
    intros W H. apply wfp_good in W. destruct W as (T & G).
    destruct (shrink_mutation_spec _ _ _ _ _ _ _ G H) as (_ & C & GC & HC).
    split; [eapply good_wfp; eauto|].
    rewrite (good_depth _ _ G), (good_depth _ _ GC).
    destruct G as (_ & ->). destruct GC as (_ & ->). simpl. split.
    - intros x Hx. destruct HC as [->|HC]; auto. eapply shrink_syms; eauto.
    - intros D. destruct HC as [->|HC]; auto. pose proof (shrink_depth _ _ HC). lia.
  Qed.
End D.
