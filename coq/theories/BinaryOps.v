(* BinaryOps.v — executable models of the binary-GA variation operators (C06).
   Sources: src/thefittest/utils/crossovers.py (empty_crossover, one_point_crossover,
   two_point_crossover, uniform_crossover, uniform_proportional_crossover, uniform_rank_crossover,
   uniform_tournament_crossover, binomialGA), utils/mutations.py (flip_mutation).
   Genes are Z (the property is that they stay in {0,1}); parents are a list of rows. *)
From TF Require Export Base RandomPrims.
Open Scope Q_scope.

Definition row := list Z.
Definition build (n : nat) (f : nat -> Z) : row := map f (seq 0 n).
Definition gene (ps : list row) (p : nat) (i : nat) : Z := nth i (nth p ps []) 0%Z.
Definition width (ps : list row) : nat := length (nth 0 ps []).

(* empty_crossover: individs[0].copy() *)
Definition empty_crossover (ps : list row) : M row := ret (nth 0 ps []).

(* one_point_crossover:
     cross_point = random_sample(len, 1, True)[0]        -- one randint(0, len)
     if flip_coin(0.5): child = p0 with p1 on i > cross_point  else the roles swapped *)
Definition one_point_child (ps : list row) (c : Z) (coin : bool) : row :=
  let a := if coin then 0%nat else 1%nat in
  let b := if coin then 1%nat else 0%nat in
  build (width ps) (fun i => if (c <? Z.of_nat i)%Z then gene ps b i else gene ps a i).
Definition one_point_crossover (ps : list row) : M row :=
  c <- popI (Z.of_nat (width ps)) ;;
  coin <- flip_coin (1 # 2) ;;
  ret (one_point_child ps c coin).

(* two_point_crossover:
     c_points = sorted(random_sample(len, 2, False)); coin; child = base with other on c0 <= i <= c1 *)
Definition two_point_child (ps : list row) (c0 c1 : Z) (coin : bool) : row :=
  let a := if coin then 0%nat else 1%nat in
  let b := if coin then 1%nat else 0%nat in
  build (width ps) (fun i => if ((c0 <=? Z.of_nat i) && (Z.of_nat i <=? c1))%Z then gene ps b i else gene ps a i).
Definition two_point_crossover (ps : list row) : M row :=
  cs <- random_sample (Z.of_nat (width ps)) 2 false ;;
  coin <- flip_coin (1 # 2) ;;
  let x := nth 0 cs 0%Z in let y := nth 1 cs 0%Z in
  ret (two_point_child ps (Z.min x y) (Z.max x y) coin).

(* uniform family: a donor index per locus, child[i] = parents[chosen[i]][i] *)
Definition from_choice (ps : list row) (ch : list Z) : row :=
  build (width ps) (fun i => gene ps (Z.to_nat (nth i ch 0%Z)) i).
Definition uniform_crossover (ps : list row) (fitness rank : list Q) : M row :=
  ch <- random_sample (Z.of_nat (length fitness)) (width ps) true ;; ret (from_choice ps ch).
Definition uniform_proportional_crossover (ps : list row) (fitness rank : list Q) : M row :=
  ch <- random_weighted_sample fitness (width ps) true ;; ret (from_choice ps ch).
Definition uniform_rank_crossover (ps : list row) (fitness rank : list Q) : M row :=
  ch <- random_weighted_sample rank (width ps) true ;; ret (from_choice ps ch).

(* uniform_tournament_crossover (repaired code):
     tournament = random_sample(k, 2*len, True).reshape(-1, 2)
     winner[i]  = tournament[i][argmax(fitness[tournament[i]])]       (first maximum)
     child[i]   = parents[winner[i]][i] *)
Fixpoint pair_winners (fitness : list Q) (t : list Z) : list Z :=
  match t with
  | a :: b :: r =>
    (if Qltb (nth (Z.to_nat a) fitness 0) (nth (Z.to_nat b) fitness 0) then b else a) :: pair_winners fitness r
  | _ => []
  end.
Definition uniform_tournament_crossover (ps : list row) (fitness rank : list Q) : M row :=
  t <- random_sample (Z.of_nat (length ps)) (2 * width ps) true ;;
  ret (from_choice ps (pair_winners fitness t)).

(* the code before the repair used the arg-max *position* (0/1) as the parent index *)
Fixpoint pair_positions (fitness : list Q) (t : list Z) : list Z :=
  match t with
  | a :: b :: r =>
    (if Qltb (nth (Z.to_nat a) fitness 0) (nth (Z.to_nat b) fitness 0) then 1%Z else 0%Z) :: pair_positions fitness r
  | _ => []
  end.
Definition uniform_tournament_crossover_old (ps : list row) (fitness rank : list Q) : M row :=
  t <- random_sample (Z.of_nat (length ps)) (2 * width ps) true ;;
  ret (from_choice ps (pair_positions fitness t)).

(* binomialGA(individ, mutant, CR): j = randint(0,size,1)[0]; for i: if flip_coin(CR) or i == j *)
Fixpoint coins (p : Q) (n : nat) : M (list bool) :=
  match n with
  | O => ret []
  | S k => b <- flip_coin p ;; r <- coins p k ;; ret (b :: r)
  end.
Definition binomial_child (individ mutant : row) (j : Z) (cs : list bool) : row :=
  build (length individ) (fun i => if nth i cs false || (Z.of_nat i =? j)%Z then nth i mutant 0%Z else nth i individ 0%Z).
Definition binomialGA (individ mutant : row) (CR : Q) : M row :=
  js <- randint 0 (Z.of_nat (length individ)) 1 ;;
  cs <- coins CR (length individ) ;;
  ret (binomial_child individ mutant (nth 0 js 0%Z) cs).

(* flip_mutation(individual, proba) *)
Definition flip_child (x : row) (cs : list bool) : row :=
  build (length x) (fun i => if nth i cs false then (1 - nth i x 0)%Z else nth i x 0%Z).
Definition flip_mutation (x : row) (p : Q) : M row :=
  cs <- coins p (length x) ;; ret (flip_child x cs).

(* one new individual as GeneticAlgorithm._get_new_individ_g composes it:
     selected = selection(fitness_scale, rank, tour, quantity)
     child    = mutation(crossover(pop[selected], fscale[selected], rank[selected]), rate)
     rate     = proba            if the pool entry is constant-rate
              = proba / len      otherwise *)
Definition gather {A} (d : A) (l : list A) (idx : list Z) : list A := map (fun i => nth (Z.to_nat i) l d) idx.
Definition mutation_rate (proba : Q) (is_constant : bool) (len : nat) : Q :=
  if is_constant then proba else proba / inject_Z (Z.of_nat len).
Definition new_individ
  (selection : list Q -> list Q -> nat -> nat -> M (list Z)) (tour quantity : nat)
  (crossover : list row -> list Q -> list Q -> M row)
  (proba : Q) (is_constant : bool)
  (pop : list row) (fscale frank : list Q) : M row :=
  sel <- selection fscale frank tour quantity ;;
  c <- crossover (gather [] pop sel) (gather 0 fscale sel) (gather 0 frank sel) ;;
  flip_mutation c (mutation_rate proba is_constant (length c)).

Definition binary (x : row) : Prop := Forall (fun g => g = 0%Z \/ g = 1%Z) x.
