(* CodeEqC14.v — SelfCGA._get_new_proba (inherited by SelfCGP), translated on every run with the probability dict modelled by
   its value list in key order (gen/GenCode.v: py_SelfCGA_get_new_proba), IS the model's update rule selfc_new_proba
   (SelfConf.v): the winner's entry is raised by K/iters, every entry lowered by K/(z*iters), clipped to [threshold, 1] and
   renormalised.  Entries are related by == (the source multiplies integers before converting, the model converts first). *)
From TF Require Import Py PyLemmas Adapt SelfConf CodeEqAdapt.
From TFG Require Import GenCode.
From Coq Require Import Qfield.
Open Scope Q_scope.

Lemma Forall2_map_ext (f g : Q -> Q) : (forall x y, x == y -> f x == g y) ->
  forall l l', Forall2 Qeq l l' -> Forall2 Qeq (map f l) (map g l').
Proof. intros H l l' F; induction F; cbn [map]; constructor; auto. Qed.

Lemma Forall2_Qeq_refl l : Forall2 Qeq l l.
Proof. induction l; constructor; [reflexivity|assumption]. Qed.

Lemma qsum_compat l l' : Forall2 Qeq l l' -> qsum l == qsum l'.
Proof. intro F; induction F as [|a b l l' Hab _ IH]; cbn [qsum]; [reflexivity|]. now rewrite Hab, IH. Qed.

Lemma Qltb_compat_l a b c : a == b -> Qltb a c = Qltb b c.
Proof.
  intro H. unfold Qltb. f_equal. destruct (Qle_bool c b) eqn:E.
  - apply Qle_bool_iff. apply Qle_bool_iff in E. now rewrite H.
  - destruct (Qle_bool c a) eqn:E2; [|reflexivity]. apply Qle_bool_iff in E2. rewrite H in E2. apply Qle_bool_iff in E2. congruence.
Qed.

(* numpy's clip(lo, hi) = min(max(x, lo), hi) is the model's clip when lo <= hi *)
Lemma clip_code lo hi x y : lo <= hi -> x == y ->
  (let m := if Qltb x lo then lo else x in if Qltb hi m then hi else m) == clip lo hi y.
Proof.
  intros Hlh Hxy. cbv zeta. unfold clip. rewrite (Qltb_compat_l x y lo Hxy).
  destruct (Qltb y lo) eqn:E1.
  - assert (Qltb hi lo = false) as ->; [|reflexivity].
    unfold Qltb. apply Bool.negb_false_iff. now apply Qle_bool_iff.
  - rewrite (Qltb_compat hi x y Hxy). destruct (Qltb hi y); [reflexivity|exact Hxy].
Qed.

Theorem code_selfc_new_proba (K : Q) (iters : Z) (thr : Q) (p : list Q) (w : Z) : (0 <= w)%Z -> thr <= 1 ->
  fst (py_SelfCGA_get_new_proba K iters p w thr) = upd p (Z.to_nat w) (nth (Z.to_nat w) p 0 + K / ZtoQ iters) /\
  Forall2 Qeq (snd (py_SelfCGA_get_new_proba K iters p w thr)) (selfc_new_proba K (ZtoQ iters) thr p (Z.to_nat w)).
Proof.
  intros Hw Hthr. unfold py_SelfCGA_get_new_proba. cbv zeta. cbn [fst snd].
  rewrite (setA_nonneg _ _ _ Hw), (getQ_nonneg _ _ Hw). split; [reflexivity|].
  unfold selfc_new_proba, selfc_raw. cbv zeta.
  set (p1 := upd p (Z.to_nat w) (nth (Z.to_nat w) p 0 + K / ZtoQ iters)).
  assert (Hraw : Forall2 Qeq (vsubs p1 (K / ZtoQ (zlen p1 * iters)))
                   (map (fun x => x - K / (inject_Z (Z.of_nat (length p)) * ZtoQ iters)) p1)).
  { unfold vsubs. apply Forall2_map_ext; [|apply Forall2_Qeq_refl]. intros x y Hxy.
    unfold zlen, p1. rewrite upd_length. unfold ZtoQ. rewrite inject_Z_mult, Hxy. reflexivity. }
  assert (Hclip : Forall2 Qeq (vclip thr (ZtoQ 1) (vsubs p1 (K / ZtoQ (zlen p1 * iters))))
                    (map (clip thr 1) (map (fun x => x - K / (inject_Z (Z.of_nat (length p)) * ZtoQ iters)) p1))).
  { unfold vclip. apply Forall2_map_ext; [|exact Hraw]. intros x y Hxy. now apply clip_code. }
  unfold vdivs. apply Forall2_map_ext; [|exact Hclip].
  intros x y Hxy. rewrite sumQ_qsum, (qsum_compat _ _ Hclip), Hxy. reflexivity.
Qed.

(* ---------- what the source's own update rule guarantees ---------- *)
From TF Require Import SelfConfProofs.
Lemma Forall2_length_Q (l l' : list Q) : Forall2 Qeq l l' -> length l = length l'.
Proof. intro F; induction F; cbn; congruence. Qed.
Lemma Forall2_pos (l l' : list Q) : Forall2 Qeq l l' -> Forall (fun x => 0 < x) l' -> Forall (fun x => 0 < x) l.
Proof.
  intro F; induction F as [|a b l l' Hab _ IH]; intro H; [constructor|].
  inversion H as [|? ? Hb Hl]; subst. constructor; [now rewrite Hab|now apply IH].
Qed.

Theorem src_selfc_distribution (K : Q) (iters : Z) (thr : Q) (p : list Q) (w : Z) :
  (0 <= w)%Z -> 0 < thr -> thr <= 1 -> p <> [] ->
  let q := snd (py_SelfCGA_get_new_proba K iters p w thr) in
  length q = length p /\ qsum q == 1 /\ Forall (fun x => 0 < x) q.
Proof.
  intros Hw H0 H1 Hp q.
  destruct (code_selfc_new_proba K iters thr p w Hw H1) as [_ F]. fold q in F.
  destruct (selfc_distribution K (ZtoQ iters) thr p (Z.to_nat w) H0 H1 Hp) as (Hl & Hs & Hpos).
  repeat split.
  - rewrite (Forall2_length_Q _ _ F). exact Hl.
  - rewrite (qsum_compat _ _ F). exact Hs.
  - exact (Forall2_pos _ _ F Hpos).
Qed.
