(* TreeEvalProofs.v — the stack machine computes the recursive meaning (C09), for ALL well-formed
   trees; batch evaluation is pointwise; set_terminals; structural equality. *)
From Coq Require Import String Ascii.
From Coq Require Import List Arith Bool Lia ZArith QArith Qabs.
Import ListNotations.
From TF Require Import Tree TreeIdx TreeProofs TreeProofs2 TreeEval.
Open Scope nat_scope.

(* ================================================================ machine = eval *)
Section MachineProofs.
  Context {sym V : Type}.
  Variable arity : sym -> nat.
  Variable interp : sym -> list V -> V.
  Notation run := (run arity interp).
  Notation step := (step arity interp).
  Notation call := (call arity interp).
  Notation eval := (eval interp).
  Notation wft := (wft arity).
  Notation wff := (wff arity).

  Lemma run_app : forall a b st,
    run (a ++ b) st = match run a st with Some st' => run b st' | None => None end.
  Proof.
    induction a as [|s a IH]; intros b st; simpl; auto.
    destruct (step st s); auto.
  Qed.

  Lemma step_full : forall s (vs st : list V), length vs = arity s ->
    step (vs ++ st) s = Some (interp s vs :: st).
  Proof.
    intros s vs st L. unfold step. rewrite app_length.
    replace (length vs + length st <? arity s) with false by (symmetry; apply Nat.ltb_ge; lia).
    rewrite <- L, firstn_app_len, skipn_app_len. reflexivity.
  Qed.

  (* running the reversed encoding of a tree pushes exactly its value; of a forest, the values of
     its trees with the FIRST tree on top: the arguments reach the function in order *)
  Lemma run_flat : forall t : tree sym, wft t = true -> forall st,
    run (rev (flatten t)) st = Some (eval t :: st).
  Proof.
    apply (tree_ind2
      (fun t => wft t = true -> forall st, run (rev (flatten t)) st = Some (eval t :: st))
      (fun ts => wff ts = true -> forall st, run (rev (flats ts)) st = Some (map eval ts ++ st))).
    - intros s kids IH Hwf st. apply wft_Node in Hwf. destruct Hwf as [L W].
      rewrite flatten_Node. simpl rev. rewrite run_app, (IH W). simpl run.
      rewrite step_full by (rewrite map_length; auto). reflexivity.
    - intros _ st. reflexivity.
    - intros t ts IHt IHts Hwf st. apply wff_cons in Hwf. destruct Hwf as [Wt Wts].
      rewrite flats_cons, rev_app_distr, run_app, (IHts Wts), (IHt Wt). reflexivity.
  Qed.

  Theorem call_is_eval : forall (p : list sym) (t : tree sym),
    wft t = true -> flatten t = p -> call p = Some (eval t).
  Proof.
    intros p t Hwf <-. unfold TreeEval.call. rewrite (run_flat t Hwf []). reflexivity.
  Qed.

  (* the machine never succeeds with a stack of another shape on a well-formed list *)
  Corollary call_wf : forall p, wf arity p -> exists v, call p = Some v.
  Proof. intros p (t & W & E). exists (eval t). apply call_is_eval; auto. Qed.
End MachineProofs.

(* ================================================================ tmap *)
Section TMap.
  Context {A B : Type}.
  Variable f : A -> B.
  Lemma flatten_tmap : forall t : tree A, flatten (tmap f t) = map f (flatten t).
  Proof.
    apply (tree_ind2 (fun t => flatten (tmap f t) = map f (flatten t))
                     (fun ts => flats (map (tmap f) ts) = map f (flats ts))).
    - intros s kids IH. simpl tmap. rewrite !flatten_Node, IH. reflexivity.
    - reflexivity.
    - intros t ts Ht Hts. simpl map. rewrite !flats_cons, map_app, Ht, Hts. reflexivity.
  Qed.
  Lemma wft_tmap (aA : A -> nat) (aB : B -> nat) : (forall s, aB (f s) = aA s) ->
    forall t : tree A, wft aB (tmap f t) = wft aA t.
  Proof.
    intros H.
    apply (tree_ind2 (fun t => wft aB (tmap f t) = wft aA t)
                     (fun ts => forallb (wft aB) (map (tmap f) ts) = forallb (wft aA) ts)).
    - intros s kids IH. simpl. rewrite map_length, H. f_equal. exact IH.
    - reflexivity.
    - intros t ts Ht Hts. simpl. rewrite Ht, Hts. reflexivity.
  Qed.
  Lemma eval_tmap {V} (I : B -> list V -> V) :
    forall t : tree A, eval I (tmap f t) = eval (fun s => I (f s)) t.
  Proof.
    apply (tree_ind2 (fun t => eval I (tmap f t) = eval (fun s => I (f s)) t)
                     (fun ts => map (eval I) (map (tmap f) ts) = map (eval (fun s => I (f s))) ts)).
    - intros s kids IH. simpl. rewrite IH. reflexivity.
    - reflexivity.
    - intros t ts Ht Hts. simpl. rewrite Ht, Hts. reflexivity.
  Qed.
End TMap.

(* ================================================================ batch = per sample (generic) *)
Section Batch.
  Context {sym V W : Type}.
  Variable IV : sym -> list V -> V.      (* interpretation on batches *)
  Variable IW : sym -> list W -> W.      (* interpretation on one sample *)
  Variable h : V -> W.                   (* take one sample out of a batch value *)
  Variable good : V -> Prop.             (* e.g. "has at least k+1 components" *)
  Hypothesis pointwise : forall s args, Forall good args ->
    good (IV s args) /\ h (IV s args) = IW s (map h args).

  Theorem batch_pointwise : forall t : tree sym,
    good (eval IV t) /\ h (eval IV t) = eval IW t.
  Proof.
    apply (tree_ind2
      (fun t => good (eval IV t) /\ h (eval IV t) = eval IW t)
      (fun ts => Forall good (map (eval IV) ts) /\ map h (map (eval IV) ts) = map (eval IW) ts)).
    - intros s kids [G E]. simpl. destruct (pointwise s _ G) as [G' E']. split; auto.
      rewrite E', E. reflexivity.
    - split; constructor.
    - intros t ts [Gt Et] [Gts Ets]. simpl. split; [constructor; auto|]. rewrite Et, Ets. reflexivity.
  Qed.
End Batch.

(* ================================================================ the named operators are pointwise *)
Lemma nth_map_lt {A B} (f : A -> B) : forall l k d d', k < length l -> nth k (map f l) d' = f (nth k l d).
Proof.
  induction l as [|x l IH]; intros [|k] d d' H; simpl in *; try lia; auto. apply IH; lia.
Qed.
Lemma nth_combine_lt {A B} : forall (la : list A) (lb : list B) k da db,
  k < length la -> k < length lb -> nth k (combine la lb) (da, db) = (nth k la da, nth k lb db).
Proof.
  induction la as [|x la IH]; intros [|y lb] [|k] da db H1 H2; simpl in *; try lia; auto.
  apply IH; lia.
Qed.

Lemma vmap_pt g x k : inb k x = true ->
  inb k (vmap g x) = true /\ proj k (vmap g x) = g (proj k x).
Proof.
  destruct x as [q|l]; simpl; intros H; split; auto.
  - rewrite map_length; auto.
  - apply Nat.ltb_lt in H. apply nth_map_lt; auto.
Qed.

Lemma vmap2_pt g x y k : inb k x = true -> inb k y = true ->
  inb k (vmap2 g x y) = true /\ proj k (vmap2 g x y) = g (proj k x) (proj k y).
Proof.
  destruct x as [a|la], y as [b|lb]; simpl; intros Hx Hy; split; auto;
    try apply Nat.ltb_lt in Hx; try apply Nat.ltb_lt in Hy.
  - rewrite map_length; apply Nat.ltb_lt; auto.
  - apply (nth_map_lt (fun b => g a b)); auto.
  - rewrite map_length; apply Nat.ltb_lt; auto.
  - apply (nth_map_lt (fun a => g a b)); auto.
  - rewrite map_length, combine_length. apply Nat.ltb_lt. lia.
  - rewrite (nth_map_lt (fun ab => g (fst ab) (snd ab)) _ _ (0%Q, 0%Q)) by (rewrite combine_length; lia).
    rewrite nth_combine_lt by lia. reflexivity.
Qed.

Lemma vdiv_pt x y k : inb k x = true -> inb k y = true ->
  inb k (vdiv false x y) = true /\ proj k (vdiv false x y) = sdiv 1%Q (proj k x) (proj k y).
Proof.
  intros Hx Hy. destruct y as [b|lb].
  - unfold vdiv, sdiv. change (proj k (Sc b)) with b. destruct (Qeq_bool b 0).
    + split; reflexivity.
    + apply (vmap_pt (fun a => (a / b)%Q)); auto.
  - apply vmap2_pt; auto.
Qed.

Section NamedOps.
  Variable tr : nat -> Q -> Q.

  (* per-sample meaning of the function identifiers: the operator applied to scalars *)
  Definition sym_op_sample (f : nat) (args : list val) : val := sym_op tr false f args.
  Definition sample (k : nat) (x : val) : val := Sc (proj k x).

  Theorem sym_op_pointwise : forall f args k, forallb (inb k) args = true ->
    inb k (sym_op tr false f args) = true /\
    sample k (sym_op tr false f args) = sym_op tr false f (map (sample k) args).
  Proof.
    intros f args k H. unfold sample.
    assert (D : forall v, inb k (Sc v) = true) by reflexivity.
    do 11 (destruct f as [|f]; [
      destruct args as [|x [|y [|z r]]]; simpl in H; rewrite ?andb_true_iff in H;
      try (split; reflexivity);
      simpl sym_op; simpl map;
      try (destruct H as [Hx _];
           match goal with |- context [vmap ?g x] =>
             destruct (vmap_pt g x k Hx) as [G E]; split; [exact G| rewrite E; reflexivity] end);
      try (destruct H as [Hx [Hy _]];
           match goal with
           | |- context [vmap2 ?g x y] =>
             destruct (vmap2_pt g x y k Hx Hy) as [G E]; split; [exact G| rewrite E; reflexivity]
           | |- context [vdiv false x y] =>
             destruct (vdiv_pt x y k Hx Hy) as [G E]; split; [exact G|];
             rewrite E; unfold vdiv, sdiv; simpl; destruct (Qeq_bool (proj k y) 0); reflexivity
           end)
      |]).
    destruct args; split; reflexivity.
  Qed.

  (* before the repair save_div was NOT pointwise: batch x/0 = 1 but the sample alone gives 0 *)
  Theorem old_div_not_pointwise : exists args k, forallb (inb k) args = true /\
    ~ (proj 0 (sample k (sym_op tr true 5 args)) == proj 0 (sym_op tr true 5 (map (sample k) args)))%Q.
  Proof.
    exists [Ar [1%Q]; Ar [0%Q]], 0. split; [reflexivity|]. vm_compute. intro H; discriminate.
  Qed.

  (* whole trees: evaluating on a batch and taking sample k = evaluating sample k alone *)
  Definition sample_node (k : nat) (n : node val) : node val :=
    match n with FN f ar => FN f ar | TN nm v => TN nm (sample k v) end.
  Definition term_inb (k : nat) (n : node val) : bool :=
    match n with FN _ _ => true | TN _ v => inb k v end.

  Lemma batch_is_per_sample_inv : forall (t : tree (node val)) k,
    forallb (term_inb k) (flatten t) = true ->
    inb k (eval (ninterp (sym_op tr false)) t) = true /\
    sample k (eval (ninterp (sym_op tr false)) t)
    = eval (fun s => ninterp (sym_op tr false) (sample_node k s)) t.
  Proof.
    intros t k. revert t.
    apply (tree_ind2
      (fun t => forallb (term_inb k) (flatten t) = true ->
         inb k (eval (ninterp (sym_op tr false)) t) = true /\
         sample k (eval (ninterp (sym_op tr false)) t)
         = eval (fun s => ninterp (sym_op tr false) (sample_node k s)) t)
      (fun ts => forallb (term_inb k) (flats ts) = true ->
         forallb (inb k) (map (eval (ninterp (sym_op tr false))) ts) = true /\
         map (sample k) (map (eval (ninterp (sym_op tr false))) ts)
         = map (eval (fun s => ninterp (sym_op tr false) (sample_node k s))) ts)).
    - intros s kids IH H. rewrite flatten_Node in H. simpl in H. apply andb_true_iff in H.
      destruct H as [Hs Hk]. destruct (IH Hk) as [G E]. destruct s as [f ar|nm v]; simpl.
      + destruct (sym_op_pointwise f _ k G) as [G' E']. split; auto. rewrite E', E. reflexivity.
      + simpl in Hs. split; auto.
    - intros _. split; reflexivity.
    - intros t0 ts IHt IHts H. rewrite flats_cons, forallb_app in H. apply andb_true_iff in H.
      destruct H as [Ht Hts]. destruct (IHt Ht) as [Gt Et]. destruct (IHts Hts) as [Gts Ets].
      simpl. rewrite Gt, Gts, Et, Ets. split; reflexivity.
  Qed.

  Theorem batch_is_per_sample : forall (t : tree (node val)) k,
    forallb (term_inb k) (flatten t) = true ->
    sample k (eval (ninterp (sym_op tr false)) t)
    = eval (ninterp (sym_op tr false)) (tmap (sample_node k) t).
  Proof.
    intros t k H. rewrite eval_tmap. apply batch_is_per_sample_inv; auto.
  Qed.
End NamedOps.

(* ================================================================ set_terminals, equality, copy *)
Section Terminals.
  Context {V : Type}.
  Variable fI : nat -> list V -> V.

  Lemma node_arity_rebind env (n : node V) : node_arity (rebind env n) = node_arity n.
  Proof. destruct n as [f ar|nm v]; simpl; auto. destruct (lookup nm env); reflexivity. Qed.
  Lemma node_name_rebind env (n : node V) : node_name (rebind env n) = node_name n.
  Proof. destruct n as [f ar|nm v]; simpl; auto. destruct (lookup nm env); reflexivity. Qed.
  Lemma ninterp_rebind env (n : node V) args :
    ninterp fI (rebind env n) args = ninterp_env fI env n args.
  Proof. destruct n as [f ar|nm v]; simpl; auto. destruct (lookup nm env); reflexivity. Qed.

  (* calling the re-bound copy = evaluating the tree under the environment *)
  Theorem set_terminals_call : forall (t : tree (node V)) env, wft node_arity t = true ->
    call node_arity (ninterp fI) (set_terminals env (flatten t))
    = Some (eval (ninterp_env fI env) t).
  Proof.
    intros t env Hwf. unfold set_terminals. rewrite <- flatten_tmap.
    rewrite (call_is_eval node_arity (ninterp fI) (flatten (tmap (rebind env) t)) (tmap (rebind env) t)); auto.
    - rewrite eval_tmap. f_equal.
      clear Hwf. revert t.
      apply (tree_ind2 (fun t => eval (fun s => ninterp fI (rebind env s)) t = eval (ninterp_env fI env) t)
                       (fun ts => map (eval (fun s => ninterp fI (rebind env s))) ts
                                  = map (eval (ninterp_env fI env)) ts)).
      + intros s kids IH. simpl. rewrite IH. apply ninterp_rebind.
      + reflexivity.
      + intros t ts Ht Hts. simpl. rewrite Ht, Hts. reflexivity.
    - rewrite (wft_tmap (rebind env) node_arity node_arity); auto. intros s. apply node_arity_rebind.
  Qed.

  (* exactly the named terminals are re-bound: every position holds the re-bound node, function
     nodes and terminals whose name is not a key are untouched, a named terminal gets the value *)
  Theorem set_terminals_exact : forall env (p : list (node V)),
    length (set_terminals env p) = length p /\
    (forall i, nth_error (set_terminals env p) i = option_map (rebind env) (nth_error p i)) /\
    (forall f ar, rebind env (FN f ar) = FN f ar) /\
    (forall nm v, lookup nm env = None -> rebind env (TN nm v) = TN nm v) /\
    (forall nm v v', lookup nm env = Some v' -> rebind env (TN nm v) = TN nm v').
  Proof.
    intros env p. unfold set_terminals. split; [apply map_length|]. split; [intros i; apply nth_error_map|].
    repeat split; intros; simpl; try rewrite H; reflexivity.
  Qed.

  Lemma names_eqb_eq : forall a b, names_eqb a b = true <-> a = b.
  Proof.
    induction a as [|[x1 x2] a IH]; intros [|[y1 y2] b]; simpl; split; intro H; try discriminate; auto.
    - rewrite !andb_true_iff, !Nat.eqb_eq in H. destruct H as [[-> ->] H]. apply IH in H. congruence.
    - inversion H; subst. rewrite !Nat.eqb_refl. simpl. apply IH. reflexivity.
  Qed.

  (* Tree.__eq__ is equality of the name sequences *)
  Theorem tree_eqb_structural : forall p q : list (node V),
    tree_eqb p q = true <-> map node_name p = map node_name q.
  Proof. intros p q. apply names_eqb_eq. Qed.

  (* when equal names mean equal arities on the nodes involved, equal trees have the same shape *)
  Theorem tree_eqb_same_shape : forall p q : list (node V),
    (forall n m, In n p -> In m q -> node_name n = node_name m -> node_arity n = node_arity m) ->
    tree_eqb p q = true -> nargs node_arity p = nargs node_arity q.
  Proof.
    intros p q H E. apply tree_eqb_structural in E. revert q H E.
    induction p as [|n p IH]; intros [|m q] H E; simpl in *; try discriminate; auto.
    inversion E. f_equal.
    - apply H; auto.
    - apply IH; auto.
  Qed.

  Theorem copy_eq : forall p : ptree (node V), copy p = p /\ tree_eqb (fst (copy p)) (fst p) = true.
  Proof. intros [a b]. split; [reflexivity|]. apply tree_eqb_structural. reflexivity. Qed.

  Theorem set_terminals_eq : forall env (p : list (node V)), tree_eqb (set_terminals env p) p = true.
  Proof.
    intros env p. apply tree_eqb_structural. unfold set_terminals. rewrite map_map.
    apply map_ext. intros n. apply node_name_rebind.
  Qed.
End Terminals.

(* ================================================================ printing *)
Section ShowProofs.
  Context {V : Type}.
  Variable ffmt : nat -> string.
  Variable tname : nat -> string.
  Theorem show_is_render : forall (p : list (node V)) (t : tree (node V)),
    wft node_arity t = true -> flatten t = p -> show ffmt tname p = Some (render ffmt tname t).
  Proof. intros p t Hwf E. apply call_is_eval; auto. Qed.
End ShowProofs.
