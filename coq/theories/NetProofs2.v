(* NetProofs2.v — C13, part 2: the decoder keeps the layering invariant, _fix establishes Valid,
   C13_decode_valid.                                                                             *)
From TF Require Import Base Net NetAlgebra NetProofs.
From Coq Require Import Permutation Sorted.
Local Open Scope nat_scope.

(* ------------------------------------------------------------------ + and > on tree nets *)
Lemma net_op_LInv fixed nv o a b :
  LInv nv a -> LInv nv b -> n_out a = [] -> n_out b = [] ->
  (forall v, In v (hidden a) -> In v (hidden b) -> False) ->
  exists r, net_op fixed OPFUEL o a b = Some r /\ LInv nv r /\ n_out r = [] /\
            (forall v, In v (hidden r) <-> In v (hidden a) \/ In v (hidden b)).
Proof.
  intros Ia Ib Oa Ob HD.
  destruct (net_op_cases fixed o a b) as [r [Hr [E|[E|E]]]]; exists r; subst r; split; auto.
  - apply gt_plain_LInv; auto.
  - destruct (gt_plain_LInv nv b a) as [H1 [H2 H3]]; auto.
    { intros v H H'. apply (HD v); auto. }
    split; [exact H1|split; [exact H2|]]. intro v. rewrite H3. tauto.
  - apply add_plain_LInv; auto.
Qed.

(* ------------------------------------------------------------------ well-formed trees *)
(* input blocks are sets of column ids; sizes / activations of hidden blocks are arbitrary *)
Fixpoint wf_tree (nv : nat) (t : gtree) : Prop :=
  match t with
  | TIn ids => NoDup ids /\ forall v, In v ids -> v < nv
  | TBias => True
  | THid _ _ => True
  | TNode _ l r => wf_tree nv l /\ wf_tree nv r
  end.

Lemma unit_in_LInv nv ids :
  NoDup ids -> (forall v, In v ids -> v < nv) -> LInv nv (unit_in ids).
Proof.
  intros H1 H2. constructor; unfold hidden; simpl; auto.
  - intros v [].
  - constructor.
  - intros a b [].
  - constructor.
  - intros v. tauto.
Qed.
Lemma unit_keys (ids : list nat) (act : nat) : map fst (map (fun i => (i, act)) ids) = ids.
Proof. rewrite map_map. simpl. apply map_id. Qed.
Lemma unit_hid_LInv nv n s act : nv <= n -> LInv nv (unit_hid (seq n s) act).
Proof.
  intro H. constructor; unfold hidden; simpl; rewrite ?app_nil_r, ?unit_keys; auto.
  - intros v [].
  - intros v Hv. apply in_seq in Hv. lia.
  - constructor.
  - apply seq_NoDup.
  - intros a b [].
  - apply seq_NoDup.
  - intros v. tauto.
Qed.

Local Arguments net_op : simpl never.
(* the recursive decoder: hidden ids of the result are exactly [n, n') *)
Lemma decode_rec_inv fixed nv t : 1 <= nv -> wf_tree nv t -> forall n, nv <= n ->
  exists r n', decode_rec fixed nv t n = Some (r, n') /\ n <= n' /\
    LInv nv r /\ n_out r = [] /\ (forall v, In v (hidden r) <-> n <= v < n').
Proof.
  intros Hnv. induction t as [ids| |s act|o l IHl r IHr]; simpl; intros Hwf n Hn.
  - exists (unit_in ids), n. destruct Hwf.
    split; [reflexivity|split; [lia|split; [apply unit_in_LInv; auto|split; [reflexivity|]]]].
    intro v. unfold hidden; simpl. split; [tauto|lia].
  - exists (unit_in [nv - 1]), n.
    split; [reflexivity|split; [lia|split; [|split; [reflexivity|]]]].
    + apply unit_in_LInv. repeat constructor; auto. intros v [<-|[]]. lia.
    + intro v. unfold hidden; simpl. split; [tauto|lia].
  - exists (unit_hid (seq n s) act), (n + s).
    split; [reflexivity|split; [lia|split; [apply unit_hid_LInv; auto|split; [reflexivity|]]]].
    intro v. unfold hidden; simpl. rewrite app_nil_r, in_seq. tauto.
  - destruct Hwf as [Hl Hr].
    destruct (IHr Hr n Hn) as [nr [n1 [Er [L1 [Ir [Or Hr']]]]]].
    destruct (IHl Hl n1 ltac:(lia)) as [nl [n2 [El [L2 [Il [Ol Hl']]]]]].
    rewrite Er, El.
    destruct (net_op_LInv fixed nv o nl nr Il Ir Ol Or) as [x [Ex [Ix [Ox Hx]]]].
    { intros v H1 H2. apply Hl' in H1. apply Hr' in H2. lia. }
    rewrite Ex. exists x, n2.
    split; [reflexivity|split; [lia|split; [auto|split; [auto|]]]].
    intro v. rewrite Hx, Hl', Hr'. lia.
Qed.

(* the reversed stack pass of genotype_to_phenotype_tree computes decode_rec *)
Lemma run_stack_app fixed nv xs ys st n :
  run_stack fixed nv (xs ++ ys) st n =
  match run_stack fixed nv xs st n with
  | Some (st', n') => run_stack fixed nv ys st' n'
  | None => None
  end.
Proof.
  revert st n. induction xs as [|g xs IH]; intros st n; simpl; auto.
  destruct g; auto.
  destruct st as [|x [|y st]]; auto. destruct (net_op fixed OPFUEL isgt x y); auto.
Qed.
Lemma run_stack_prefix fixed nv t : forall st n,
  run_stack fixed nv (rev (prefix t)) st n =
  match decode_rec fixed nv t n with
  | Some (r, n') => Some (r :: st, n')
  | None => None
  end.
Proof.
  induction t as [ids| |s act|o l IHl r IHr]; intros st n; simpl; auto.
  rewrite rev_app_distr, <- app_assoc, run_stack_app, IHr.
  destruct (decode_rec fixed nv r n) as [[nr n1]|]; auto.
  rewrite run_stack_app, IHl.
  destruct (decode_rec fixed nv l n1) as [[nl n2]|]; auto.
  simpl. destruct (net_op fixed OPFUEL o nl nr); auto.
Qed.

(* ------------------------------------------------------------------ from the invariant to Valid *)
Lemma find_layer_none v hs s : ~ In v (concat hs) -> find_layer v hs s = None.
Proof.
  revert s. induction hs as [|L hs IH]; intros s H; simpl; auto.
  simpl in H. rewrite in_app_iff in H. destruct (mem v L) eqn:E.
  - apply mem_In in E. tauto.
  - apply IH. tauto.
Qed.
Lemma find_layer_nth v hs : NoDup (concat hs) -> forall i L s,
  nth_error hs i = Some L -> In v L -> find_layer v hs s = Some (s + i).
Proof.
  induction hs as [|H hs IH]; intros ND i L s Hi Hv.
  - destruct i; discriminate.
  - simpl in ND. apply NoDup_app_elim in ND. destruct ND as [N1 [N2 N3]].
    destruct i; simpl in *.
    + inversion Hi; subst. assert (E : mem v L = true) by (apply mem_In; auto).
      rewrite E. f_equal. lia.
    + destruct (mem v H) eqn:E.
      * apply mem_In in E. exfalso. apply (N3 v); auto.
        apply In_concat_nth. eauto.
      * rewrite (IH N2 i L (S s)); auto. f_equal. lia.
Qed.
Lemma level_rank_of n v k :
  NoDup (n_in n ++ hidden n ++ n_out n) -> level n v k -> rank_of n v = k.
Proof.
  intros ND H. apply NoDup_app_elim in ND. destruct ND as [N1 [N2 N3]].
  apply NoDup_app_elim in N2. destruct N2 as [N4 [N5 N6]].
  unfold rank_of. destruct H as [[-> H]|[[i [L [-> [Hi Hv]]]]|[-> H]]].
  - assert (E : mem v (n_in n) = true) by (apply mem_In; auto). rewrite E. auto.
  - assert (Hh : In v (hidden n)) by (apply In_concat_nth; eauto).
    assert (E : mem v (n_in n) = false).
    { apply mem_false. intro Hc. apply (N3 v); auto. apply in_app_iff; auto. }
    rewrite E. rewrite (find_layer_nth v (n_hid n) N4 i L 0); auto.
  - assert (E : mem v (n_in n) = false).
    { apply mem_false. intro Hc. apply (N3 v); auto. apply in_app_iff; auto. }
    rewrite E. rewrite find_layer_none; auto. intro Hc. apply (N6 v); auto.
Qed.
Lemma level_bound n v k : level n v k -> k <= S (length (n_hid n)).
Proof.
  intros [[-> H]|[[i [L [-> [Hi Hv]]]]|[-> H]]]; try lia.
  assert (i < length (n_hid n)) by (apply nth_error_Some; congruence). lia.
Qed.

Lemma LInv_sets nv n : LInv nv n -> NoDup (n_in n ++ hidden n ++ n_out n).
Proof.
  intros [a1 a2 a3 a4 a5 a6 a7 a8]. apply NoDup_app_intro; auto.
  intros x H1 H2. apply a1 in H1. apply a2 in H2. lia.
Qed.

Lemma LInv_Valid nv n :
  LInv nv n -> NoDup (n_con n) ->
  (forall v, In v (hidden n) \/ In v (n_out n) -> exists a, In (a, v) (n_con n)) ->
  (forall v, In v (hidden n) -> exists b, In (v, b) (n_con n)) ->
  Valid n.
Proof.
  intros I ND Hin Hout. pose proof (LInv_sets nv n I) as HS.
  destruct I as [a1 a2 a3 a4 a5 a6 a7 a8].
  constructor; auto.
  - exists (rank_of n). repeat split.
    + intros v Hv. apply level_rank_of; auto. left; auto.
    + intros i L v Hi Hv. apply level_rank_of; auto. right; left; eauto.
    + intros v Hv. apply level_rank_of; auto. right; right; auto.
    + destruct (a5 _ _ H) as [ka [kb [H1 [H2 H3]]]].
      rewrite (level_rank_of n a ka), (level_rank_of n b kb); auto.
    + destruct (a5 _ _ H) as [ka [kb [H1 [H2 H3]]]].
      pose proof (level_bound _ _ _ H2).
      destruct H1 as [[_ H1]|[[i [L [_ [Hi Hv]]]]|[-> _]]]; auto; try lia.
      right. apply In_concat_nth; eauto.
    + destruct (a5 _ _ H) as [ka [kb [H1 [H2 H3]]]].
      destruct H2 as [[-> _]|[[i [L [_ [Hi Hv]]]]|[_ H2]]]; auto; try lia.
      left. apply In_concat_nth; eauto.
  - split; auto. intro v. rewrite a8, in_app_iff. tauto.
Qed.

(* ------------------------------------------------------------------ the output layer *)
Lemma gt_to_out O act y : In y (gt_to (unit_out O act)) <-> In y O.
Proof. unfold gt_to. simpl. rewrite diff_In, union_In. simpl. tauto. Qed.

Lemma final_gt nv a n nout act :
  LInv nv a -> n_out a = [] -> (forall v, In v (hidden a) -> v < n) -> nv <= n -> 1 <= nout ->
  let r := gt_plain a (unit_out (seq n nout) act) in
  LInv nv r /\ n_in r = n_in a /\ n_hid r = n_hid a /\ n_out r = seq n nout /\
  (forall v, In v (hidden r) -> exists b, In (v, b) (n_con r)) /\
  (forall x o, In o (seq n nout) -> (In (x, o) (n_con r) <-> In x (gt_from a))).
Proof.
  intros Ia Oa Hlt Hn Hno r.
  assert (Ein : n_in r = n_in a).
  { unfold r. rewrite gt_plain_in. simpl. apply union_nil_r. }
  assert (Ehid : n_hid r = n_hid a).
  { unfold r. rewrite gt_plain_hid. simpl. apply app_nil_r. }
  assert (Eout : n_out r = seq n nout).
  { unfold r. rewrite gt_plain_out, Oa. simpl. apply union_nil_l. }
  assert (Econ : n_con r = n_con a ++ gt_new a (unit_out (seq n nout) act)).
  { unfold r. rewrite gt_plain_con. reflexivity. }
  assert (Hnew : forall x y, In (x, y) (gt_new a (unit_out (seq n nout) act)) <->
                             In x (gt_from a) /\ In y (seq n nout)).
  { intros x y. unfold gt_new. rewrite get_connect_In, gt_to_out. tauto. }
  assert (Hlev : forall v k, level a v k -> level r v k).
  { intros v k [[-> H]|[[i [L [-> [Hi Hv]]]]|[_ H]]].
    - left. rewrite Ein. auto.
    - right; left. exists i, L. rewrite Ehid. auto.
    - rewrite Oa in H. destruct H. }
  assert (Hhid : hidden r = hidden a) by (unfold hidden; rewrite Ehid; auto).
  pose proof Ia as Ia'. destruct Ia' as [a1 a2 a3 a4 a5 a6 a7 a8].
  rewrite Oa, app_nil_r in *.
  split; [|split; [auto|split; [auto|split; [auto|split]]]].
  - constructor; rewrite ?Ein, ?Hhid, ?Eout; auto.
    + intros v Hv. apply in_app_iff in Hv. destruct Hv as [Hv|Hv]; auto.
      apply in_seq in Hv. lia.
    + apply NoDup_app_intro; auto. apply seq_NoDup.
      intros x H1 H2. apply Hlt in H1. apply in_seq in H2. lia.
    + rewrite Econ. intros x y Hc. apply in_app_iff in Hc. destruct Hc as [Hc|Hc].
      * destruct (a5 _ _ Hc) as [ka [kb [H1 [H2 H3]]]]. exists ka, kb. auto.
      * apply Hnew in Hc. destruct Hc as [Hx Hy].
        apply gt_from_level in Hx. destruct Hx as [kx [Hx Hk]].
        exists kx, (S (length (n_hid r))). repeat split; auto.
        -- right; right. rewrite Eout. auto.
        -- rewrite Ehid. lia.
    + unfold r. rewrite gt_plain_nw, gt_plain_con. simpl. rewrite app_length. lia.
    + unfold r. rewrite gt_plain_act. apply amerge_NoDup; auto. simpl. rewrite unit_keys.
      apply seq_NoDup.
    + intro v. unfold r. rewrite gt_plain_act, amerge_In, a8. simpl. rewrite unit_keys, in_app_iff.
      tauto.
  - rewrite Hhid, Econ. intros v Hv.
    destruct (in_dec Nat.eq_dec v (map fst (n_con a))) as [Hs|Hs].
    + apply in_map_iff in Hs. destruct Hs as [[x y] [E Hc]]. simpl in E. subst x.
      exists y. apply in_app_iff; auto.
    + exists n. apply in_app_iff. right. apply Hnew. split.
      * unfold gt_from. apply diff_In. split; auto. apply union_In. right. apply assemble_In. auto.
      * apply in_seq. lia.
  - intros x o Ho. rewrite Econ, in_app_iff, Hnew. split.
    + intros [Hc|[Hx _]]; auto. exfalso.
      destruct (a5 _ _ Hc) as [ka [kb [H1 [H2 H3]]]].
      assert (Hh : In o (n_in a) \/ In o (hidden a)).
      { destruct H2 as [[_ H2]|[[i [L [_ [Hi Hv]]]]|[_ H2]]]; auto.
        - right. apply In_concat_nth; eauto.
        - rewrite Oa in H2. destruct H2. }
      apply in_seq in Ho. destruct Hh as [Hh|Hh]; [apply a1 in Hh|apply Hlt in Hh]; lia.
    + intro Hx. right. auto.
Qed.

(* ------------------------------------------------------------------ _fix *)
Definition fix_to (n : net) : list nat :=
  diff (union (assemble (n_hid n)) (n_out n)) (map snd (n_con n)).
Definition fix_ins (inputs : list nat) (n : net) : list nat :=
  if is_nil (n_in n) then inputs else n_in n.
Definition fix_pre (inputs : list nat) (n : net) : net :=
  if is_nil (fix_to n) then n
  else mkNet (fix_ins inputs n) (n_hid n) (n_out n)
             (n_con n ++ fst (get_connect (fix_ins inputs n) (fix_to n)))
             (n_nw n + snd (get_connect (fix_ins inputs n) (fix_to n))) (n_act n).
Definition dedup_net (n : net) : net :=
  mkNet (n_in n) (n_hid n) (n_out n) (sort_dedup (n_con n))
        (Nat.min (n_nw n) (length (sort_dedup (n_con n)))) (n_act n).
Lemma fix_net_eq inputs n : fix_net inputs n = dedup_net (fix_pre inputs n).
Proof.
  unfold fix_net, dedup_net, fix_pre, fix_to, fix_ins.
  destruct (is_nil (diff _ _)); [reflexivity|].
  destruct (get_connect _ _). reflexivity.
Qed.

Lemma fix_to_In n v : In v (fix_to n) <-> (In v (hidden n) \/ In v (n_out n)) /\ ~ In v (map snd (n_con n)).
Proof. unfold fix_to. rewrite diff_In, union_In, assemble_In. tauto. Qed.

Lemma fix_pre_LInv nv n :
  1 <= nv -> LInv nv n ->
  let m := fix_pre (seq 0 nv) n in
  LInv nv m /\ n_hid m = n_hid n /\ n_out m = n_out n /\ incl (n_con n) (n_con m) /\
  (forall v, In v (hidden m) \/ In v (n_out m) -> exists a, In (a, v) (n_con m)).
Proof.
  intros Hnv I m. unfold m, fix_pre. destruct (is_nil (fix_to n)) eqn:E.
  - apply is_nil_true in E. split; [auto|split; [auto|split; [auto|split; [apply incl_refl|]]]].
    intros v Hv. destruct (in_dec Nat.eq_dec v (map snd (n_con n))) as [Hs|Hs].
    + apply in_map_iff in Hs. destruct Hs as [[x y] [E' Hc]]. simpl in E'. subst y. eauto.
    + exfalso. assert (In v (fix_to n)) by (apply fix_to_In; auto). rewrite E in H. destruct H.
  - apply is_nil_false in E.
    set (ins := fix_ins (seq 0 nv) n).
    assert (Hins : forall v, In v (n_in n) -> In v ins).
    { unfold ins, fix_ins. destruct (n_in n); simpl; auto. intros v []. }
    assert (Hins_lt : forall v, In v ins -> v < nv).
    { unfold ins, fix_ins. destruct (is_nil (n_in n)).
      - intros v Hv. apply in_seq in Hv. lia.
      - apply (li_in _ _ I). }
    assert (Hins_nd : NoDup ins).
    { unfold ins, fix_ins. destruct (is_nil (n_in n)). apply seq_NoDup. apply (li_ndi _ _ I). }
    assert (Hins_ne : exists a, In a ins).
    { unfold ins, fix_ins. destruct (n_in n) as [|h t] eqn:En; simpl.
      - exists 0. apply in_seq. lia.
      - exists h. simpl; auto. }
    set (m' := mkNet ins (n_hid n) (n_out n) (n_con n ++ fst (get_connect ins (fix_to n)))
                     (n_nw n + snd (get_connect ins (fix_to n))) (n_act n)).
    assert (Hlev : forall v k, level n v k -> level m' v k).
    { intros v k [[-> H]|[H|H]].
      - left. split; simpl; auto.
      - right; left. exact H.
      - right; right. exact H. }
    destruct I as [a1 a2 a3 a4 a5 a6 a7 a8].
    split; [|split; [reflexivity|split; [reflexivity|split]]].
    + constructor; simpl; auto.
      * intros x y Hc. apply in_app_iff in Hc. destruct Hc as [Hc|Hc].
        -- destruct (a5 _ _ Hc) as [ka [kb [H1 [H2 H3]]]]. exists ka, kb. auto.
        -- apply get_connect_In in Hc. destruct Hc as [Hx Hy]. apply fix_to_In in Hy.
           destruct Hy as [[Hy|Hy] _].
           ++ apply In_concat_nth in Hy. destruct Hy as [j [L [Hj Hv]]].
              exists 0, (S j). repeat split; try lia.
              ** left. simpl. auto.
              ** right; left. simpl. eauto.
           ++ exists 0, (S (length (n_hid n))). repeat split; try lia.
              ** left. simpl. auto.
              ** right; right. simpl. auto.
      * rewrite app_length, get_connect_len. lia.
    + simpl. apply incl_appl, incl_refl.
    + simpl. intros v Hv. destruct (in_dec Nat.eq_dec v (map snd (n_con n))) as [Hs|Hs].
      * apply in_map_iff in Hs. destruct Hs as [[x y] [E' Hc]]. simpl in E'. subst y.
        exists x. apply in_app_iff; auto.
      * destruct Hins_ne as [a Ha]. exists a. apply in_app_iff. right.
        apply get_connect_In. split; auto. apply fix_to_In. auto.
Qed.

Lemma dedup_LInv nv n : LInv nv n -> LInv nv (dedup_net n).
Proof.
  intros [a1 a2 a3 a4 a5 a6 a7 a8]. constructor; simpl; auto.
  - intros x y Hc. rewrite sort_dedup_In in Hc. destruct (a5 _ _ Hc) as [ka [kb H]].
    exists ka, kb. exact H.
  - pose proof (sort_dedup_length (n_con n)). lia.
Qed.

(* Net._fix turns a net that satisfies the layering invariant and in which every hidden node
   already has an outgoing connection into a Valid net *)
Lemma fix_valid nv n :
  1 <= nv -> LInv nv n -> (forall v, In v (hidden n) -> exists b, In (v, b) (n_con n)) ->
  Valid (fix_net (seq 0 nv) n).
Proof.
  intros Hnv I Hout. rewrite fix_net_eq.
  destruct (fix_pre_LInv nv n Hnv I) as [I1 [Eh [Eo [Hincl Hin]]]].
  set (m := fix_pre (seq 0 nv) n) in *.
  apply (LInv_Valid nv).
  - apply dedup_LInv; auto.
  - simpl. apply sort_dedup_NoDup.
  - simpl. intros v Hv. destruct (Hin v Hv) as [a Ha]. exists a. apply sort_dedup_In; auto.
  - simpl. intros v Hv. unfold hidden in Hv. simpl in Hv. fold (hidden m) in Hv.
    assert (Hv' : In v (hidden n)) by (unfold hidden in *; rewrite <- Eh; auto).
    destruct (Hout v Hv') as [b Hb]. exists b. apply sort_dedup_In. apply Hincl. auto.
Qed.

Lemma fix_pre_con inputs n x y :
  In (x, y) (n_con (fix_pre inputs n)) <->
  In (x, y) (n_con n) \/ (In x (fix_ins inputs n) /\ In y (fix_to n)).
Proof.
  unfold fix_pre. destruct (is_nil (fix_to n)) eqn:E.
  - apply is_nil_true in E. rewrite E. simpl. tauto.
  - simpl. rewrite in_app_iff, get_connect_In. tauto.
Qed.
Lemma fix_pre_in inputs n :
  n_in (fix_pre inputs n) = n_in n \/ n_in (fix_pre inputs n) = fix_ins inputs n.
Proof. unfold fix_pre. destruct (is_nil (fix_to n)); simpl; auto. Qed.

(* what genotype_to_phenotype_tree returns, beyond Valid *)
Record Decoded (nv nout : nat) (r : net) : Prop := {
  d_valid   : Valid r;
  d_inputs  : forall v, In v (n_in r) -> v < nv;                 (* inputs are columns of X *)
  d_ids     : exists n', (forall v, In v (hidden r) <-> nv <= v < n') /\ n_out r = seq n' nout;
                                                                  (* ids contiguous from nv, outputs last *)
  d_sources : forall o1 o2 x, In o1 (n_out r) -> In o2 (n_out r) ->
                              In (x, o1) (n_con r) -> In (x, o2) (n_con r)
                                                                  (* all outputs share one source set *)
}.

Theorem decode_valid fixed nv nout oact t :
  1 <= nv -> 1 <= nout -> wf_tree nv t ->
  exists r, decode fixed nv nout oact t = Some r /\ Decoded nv nout r.
Proof.
  intros Hnv Hno Hwf. unfold decode, decode_nodes.
  rewrite run_stack_prefix.
  destruct (decode_rec_inv fixed nv t Hnv Hwf nv (le_n nv)) as [a [n' [E [Hle [Ia [Oa Hh]]]]]].
  rewrite E. simpl. rewrite net_op_out.
  set (g := gt_plain a (unit_out (seq n' nout) oact)).
  exists (fix_net (seq 0 nv) g). split; auto.
  destruct (final_gt nv a n' nout oact Ia Oa) as [Ig [Ein [Ehid [Eout [Hout Hsrc]]]]]; auto.
  { intros v Hv. apply Hh in Hv. lia. }
  fold g in Ig, Ein, Ehid, Eout, Hout, Hsrc.
  pose proof (fix_valid nv g Hnv Ig Hout) as HV.
  destruct (fix_pre_LInv nv g Hnv Ig) as [I1 [Eh1 [Eo1 _]]].
  rewrite fix_net_eq in *. set (m := fix_pre (seq 0 nv) g) in *.
  constructor; auto.
  - simpl. apply (li_in _ _ I1).
  - exists n'. simpl. split.
    + intro v. unfold hidden. simpl. rewrite Eh1, Ehid. apply Hh.
    + rewrite Eo1. auto.
  - simpl. intros o1 o2 x H1 H2 Hc. rewrite Eo1, Eout in H1, H2.
    rewrite sort_dedup_In in *. unfold m in *. rewrite fix_pre_con in *.
    assert (Ht : forall o, In o (seq n' nout) -> (In o (fix_to g) <-> gt_from a = [])).
    { intros o Ho. rewrite fix_to_In. split.
      - intros [_ Hn]. destruct (gt_from a) as [|x0 l] eqn:Ef; auto. exfalso. apply Hn.
        apply in_map_iff. exists (x0, o). split; auto. apply (proj2 (Hsrc x0 o Ho)). rewrite ?Ef. simpl; auto.
      - intro Ef. split.
        + right. rewrite Eout. auto.
        + intro Hs. apply in_map_iff in Hs. destruct Hs as [[x' y'] [E' Hc']]. simpl in E'. subst y'.
          apply (proj1 (Hsrc x' o Ho)) in Hc'. rewrite Ef in Hc'. destruct Hc'. }
    destruct Hc as [Hc|[Hx Hy]].
    + left. apply (proj2 (Hsrc x o2 H2)). apply (proj1 (Hsrc x o1 H1)). exact Hc.
    + right. split; auto. apply (proj2 (Ht o2 H2)). apply (proj1 (Ht o1 H1)). exact Hy.
Qed.

(* ------------------------------------------------------------------ the boolean form is sound *)
Lemma nodupb_NoDup l : nodupb l = true -> NoDup l.
Proof.
  induction l as [|h t IH]; simpl; intro H; constructor.
  - apply andb_true_iff in H. destruct H as [H _]. apply negb_true_iff, mem_false in H. auto.
  - apply IH. apply andb_true_iff in H. tauto.
Qed.
Lemma nodup_pairs_NoDup l : nodup_pairs l = true -> NoDup l.
Proof.
  induction l as [|h t IH]; simpl; intro H; constructor.
  - apply andb_true_iff in H. destruct H as [H _]. apply negb_true_iff in H. intro Hc.
    assert (existsb (pair_eqb h) t = true); [|congruence].
    apply existsb_exists. exists h. split; auto. apply pair_eqb_eq. auto.
  - apply IH. apply andb_true_iff in H. tauto.
Qed.

Theorem valid_b_sound n : valid_b n = true -> Valid n.
Proof.
  unfold valid_b. intro H.
  apply andb_true_iff in H; destruct H as [H A8].
  apply andb_true_iff in H; destruct H as [H A7].
  apply andb_true_iff in H; destruct H as [H A6].
  apply andb_true_iff in H; destruct H as [H A5].
  apply andb_true_iff in H; destruct H as [H A4].
  apply andb_true_iff in H; destruct H as [H A3].
  apply andb_true_iff in H; destruct H as [A1 A2].
  pose proof (nodupb_NoDup _ A1) as ND.
  assert (Hc : forall a b, In (a, b) (n_con n) ->
     rank_of n a < rank_of n b /\ (In a (n_in n) \/ In a (hidden n)) /\ (In b (hidden n) \/ In b (n_out n))).
  { intros a b Hab. rewrite forallb_forall in A3. specialize (A3 _ Hab). simpl in A3.
    apply andb_true_iff in A3; destruct A3 as [A3 B3].
    apply andb_true_iff in A3; destruct A3 as [B1 B2].
    apply Nat.ltb_lt in B1. apply orb_true_iff in B2. apply orb_true_iff in B3.
    rewrite !mem_In in B2. rewrite !mem_In in B3. auto. }
  constructor.
  - exact ND.
  - apply nodup_pairs_NoDup; auto.
  - exists (rank_of n). split; [|split; [|split]].
    + intros v Hv. apply level_rank_of; auto. left; auto.
    + intros i L v Hi Hv. apply level_rank_of; auto. right; left; eauto.
    + intros v Hv. apply level_rank_of; auto. right; right; auto.
    + exact Hc.
  - intros v Hv. rewrite forallb_forall in A4.
    assert (Hin : In v (hidden n ++ n_out n)) by (apply in_app_iff; auto).
    specialize (A4 _ Hin). apply existsb_exists in A4. destruct A4 as [[a b] [Hab E]].
    simpl in E. apply Nat.eqb_eq in E. subst. eauto.
  - intros v Hv. rewrite forallb_forall in A5. specialize (A5 _ Hv).
    apply existsb_exists in A5. destruct A5 as [[a b] [Hab E]].
    simpl in E. apply Nat.eqb_eq in E. subst. eauto.
  - apply Nat.eqb_eq; auto.
  - split. apply nodupb_NoDup; auto. intro v. rewrite set_eq_spec in A8. rewrite A8, in_app_iff. tauto.
Qed.

(* ------------------------------------------------------------------ consequences of Valid *)
Inductive reach (con : list (nat * nat)) : nat -> nat -> Prop :=
| reach_step a b : In (a, b) con -> reach con a b
| reach_trans a b c : In (a, b) con -> reach con b c -> reach con a c.

Lemma reach_rank n rank a b : rank_ok n rank -> reach (n_con n) a b -> rank a < rank b.
Proof.
  intros [_ [_ [_ R]]] H. induction H as [a b H|a b c H _ IH].
  - apply R; auto.
  - destruct (R a b H) as [H1 _]. lia.
Qed.
(* acyclic *)
Theorem valid_acyclic n : Valid n -> forall v, ~ reach (n_con n) v v.
Proof.
  intros V v H. destruct (v_rank n V) as [rank R].
  pose proof (reach_rank n rank v v R H). lia.
Qed.
(* every hidden node has a path to an output *)
Theorem valid_path_to_output n : Valid n ->
  forall v, In v (hidden n) -> exists o, In o (n_out n) /\ reach (n_con n) v o.
Proof.
  intros V. destruct (v_rank n V) as [rank R]. pose proof R as R'.
  destruct R' as [R1 [R2 [R3 R4]]].
  assert (Main : forall k v, In v (hidden n) -> S (length (n_hid n)) - rank v <= k ->
                             exists o, In o (n_out n) /\ reach (n_con n) v o).
  { induction k as [|k IH]; intros v Hv Hk.
    - exfalso. apply In_concat_nth in Hv. destruct Hv as [i [L [Hi Hv]]].
      rewrite (R2 i L v Hi Hv) in Hk.
      assert (i < length (n_hid n)) by (apply nth_error_Some; congruence). lia.
    - destruct (v_outgoing n V v Hv) as [b Hb]. destruct (R4 v b Hb) as [Hr [_ [Hh|Ho]]].
      + destruct (IH b Hh) as [o [Ho Hp]]; [lia|]. exists o. split; auto.
        eapply reach_trans; eauto.
      + exists b. split; auto. apply reach_step; auto. }
  intros v Hv. apply (Main (S (length (n_hid n)) - rank v)); auto.
Qed.
