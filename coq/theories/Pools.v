(* Pools.v — the operator pools of GeneticAlgorithm.__init__ as data (C06, C14).
   The *generated* tables (coq/gen/GenPools.v, re-extracted from the source AST on every run) are
   compared with the expected tables below: every pool name must be bound to the function and the
   parameter its name promises. *)
From TF Require Export Base.
From Coq Require Import String.
Open Scope string_scope.

Inductive param := PInt (z : Z) | PQ (q : Q) | PAttr (a : string).
Record entry := { e_name : string; e_fun : string; e_param : param; e_const : bool }.
Definition E (n f : string) (p : param) (c : bool) : entry :=
  {| e_name := n; e_fun := f; e_param := p; e_const := c |}.

Definition param_eqb (a b : param) : bool :=
  match a, b with
  | PInt x, PInt y => (x =? y)%Z
  | PQ x, PQ y => Qeq_bool x y
  | PInt x, PQ y | PQ y, PInt x => Qeq_bool (inject_Z x) y
  | PAttr x, PAttr y => String.eqb x y
  | _, _ => false
  end.
Definition entry_eqb (a b : entry) : bool :=
  String.eqb (e_name a) (e_name b) && String.eqb (e_fun a) (e_fun b) &&
  param_eqb (e_param a) (e_param b) && Bool.eqb (e_const a) (e_const b).

Fixpoint distinct_names (l : list entry) : bool :=
  match l with
  | [] => true
  | e :: t => negb (existsb (fun x => String.eqb (e_name x) (e_name e)) t) && distinct_names t
  end.
Definition table_ok (gen expected : list entry) : bool :=
  (List.length gen =? List.length expected)%nat && distinct_names gen &&
  forallb (fun e => existsb (entry_eqb e) expected) gen.

(* selection: name |-> (function, tournament size) *)
Definition expected_selection : list entry := [
  E "proportional" "proportional_selection" (PInt 0) false;
  E "rank" "rank_selection" (PInt 0) false;
  E "tournament_k" "tournament_selection" (PAttr "_tour_size") false;
  E "tournament_3" "tournament_selection" (PInt 3) false;
  E "tournament_5" "tournament_selection" (PInt 5) false;
  E "tournament_7" "tournament_selection" (PInt 7) false ].

(* crossover: name |-> (function, number of parents) *)
Definition expected_crossover : list entry := [
  E "empty" "empty_crossover" (PInt 1) false;
  E "one_point" "one_point_crossover" (PInt 2) false;
  E "two_point" "two_point_crossover" (PInt 2) false;
  E "uniform_2" "uniform_crossover" (PInt 2) false;
  E "uniform_7" "uniform_crossover" (PInt 7) false;
  E "uniform_k" "uniform_crossover" (PAttr "_parents_num") false;
  E "uniform_prop_2" "uniform_proportional_crossover" (PInt 2) false;
  E "uniform_prop_7" "uniform_proportional_crossover" (PInt 7) false;
  E "uniform_prop_k" "uniform_proportional_crossover" (PAttr "_parents_num") false;
  E "uniform_rank_2" "uniform_rank_crossover" (PInt 2) false;
  E "uniform_rank_7" "uniform_rank_crossover" (PInt 7) false;
  E "uniform_rank_k" "uniform_rank_crossover" (PAttr "_parents_num") false;
  E "uniform_tour_3" "uniform_tournament_crossover" (PInt 3) false;
  E "uniform_tour_7" "uniform_tournament_crossover" (PInt 7) false;
  E "uniform_tour_k" "uniform_tournament_crossover" (PAttr "_parents_num") false;
  E "gp_empty" "empty_crossoverGP" (PInt 1) false;
  E "gp_standard" "standard_crossover" (PInt 2) false;
  E "gp_one_point" "one_point_crossoverGP" (PInt 2) false;
  E "gp_uniform_2" "uniform_crossoverGP" (PInt 2) false;
  E "gp_uniform_7" "uniform_crossoverGP" (PInt 7) false;
  E "gp_uniform_k" "uniform_crossoverGP" (PAttr "_parents_num") false;
  E "gp_uniform_prop_2" "uniform_proportional_crossover_GP" (PInt 2) false;
  E "gp_uniform_prop_7" "uniform_proportional_crossover_GP" (PInt 7) false;
  E "gp_uniform_prop_k" "uniform_proportional_crossover_GP" (PAttr "_parents_num") false;
  E "gp_uniform_rank_2" "uniform_rank_crossover_GP" (PInt 2) false;
  E "gp_uniform_rank_7" "uniform_rank_crossover_GP" (PInt 7) false;
  E "gp_uniform_rank_k" "uniform_rank_crossover_GP" (PAttr "_parents_num") false;
  E "gp_uniform_tour_3" "uniform_tournament_crossover_GP" (PInt 3) false;
  E "gp_uniform_tour_7" "uniform_tournament_crossover_GP" (PInt 7) false;
  E "gp_uniform_tour_k" "uniform_tournament_crossover_GP" (PAttr "_parents_num") false ].

(* mutation: name |-> (function, k, constant-rate?)   rate = k if constant else k / len *)
Definition expected_mutation : list entry := [
  E "weak" "flip_mutation" (PQ (1 # 3)) false;
  E "average" "flip_mutation" (PInt 1) false;
  E "strong" "flip_mutation" (PInt 3) false;
  E "custom_rate" "flip_mutation" (PAttr "_mutation_rate") true;
  E "gp_weak_point" "point_mutation" (PQ (1 # 4)) false;
  E "gp_average_point" "point_mutation" (PInt 1) false;
  E "gp_strong_point" "point_mutation" (PInt 4) false;
  E "gp_custom_rate_point" "point_mutation" (PAttr "_mutation_rate") true;
  E "gp_weak_grow" "growing_mutation" (PQ (1 # 4)) false;
  E "gp_average_grow" "growing_mutation" (PInt 1) false;
  E "gp_strong_grow" "growing_mutation" (PInt 4) false;
  E "gp_custom_rate_grow" "growing_mutation" (PAttr "_mutation_rate") true;
  E "gp_weak_swap" "swap_mutation" (PQ (1 # 4)) false;
  E "gp_average_swap" "swap_mutation" (PInt 1) false;
  E "gp_strong_swap" "swap_mutation" (PInt 4) false;
  E "gp_custom_rate_swap" "swap_mutation" (PAttr "_mutation_rate") true;
  E "gp_weak_shrink" "shrink_mutation" (PQ (1 # 4)) false;
  E "gp_average_shrink" "shrink_mutation" (PInt 1) false;
  E "gp_strong_shrink" "shrink_mutation" (PInt 4) false;
  E "gp_custom_rate_shrink" "shrink_mutation" (PAttr "_mutation_rate") true ].

Definition lookup (n : string) (t : list entry) : option entry :=
  find (fun e => String.eqb (e_name e) n) t.
