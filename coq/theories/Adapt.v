(* Adapt.v — adaptive control parameters of SHADE, SHAGA and jDE (C15).
   Sources: optimizers/_shade.py (randc01, randn01, lehmer_mean, _generate_F_CR, _update_u_F,
   _update_u_CR, _append_archive, memory write in _get_new_population), optimizers/_shaga.py
   (_randc, _randn, _generate_MR_CR, _update_u), optimizers/_jde.py (_get_mutate_F, _get_mutate_CR,
   accept-only write in _get_new_population).
   A real-valued primitive result (loc + scale*cauchy, normal(loc, scale), uniform(0,1)) is a DX draw:
   the value the primitive returned, after the affine arithmetic. *)
From TF Require Export Base RandomPrims.
Open Scope Q_scope.

Fixpoint qsum (l : list Q) : Q := match l with [] => 0 | x :: t => x + qsum t end.
Definition clamp01 (v : Q) : Q := if Qltb v 0 then 0 else if Qltb 1 v then 1 else v.

(* ---- SHADE: randc01 (redraw while <= 0, cut at 1), randn01 (clamp to [0,1]) ---- *)
Fixpoint randc01 (ds : list draw) : option (Q * list draw) :=
  match ds with
  | DX v :: r => if Qle_bool v 0 then randc01 r else Some (if Qltb 1 v then 1 else v, r)
  | _ => None
  end.
Definition randn01 : M Q := v <- popX ;; ret (clamp01 v).

(* ---- SHAGA: _randc (redraw while <= 0 or > hi, hi = 5/str_len), _randn (clamp to [0,1]) ---- *)
Fixpoint randc_hi (hi : Q) (ds : list draw) : option (Q * list draw) :=
  match ds with
  | DX v :: r => if Qle_bool v 0 || Qltb hi v then randc_hi hi r else Some (v, r)
  | _ => None
  end.

(* ---- one (F, CR) / (MR, CR) pair per individual: memory cell r_i = randint(0,H,1)[0] ---- *)
Fixpoint gen_pairs (first : list draw -> option (Q * list draw)) (n : nat) (H : Z) : M (list (Z * Q * Q)) :=
  match n with
  | O => ret []
  | S k => r <- randint 0 H 1 ;; a <- first ;; b <- randn01 ;; rest <- gen_pairs first k H ;;
           ret ((nth 0 r 0%Z, a, b) :: rest)
  end.
Definition shade_generate (pop : nat) (H : Z) := gen_pairs randc01 pop H.
Definition shaga_generate (hi : Q) (pop : nat) (H : Z) := gen_pairs (randc_hi hi) pop H.

(* ---- means ---- *)
Definition wsum (w x : list Q) : Q := qsum (map (fun p => fst p * snd p) (combine w x)).
Definition sq (l : list Q) : list Q := map (fun x => x * x) l.
(* lehmer_mean(x, power=2, weight): sum(w x^2)/sum(w x); repaired: 0 when the denominator is 0 *)
Definition lehmer (w x : list Q) : Q :=
  if Qeq_bool (wsum w x) 0 then 0 else wsum w (sq x) / wsum w x.
Definition ones (n : nat) : list Q := repeat 1 n.
Definition weights (df : list Q) : list Q := map (fun d => d / qsum df) df.

(* SHADE._update_u_F / _update_u_CR, SHAGA._update_u *)
Definition shade_update_F (u : Q) (S : list Q) : Q :=
  match S with [] => u | _ => lehmer (ones (length S)) S end.
Definition shade_update_CR (u : Q) (S df : list Q) : Q :=
  match S with [] => u | _ => if Qltb 0 (qsum df) then wsum (weights df) S else u end.
Definition shaga_update (u : Q) (S df : list Q) : Q :=
  match S with [] => u | _ => if Qltb 0 (qsum df) then lehmer (weights df) S else u end.

(* memory write: cell next_k = (k+1) mod H gets the new mean (from cell k), k advances cyclically *)
Definition next_k (k H : nat) : nat := if (S k =? H)%nat then O else S k.
Record memory := { mem_a : list Q; mem_b : list Q; mem_k : nat }.
Definition mem_write (upd_a upd_b : Q -> Q) (m : memory) : memory :=
  let H := length (mem_a m) in
  let nk := next_k (mem_k m) H in
  {| mem_a := upd (mem_a m) nk (upd_a (nth (mem_k m) (mem_a m) 0));
     mem_b := upd (mem_b m) nk (upd_b (nth (mem_k m) (mem_b m) 0));
     mem_k := nk |}.
(* successes = trials strictly better than their parents; df = |parent - trial| *)
Definition successful {A} (par trial : list Q) (xs : list A) : list A :=
  map snd (filter (fun p => Qltb (fst (fst p)) (snd (fst p))) (combine (combine par trial) xs)).
Definition improvements (par trial : list Q) : list Q :=
  map (fun p => Qabs (fst p - snd p)) (filter (fun p => Qltb (fst p) (snd p)) (combine par trial)).
Definition shade_memory_step (m : memory) (par trial F CR : list Q) : memory :=
  mem_write (fun u => shade_update_F u (successful par trial F))
            (fun u => shade_update_CR u (successful par trial CR) (improvements par trial)) m.
Definition shaga_memory_step (m : memory) (par trial MR CR : list Q) : memory :=
  mem_write (fun u => shaga_update u (successful par trial MR) (improvements par trial))
            (fun u => shaga_update u (successful par trial CR) (improvements par trial)) m.

(* ---- SHADE archive: append the replaced parents; if too long: Sattolo shuffle, keep pop_size ---- *)
Definition append_archive {A} (d : A) (pop_size : nat) (archive worse : list A) : M (list A) :=
  let a := archive ++ worse in
  if (pop_size <? length a)%nat then s <- sattolo d a ;; ret (firstn pop_size s) else ret a.

(* ---- jDE ---- *)
Fixpoint popXs (n : nat) : M (list Q) :=
  match n with O => ret [] | S k => v <- popX ;; r <- popXs k ;; ret (v :: r) end.
(* mask = uniform(0,1,pop) < t ; values = uniform(0,1,sum(mask)); new[mask] = f(value) *)
Fixpoint scatter (f : Q -> Q) (mask : list bool) (old vals : list Q) : list Q :=
  match mask, old with
  | true :: ms, _ :: os => match vals with v :: vs => f v :: scatter f ms os vs | [] => old end
  | false :: ms, o :: os => o :: scatter f ms os vals
  | _, _ => old
  end.
Definition jde_mutate (f : Q -> Q) (t : Q) (old : list Q) : M (list Q) :=
  us <- popXs (length old) ;;
  let mask := map (fun u => Qltb u t) us in
  vs <- popXs (length (filter (fun b => b) mask)) ;;
  ret (scatter f mask old vs).
Definition jde_mutate_F (F_min F_max t : Q) (old : list Q) := jde_mutate (fun r => F_min + r * F_max) t old.
Definition jde_mutate_CR (t : Q) (old : list Q) := jde_mutate (fun r => r) t old.
(* accept-only: an individual's parameter changes only when its trial is accepted (trial >= parent) *)
Fixpoint accept_only (par trial old new : list Q) : list Q :=
  match par, trial, old, new with
  | p :: ps, t :: ts, o :: os, n :: ns => (if Qle_bool p t then n else o) :: accept_only ps ts os ns
  | _, _, _, _ => old
  end.
