(* EAStoreProofs.v — non-interference in the aliasing model (C01 last clause, C17). *)
From TF Require Import Base EAStore.

Section Proofs.
Variable V : Type.
Variable dflt : V.
Notation st := (st V).
Notation step := (step V dflt).
Notation run := (run V dflt).
Notation rd := (rd V dflt).
Notation wf := (wf V).

Lemma rd_app_old (s : store V) v l : (l < length s)%nat -> rd (s ++ v) l = rd s l.
Proof. intros H. unfold EAStore.rd. now rewrite app_nth1. Qed.

Lemma alloc_all_spec : forall vs (s s' : store V) ls, alloc_all V s vs = (s', ls) ->
  s' = s ++ vs /\ ls = seq (length s) (length vs).
Proof.
  induction vs as [|v vs IH]; intros s s' ls H; cbn [alloc_all] in H.
  - inversion H; subst. split; [now rewrite app_nil_r|reflexivity].
  - unfold alloc in H. destruct (alloc_all V (s ++ [v]) vs) as [s2 ls2] eqn:E. inversion H; subst.
    destruct (IH _ _ _ E) as (H1 & H2). split.
    + rewrite H1, <- app_assoc. reflexivity.
    + rewrite H2, app_length. cbn [length seq]. f_equal. f_equal. lia.
Qed.

Lemma rd_wr_other (s : store V) l l' v : l <> l' -> rd (wr V s l v) l' = rd s l'.
Proof. intros H. unfold EAStore.rd, wr. apply nth_upd_neq. auto. Qed.

Lemma wr_length (s : store V) l v : length (wr V s l v) = length s.
Proof. apply upd_length. Qed.

Lemma in_seq_fresh n len l : In l (seq n len) -> (n <= l)%nat.
Proof. intros H. apply in_seq in H. lia. Qed.

(* ---- the frame property: one step never changes the contents of the record, of any history entry,
        or of any caller-owned object *)
Theorem step_frame (s : st) o l : wf s -> In l (rcd V s ++ hist V s ++ caller V s) ->
  rd (heap V (step s o)) l = rd (heap V s) l.
Proof.
  intros (Hal & Dr & Dh & Dc & Dt & Tr & Th & Tc) Hin.
  assert (Hl : (l < length (heap V s))%nat).
  { apply Hal. apply in_or_app; right.
    apply in_app_or in Hin; destruct Hin as [H|H]; [apply in_or_app; left; auto|]. apply in_or_app; right.
    apply in_app_or in H; destruct H as [H|H]; [apply in_or_app; left; auto|]. apply in_or_app; right.
    apply in_or_app; left; auto. }
  assert (Hnp : ~ In l (pop V s)).
  { intro Hp. apply in_app_or in Hin. destruct Hin as [Hin|Hin]; [apply (Dr l Hp Hin)|].
    apply in_app_or in Hin. destruct Hin as [Hin|Hin]; [apply (Dh l Hp Hin)|apply (Dc l Hp Hin)]. }
  assert (Hnt : ~ In l (ret V s)).
  { intro Hp. apply in_app_or in Hin. destruct Hin as [Hin|Hin]; [apply (Tr l Hp Hin)|].
    apply in_app_or in Hin. destruct Hin as [Hin|Hin]; [apply (Th l Hp Hin)|apply (Tc l Hp Hin)]. }
  destruct o as [vals| |i v| |i| | |k v]; cbn [EAStore.step].
  - destruct (alloc_all V (heap V s) vals) as [h ls] eqn:E. cbn [heap]. destruct (alloc_all_spec _ _ _ _ E) as (-> & _). now apply rd_app_old.
  - destruct (alloc_all V (heap V s) _) as [h ls] eqn:E. cbn [heap]. destruct (alloc_all_spec _ _ _ _ E) as (-> & _). now apply rd_app_old.
  - destruct (nth_error (pop V s) i) as [l0|] eqn:E; [|reflexivity]. cbn [heap]. apply rd_wr_other.
    intro Hc. subst. apply Hnp. eapply nth_error_In; eauto.
  - destruct (rcd V s) as [|r rs]; [reflexivity|]. destruct (rev (pop V s)) as [|l0 ls] eqn:E; [reflexivity|]. cbn [heap].
    apply rd_wr_other. intro Hc. subst. apply Hnp. apply in_rev. rewrite E. left. reflexivity.
  - destruct (nth_error (pop V s) i) as [l0|] eqn:E; [|reflexivity]. unfold alloc. cbn [heap]. now apply rd_app_old.
  - destruct (alloc_all V (heap V s) _) as [h ls] eqn:E. cbn [heap]. destruct (alloc_all_spec _ _ _ _ E) as (-> & _). now apply rd_app_old.
  - destruct (alloc_all V (heap V s) _) as [h ls] eqn:E. cbn [heap]. destruct (alloc_all_spec _ _ _ _ E) as (-> & _). now apply rd_app_old.
  - destruct (nth_error (ret V s) k) as [l0|] eqn:E; [|reflexivity]. cbn [heap]. apply rd_wr_other.
    intro Hc. subst. apply Hnt. eapply nth_error_In; eauto.
Qed.

(* ---- well-formedness is preserved: fresh locations are fresh *)
Lemma disjoint_fresh (a : list loc) n len : (forall l, In l a -> (l < n)%nat) -> disjoint a (seq n len) /\ disjoint (seq n len) a.
Proof.
  intros H. split; intros l Hl Hc.
  - apply in_seq in Hc. specialize (H l Hl). lia.
  - apply in_seq in Hl. specialize (H l Hc). lia.
Qed.

Theorem step_wf (s : st) o : wf s -> wf (step s o).
Proof.
  intros (Hal & Dr & Dh & Dc & Dt & Tr & Th & Tc).
  assert (Hb : forall (part : list loc), incl part (pop V s ++ rcd V s ++ hist V s ++ caller V s ++ ret V s) -> forall l, In l part -> (l < length (heap V s))%nat).
  { intros part Hi l Hl. apply Hal. apply Hi. exact Hl. }
  assert (Ip : incl (pop V s) (pop V s ++ rcd V s ++ hist V s ++ caller V s ++ ret V s)) by (intros l Hl; apply in_or_app; auto).
  assert (Ir : incl (rcd V s) (pop V s ++ rcd V s ++ hist V s ++ caller V s ++ ret V s)) by (intros l Hl; apply in_or_app; right; apply in_or_app; auto).
  assert (Ih : incl (hist V s) (pop V s ++ rcd V s ++ hist V s ++ caller V s ++ ret V s)) by (intros l Hl; apply in_or_app; right; apply in_or_app; right; apply in_or_app; auto).
  assert (Ic : incl (caller V s) (pop V s ++ rcd V s ++ hist V s ++ caller V s ++ ret V s)) by (intros l Hl; apply in_or_app; right; apply in_or_app; right; apply in_or_app; right; apply in_or_app; auto).
  assert (It : incl (ret V s) (pop V s ++ rcd V s ++ hist V s ++ caller V s ++ ret V s)) by (intros l Hl; apply in_or_app; right; apply in_or_app; right; apply in_or_app; right; apply in_or_app; auto).
  pose proof (Hb _ Ip) as Bp. pose proof (Hb _ Ir) as Br. pose proof (Hb _ Ih) as Bh. pose proof (Hb _ Ic) as Bc. pose proof (Hb _ It) as Bt.
  assert (Hall5 : forall (h : store V) p r hi c t,
            (forall l, In l p -> (l < length h)%nat) -> (forall l, In l r -> (l < length h)%nat) -> (forall l, In l hi -> (l < length h)%nat) ->
            (forall l, In l c -> (l < length h)%nat) -> (forall l, In l t -> (l < length h)%nat) ->
            forall l, In l (p ++ r ++ hi ++ c ++ t) -> (l < length h)%nat).
  { intros h p r hi c t H1 H2 H3 H4 H5 l Hl. repeat (apply in_app_or in Hl; destruct Hl as [Hl|Hl]; auto). }
  destruct o as [vals| |i v| |i| | |k v]; cbn [EAStore.step].
  - destruct (alloc_all V (heap V s) vals) as [h ls] eqn:E. destruct (alloc_all_spec _ _ _ _ E) as (-> & ->).
    unfold EAStore.wf. cbn [heap pop rcd hist caller ret].
    assert (Hgrow : forall l, (l < length (heap V s))%nat -> (l < length (heap V s ++ vals))%nat) by (intros; rewrite app_length; lia).
    split; [apply Hall5; auto; intros l Hl; apply in_seq in Hl; rewrite app_length; lia|].
    destruct (disjoint_fresh (rcd V s) (length (heap V s)) (length vals) Br) as (_ & A1).
    destruct (disjoint_fresh (hist V s) (length (heap V s)) (length vals) Bh) as (_ & A2).
    destruct (disjoint_fresh (caller V s) (length (heap V s)) (length vals) Bc) as (_ & A3).
    destruct (disjoint_fresh (ret V s) (length (heap V s)) (length vals) Bt) as (_ & A4).
    repeat split; auto.
  - destruct (alloc_all V (heap V s) _) as [h ls] eqn:E. destruct (alloc_all_spec _ _ _ _ E) as (-> & ->).
    unfold EAStore.wf. cbn [heap pop rcd hist caller ret]. rewrite map_length.
    assert (Hgrow : forall l, (l < length (heap V s))%nat -> (l < length (heap V s ++ map (rd (heap V s)) (caller V s)))%nat) by (intros; rewrite app_length; lia).
    split; [apply Hall5; auto; intros l Hl; apply in_seq in Hl; rewrite app_length, map_length; lia|].
    destruct (disjoint_fresh (rcd V s) (length (heap V s)) (length (caller V s)) Br) as (_ & A1).
    destruct (disjoint_fresh (hist V s) (length (heap V s)) (length (caller V s)) Bh) as (_ & A2).
    destruct (disjoint_fresh (caller V s) (length (heap V s)) (length (caller V s)) Bc) as (_ & A3).
    destruct (disjoint_fresh (ret V s) (length (heap V s)) (length (caller V s)) Bt) as (_ & A4).
    repeat split; auto.
  - destruct (nth_error (pop V s) i); [|repeat split; auto]. unfold EAStore.wf. cbn [heap pop rcd hist caller ret]. rewrite wr_length. repeat split; auto.
  - destruct (rcd V s) as [|r rs] eqn:Er; [rewrite <- Er in *; repeat split; auto|].
    destruct (rev (pop V s)); [rewrite <- Er in *; repeat split; auto|].
    unfold EAStore.wf. cbn [heap pop rcd hist caller ret]. rewrite wr_length. rewrite <- Er in *. repeat split; auto.
  - destruct (nth_error (pop V s) i) as [l0|]; [|repeat split; auto]. unfold alloc, EAStore.wf. cbn [heap pop rcd hist caller ret].
    assert (Hgrow : forall l, (l < length (heap V s))%nat -> (l < length (heap V s ++ [rd (heap V s) l0]))%nat) by (intros; rewrite app_length; simpl; lia).
    split; [apply Hall5; auto; intros l [<-|[]]; rewrite app_length; simpl; lia|].
    assert (Fp : ~ In (length (heap V s)) (pop V s)) by (intro Hc; specialize (Bp _ Hc); lia).
    assert (Ft : ~ In (length (heap V s)) (ret V s)) by (intro Hc; specialize (Bt _ Hc); lia).
    repeat split; auto.
    + intros l Hl [<-|[]]. auto.
    + intros l Hl [<-|[]]. auto.
  - destruct (alloc_all V (heap V s) _) as [h ls] eqn:E. destruct (alloc_all_spec _ _ _ _ E) as (-> & ->).
    unfold EAStore.wf. cbn [heap pop rcd hist caller ret]. rewrite map_length.
    assert (Hgrow : forall l, (l < length (heap V s))%nat -> (l < length (heap V s ++ map (rd (heap V s)) (pop V s)))%nat) by (intros; rewrite app_length; lia).
    split.
    { apply Hall5; auto. intros l Hl. apply in_app_or in Hl. destruct Hl as [Hl|Hl]; auto. apply in_seq in Hl. rewrite app_length, map_length. lia. }
    destruct (disjoint_fresh (pop V s) (length (heap V s)) (length (pop V s)) Bp) as (A1 & _).
    destruct (disjoint_fresh (ret V s) (length (heap V s)) (length (pop V s)) Bt) as (A2 & _).
    repeat split; auto.
    + intros l Hl Hc. apply in_app_or in Hc. destruct Hc as [Hc|Hc]; [apply (Dh l Hl Hc)|apply (A1 l Hl Hc)].
    + intros l Hl Hc. apply in_app_or in Hc. destruct Hc as [Hc|Hc]; [apply (Th l Hl Hc)|apply (A2 l Hl Hc)].
  - destruct (alloc_all V (heap V s) _) as [h ls] eqn:E. destruct (alloc_all_spec _ _ _ _ E) as (-> & ->).
    unfold EAStore.wf. cbn [heap pop rcd hist caller ret]. rewrite map_length.
    assert (Hgrow : forall l, (l < length (heap V s))%nat -> (l < length (heap V s ++ map (rd (heap V s)) (rcd V s)))%nat) by (intros; rewrite app_length; lia).
    split.
    { apply Hall5; auto. intros l Hl. apply in_app_or in Hl. destruct Hl as [Hl|Hl]; auto. apply in_seq in Hl. rewrite app_length, map_length. lia. }
    destruct (disjoint_fresh (pop V s) (length (heap V s)) (length (rcd V s)) Bp) as (A1 & _).
    destruct (disjoint_fresh (rcd V s) (length (heap V s)) (length (rcd V s)) Br) as (_ & A2).
    destruct (disjoint_fresh (hist V s) (length (heap V s)) (length (rcd V s)) Bh) as (_ & A3).
    destruct (disjoint_fresh (caller V s) (length (heap V s)) (length (rcd V s)) Bc) as (_ & A4).
    repeat split; auto.
    + intros l Hl Hc. apply in_app_or in Hc. destruct Hc as [Hc|Hc]; [apply (Dt l Hl Hc)|apply (A1 l Hl Hc)].
    + intros l Hl Hc. apply in_app_or in Hl. destruct Hl as [Hl|Hl]; [apply (Tr l Hl Hc)|apply (A2 l Hl Hc)].
    + intros l Hl Hc. apply in_app_or in Hl. destruct Hl as [Hl|Hl]; [apply (Th l Hl Hc)|apply (A3 l Hl Hc)].
    + intros l Hl Hc. apply in_app_or in Hl. destruct Hl as [Hl|Hl]; [apply (Tc l Hl Hc)|apply (A4 l Hl Hc)].
  - destruct (nth_error (ret V s) k); [|repeat split; auto]. unfold EAStore.wf. cbn [heap pop rcd hist caller ret]. rewrite wr_length. repeat split; auto.
Qed.

Lemma run_wf ops : forall s, wf s -> wf (run s ops).
Proof. unfold EAStore.run. induction ops as [|o ops IH]; intros s H; cbn [fold_left]; auto. apply IH. apply step_wf; auto. Qed.

(* the history only grows; caller-owned objects stay the same objects *)
Lemma step_hist_caller (s : st) o : (exists ext, hist V (step s o) = hist V s ++ ext) /\ caller V (step s o) = caller V s.
Proof.
  destruct o as [vals| |i v| |i| | |k v]; cbn [EAStore.step];
    repeat match goal with |- context [match ?x with _ => _ end] => destruct x end;
    cbn [hist caller]; split; auto; try (exists []; now rewrite app_nil_r); eauto.
Qed.

(* ---- C17: a history entry, once recorded, is never altered; caller inputs are never modified *)
Theorem history_immutable ops : forall (s : st) l, wf s -> In l (hist V s ++ caller V s) ->
  In l (hist V (run s ops) ++ caller V (run s ops)) /\ rd (heap V (run s ops)) l = rd (heap V s) l.
Proof.
  unfold EAStore.run. induction ops as [|o ops IH]; intros s l Hw Hin; cbn [fold_left]; [auto|].
  destruct (step_hist_caller s o) as ((ext & Hh) & Hc).
  assert (Hin' : In l (hist V (step s o) ++ caller V (step s o))).
  { rewrite Hh, Hc. apply in_app_or in Hin. destruct Hin; apply in_or_app; [left; apply in_or_app; auto|auto]. }
  destruct (IH (step s o) l (step_wf s o Hw) Hin') as (H1 & H2). split; auto. rewrite H2.
  apply step_frame; auto. apply in_or_app. right. exact Hin.
Qed.

(* ---- C01: as long as the record is not replaced, no population write (greedy, elitism, new
        population), no snapshot, no get and no caller-side write changes the reported triple *)
Definition no_replace (o : op V) : bool := match o with ReplaceRecord _ _ => false | _ => true end.

Theorem record_private ops : forall (s : st), wf s -> forallb no_replace ops = true ->
  rcd V (run s ops) = rcd V s /\ forall l, In l (rcd V s) -> rd (heap V (run s ops)) l = rd (heap V s) l.
Proof.
  unfold EAStore.run. induction ops as [|o ops IH]; intros s Hw Hn; cbn [fold_left]; [auto|].
  cbn [forallb] in Hn. apply andb_true_iff in Hn. destruct Hn as (Ho & Hn).
  assert (Hr : rcd V (step s o) = rcd V s).
  { destruct o as [vals| |i v| |i| | |k v]; cbn [EAStore.step]; try discriminate.
    - destruct (alloc_all V (heap V s) vals); reflexivity.
    - destruct (alloc_all V (heap V s) _); reflexivity.
    - destruct (nth_error (pop V s) i); reflexivity.
    - destruct (rcd V s) eqn:Er; [auto|]. destruct (rev (pop V s)); [auto|]. cbn [rcd]. auto.
    - destruct (alloc_all V (heap V s) _); reflexivity.
    - destruct (alloc_all V (heap V s) _); reflexivity.
    - destruct (nth_error (ret V s) k); reflexivity. }
  destruct (IH (step s o) (step_wf s o Hw) Hn) as (H1 & H2). split; [congruence|].
  intros l Hl. rewrite H2 by (rewrite Hr; auto). apply step_frame; auto. apply in_or_app. left. exact Hl.
Qed.

(* a replaced record is a fresh copy: it never aliases the population row it was copied from *)
Theorem replace_is_fresh (s : st) i l : wf s -> nth_error (pop V s) i = Some l ->
  rcd V (step s (ReplaceRecord V i)) = [length (heap V s)] /\ ~ In (length (heap V s)) (pop V s) /\
  rd (heap V (step s (ReplaceRecord V i))) (length (heap V s)) = rd (heap V s) l.
Proof.
  intros (Hal & _) E. cbn [EAStore.step]. rewrite E. unfold alloc. cbn [rcd heap]. split; [reflexivity|]. split.
  - intro Hc. assert (length (heap V s) < length (heap V s))%nat by (apply Hal; apply in_or_app; auto). lia.
  - unfold EAStore.rd. rewrite app_nth2 by lia. rewrite Nat.sub_diag. reflexivity.
Qed.

(* get_fittest(): the caller may overwrite what it received; the record does not change *)
Theorem get_isolated (s : st) k v : wf s ->
  let s1 := step s (Get V) in
  forall l, In l (rcd V s) -> rd (heap V (step s1 (CallerWrite V k v))) l = rd (heap V s) l.
Proof.
  intros Hw s1 l Hl.
  assert (Hr : rcd V s1 = rcd V s).
  { unfold s1. cbn [EAStore.step]. destruct (alloc_all V (heap V s) _). reflexivity. }
  rewrite step_frame; [|apply step_wf; auto|rewrite Hr; apply in_or_app; auto].
  apply step_frame; auto. apply in_or_app. auto.
Qed.

End Proofs.
