(* CodeEqStep.v — the generation step and the whole generation loop of the base class (generational family, serial
   evaluation): `EALoop.step` / `EALoop.fit` simulate the definitions generated from
   EvolutionaryAlgorithm._get_fitness / _update_fittest / _update_stats / _update_data / _from_population_g_to_fitness / fit
   (coq/gen/GenLoop.v), on every field the code keeps: population triples, record, stagnation counter, call counter,
   history, callback count. *)
From TF Require Import Py PyLemmas EALoop EALoopProofs EALoopProofs2 CodeEqLoop.
From TFG Require Import GenLoop.
Open Scope Z_scope.

Section Step.
Variables G P : Type.
Variables (dG : G) (dP : P).
Variable g2p : G -> P.                  (* genotype_to_phenotype, per individual *)
Variable f : P -> Q.                    (* the objective, per individual *)
Variable par_value : EvolutionaryAlgorithm G P -> list P -> list Q.     (* joblib branch: not taken (n_jobs <= 1) *)
Let indiv := indiv G P.
Let EA := EvolutionaryAlgorithm G P.

Definition ff (ph : list P) : list Q := map f ph.
Definition getph (_ : EA) (gs : list G) : list P := map g2p gs.
Definition upd_data := py_EvolutionaryAlgorithm__update_data G P dG dP.
Definition from_pop := py_EvolutionaryAlgorithm__from_population_g_to_fitness G P ff par_value getph upd_data.

(* normalised fitness for the sign stored in the object *)
Definition nf_of (self : EA) (p : P) : Q := (ZtoQ (ea_sign G P self) * f p)%Q.

(* what a history entry means in the model *)
Definition entry_of (s : snapshot G P) : StatsEntry G P :=
  let m := match s_max s with Some m => m | None => {| ig := dG; iph := dP; ifit := 0%Q |} end in
  {| se_fitness := map ifit (s_pop s); se_population_g := map ig (s_pop s); se_population_ph := map iph (s_pop s);
     se_max_fitness := ifit m; se_max_g := ig m; se_max_ph := iph m |}.

(* the code's state against the model's state *)
Record sim (self : EA) (st : state G P) : Prop := {
  sim_g : ea_population_g_i G P self = map ig (pop st);
  sim_ph : ea_population_ph_i G P self = map iph (pop st);
  sim_fit : ea_fitness_i G P self = map ifit (pop st);
  sim_best : abs_best G P (ea_thefittest G P self) = best st;
  sim_fin : tf_fitness G P (ea_thefittest G P self) <> PosInf;
  sim_cnt : tf_no_update_counter G P (ea_thefittest G P self) = Z.of_nat (counter st);
  sim_calls : ea_calls G P self = Z.of_nat (calls st);
  sim_hist : ea_stats G P self = map entry_of (hist st);
  sim_cb : snd (ea_on_generation G P self) = Z.of_nat (callbacks st)
}.

Definition set_pop_g (self : EA) (gs : list G) : EA := set_ea_population_g_i G P gs self.

Lemma smul_map s (l : list Q) : smul s l = map (fun x => (s * x)%Q) l.
Proof. reflexivity. Qed.

Lemma removelast_map {A B} (h : A -> B) (l : list A) : removelast (map h l) = map h (removelast l).
Proof. induction l as [|a [|b t] IH]; simpl; auto. simpl in IH. now rewrite IH. Qed.

Lemma py_set_last_map {A B} (h : A -> B) (l : list A) (x : A) :
  Py.set_last (map h l) (h x) = map h (match l with [] => [] | _ => removelast l ++ [x] end).
Proof.
  destruct l as [|a t]; [reflexivity|]. unfold Py.set_last.
  change (map h (a :: t)) with (h a :: map h t) at 1.
  rewrite map_app. cbn [map]. f_equal. apply (removelast_map h (a :: t)).
Qed.

Ltac proj := cbn [set_ea_iters set_ea_pop_size set_ea_sign set_ea_aim set_ea_calls set_ea_no_increase_num set_ea_thefittest
                  set_ea_elitism set_ea_keep_history set_ea_n_jobs set_ea_population_g_i set_ea_population_ph_i set_ea_fitness_i
                  set_ea_stats set_ea_on_generation
                  ea_iters ea_pop_size ea_sign ea_aim ea_calls ea_no_increase_num ea_thefittest ea_elitism ea_keep_history ea_n_jobs
                  ea_population_g_i ea_population_ph_i ea_fitness_i ea_stats ea_on_generation fst snd] in *.

(* the state after evaluating the batch gs, before the record / history update *)
Definition evaluated_state (self : EA) (gs : list G) : EA :=
  set_ea_fitness_i G P (smul (ZtoQ (ea_sign G P self)) (map f (map g2p gs)))
    (set_ea_calls G P (ea_calls G P self + zlen (map f (map g2p gs)))
       (set_ea_population_ph_i G P (map g2p gs) (set_ea_population_g_i G P gs self))).

(* the state after _update_data on it *)
Definition recorded_state (self : EA) (gs : list G) : EA :=
  let e := evaluated_state self gs in
  let tf' := py_TheFittest__update G P dG dP (ea_thefittest G P self) gs (map g2p gs) (ea_fitness_i G P e) in
  let k := argmaxZ (ea_fitness_i G P e) in
  let entry := {| se_fitness := ea_fitness_i G P e; se_population_g := gs; se_population_ph := map g2p gs;
                  se_max_fitness := getQ (ea_fitness_i G P e) k; se_max_g := getA dG gs k; se_max_ph := getA dP (map g2p gs) k |} in
  let e1 := set_ea_thefittest G P tf' e in
  if ea_keep_history G P self then set_ea_stats G P (ea_stats G P self ++ [entry]) e1 else e1.

Lemma upd_data_eq (self : EA) (gs : list G) :
  upd_data (evaluated_state self gs) = recorded_state self gs.
Proof.
  unfold upd_data, recorded_state, py_EvolutionaryAlgorithm__update_data, py_EvolutionaryAlgorithm__update_fittest,
    py_EvolutionaryAlgorithm__update_stats, evaluated_state. cbv zeta. proj.
  destruct (ea_keep_history G P self); reflexivity.
Qed.

Lemma from_pop_eq (self : EA) (gs : list G) : ea_n_jobs G P self <= 1 ->
  from_pop (set_pop_g self gs) =
  let r := recorded_state self gs in
  if ea_elitism G P self then
    let '(e_g, e_ph, e_fit) := py_TheFittest_get G P (ea_thefittest G P r) in
    set_ea_fitness_i G P (Py.set_last (ea_fitness_i G P r) (Qinf_val e_fit))
      (set_ea_population_ph_i G P (Py.set_last (ea_population_ph_i G P r) e_ph)
         (set_ea_population_g_i G P (Py.set_last (ea_population_g_i G P r) e_g) r))
  else r.
Proof.
  intro Hnj. unfold from_pop, py_EvolutionaryAlgorithm__from_population_g_to_fitness, py_EvolutionaryAlgorithm__get_fitness, set_pop_g,
    getph, ff. cbv zeta. proj.
  replace (ea_n_jobs G P self >? 1) with false by (symmetry; rewrite Z.gtb_ltb; apply Z.ltb_ge; lia).
  change (set_ea_fitness_i G P (smul (ZtoQ (ea_sign G P self)) (map f (map g2p gs)))
            (set_ea_calls G P (ea_calls G P self + zlen (map f (map g2p gs)))
               (set_ea_population_ph_i G P (map g2p gs) (set_ea_population_g_i G P gs self))))
    with (evaluated_state self gs).
  rewrite upd_data_eq.
  assert (Hel : ea_elitism G P (recorded_state self gs) = ea_elitism G P self).
  { unfold recorded_state, evaluated_state. cbv zeta. destruct (ea_keep_history G P self); proj; reflexivity. }
  rewrite Hel. destruct (ea_elitism G P self); reflexivity.
Qed.

(* one generation of the generational family: evaluate the batch gs, record, elitism *)
Theorem code_step (self : EA) (st : state G P) (gs : list G) (first : bool) :
  sim self st -> gs <> [] -> ea_n_jobs G P self <= 1 ->
  sim (from_pop (set_pop_g self gs))
      (step G P g2p (nf_of self) Generational (ea_elitism G P self) (ea_keep_history G P self) first st gs).
Proof.
  intros S Hgs Hnj. rewrite (from_pop_eq self gs Hnj). cbv zeta.
  set (batch := map (eval G P g2p (nf_of self)) gs).
  assert (Hbg : map ig batch = gs) by (unfold batch; rewrite map_map; cbn; apply map_id).
  assert (Hbp : map iph batch = map g2p gs) by (unfold batch; rewrite map_map; reflexivity).
  assert (Hbf : map ifit batch = smul (ZtoQ (ea_sign G P self)) (map f (map g2p gs))).
  { unfold batch. rewrite smul_map, !map_map. reflexivity. }
  assert (Hbne : batch <> []) by (unfold batch; destruct gs; [congruence|discriminate]).
  assert (Hfit : ea_fitness_i G P (evaluated_state self gs) = map ifit batch) by (unfold evaluated_state; proj; now rewrite Hbf).
  (* the record update *)
  pose proof (code_update_best G P dG dP (ea_thefittest G P self) batch Hbne (sim_fin _ _ S)) as Hub.
  rewrite (sim_cnt _ _ S) in Hub. specialize (Hub ltac:(lia)). cbv zeta in Hub.
  rewrite (sim_best _ _ S), Nat2Z.id, Hbg, Hbp in Hub.
  set (tf' := py_TheFittest__update G P dG dP (ea_thefittest G P self) gs (map g2p gs) (map ifit batch)) in *.
  (* history entry *)
  assert (Hentry : {| se_fitness := map ifit batch; se_population_g := gs; se_population_ph := map g2p gs;
                      se_max_fitness := getQ (map ifit batch) (argmaxZ (map ifit batch));
                      se_max_g := getA dG gs (argmaxZ (map ifit batch));
                      se_max_ph := getA dP (map g2p gs) (argmaxZ (map ifit batch)) |}
                   = entry_of {| s_pop := batch; s_max := best_of G P batch |}).
  { unfold entry_of. cbn [s_pop s_max]. rewrite (best_of_argmax G P dG dP batch Hbne), Hbg, Hbp.
    unfold argmaxZ. set (k := argmax (map ifit batch)).
    set (d0 := {| ig := dG; iph := dP; ifit := 0%Q |}).
    f_equal.
    - rewrite getQ_nat. change 0%Q with (ifit d0). apply map_nth.
    - rewrite <- Hbg. unfold getA. rewrite pyidx_nat. change dG with (ig d0). apply map_nth.
    - rewrite <- Hbp. unfold getA. rewrite pyidx_nat. change dP with (iph d0). apply map_nth. }
  (* nothing is recorded as +inf, and after a non-empty batch something is recorded *)
  assert (Hfin' : tf_fitness G P tf' <> PosInf).
  { unfold tf', py_TheFittest__update, py_TheFittest__replace, set_tf_genotype, set_tf_phenotype, set_tf_fitness, set_tf_no_update_counter. cbv zeta.
    destruct (Qinf_ltb _ _); cbn [tf_fitness]; [discriminate|exact (sim_fin _ _ S)]. }
  assert (Hsome : exists b, abs_best G P tf' = Some b /\ tf_fitness G P tf' = Fin (ifit b) /\ tf_genotype G P tf' = ig b /\ tf_phenotype G P tf' = iph b).
  { unfold abs_best. destruct (tf_fitness G P tf') as [|q|] eqn:E; [|eexists; repeat split; reflexivity|congruence].
    exfalso. unfold tf', py_TheFittest__update, py_TheFittest__replace, set_tf_genotype, set_tf_phenotype, set_tf_fitness, set_tf_no_update_counter in E. cbv zeta in E.
    destruct (tf_fitness G P (ea_thefittest G P self)) as [|q0|] eqn:E0.
    - unfold Qinf_ltb, Qinf_leb in E. cbn [negb tf_fitness] in E. discriminate.
    - destruct (Qinf_ltb (Fin q0) _); cbn [tf_fitness] in E; congruence.
    - exact (sim_fin _ _ S E0). }
  destruct Hsome as (b & Hb & Hbf' & Hbg' & Hbp').
  assert (Hcnt' : 0 <= tf_no_update_counter G P tf').
  { unfold tf', py_TheFittest__update, py_TheFittest__replace, set_tf_genotype, set_tf_phenotype, set_tf_fitness, set_tf_no_update_counter. cbv zeta.
    destruct (Qinf_ltb _ _); cbn [tf_no_update_counter]; [lia|]. rewrite (sim_cnt _ _ S). lia. }
  unfold step. fold batch. rewrite Hub.
  unfold recorded_state. cbv zeta. rewrite Hfit. fold tf'. rewrite Hentry.
  unfold evaluated_state.
  destruct (ea_elitism G P self) eqn:Eel; destruct (ea_keep_history G P self) eqn:Ekh; proj;
    unfold py_TheFittest_get; rewrite ?Hb, ?Hbf', ?Hbg', ?Hbp'; cbn [Qinf_val];
    (constructor; proj; cbn [pop best counter calls hist callbacks];
      try (rewrite <- Hbg; unfold EALoop.set_last; rewrite py_set_last_map; reflexivity);
      try (rewrite <- Hbp; unfold EALoop.set_last; rewrite py_set_last_map; reflexivity);
      try (rewrite <- Hbf; unfold EALoop.set_last; rewrite py_set_last_map; reflexivity);
      try (symmetry; apply Z2Nat.id; exact Hcnt');
      try (now rewrite ?Hbg, ?Hbp, ?Hbf);
      try assumption;
      try (rewrite (sim_hist _ _ S), map_app; reflexivity);
      try (exact (sim_hist _ _ S));
      try (exact (sim_cb _ _ S));
      try (rewrite (sim_calls _ _ S); unfold zlen; rewrite !map_length, Nat2Z.inj_add; unfold batch; rewrite map_length; reflexivity)).
Qed.

(* ---------- the whole run: EvolutionaryAlgorithm.fit ---------- *)
(* what a generation leaves unchanged *)
Definition consts (a b : EA) : Prop :=
  ea_sign G P a = ea_sign G P b /\ ea_aim G P a = ea_aim G P b /\ ea_no_increase_num G P a = ea_no_increase_num G P b /\
  ea_elitism G P a = ea_elitism G P b /\ ea_keep_history G P a = ea_keep_history G P b /\ ea_n_jobs G P a = ea_n_jobs G P b /\
  fst (ea_on_generation G P a) = fst (ea_on_generation G P b) /\ ea_iters G P a = ea_iters G P b.

Lemma from_pop_consts (self : EA) gs : ea_n_jobs G P self <= 1 -> consts (from_pop (set_pop_g self gs)) self.
Proof.
  intro Hnj. rewrite (from_pop_eq self gs Hnj). cbv zeta. unfold recorded_state, evaluated_state. cbv zeta.
  unfold consts, py_TheFittest_get.
  destruct (ea_elitism G P self) eqn:Eel; destruct (ea_keep_history G P self) eqn:Ekh; proj; rewrite ?Eel, ?Ekh; repeat split; reflexivity.
Qed.

Variable newpop : EA -> list G.                  (* _get_new_population: the variation operators (C06-C08) *)
Variable var : state G P -> list G.              (* ... as the model's oracle *)

Definition gen_body (i : Z) (self : EA) : EA * bool :=
  if py_EvolutionaryAlgorithm__termitation_check G P self then (self, true)
  else
    let self := set_pop_g self (newpop self) in
    let self := from_pop self in
    if fst (ea_on_generation G P self)
    then (set_ea_on_generation G P (fst (ea_on_generation G P self), snd (ea_on_generation G P self) + 1) self, false)
    else (self, false).

Lemma code_loop (self0 : EA) :
  ea_n_jobs G P self0 <= 1 -> ea_aim G P self0 <> NegInf -> fst (ea_on_generation G P self0) = true ->
  (forall n, ea_no_increase_num G P self0 = Some n -> 0 <= n) ->
  (forall s st, sim s st -> newpop s = var st) -> (forall st, var st <> []) ->
  forall (k : nat) (lo : Z) (self : EA) (st : state G P), sim self st -> consts self self0 ->
  sim (for_brk_nat_p k lo gen_body self)
      (loop G P g2p (nf_of self0) Generational (ea_elitism G P self0) (ea_keep_history G P self0)
            (abs_aim (ea_aim G P self0)) (abs_nin (ea_no_increase_num G P self0)) var k st).
Proof.
  intros Hnj Haim Hcb Hnin Hvar Hne. induction k as [|k IH]; intros lo self st S C; [exact S|].
  destruct C as (Csg & Cam & Cnin & Cel & Ckh & Cnj & Ccb & Cit).
  cbn [for_brk_nat_p loop]. unfold gen_body at 1.
  assert (Hterm : py_EvolutionaryAlgorithm__termitation_check G P self
                = terminate G P (abs_aim (ea_aim G P self0)) (abs_nin (ea_no_increase_num G P self0)) st).
  { rewrite <- Cam, <- Cnin. apply code_terminate.
    - now rewrite Cam.
    - exact (sim_fin _ _ S).
    - symmetry. exact (sim_best _ _ S).
    - symmetry. exact (sim_cnt _ _ S).
    - intros n Hn. apply Hnin. now rewrite <- Cnin. }
  rewrite Hterm. destruct (terminate _ _ _ _ st); [exact S|].
  cbv zeta.
  assert (Hnj' : ea_n_jobs G P self <= 1) by (rewrite Cnj; exact Hnj).
  pose proof (code_step self st (newpop self) false S) as Hst.
  rewrite (Hvar self st S) in *. specialize (Hst (Hne st) Hnj').
  pose proof (from_pop_consts self (var st) Hnj') as (Dsg & Dam & Dnin & Del & Dkh & Dnj & Dcb & Dit).
  set (self' := from_pop (set_pop_g self (var st))) in *.
  rewrite Dcb, Ccb, Hcb.
  unfold nf_of in Hst. rewrite Csg, Cel, Ckh in Hst. fold (nf_of self0) in Hst.
  apply IH.
  - (* the callback only advances its own counter *)
    destruct Hst as [A1 A2 A3 A4 A5 A6 A7 A8 A9]. constructor; proj; cbn [pop best counter calls hist callbacks callback]; auto.
    rewrite A9. lia.
  - unfold consts. proj. repeat split; try congruence.
Qed.

(* EvolutionaryAlgorithm.fit, with the dispatch resolved to the base class's generation step *)
Theorem code_fit (self0 : EA) (gs0 : list G) :
  sim self0 (init_state G P) -> gs0 <> [] ->
  ea_n_jobs G P self0 <= 1 -> ea_aim G P self0 <> NegInf -> fst (ea_on_generation G P self0) = true ->
  (forall n, ea_no_increase_num G P self0 = Some n -> 0 <= n) ->
  (forall s st, sim s st -> newpop s = var st) -> (forall st, var st <> []) ->
  sim (py_EvolutionaryAlgorithm_fit G P (fun s => set_pop_g s gs0) (fun s => set_pop_g s (newpop s)) from_pop self0)
      (fit G P g2p (nf_of self0) Generational (ea_elitism G P self0) (ea_keep_history G P self0)
           (abs_aim (ea_aim G P self0)) (abs_nin (ea_no_increase_num G P self0)) var (Z.to_nat (ea_iters G P self0)) gs0).
Proof.
  intros S0 Hgs Hnj Haim Hcb Hnin Hvar Hne.
  unfold py_EvolutionaryAlgorithm_fit, fit. cbv zeta.
  pose proof (code_step self0 (init_state G P) gs0 true S0 Hgs Hnj) as S1.
  pose proof (from_pop_consts self0 gs0 Hnj) as C1.
  set (self1 := from_pop (set_pop_g self0 gs0)) in *.
  unfold for_brk_p. rewrite Z.sub_0_r.
  destruct C1 as (Csg & Cam & Cnin & Cel & Ckh & Cnj & Ccb & Cit).
  replace (Z.to_nat (ea_iters G P self1 - 1)) with (Z.to_nat (ea_iters G P self0) - 1)%nat by (rewrite Cit; lia).
  apply (code_loop self0 Hnj Haim Hcb Hnin Hvar Hne); [exact S1|].
  unfold consts. repeat split; assumption.
Qed.

(* the constructed object is in the simulation with the model's initial state: the premise of code_fit is satisfiable *)
Lemma init_sim iters pop_size minimization optimal err nin elitism keep_history n_jobs has_cb :
  sim (py_EvolutionaryAlgorithm_init G P dG dP iters pop_size minimization optimal err nin elitism keep_history n_jobs has_cb) (init_state G P).
Proof. unfold py_EvolutionaryAlgorithm_init. cbv zeta. constructor; cbn; try reflexivity. discriminate. Qed.

(* C01 / C03 read on the generated run: the reported record is the maximum over everything the run evaluated, and the
   call counter is the number of individuals evaluated *)
Corollary src_fit_best_and_calls (self0 : EA) (gs0 : list G) (n : nat) :
  sim self0 (init_state G P) -> (0 < n)%nat -> length gs0 = n -> (forall st, length (var st) = n) -> 1 <= ea_iters G P self0 ->
  ea_n_jobs G P self0 <= 1 -> ea_aim G P self0 <> NegInf -> fst (ea_on_generation G P self0) = true ->
  (forall m, ea_no_increase_num G P self0 = Some m -> 0 <= m) ->
  (forall s st, sim s st -> newpop s = var st) ->
  let self := py_EvolutionaryAlgorithm_fit G P (fun s => set_pop_g s gs0) (fun s => set_pop_g s (newpop s)) from_pop self0 in
  let st := fit G P g2p (nf_of self0) Generational (ea_elitism G P self0) (ea_keep_history G P self0)
                (abs_aim (ea_aim G P self0)) (abs_nin (ea_no_increase_num G P self0)) var (Z.to_nat (ea_iters G P self0)) gs0 in
  (exists b, abs_best G P (ea_thefittest G P self) = Some b /\ In b (evaluated st) /\
             Forall (fun e => (ifit e <= ifit b)%Q) (evaluated st) /\ iph b = g2p (ig b) /\ ifit b = nf_of self0 (iph b)) /\
  ea_calls G P self = Z.of_nat (calls st) /\ (calls st = n * gens st)%nat /\
  (1 <= gens st <= Z.to_nat (ea_iters G P self0))%nat /\
  snd (ea_on_generation G P self) = Z.of_nat (gens st - 1).
Proof.
  intros S0 Hn Hl Hvl Hit Hnj Haim Hcb Hnin Hvar. cbv zeta.
  assert (Hgs : gs0 <> []) by (destruct gs0; [simpl in Hl; lia|discriminate]).
  assert (Hne : forall st, var st <> []) by (intros st E; specialize (Hvl st); rewrite E in Hvl; simpl in Hvl; lia).
  pose proof (code_fit self0 gs0 S0 Hgs Hnj Haim Hcb Hnin Hvar Hne) as S.
  destruct (EALoopProofs.best_is_max G P g2p (nf_of self0) Generational (ea_elitism G P self0) (ea_keep_history G P self0)
              (abs_aim (ea_aim G P self0)) (abs_nin (ea_no_increase_num G P self0)) var n Hn Hvl (Z.to_nat (ea_iters G P self0)) gs0 Hl)
    as (b & Hb & Hin & Hall & Hph & Hfit).
  split; [exists b; rewrite (sim_best _ _ S); auto|].
  destruct (EALoopProofs2.budget G P g2p (nf_of self0) Generational (ea_elitism G P self0) (ea_keep_history G P self0)
              (abs_aim (ea_aim G P self0)) (abs_nin (ea_no_increase_num G P self0)) var n Hn Hvl (Z.to_nat (ea_iters G P self0)) gs0
              ltac:(lia) Hl) as (Hg & Hc & Hcbk & _).
  split; [exact (sim_calls _ _ S)|]. split; [exact Hc|]. split; [lia|].
  rewrite (sim_cb _ _ S), Hcbk. reflexivity.
Qed.

(* C17 on the generated run: one history entry per executed generation (none without keep_history), each the snapshot
   of its generation's evaluated population *)
Corollary src_fit_history (self0 : EA) (gs0 : list G) (n : nat) :
  sim self0 (init_state G P) -> (0 < n)%nat -> length gs0 = n -> (forall st, length (var st) = n) -> 1 <= ea_iters G P self0 ->
  ea_n_jobs G P self0 <= 1 -> ea_aim G P self0 <> NegInf -> fst (ea_on_generation G P self0) = true ->
  (forall m, ea_no_increase_num G P self0 = Some m -> 0 <= m) ->
  (forall s st, sim s st -> newpop s = var st) ->
  let self := py_EvolutionaryAlgorithm_fit G P (fun s => set_pop_g s gs0) (fun s => set_pop_g s (newpop s)) from_pop self0 in
  let st := fit G P g2p (nf_of self0) Generational (ea_elitism G P self0) (ea_keep_history G P self0)
                (abs_aim (ea_aim G P self0)) (abs_nin (ea_no_increase_num G P self0)) var (Z.to_nat (ea_iters G P self0)) gs0 in
  ea_stats G P self = map entry_of (hist st) /\
  (ea_keep_history G P self0 = true -> length (ea_stats G P self) = gens st) /\
  (ea_keep_history G P self0 = false -> ea_stats G P self = []).
Proof.
  intros S0 Hn Hl Hvl Hit Hnj Haim Hcb Hnin Hvar. cbv zeta.
  assert (Hgs : gs0 <> []) by (destruct gs0; [simpl in Hl; lia|discriminate]).
  assert (Hne : forall st, var st <> []) by (intros st E; specialize (Hvl st); rewrite E in Hvl; simpl in Hvl; lia).
  pose proof (code_fit self0 gs0 S0 Hgs Hnj Haim Hcb Hnin Hvar Hne) as S.
  destruct (EALoopProofs2.history_complete G P g2p (nf_of self0) Generational (ea_elitism G P self0) (ea_keep_history G P self0)
              (abs_aim (ea_aim G P self0)) (abs_nin (ea_no_increase_num G P self0)) var n Hn Hvl (Z.to_nat (ea_iters G P self0)) gs0
              ltac:(lia) Hl) as (Hk1 & Hk2).
  split; [exact (sim_hist _ _ S)|]. split.
  - intro Hk. rewrite (sim_hist _ _ S), map_length. auto.
  - intro Hk. rewrite (sim_hist _ _ S), (Hk2 Hk). reflexivity.
Qed.
End Step.
