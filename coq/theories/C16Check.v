(* C16Check.v — boolean case checkers evaluated by the correspondence (no proofs here). *)
From Coq Require Import List ZArith Bool.
From TF Require Import Base Split SplitFloat.
Import ListNotations.
Open Scope Z_scope.

Definition optZ_eqb (a b : option Z) : bool :=
  match a, b with
  | Some x, Some y => x =? y
  | None, None => true
  | _, _ => false
  end.

(* (cpu_count, pop_size, requested n_jobs, implementation's self._n_jobs or None = ValueError) *)
Definition chk_n_jobs (c : Z * Z * Z * option Z) : bool :=
  let '(cpu, pop, n, out) := c in optZ_eqb (get_n_jobs cpu pop n) out.
(* the same against the code before the repair (diagnosis only) *)
Definition chk_n_jobs_orig (c : Z * Z * Z * option Z) : bool :=
  let '(cpu, pop, n, out) := c in optZ_eqb (get_n_jobs_orig cpu pop n) out.

Fixpoint chunks_eqb (a : list (Z * nat)) (b : list (Z * nat)) : bool :=
  match a, b with
  | [], [] => true
  | (x, m) :: a', (y, k) :: b' => (x =? y) && (m =? k)%nat && chunks_eqb a' b'
  | _, _ => false
  end.

(* (pop_size, self._n_jobs, numpy's linspace(0,pop,n_jobs+1,dtype=int64),
    [(first row id or -1, number of rows)] of every chunk returned by _split_population applied
    to the population of row ids 0..pop-1)
   checks: numpy's cut points = the binary64 model, bit for bit; they lie in the envelope
   (when n_jobs <= pop); the chunks = the model's chunks *)
Definition chk_split (c : Z * Z * list Z * list (Z * nat)) : bool :=
  let '(pop, j, cuts, chunks) := c in
  let pts := linspace_int pop j in
  Zlist_eqb pts cuts
  && (if j <=? pop then envelope_b pop j cuts else true)
  && chunks_eqb (map (fun ch => (hd (-1) ch, length ch))
                     (split_population pts (Zseq 0 (Z.to_nat pop)))) chunks.
