(* RandomPrimsProofs2.v — C11 continued: argsort_k / p-best, Sattolo permutation, randint, minmax. *)
From TF Require Import Base RandomPrims RandomPrimsProofs.
From Coq Require Import Permutation.
Open Scope Q_scope.

(* ------------------------------------------------------------------ swap facts *)
Lemma swap_length {A} (d : A) l i j : length (swap d l i j) = length l.
Proof. unfold swap. now rewrite !upd_length. Qed.

Lemma nth_swap {A} (d : A) l i j x : (i < length l)%nat -> (j < length l)%nat ->
  nth x (swap d l i j) d =
  if (x =? j)%nat then nth i l d else if (x =? i)%nat then nth j l d else nth x l d.
Proof.
  intros Hi Hj. unfold swap.
  destruct (x =? j)%nat eqn:Ej.
  - apply Nat.eqb_eq in Ej. subst x. apply nth_upd_eq. now rewrite upd_length.
  - apply Nat.eqb_neq in Ej. rewrite nth_upd_neq by auto.
    destruct (x =? i)%nat eqn:Ei.
    + apply Nat.eqb_eq in Ei. subst x. now apply nth_upd_eq.
    + apply Nat.eqb_neq in Ei. now rewrite nth_upd_neq by auto.
Qed.

Definition transp (i j x : nat) : nat := if (x =? j)%nat then i else if (x =? i)%nat then j else x.

Lemma transp_invol i j x : transp i j (transp i j x) = x.
Proof.
  unfold transp.
  destruct (x =? j)%nat eqn:E1; [apply Nat.eqb_eq in E1|apply Nat.eqb_neq in E1].
  - subst. destruct (i =? j)%nat eqn:E2; [apply Nat.eqb_eq in E2; auto|]. now rewrite Nat.eqb_refl.
  - destruct (x =? i)%nat eqn:E3; [apply Nat.eqb_eq in E3|apply Nat.eqb_neq in E3].
    + subst. now rewrite Nat.eqb_refl.
    + apply Nat.eqb_neq in E1, E3. now rewrite E1, E3.
Qed.

Lemma nth_swap_transp {A} (d : A) l i j x : (i < length l)%nat -> (j < length l)%nat ->
  nth x (swap d l i j) d = nth (transp i j x) l d.
Proof. intros. rewrite nth_swap by auto. unfold transp. destruct (x =? j)%nat; auto. destruct (x =? i)%nat; auto. Qed.

Lemma swap_perm {A} (d : A) l i j : (i < length l)%nat -> (j < length l)%nat ->
  Permutation l (swap d l i j).
Proof.
  intros Hi Hj. apply (Permutation_nth l (swap d l i j) d). split; [apply swap_length|].
  exists (transp i j). split; [|split].
  - intros x Hx. unfold transp. destruct (x =? j)%nat; auto. destruct (x =? i)%nat; auto.
  - intros x y Hx Hy He. rewrite <- (transp_invol i j x), <- (transp_invol i j y). now rewrite He.
  - intros x Hx. now apply nth_swap_transp.
Qed.

(* ------------------------------------------------------------------ argsort_k *)
Lemma find_max_from_spec a i : forall n j mx mid,
  (i <= mid <= j)%nat -> (mid < length a)%nat -> (j + n <= length a)%nat -> mx == nth mid a 0 ->
  (forall q, (i <= q < j)%nat -> nth q a 0 <= mx) ->
  let r := find_max_from a j n mx mid in
  (i <= r < length a)%nat /\ (forall q, (i <= q < j + n)%nat -> nth q a 0 <= nth r a 0).
Proof.
  induction n as [|n IH]; intros j mx mid Hmid Hml Hlen Hmx Hall; cbn [find_max_from].
  - cbv zeta. split; [lia|]. intros q Hq. rewrite <- Hmx. apply Hall. lia.
  - destruct (Qltb mx (nth j a 0)) eqn:E.
    + apply Qltb_lt in E.
      destruct (IH (S j) (nth j a 0) j) as (H1 & H2); try lia; try reflexivity.
      * intros q Hq. destruct (Nat.eq_dec q j) as [->|Hne]; [lra|].
        specialize (Hall q ltac:(lia)). lra.
      * cbv zeta in *. split; [lia|]. intros q Hq. apply H2. lia.
    + assert (E' : nth j a 0 <= mx).
      { destruct (Qlt_le_dec mx (nth j a 0)) as [Hl|Hl]; auto. apply Qltb_lt in Hl. congruence. }
      destruct (IH (S j) mx mid) as (H1 & H2); try lia; auto.
      * intros q Hq. destruct (Nat.eq_dec q j) as [->|Hne]; [lra|]. apply Hall. lia.
      * cbv zeta in *. split; [lia|]. intros q Hq. apply H2. lia.
Qed.

(* loop invariant *)
Definition asort_inv (a0 : list Q) (i : nat) (a : list Q) (idx : list nat) : Prop :=
  length a = length a0 /\ length idx = length a0 /\
  Permutation (seq 0 (length a0)) idx /\
  (forall p, (p < length a0)%nat -> nth p a 0 == nth (nth p idx O) a0 0) /\
  (forall p q, (p < i)%nat -> (p <= q < length a0)%nat -> nth q a 0 <= nth p a 0).

Lemma argsort_k_loop_inv a0 : forall k i a idx,
  (i + k <= length a0)%nat -> asort_inv a0 i a idx ->
  let r := argsort_k_loop k i a idx in
  length r = length a0 /\ Permutation (seq 0 (length a0)) r /\
  (forall p q, (p < i + k)%nat -> (p <= q < length a0)%nat ->
     nth (nth q r O) a0 0 <= nth (nth p r O) a0 0).
Proof.
  induction k as [|k IH]; intros i a idx Hk (Hla & Hli & Hp & Hval & Hord); cbn [argsort_k_loop]; cbv zeta.
  - split; [auto|]. split; [auto|]. intros p q Hp' Hq.
    rewrite <- !Hval by lia. apply Hord; lia.
  - set (mid := find_max_from a i (length a - i) (nth i a 0) i).
    destruct (find_max_from_spec a i (length a - i) i (nth i a 0) i) as (Hm1 & Hm2);
      try lia; try reflexivity.
    fold mid in Hm1, Hm2. replace (i + (length a - i))%nat with (length a) in * by lia.
    replace (i + S k)%nat with (S i + k)%nat by lia.
    apply IH; [lia|].
    unfold asort_inv. rewrite !swap_length. split; [auto|]. split; [auto|]. split; [|split].
    + eapply Permutation_trans; [exact Hp|]. apply swap_perm; lia.
    + intros p Hp'. rewrite !nth_swap by lia.
      destruct (p =? mid)%nat; [apply Hval; lia|]. destruct (p =? i)%nat; apply Hval; lia.
    + intros p q Hp' Hq. rewrite !nth_swap by lia.
      assert (Hsrc : forall x, (i <= x < length a0)%nat ->
                (i <= (if (x =? mid)%nat then i else if (x =? i)%nat then mid else x) < length a0)%nat).
      { intros x Hx. destruct (x =? mid)%nat; [lia|]. destruct (x =? i)%nat; lia. }
      destruct (Nat.lt_ge_cases p i) as [Hlt|Hge].
      * (* p < i : position p untouched; q's value is one of the values at positions >= p *)
        assert (Hpm : (p =? mid)%nat = false) by (apply Nat.eqb_neq; lia).
        assert (Hpi : (p =? i)%nat = false) by (apply Nat.eqb_neq; lia).
        rewrite Hpm, Hpi.
        destruct (q =? mid)%nat; [apply Hord; lia|].
        destruct (q =? i)%nat; apply Hord; lia.
      * (* p = i : new a[i] is the maximum over [i, n) *)
        assert (p = i) by lia. subst p.
        destruct (i =? mid)%nat eqn:Eim.
        -- apply Nat.eqb_eq in Eim. rewrite <- Eim in *.
           destruct (q =? i)%nat eqn:Eqi; [lra|]. apply Hm2. lia.
        -- rewrite Nat.eqb_refl.
           destruct (q =? mid)%nat; [apply Hm2; lia|].
           destruct (q =? i)%nat; apply Hm2; lia.
Qed.

(* C11_pbest core: the first k entries of argsort_k index values that dominate everything after them *)
Theorem argsort_k_spec a k : (k <= length a)%nat ->
  let r := argsort_k a k in
  length r = length a /\ Permutation (seq 0 (length a)) r /\
  (forall p q, (p < k)%nat -> (p <= q < length a)%nat -> nth (nth q r O) a 0 <= nth (nth p r O) a 0).
Proof.
  intros Hk. unfold argsort_k.
  apply (argsort_k_loop_inv a k 0 a (seq 0 (length a))); [lia|].
  unfold asort_inv. rewrite seq_length. repeat split; auto.
  - intros p Hp. rewrite seq_nth by lia. reflexivity.
  - intros p q Hp; lia.
Qed.

(* p-best set: exactly count = max(1, floor(p*n)) indices, distinct, each at least as fit as every
   index outside the set *)
Lemma In_firstn {A} (l : list A) : forall n x, In x (firstn n l) -> In x l.
Proof.
  induction l as [|y t IH]; intros [|n] x H; simpl in *; try contradiction.
  destruct H as [H|H]; [left; auto|right; eauto].
Qed.

Lemma NoDup_firstn {A} (l : list A) : forall n, NoDup l -> NoDup (firstn n l).
Proof.
  induction l as [|x t IH]; intros [|n] H; simpl; try constructor.
  - inversion H; subst. intro Hin. apply In_firstn in Hin. contradiction.
  - inversion H; subst. auto.
Qed.

Theorem find_pbest_spec a p : (pbest_count p (length a) <= length a)%nat ->
  let s := find_pbest_id a p in
  length s = pbest_count p (length a) /\ NoDup s /\
  (forall x, In x s -> (x < length a)%nat) /\
  (forall x y, In x s -> (y < length a)%nat -> ~ In y s -> nth y a 0 <= nth x a 0).
Proof.
  intros Hc. cbv zeta. unfold find_pbest_id. set (k := pbest_count p (length a)) in *.
  destruct (argsort_k_spec a k Hc) as (Hl & Hp & Hord). set (r := argsort_k a k) in *.
  assert (Hnd : NoDup r). { eapply Permutation_NoDup; [exact Hp|apply seq_NoDup]. }
  split; [rewrite firstn_length; lia|]. split; [apply NoDup_firstn; auto|]. split.
  - intros x Hx. assert (In x r) by (eapply In_firstn; eauto).
    apply (Permutation_in _ (Permutation_sym Hp)) in H. apply in_seq in H. lia.
  - intros x y Hx Hy Hny.
    destruct (In_nth _ _ O Hx) as (px & Hpx & Hex). rewrite firstn_length in Hpx.
    assert (Hyr : In y r). { apply (Permutation_in _ Hp). apply in_seq. lia. }
    destruct (In_nth _ _ O Hyr) as (py & Hpy & Hey).
    assert (Hpyk : (k <= py)%nat).
    { destruct (Nat.lt_ge_cases py k) as [Hlt|]; auto. exfalso. apply Hny.
      rewrite <- Hey. rewrite <- (firstn_skipn k r) at 1.
      rewrite app_nth1 by (rewrite firstn_length; lia). apply nth_In. rewrite firstn_length. lia. }
    rewrite <- Hey.
    assert (Hxr : nth px r O = x).
    { rewrite <- Hex. rewrite <- (firstn_skipn k r) at 1. rewrite app_nth1 by (rewrite firstn_length; lia). reflexivity. }
    rewrite <- Hxr. apply Hord; lia.
Qed.

(* the code before the repair violates this: the p-best set of [1;4;9;3] with two slots contained
   index 0 (the smallest value) — for every value of the uninitialised local *)
Theorem argsort_k_stale_refuted :
  forall garbage, exists a k, (k <= length a)%nat /\
    ~ (forall p q, (p < k)%nat -> (p <= q < length a)%nat ->
        nth (nth q (argsort_k_stale garbage a k) O) a 0 <= nth (nth p (argsort_k_stale garbage a k) O) a 0).
Proof.
  intros g. exists [1; 4; 9; 3], 2%nat. split; [simpl; lia|]. intro H.
  specialize (H 1%nat 2%nat ltac:(lia) ltac:(simpl; lia)).
  assert (E : forall g', argsort_k_stale g' [1; 4; 9; 3] 2 = [2; 0; 1; 3]%nat).
  { intros g'. unfold argsort_k_stale. cbn. reflexivity. }
  rewrite E in H. cbn in H. lra.
Qed.

(* ------------------------------------------------------------------ floor bounds *)
Lemma Qfloor'_bounds u n : 0 <= u -> u < 1 -> (0 < n)%Z ->
  (0 <= Qfloor' (u * inject_Z n) < n)%Z.
Proof.
  intros H0 H1 Hn. destruct u as [p q]. unfold Qfloor', Qle, Qlt in *. cbn in *.
  rewrite Z.mul_1_r in *. rewrite Pos.mul_1_r.
  split.
  - apply Z.div_pos; nia.
  - apply Z.div_lt_upper_bound; nia.
Qed.

Lemma Qfloor'_bounds' u n : 0 <= u -> u < 1 -> (0 < n)%Z ->
  (0 <= Qfloor' (inject_Z n * u) < n)%Z.
Proof.
  intros H0 H1 Hn. destruct u as [p q]. unfold Qfloor', Qle, Qlt in *. cbn in *.
  rewrite Z.mul_1_r in *.
  split.
  - apply Z.div_pos; nia.
  - apply Z.div_lt_upper_bound; nia.
Qed.

Theorem randint_range low high : (low < high)%Z -> forall size ds r ds',
  valid_draws ds -> randint low high size ds = Some (r, ds') ->
  length r = size /\ Forall (fun v => (low <= v < high)%Z) r.
Proof.
  intros Hlh. induction size as [|k IH]; intros ds r ds' Hv H; cbn [randint] in H.
  - inversion H; subst. split; auto.
  - unfold bind, ret, popU in H. destruct ds as [|[u|? ?|?] ds1]; try discriminate.
    destruct (randint low high k ds1) as [[r1 ds2]|] eqn:E; [|discriminate].
    inversion H; subst; clear H. inversion Hv as [|? ? Hd Hv1]; subst. cbn in Hd.
    destruct (IH _ _ _ Hv1 E) as (Hl & Hall). split; [simpl; lia|]. constructor; auto.
    pose proof (Qfloor'_bounds' u (high - low) (proj1 Hd) (proj2 Hd) ltac:(lia)). lia.
Qed.

(* ------------------------------------------------------------------ Sattolo: permutation *)
Theorem sattolo_loop_perm {A} (d : A) : forall i arr ds r ds',
  valid_draws ds -> (i < length arr)%nat -> sattolo_loop d i arr ds = Some (r, ds') ->
  Permutation arr r.
Proof.
  induction i as [|i IH]; intros arr ds r ds' Hv Hi H; cbn [sattolo_loop] in H.
  - inversion H; subst. apply Permutation_refl.
  - unfold bind, popU in H. destruct ds as [|[u|? ?|?] ds1]; try discriminate.
    inversion Hv as [|? ? Hd Hv1]; subst. cbn in Hd.
    pose proof (Qfloor'_bounds u (Z.of_nat (S i)) (proj1 Hd) (proj2 Hd) ltac:(lia)) as Hj.
    set (j := Z.to_nat (Qfloor' (u * inject_Z (Z.of_nat (S i))))) in *.
    assert (Hjl : (j < S i)%nat) by (unfold j; lia).
    eapply Permutation_trans; [apply (swap_perm d arr (S i) j); lia|].
    eapply IH; [exact Hv1| |exact H]. rewrite swap_length. lia.
Qed.

Theorem sattolo_perm {A} (d : A) arr ds r ds' :
  valid_draws ds -> sattolo d arr ds = Some (r, ds') -> Permutation arr r.
Proof.
  intros Hv H. unfold sattolo in H. destruct arr as [|x t].
  - cbn in H. inversion H; subst. constructor.
  - eapply sattolo_loop_perm; eauto. simpl. lia.
Qed.

(* ------------------------------------------------------------------ minmax_scale *)
Lemma fold_max_spec l : forall m0,
  let m := fold_left (fun m x => if Qltb m x then x else m) l m0 in
  m0 <= m /\ Forall (fun x => x <= m) l /\ (m = m0 \/ In m l).
Proof.
  induction l as [|x t IH]; intros m0; cbn [fold_left]; cbv zeta.
  - split; [lra|]. split; [constructor|]. left; reflexivity.
  - destruct (Qltb m0 x) eqn:E.
    + apply Qltb_lt in E. destruct (IH x) as (H1 & H2 & H3). cbv zeta in *.
      split; [lra|]. split; [constructor; auto|]. right. destruct H3 as [->|H3]; [left|right]; auto.
    + assert (x <= m0). { destruct (Qlt_le_dec m0 x) as [Hl|Hl]; auto. apply Qltb_lt in Hl. congruence. }
      destruct (IH m0) as (H1 & H2 & H3). cbv zeta in *.
      split; [auto|]. split; [constructor; [lra|auto]|]. destruct H3 as [H3|H3]; [left|right; right]; auto.
Qed.

Lemma fold_min_spec l : forall m0,
  let m := fold_left (fun m x => if Qltb x m then x else m) l m0 in
  m <= m0 /\ Forall (fun x => m <= x) l /\ (m = m0 \/ In m l).
Proof.
  induction l as [|x t IH]; intros m0; cbn [fold_left]; cbv zeta.
  - split; [lra|]. split; [constructor|]. left; reflexivity.
  - destruct (Qltb x m0) eqn:E.
    + apply Qltb_lt in E. destruct (IH x) as (H1 & H2 & H3). cbv zeta in *.
      split; [lra|]. split; [constructor; auto|]. right. destruct H3 as [->|H3]; [left|right]; auto.
    + assert (m0 <= x). { destruct (Qlt_le_dec x m0) as [Hl|Hl]; auto. apply Qltb_lt in Hl. congruence. }
      destruct (IH m0) as (H1 & H2 & H3). cbv zeta in *.
      split; [auto|]. split; [constructor; [lra|auto]|]. destruct H3 as [H3|H3]; [left|right; right]; auto.
Qed.

Theorem minmax_scale_spec l : l <> [] ->
  let s := minmax_scale l in
  length s = length l /\ Forall (fun y => 0 <= y /\ y <= 1) s /\
  (Qmax_list l == Qmin_list l -> Forall (fun y => y = 1) s) /\
  (~ Qmax_list l == Qmin_list l ->
     (forall i, (i < length l)%nat -> nth i l 0 == Qmin_list l -> nth i s 0 == 0) /\
     (forall i, (i < length l)%nat -> nth i l 0 == Qmax_list l -> nth i s 0 == 1)).
Proof.
  intros Hne. cbv zeta. unfold minmax_scale.
  destruct l as [|x0 t]; [congruence|].
  unfold Qmax_list, Qmin_list. cbn [hd].
  destruct (fold_max_spec (x0 :: t) x0) as (Ha1 & Ha2 & _).
  destruct (fold_min_spec (x0 :: t) x0) as (Hb1 & Hb2 & _). cbv zeta in *.
  set (mx := fold_left (fun m x => if Qltb m x then x else m) (x0 :: t) x0) in *.
  set (mn := fold_left (fun m x => if Qltb x m then x else m) (x0 :: t) x0) in *.
  destruct (Qeq_bool mx mn) eqn:E.
  - apply Qeq_bool_iff in E. rewrite map_length. split; [auto|]. split; [|split].
    + apply Forall_forall. intros y Hy. apply in_map_iff in Hy. destruct Hy as (? & <- & _). lra.
    + intros _. apply Forall_forall. intros y Hy. apply in_map_iff in Hy. destruct Hy as (? & <- & _). reflexivity.
    + intros Hc. contradiction.
  - assert (Hneq : ~ mx == mn). { intro Hc. apply Qeq_bool_iff in Hc. congruence. }
    assert (Hlt : mn < mx).
    { destruct (Qlt_le_dec mn mx); auto. exfalso. apply Hneq. apply Qle_antisym; lra. }
    rewrite map_length. split; [auto|]. split; [|split].
    + apply Forall_forall. intros y Hy. apply in_map_iff in Hy. destruct Hy as (x & <- & Hx).
      rewrite Forall_forall in Ha2, Hb2. specialize (Ha2 x Hx). specialize (Hb2 x Hx).
      split.
      * apply Qle_shift_div_l; lra.
      * apply Qle_shift_div_r; lra.
    + intros Hc. contradiction.
    + intros _. split; intros i Hi Hv.
      * rewrite (nth_map_default (fun x => (x - mn) / (mx - mn)) (x0 :: t) i 0 0) by auto.
        rewrite Hv. field. lra.
      * rewrite (nth_map_default (fun x => (x - mn) / (mx - mn)) (x0 :: t) i 0 0) by auto.
        rewrite Hv. field. lra.
Qed.
