(* C08Check.v — boolean case checkers evaluated by the correspondence (no proofs here).
   Symbols are (identifier, arity) pairs as in C09Check.v; a universal set is sent as
     (function symbols in the order given,  terminal entries (kind, a, b))
   kind 0 = TerminalNode with identifier a;  kind 1 = EphemeralNode whose generator returns
   a + randint(0, b, 1)[0]   (one DU draw, library randint). *)
From Coq Require Import List Arith Bool Lia ZArith QArith.
Import ListNotations.
From TF Require Import Base RandomPrims Tree TreeIdx GPOps C09Check.
Open Scope nat_scope.

Definition eph (base n : nat) : M sy :=
  r <- randint 0 (Z.of_nat n) 1 ;; ret (base + Z.to_nat (nth 0 r 0%Z), 0).
Definition uni := (list sy * list (nat * nat * nat))%type.
Definition mk_uniset (u : uni) : uniset (sym := sy) :=
  {| u_funcs := fst u;
     u_terms := map (fun e : nat * nat * nat =>
                       let '(k, a, b) := e in
                       match k with 0 => inl (a, 0) | _ => inr (eph a b) end) (snd u) |}.

Fixpoint ptrees_eqb (a b : list (ptree sy)) : bool :=
  match a, b with
  | [], [] => true
  | x :: a', y :: b' => ptree_eqb x y && ptrees_eqb a' b'
  | _, _ => false
  end.

Definition one {A} (m : M A) : M (list A) := x <- m ;; ret [x].

(* operator codes:
   0 empty  1 standard  2 one_point  3 uniform  4 uniform_prop  5 uniform_rank  6 uniform_tour
   10 point  11 grow  12 swap  13 shrink  14 swap as it was before the repair
   20 full_growing_method  21 growing_method  22 random_tree  23 half_and_half *)
Definition run_op (code : nat) (ps : list (ptree sy)) (f r : list Q) (ml pop : nat) (proba : Q) (U : uni)
  : M (list (ptree sy)) :=
  let t := nth 0 ps ([], []) in
  let u := mk_uniset U in
  match code with
  | 0 => one (empty_crossoverGP ps)
  | 1 => one (standard_crossover ps ml)
  | 2 => one (one_point_crossoverGP ps)
  | 3 => one (uniform_crossoverGP sy_arity ps f r)
  | 4 => one (uniform_proportional_crossover_GP sy_arity ps f r)
  | 5 => one (uniform_rank_crossover_GP sy_arity ps f r)
  | 6 => one (uniform_tournament_crossover_GP sy_arity ps f r)
  | 10 => one (point_mutation sy_arity t u proba)
  | 11 => one (growing_mutation sy_arity t u proba)
  | 12 => one (swap_mutation t u proba)
  | 13 => one (shrink_mutation t u proba)
  | 14 => one (swap_mutation_old t u proba)
  | 20 => one (full_growing_method sy_arity u ml)
  | 21 => one (growing_method sy_arity u ml)
  | 22 => one (random_tree sy_arity u ml)
  | 23 => half_and_half sy_arity pop u ml
  | _ => fail
  end.

(* out = None: the implementation raised (IndexError in mirror mode); the model must fail too *)
Definition chk_op (c : nat * list (ptree sy) * (list Q * list Q) * (nat * nat * Q) * uni * list draw
                       * option (list (ptree sy))) : bool :=
  let '(code, ps, (f, r), (ml, pop, proba), U, ds, out) := c in
  match run_op code ps f r ml pop proba U ds, out with
  | Some (x, []), Some y => ptrees_eqb x y
  | None, None => true
  | _, _ => false
  end.

(* ---- the recursive common region of k trees (root common; descend iff all arities agree, else
   border), computed with fuel on the parsed trees; compared with the k-tree walk *)
Fixpoint transposeT {A} (n : nat) (ls : list (list A)) : list (list A) :=
  match n with
  | 0 => []
  | S n' => flat_map (fun l => match l with [] => [] | x :: _ => [x] end) ls
            :: transposeT n' (map (@tl A) ls)
  end.
Definition child_offsets (o : nat) (kids : list (tree sy)) : list nat := child_starts (S o) kids.

Fixpoint crk_rec (fuel : nat) (ts : list (tree sy)) (os : list nat) : list (list nat) * list (list nat) :=
  match fuel with
  | 0 => ([], [])
  | S f =>
    let ars := map (fun t => sy_arity (root t)) ts in
    if all_eqb ars then
      let n := hd 0 ars in
      let kidcols := transposeT n (map (@children sy) ts) in
      let offcols := transposeT n (map (fun to => child_offsets (snd to) (children (fst to))) (combine ts os)) in
      let rs := map (fun ko => crk_rec f (fst ko) (snd ko)) (combine kidcols offcols) in
      (os :: flat_map fst rs, flat_map snd rs)
    else ([os], [os])
  end.
Definition chk_crk_rec (c : list (list sy)) : bool :=
  let ts := map (parse sy_arity) c in
  if forallb (fun o => match o with Some _ => true | None => false end) ts then
    let ts' := flat_map (fun o => match o with Some t => [t] | None => [] end) ts in
    match common_region_k (map (nargs sy_arity) c) with
    | Some (cs, bs) =>
      let '(cs', bs') := crk_rec (S (length (hd [] c))) ts' (map (fun _ => 0) ts') in
      natlists_eqb cs cs' && natlists_eqb bs bs'
    | None => false
    end
  else false.
