(* C08Check.v — boolean case checkers evaluated by the correspondence (no proofs here).
   Symbols are (identifier, arity) pairs as in C09Check.v; a universal set is sent as
     (function symbols in the order given,  terminal entries (kind, a, b))
   kind 0 = TerminalNode with identifier a;  kind 1 = EphemeralNode whose generator returns
   a + randint(0, b, 1)[0]   (one DU draw, library randint). *)
From Coq Require Import List Arith Bool Lia ZArith QArith.
Import ListNotations.
From TF Require Import Base RandomPrims Tree TreeIdx GPOps GPOpsProofs4 C09Check.
Open Scope nat_scope.

Definition eph (base n : nat) : M sy :=
  r <- randint 0 (Z.of_nat n) 1 ;; ret (base + Z.to_nat (nth 0 r 0%Z), 0).
Definition uni := (list sy * list (nat * nat * nat))%type.
Definition mk_uniset (u : uni) : uniset (sym := sy) :=
  {| u_funcs := fst u;
     u_terms := map (fun e : nat * nat * nat =>
                       let '(k, a, b) := e in
                       match k with 0 => inl (a, 0) | _ => inr (eph a b) end) (snd u) |}.

Fixpoint ptrees_eqb (a b : list (ptree sy)) : bool :=
  match a, b with
  | [], [] => true
  | x :: a', y :: b' => ptree_eqb x y && ptrees_eqb a' b'
  | _, _ => false
  end.

Definition one {A} (m : M A) : M (list A) := x <- m ;; ret [x].

(* operator codes:
   0 empty  1 standard  2 one_point  3 uniform  4 uniform_prop  5 uniform_rank  6 uniform_tour
   10 point  11 grow  12 swap  13 shrink  14 swap as it was before the repair
   20 full_growing_method  21 growing_method  22 random_tree  23 half_and_half *)
Definition run_op (code : nat) (ps : list (ptree sy)) (f r : list Q) (ml pop : nat) (proba : Q) (U : uni)
  : M (list (ptree sy)) :=
  let t := nth 0 ps ([], []) in
  let u := mk_uniset U in
  match code with
  | 0 => one (empty_crossoverGP ps)
  | 1 => one (standard_crossover ps ml)
  | 2 => one (one_point_crossoverGP ps)
  | 3 => one (uniform_crossoverGP sy_arity ps f r)
  | 4 => one (uniform_proportional_crossover_GP sy_arity ps f r)
  | 5 => one (uniform_rank_crossover_GP sy_arity ps f r)
  | 6 => one (uniform_tournament_crossover_GP sy_arity ps f r)
  | 10 => one (point_mutation sy_arity t u proba)
  | 11 => one (growing_mutation sy_arity t u proba)
  | 12 => one (swap_mutation t u proba)
  | 13 => one (shrink_mutation t u proba)
  | 14 => one (swap_mutation_old t u proba)
  | 20 => one (full_growing_method sy_arity u ml)
  | 21 => one (growing_method sy_arity u ml)
  | 22 => one (random_tree sy_arity u ml)
  | 23 => half_and_half sy_arity pop u ml
  | _ => fail
  end.

(* out = None: the implementation raised (IndexError in mirror mode); the model must fail too *)
Definition chk_op (c : nat * list (ptree sy) * (list Q * list Q) * (nat * nat * Q) * uni * list draw
                       * option (list (ptree sy))) : bool :=
  let '(code, ps, (f, r), (ml, pop, proba), U, ds, out) := c in
  match run_op code ps f r ml pop proba U ds, out with
  | Some (x, []), Some y => ptrees_eqb x y
  | None, None => true
  | _, _ => false
  end.

(* ---- the hypothesis of C08_uniform_k_closed_partial, evaluated on the parents of a case:
   Tree.get_common_region (for k <> 2 parents the k-tree walk common_region_k) returns the
   recursive common region GPOps.crk_tag (columns, and the border positions in parent 0) *)
Definition region_eqb (a b : list (list nat) * list nat) : bool :=
  natlists_eqb (fst a) (fst b) && natlist_eqb (snd a) (snd b).
Definition chk_region (c : list (list sy)) : bool :=
  let ts := map (parse sy_arity) c in
  if forallb (fun o => match o with Some _ => true | None => false end) ts then
    let Ts := flat_map (fun o => match o with Some t => [t] | None => [] end) ts in
    match Ts with
    | [] => false
    | T0 :: _ =>
      match region sy_arity (parents_of sy_arity Ts) with
      | Some r => region_eqb r (region_rec sy_arity Ts (S (depth T0)))
      | None => false
      end
    end
  else false.
