(* C09Check.v — boolean case checkers evaluated by the correspondence (no proofs here).
   Every checker compares the MODEL (TreeIdx.v / TreeEval.v) with what the implementation returned. *)
From Coq Require Import String Ascii.
From Coq Require Import List Arith Bool Lia ZArith QArith Qabs.
Import ListNotations.
From TF Require Import Base Tree TreeIdx TreeEval TreeCRk.
Open Scope nat_scope.

Definition sy := (nat * nat)%type.            (* (identifier, arity) *)
Definition sy_arity (s : sy) : nat := snd s.

Fixpoint natlists_eqb (a b : list (list nat)) : bool :=
  match a, b with
  | [], [] => true
  | x :: a', y :: b' => natlist_eqb x y && natlists_eqb a' b'
  | _, _ => false
  end.
Definition onat_eqb (a : option nat) (b : nat) : bool := match a with Some x => x =? b | None => false end.
Definition onatlist_eqb (a : option (list nat)) (b : list nat) : bool :=
  match a with Some x => natlist_eqb x b | None => false end.
Fixpoint sylist_eqb (a b : list sy) : bool :=
  match a, b with
  | [], [] => true
  | (x1, x2) :: a', (y1, y2) :: b' => (x1 =? y1) && (x2 =? y2) && sylist_eqb a' b'
  | _, _ => false
  end.
Definition ptree_eqb (a b : ptree sy) : bool := sylist_eqb (fst a) (fst b) && natlist_eqb (snd a) (snd b).
Definition optree_eqb (a : option (ptree sy)) (b : ptree sy) : bool :=
  match a with Some x => ptree_eqb x b | None => false end.
Definition wf_list (a : list nat) : bool :=
  match parse (fun n : nat => n) a with Some _ => true | None => false end.

(* ---- index accessors of one tree, every index at once:
   (arity array, [subtree_id(i)[1]], [get_args_id(i)], [get_levels(i)], get_max_level(), len) *)
Definition chk_idx (c : list nat * list nat * list (list nat) * list (list nat) * nat * nat) : bool :=
  let '(a, ends, args, lvls, ml, len) := c in
  let idx := seq 0 (length a) in
  wf_list a
  && (len =? length a)
  && natlist_eqb (map (fun i => match find_end a i with Some e => e | None => 0 end) idx) ends
  && forallb (fun i => match find_end a i with Some _ => true | None => false end) idx
  && natlists_eqb (map (fun i => match find_args a i with Some l => l | None => [0; 0; 0; 0; 0] end) idx) args
  && natlists_eqb (map (levels a) idx) lvls
  && (max_level a =? ml).

(* the same accessor BEFORE the repair of find_id_args_from_i (terminal index = error) *)
Definition chk_args_old (c : list nat * nat * option (list nat)) : bool :=
  let '(a, i, out) := c in
  match find_args_old a i, out with
  | Some x, Some y => natlist_eqb x y
  | None, None => true
  | _, _ => false
  end.

(* ---- subtree / concat on (node list, arity array) *)
Definition chk_subtree (c : ptree sy * nat * ptree sy) : bool :=
  let '(p, i, out) := c in optree_eqb (subtree_p p i) out.
Definition chk_concat (c : ptree sy * nat * ptree sy * ptree sy) : bool :=
  let '(p, i, q, out) := c in optree_eqb (concat_p p i q) out.

(* ---- common region *)
Definition chk_cr2 (c : list nat * list nat * (list nat * list nat * list nat * list nat)) : bool :=
  let '(a1, a2, (c1, c2, b1, b2)) := c in
  match common_region_two a1 a2 with
  | Some (com, bor) =>
    natlist_eqb (map fst com) c1 && natlist_eqb (map snd com) c2
    && natlist_eqb (map fst bor) b1 && natlist_eqb (map snd bor) b2
  | None => false
  end.
(* the recursive definition, evaluated directly on the parsed trees *)
Definition chk_cr2_rec (c : list nat * list nat * (list nat * list nat * list nat * list nat)) : bool :=
  let '(a1, a2, (c1, c2, b1, b2)) := c in
  match parse (fun n : nat => n) a1, parse (fun n : nat => n) a2 with
  | Some t1, Some t2 =>
    let '(com, bor) := cr_rec (fun n : nat => n) t1 t2 0 0 in
    natlist_eqb (map fst com) c1 && natlist_eqb (map snd com) c2
    && natlist_eqb (map fst bor) b1 && natlist_eqb (map snd bor) b2
  | _, _ => false
  end.
(* k trees: the implementation returns one list per tree; the model one list per scanned column *)
Fixpoint transpose (k : nat) (cols : list (list nat)) : list (list nat) :=
  match k with
  | 0 => []
  | S k' => map (fun c => hd 0 c) cols :: transpose k' (map (fun c => tl c) cols)
  end.
Definition chk_crk (c : list (list nat) * list (list nat) * list (list nat)) : bool :=
  let '(arrs, com, bor) := c in
  match common_region_k arrs with
  | Some (cs, bs) =>
    natlists_eqb (transpose (length arrs) cs) com && natlists_eqb (transpose (length arrs) bs) bor
  | None => false
  end.
(* the recursive definition TreeCRk.crk_rec, evaluated directly on the parsed trees *)
Fixpoint parse_all (arrs : list (list nat)) : option (list (tree nat)) :=
  match arrs with
  | [] => Some []
  | a :: r => match parse (fun n : nat => n) a, parse_all r with
              | Some t, Some ts => Some (t :: ts)
              | _, _ => None
              end
  end.
Definition chk_crk_rec (c : list (list nat) * list (list nat) * list (list nat)) : bool :=
  let '(arrs, com, bor) := c in
  match parse_all arrs with
  | Some (t0 :: ts') =>
    let '(cs, bs) := region_of (crk_rec (fun n : nat => n) (S (depth t0)) (t0 :: ts') (map (fun _ => 0) arrs)) in
    natlists_eqb (transpose (length arrs) cs) com && natlists_eqb (transpose (length arrs) bs) bor
  | _ => false
  end.
(* k = 2: the k-tree walk and the two-tree walk return the same region *)
Definition chk_crk_vs_cr2 (c : list nat * list nat) : bool :=
  let '(a1, a2) := c in
  match common_region_k [a1; a2], common_region_two a1 a2 with
  | Some (cs, bs), Some (com, bor) =>
    natlists_eqb (transpose 2 cs) [map fst com; map snd com]
    && natlists_eqb (transpose 2 bs) [map fst bor; map snd bor]
  | _, _ => false
  end.

(* ---- __call__ / __str__ with an exact integer-valued interpretation.
   fI f [a0; ..; ak-1] = (7 (f+1) + sum (i+2) a_i + a_0 * a_(k-1)) mod 1000003   (order sensitive;
   python's % and Z.modulo agree for a positive modulus) *)
Fixpoint wsum (i : Z) (args : list Z) : Z :=
  match args with [] => 0%Z | a :: r => ((i + 2) * a + wsum (i + 1) r)%Z end.
Definition fI_int (f : nat) (args : list Z) : Z :=
  ((7 * (Z.of_nat f + 1) + wsum 0 args + hd 0%Z args * last args 0%Z) mod 1000003)%Z.

Definition chk_call_int (c : list (node Z) * Z) : bool :=
  let '(p, out) := c in
  match call node_arity (ninterp fI_int) p with Some v => (v =? out)%Z | None => false end.

(* set_terminals: value of the re-bound copy, and its node sequence *)
Definition nodeZ_eqb (a b : node Z) : bool :=
  match a, b with
  | FN f ar, FN g br => (f =? g) && (ar =? br)
  | TN n v, TN m w => (n =? m) && (v =? w)%Z
  | _, _ => false
  end.
Fixpoint nodesZ_eqb (a b : list (node Z)) : bool :=
  match a, b with
  | [], [] => true
  | x :: a', y :: b' => nodeZ_eqb x y && nodesZ_eqb a' b'
  | _, _ => false
  end.
Definition chk_set_terminals (c : list (node Z) * list (nat * Z) * list (node Z) * Z) : bool :=
  let '(p, env, outp, outv) := c in
  nodesZ_eqb (set_terminals env p) outp
  && match call node_arity (ninterp fI_int) (set_terminals env p) with Some v => (v =? outv)%Z | None => false end
  && match parse node_arity p with
     | Some t => (eval (ninterp_env fI_int env) t =? outv)%Z
     | None => false
     end.

Definition chk_eq (c : list (node Z) * list (node Z) * bool) : bool :=
  let '(p, q, out) := c in Bool.eqb (tree_eqb p q) out.

(* printing: tables give the format string of each function identifier / the name of each terminal *)
Definition chk_str (c : list (node unit) * list string * list string * string) : bool :=
  let '(p, ff, tn, out) := c in
  match show (fun f => nth f ff EmptyString) (fun n => nth n tn EmptyString) p with
  | Some s => String.eqb s out
  | None => false
  end.

(* ---- real operators.  Transcendental functions are given by a finite oracle computed with
   python's math module: entries (function, argument, value); looked up by nearest argument
   (relative 2^-40); a missing entry yields a sentinel that cannot match. *)
Definition Qrel_close (tol a b : Q) : bool :=
  Qle_bool (Qabs (a - b)) (tol * (1 + Qabs a))%Q || Qeq_bool a b.
Fixpoint tr_of (o : list (nat * Q * Q)) (fid : nat) (x : Q) : Q :=
  match o with
  | [] => (123456789 # 1)%Q
  | (g, a, v) :: r => if (g =? fid) && Qrel_close (1 # 1099511627776) a x then v else tr_of r fid x
  end.
Definition val_close (tol : Q) (a b : val) : bool :=
  match a, b with
  | Sc x, Sc y => Qrel_close tol x y
  | Ar lx, Ar ly => (length lx =? length ly) && forallb (fun p => Qrel_close tol (fst p) (snd p)) (combine lx ly)
  | _, _ => false
  end.
(* (nodes, oracle, old save_div?, tolerance, implementation's result) *)
Definition chk_call_real (c : list (node val) * list (nat * Q * Q) * bool * Q * val) : bool :=
  let '(p, o, old, tol, out) := c in
  match call node_arity (ninterp (sym_op (tr_of o) old)) p with
  | Some v => val_close tol v out
  | None => false
  end.
(* batch vs per sample on the model side: sample k of the batch value = value of sample k alone *)
Definition chk_batch_model (c : list (node val) * list (nat * Q * Q) * bool * nat) : bool :=
  let '(p, o, old, k) := c in
  match call node_arity (ninterp (sym_op (tr_of o) old)) p,
        call node_arity (ninterp (sym_op (tr_of o) old))
             (map (fun n => match n with FN f ar => FN f ar | TN nm v => TN nm (Sc (proj k v)) end) p) with
  | Some v, Some w => Qeq_bool (proj k v) (proj 0 w)
  | _, _ => false
  end.

(* ---- bounded sweep used by C09_common_region_k_partial: every well-formed arity array with at
   most n nodes over arities 0..3 *)
Fixpoint all_lists (n : nat) : list (list nat) :=
  match n with
  | 0 => [[]]
  | S n' => [] :: flat_map (fun l => map (fun a => a :: l) [0; 1; 2; 3]) (all_lists n')
  end.
Definition shapes_upto (n : nat) : list (list nat) := filter wf_list (all_lists n).
Definition crk_agrees_cr2 (a1 a2 : list nat) : bool := chk_crk_vs_cr2 (a1, a2).

(* ---- record of the repaired defect: the name table as it was (second "logabs" = sqrt(abs)) *)
Definition sym_table_old : list symrow := [
  {| sr_key := "cos"; sr_fmt := "cos({})"; sr_name := "cos"; sr_sign := "cos"; sr_op := "..utils.cos" |};
  {| sr_key := "sin"; sr_fmt := "sin({})"; sr_name := "sin"; sr_sign := "sin"; sr_op := "..utils.sin" |};
  {| sr_key := "add"; sr_fmt := "({} + {})"; sr_name := "add"; sr_sign := "+"; sr_op := "operator.add" |};
  {| sr_key := "sub"; sr_fmt := "({} - {})"; sr_name := "sub"; sr_sign := "-"; sr_op := "operator.sub" |};
  {| sr_key := "mul"; sr_fmt := "({} * {})"; sr_name := "mul"; sr_sign := "*"; sr_op := "operator.mul" |};
  {| sr_key := "div"; sr_fmt := "({} / {})"; sr_name := "div"; sr_sign := "/"; sr_op := "..utils.save_div" |};
  {| sr_key := "abs"; sr_fmt := "abs({})"; sr_name := "abs"; sr_sign := "abs"; sr_op := "operator.abs" |};
  {| sr_key := "logabs"; sr_fmt := "log(abs({}))"; sr_name := "log(abs)"; sr_sign := "log(abs)"; sr_op := "..utils.logabs" |};
  {| sr_key := "exp"; sr_fmt := "exp({})"; sr_name := "exp"; sr_sign := "exp"; sr_op := "..utils.save_exp" |};
  {| sr_key := "logabs"; sr_fmt := "sqrt(abs({}))"; sr_name := "sqrt(abs)"; sr_sign := "sqrt(abs)"; sr_op := "..utils.sqrtabs" |}
]%string.
(* python dict semantics: the LAST entry with a key is the one a lookup returns *)
Fixpoint dict_get (k : string) (t : list symrow) : option symrow :=
  match t with
  | [] => None
  | r :: t' => match dict_get k t' with Some x => Some x | None => if String.eqb (sr_key r) k then Some r else None end
  end.
