(* BenchProofs2.v — C20: refutation witnesses for the PRE-REPAIR footprint table (BenchPre.v).
   Each witness is a concrete history on which the faithful model of the old code makes a
   reader see different table contents than on a fresh store; the same histories are replayed on
   the real code by harness/props/c20.py (family "refuted-witness"). *)
From TF Require Import Base Bench BenchProofs BenchPre.
From Coq Require Import String.
Open Scope string_scope.
Open Scope Z_scope.

Definition index_of (tbl : list entry) (name : string) : nat :=
  (fix go (l : list entry) (i : nat) : nat :=
     match l with [] => i | e :: t => if String.eqb (e_name e) name then i else go t (S i) end) tbl O.
Definition tab_of (names : list string) (name : string) : nat :=
  (fix go (l : list string) (i : nat) : nat :=
     match l with [] => i | e :: t => if String.eqb e name then i else go t (S i) end) names O.

Definition orc_id : oracle := fun _ _ v => v.
Definition s_zero : store := fun _ => 0%Q.

Definition history_dependent (tbl : list entry) (dims : list Z) (name : string) : Prop :=
  exists orc s0 h p D c,
    Forall (valid_event tbl dims) h /\ (p < List.length tbl)%nat /\ In D dims /\ In (Ctor p) h /\
    in_reads tbl p D c = true /\ e_name (nth p tbl dummy_entry) = name /\
    run orc tbl (h ++ [Call p D]) s0 c <> run orc tbl [Ctor p; Call p D] s0 c.

Ltac valid_ev :=
  match goal with
  | |- valid_event _ _ (Ctor _) => vm_compute; lia
  | |- valid_event _ _ (Call _ _) => split; [vm_compute; lia | simpl; tauto]
  end.
Ltac valid_hist := repeat (apply Forall_cons; [valid_ev|]); apply Forall_nil.

(* F5: a D=10 call leaves 100 in o_206[8], which a D=30 call reads and does not rewrite *)
Definition pF5 := index_of pre_table "Schwefel2_6".
Definition tF5 := tab_of pre_table_names "schwefel_206_data".
Lemma F5_history_dependent : history_dependent pre_table supported_dims "Schwefel2_6".
Proof.
  exists orc_id, s_zero, [Ctor pF5; Call pF5 10], pF5, 30, (tF5, [0; 8]).
  split; [valid_hist|]. split; [vm_compute; lia|]. split; [simpl; tauto|].
  split; [left; reflexivity|]. split; [vm_compute; reflexivity|]. split; [vm_compute; reflexivity|].
  vm_compute. discriminate.
Qed.

(* F20 -> F18: any F20 call leaves 5 in row 0 of the table F18 reads *)
Definition pF18 := index_of pre_table "RotatedHybridCompositionFunction".
Definition pF20 := index_of pre_table "RotatedHybridCompositionFunctionOptimalBounds".
Definition tH2 := tab_of pre_table_names "hybrid_func2_data".
Lemma F18_after_F20_history_dependent : history_dependent pre_table supported_dims "RotatedHybridCompositionFunction".
Proof.
  exists orc_id, s_zero, [Ctor pF18; Ctor pF20; Call pF20 10], pF18, 10, (tH2, [0; 1]).
  split; [valid_hist|]. split; [vm_compute; lia|]. split; [simpl; tauto|].
  split; [left; reflexivity|]. split; [vm_compute; reflexivity|]. split; [vm_compute; reflexivity|].
  vm_compute. discriminate.
Qed.

(* F20 on itself: a D=50 call writes 5 at index 5, which a D=10 call reads and does not rewrite *)
Lemma F20_history_dependent : history_dependent pre_table supported_dims "RotatedHybridCompositionFunctionOptimalBounds".
Proof.
  exists orc_id, s_zero, [Ctor pF20; Call pF20 50], pF20, 10, (tH2, [0; 5]).
  split; [valid_hist|]. split; [vm_compute; lia|]. split; [simpl; tauto|].
  split; [left; reflexivity|]. split; [vm_compute; reflexivity|]. split; [vm_compute; reflexivity|].
  vm_compute. discriminate.
Qed.

Lemma pre_table_not_ok : table_ok pre_table supported_dims = false.
Proof. vm_compute. reflexivity. Qed.

Lemma history_refuted_pre :
  table_ok pre_table supported_dims = false /\
  history_dependent pre_table supported_dims "Schwefel2_6" /\
  history_dependent pre_table supported_dims "RotatedHybridCompositionFunction" /\
  history_dependent pre_table supported_dims "RotatedHybridCompositionFunctionOptimalBounds".
Proof.
  split; [exact pre_table_not_ok|]. split; [exact F5_history_dependent|].
  split; [exact F18_after_F20_history_dependent|exact F20_history_dependent].
Qed.

(* argument: the three rounding classes write their argument *)
Definition argument_written (tbl : list entry) (name : string) : Prop :=
  let p := index_of tbl name in
  (p < List.length tbl)%nat /\ e_arg (nth p tbl dummy_entry) <> [] /\
  exists orc D x c, arg_after orc tbl p D x c <> x c.

Lemma pre_argument_written :
  argument_written pre_table "NonContinuosRastrigin" /\
  argument_written pre_table "NonContinuosExpandedScaffers_F6" /\
  argument_written pre_table "NonContinuousHybridCompositionFunction3".
Proof.
  repeat split; try (vm_compute; lia); try (vm_compute; discriminate);
    exists (fun _ _ v => (v + 1)%Q), 2, s_zero, (O, [0; 0]); vm_compute; discriminate.
Qed.

(* F8's write is of the harmless kind: the pre-repair table restricted to it already satisfies
   the condition (the reader rewrites what it reads) *)
Lemma pre_F8_reader_ok :
  forallb (fun D => reader_ok pre_table supported_dims (index_of pre_table "ShiftedRotatedAckley") D)
          supported_dims = true.
Proof. vm_compute. reflexivity. Qed.
