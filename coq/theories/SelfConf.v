(* SelfConf.v — self-configuration of operator probabilities (C14).
   Sources: optimizers/_selfcga.py (constructor probabilities, _choice_operators, _get_new_proba,
   _find_fittest_operator, _adapt), optimizers/_pdpga.py (_culc_r_i, _get_new_proba_pdp, _adapt),
   inherited unchanged by SelfCGP / PDPGP.
   An operator map is a list of probabilities indexed by the position of the operator name in the
   SORTED name list (the code keeps its dicts sorted by key); the operators that created the
   current population are a list of such positions (one per individual). *)
From TF Require Export Base RandomPrims.
Open Scope Q_scope.

Fixpoint qsum (l : list Q) : Q := match l with [] => 0 | x :: t => x + qsum t end.

(* ---- constructor ---- *)
Definition init_uniform (z : nat) : list Q := repeat (1 / inject_Z (Z.of_nat z)) z.
(* crossover map when 'empty' is among the names (at sorted position e): 0.9/(z-1) each, empty = 0.1;
   a set consisting of 'empty' alone gets probability 1 (repaired constructor) *)
Definition init_with_empty (z e : nat) : list Q :=
  if (z =? 1)%nat then [1]
  else upd (repeat ((9 # 10) / inject_Z (Z.of_nat (z - 1))) z) e (1 # 10).

(* ---- SelfC*: _find_fittest_operator ---- *)
Definition members (j : nat) (labels : list nat) (fit : list Q) : list Q :=
  map snd (filter (fun p => (fst p =? j)%nat) (combine labels fit)).
Definition mean (l : list Q) : Q := qsum l / inject_Z (Z.of_nat (length l)).
(* keys = sorted names that occur; arg-max of the group means, first maximum *)
Fixpoint fittest_from (z : nat) (j : nat) (labels : list nat) (fit : list Q) (best : option (nat * Q)) : option (nat * Q) :=
  match z with
  | O => best
  | S z' =>
    let ms := members j labels fit in
    let best' := match ms with
                 | [] => best
                 | _ => match best with
                        | None => Some (j, mean ms)
                        | Some (b, mb) => if Qltb mb (mean ms) then Some (j, mean ms) else best
                        end
                 end in
    fittest_from z' (S j) labels fit best'
  end.
Definition find_fittest_operator (z : nat) (labels : list nat) (fit : list Q) : nat :=
  match fittest_from z 0 labels fit None with Some (j, _) => j | None => O end.

(* ---- SelfC*: _get_new_proba ---- *)
Definition clip (lo hi x : Q) : Q := if Qltb x lo then lo else if Qltb hi x then hi else x.
Definition selfc_raw (K iters : Q) (p : list Q) (w : nat) : list Q :=
  let z := inject_Z (Z.of_nat (length p)) in
  map (fun x => x - K / (z * iters)) (upd p w (nth w p 0 + K / iters)).
Definition selfc_new_proba (K iters thr : Q) (p : list Q) (w : nat) : list Q :=
  let c := map (clip thr 1) (selfc_raw K iters p w) in
  map (fun x => x / qsum c) c.

(* ---- _choice_operators: pop_size weighted picks (C11) under the given map ---- *)
Definition choice_operators (p : list Q) (pop_size : nat) : M (list Z) := random_weighted_sample p pop_size true.

(* ---- SelfCGA._adapt ---- *)
Record maps := { m_sel : list Q; m_cx : list Q; m_mu : list Q }.
Record ops := { o_sel : list nat; o_cx : list nat; o_mu : list nat }.
Definition nats (l : list Z) : list nat := map Z.to_nat l.
Definition selfc_adapt (K iters : Q) (thr_s thr_c thr_m : Q) (pop_size : nat)
                       (m : maps) (o : ops) (fit : list Q) : M (maps * ops) :=
  let ps := selfc_new_proba K iters thr_s (m_sel m) (find_fittest_operator (length (m_sel m)) (o_sel o) fit) in
  let pc := selfc_new_proba K iters thr_c (m_cx m) (find_fittest_operator (length (m_cx m)) (o_cx o) fit) in
  let pm := selfc_new_proba K iters thr_m (m_mu m) (find_fittest_operator (length (m_mu m)) (o_mu o) fit) in
  s <- choice_operators ps pop_size ;;
  c <- choice_operators pc pop_size ;;
  u <- choice_operators pm pop_size ;;
  ret ({| m_sel := ps; m_cx := pc; m_mu := pm |}, {| o_sel := nats s; o_cx := nats c; o_mu := nats u |}).

(* ---- PDP*: _culc_r_i / _get_new_proba_pdp ---- *)
Definition successes (j : nat) (labels : list nat) (succ : list bool) : nat :=
  length (filter (fun p => (fst p =? j)%nat && snd p) (combine labels succ)).
Definition uses (j : nat) (labels : list nat) : nat := length (filter (Nat.eqb j) labels).
Definition r_value (j : nat) (labels : list nat) (succ : list bool) : Q :=
  if (uses j labels =? 0)%nat then 0
  else (inject_Z (Z.of_nat (successes j labels succ * successes j labels succ)) + 1) /
       (inject_Z (Z.of_nat (uses j labels)) + 1).
Definition pdp_new_proba (thr : Q) (z : nat) (labels : list nat) (succ : list bool) : list Q :=
  let r := map (fun j => r_value j labels succ) (seq 0 z) in
  map (fun x => thr + x * ((1 - inject_Z (Z.of_nat z) * thr) / qsum r)) r.

(* PDPGA._adapt (repaired: the operators of the next generation are re-drawn from the updated maps);
   previous = fitness of the remembered parent of each individual; nothing happens before the first
   offspring generation (previous = []) *)
Definition success_mask (previous fit : list Q) : list bool := map (fun p => Qltb (fst p) (snd p)) (combine previous fit).
Definition pdp_adapt (thr_s thr_c thr_m : Q) (pop_size : nat)
                     (m : maps) (o : ops) (previous fit : list Q) : M (maps * ops) :=
  match previous with
  | [] => ret (m, o)
  | _ =>
    let sc := success_mask previous fit in
    let ps := pdp_new_proba thr_s (length (m_sel m)) (o_sel o) sc in
    let pc := pdp_new_proba thr_c (length (m_cx m)) (o_cx o) sc in
    let pm := pdp_new_proba thr_m (length (m_mu m)) (o_mu o) sc in
    s <- choice_operators ps pop_size ;;
    c <- choice_operators pc pop_size ;;
    u <- choice_operators pm pop_size ;;
    ret ({| m_sel := ps; m_cx := pc; m_mu := pm |}, {| o_sel := nats s; o_cx := nats c; o_mu := nats u |})
  end.
(* the code before the repair updated the maps and kept the operators drawn before the first generation *)
Definition pdp_adapt_old (thr_s thr_c thr_m : Q) (m : maps) (o : ops) (previous fit : list Q) : maps * ops :=
  match previous with
  | [] => (m, o)
  | _ =>
    let sc := success_mask previous fit in
    ({| m_sel := pdp_new_proba thr_s (length (m_sel m)) (o_sel o) sc;
        m_cx := pdp_new_proba thr_c (length (m_cx m)) (o_cx o) sc;
        m_mu := pdp_new_proba thr_m (length (m_mu m)) (o_mu o) sc |}, o)
  end.

(* a distribution over the configured names with floor [lo] *)
Definition distribution (lo : Q) (z : nat) (p : list Q) : Prop :=
  length p = z /\ qsum p == 1 /\ Forall (fun x => 0 < x /\ lo <= x) p.
