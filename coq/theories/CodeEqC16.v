(* CodeEqC16.v — EvolutionaryAlgorithm._get_n_jobs, translated on every run as a method (os.cpu_count() = the parameter cpu,
   `raise ValueError` = no result), IS the model's get_n_jobs (Split.v): negative values count back from the number of CPUs and are
   clamped to [1, pop_size], 0 is rejected, values above pop_size are clamped to pop_size. *)
From TF Require Import Py Split.
From TFG Require Import GenCode.
Open Scope Z_scope.

Theorem code_get_n_jobs cpu pop n ds :
  py_EA_get_n_jobs cpu pop n ds = match get_n_jobs cpu pop n with Some v => Some (v, ds) | None => None end.
Proof.
  unfold py_EA_get_n_jobs, get_n_jobs. rewrite Z.gtb_ltb.
  destruct (n <? 0); [reflexivity|]. destruct (n =? 0); [reflexivity|]. destruct (pop <? n); reflexivity.
Qed.

(* hence: whenever the source's _get_n_jobs returns, the value is a worker count in [1, pop_size] (pop_size >= 1) *)
Theorem src_get_n_jobs_range cpu pop n v ds ds' : 1 <= pop ->
  py_EA_get_n_jobs cpu pop n ds = Some (v, ds') -> 1 <= v <= pop /\ n <> 0 /\ ds' = ds.
Proof.
  intros Hp. rewrite code_get_n_jobs. unfold get_n_jobs.
  destruct (Z.ltb_spec n 0) as [L0|L0]; [intro X; inversion X; subst; repeat split; lia|].
  destruct (Z.eqb_spec n 0) as [E0|E0]; [discriminate|].
  destruct (Z.ltb_spec pop n) as [L1|L1]; intro X; inversion X; subst; repeat split; lia.
Qed.
