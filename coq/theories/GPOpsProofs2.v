(* GPOpsProofs2.v — C08, part 2: the initialisers (full / grow / random_tree / half_and_half) produce
   well-formed trees of depth <= max_level (full: every leaf exactly at max_level), for ANY universal
   set whose function symbols take arguments and whose terminals do not; growing mutation. *)
From Coq Require Import List Arith Bool Lia ZArith QArith.
Import ListNotations.
From TF Require Import Base RandomPrims RandomPrimsProofs2 Tree TreeIdx TreeProofs TreeProofs2 GPOps GPOpsProofs.
Open Scope nat_scope.

Section I.
  Context {sym : Type}.
  Variable arity : sym -> nat.
  Notation tree := (tree sym).
  Notation nargs := (nargs arity).
  Notation wft := (wft arity).
  Notation wff := (wff arity).
  Notation mk := (mk arity).
  Notation good := (good arity).
  Notation in_uniset := (in_uniset (sym := sym)).

  (* every leaf exactly d levels below the root *)
  Fixpoint fullt (d : nat) (t : tree) : bool :=
    match t with
    | Node _ kids =>
      match kids with
      | [] => d =? 0
      | _ => match d with 0 => false | S d' => forallb (fullt d') kids end
      end
    end.

  Definition tagl (p : list sym) : list (sym * nat) := map (fun s => (s, arity s)) p.
  Lemma tagl_app a b : tagl (a ++ b) = tagl a ++ tagl b.
  Proof. apply map_app. Qed.
  Lemma tagl_fst p : map fst (tagl p) = p.
  Proof. unfold tagl. rewrite map_map. simpl. apply map_id. Qed.
  Lemma tagl_snd p : map snd (tagl p) = nargs p.
  Proof. unfold tagl. rewrite map_map. reflexivity. Qed.

  Section Fits.
    Variable U : uniset (sym := sym).
    Hypothesis UO : uniset_ok arity U.
    Variable ml : nat.
    Variable full : bool.

    (* a generated sub-term whose root sits at level lv *)
    Definition okt (lv : nat) (t : tree) : Prop :=
      wft t = true /\ lv + depth t <= ml /\ (full = true -> fullt (ml - lv) t = true) /\
      (forall x, In x (flatten t) -> in_uniset U x).

    (* what the loop still has to produce for a stack of pending argument counts *)
    Inductive fits : list (nat * nat) -> list (sym * nat) -> Prop :=
    | fits_nil : fits [] []
    | fits_cons c lv st F r : length F = c -> Forall (okt lv) F -> fits st r ->
                              fits ((c, lv) :: st) (tagl (flats F) ++ r).

    Definition st_next (c lv : nat) (st : list (nat * nat)) : list (nat * nat) :=
      match c with 1 => st | _ => (c - 1, lv) :: st end.

    Lemma fits_push c lv st t r : 1 <= c -> okt lv t -> fits (st_next c lv st) r ->
      fits ((c, lv) :: st) (tagl (flatten t) ++ r).
    Proof.
      intros Hc Ht H. destruct c as [|[|c]]; [lia| |].
      - simpl in H. pose proof (fits_cons 1 lv st [t] r eq_refl (Forall_cons _ Ht (Forall_nil _)) H) as X.
        rewrite flats_cons in X. simpl flats in X. rewrite app_nil_r in X. exact X.
      - simpl in H. inversion H as [|c' lv' st' F r' HL HF HR]; subst.
        pose proof (fits_cons (S (S c)) lv st (t :: F) r' ltac:(simpl; lia) (Forall_cons _ Ht HF) HR) as X.
        rewrite flats_cons, tagl_app, <- app_assoc in X. replace (c - 0) with c in * by lia. exact X.
    Qed.

    Lemma okt_leaf lv s : lv <= ml -> arity s = 0 -> in_uniset U s -> (full = true -> lv = ml) -> okt lv (Node s []).
    Proof.
      intros Hl Ha Hu Hf. repeat split.
      - simpl. rewrite Ha. reflexivity.
      - simpl. lia.
      - intros F. rewrite (Hf F). replace (ml - ml) with 0 by lia. reflexivity.
      - intros x [<-|[]]. auto.
    Qed.

    Lemma depth_f_le (K : list tree) d : Forall (fun k => S (depth k) <= d) K -> depth_f K <= d.
    Proof.
      induction 1 as [|k K Hk HK IH].
      - unfold depth_f; simpl; lia.
      - rewrite depth_f_cons. lia.
    Qed.

    Lemma okt_node lv s (K : list tree) : lv < ml -> length K = arity s -> 1 <= arity s -> in_uniset U s ->
      Forall (okt (S lv)) K -> okt lv (Node s K).
    Proof.
      intros Hl HL Ha Hu HK. repeat split.
      - apply wft_Node. split; auto. unfold Tree.wff. apply forallb_forall. intros k Hk.
        rewrite Forall_forall in HK. apply HK in Hk. apply Hk.
      - rewrite depth_Node. assert (depth_f K <= ml - lv); [|lia]. apply depth_f_le.
        rewrite Forall_forall in *. intros k Hk. apply HK in Hk. destruct Hk as (_ & Hd & _). lia.
      - intros F. destruct K as [|k0 K']; [simpl in HL; lia|].
        replace (ml - lv) with (S (ml - S lv)) by lia. cbn [fullt]. apply forallb_forall. intros k Hk.
        rewrite Forall_forall in HK. apply HK in Hk. destruct Hk as (_ & _ & Hf & _). auto.
      - intros x Hx. rewrite flatten_Node in Hx. destruct Hx as [<-|Hx]; auto.
        unfold flats in Hx. apply in_flat_map in Hx. destruct Hx as (k & Hk & Hx).
        rewrite Forall_forall in HK. apply HK in Hk. destruct Hk as (_ & _ & _ & Hs). auto.
    Qed.

    Definition st_ok (st : list (nat * nat)) : Prop := Forall (fun cl => 1 <= fst cl /\ snd cl <= ml) st.
    Lemma st_next_ok c lv st : st_ok ((c, lv) :: st) -> st_ok (st_next c lv st).
    Proof.
      intros H. inversion H as [|x l Hx Hl]; subst. simpl in Hx.
      destruct c as [|[|c]]; simpl; auto. constructor; auto. simpl. lia.
    Qed.

    Lemma grow_loop_fits : forall fuel st ds r ds', st_ok st ->
      grow_loop arity full U ml fuel st ds = Some (r, ds') -> fits st r.
    Proof.
      destruct UO as (UF & UT).
      induction fuel as [|f IH]; intros st ds r ds' Hst H.
      - destruct st as [|[c lv] st]; simpl in H; [|discriminate]. inversion H; subst. constructor.
      - destruct st as [|[c lv] st]; [simpl in H; inversion H; subst; constructor|].
        cbn [grow_loop] in H. fold (st_next c lv st) in H.
        pose proof (st_next_ok _ _ _ Hst) as Hst1.
        inversion Hst as [|x l Hx Hl]; subst. simpl in Hx. destruct Hx as (Hc & Hlv).
        destruct (lv =? ml) eqn:Elv.
        + (* forced terminal *)
          apply Nat.eqb_eq in Elv. minv H. minv H. minv H. inversion H; subst; clear H.
          apply random_terminal_spec in Hm. pose proof (UT _ Hm) as Ha.
          apply IH in Hm0; auto.
          pose proof (fits_push c ml st (Node a []) a0 Hc) as X. simpl in X. rewrite Ha in X.
          apply X; auto. apply okt_leaf; auto. right; auto.
        + apply Nat.eqb_neq in Elv. assert (Hlt : lv < ml) by lia.
          destruct (full || (lv =? 0)) eqn:Ef.
          * (* function node *)
            minv H. minv H. minv H. inversion H; subst; clear H.
            apply random_functional_spec in Hm. destruct Hm as (Hin & _). pose proof (UF _ Hin) as Ha.
            apply IH in Hm0.
            2:{ constructor; auto; simpl; lia. }
            inversion Hm0 as [|c' lv' st' K r' HL HK HR]; subst.
            pose proof (fits_push c lv st (Node a K) r' Hc) as X. rewrite flatten_Node in X.
            simpl in X. apply X; auto.
            apply okt_node; auto. left; auto.
          * (* grow: coin between a terminal and a function *)
            apply orb_false_iff in Ef. destruct Ef as (Ef & _).
            minv H. minv H. minv H. minv H. inversion H; subst; clear H.
            assert (Hu : in_uniset U a0).
            { destruct a.
              - apply random_terminal_spec in Hm0. right; auto.
              - apply random_functional_spec in Hm0. left; tauto. }
            destruct (0 <? arity a0) eqn:Ea.
            -- apply Nat.ltb_lt in Ea. apply IH in Hm1.
               2:{ constructor; auto; simpl; lia. }
               inversion Hm1 as [|c' lv' st' K r' HL HK HR]; subst.
               pose proof (fits_push c lv st (Node a0 K) r' Hc) as X. rewrite flatten_Node in X.
               simpl in X. apply X; auto.
               apply okt_node; auto.
            -- apply Nat.ltb_ge in Ea. apply IH in Hm1; auto.
               pose proof (fits_push c lv st (Node a0 []) a1 Hc) as X. simpl in X.
               apply X; auto. apply okt_leaf; auto; [lia|intros F; congruence].
    Qed.

    Theorem gen_tree_spec ds t ds' : gen_tree arity full U ml ds = Some (t, ds') ->
      exists T, good t T /\ depth T <= ml /\ (full = true -> fullt ml T = true) /\
                (forall x, In x (flatten T) -> in_uniset U x).
    Proof.
      unfold gen_tree. intros H.
      destruct (grow_loop arity full U ml (S (length ds)) [(1, 0)] ds) as [[r ds1]|] eqn:E; [|discriminate].
      inversion H; subst; clear H. apply grow_loop_fits in E.
      2:{ constructor; [simpl; lia|constructor]. }
      inversion E as [|c lv st F r' HL HF HR]; subst. inversion HR; subst.
      destruct F as [|T [|? ?]]; try discriminate. inversion HF as [|x l (W & Hd & Hf & Hs) _]; subst.
      exists T. rewrite flats_cons. simpl flats. rewrite !app_nil_r, tagl_fst, tagl_snd.
      split; [split; auto|]. split; [lia|]. split; auto. rewrite Nat.sub_0_r in Hf. auto.
    Qed.
  End Fits.

  (* ------------------------------------------------------------------ the initialisers *)
  Definition in_U (U : uniset (sym := sym)) (T : tree) : Prop := forall x, In x (flatten T) -> in_uniset U x.

  Theorem full_growing_method_spec U ml ds t ds' : uniset_ok arity U ->
    full_growing_method arity U ml ds = Some (t, ds') ->
    exists T, good t T /\ depth T <= ml /\ fullt ml T = true /\ in_U U T.
  Proof.
    intros UO H. destruct (gen_tree_spec U UO ml true ds t ds' H) as (T & G & D & F & S).
    exists T. auto.
  Qed.
  Theorem growing_method_spec U ml ds t ds' : uniset_ok arity U ->
    growing_method arity U ml ds = Some (t, ds') ->
    exists T, good t T /\ depth T <= ml /\ in_U U T.
  Proof.
    intros UO H. destruct (gen_tree_spec U UO ml false ds t ds' H) as (T & G & D & F & S).
    exists T. auto.
  Qed.
  Theorem random_tree_spec U ml ds t ds' : uniset_ok arity U ->
    random_tree arity U ml ds = Some (t, ds') ->
    exists T, good t T /\ depth T <= ml /\ in_U U T.
  Proof.
    intros UO H. unfold random_tree in H. minv H. destruct a.
    - destruct (full_growing_method_spec _ _ _ _ _ UO H) as (T & G & D & _ & S). exists T. auto.
    - eapply growing_method_spec; eauto.
  Qed.

  Lemma repeatM_Forall {A} (P : A -> Prop) (m : M A) :
    (forall ds x ds', m ds = Some (x, ds') -> P x) ->
    forall n ds l ds', repeatM n m ds = Some (l, ds') -> Forall P l /\ length l = n.
  Proof.
    intros Hm. induction n as [|n IH]; intros ds l ds' H; simpl in H.
    - minv H. inversion H; subst. auto.
    - minv H. minv H. minv H. inversion H; subst. apply IH in Hm1. destruct Hm1. split; [constructor; eauto|simpl; lia].
  Qed.

  (* randint(2, max_level, 1)[0] <= max_level whenever 2 <= max_level *)
  Lemma level_draw ml ds l ds' : valid_draws ds -> 2 <= ml ->
    randint 2 (Z.of_nat ml) 1 ds = Some (l, ds') -> Z.to_nat (nth 0 l 0%Z) <= ml.
  Proof.
    intros Hv Hml H. destruct (Nat.eq_dec ml 2) as [->|Hne].
    - cbn [randint] in H. unfold bind, ret, popU in H. destruct ds as [|[u|? ?|?] ds1]; try discriminate.
      inversion H; subst; clear H. cbn [nth].
      replace (Z.of_nat 2 - 2)%Z with 0%Z by lia.
      unfold Qfloor'. destruct u as [p q]. simpl. lia.
    - destruct (randint_range 2 (Z.of_nat ml) ltac:(lia) 1 ds l ds' Hv H) as (HL & HF).
      destruct l as [|v [|? ?]]; try discriminate. inversion HF; subst. simpl. lia.
  Qed.

  Theorem half_and_half_spec pop U ml ds l ds' : uniset_ok arity U -> valid_draws ds -> 2 <= ml ->
    half_and_half arity pop U ml ds = Some (l, ds') ->
    length l = pop /\ Forall (fun t => exists T, good t T /\ depth T <= ml /\ in_U U T) l.
  Proof.
    intros UO Hv Hml H. unfold half_and_half in H. minv H.
    pose proof (level_draw _ _ _ _ Hv Hml Hm) as Hlv.
    destruct (repeatM_Forall (fun t => exists T, good t T /\ depth T <= Z.to_nat (nth 0 a 0%Z) /\ in_U U T)
                (random_tree arity U (Z.to_nat (nth 0 a 0%Z)))
                (fun ds x ds' Hx => random_tree_spec _ _ _ _ _ UO Hx) _ _ _ _ H) as (HF & HL).
    split; auto. eapply Forall_impl; [|exact HF]. intros t (T & G & D & S). exists T. split; auto. split; [lia|auto].
  Qed.

  (* ------------------------------------------------------------------ growing_mutation *)
  (* named behaviour: the sub-term at one position is replaced by a generated tree over the
     universal set that is no deeper than the sub-term it replaces *)
  Definition is_regrow (U : uniset (sym := sym)) (T C : tree) : Prop :=
    exists i u g, sub_at T i = Some u /\ wft g = true /\ depth g <= depth u /\ in_U U g /\ C = replace_at T i g.

  Theorem growing_mutation_spec t T U proba ds c ds' :
    good t T -> uniset_ok arity U ->
    growing_mutation arity t U proba ds = Some (c, ds') ->
    exists C, good c C /\ (C = T \/ is_regrow U T C).
  Proof.
    intros G UO H. unfold growing_mutation in H. minv H. destruct a.
    2:{ minv H. inversion H; subst. exists T. auto. }
    minv H. minv H. minv H. inversion H; subst; clear H.
    destruct (growing_method_spec _ _ _ _ _ UO Hm1) as (Gt & GG & Dg & Sg).
    destruct (concat_p_good arity _ _ _ _ _ _ G GG Hl) as (u & Hu & Go).
    exists (replace_at T a Gt). split; auto. right. exists a, u, Gt. repeat split; auto.
    - apply GG.
    - destruct G as (W & ->). simpl in Dg.
      rewrite (levels_sub_at arity T u a W Hu), list_max_levels_rec in Dg. simpl in Dg. exact Dg.
  Qed.

  Theorem growing_mutation_closed t U proba ds c ds' ml :
    wfp arity t -> uniset_ok arity U ->
    growing_mutation arity t U proba ds = Some (c, ds') ->
    wfp arity c /\ (forall x, In x (fst c) -> In x (fst t) \/ in_uniset U x) /\
    (depthp t <= ml -> depthp c <= ml).
  Proof.
    intros W UO H. apply wfp_good in W. destruct W as (T & G).
    destruct (growing_mutation_spec _ _ _ _ _ _ _ G UO H) as (C & GC & HC).
    split; [eapply good_wfp; eauto|].
    rewrite (good_depth _ _ _ G), (good_depth _ _ _ GC).
    destruct G as (_ & ->). destruct GC as (_ & ->). simpl. split.
    - intros x Hx. destruct HC as [->|(i & u & g & Hu & Wg & Dg & Sg & ->)]; auto.
      destruct (replace_syms arity _ _ _ _ _ Hu Hx) as [|Hy]; auto.
    - intros D. destruct HC as [->|(i & u & g & Hu & Wg & Dg & Sg & ->)]; auto.
      pose proof (replace_depth_le T i u g Hu Dg). lia.
  Qed.
End I.
