(* DEOps.v — executable models of the real-coded DE operators (C07).
   Sources: optimizers/_differentialevolution.py (bounds_control, _get_new_individ_g),
   optimizers/_shade.py (bounds_control_mean, _get_new_individ_g), utils/crossovers.py (binomial),
   utils/mutations.py (best_1, rand_1, rand_to_best1, current_to_best_1, best_2, rand_2,
   current_to_pbest_1_archive_p_min).  Arithmetic is exact (Q). *)
From TF Require Export Base RandomPrims.
Open Scope Q_scope.

Definition vec := list Q.
Definition vnth (v : vec) (i : nat) : Q := nth i v 0.
Definition vbuild (n : nat) (f : nat -> Q) : vec := map f (seq 0 n).

(* bounds_control(array, left, right): clamp each coordinate *)
Definition clamp1 (x l r : Q) : Q := if Qltb x l then l else if Qltb r x then r else x.
Definition bounds_control (a l r : vec) : vec :=
  vbuild (length a) (fun i => clamp1 (vnth a i) (vnth l i) (vnth r i)).

(* bounds_control_mean (repaired): a coordinate outside the box is replaced by the midpoint between
   the violated border and the PARENT's coordinate *)
Definition mean1 (x p l r : Q) : Q :=
  if Qltb x l then (l + p) / 2 else if Qltb r x then (r + p) / 2 else x.
Definition bounds_control_mean (a parent l r : vec) : vec :=
  vbuild (length a) (fun i => mean1 (vnth a i) (vnth parent i) (vnth l i) (vnth r i)).
(* the code before the repair: midpoint between the border and the offending value itself *)
Definition mean1_old (x l r : Q) : Q :=
  if Qltb x l then (l + x) / 2 else if Qltb r x then (r + x) / 2 else x.
Definition bounds_control_mean_old (a l r : vec) : vec :=
  vbuild (length a) (fun i => mean1_old (vnth a i) (vnth l i) (vnth r i)).

(* binomial(individ, mutant, CR): j = randint(0,size,1)[0]; for i: if flip_coin(CR) or i == j *)
Fixpoint qcoins (p : Q) (n : nat) : M (list bool) :=
  match n with
  | O => ret []
  | S k => b <- flip_coin p ;; r <- qcoins p k ;; ret (b :: r)
  end.
Definition binomial_child (individ mutant : vec) (j : Z) (cs : list bool) : vec :=
  vbuild (length individ) (fun i => if nth i cs false || (Z.of_nat i =? j)%Z then vnth mutant i else vnth individ i).
Definition binomial (individ mutant : vec) (CR : Q) : M vec :=
  js <- randint 0 (Z.of_nat (length individ)) 1 ;;
  cs <- qcoins CR (length individ) ;;
  ret (binomial_child individ mutant (nth 0 js 0%Z) cs).

(* linear combinations, coordinate-wise over the length of the first vector *)
Definition row_of (pop : list vec) (i : Z) : vec := nth (Z.to_nat i) pop [].
Definition lin3 (a : vec) (F : Q) (b c : vec) : vec :=                (* a + F (b - c) *)
  vbuild (length a) (fun i => vnth a i + F * (vnth b i - vnth c i)).
Definition lin5 (a : vec) (F : Q) (b c d e : vec) : vec :=            (* a + F (b - c) + F (d - e) *)
  vbuild (length a) (fun i => vnth a i + F * (vnth b i - vnth c i) + F * (vnth d i - vnth e i)).

Definition idx (rs : list Z) (k : nat) : Z := nth k rs 0%Z.
Definition sample_distinct (pop : list vec) (k : nat) : M (list Z) :=
  random_sample (Z.of_nat (length pop)) k false.

(* strategy code: 0 best_1, 1 rand_1, 2 rand_to_best1, 3 current_to_best_1, 4 best_2, 5 rand_2 *)
Definition donor_of (code : nat) (cur best : vec) (pop : list vec) (F : Q) (rs : list Z) : vec :=
  let p k := row_of pop (idx rs k) in
  match code with
  | 0 => lin3 best F (p 0) (p 1)
  | 1 => lin3 (p 2) F (p 0) (p 1)
  | 2 => lin5 (p 0) F best (p 0) (p 1) (p 2)        (* x_r1 + F (best - x_r1) + F (x_r2 - x_r3) *)
  | 3 => lin5 cur F best cur (p 0) (p 1)
  | 4 => lin5 best F (p 0) (p 1) (p 2) (p 3)
  | _ => lin5 (p 4) F (p 0) (p 1) (p 2) (p 3)
  end%nat.
Definition n_indices (code : nat) : nat :=
  match code with 0 => 2 | 1 => 3 | 2 => 3 | 3 => 2 | 4 => 4 | _ => 5 end%nat.
Definition de_mutation (code : nat) (cur best : vec) (pop : list vec) (F : Q) : M vec :=
  rs <- sample_distinct pop (n_indices code) ;; ret (donor_of code cur best pop F rs).
(* rand_to_best1 before the repair had the opposite sign on the best-term *)
Definition rand_to_best1_old (cur best : vec) (pop : list vec) (F : Q) : M vec :=
  rs <- sample_distinct pop 3 ;;
  let p k := row_of pop (idx rs k) in
  ret (lin5 (p 0%nat) F (p 0%nat) best (p 1%nat) (p 2%nat)).

(* DifferentialEvolution._get_new_individ_g *)
Definition de_new_individ (code : nat) (cur best : vec) (pop : list vec) (F CR : Q) (l r : vec) : M vec :=
  m <- de_mutation code cur best pop F ;;
  c <- binomial cur m CR ;;
  ret (bounds_control c l r).

(* current_to_pbest_1_archive_p_min(current, population, pbest, F, pop_archive):
     p_i = uniform(2/size, 0.2, 1)[0]                      (DX draw)
     value = int(max(1, p_i*size)); pbest_cut = pbest[:value]
     best = population[pbest_cut[randint(0,len(pbest_cut),1)[0]]]   (DU draw)
     r1 = randint(0,size) ; r2 = randint(0,len(archive))            (DI draws)
     current + F (best - current) + F (population[r1] - archive[r2]) *)
Definition pbest_cut_len (p_i : Q) (size npbest : nat) : nat :=
  let v := Qfloor' (if Qltb 1 (p_i * inject_Z (Z.of_nat size)) then p_i * inject_Z (Z.of_nat size) else 1) in
  Nat.min (Z.to_nat v) npbest.
Definition current_to_pbest (cur : vec) (pop : list vec) (pbest : list Z) (F : Q) (archive : list vec) : M vec :=
  p_i <- popX ;;
  let cut := firstn (pbest_cut_len p_i (length pop) (length pbest)) pbest in
  ks <- randint 0 (Z.of_nat (length cut)) 1 ;;
  let best := row_of pop (nth (Z.to_nat (nth 0 ks 0%Z)) cut 0%Z) in
  r1 <- popI (Z.of_nat (length pop)) ;;
  r2 <- popI (Z.of_nat (length archive)) ;;
  ret (lin5 cur F best cur (row_of pop r1) (row_of archive r2)).
Definition shade_new_individ (cur : vec) (pop : list vec) (pbest : list Z) (F CR : Q) (archive : list vec) (l r : vec) : M vec :=
  m <- current_to_pbest cur pop pbest F archive ;;
  c <- binomial cur m CR ;;
  ret (bounds_control_mean c cur l r).

Definition in_box (l r x : vec) : Prop :=
  length x = length l /\ forall i, (i < length l)%nat -> vnth l i <= vnth x i /\ vnth x i <= vnth r i.

(* greedy replacement: slot i takes the trial iff mask_i *)
Fixpoint select {A} (mask : list bool) (trials pop : list A) : list A :=
  match mask, trials, pop with
  | m :: ms, t :: ts, p :: ps => (if m then t else p) :: select ms ts ps
  | _, _, _ => pop
  end.
